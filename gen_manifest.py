#!/usr/bin/env python3
"""Writes MANIFEST.json from the table below (kept in one place so that it stays valid)."""
import json, os
HERE = os.path.dirname(os.path.abspath(__file__))
NOTE = ("Trusted: Lean 4.33 kernel; axioms propext/Classical.choice/Quot.sound only (audited by #print axioms on every run, "
        "no native_decide/bv_decide/sorry); translator/translate.py (tables from lexer.l, enums, macro.cpp detector grammar, constants); "
        "the correspondence harness (harness/theo_harness.cpp built from /repo's working tree with ASan+UBSan+_GLIBCXX_ASSERTIONS, "
        "Lean driver theodrv, Python generators/oracles). The C++ control flow is modelled by hand-written Lean functions and tied to "
        "the code only by differential correspondence on generated inputs; theorems are about the model.")
CHECKS = {
 'C05': ('proof', 'DESIGN 5/C05', 'Lean proof + differential correspondence',
   "Theorems (Theo/Props/C05.lean) over the VM/debugger model, for every finite history of API calls and every program whose "
   "breakpoint tables list only POTENTIAL_BREAK sites (decidable hypothesis SitesOK, evaluated on every compiled program): the "
   "machine state (ip,data,activations) is always a point of the uninterrupted run (C05_on_path), live code differs from the loaded "
   "code only by POTENTIAL_BREAK->BREAK (C05_code_only_breaks), a debugged run that reaches HALT ends in the uninterrupted run's end "
   "state (C05_same_end). Tie to vm.cpp: state after every API call compared model vs implementation on exhaustive short and random "
   "long histories; the property oracle (position on the recorded uninterrupted path) is evaluated on the implementation."),
 'C06': ('proof', 'DESIGN 5/C06', 'Lean proof + differential correspondence',
   "Theorems (Theo/Props/C06.lean): a single step reports a stop iff HALT / site of an enabled line / any site while stepping "
   "(C06_single_stops_iff, under SitesOK and TablesInverse, both evaluated on every compiled program); execute returns at the first "
   "stop position of the uninterrupted path and leaves debugger state untouched (C06_execute_stops); reported location "
   "(C06_current_break, C06_initial_none); enable succeeds iff available (C06_enable_iff); enabled-set bookkeeping (C06_enabled_set). "
   "Tie to vm.cpp as for C05; oracle recomputes expected stop/return/location/enabled set from the recorded path."),
 'C17': ('proof', 'DESIGN 5/C17', 'Lean proof + differential correspondence',
   "Theorems (Theo/Props/C17.lean): after any history reset() succeeds and yields structurally the freshly constructed machine "
   "(C17_reset_fresh, C17_reset_history), HALT is absorbing for step and execute (C17_end_absorbing). Tie: per-call state comparison "
   "model vs vm.cpp; oracle compares all observable state after reset with a fresh machine and the suffix behaviour."),
 'C19': ('proof', 'DESIGN 5/C19', 'Lean proof + differential correspondence',
   "Theorems (Theo/Props/C19.lean): for every program whose PREPARE counts are non-negative and every history, the data memory is "
   "exactly the frames of the live activations, contiguous in call order (C19_frames_tile), hence its size is the sum of live frame "
   "sizes (C19_memory_is_live_frames). Tie: data/activation geometry after every instruction compared with vm.cpp; the tiling oracle "
   "is evaluated on the implementation's state after every call, incl. calls inside long loops. Found and fixed F6 (RET leak)."),
 'C20': ('proof', 'DESIGN 5/C20', 'Lean proof + differential correspondence',
   "Theorems (Theo/Props/C20.lean): every stored word stays in [0,2^31-1] for programs whose CONST operands are in range "
   "(C20_values_in_range), subtraction truncates, addition beyond the range saturates to a defined value, exact inside "
   "(C20_sub_truncates/_add_saturates/_add_exact). PARTIAL for 'no undefined arithmetic in the C++': that is runtime behaviour the "
   "model cannot exhibit; it is observed by UBSan (fatal) on generated sources with values near 2^31. Found and fixed F7."),
}
man = {
 'version': 1,
 'setup_cmd': 'python3 setup.py',
 'hooks': {'guard': 'THEO_IDE_LIBTHEO_VERIF',
           'enable': 'the harness is compiled with -DTHEO_IDE_LIBTHEO_VERIF (no source hook uses it: private state is read by compiling only harness/theo_harness.cpp with -fno-access-control)',
           'baseline_off_cmd': 'cmake -G Ninja -S /repo -B /repo/_build >/dev/null && cmake --build /repo/_build >/dev/null && ctest --test-dir /repo/_build -j8 --timeout 900',
           'source_commits': [], 'add_only': True},
 'engines': [{'name': 'theomodel', 'path': 'lean', 'serves_properties': sorted(CHECKS),
              'kind_free_text': 'Lean 4 model + theorems (lake project), native driver theodrv'},
             {'name': 'harness', 'path': 'harness/theo_harness.cpp', 'serves_properties': sorted(CHECKS),
              'kind_free_text': 'C++ correspondence harness calling the real API in-process'}],
 'checks': [], 'not_applicable': [],
 'notes': 'See DESIGN.md. Known findings and repaired defects: known_findings.txt.'}
for pid in sorted(CHECKS):
    cat, ref, tech, text = CHECKS[pid]
    man['checks'].append({'property_id': pid, 'quick_cmd': './check.py %s --tier quick' % pid,
                          'thorough_cmd': './check.py %s --tier thorough' % pid,
                          'evidence_file': 'evidence/%s.json' % pid,
                          'replay_cmd_template': './check.py %s --replay {path}' % pid,
                          'engine': 'theomodel', 'technique': tech,
                          'level_claimed': {'category': cat, 'text': text, 'design_ref': ref}, 'level_note': NOTE})
ALL = ['C%02d' % i for i in range(1, 21)]
NA = {}
for pid in ALL:
    if pid not in CHECKS:
        man['not_applicable'].append({'property_id': pid, 'reason': NA.get(pid, 'check under construction in this round: model exists, property check not registered yet')})
json.dump(man, open(os.path.join(HERE, 'MANIFEST.json'), 'w'), indent=1)
print('MANIFEST.json written:', len(man['checks']), 'checks')
