#!/usr/bin/env python3
"""MANIFEST.setup_cmd: build everything the checks need from files on disk (offline)."""
import os, subprocess, sys
sys.path.insert(0, os.path.dirname(os.path.abspath(__file__)))
import vlib
r = subprocess.run([sys.executable, os.path.join(vlib.VERIF, 'translator', 'translate.py')])
if r.returncode != 0:
    sys.exit('translator failed')
ok, out = vlib.lean_build(['Theo', 'theodrv'])
print(out[-2000:])
if not ok:
    sys.exit('lake build failed')
h, err = vlib.build_harness('asan')
if h is None:
    sys.exit('harness build failed:\n' + err)
print('setup ok:', h)
