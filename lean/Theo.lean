import Theo.Model.Basic
import Theo.Model.VM
