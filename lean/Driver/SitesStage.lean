import Driver.FrontStage
import Theo.Spec.Events

namespace Theo.Drv
open Theo Theo.Sem

def handleSites (ws : List String) : String :=
  let (main, files, rest) := readFiles ws
  let budget := match rest.head? with | some b => (if b.startsWith "code=" then 2000 else toNat b) | none => 2000
  let p := parseProgram (fieldsOf rest)
  let pr := parseFiles files main
  if !pr.ast.ok then "SITES parsed=0" else
  let src := toSource pr.ast.root
  let ok := siteCheck src p
  let vs := visits src budget (initial src)
  let sp := sitesPassed p (budget * 8) (VM.mk' p)
  let same := vs == (sp.map (fun x => posOfBp x.1)).take vs.length
  s!"SITES parsed=1 ok={if ok then 1 else 0} shape={if shapeCheck src p then 1 else 0} visits={vs.length} sites={sp.length} agree={if same then 1 else 0}"

end Theo.Drv
