import Driver.FrontStage
import Theo.Spec.Shape

namespace Theo.Drv
open Theo Theo.Sem

def handleShape (ws : List String) : String :=
  let (main, files, rest) := readFiles ws
  let p := parseProgram (fieldsOf rest)
  let pr := parseFiles files main
  if !pr.ast.ok then "SHAPE parsed=0" else
  let src := toSource pr.ast.root
  let ok := shapeCheck src p
  let progsOK := (checkProgs p src src.progs 0 [] 1).isSome
  s!"SHAPE parsed=1 ok={if ok then 1 else 0} progs={src.progs.length} routinesok={if progsOK then 1 else 0} wf={if wfCheck p then 1 else 0}"

end Theo.Drv
