import Driver.Proto
import Theo.Spec.WellFormed

namespace Theo.Drv
open Theo

/-- first annotated pc whose local check fails (diagnostics only) -/
def firstBadPc (p : Program) (c : Cert) : Option Nat :=
  match c with
  | none :: some R :: _ =>
    ((p.code.zipIdx.zip c).find? (fun x =>
      match x.2 with
      | some I => !(x.1.2 != 0 && checkPc p c R.rid x.1.2 x.1.1 I)
      | none => false)).map (·.1.2)
  | _ => some 0

def handleWF (ws : List String) : String :=
  let p := parseProgram (fieldsOf ws)
  let c := inferCert p
  let ok := checkCert p c
  let annotated := (c.filter (·.isSome)).length
  s!"WF ok={if ok then 1 else 0} annotated={annotated} n={p.code.length} routines={numRoutines p}" ++
    (if ok then "" else s!" badpc={firstBadPc p c}")

end Theo.Drv
