/-
  Line-protocol helpers for the model driver (see harness/PROTOCOL.md).
-/
import Theo.Model.Basic
import Theo.Model.VM

namespace Theo.Drv
open Theo

def hexDigit (n : Nat) : Char :=
  if n < 10 then Char.ofNat (48 + n) else Char.ofNat (87 + n)

def hexOf (b : Bytes) : String :=
  String.ofList ('x' :: b.flatMap (fun c => [hexDigit (c.toNat / 16), hexDigit (c.toNat % 16)]))

def hexVal (c : Char) : Nat :=
  if '0' ≤ c ∧ c ≤ '9' then c.toNat - 48
  else if 'a' ≤ c ∧ c ≤ 'f' then c.toNat - 87 else 0

def unhexChars : List Char → Bytes
  | a :: b :: rest => (hexVal a * 16 + hexVal b).toUInt8 :: unhexChars rest
  | _ => []

def unhex (s : String) : Bytes := unhexChars (s.toList.drop 1)

def splitL (s : String) (sep : String) : List String :=
  if s == "-" || s == "" then [] else s.splitOn sep

def toInt (s : String) : Int := s.toInt?.getD 0
def toNat (s : String) : Nat := s.toNat?.getD 0

def joinWith (sep : String) (l : List String) : String :=
  if l.isEmpty then "-" else sep.intercalate l

/-- `key=value` fields of a request -/
def fieldsOf (ws : List String) : List (String × String) :=
  ws.filterMap (fun w =>
    match w.splitOn "=" with
    | k :: v :: rest => some (k, "=".intercalate (v :: rest))
    | _ => none)

def getField (fs : List (String × String)) (k : String) : String :=
  ((fs.find? (fun e => e.1 == k)).map (·.2)).getD "-"

def instrStr : Instr → String
  | .potBreak => "PB" | .brk => "BRK" | .halt => "HALT"
  | .add t s c => s!"ADD.{t}.{s}.{c}"
  | .jmp o => s!"JMP.{o}"
  | .jmpc o s => s!"JMPC.{o}.{s}"
  | .prepare c i t => s!"PREP.{c}.{i}.{t}"
  | .arg t s => s!"ARG.{t}.{s}"
  | .exec e => s!"EXEC.{e}"
  | .ret s => s!"RET.{s}"
  | .const t c => s!"CONST.{t}.{c}"
  | .test t a b => s!"TEST.{t}.{a}.{b}"

def parseInstr (s : String) : Instr :=
  match s.splitOn "." with
  | ["PB"] => .potBreak | ["BRK"] => .brk | ["HALT"] => .halt
  | ["ADD", a, b, c] => .add (toInt a) (toInt b) (toInt c)
  | ["JMP", a] => .jmp (toInt a)
  | ["JMPC", a, b] => .jmpc (toInt a) (toInt b)
  | ["PREP", a, b, c] => .prepare (toInt a) (toInt b) (toInt c)
  | ["ARG", a, b] => .arg (toInt a) (toInt b)
  | ["EXEC", a] => .exec (toInt a)
  | ["RET", a] => .ret (toInt a)
  | ["CONST", a, b] => .const (toInt a) (toInt b)
  | ["TEST", a, b, c] => .test (toInt a) (toInt b) (toInt c)
  | _ => .halt

def bpStr (b : BreakPoint) : String := s!"{hexOf b.file}:{b.line}"

def parseBp (s : String) : BreakPoint :=
  match s.splitOn ":" with
  | [f, l] => ⟨unhex f, toInt l⟩
  | _ => ⟨[], 0⟩

def parseProgram (fs : List (String × String)) : Program :=
  { code := (splitL (getField fs "code") ",").map parseInstr
    stackMaps := (splitL (getField fs "maps") ";").map (fun m =>
      match m.splitOn "/" with
      | [n, es] => ⟨unhex n, (splitL es ".").map (fun e =>
          match e.splitOn ":" with
          | [k, v] => (toInt k, unhex v)
          | _ => (0, []))⟩
      | _ => ⟨[], []⟩)
    potBreaks := (splitL (getField fs "pb") ",").map (fun e =>
      match e.splitOn "/" with
      | [b, is] => (parseBp b, (splitL is ".").map toInt)
      | _ => (⟨[], 0⟩, []))
    lineInfo := (splitL (getField fs "li") ",").map (fun e =>
      match e.splitOn "/" with
      | [i, b] => (toInt i, parseBp b)
      | _ => (0, ⟨[], 0⟩)) }

def programStr (p : Program) : String :=
  "code=" ++ joinWith "," (p.code.map instrStr) ++
  " maps=" ++ joinWith ";" (p.stackMaps.map (fun m =>
      hexOf m.funcName ++ "/" ++ joinWith "." (m.map.map (fun e => s!"{e.1}:{hexOf e.2}")))) ++
  " pb=" ++ joinWith "," (p.potBreaks.map (fun e =>
      bpStr e.1 ++ "/" ++ joinWith "." (e.2.map (fun i => s!"{i}")))) ++
  " li=" ++ joinWith "," (p.lineInfo.map (fun e => s!"{e.1}/{bpStr e.2}"))

def faultStr : Fault → String
  | .oobData => "oobData" | .oobCode => "oobCode"
  | .stackUnderflow => "stackUnderflow" | .badStackMap => "badStackMap"

end Theo.Drv
