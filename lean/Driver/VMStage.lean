import Driver.Proto

namespace Theo.Drv
open Theo

def actsStr (p : Program) (vm : VM) : Except Fault String := do
  let parts ← vm.stack.reverse.mapM (fun a => do
    let vars ← activationVariables p vm a
    let name := match p.stackMaps[a.dbg.toNat]? with
      | some sm => sm.funcName
      | none => []
    pure (hexOf name ++ "@" ++ joinWith "," (vars.map (fun e => s!"{hexOf e.1}={e.2}"))))
  pure (joinWith "/" parts)

def vmDump (p : Program) (vm : VM) (ret : Int) (withActs : Bool) : Except Fault String := do
  let done ← vm.isDone
  let cur := match vm.currentBreak p with
    | some b => bpStr b
    | none => "none"
  let ops ← p.lineInfo.mapM (fun e => do
    let i ← fetch vm.code e.1
    pure (match i with | .brk => "B" | .potBreak => "P" | _ => "?"))
  let base :=
    s!"r={ret};ip={vm.ip};done={if done then 1 else 0};st={if vm.stepping then 1 else 0};cur={cur}" ++
    ";en=" ++ joinWith "," (vm.enabled.map bpStr) ++
    ";data=" ++ joinWith "." (vm.data.map (fun v => s!"{v}")) ++
    ";stk=" ++ joinWith "," (vm.stack.reverse.map (fun a =>
        s!"{a.dataStart}/{a.segSize}/{a.retTarget}/{a.retAddr}/{a.dbg}")) ++
    ";ops=" ++ (if ops.isEmpty then "-" else String.join ops)
  if withActs then
    let a ← actsStr p vm
    pure (base ++ ";acts=" ++ a)
  else pure base

def applyOp (p : Program) (cap : Nat) (vm : VM) (op : String) : Except Fault (VM × Int) :=
  if op == "s" then do
    let (vm', r) ← step vm
    pure (vm', if r then 1 else 0)
  else if op == "e" || op == "E" then do
    match ← execFuel cap vm with
    | some vm' => pure (vm', 1)
    | none =>
      -- fuel exhausted: report the state after `cap` steps, like the capped C++ loop
      let rec run : Nat → VM → Except Fault VM
        | 0, v => pure v
        | n + 1, v => do
          let (v', _) ← step v
          run n v'
      let vm' ← run cap vm
      pure (vm', -1)
  else if op == "c" then do
    let vm' ← vm.clearBreakpoints p
    pure (vm', 0)
  else if op == "r" then do
    let vm' ← vm.reset p
    pure (vm', 0)
  else if op == "t1" then pure (vm.setStepping true, 0)
  else if op == "t0" then pure (vm.setStepping false, 0)
  else if op.startsWith "b:" || op.startsWith "d:" then do
    let bp := parseBp (op.drop 2).toString
    let (vm', r) ← vm.setBreakPoint p bp (op.startsWith "b:")
    pure (vm', if r then 1 else 0)
  else pure (vm, 0)

def handleVM (ws : List String) : String :=
  let fs := fieldsOf ws
  let p := parseProgram fs
  let cap := match getField fs "cap" with | "-" => 100000 | s => toNat s
  let withActs := getField fs "acts" == "1"
  let ops := splitL (getField fs "ops") ","
  let rec go (vm : VM) (ops : List String) (acc : List String) : List String × Option Fault :=
    match ops with
    | [] => (acc.reverse, none)
    | op :: rest =>
      match (do
        let (vm', r) ← applyOp p cap vm op
        let d ← vmDump p vm' r (withActs || op == "v")
        pure (vm', d)) with
      | .ok (vm', d) => go vm' rest (d :: acc)
      | .error f => (acc.reverse, some f)
  let (outs, flt) := go (VM.mk' p) ops []
  match flt with
  | none => "VM " ++ joinWith "|" outs
  | some f => "VM " ++ joinWith "|" (outs ++ ["FAULT:" ++ faultStr f])

end Theo.Drv
