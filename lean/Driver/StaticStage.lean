import Driver.FrontStage
import Theo.Spec.Static

/-! `STATIC <files>`: the verdict of the specification — error-free front end, sentence of the
    grammar (the parser records no error: `C04_parse_iff`), static rules on the typed source. -/
namespace Theo.Drv
open Theo

def handleStatic (ws : List String) : String :=
  let (main, files, _) := readFiles ws
  let r := parseFiles files main
  let shape := AstShape r.ast.root
  let st := staticOK (toSource r.ast.root)
  "STATIC frontok=" ++ (if r.ast.ok then "1" else "0") ++
  " shape=" ++ (if shape then "1" else "0") ++
  " static=" ++ (if st then "1" else "0") ++
  " accept=" ++ (if r.ast.ok && st then "1" else "0")

end Theo.Drv
