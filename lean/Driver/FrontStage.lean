import Driver.Proto
import Theo.Model.Gen

namespace Theo.Drv
open Theo

def tokStr (t : Token) : String := s!"{t.kind}:{hexOf t.text}:{hexOf t.file}:{t.line}"
def toksStr (ts : List Token) : String := joinWith "," (ts.map tokStr)

def parseTok (s : String) : Token :=
  match s.splitOn ":" with
  | [k, t, f, l] => ⟨toNat k, unhex t, unhex f, toInt l⟩
  | _ => default

def parseToks (s : String) : List Token := (splitL s ",").map parseTok

def perrStr (e : PErr) : String := s!"{e.kind}:{hexOf e.file}:{e.line}:{hexOf e.req}"
def perrsStr (es : List PErr) : String := joinWith "," (es.map perrStr)

def idxStr (l : List Nat) : String := joinWith "." (l.map toString)

def macroStr (m : MacroDef) : String :=
  s!"{m.priority}|{toksStr m.rule}|{idxStr m.cc}|{idxStr m.tt}|{toksStr m.body}"

def macrosStr (ms : List MacroDef) : String := joinWith ";" (ms.map macroStr)

def parseMacros (s : String) : List MacroDef :=
  (splitL s ";").map (fun m =>
    match m.splitOn "|" with
    | [p, r, c, t, b] => ⟨toInt p, parseToks r, (splitL c ".").map toNat, (splitL t ".").map toNat, parseToks b⟩
    | _ => default)

/-- `xmain n (xname xcontent)*` followed by the remaining words -/
def readFiles (ws : List String) : Bytes × Files × List String :=
  match ws with
  | m :: n :: rest =>
    let k := toNat n
    let rec go : Nat → List String → Files → Files × List String
      | 0, r, acc => (acc.reverse, r)
      | i + 1, a :: b :: r, acc => go i r ((unhex a, unhex b) :: acc)
      | _, r, acc => (acc.reverse, r)
    let (fs, r) := go k rest []
    (unhex m, fs, r)
  | _ => ([], [], [])

def handleLex (ws : List String) : String :=
  match ws with
  | [_, c] =>
    let toks := (lexBuffer (unhex c)).map (fun r => (⟨r.kind, r.text, [102], r.line⟩ : Token))
    "LEX toks=" ++ toksStr toks
  | _ => "BADREQ"

def handleScan (ws : List String) : String :=
  let (main, files, _) := readFiles ws
  let r := scan files main
  "SCAN toks=" ++ toksStr r.toks ++ " errs=" ++ perrsStr r.errs ++ (if r.fuelOut then " FUELOUT" else "")

def handleExtract (ws : List String) : String :=
  match ws with
  | [t] =>
    let r := extractMacros (parseToks t)
    "EXTRACT out=" ++ toksStr r.toks ++ " macros=" ++ macrosStr r.macros ++ " errs=" ++ perrsStr r.errs
  | _ => "BADREQ"

def handleApply (ws : List String) : String :=
  match ws with
  | [p, m, t] =>
    let r := applyMacros (parseToks t) (parseMacros m) (toNat p)
    "APPLY toks=" ++ toksStr r.toks ++ " errs=" ++ perrsStr r.errs ++ s!" rewrites={r.rewrites}"
  | _ => "BADREQ"

def synKindStr : SynKind → String
  | .expectedToken => "expectedToken" | .missingSemi => "missingSemi"
  | .progNotAllowed => "progNotAllowed" | .expectedAssign => "expectedAssign"
  | .expectedComponent => "expectedComponent" | .excessSemi => "excessSemi"
  | .expectedValue => "expectedValue" | .excessInput => "excessInput"
  | .forwarded k => s!"PE{k}" | .fuel => "FUEL"

partial def nodeStr : Node → String
  | .nil => "-"
  | .mk t tok file line l r => s!"({t}:{hexOf tok}:{hexOf file}:{line},{nodeStr l},{nodeStr r})"

def handleParse (ws : List String) : String :=
  let (main, files, _) := readFiles ws
  let r := parseFiles files main
  "PARSE ok=" ++ (if r.ast.ok then "1" else "0") ++
  " errs=" ++ joinWith "," (r.ast.errs.map (fun e => s!"{synKindStr e.kind}:{hexOf e.file}:{e.line}")) ++
  " req=" ++ joinWith "," (r.missing.map hexOf) ++
  " ast=" ++ nodeStr r.ast.root

def handleGen (ws : List String) : String :=
  let (main, files, _) := readFiles ws
  let r := compile files main
  "GEN ok=" ++ (if r.ok then "1" else "0") ++
  " errs=" ++ joinWith "," (r.errors.map (fun e => s!"{e.kind}:{hexOf e.file}:{e.line}")) ++
  " req=" ++ joinWith "," (r.requests.map hexOf) ++ " " ++ programStr r.code

end Theo.Drv
