import Driver.VMStage
import Driver.FrontStage
import Driver.LRStage
import Driver.WFStage
import Driver.SemStage
import Driver.ShapeStage
import Driver.SitesStage
import Driver.StaticStage

open Theo.Drv

def handle (line : String) : String :=
  let ws := (line.trimAscii.toString.splitOn " ").filter (· ≠ "")
  match ws with
  | "VM" :: rest => handleVM rest
  | "LEX" :: rest => handleLex rest
  | "SCAN" :: rest => handleScan rest
  | "EXTRACT" :: rest => handleExtract rest
  | "APPLY" :: rest => handleApply rest
  | "PARSE" :: rest => handleParse rest
  | "GEN" :: rest => handleGen rest
  | "LR" :: rest => handleLR rest
  | "WF" :: rest => handleWF rest
  | "SEM" :: rest => handleSem rest
  | "SHAPE" :: rest => handleShape rest
  | "SITES" :: rest => handleSites rest
  | "STATIC" :: rest => handleStatic rest
  | _ => "BADREQ"

partial def loop (h : IO.FS.Stream) (out : IO.FS.Stream) : IO Unit := do
  let line ← h.getLine
  if line.isEmpty then return ()
  out.putStrLn (handle line)
  out.flush
  loop h out

def main : IO Unit := do loop (← IO.getStdin) (← IO.getStdout)
