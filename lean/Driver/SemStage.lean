import Driver.FrontStage
import Theo.Spec.Semantics

namespace Theo.Drv
open Theo Theo.Sem

def envStr (ρ : Env) : String :=
  let sorted := insertionSort (fun (a b : Name × Nat) => bytesLt a.1 b.1) ρ
  joinWith "," (sorted.map (fun e => s!"{hexOf e.1}={e.2}"))

def handleSem (ws : List String) : String :=
  let (main, files, rest) := readFiles ws
  let budget := match rest with | b :: _ => toNat b | [] => 100000
  let pr := parseFiles files main
  if !pr.ast.ok then "SEM ok=0" else
  let src := toSource pr.ast.root
  let (c, n) := run src budget (initial src) 0
  let st := match c.status with | .running => "running" | .halted => "halted" | .stuck => "stuck"
  let acts := joinWith "/" (c.stack.reverse.map (fun fr =>
    let name := match src.progs[fr.routine]? with | some p => p.name | none => bRoot
    hexOf name ++ "@" ++ envStr fr.env))
  s!"SEM ok=1 status={st} steps={n} depth={c.stack.length} acts={acts}"

end Theo.Drv
