import Driver.Proto
import Theo.Model.LR

namespace Theo.Drv
open Theo

def parseSym (s : String) : Sym :=
  if s.startsWith "t" then .t (toNat (s.drop 1).toString)
  else if s.startsWith "n" then .n (toNat (s.drop 1).toString)
  else .eps

def symStr : Sym → String
  | .eps => "e" | .t i => s!"t{i}" | .n i => s!"n{i}"

structure LRReq where
  numNT : Nat
  rules : List (Nat × List Sym)
  start : Nat
  eof : Nat
  prefixMode : Bool

def parseGrammar (g : String) : LRReq :=
  match g.splitOn ";" with
  | [n, rs, s, e, p] =>
    { numNT := toNat n
      rules := (splitL rs "|").map (fun r =>
        match r.splitOn ":" with
        | [l, rhs] => (toNat l, (splitL rhs ".").map parseSym)
        | _ => (0, []))
      start := toNat s, eof := toNat e, prefixMode := p == "1" || p == "3" }   -- 2 / 3: the caller computed FIRST beforehand (no effect on a pure model)
  | _ => ⟨0, [], 0, 0, false⟩

/-- rule number (order of `add` calls) of alternative `alt` of `left` -/
def ruleIndex (rules : List (Nat × List Sym)) (left alt : Nat) : Nat :=
  let rec go : List (Nat × List Sym) → Nat → Nat → Nat
    | [], _, k => k
    | r :: rs, seen, k => if r.1 = left then (if seen = alt then k else go rs (seen + 1) (k + 1)) else go rs seen (k + 1)
  go rules 0 0

def handleLR (ws : List String) : String :=
  match ws with
  | g :: rest =>
    let inputs := rest.head?.getD "-"
    let r := parseGrammar g
    let gr := Grammar.ofRules r.numNT r.rules
    let fi := firstSets gr
    let first := joinWith ";" ((List.range r.numNT).map (fun i =>
      let ts := (insertionSort (fun a b => decide (a < b)) (fi.firstOf i)).map (fun t => s!"t{t}")
      s!"n{i}:" ++ joinWith "." ((if fi.nullOf i then ["e"] else []) ++ ts)))
    let (T, nstates) := genTables gr r.start r.eof r.prefixMode 3000
    let conf := joinWith "," (T.conflicts.map (fun c => s!"{c.kind}:{c.state}:{c.terminal}"))
    let act := joinWith ";" (T.action.map (fun row => ".".intercalate (row.map (fun a =>
      match a with
      | .err => "e" | .shift s => s!"s{s}" | .accept => "a"
      | .reduce l a b => s!"r{l}/{b}/({ruleIndex r.rules l a})"))))
    let jmp := joinWith ";" (T.goto.map (fun row => ".".intercalate (row.map toString)))
    let parses := joinWith "/" ((splitL inputs "/").map (fun inp =>
      if !T.conflicts.isEmpty then "X" else
      let toks := (splitL inp ".").map toNat
      match lrParse T (fun (t : Nat) => t) (fun t => s!"t{t}")
          (fun l a popped => s!"({ruleIndex r.rules l a}" ++ String.join (popped.map (fun c => "_" ++ c)) ++ ")")
          40000 toks [0] [] with
      | .accept v => "A" ++ v
      | .reject => "R"
      | .stuck => "S"
      | .fuelOut => "L"))
    s!"LR first={first} nstates={nstates} conf={conf} act={act} jump={jmp} parses={parses}"
  | _ => "BADREQ"

end Theo.Drv
