/-
  C04 (static rules), part 2: the dispatch functions of the generator as equations over named
  straight-line pieces (`progPre`, `loopMid`, …), so that the invariant proofs can treat each
  piece on its own.
-/
import Theo.Proofs.StaticGS

namespace Theo
namespace Static
open GS

/-- the part of `dispatchValue` for CALL nodes after the arguments were evaluated -/
def callTail (gs : GS) (arglocs : List Int) (l r : Node) (tgt : Int) : GS :=
  let funcname := l.tok
  let rco := arglocs.length = 2 ∧ r.left.ty = NodeT.NAME ∧ r.right.left.ty = NodeT.NUMBER
  if (funcname = bINC ∨ funcname = bDEC) ∧ rco then
    let cs := toInt32 (strtolNat r.right.left.tok)
    let a0 := (arglocs[0]?).getD 0
    if funcname = bINC then gs.emit (.add tgt a0 cs) else gs.emit (.add tgt a0 (negInt32 cs))
  else
    match gs.lookupFunc funcname with
    | none => gs.err GErrT.UNKNOWN_PROGRAM_NAME
    | some p =>
      if p.argnum ≠ arglocs.length then gs.err GErrT.ARGSIZE_MISMATCH else
      let gs := gs.emit (.prepare p.stackSize p.mi tgt)
      let gs := arglocs.zipIdx.foldl (fun g a => (g.emit (.arg a.2 a.1)).releaseTemporary a.1) gs
      gs.emit (.exec p.ind)

theorem dispatchValue_zero (gs : GS) (n : Node) (tgt : Int) : dispatchValue 0 gs n tgt = gs := by
  rw [dispatchValue]
theorem dispatchValue_nil (f : Nat) (gs : GS) (tgt : Int) : dispatchValue f gs .nil tgt = gs := by
  cases f
  · rw [dispatchValue]
  · rw [dispatchValue]; exact Nat.succ_ne_zero _

theorem dispatchValue_succ (f : Nat) (gs : GS) (t : Nat) (tok file : Bytes) (line : Int) (l r : Node) (tgt : Int) :
    dispatchValue (f+1) gs (.mk t tok file line l r) tgt =
      if t = NodeT.NAME then
        ((gs.advanceLine line file).fetchVar tok).1.emit (.add tgt ((gs.advanceLine line file).fetchVar tok).2 0)
      else if t = NodeT.NUMBER then
        (genStrToInt (gs.advanceLine line file) tok).1.emit (.const tgt (genStrToInt (gs.advanceLine line file) tok).2)
      else if t = NodeT.CALL then
        callTail (dispatchCallArgs f (gs.advanceLine line file) r []).1
          (dispatchCallArgs f (gs.advanceLine line file) r []).2 l r tgt
      else (gs.advanceLine line file).err GErrT.MALFORMED_AST := by
  rw [dispatchValue]
  rfl

theorem dispatchCallArgs_zero (gs : GS) (n : Node) (acc : List Int) : dispatchCallArgs 0 gs n acc = (gs, acc) := by
  rw [dispatchCallArgs]
theorem dispatchCallArgs_nil (f : Nat) (gs : GS) (acc : List Int) : dispatchCallArgs f gs .nil acc = (gs, acc) := by
  cases f
  · rw [dispatchCallArgs]
  · rw [dispatchCallArgs]; exact Nat.succ_ne_zero _
theorem dispatchCallArgs_succ (f : Nat) (gs : GS) (t : Nat) (tok file : Bytes) (line : Int) (l r : Node) (acc : List Int) :
    dispatchCallArgs (f+1) gs (.mk t tok file line l r) acc =
      if t = NodeT.SPLIT then
        dispatchCallArgs f (dispatchCallArgs f gs l acc).1 r (dispatchCallArgs f gs l acc).2
      else
        (dispatchValue f gs.fetchTemporary.1 (.mk t tok file line l r) gs.fetchTemporary.2,
          acc ++ [gs.fetchTemporary.2]) := by
  rw [dispatchCallArgs]

theorem dispatchArgs_zero (gs : GS) (n : Node) : dispatchArgs 0 gs n = gs := by rw [dispatchArgs]
theorem dispatchArgs_nil (f : Nat) (gs : GS) : dispatchArgs f gs .nil = gs := by
  cases f
  · rw [dispatchArgs]
  · rw [dispatchArgs]; exact Nat.succ_ne_zero _
theorem dispatchArgs_succ (f : Nat) (gs : GS) (t : Nat) (tok file : Bytes) (line : Int) (l r : Node) :
    dispatchArgs (f+1) gs (.mk t tok file line l r) =
      if t = NodeT.SPLIT then dispatchArgs f (dispatchArgs f gs l) r
      else
        let gs1 := if (findReg gs.top.regs tok 0).isSome then gs.err GErrT.INTERNAL_ERROR else gs
        (({ gs1 with symbols := { gs1.top with argnum := gs1.top.argnum + 1 } :: gs1.symbols.drop 1 } : GS).fetchVar tok).1 := by
  rw [dispatchArgs]

/-! ### pieces of `dispatchVoid` -/

def progPre (gs0 : GS) (nameTok : Bytes) : GS × Nat :=
  let gs := gs0.removeTopPotBreak
  let c := gs.createLabel
  ((c.1.emitBackpatched (.jmp c.2)).pushSymbols nameTok, c.2)

def outNameOf (outNode : Node) : Bytes := match outNode with | .nil => bX0 | n => n.tok

def progPost (gs : GS) (outName : Bytes) (entry : Int) (after : Nat) : GS :=
  let fv := gs.fetchVar outName
  let gs := fv.1.emit (.ret fv.2)
  let gs := gs.popSymbols entry
  gs.setLabel after gs.nextPos

def loopPre (gs0 : GS) : GS × Int :=
  let gs : GS := { gs0 with loops := gs0.loops + 1 }
  gs.fetchVar (bLoopVar ++ gs.fsName ++ [58] ++ intDec gs.fsLine ++ [91] ++ natDigits gs.loops ++ [93])

def loopMid (gs : GS) (counter : Int) : GS × Nat × Nat :=
  let c1 := gs.createLabel
  let c2 := c1.1.createLabel
  let g := c2.1.setLabel c1.2 c2.1.nextPos
  (g.emitBackpatched (.jmpc c2.2 counter), c1.2, c2.2)

def loopPost (gs : GS) (counter : Int) (startL endL : Nat) : GS :=
  let g := gs.emit (.add counter counter (-1))
  let g := g.emitBackpatched (.jmp startL)
  g.setLabel endL g.nextPos

def whilePre (gs0 : GS) : GS × Nat × Nat × Int :=
  let c1 := gs0.createLabel
  let c2 := c1.1.createLabel
  let t := c2.1.fetchTemporary
  (t.1.setLabel c1.2 t.1.nextPos, c1.2, c2.2, t.2)

def whilePost (gs : GS) (startL endL : Nat) (cond : Int) : GS :=
  let g := gs.emitBackpatched (.jmp startL)
  let g := g.setLabel endL g.nextPos
  g.releaseTemporary cond

def ifPre (gs0 : GS) : GS × Int × Int × Int :=
  let t1 := gs0.fetchTemporary
  let t2 := t1.1.fetchTemporary
  let t3 := t2.1.fetchTemporary
  (t3.1, t1.2, t2.2, t3.2)

def ifPost (gs : GS) (cond op1 op2 : Int) (m : Bytes) : GS :=
  let g := gs.emit (.test cond op1 op2)
  let ml := g.markLabel m
  let g := ml.1.emitBackpatched (.jmpc ml.2 cond)
  ((g.releaseTemporary cond).releaseTemporary op1).releaseTemporary op2

theorem dispatchVoid_zero (gs : GS) (n : Node) : dispatchVoid 0 gs n = gs := by rw [dispatchVoid]
theorem dispatchVoid_nil (f : Nat) (gs : GS) : dispatchVoid f gs .nil = gs := by
  cases f
  · rw [dispatchVoid]
  · rw [dispatchVoid]; exact Nat.succ_ne_zero _

theorem dispatchVoid_succ (f : Nat) (gs : GS) (t : Nat) (tok file : Bytes) (line : Int) (l r : Node) :
    dispatchVoid (f+1) gs (.mk t tok file line l r) =
      let gs0 := gs.advanceLine line file
      if t = NodeT.SPLIT then dispatchVoid f (dispatchVoid f gs0 l) r
      else if t = NodeT.PROGRAM then
        let p := progPre gs0 l.left.tok
        let g := dispatchArgs f p.1 l.right.left
        progPost (dispatchVoid f g r) (outNameOf l.right.right) g.nextPos p.2
      else if t = NodeT.ASSIGN then
        dispatchValue f (gs0.fetchVar l.tok).1 r (gs0.fetchVar l.tok).2
      else if t = NodeT.LOOP then
        let p := loopPre gs0
        let m := loopMid (dispatchValue f p.1 l p.2) p.2
        loopPost (dispatchVoid f m.1 r) p.2 m.2.1 m.2.2
      else if t = NodeT.WHILE then
        let p := whilePre gs0
        let g := (dispatchValue f p.1 l p.2.2.2).emitBackpatched (.jmpc p.2.2.1 p.2.2.2)
        whilePost (dispatchVoid f g r) p.2.1 p.2.2.1 p.2.2.2
      else if t = NodeT.MARK then
        (gs0.markLabel l.tok).1.setLabel (gs0.markLabel l.tok).2 (gs0.markLabel l.tok).1.markPos
      else if t = NodeT.GOTO then
        (gs0.markLabel l.tok).1.emitBackpatched (.jmp (gs0.markLabel l.tok).2)
      else if t = NodeT.IF then
        let p := ifPre gs0
        ifPost (dispatchValue f (dispatchValue f p.1 l.left p.2.2.1) l.right p.2.2.2) p.2.1 p.2.2.1 p.2.2.2 r.left.tok
      else if t = NodeT.STOP then gs0.emit .halt
      else gs0.err GErrT.MALFORMED_AST := by
  rw [dispatchVoid]
  rfl

end Static
end Theo
