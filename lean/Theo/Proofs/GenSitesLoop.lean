/-
  C07 for the generator model, part 4: LOOP and WHILE — the frame around the body: two real
  instructions in front (behind the header's site), the closing instructions behind, no site of
  their own, and the exit / back-edge land exactly (`loopJumpsExact`).
-/
import Theo.Proofs.GenSitesStmt

set_option linter.unusedSimpArgs false
set_option linter.unusedVariables false

namespace Theo
namespace GenSites
open GS Sem Static GenShape Layout

/-- what the frame of a loop does; `back` = where the back-edge lands -/
structure LoopFacts (X : RC) (gs0 m1 b res : GS) (back : Nat) : Prop where
  lkb : SLinks X b
  mcode : ∃ i1 i2, i1 ≠ Instr.potBreak ∧ i2 ≠ Instr.potBreak ∧ m1.code = gs0.code ++ [i1, i2]
  mli : m1.lineInfo = gs0.lineInfo
  mfsName : m1.fsName = gs0.fsName
  mfsLine : m1.fsLine = gs0.fsLine
  rcode : ∃ t, (∀ i ∈ t, i ≠ Instr.potBreak) ∧ (∃ i, t.getLast? = some i) ∧ res.code = b.code ++ t
  rli : res.lineInfo = b.lineInfo
  rfsName : res.fsName = b.fsName
  rfsLine : res.fsLine = b.fsLine
  rmarks : res.top.marks = b.top.marks
  rlabels : ∀ m lab, (m, lab) ∈ b.top.marks → res.labels[lab]? = b.labels[lab]?
  jumps : loopJumpsExact X.C (gs0.code.length + 1) back res.code.length = true

theorem nosite_loopPre (gs0 : GS) : NoSite gs0 (loopPre gs0).1 := by
  rw [loopPre_eq]
  exact (NoSite.of_same (a := gs0) (b := { gs0 with loops := gs0.loops + 1 }) ⟨rfl, rfl, rfl, rfl⟩ rfl).trans
    (nosite_fetchVar _ _)

theorem nosite_whilePre (gs0 : GS) : NoSite gs0 (whilePre gs0).1 := by
  unfold whilePre
  dsimp only
  exact (((nosite_createLabel gs0).trans (nosite_createLabel _)).trans (nosite_fetchTemporary _)).trans (nosite_setLabel _ _ _)

theorem loopJumpsExact_ok {C : List Instr} {jc back hi : Nat} {offE offL s : Int}
    (h1 : C[jc]? = some (.jmpc offE s)) (h2 : C[hi - 1]? = some (.jmp offL))
    (h3 : (jc : Int) + offE = (hi : Int)) (h4 : ((hi - 1 : Nat) : Int) + offL = (back : Int)) :
    loopJumpsExact C jc back hi = true := by
  unfold loopJumpsExact
  simp only [h1, h2]
  simp [h3, h4]

theorem loop_facts {X : RC} (f : Nat) (gs0 : GS) (l r : Node)
    (tkx fa : Bytes) (la : Int) (a1 a2 : Node) (hl : l = .mk NodeT.NAME tkx fa la a1 a2) (hx : PV tkx)
    (hon : onLine gs0.fsName gs0.fsLine fa la = true) (w0 : MarksWF gs0) (h0 : 0 < gs0.code.length)
    (p1 : GS) (counter : Int) (hp : loopPre gs0 = (p1, counter))
    (v : GS) (hv : v = dispatchValue (f+1) p1 l counter)
    (m1 : GS) (startL endL : Nat) (hm : loopMid v counter = (m1, startL, endL))
    (b : GS) (sb : SQ m1 b r) (stb : Step m1 b)
    (res : GS) (hres : res = loopPost b counter startL endL) (lk : SLinks X res) :
    LoopFacts X gs0 m1 b res (gs0.code.length + 1) := by
  subst hl
  have sp := loopPre_spec gs0
  have np := nosite_loopPre gs0
  rw [hp] at sp np
  simp only at sp np
  have vk := vk_value (f+1) p1 (.mk NodeT.NAME tkx fa la a1 a2) counter
    (by rw [valNames_mk, if_neg (by decide), if_pos rfl]; exact hx)
  obtain ⟨i1, hi1, vcode⟩ := name_code f p1 tkx fa la a1 a2 counter (by rw [np.fsName, np.fsLine]; exact hon)
  have nv := nosite_value (f+1) p1 (.mk NodeT.NAME tkx fa la a1 a2) counter (by
    rw [valLay_mk, if_neg (fun h => by cases h.1), if_neg (by decide), np.fsName, np.fsLine, hon]; rfl)
  rw [← hv] at vk vcode nv
  -- the middle piece
  have hs : startL = v.labels.length := by have := loopMid_startL v counter; rw [hm] at this; exact this
  have he : endL = v.labels.length + 1 := by have := loopMid_endL v counter; rw [hm] at this; exact this
  have mcode : m1.code = v.code ++ [.jmpc (endL : Int) counter] := by have := loopMid_code v counter; rw [hm] at this; exact this
  have mlabels : m1.labels = (v.labels ++ [-1] ++ [-1]).set v.labels.length (v.code.length : Int) := by
    have := loopMid_labels v counter; rw [hm] at this; exact this
  have msym : m1.symbols = v.symbols := by have := loopMid_symbols v counter; rw [hm] at this; exact this
  have mq : GQ v m1 := by have := loopMid_gq v counter; rw [hm] at this; exact this
  have mli : m1.lineInfo = v.lineInfo := by have : (loopMid v counter).1.lineInfo = v.lineInfo := rfl; rw [hm] at this; exact this
  have mfn : m1.fsName = v.fsName := by have : (loopMid v counter).1.fsName = v.fsName := rfl; rw [hm] at this; exact this
  have mfl : m1.fsLine = v.fsLine := by have : (loopMid v counter).1.fsLine = v.fsLine := rfl; rw [hm] at this; exact this
  -- the end piece
  have rcode : res.code = b.code ++ [.add counter counter (-1), .jmp (startL : Int)] := by rw [hres]; exact loopPost_code _ _ _ _
  have rlabels : res.labels = b.labels.set endL ((b.code.length + 2 : Nat) : Int) := by rw [hres]; exact loopPost_labels _ _ _ _
  have rtop : res.top = b.top := by rw [hres]; exact top_congr (loopPost_symbols _ _ _ _)
  have rq : GQ b res := by rw [hres]; exact loopPost_gq _ _ _ _
  have rli : res.lineInfo = b.lineInfo := by rw [hres]; rfl
  have rfn : res.fsName = b.fsName := by rw [hres]; rfl
  have rfl' : res.fsLine = b.fsLine := by rw [hres]; rfl
  -- labels
  have hvl : v.labels = gs0.labels := by rw [vk.vq.labels, sp.labels]
  have hml : m1.labels.length = gs0.labels.length + 2 := by rw [mlabels, hvl]; simp
  have hs' : startL = gs0.labels.length := by rw [hs, hvl]
  have he' : endL = gs0.labels.length + 1 := by rw [he, hvl]
  have hbl := stb.lablen
  have hmm : m1.top.marks = gs0.top.marks := by rw [top_congr msym, vk.vq.marks, sp.marks]
  have hnm : ∀ e ∈ b.top.marks, e.2 < gs0.labels.length ∨ gs0.labels.length + 2 ≤ e.2 := by
    intro e hin
    rcases stb.new e hin with h | h
    · exact Or.inl (w0.lt e (hmm ▸ h))
    · exact Or.inr (by omega)
  have hbs : b.labels[startL]? = some (v.code.length : Int) := by
    rw [sb.frame startL (by rw [hml, hs, hvl]; omega) (fun m _ hin => by
      rcases hnm _ hin with h | h <;> (simp only at h; rw [hs, hvl] at h; omega))]
    rw [mlabels, hs, List.getElem?_set_self (by simp)]
  have hbe : b.labels[endL]? = some (-1) := by
    rw [sb.frame endL (by rw [hml, he, hvl]; omega) (fun m _ hin => by
      rcases hnm _ hin with h | h <;> (simp only at h; rw [he, hvl] at h; omega))]
    rw [mlabels, he, List.getElem?_set_ne (by omega), List.getElem?_append_right (by simp)]
    simp
  have lkb : SLinks X b := by
    refine lk.back rq (fun e hin => Or.inl (rtop ▸ hin)) ?_
    intro x y hxy hy _
    rw [rlabels]
    by_cases hxe : x = endL
    · subst hxe; rw [hbe] at hxy; exact absurd (Option.some.inj hxy).symm hy
    · rw [List.getElem?_set_ne (fun h => hxe h.symm)]; exact hxy
  have hnmr : ∀ x, x = startL ∨ x = endL → ∀ e ∈ res.top.marks, e.2 ≠ x := by
    intro x hx e hin
    rw [rtop] at hin
    have := hnm e hin
    omega
  have Ls : (X.L[startL]?).getD (-1) = (v.code.length : Int) := by
    refine lk.fin startL _ ?_ (by omega) (hnmr _ (Or.inl rfl))
    rw [rlabels, List.getElem?_set_ne (by omega)]; exact hbs
  have Le : (X.L[endL]?).getD (-1) = ((b.code.length + 2 : Nat) : Int) := by
    refine lk.fin endL _ ?_ (by omega) (hnmr _ (Or.inr rfl))
    rw [rlabels, List.getElem?_set_self (by omega)]
  have hvlen : v.code.length = gs0.code.length + 1 := by rw [vcode, sp.code]; simp
  have hm1pre : m1.code <+: res.code := sb.gq.code.trans rq.code
  have hrlen : res.code.length = b.code.length + 2 := by rw [rcode]; simp
  have hmc : ∃ i1 i2, i1 ≠ Instr.potBreak ∧ i2 ≠ Instr.potBreak ∧ m1.code = gs0.code ++ [i1, i2] :=
    ⟨i1, .jmpc (endL : Int) counter, hi1, (by intro h; cases h), (by rw [mcode, vcode, sp.code]; simp)⟩
  have hrc : ∃ t, (∀ i ∈ t, i ≠ Instr.potBreak) ∧ (∃ i, t.getLast? = some i) ∧ res.code = b.code ++ t := by
    refine ⟨[.add counter counter (-1), .jmp (startL : Int)], ?_, ⟨.jmp (startL : Int), rfl⟩, rcode⟩
    intro i hi
    simp at hi
    rcases hi with rfl | rfl <;> (intro h; cases h)
  refine ⟨lkb, hmc, (by rw [mli, nv.lineInfo, np.lineInfo]), (by rw [mfn, nv.fsName, np.fsName]),
    (by rw [mfl, nv.fsLine, np.fsLine]), hrc, rli, rfn, rfl', (by rw [rtop]), ?_, ?_⟩
  · intro m lab hin
    have := hnm _ hin
    simp only at this
    rw [rlabels, List.getElem?_set_ne (by omega)]
  · have c1 : X.C[gs0.code.length + 1]? = some (.jmpc ((X.L[endL]?).getD (-1) - ((gs0.code.length + 1 : Nat) : Int)) counter) := by
      have := lk.agree (gs0.code.length + 1) (.jmpc (endL : Int) counter) (by omega)
        (prefix_getElem? hm1pre (by rw [mcode, ← hvlen]; exact getElem?_snoc_len _ _))
      rw [this, patch_jmpc]
    have c2 : X.C[res.code.length - 1]? = some (.jmp ((X.L[startL]?).getD (-1) - ((b.code.length + 1 : Nat) : Int))) := by
      have := lk.agree (b.code.length + 1) (.jmp (startL : Int)) (by omega)
        (by rw [rcode, List.getElem?_append_right (by omega)]; simp)
      rw [hrlen, show b.code.length + 2 - 1 = b.code.length + 1 by omega, this, patch_jmp]
    refine loopJumpsExact_ok c1 c2 ?_ ?_
    · rw [Le, hrlen]; omega
    · rw [Ls, hrlen, hvlen]; omega

theorem while_facts {X : RC} (f : Nat) (gs0 : GS) (l r : Node)
    (tkx fa : Bytes) (la : Int) (a1 a2 : Node) (hl : l = .mk NodeT.NAME tkx fa la a1 a2) (hx : PV tkx)
    (hon : onLine gs0.fsName gs0.fsLine fa la = true) (w0 : MarksWF gs0) (h0 : 0 < gs0.code.length)
    (p1 : GS) (startL endL : Nat) (cond : Int) (hp : whilePre gs0 = (p1, startL, endL, cond))
    (v : GS) (hv : v = dispatchValue (f+1) p1 l cond)
    (b : GS) (sb : SQ (v.emitBackpatched (.jmpc endL cond)) b r) (stb : Step (v.emitBackpatched (.jmpc endL cond)) b)
    (res : GS) (hres : res = whilePost b startL endL cond) (lk : SLinks X res) :
    LoopFacts X gs0 (v.emitBackpatched (.jmpc endL cond)) b res gs0.code.length := by
  subst hl
  have sp := whilePre_spec' gs0
  have np := nosite_whilePre gs0
  rw [hp] at sp np
  simp only at sp np
  have vk := vk_value (f+1) p1 (.mk NodeT.NAME tkx fa la a1 a2) cond
    (by rw [valNames_mk, if_neg (by decide), if_pos rfl]; exact hx)
  obtain ⟨i1, hi1, vcode⟩ := name_code f p1 tkx fa la a1 a2 cond (by rw [np.fsName, np.fsLine]; exact hon)
  have nv := nosite_value (f+1) p1 (.mk NodeT.NAME tkx fa la a1 a2) cond (by
    rw [valLay_mk, if_neg (fun h => by cases h.1), if_neg (by decide), np.fsName, np.fsLine, hon]; rfl)
  rw [← hv] at vk vcode nv
  have mcode : (v.emitBackpatched (.jmpc endL cond)).code = v.code ++ [.jmpc (endL : Int) cond] := rfl
  have mlab : (v.emitBackpatched (.jmpc endL cond)).labels = v.labels := rfl
  have mtop : (v.emitBackpatched (.jmpc endL cond)).top = v.top := rfl
  have mq : GQ v (v.emitBackpatched (.jmpc endL cond)) := gq_emitBackpatched _ _
  have mli : (v.emitBackpatched (.jmpc endL cond)).lineInfo = v.lineInfo := rfl
  have mfn : (v.emitBackpatched (.jmpc endL cond)).fsName = v.fsName := rfl
  have mfl : (v.emitBackpatched (.jmpc endL cond)).fsLine = v.fsLine := rfl
  generalize v.emitBackpatched (.jmpc endL cond) = m1 at *
  have rcode : res.code = b.code ++ [.jmp (startL : Int)] := by rw [hres]; exact whilePost_code _ _ _ _
  have rlabels : res.labels = b.labels.set endL ((b.code.length + 1 : Nat) : Int) := by rw [hres]; exact whilePost_labels _ _ _ _
  have rmarks : res.top.marks = b.top.marks := by rw [hres]; rfl
  have rq : GQ b res := by rw [hres]; exact (whilePost_vq _ _ _ _).1
  have rli : res.lineInfo = b.lineInfo := by rw [hres]; rfl
  have rfn : res.fsName = b.fsName := by rw [hres]; rfl
  have rfl' : res.fsLine = b.fsLine := by rw [hres]; rfl
  have hvl : v.labels = (gs0.labels ++ [-1] ++ [-1]).set gs0.labels.length (gs0.code.length : Int) := by
    rw [vk.vq.labels, sp.labels]
  have hml : m1.labels.length = gs0.labels.length + 2 := by rw [mlab, hvl]; simp
  have hs' := sp.startL
  have he' := sp.endL
  have hbl := stb.lablen
  have hmm : m1.top.marks = gs0.top.marks := by rw [mtop, vk.vq.marks, sp.marks]
  have hnm : ∀ e ∈ b.top.marks, e.2 < gs0.labels.length ∨ gs0.labels.length + 2 ≤ e.2 := by
    intro e hin
    rcases stb.new e hin with h | h
    · exact Or.inl (w0.lt e (hmm ▸ h))
    · exact Or.inr (by omega)
  have hbs : b.labels[startL]? = some (gs0.code.length : Int) := by
    rw [sb.frame startL (by omega) (fun m _ hin => by have := hnm _ hin; simp only at this; omega)]
    rw [mlab, hvl, hs', List.getElem?_set_self (by simp)]
  have hbe : b.labels[endL]? = some (-1) := by
    rw [sb.frame endL (by omega) (fun m _ hin => by have := hnm _ hin; simp only at this; omega)]
    rw [mlab, hvl, he', List.getElem?_set_ne (by omega), List.getElem?_append_right (by simp)]
    simp
  have lkb : SLinks X b := by
    refine lk.back rq (fun e hin => Or.inl (rmarks ▸ hin)) ?_
    intro x y hxy hy _
    rw [rlabels]
    by_cases hxe : x = endL
    · subst hxe; rw [hbe] at hxy; exact absurd (Option.some.inj hxy).symm hy
    · rw [List.getElem?_set_ne (fun h => hxe h.symm)]; exact hxy
  have hnmr : ∀ x, x = startL ∨ x = endL → ∀ e ∈ res.top.marks, e.2 ≠ x := by
    intro x hx e hin
    rw [rmarks] at hin
    have := hnm e hin
    omega
  have Ls : (X.L[startL]?).getD (-1) = (gs0.code.length : Int) := by
    refine lk.fin startL _ ?_ (by omega) (hnmr _ (Or.inl rfl))
    rw [rlabels, List.getElem?_set_ne (by omega)]; exact hbs
  have Le : (X.L[endL]?).getD (-1) = ((b.code.length + 1 : Nat) : Int) := by
    refine lk.fin endL _ ?_ (by omega) (hnmr _ (Or.inr rfl))
    rw [rlabels, List.getElem?_set_self (by omega)]
  have hvlen : v.code.length = gs0.code.length + 1 := by rw [vcode, sp.code]; simp
  have hm1pre : m1.code <+: res.code := sb.gq.code.trans rq.code
  have hrlen : res.code.length = b.code.length + 1 := by rw [rcode]; simp
  have hmc : ∃ i1 i2, i1 ≠ Instr.potBreak ∧ i2 ≠ Instr.potBreak ∧ m1.code = gs0.code ++ [i1, i2] :=
    ⟨i1, .jmpc (endL : Int) cond, hi1, (by intro h; cases h), (by rw [mcode, vcode, sp.code]; simp)⟩
  have hrc : ∃ t, (∀ i ∈ t, i ≠ Instr.potBreak) ∧ (∃ i, t.getLast? = some i) ∧ res.code = b.code ++ t := by
    refine ⟨[.jmp (startL : Int)], ?_, ⟨.jmp (startL : Int), rfl⟩, rcode⟩
    intro i hi
    simp at hi
    subst hi
    intro h; cases h
  refine ⟨lkb, hmc, (by rw [mli, nv.lineInfo, np.lineInfo]), (by rw [mfn, nv.fsName, np.fsName]),
    (by rw [mfl, nv.fsLine, np.fsLine]), hrc, rli, rfn, rfl', rmarks, ?_, ?_⟩
  · intro m lab hin
    have := hnm _ hin
    simp only at this
    rw [rlabels, List.getElem?_set_ne (by omega)]
  · have c1 : X.C[gs0.code.length + 1]? = some (.jmpc ((X.L[endL]?).getD (-1) - ((gs0.code.length + 1 : Nat) : Int)) cond) := by
      have := lk.agree (gs0.code.length + 1) (.jmpc (endL : Int) cond) (by omega)
        (prefix_getElem? hm1pre (by rw [mcode, ← hvlen]; exact getElem?_snoc_len _ _))
      rw [this, patch_jmpc]
    have hbpos : 0 < b.code.length := by
      have := sb.gq.code.length_le
      rw [mcode] at this
      simp at this
      omega
    have c2 : X.C[res.code.length - 1]? = some (.jmp ((X.L[startL]?).getD (-1) - ((b.code.length : Nat) : Int))) := by
      have := lk.agree b.code.length (.jmp (startL : Int)) hbpos
        (by rw [rcode]; exact getElem?_snoc_len _ _)
      rw [hrlen, Nat.add_sub_cancel, this, patch_jmp]
    refine loopJumpsExact_ok c1 c2 ?_ ?_
    · rw [Le, hrlen]; omega
    · rw [Ls, hrlen]; omega

end GenSites
end Theo
