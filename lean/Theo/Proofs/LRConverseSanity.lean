/-
  Sanity check of the notion `KnuthLR1` (both lookahead readings): it is satisfiable.  For the
  one-rule grammar `S → a` all right sentential forms of the augmented grammar are `S'`, `S`, `a`;
  the condition holds in full and in prefix mode, and `knuth_no_conflicts` applies with every
  hypothesis discharged.
-/
import Theo.Proofs.LRConverseMain

namespace Theo
namespace LRConverse
namespace Sanity

/-- `S → a` (non-terminal 0, terminal 1; end marker 0) -/
def g0 : Grammar := Grammar.ofRules 1 [(0, [.t 1])]

def ga0 : Grammar := g0.augment 0 0

theorem ga0_alts0 : ga0.alts 0 = [[.t 1]] := by decide
theorem ga0_alts1 : ga0.alts 1 = [[.n 0]] := by decide

theorem singleton_split {s : Sym} {α : List Sym} {A : Nat} {w : List Nat}
    (h : [s] = α ++ Sym.n A :: tsyms w) : α = [] ∧ s = .n A ∧ w = [] := by
  cases α with
  | nil =>
    simp only [List.nil_append, List.cons.injEq] at h
    refine ⟨rfl, h.1, ?_⟩
    cases w with
    | nil => rfl
    | cons x w => simp [tsyms] at h
  | cons s' α =>
    have := congrArg List.length h
    simp at this

theorem get_single {β r : List Sym} {k : Nat} (h : [r][k]? = some β) : β = r := by
  cases k with
  | zero => simpa using h.symm
  | succ k => simp at h

/-- the right sentential forms -/
theorem forms {φ : List Sym} (h : RDerives ga0 [.n 1] φ) :
    φ = [.n 1] ∨ φ = [.n 0] ∨ φ = [.t 1] := by
  induction h with
  | refl => exact Or.inl rfl
  | tail _ hstep ih =>
    obtain ⟨α, A, k, β, w, hk, hm, hb⟩ := rstep_inv hstep
    subst hm hb
    rcases ih with h | h | h
    · obtain ⟨rfl, hA, rfl⟩ := singleton_split h.symm
      cases hA
      rw [ga0_alts1] at hk
      rw [get_single hk]
      exact Or.inr (Or.inl rfl)
    · obtain ⟨rfl, hA, rfl⟩ := singleton_split h.symm
      cases hA
      rw [ga0_alts0] at hk
      rw [get_single hk]
      exact Or.inr (Or.inr rfl)
    · obtain ⟨_, hA, _⟩ := singleton_split h.symm
      cases hA

/-- a handle of a right sentential form: `S' → S` in `S`, or `S → a` in `a` -/
theorem handle {α β : List Sym} {A k : Nat} {w : List Nat}
    (h : RDerives ga0 [.n 1] (α ++ Sym.n A :: tsyms w)) (hk : (ga0.alts A)[k]? = some β) :
    α = [] ∧ w = [] ∧ ((A = 1 ∧ β = [.n 0]) ∨ (A = 0 ∧ β = [.t 1])) := by
  rcases forms h with h | h | h
  · obtain ⟨rfl, hA, rfl⟩ := singleton_split h.symm
    cases hA
    rw [ga0_alts1] at hk
    exact ⟨rfl, rfl, Or.inl ⟨rfl, get_single hk⟩⟩
  · obtain ⟨rfl, hA, rfl⟩ := singleton_split h.symm
    cases hA
    rw [ga0_alts0] at hk
    exact ⟨rfl, rfl, Or.inr ⟨rfl, get_single hk⟩⟩
  · obtain ⟨_, hA, _⟩ := singleton_split h.symm
    cases hA

theorem tsyms_eq_nil {y : List Nat} (h : tsyms y = []) : y = [] := by
  cases y with
  | nil => rfl
  | cons a y => simp [tsyms] at h

/-- `S → a` is LR(1) in Knuth's sense, whatever the reading of the lookahead -/
theorem g0_lr1 (pm : Bool) : KnuthLR1 ga0 1 0 pm := by
  intro α β γ ρ A kA B kB w x y h1 hk1 h2 hk2 heq _
  obtain ⟨rfl, rfl, hA⟩ := handle h1 hk1
  obtain ⟨rfl, rfl, hB⟩ := handle h2 hk2
  rcases hA with ⟨rfl, rfl⟩ | ⟨rfl, rfl⟩ <;> rcases hB with ⟨rfl, rfl⟩ | ⟨rfl, rfl⟩
  · simp only [List.nil_append, tsyms_nil, List.append_nil, List.singleton_append, List.cons.injEq,
      true_and] at heq
    exact ⟨rfl, rfl, (tsyms_eq_nil heq.symm).symm⟩
  · simp [tsyms] at heq
  · simp [tsyms] at heq
  · simp only [List.nil_append, tsyms_nil, List.append_nil, List.singleton_append, List.cons.injEq,
      true_and] at heq
    exact ⟨rfl, rfl, (tsyms_eq_nil heq.symm).symm⟩

/-- all hypotheses of `knuth_no_conflicts` hold together (here the conclusion is obtained from
    the theorem, not by evaluating the generator) -/
theorem g0_no_conflicts (pm : Bool) (fuel : Nat) : (genTables g0 0 0 pm fuel).1.conflicts = [] := by
  have hprods : g0.prods = [(0, [[.t 1]])] := by decide
  apply knuth_no_conflicts g0 0 0 pm fuel
  · intro e he
    rw [hprods] at he
    simp only [List.mem_singleton] at he
    subst he
    refine ⟨by decide, ?_⟩
    intro a ha s hs
    simp only [List.mem_singleton] at ha
    subst ha
    simp only [List.mem_singleton] at hs
    subst hs
    exact ⟨by simp, fun k hk => by cases hk⟩
  · decide
  · decide
  · intro n
    have h : ∀ n, g0.alts n = if n = 0 then [[.t 1]] else [] := by
      intro n
      simp only [g0, Grammar.ofRules, Grammar.alts, Grammar.add, Grammar.add.ins, List.foldl_cons,
        List.foldl_nil]
      by_cases hn : n = 0
      · subst hn; rfl
      · have : ¬ 0 = n := fun h => hn h.symm
        simp [List.find?, this, hn]
    rw [h]; split <;> simp
  · intro n hn
    have : n = 0 := by simp [g0, Grammar.ofRules, Grammar.add] at hn; omega
    subst this
    refine ⟨[1], .node 0 0 (.cons (.leaf 1) .nil), ?_, rfl, rfl⟩
    simp only [Tree.Valid, Forest.Valid, Forest.roots, Tree.root, and_self, and_true]
    decide
  · exact g0_lr1 pm

end Sanity
end LRConverse
end Theo
