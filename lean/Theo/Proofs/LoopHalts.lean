/-
  C16 (source level): LOOP programs — sources that use neither WHILE nor GOTO / IF-GOTO — always
  leave the `running` status of the reference machine, and a LOOP iterates exactly as often as its
  bound says at entry.

  The proof is a big-step reading of the small-step machine `Sem.step`:
  `RunsTo src r foc foc' s out` says that an activation of routine `r` with state `s = (env, ctrs)`
  and focus `foc` reaches, in EVERY context (continuation and stack beneath), the focus `foc'` with
  state `s'` (`out = some s'`) or leaves `running` (`out = none`).  Totality of `RunsTo` for
  loop-only statement lists is shown by strong induction on the routine index (a callee has a
  smaller index: `lookupProg_lt`), structural induction on statements / values, and induction on
  the hidden loop counter.  Loop ids need NOT be distinct for termination: every statement list
  leaves every counter unchanged or at 0 (`CInv`).
-/
import Theo.Spec.Semantics

set_option linter.unusedSectionVars false

namespace Theo
namespace LoopHalts
open Sem

/-! ### iterating the reference machine -/

def stepN (src : Source) : Nat → Config → Config
  | 0, c => c
  | n + 1, c => stepN src n (Sem.step src c)

theorem stepN_add (src : Source) : ∀ (a b : Nat) (c : Config),
    stepN src (a + b) c = stepN src b (stepN src a c)
  | 0, b, c => by rw [Nat.zero_add]; rfl
  | a + 1, b, c => by
    rw [show a + 1 + b = (a + b) + 1 by omega]
    exact stepN_add src a b (Sem.step src c)

theorem stepN_succ (src : Source) (n : Nat) (c : Config) :
    stepN src (n + 1) c = Sem.step src (stepN src n c) := by
  rw [stepN_add src n 1 c]; rfl

theorem step_fixed (src : Source) (c : Config) (h : c.status ≠ .running) : Sem.step src c = c := by
  obtain ⟨stack, status⟩ := c
  cases status with
  | running => exact absurd rfl h
  | halted => rfl
  | stuck => rfl

theorem stepN_fixed (src : Source) {c : Config} (h : c.status ≠ .running) :
    ∀ n, stepN src n c = c
  | 0 => rfl
  | n + 1 => by
    show stepN src n (Sem.step src c) = c
    rw [step_fixed src c h]; exact stepN_fixed src h n

theorem run_fst (src : Source) : ∀ (n : Nat) (c : Config) (a : Nat),
    (Sem.run src n c a).1 = stepN src n c
  | 0, _, _ => rfl
  | n + 1, c, a => by
    unfold Sem.run
    split
    · exact run_fst src n _ _
    · rename_i hne
      exact (stepN_fixed src (fun h => hne h) (n + 1)).symm

/-- two runs from the same configuration that both arrive at a last running configuration
    arrive at the same one -/
theorem last_running_unique (src : Source) {c A B : Config} {n1 n2 : Nat}
    (h1 : stepN src n1 c = A) (h2 : stepN src n2 c = B)
    (hA : A.status = .running) (hB : B.status = .running)
    (hA' : (Sem.step src A).status ≠ .running) (hB' : (Sem.step src B).status ≠ .running) : A = B := by
  have key : ∀ {n1 n2 : Nat} {A B : Config}, stepN src n1 c = A → stepN src n2 c = B →
      B.status = .running → (Sem.step src A).status ≠ .running → n1 < n2 → False := by
    intro n1 n2 A B h1 h2 hB hA' hlt
    have : stepN src n2 c = Sem.step src A := by
      rw [show n2 = (n1 + 1) + (n2 - n1 - 1) by omega, stepN_add, stepN_succ, h1]
      exact stepN_fixed src hA' _
    rw [this] at h2
    rw [h2] at hA'
    exact hA' hB
  rcases Nat.lt_trichotomy n1 n2 with hlt | heq | hgt
  · exact (key h1 h2 hB hA' hlt).elim
  · subst heq; rw [← h1, ← h2]
  · exact (key h2 h1 hA hB' hgt).elim

/-! ### "goes to" -/

/-- `Goes src c (some c')`: `c` reaches `c'`;  `Goes src c none`: `c` leaves `running` -/
def Goes (src : Source) (c : Config) : Option Config → Prop
  | some c' => ∃ n, stepN src n c = c'
  | none => ∃ n, (stepN src n c).status ≠ .running

theorem Goes.refl (src : Source) (c : Config) : Goes src c (some c) := ⟨0, rfl⟩

theorem Goes.stop {src : Source} {c : Config} (h : c.status ≠ .running) : Goes src c none := ⟨0, h⟩

theorem Goes.step {src : Source} {c : Config} {t : Option Config} (h : Goes src (Sem.step src c) t) :
    Goes src c t := by
  cases t with
  | none => obtain ⟨n, hn⟩ := h; exact ⟨n + 1, hn⟩
  | some c' => obtain ⟨n, hn⟩ := h; exact ⟨n + 1, hn⟩

theorem Goes.step_eq {src : Source} {c c1 : Config} {t : Option Config} (e : Sem.step src c = c1)
    (h : Goes src c1 t) : Goes src c t := Goes.step (e ▸ h)

theorem Goes.trans {src : Source} {c c' : Config} {t : Option Config}
    (h1 : Goes src c (some c')) (h2 : Goes src c' t) : Goes src c t := by
  obtain ⟨n, hn⟩ := h1
  cases t with
  | none => obtain ⟨m, hm⟩ := h2; exact ⟨n + m, by rw [stepN_add, hn]; exact hm⟩
  | some c'' => obtain ⟨m, hm⟩ := h2; exact ⟨n + m, by rw [stepN_add, hn]; exact hm⟩

/-! ### environments and counters -/

theorem find_filter_ne {α β : Type} [DecidableEq α] (ρ : List (α × β)) {x y : α} (h : y ≠ x) :
    (ρ.filter (fun e => e.1 ≠ x)).find? (fun e => e.1 = y) = ρ.find? (fun e => e.1 = y) := by
  induction ρ with
  | nil => rfl
  | cons e ρ ih =>
    rw [List.filter_cons]
    by_cases he : e.1 = x
    · have hy : ¬ e.1 = y := by rw [he]; exact fun h' => h h'.symm
      rw [if_neg (by simp [he])]
      simp only [List.find?_cons, hy, decide_false]
      exact ih
    · rw [if_pos (by simp [he])]
      by_cases hy : e.1 = y
      · simp only [List.find?_cons, hy, decide_true]
      · simp only [List.find?_cons, hy, decide_false]
        exact ih

theorem env_get_set_same (ρ : Env) (x : Name) (v : Nat) : (Env.set ρ x v).get x = v := by
  simp [Env.set, Env.get]

theorem ctrs_get_set_same (κ : Ctrs) (i : Nat) (v : Nat) : (Ctrs.set κ i v).get i = v := by
  simp [Ctrs.set, Ctrs.get]

theorem ctrs_get_set_other (κ : Ctrs) {i j : Nat} (v : Nat) (h : j ≠ i) :
    (Ctrs.set κ i v).get j = κ.get j := by
  have hx : ¬ i = j := fun h' => h h'.symm
  simp only [Ctrs.set, Ctrs.get, List.find?_cons, hx, decide_false]
  rw [find_filter_ne κ h]

/-! ### routine lookup: a callee has a smaller index -/

theorem lookupProg_go_spec (f : Name) (upto : Nat) : ∀ (ps : List ProgDef) (i : Nat)
    (acc : Option (Nat × ProgDef)) (j : Nat) (pd : ProgDef),
    lookupProg.go f upto ps i acc = some (j, pd) →
    acc = some (j, pd) ∨ (i ≤ j ∧ j < upto ∧ ps[j - i]? = some pd) := by
  intro ps
  induction ps with
  | nil => intro i acc j pd h; simp only [lookupProg.go] at h; exact Or.inl h
  | cons q ps ih =>
    intro i acc j pd h
    simp only [lookupProg.go] at h
    split at h
    · rename_i hlt
      rcases ih _ _ _ _ h with h1 | ⟨h1, h2, h3⟩
      · split at h1
        · cases h1
          exact Or.inr ⟨Nat.le_refl _, hlt, by simp⟩
        · exact Or.inl h1
      · refine Or.inr ⟨by omega, h2, ?_⟩
        rw [show j - i = (j - (i + 1)) + 1 by omega, List.getElem?_cons_succ]
        exact h3
    · exact Or.inl h

/-- `lookupProg src f upto` only returns an index below `upto`, and the definition at that index -/
theorem lookupProg_lt {src : Source} {f : Name} {upto j : Nat} {pd : ProgDef}
    (h : lookupProg src f upto = some (j, pd)) : j < upto ∧ src.progs[j]? = some pd := by
  unfold lookupProg at h
  rcases lookupProg_go_spec f upto _ _ _ _ _ h with h1 | ⟨_, h2, h3⟩
  · cases h1
  · exact ⟨h2, by simpa using h3⟩

/-! ### the syntactic classes -/

mutual
/-- neither WHILE nor GOTO / IF-GOTO -/
def loStmt : Stmt → Bool
  | .assign _ _ _ => true
  | .mark _ _ => true
  | .loop _ _ body _ => loStmts body
  | .while_ _ _ _ => false
  | .goto _ _ => false
  | .ifGoto _ _ _ _ => false
  | .stop _ => true
def loStmts : Stmts → Bool
  | .nil => true
  | .cons s ss => loStmt s && loStmts ss
end

mutual
/-- some LOOP in the statement (at any depth) has the id `i` -/
def usesIdStmt (i : Nat) : Stmt → Bool
  | .loop id _ body _ => decide (id = i) || usesId i body
  | .while_ _ body _ => usesId i body
  | _ => false
def usesId (i : Nat) : Stmts → Bool
  | .nil => false
  | .cons s ss => usesIdStmt i s || usesId i ss
end

/-! ### big steps -/

/-- the state of an activation that statements change -/
abbrev St := Env × Ctrs

/-- every counter is unchanged or — only for ids selected by `u` — zero -/
def CInv (u : Nat → Bool) (κ κ' : Ctrs) : Prop :=
  ∀ i, κ'.get i = κ.get i ∨ (u i = true ∧ κ'.get i = 0)

theorem CInv.refl (u : Nat → Bool) (κ : Ctrs) : CInv u κ κ := fun _ => Or.inl rfl

theorem CInv.trans {u1 u2 u : Nat → Bool} {κ κ1 κ2 : Ctrs} (h1 : CInv u1 κ κ1) (h2 : CInv u2 κ1 κ2)
    (hu1 : ∀ i, u1 i = true → u i = true) (hu2 : ∀ i, u2 i = true → u i = true) : CInv u κ κ2 := by
  intro i
  rcases h2 i with e2 | ⟨hu, e2⟩
  · rcases h1 i with e1 | ⟨hu, e1⟩
    · exact Or.inl (e2.trans e1)
    · exact Or.inr ⟨hu1 i hu, e2.trans e1⟩
  · exact Or.inr ⟨hu2 i hu, e2⟩

def OInv (u : Nat → Bool) (s : St) : Option St → Prop
  | none => True
  | some s' => CInv u s.2 s'.2

/-- in every context, an activation of routine `r` in state `s` with focus `foc` reaches the
    focus `foc'` in state `s'` (same continuation, same stack beneath), or leaves `running` -/
def RunsTo (src : Source) (r : Nat) (foc foc' : Stmts) (s : St) (out : Option St) : Prop :=
  ∀ (k : Kont) (rest : List Frame),
    Goes src ⟨⟨r, s.1, s.2, foc, k, .run⟩ :: rest, .running⟩
      (out.map fun s' => ⟨⟨r, s'.1, s'.2, foc', k, .run⟩ :: rest, .running⟩)

/-- in every context, evaluating `v` in routine `r` with environment `ρ` delivers `a`, or leaves
    `running` (a callee stops or is undefined) -/
def EvalsTo (src : Source) (r : Nat) (ρ : Env) (v : Value) (o : Option Nat) : Prop :=
  ∀ (κ : Ctrs) (foc : Stmts) (k : Kont) (x : Name) (cs : List ECtx) (rest : List Frame),
    Goes src ⟨⟨r, ρ, κ, foc, k, .eval v x cs⟩ :: rest, .running⟩
      (o.map fun a => ⟨⟨r, ρ, κ, foc, k, .ret a x cs⟩ :: rest, .running⟩)

/-- the remaining arguments `as` of a call are evaluated to `vals`, then the call is performed -/
def ArgsTo (src : Source) (r : Nat) (ρ : Env) (as : Values) (o : Option (List Nat)) : Prop :=
  ∀ (κ : Ctrs) (foc : Stmts) (k : Kont) (x : Name) (cs : List ECtx) (rest : List Frame)
    (f : Name) (done : List Nat) (n : Nat),
    Goes src ⟨⟨r, ρ, κ, foc, k, .ret n x (⟨f, done, as⟩ :: cs)⟩ :: rest, .running⟩
      (o.map fun vals => doCall src ⟨r, ρ, κ, foc, k, .wait x cs⟩ rest f (done ++ n :: vals))

/-- the call `f(args)` from routine `r` delivers `a`, or leaves `running` -/
def CallTo (src : Source) (r : Nat) (f : Name) (args : List Nat) (o : Option Nat) : Prop :=
  ∀ (ρ : Env) (κ : Ctrs) (foc : Stmts) (k : Kont) (x : Name) (cs : List ECtx) (rest : List Frame),
    Goes src (doCall src ⟨r, ρ, κ, foc, k, .wait x cs⟩ rest f args)
      (o.map fun a => ⟨⟨r, ρ, κ, foc, k, .ret a x cs⟩ :: rest, .running⟩)

/-- loop-only statement lists of routine `r` always return (or leave `running`) -/
def Total (src : Source) (r : Nat) : Prop :=
  ∀ ss, loStmts ss = true → ∀ s : St, ∃ out, RunsTo src r ss .nil s out ∧ OInv (fun i => usesId i ss) s out

/-! ### single steps -/

theorem step_return {src : Source} {i : Nat} {p : ProgDef} (hget : src.progs[i]? = some p)
    (ρ' : Env) (κ' : Ctrs) (r : Nat) (ρ : Env) (κ : Ctrs) (foc : Stmts) (k : Kont) (x : Name)
    (cs : List ECtx) (rest : List Frame) :
    Sem.step src ⟨⟨i, ρ', κ', .nil, .done, .run⟩ :: ⟨r, ρ, κ, foc, k, .wait x cs⟩ :: rest, .running⟩ =
      ⟨⟨r, ρ, κ, foc, k, .ret (ρ'.get p.out) x cs⟩ :: rest, .running⟩ := by
  show (⟨⟨r, ρ, κ, foc, k, .ret (ρ'.get (match src.progs[i]? with | some p => p.out | none => [])) x cs⟩
    :: rest, .running⟩ : Config) = _
  rw [hget]

theorem step_loop (src : Source) (r : Nat) (ρ : Env) (κ : Ctrs) (id : Nat) (x : Name) (body : Stmts)
    (pos : Pos) (ss : Stmts) (k : Kont) (rest : List Frame) :
    Sem.step src ⟨⟨r, ρ, κ, .cons (.loop id x body pos) ss, k, .run⟩ :: rest, .running⟩ =
      if ρ.get x ≠ 0 then
        ⟨⟨r, ρ, κ.set id (ρ.get x), body, .loop id body ss k, .run⟩ :: rest, .running⟩
      else ⟨⟨r, ρ, κ.set id (ρ.get x), ss, k, .run⟩ :: rest, .running⟩ := rfl

theorem step_nil_loop (src : Source) (r : Nat) (ρ : Env) (κ : Ctrs) (id : Nat) (body ss : Stmts)
    (k : Kont) (rest : List Frame) :
    Sem.step src ⟨⟨r, ρ, κ, .nil, .loop id body ss k, .run⟩ :: rest, .running⟩ =
      if κ.get id - 1 ≠ 0 then
        ⟨⟨r, ρ, κ.set id (κ.get id - 1), body, .loop id body ss k, .run⟩ :: rest, .running⟩
      else ⟨⟨r, ρ, κ.set id (κ.get id - 1), ss, k, .run⟩ :: rest, .running⟩ := rfl

/-! ### calls -/

theorem call_total {src : Source} {r : Nat} (hp : ∀ pd ∈ src.progs, loStmts pd.body = true)
    (ih : ∀ i, i < r → Total src i) (f : Name) (args : List Nat) : ∃ o, CallTo src r f args o := by
  cases hl : lookupProg src f r with
  | none =>
    refine ⟨none, fun ρ κ foc k x cs rest => Goes.stop ?_⟩
    show (doCall src _ rest f args).status ≠ .running
    simp only [doCall, hl]
    exact fun h => nomatch h
  | some ip =>
    obtain ⟨i, p⟩ := ip
    obtain ⟨hlt, hget⟩ := lookupProg_lt hl
    by_cases hlen : p.params.length = args.length
    · have hmem : p ∈ src.progs := List.mem_of_getElem? hget
      obtain ⟨out, hrun, _⟩ := ih i hlt p.body (hp p hmem) (bindParams p.params args [], [])
      have hdo : ∀ (fr : Frame) (rest : List Frame), fr.routine = r → doCall src fr rest f args =
          ⟨⟨i, bindParams p.params args [], [], p.body, .done, .run⟩ :: fr :: rest, .running⟩ := by
        intro fr rest hr
        simp only [doCall, hr, hl, hlen, if_true]
      cases out with
      | none =>
        refine ⟨none, fun ρ κ foc k x cs rest => ?_⟩
        rw [hdo _ _ rfl]
        exact hrun .done _
      | some s' =>
        refine ⟨some (s'.1.get p.out), fun ρ κ foc k x cs rest => ?_⟩
        rw [hdo _ _ rfl]
        refine Goes.trans (hrun .done _) ?_
        exact Goes.step_eq (step_return hget _ _ _ _ _ _ _ _ _ _) (Goes.refl _ _)
    · refine ⟨none, fun ρ κ foc k x cs rest => Goes.stop ?_⟩
      show (doCall src _ rest f args).status ≠ .running
      simp only [doCall, hl, hlen, if_false]
      exact fun h => nomatch h

/-! ### values -/

section
variable {src : Source} {r : Nat} (hc : ∀ f args, ∃ o, CallTo src r f args o)
include hc

mutual
theorem eval_total (ρ : Env) : ∀ v : Value, ∃ o, EvalsTo src r ρ v o
  | .var y => ⟨some (ρ.get y), fun _ _ _ _ _ _ => Goes.step (Goes.refl _ _)⟩
  | .num n => ⟨some n, fun _ _ _ _ _ _ => Goes.step (Goes.refl _ _)⟩
  | .inc y c => ⟨some (addSat (ρ.get y) c), fun _ _ _ _ _ _ => Goes.step (Goes.refl _ _)⟩
  | .dec y c => ⟨some (ρ.get y - c), fun _ _ _ _ _ _ => Goes.step (Goes.refl _ _)⟩
  | .call f .nil => by
    obtain ⟨o, h⟩ := hc f []
    exact ⟨o, fun κ foc k x cs rest => Goes.step (h ρ κ foc k x cs rest)⟩
  | .call f (.cons a as) => by
    obtain ⟨oa, ha⟩ := eval_total ρ a
    obtain ⟨oas, has⟩ := args_total ρ as
    cases oa with
    | none => exact ⟨none, fun κ foc k x cs rest => Goes.step (ha κ foc k x _ rest)⟩
    | some n =>
      cases oas with
      | none =>
        exact ⟨none, fun κ foc k x cs rest =>
          Goes.step (Goes.trans (ha κ foc k x _ rest) (has κ foc k x cs rest f [] n))⟩
      | some vals =>
        obtain ⟨o, hcall⟩ := hc f ([] ++ n :: vals)
        exact ⟨o, fun κ foc k x cs rest =>
          Goes.step (Goes.trans (ha κ foc k x _ rest)
            (Goes.trans (has κ foc k x cs rest f [] n) (hcall ρ κ foc k x cs rest)))⟩
theorem args_total (ρ : Env) : ∀ as : Values, ∃ o, ArgsTo src r ρ as o
  | .nil => ⟨some [], fun _ _ _ _ _ _ _ _ _ => Goes.step (Goes.refl _ _)⟩
  | .cons a as => by
    obtain ⟨oa, ha⟩ := eval_total ρ a
    obtain ⟨oas, has⟩ := args_total ρ as
    cases oa with
    | none => exact ⟨none, fun κ foc k x cs rest f done n => Goes.step (ha κ foc k x _ rest)⟩
    | some n' =>
      cases oas with
      | none =>
        exact ⟨none, fun κ foc k x cs rest f done n =>
          Goes.step (Goes.trans (ha κ foc k x _ rest) (has κ foc k x cs rest f (done ++ [n]) n'))⟩
      | some vals =>
        refine ⟨some (n' :: vals), fun κ foc k x cs rest f done n => ?_⟩
        have h := has κ foc k x cs rest f (done ++ [n]) n'
        have e : (done ++ [n]) ++ n' :: vals = done ++ n :: (n' :: vals) := by simp
        change Goes src _ (some (doCall src _ rest f ((done ++ [n]) ++ n' :: vals))) at h
        rw [e] at h
        exact Goes.step (Goes.trans (ha κ foc k x _ rest) h)
end

end

/-! ### statements -/

/-- the tail of a LOOP: from the end of the body (focus `.nil`, continuation `.loop …`) to the
    statements after the loop.  Induction on the hidden counter; the body may overwrite the counter
    (an inner loop with the same id), but then it leaves it at 0. -/
theorem loop_tail {src : Source} {r : Nat} (id : Nat) (body ss : Stmts)
    (hb : ∀ s : St, ∃ out, RunsTo src r body .nil s out ∧ OInv (fun i => usesId i body) s out) :
    ∀ (m : Nat) (s : St), s.2.get id - 1 ≤ m →
      ∃ out : Option St,
        (∀ (k : Kont) (rest : List Frame),
          Goes src ⟨⟨r, s.1, s.2, .nil, .loop id body ss k, .run⟩ :: rest, .running⟩
            (out.map fun s' => ⟨⟨r, s'.1, s'.2, ss, k, .run⟩ :: rest, .running⟩)) ∧
        (match out with
          | none => True
          | some s' => s'.2.get id = 0 ∧
              ∀ i, i ≠ id → (s'.2.get i = s.2.get i ∨ (usesId i body = true ∧ s'.2.get i = 0))) := by
  intro m
  induction m with
  | zero =>
    intro s hm
    have hc : s.2.get id - 1 = 0 := by omega
    refine ⟨some (s.1, s.2.set id (s.2.get id - 1)), fun k rest => ?_, ?_, ?_⟩
    · refine Goes.step_eq (step_nil_loop src r s.1 s.2 id body ss k rest) ?_
      rw [if_neg (by simp [hc])]
      exact Goes.refl _ _
    · show (s.2.set id (s.2.get id - 1)).get id = 0
      rw [ctrs_get_set_same]; exact hc
    · intro i hi
      exact Or.inl (ctrs_get_set_other _ _ hi)
  | succ m ih =>
    intro s hm
    by_cases hc : s.2.get id - 1 = 0
    · refine ⟨some (s.1, s.2.set id (s.2.get id - 1)), fun k rest => ?_, ?_, ?_⟩
      · refine Goes.step_eq (step_nil_loop src r s.1 s.2 id body ss k rest) ?_
        rw [if_neg (by simp [hc])]
        exact Goes.refl _ _
      · show (s.2.set id (s.2.get id - 1)).get id = 0
        rw [ctrs_get_set_same]; exact hc
      · intro i hi
        exact Or.inl (ctrs_get_set_other _ _ hi)
    · obtain ⟨ob, hrun, hinv⟩ := hb (s.1, s.2.set id (s.2.get id - 1))
      have hstep : ∀ (k : Kont) (rest : List Frame) (t : Option Config),
          Goes src ⟨⟨r, s.1, s.2.set id (s.2.get id - 1), body, .loop id body ss k, .run⟩ :: rest, .running⟩ t →
          Goes src ⟨⟨r, s.1, s.2, .nil, .loop id body ss k, .run⟩ :: rest, .running⟩ t := by
        intro k rest t h
        refine Goes.step_eq (step_nil_loop src r s.1 s.2 id body ss k rest) ?_
        rw [if_pos hc]
        exact h
      cases ob with
      | none => exact ⟨none, fun k rest => hstep k rest none (hrun _ rest), trivial⟩
      | some s1 =>
        have hinv' : CInv (fun i => usesId i body) (s.2.set id (s.2.get id - 1)) s1.2 := hinv
        have hle : s1.2.get id - 1 ≤ m := by
          rcases hinv' id with e | ⟨_, e⟩
          · rw [e, ctrs_get_set_same]; omega
          · rw [e]; omega
        obtain ⟨out, hgo, hout⟩ := ih s1 hle
        cases out with
        | none =>
          exact ⟨none, fun k rest => hstep k rest none (Goes.trans (hrun _ rest) (hgo k rest)), trivial⟩
        | some s2 =>
          refine ⟨some s2, fun k rest => hstep k rest _ (Goes.trans (hrun _ rest) (hgo k rest)),
            hout.1, ?_⟩
          intro i hi
          rcases hout.2 i hi with e2 | h2
          · rcases hinv' i with e1 | ⟨hu, e1⟩
            · rw [ctrs_get_set_other _ _ hi] at e1
              exact Or.inl (e2.trans e1)
            · exact Or.inr ⟨hu, e2.trans e1⟩
          · exact Or.inr h2

theorem loop_total {src : Source} {r : Nat} (id : Nat) (x : Name) (body : Stmts) (pos : Pos)
    (hb : ∀ s : St, ∃ out, RunsTo src r body .nil s out ∧ OInv (fun i => usesId i body) s out)
    (ss : Stmts) (s : St) :
    ∃ out, RunsTo src r (.cons (.loop id x body pos) ss) ss s out ∧
      OInv (fun i => usesIdStmt i (.loop id x body pos)) s out := by
  have hu : ∀ i, usesIdStmt i (.loop id x body pos) = (decide (id = i) || usesId i body) := by
    intro i; simp only [usesIdStmt]
  by_cases hn : s.1.get x = 0
  · refine ⟨some (s.1, s.2.set id (s.1.get x)), fun k rest => ?_, ?_⟩
    · refine Goes.step_eq (step_loop src r s.1 s.2 id x body pos ss k rest) ?_
      rw [if_neg (by simp [hn])]
      exact Goes.refl _ _
    · intro i
      show (s.2.set id (s.1.get x)).get i = s.2.get i ∨ _
      by_cases hi : i = id
      · subst hi
        refine Or.inr ⟨by show usesIdStmt _ _ = true; rw [hu]; simp, ?_⟩
        show (s.2.set i (s.1.get x)).get i = 0
        rw [ctrs_get_set_same]; exact hn
      · exact Or.inl (ctrs_get_set_other _ _ hi)
  · obtain ⟨ob, hrun, hinv⟩ := hb (s.1, s.2.set id (s.1.get x))
    have hstep : ∀ (k : Kont) (rest : List Frame) (t : Option Config),
        Goes src ⟨⟨r, s.1, s.2.set id (s.1.get x), body, .loop id body ss k, .run⟩ :: rest, .running⟩ t →
        Goes src ⟨⟨r, s.1, s.2, .cons (.loop id x body pos) ss, k, .run⟩ :: rest, .running⟩ t := by
      intro k rest t h
      refine Goes.step_eq (step_loop src r s.1 s.2 id x body pos ss k rest) ?_
      rw [if_pos hn]
      exact h
    cases ob with
    | none => exact ⟨none, fun k rest => hstep k rest none (hrun _ rest), trivial⟩
    | some s1 =>
      have hinv' : CInv (fun i => usesId i body) (s.2.set id (s.1.get x)) s1.2 := hinv
      obtain ⟨out, hgo, hout⟩ := loop_tail id body ss hb (s1.2.get id - 1) s1 (Nat.le_refl _)
      cases out with
      | none =>
        exact ⟨none, fun k rest => hstep k rest none (Goes.trans (hrun _ rest) (hgo k rest)), trivial⟩
      | some s2 =>
        refine ⟨some s2, fun k rest => hstep k rest _ (Goes.trans (hrun _ rest) (hgo k rest)), ?_⟩
        intro i
        by_cases hi : i = id
        · subst hi
          exact Or.inr ⟨by show usesIdStmt _ _ = true; rw [hu]; simp, hout.1⟩
        · rcases hout.2 i hi with e2 | ⟨hu2, e2⟩
          · rcases hinv' i with e1 | ⟨hu1, e1⟩
            · rw [ctrs_get_set_other _ _ hi] at e1
              exact Or.inl (e2.trans e1)
            · exact Or.inr ⟨by show usesIdStmt _ _ = true; rw [hu]; simp [hu1], e2.trans e1⟩
          · exact Or.inr ⟨by show usesIdStmt _ _ = true; rw [hu]; simp [hu2], e2⟩

section
variable {src : Source} {r : Nat} (he : ∀ ρ v, ∃ o, EvalsTo src r ρ v o)
include he

mutual
theorem stmt_total : ∀ s : Stmt, loStmt s = true → ∀ (ss : Stmts) (st : St),
    ∃ out, RunsTo src r (.cons s ss) ss st out ∧ OInv (fun i => usesIdStmt i s) st out
  | .assign x v pos, _, ss, st => by
    obtain ⟨o, ho⟩ := he st.1 v
    cases o with
    | none =>
      exact ⟨none, fun k rest => Goes.step (ho st.2 ss k x [] rest), trivial⟩
    | some n =>
      refine ⟨some (st.1.set x n, st.2), fun k rest => ?_, CInv.refl _ _⟩
      exact Goes.step (Goes.trans (ho st.2 ss k x [] rest) (Goes.step (Goes.refl _ _)))
  | .mark m pos, _, ss, st => ⟨some st, fun k rest => Goes.step (Goes.refl _ _), CInv.refl _ _⟩
  | .stop pos, _, ss, st =>
    ⟨none, fun k rest => Goes.step (Goes.stop (fun h => nomatch h)), trivial⟩
  | .loop id x body pos, h, ss, st =>
    loop_total id x body pos (stmts_total body (by simpa only [loStmt] using h)) ss st
  | .while_ _ _ _, h, _, _ => by simp [loStmt] at h
  | .goto _ _, h, _, _ => by simp [loStmt] at h
  | .ifGoto _ _ _ _, h, _, _ => by simp [loStmt] at h
theorem stmts_total : ∀ ss : Stmts, loStmts ss = true → ∀ st : St,
    ∃ out, RunsTo src r ss .nil st out ∧ OInv (fun i => usesId i ss) st out
  | .nil, _, st => ⟨some st, fun k rest => Goes.refl _ _, CInv.refl _ _⟩
  | .cons s ss, h, st => by
    have h' : loStmt s = true ∧ loStmts ss = true := by simpa only [loStmts, Bool.and_eq_true] using h
    obtain ⟨o1, hrun1, hinv1⟩ := stmt_total s h'.1 ss st
    cases o1 with
    | none => exact ⟨none, fun k rest => hrun1 k rest, trivial⟩
    | some s1 =>
      obtain ⟨o2, hrun2, hinv2⟩ := stmts_total ss h'.2 s1
      cases o2 with
      | none => exact ⟨none, fun k rest => Goes.trans (hrun1 k rest) (hrun2 k rest), trivial⟩
      | some s2 =>
        refine ⟨some s2, fun k rest => Goes.trans (hrun1 k rest) (hrun2 k rest), ?_⟩
        exact CInv.trans (u := fun i => usesId i (.cons s ss)) hinv1 hinv2
          (fun i hi => by simp only [usesId, Bool.or_eq_true]; exact Or.inl hi)
          (fun i hi => by simp only [usesId, Bool.or_eq_true]; exact Or.inr hi)
end

end

/-- every routine: loop-only statement lists return or leave `running` -/
theorem total {src : Source} (hp : ∀ pd ∈ src.progs, loStmts pd.body = true) : ∀ r, Total src r := by
  intro r
  induction r using Nat.strongRecOn with
  | _ r ih =>
    intro ss hss s
    exact stmts_total (fun ρ v => eval_total (fun f args => call_total hp ih f args) ρ v) ss hss s

/-- a loop-only source leaves `running` -/
theorem source_halts (src : Source) (hm : loStmts src.main = true)
    (hp : ∀ pd ∈ src.progs, loStmts pd.body = true) :
    ∃ n, (stepN src n (initial src)).status ≠ .running := by
  obtain ⟨out, hrun, _⟩ := total hp src.progs.length src.main hm ([], [])
  cases out with
  | none => exact hrun .done []
  | some s' =>
    obtain ⟨n, hn⟩ := hrun .done []
    refine ⟨n + 1, ?_⟩
    rw [stepN_succ]
    show (Sem.step src (stepN src n ⟨[⟨src.progs.length, [], [], src.main, .done, .run⟩], .running⟩)).status ≠ _
    rw [hn]
    exact fun h => nomatch h

/-! ### the big-step outcome is a function of the state -/

/-- the outcome `some _` of a run to the end of a statement list is unique (run it alone: the
    root reaching its end halts, and a halted machine no longer moves) -/
theorem RunsTo.some_unique {src : Source} {r : Nat} {ss : Stmts} {s a b : St}
    (h1 : RunsTo src r ss .nil s (some a)) (h2 : RunsTo src r ss .nil s (some b)) : a = b := by
  obtain ⟨n1, e1⟩ := h1 .done []
  obtain ⟨n2, e2⟩ := h2 .done []
  have := last_running_unique src e1 e2 rfl rfl (fun h => nomatch h) (fun h => nomatch h)
  injection this with hst _
  injection hst with hfr _
  injection hfr with _ he hc
  exact Prod.ext he hc

/-- a caller that loops forever once the callee has returned -/
def spinCaller : Frame :=
  ⟨0, [], [], .cons (.assign [] (.num 1) ([], 0)) .nil, .while_ [] .nil .nil .done, .wait [] []⟩

theorem spin_fix (src : Source) (ρ : Env) :
    Sem.step src ⟨[⟨0, ρ.set [] 1, [], .nil, .while_ [] .nil .nil .done, .run⟩], .running⟩ =
      ⟨[⟨0, ρ.set [] 1, [], .nil, .while_ [] .nil .nil .done, .run⟩], .running⟩ := by
  simp [Sem.step, env_get_set_same]

theorem spin_diverges (src : Source) (r : Nat) (a : St) :
    ∃ D : Config, D.status = .running ∧ Sem.step src D = D ∧
      stepN src 5 ⟨[⟨r, a.1, a.2, .nil, .done, .run⟩, spinCaller], .running⟩ = D :=
  ⟨_, rfl, spin_fix src _, rfl⟩

/-- the outcomes `none` and `some _` exclude each other -/
theorem RunsTo.none_some_absurd {src : Source} {r : Nat} {ss : Stmts} {s a : St}
    (h1 : RunsTo src r ss .nil s none) (h2 : RunsTo src r ss .nil s (some a)) : False := by
  obtain ⟨n1, e1⟩ := h1 .done [spinCaller]
  obtain ⟨n2, e2⟩ := h2 .done [spinCaller]
  obtain ⟨D, hD, hfix, h5⟩ := spin_diverges src r a
  have hDn : ∀ m, stepN src m D = D := by
    intro m
    induction m with
    | zero => rfl
    | succ m ih => show stepN src m (Sem.step src D) = D; rw [hfix]; exact ih
  have hA : stepN src (n2 + 5 + n1) ⟨[⟨r, s.1, s.2, ss, .done, .run⟩, spinCaller], .running⟩ = D := by
    rw [stepN_add, stepN_add, e2]
    show stepN src n1 (stepN src 5 _) = D
    rw [h5]; exact hDn n1
  have hB : stepN src (n1 + (n2 + 5)) ⟨[⟨r, s.1, s.2, ss, .done, .run⟩, spinCaller], .running⟩ =
      stepN src n1 ⟨[⟨r, s.1, s.2, ss, .done, .run⟩, spinCaller], .running⟩ := by
    rw [stepN_add]; exact stepN_fixed src e1 _
  rw [show n1 + (n2 + 5) = n2 + 5 + n1 by omega, hA] at hB
  rw [← hB] at e1
  exact e1 hD

/-- `RunsTo … .nil` is functional: the state at entry determines the outcome -/
theorem RunsTo.functional {src : Source} {r : Nat} {ss : Stmts} {s : St} {o1 o2 : Option St}
    (h1 : RunsTo src r ss .nil s o1) (h2 : RunsTo src r ss .nil s o2) : o1 = o2 := by
  cases o1 with
  | none =>
    cases o2 with
    | none => rfl
    | some b => exact (RunsTo.none_some_absurd h1 h2).elim
  | some a =>
    cases o2 with
    | none => exact (RunsTo.none_some_absurd h2 h1).elim
    | some b => rw [RunsTo.some_unique h1 h2]

/-! ### the number of iterations of a LOOP -/

/-- `IterBody src r id body n s out`: `out` is the `n`-fold composition, starting from `s`, of the
    big-step effect of `body` on (env, ctrs) — the hidden counter `id` shows `n, n-1, …, 1` at the
    starts of the iterations; `out = none` when one of the iterations leaves `running` -/
def IterBody (src : Source) (r id : Nat) (body : Stmts) : Nat → St → Option St → Prop
  | 0, s, out => out = some s
  | m + 1, s, out => ∃ o, RunsTo src r body .nil (s.1, s.2.set id (m + 1)) o ∧
      match o with
      | none => out = none
      | some s1 => IterBody src r id body m s1 out

theorem IterBody.functional {src : Source} {r id : Nat} {body : Stmts} :
    ∀ (n : Nat) (s : St) (o1 o2 : Option St),
      IterBody src r id body n s o1 → IterBody src r id body n s o2 → o1 = o2
  | 0, _, _, _, h1, h2 => by
    have h1' : _ = _ := h1
    have h2' : _ = _ := h2
    rw [h1', h2']
  | m + 1, s, o1, o2, h1, h2 => by
    obtain ⟨oa, ra, ha⟩ := h1
    obtain ⟨ob, rb, hb⟩ := h2
    have := RunsTo.functional ra rb
    subst this
    cases oa with
    | none =>
      have ha' : _ = _ := ha
      have hb' : _ = _ := hb
      rw [ha', hb']
    | some s1 => exact IterBody.functional m s1 o1 o2 ha hb

theorem iter_aux {src : Source} (hp : ∀ pd ∈ src.progs, loStmts pd.body = true)
    (r id : Nat) (body ss : Stmts) (hb : loStmts body = true) (hid : usesId id body = false) :
    ∀ (n : Nat), n ≠ 0 → ∀ s : St, ∃ out, IterBody src r id body n s out ∧
      ∀ (k : Kont) (rest : List Frame),
        Goes src ⟨⟨r, s.1, s.2.set id n, body, .loop id body ss k, .run⟩ :: rest, .running⟩
          (out.map fun s' => ⟨⟨r, s'.1, s'.2.set id 0, ss, k, .run⟩ :: rest, .running⟩) := by
  intro n
  induction n with
  | zero => intro h; exact absurd rfl h
  | succ m ih =>
    intro _ s
    obtain ⟨ob, hrun, hinv⟩ := total hp r body hb (s.1, s.2.set id (m + 1))
    cases ob with
    | none => exact ⟨none, ⟨none, hrun, rfl⟩, fun k rest => hrun _ rest⟩
    | some s1 =>
      have hinv' : CInv (fun i => usesId i body) (s.2.set id (m + 1)) s1.2 := hinv
      have hget : s1.2.get id = m + 1 := by
        rcases hinv' id with e | ⟨hu, _⟩
        · rw [e, ctrs_get_set_same]
        · have hu' : usesId id body = true := hu
          rw [hid] at hu'; cases hu'
      cases m with
      | zero =>
        refine ⟨some s1, ⟨some s1, hrun, rfl⟩, fun k rest => Goes.trans (hrun _ rest) ?_⟩
        refine Goes.step_eq (step_nil_loop src r s1.1 s1.2 id body ss k rest) ?_
        rw [hget, if_neg (by simp)]
        exact Goes.refl _ _
      | succ m' =>
        obtain ⟨out, hiter, hgo⟩ := ih (Nat.succ_ne_zero m') s1
        refine ⟨out, ⟨some s1, hrun, hiter⟩, fun k rest => Goes.trans (hrun _ rest) ?_⟩
        refine Goes.step_eq (step_nil_loop src r s1.1 s1.2 id body ss k rest) ?_
        rw [hget, if_pos (by simp)]
        exact hgo k rest

/-- a LOOP whose body does not reuse the loop's id runs its body exactly `n` times, where `n` is
    the value of the bound variable at entry -/
theorem loop_iterations {src : Source} (hp : ∀ pd ∈ src.progs, loStmts pd.body = true)
    (r id : Nat) (x : Name) (body : Stmts) (pos : Pos) (ss : Stmts)
    (hb : loStmts body = true) (hid : usesId id body = false) (s : St) :
    ∃ out, IterBody src r id body (s.1.get x) s out ∧
      ∀ (k : Kont) (rest : List Frame),
        Goes src ⟨⟨r, s.1, s.2, .cons (.loop id x body pos) ss, k, .run⟩ :: rest, .running⟩
          (out.map fun s' => ⟨⟨r, s'.1, s'.2.set id 0, ss, k, .run⟩ :: rest, .running⟩) := by
  by_cases hn : s.1.get x = 0
  · refine ⟨some s, by rw [hn]; rfl, fun k rest => ?_⟩
    refine Goes.step_eq (step_loop src r s.1 s.2 id x body pos ss k rest) ?_
    rw [hn, if_neg (by simp)]
    exact Goes.refl _ _
  · obtain ⟨out, hiter, hgo⟩ := iter_aux hp r id body ss hb hid (s.1.get x) hn s
    refine ⟨out, hiter, fun k rest => ?_⟩
    refine Goes.step_eq (step_loop src r s.1 s.2 id x body pos ss k rest) ?_
    rw [if_pos hn]
    exact hgo k rest

/-! ### loop ids of parsed sources: no LOOP reuses its id inside its own body -/

mutual
/-- no LOOP (at any depth) contains a LOOP with its own id in its body -/
def distinctLoopIdsStmt : Stmt → Bool
  | .loop id _ body _ => !usesId id body && distinctLoopIds body
  | .while_ _ body _ => distinctLoopIds body
  | _ => true
def distinctLoopIds : Stmts → Bool
  | .nil => true
  | .cons s ss => distinctLoopIdsStmt s && distinctLoopIds ss
end

theorem usesId_append (i : Nat) : ∀ a b : Stmts, usesId i (a.append b) = (usesId i a || usesId i b)
  | .nil, b => by simp [Stmts.append, usesId]
  | .cons s ss, b => by simp [Stmts.append, usesId, usesId_append i ss b, Bool.or_assoc]

theorem distinctLoopIds_append : ∀ a b : Stmts,
    distinctLoopIds (a.append b) = (distinctLoopIds a && distinctLoopIds b)
  | .nil, b => by simp [Stmts.append, distinctLoopIds]
  | .cons s ss, b => by
    simp [Stmts.append, distinctLoopIds, distinctLoopIds_append ss b, Bool.and_assoc]

/-- what `stmtsOf` guarantees about loop ids: the ids lie in `(n, n']`, no loop reuses its id in
    its body, and the collected program definitions are only extended, by bodies of the same kind -/
def IdSpec (n : Nat) (ps : List ProgDef) (res : Stmts × Nat × List ProgDef) : Prop :=
  n ≤ res.2.1 ∧ (∀ i, usesId i res.1 = true → n < i ∧ i ≤ res.2.1) ∧
    distinctLoopIds res.1 = true ∧
    ∃ new, res.2.2 = ps ++ new ∧ ∀ pd ∈ new, distinctLoopIds pd.body = true

theorem IdSpec.leaf (n : Nat) (ps : List ProgDef) (s : Stmt) (hu : ∀ i, usesIdStmt i s = false)
    (hd : distinctLoopIdsStmt s = true) : IdSpec n ps (.cons s .nil, n, ps) :=
  ⟨Nat.le_refl _, fun i h => by simp [usesId, hu] at h, by simp [distinctLoopIds, hd],
    [], by simp, fun _ h => nomatch h⟩

theorem stmtsOf_idSpec : ∀ (nd : Node) (n : Nat) (ps : List ProgDef), IdSpec n ps (stmtsOf nd n ps)
  | .nil, n, ps =>
    ⟨Nat.le_refl _, fun i h => by simp [stmtsOf, usesId] at h, rfl, [], by simp [stmtsOf],
      fun _ h => nomatch h⟩
  | .mk t tok file line l r, n, ps => by
    by_cases h1 : t = NodeT.SPLIT
    · have ihl := stmtsOf_idSpec l n ps
      rcases hl : stmtsOf l n ps with ⟨a, n1, ps1⟩
      rw [hl] at ihl
      have ihr := stmtsOf_idSpec r n1 ps1
      rcases hr : stmtsOf r n1 ps1 with ⟨b, n2, ps2⟩
      rw [hr] at ihr
      have e : stmtsOf (.mk t tok file line l r) n ps = (a.append b, n2, ps2) := by
        rw [stmtsOf, if_pos h1]
        simp only [hl, hr]
      rw [e]
      obtain ⟨la, ia, da, newa, ea, pa⟩ := ihl
      obtain ⟨lb, ib, db, newb, eb, pb⟩ := ihr
      simp only at la ia da ea lb ib db eb
      refine ⟨Nat.le_trans la lb, ?_, ?_, newa ++ newb, ?_, ?_⟩
      · intro i hi
        simp only [usesId_append, Bool.or_eq_true] at hi
        rcases hi with hi | hi
        · have := ia i hi; exact ⟨this.1, Nat.le_trans this.2 lb⟩
        · have := ib i hi; exact ⟨Nat.lt_of_le_of_lt la this.1, this.2⟩
      · show distinctLoopIds (a.append b) = true
        rw [distinctLoopIds_append, da, db]; rfl
      · show ps2 = ps ++ (newa ++ newb)
        rw [eb, ea, List.append_assoc]
      · intro pd hpd
        rcases List.mem_append.mp hpd with h | h
        · exact pa pd h
        · exact pb pd h
    · by_cases h2 : t = NodeT.PROGRAM
      · have ihr := stmtsOf_idSpec r n ps
        rcases hr : stmtsOf r n ps with ⟨body, n1, ps1⟩
        rw [hr] at ihr
        obtain ⟨lb, ib, db, newb, eb, pb⟩ := ihr
        simp only at lb ib db eb
        have e : ∃ nm pr out, stmtsOf (.mk t tok file line l r) n ps =
            (.nil, n1, ps1 ++ [⟨nm, pr, out, body⟩]) := by
          refine ⟨l.left.tok, namesOf l.right.left,
            (match l.right.right with | .nil => bX0 | o => o.tok), ?_⟩
          rw [stmtsOf, if_neg h1, if_pos h2]
          simp only [hr]
          rfl
        obtain ⟨nm, pr, out, e⟩ := e
        rw [e]
        refine ⟨lb, fun i h => by simp [usesId] at h, rfl, newb ++ [⟨nm, pr, out, body⟩], ?_, ?_⟩
        · show ps1 ++ _ = ps ++ (newb ++ _)
          rw [eb, List.append_assoc]
        · intro pd hpd
          rcases List.mem_append.mp hpd with h | h
          · exact pb pd h
          · have : pd = ⟨nm, pr, out, body⟩ := by simpa using h
            rw [this]; exact db
      · by_cases h3 : t = NodeT.ASSIGN
        · have e : stmtsOf (.mk t tok file line l r) n ps =
              (.cons (.assign l.tok (valueOf r) (file, line)) .nil, n, ps) := by
            rw [stmtsOf, if_neg h1, if_neg h2, if_pos h3]
          rw [e]; exact IdSpec.leaf n ps _ (fun _ => rfl) rfl
        · by_cases h4 : t = NodeT.LOOP
          · have ihr := stmtsOf_idSpec r (n + 1) ps
            rcases hr : stmtsOf r (n + 1) ps with ⟨body, n1, ps1⟩
            rw [hr] at ihr
            obtain ⟨lb, ib, db, newb, eb, pb⟩ := ihr
            simp only at lb ib db eb
            have e : stmtsOf (.mk t tok file line l r) n ps =
                (.cons (.loop (n + 1) l.tok body (file, line)) .nil, n1, ps1) := by
              rw [stmtsOf, if_neg h1, if_neg h2, if_neg h3, if_pos h4]
              simp only [hr]
            rw [e]
            have hfree : usesId (n + 1) body = false := by
              cases hu : usesId (n + 1) body with
              | false => rfl
              | true => have := (ib _ hu).1; omega
            refine ⟨Nat.le_of_succ_le lb, ?_, ?_, newb, eb, pb⟩
            · intro i hi
              show n < i ∧ i ≤ n1
              simp only [usesId, usesIdStmt, Bool.or_eq_true, Bool.or_false, decide_eq_true_eq] at hi
              rcases hi with hi | hi
              · omega
              · have := ib i hi; omega
            · show distinctLoopIds (.cons (.loop (n + 1) l.tok body (file, line)) .nil) = true
              simp [distinctLoopIds, distinctLoopIdsStmt, hfree, db]
          · by_cases h5 : t = NodeT.WHILE
            · have ihr := stmtsOf_idSpec r n ps
              rcases hr : stmtsOf r n ps with ⟨body, n1, ps1⟩
              rw [hr] at ihr
              obtain ⟨lb, ib, db, newb, eb, pb⟩ := ihr
              simp only at lb ib db eb
              have e : stmtsOf (.mk t tok file line l r) n ps =
                  (.cons (.while_ l.tok body (file, line)) .nil, n1, ps1) := by
                rw [stmtsOf, if_neg h1, if_neg h2, if_neg h3, if_neg h4, if_pos h5]
                simp only [hr]
              rw [e]
              refine ⟨lb, ?_, ?_, newb, eb, pb⟩
              · intro i hi
                simp only [usesId, usesIdStmt, Bool.or_false] at hi
                exact ib i hi
              · show distinctLoopIds (.cons (.while_ l.tok body (file, line)) .nil) = true
                simp [distinctLoopIds, distinctLoopIdsStmt, db]
            · by_cases h6 : t = NodeT.MARK
              · have e : stmtsOf (.mk t tok file line l r) n ps =
                    (.cons (.mark l.tok (file, line)) .nil, n, ps) := by
                  rw [stmtsOf, if_neg h1, if_neg h2, if_neg h3, if_neg h4, if_neg h5, if_pos h6]
                rw [e]; exact IdSpec.leaf n ps _ (fun _ => rfl) rfl
              · by_cases h7 : t = NodeT.GOTO
                · have e : stmtsOf (.mk t tok file line l r) n ps =
                      (.cons (.goto l.tok (file, line)) .nil, n, ps) := by
                    rw [stmtsOf, if_neg h1, if_neg h2, if_neg h3, if_neg h4, if_neg h5, if_neg h6, if_pos h7]
                  rw [e]; exact IdSpec.leaf n ps _ (fun _ => rfl) rfl
                · by_cases h8 : t = NodeT.IF
                  · have e : stmtsOf (.mk t tok file line l r) n ps =
                        (.cons (.ifGoto l.left.tok (decVal l.right.tok) r.left.tok (file, line)) .nil,
                          n, ps) := by
                      rw [stmtsOf, if_neg h1, if_neg h2, if_neg h3, if_neg h4, if_neg h5, if_neg h6, if_neg h7, if_pos h8]
                    rw [e]; exact IdSpec.leaf n ps _ (fun _ => rfl) rfl
                  · by_cases h9 : t = NodeT.STOP
                    · have e : stmtsOf (.mk t tok file line l r) n ps =
                          (.cons (.stop (file, line)) .nil, n, ps) := by
                        rw [stmtsOf, if_neg h1, if_neg h2, if_neg h3, if_neg h4, if_neg h5, if_neg h6, if_neg h7, if_neg h8, if_pos h9]
                      rw [e]; exact IdSpec.leaf n ps _ (fun _ => rfl) rfl
                    · have e : stmtsOf (.mk t tok file line l r) n ps = (.nil, n, ps) := by
                        rw [stmtsOf, if_neg h1, if_neg h2, if_neg h3, if_neg h4, if_neg h5, if_neg h6, if_neg h7, if_neg h8, if_neg h9]
                      rw [e]
                      exact ⟨Nat.le_refl _, fun i h => by simp [usesId] at h, rfl, [], by simp,
                        fun _ h => nomatch h⟩

/-- every parsed source has nesting-distinct loop ids, in the main part and in every program -/
theorem toSource_distinctLoopIds (root : Node) :
    distinctLoopIds (toSource root).main = true ∧
      ∀ pd ∈ (toSource root).progs, distinctLoopIds pd.body = true := by
  obtain ⟨_, _, d, new, e, pn⟩ := stmtsOf_idSpec root 0 []
  rcases hr : stmtsOf root 0 [] with ⟨main, n1, ps⟩
  rw [hr] at d e
  simp only [List.nil_append] at e
  have hs : toSource root = ⟨ps, main⟩ := by simp only [toSource, hr]
  rw [hs]
  refine ⟨d, fun pd hpd => pn pd ?_⟩
  rw [← e]; exact hpd

end LoopHalts
end Theo

