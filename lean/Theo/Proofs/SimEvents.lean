/-
  The C01 simulation extended with visit events (C07).
-/
import Theo.Spec.Events
import Theo.Props.C01
import Theo.Proofs.SimEv6

set_option linter.unusedSimpArgs false
set_option linter.unusedSectionVars false

namespace Theo
namespace Sim
open Sem WF

/-! ### sites along longer runs -/

theorem sitesPassed_prefix (p : Program) : ∀ (m : Nat) (vm : VM),
    sitesPassed p m vm <+: sitesPassed p (m + 1) vm := by
  intro m
  induction m with
  | zero => intro vm; exact List.nil_prefix
  | succ m ih =>
    intro vm
    rw [sitesPassed.eq_def p (m + 1) vm, sitesPassed.eq_def p (m + 1 + 1) vm]
    simp only
    cases hs : Theo.step vm with
    | error e => exact List.prefix_refl _
    | ok r =>
      obtain ⟨vm', b⟩ := r
      simp only
      exact (List.prefix_append_right_inj _).2 (ih vm')

theorem sitesPassed_mono (p : Program) (vm : VM) {m M : Nat} (h : m ≤ M) :
    sitesPassed p m vm <+: sitesPassed p M vm := by
  induction M with
  | zero =>
    have : m = 0 := by omega
    subst this
    exact List.prefix_refl _
  | succ M ih =>
    rcases Nat.lt_or_ge m (M + 1) with hlt | hge
    · exact (ih (by omega)).trans (sitesPassed_prefix p M vm)
    · have : m = M + 1 := by omega
      subst this
      exact List.prefix_refl _

theorem sitesPassed_halt (p : Program) {vm : VM} (h : vm.isDone = .ok true) :
    ∀ j, sitesPassed p j vm = [] := by
  have hf := InvB.isDone_halt h
  have hs : Theo.step vm = .ok (vm, true) := by
    rw [InvB.step_eq, hf]; rfl
  intro j
  induction j with
  | zero => rfl
  | succ j ih =>
    rw [sitesPassed.eq_def]
    simp only [hs, hf, ih]
    rfl

/-! ### the visit sequence -/

theorem visits_stopped (src : Source) {c : Config} (h : c.status ≠ .running) :
    ∀ n, visits src n c = [] := by
  intro n
  cases n with
  | zero => rfl
  | succ n =>
    rw [visits.eq_def]
    simp only

theorem visitConfigs_stopped (src : Source) {c : Config} (h : c.status ≠ .running) :
    ∀ n, visitConfigs src n c = [] := by
  intro n
  cases n with
  | zero => rfl
  | succ n =>
    rw [visitConfigs.eq_def]
    simp only

theorem visits_succ (src : Source) {c : Config} (h : c.status = .running) (n : Nat) :
    visits src (n + 1) c = (stepEvent c).toList ++ visits src n (Sem.step src c) := by
  rw [visits.eq_def]
  simp only [h]

theorem visitConfigs_succ (src : Source) {c : Config} (h : c.status = .running) (n : Nat) :
    visitConfigs src (n + 1) c =
      (if (stepEvent c).isSome then [c] else []) ++ visitConfigs src n (Sem.step src c) := by
  rw [visitConfigs.eq_def]
  simp only [h]

theorem iter_fixed (src : Source) {c : Config} (h : c.status ≠ .running) : ∀ n, iter src n c = c := by
  intro n
  induction n with
  | zero => rfl
  | succ n ih =>
    show Sem.step src (iter src n c) = c
    rw [ih, step_fixed src c h]

/-- views agree at corresponding stops -/
def StopsAgree' (p : Program) : List Config → List (BreakPoint × VM) → Prop
  | [], [] => True
  | c :: cs, (_, vm) :: vs => StacksAgree' p vm.data c.stack vm.stack ∧ StopsAgree' p cs vs
  | _, _ => False

theorem StopsAgree'.append {p : Program} : ∀ {a1 : List Config} {l1 : List (BreakPoint × VM)}
    {a2 : List Config} {l2 : List (BreakPoint × VM)}, StopsAgree' p a1 l1 → StopsAgree' p a2 l2 →
    StopsAgree' p (a1 ++ a2) (l1 ++ l2)
  | [], [], _, _, _, h2 => h2
  | _ :: _, (_, _) :: _, _, _, h1, h2 => ⟨h1.1, StopsAgree'.append h1.2 h2⟩
  | [], _ :: _, _, _, h1, _ => nomatch h1
  | _ :: _, [], _, _, h1, _ => nomatch h1

theorem evOK_stops {p : Program} {cfg : Config} {L : List (BreakPoint × VM)} (h : EvOK p cfg L) :
    StopsAgree' p (if (stepEvent cfg).isSome then [cfg] else []) L := by
  obtain ⟨h1, h2⟩ := h
  cases he : stepEvent cfg with
  | none =>
    rw [he] at h1
    simp only [Option.toList, List.map_eq_nil_iff] at h1
    subst h1
    simp [StopsAgree']
  | some q =>
    rw [he] at h1
    simp only [Option.toList] at h1
    match L, h1, h2 with
    | [x], _, h2 =>
      obtain ⟨bp, v⟩ := x
      simp only [Option.isSome_some, if_true, StopsAgree']
      exact ⟨h2 _ (List.mem_singleton.2 rfl), trivial⟩

section
variable {src : Source} {p : Program} {V : Valid src p} {tend : Nat → Nat} {c : Cert} {R : PcInfo}
  (hc : CertOK p c R) (hV : V.OK) (hT : TValid V tend)
include hc hV hT

/-! ### the initial state -/

omit hV hT in
theorem tskips_run {pc pcF : Nat} (hs : TSkips p.code pc pcF) : ∀ {vm : VM}, Good p c R.rid vm →
    vm.ip = (pc : Int) →
    ∃ vm', QS p vm vm' ∧ Good p c R.rid vm' ∧ vm'.ip = (pcF : Int) ∧ vm'.stack = vm.stack ∧
      vm'.data = vm.data := by
  induction hs with
  | refl pc => intro vm hg ha; exact ⟨vm, ES.refl _ _, hg, ha, rfl, rfl⟩
  | jump h1 h2 _ ih =>
    intro vm hg ha
    obtain ⟨vm1, s1, g1, ip1, st1, d1⟩ := q_jmp hc hg ha h1
    obtain ⟨vm2, s2, g2, a2, st2, d2⟩ := ih g1 (by rw [ip1, h2])
    exact ⟨vm2, s1.es.trans s2 |> fun h => by simpa using h, g2, a2, st2.trans st1, d2.trans d1⟩

theorem init_matchT : ∃ vm, QS p (VM.mk' p) vm ∧ MatchT V tend c R (initial src) vm := by
  obtain ⟨cnt, tgt, hhead⟩ := hV.head
  have g0 := Good.init p c R.rid
  obtain ⟨s1, g1⟩ := g0.exec1 hc (pc := 0) (vm' := { VM.mk' p with
      data := [] ++ List.replicate cnt.toNat 0,
      stack := [⟨0, cnt, tgt, -1, (src.progs.length : Int)⟩], ip := 0 + 1 }) (b := false)
    rfl hhead (by simp) rfl
  have q1 := quiet1 g0 (pc := 0) rfl hhead (by simp) (by simp) s1
  obtain ⟨vm2, s2, g2, a2, st2, d2⟩ := tskips_run hc hT.skips g1 (show ((0 : Int) + 1) = ((1 : Nat) : Int) from rfl)
  refine ⟨vm2, (q1.trans_qs s2).es, g2, rfl, ⟨V.start src.progs.length, a2, ?_⟩, ?_⟩
  · rw [st2]
    show StackRelT V tend vm2.data [_] [⟨0, cnt, tgt, -1, (src.progs.length : Int)⟩] _ 0
    rw [stackRelT_cons]
    refine ⟨⟨Nat.le_refl _, rfl, ?_, ?_⟩, rfl, rfl⟩
    · have ham := winv_actMap g2.winv _ (by rw [st2]; exact List.mem_cons_self)
      have hcnt : 0 ≤ cnt := ham.2
      refine callee_frameOK (params := []) (vals := []) (hV.nodup _ (Nat.le_refl _)) (by rfl) rfl
        (fun _ h => nomatch h) ?_ (actmap_regs hc hV (Nat.le_refl _) ham rfl)
      intro r hr
      have hr' : (r : Int) < cnt := hr
      rw [d2]
      show ([] ++ List.replicate cnt.toNat (0 : Int))[0 + r]? = _
      rw [List.nil_append, List.getElem?_replicate, if_pos (by omega)]
      rfl
    · simp only [FrameAtT]
      have := hT.body _ (Nat.le_refl _)
      rw [bodyOf_root] at this
      exact ⟨_, this, by simp only [TKAt]⟩
  · intro fr rest h
    cases h
    exact fun ⟨_, _, h⟩ => nomatch h

/-! ### the trace of a finite prefix -/

theorem traceT : ∀ (n : Nat) (cfg : Config) (vm : VM), MatchT V tend c R cfg vm →
    ∃ k vm', Steps vm k vm' ∧
      (sitesPassed p k vm).map (fun x => posOfBp x.1) = visits src n cfg ∧
      StopsAgree' p (visitConfigs src n cfg) (sitesPassed p k vm) ∧
      (iter src n cfg).status ≠ .stuck ∧
      ((iter src n cfg).status = .running → MatchT V tend c R (iter src n cfg) vm') ∧
      ((iter src n cfg).status = .halted → vm'.isDone = .ok true) := by
  intro n
  induction n with
  | zero =>
    intro cfg vm hm
    refine ⟨0, vm, Steps.refl _, rfl, by simp [visitConfigs, sitesPassed, StopsAgree'], ?_,
      fun _ => hm, fun h => ?_⟩
    · show cfg.status ≠ .stuck
      rw [hm.run]; simp
    · have : cfg.status = .halted := h
      rw [hm.run] at this; cases this
  | succ n ih =>
    intro cfg vm hm
    have hrun := hm.run
    rw [iter_succ', visits_succ src hrun, visitConfigs_succ src hrun]
    have hres := sim_stepT hc hV hT hm
    cases hres with
    | run vm1 L1 hr1 hs1 hev hm1 =>
      have hes : ES p vm L1 vm1 := by
        rcases hs1 with hs1 | ⟨rfl, rfl, _⟩
        · exact hs1.es
        · exact ES.refl _ _
      obtain ⟨k1, st1, e1⟩ := hes
      obtain ⟨k2, vm2, st2, e2, a2, b2, c2, d2⟩ := ih _ vm1 hm1
      refine ⟨k1 + k2, vm2, st1.trans st2, ?_, ?_, b2, c2, d2⟩
      · rw [sitesPassed_add p st1, List.map_append, e1, e2, hev.1]
      · rw [sitesPassed_add p st1, e1]
        exact (evOK_stops hev).append a2
    | halt vm1 L1 hh1 hs1 hev hd1 _ =>
      obtain ⟨k1, st1, e1⟩ := hs1
      have hnr : (Sem.step src cfg).status ≠ .running := by rw [hh1]; simp
      refine ⟨k1, vm1, st1, ?_, ?_, ?_, ?_, fun _ => hd1⟩
      · rw [e1, visits_stopped src hnr, List.append_nil, hev.1]
      · rw [e1, visitConfigs_stopped src hnr, List.append_nil]
        exact evOK_stops hev
      · rw [iter_fixed src hnr, hh1]; simp
      · intro h; rw [iter_fixed src hnr, hh1] at h; cases h

/-- C07, the visit sequence of `n` reference steps is the site sequence of some VM prefix -/
theorem step_trace (n : Nat) :
    ∃ m, (sitesPassed p m (VM.mk' p)).map (fun x => posOfBp x.1) = visits src n (initial src) ∧
      StopsAgree' p (visitConfigs src n (initial src)) (sitesPassed p m (VM.mk' p)) := by
  obtain ⟨vm0, ⟨k0, st0, e0⟩, hm0⟩ := init_matchT hc hV hT
  obtain ⟨k, vm', st, e1, a1, _, _, _⟩ := traceT hc hV hT n _ vm0 hm0
  refine ⟨k0 + k, ?_, ?_⟩
  · rw [sitesPassed_add p st0, e0, List.nil_append]; exact e1
  · rw [sitesPassed_add p st0, e0, List.nil_append]; exact a1

/-! ### every VM prefix is covered by a source prefix -/

theorem reachT : ∀ (N : Nat) (cfg : Config) (vm : VM), MatchT V tend c R cfg vm →
    (∀ i, (iter src i cfg).status = .running) →
    ∃ n k vm', N ≤ k ∧ Steps vm k vm' ∧
      (sitesPassed p k vm).map (fun x => posOfBp x.1) = visits src n cfg := by
  intro N
  induction N with
  | zero => intro cfg vm _ _; exact ⟨0, 0, vm, Nat.le_refl _, Steps.refl _, rfl⟩
  | succ N ihN =>
    have inner : ∀ (m : Nat) (cfg : Config) (vm : VM), cmeasure cfg = m → MatchT V tend c R cfg vm →
        (∀ i, (iter src i cfg).status = .running) →
        ∃ n k vm', N + 1 ≤ k ∧ Steps vm k vm' ∧
          (sitesPassed p k vm).map (fun x => posOfBp x.1) = visits src n cfg := by
      intro m
      induction m using Nat.strongRecOn with
      | _ m ih =>
        intro cfg vm hmeas hm hdiv
        have hdiv' : ∀ i, (iter src i (Sem.step src cfg)).status = .running := by
          intro i; rw [← iter_succ']; exact hdiv (i + 1)
        have hres := sim_stepT hc hV hT hm
        cases hres with
        | run vm1 L1 hr1 hs1 hev hm1 =>
          rcases hs1 with ⟨k1, st1, e1⟩ | ⟨rfl, rfl, hlt⟩
          · obtain ⟨n2, k2, vm2, hk2, st2, e2⟩ := ihN _ vm1 hm1 hdiv'
            refine ⟨n2 + 1, k1 + 1 + k2, vm2, by omega, st1.trans st2, ?_⟩
            rw [sitesPassed_add p st1, List.map_append, e1, e2, visits_succ src hm.run, hev.1]
          · obtain ⟨n2, k2, vm2, hk2, st2, e2⟩ := ih _ (by rw [← hmeas]; exact hlt) _ _ rfl hm1 hdiv'
            refine ⟨n2 + 1, k2, vm2, hk2, st2, ?_⟩
            have h0 : (stepEvent cfg).toList = [] := by rw [← hev.1]; rfl
            rw [e2, visits_succ src hm.run, h0, List.nil_append]
        | halt vm1 L1 hh1 _ _ _ _ =>
          have := hdiv 1
          have e : iter src 1 cfg = Sem.step src cfg := rfl
          rw [e, hh1] at this
          cases this
    intro cfg vm hm hdiv
    exact inner _ cfg vm rfl hm hdiv

/-- C07, the VM passes no site the reference execution does not visit -/
theorem no_extra_stops (m : Nat) :
    ∃ n, (sitesPassed p m (VM.mk' p)).map (fun x => posOfBp x.1) <+: visits src n (initial src) := by
  obtain ⟨vm0, ⟨k0, st0, e0⟩, hm0⟩ := init_matchT hc hV hT
  by_cases hdiv : ∀ i, (iter src i (initial src)).status = .running
  · obtain ⟨n, k, vm', hk, st, e1⟩ := reachT hc hV hT m _ vm0 hm0 hdiv
    refine ⟨n, ?_⟩
    have hM : (sitesPassed p (k0 + k) (VM.mk' p)).map (fun x => posOfBp x.1) =
        visits src n (initial src) := by
      rw [sitesPassed_add p st0, e0, List.nil_append]; exact e1
    rw [← hM]
    exact (sitesPassed_mono p _ (by omega)).map _
  · have hex : ∃ i, (iter src i (initial src)).status ≠ .running := by
      apply Classical.byContradiction
      intro hne
      apply hdiv
      intro i
      apply Classical.byContradiction
      intro hi
      exact hne ⟨i, hi⟩
    obtain ⟨i, hi⟩ := hex
    obtain ⟨k, vm', st, e1, _, hns, _, hh⟩ := traceT hc hV hT i _ vm0 hm0
    have hhalt : (iter src i (initial src)).status = .halted := by
      cases hst : (iter src i (initial src)).status with
      | running => exact absurd hst hi
      | halted => rfl
      | stuck => exact absurd hst hns
    have hdone := hh hhalt
    refine ⟨i, ?_⟩
    have hM : (sitesPassed p (k0 + k) (VM.mk' p)).map (fun x => posOfBp x.1) =
        visits src i (initial src) := by
      rw [sitesPassed_add p st0, e0, List.nil_append]; exact e1
    rw [← hM]
    rcases Nat.le_total m (k0 + k) with hle | hge
    · exact (sitesPassed_mono p _ hle).map _
    · have : sitesPassed p m (VM.mk' p) = sitesPassed p (k0 + k) (VM.mk' p) := by
        rw [show m = (k0 + k) + (m - (k0 + k)) by omega, sitesPassed_add p (st0.trans st),
          sitesPassed_halt p hdone, List.append_nil]
      rw [this]
      exact List.prefix_refl _

end

end Sim
end Theo
