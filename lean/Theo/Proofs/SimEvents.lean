/-
  The C01 simulation extended with visit events (C07).
-/
import Theo.Spec.Events
import Theo.Props.C01

namespace Theo

end Theo
