/-
  C01, part 5: the simulation relation between configurations of the reference semantics and
  states of the VM.
-/
import Theo.Proofs.SimValid

set_option linter.unusedSimpArgs false

namespace Theo
namespace Sim
open Sem

/-! ### registers holding a list of values -/

def HoldAll (H : Int → Nat → Prop) (acc : List Int) (done : List Nat) : Prop :=
  acc.length = done.length ∧ ∀ q ∈ acc.zip done, H q.1 q.2

theorem HoldAll.nil (H : Int → Nat → Prop) : HoldAll H [] [] := ⟨rfl, fun _ h => nomatch h⟩

theorem HoldAll.snoc {H : Int → Nat → Prop} {acc : List Int} {done : List Nat} {t : Int} {n : Nat}
    (h : HoldAll H acc done) (ht : H t n) : HoldAll H (acc ++ [t]) (done ++ [n]) := by
  refine ⟨by simp [h.1], fun q hq => ?_⟩
  rw [List.zip_append h.1] at hq
  rcases List.mem_append.1 hq with hq | hq
  · exact h.2 q hq
  · simp only [List.zip_cons_cons, List.zip_nil_right, List.mem_singleton] at hq
    subst hq
    exact ht

theorem HoldAll.mono {H H' : Int → Nat → Prop} {acc : List Int} {done : List Nat}
    (h : HoldAll H acc done) (hm : ∀ t, t ∈ acc → ∀ n, H t n → H' t n) : HoldAll H' acc done :=
  ⟨h.1, fun q hq => hm q.1 (List.of_mem_zip hq).1 q.2 (h.2 q hq)⟩

theorem HoldAll.cons_inv {H : Int → Nat → Prop} {t : Int} {ts : List Int} {v : Nat} {vs : List Nat}
    (h : HoldAll H (t :: ts) (v :: vs)) : H t v ∧ HoldAll H ts vs := by
  obtain ⟨h1, h2⟩ := h
  refine ⟨h2 (t, v) (by simp), by simpa using h1, fun q hq => h2 q ?_⟩
  simp only [List.zip_cons_cons, List.mem_cons]
  exact Or.inr hq

/-! ### pending evaluation contexts -/

/-- the code that consumes a value arriving in `tgt` at `pc`: the remaining arguments and the
    call of every pending context (innermost first), finally the assignment to `x`;
    `live` = the temporaries holding the values already computed -/
def CtxAt (e : VEnv) (H : Int → Nat → Prop) : List ECtx → Name → List Int → Int → Nat → Nat → Prop
  | [], x, live, tgt, pc, pcS => live = [] ∧ e.me.regOf x = some tgt ∧ pc = pcS
  | c :: cs, x, live, tgt, pc, pcS => ∃ live' acc temps pc1 tgt' pc',
      live = live' ++ acc ∧ tempOK e live tgt = true ∧ HoldAll H acc c.done ∧
      checkArgs e c.todo live' (acc ++ [tgt]) pc = some (temps, pc1) ∧
      CallTail e c.f live' temps pc1 tgt' pc' ∧ CtxAt e H cs x live' tgt' pc' pcS

theorem CtxAt.pres {e : VEnv} {H H' : Int → Nat → Prop} : ∀ {cs : List ECtx} {x : Name}
    {live : List Int} {tgt : Int} {pc pcS : Nat}, CtxAt e H cs x live tgt pc pcS →
    (∀ t, t ∈ live → ∀ n, H t n → H' t n) → CtxAt e H' cs x live tgt pc pcS := by
  intro cs
  induction cs with
  | nil => intro x live tgt pc pcS h _; exact h
  | cons c cs ih =>
    intro x live tgt pc pcS h hm
    simp only [CtxAt] at h ⊢
    obtain ⟨live', acc, temps, pc1, tgt', pc', h1, h2, h3, h4, h5, h6⟩ := h
    subst h1
    exact ⟨live', acc, temps, pc1, tgt', pc', rfl, h2,
      h3.mono (fun t ht => hm t (List.mem_append_right _ ht)), h4, h5,
      ih h6 (fun t ht => hm t (List.mem_append_left _ ht))⟩

theorem CtxAt.mono {e : VEnv} {H H' : Int → Nat → Prop} {cs : List ECtx} {x : Name}
    {live : List Int} {tgt : Int} {pc pcS : Nat} (h : CtxAt e H cs x live tgt pc pcS)
    (hm : ∀ t n, H t n → H' t n) : CtxAt e H' cs x live tgt pc pcS :=
  h.pres (fun t _ n => hm t n)

theorem tempOK_iff {e : VEnv} {live : List Int} {t : Int} :
    tempOK e live t = true ↔ e.me.isNamed t = false ∧ live.contains t = false := by
  unfold tempOK
  simp

theorem CtxAt.not_live {e : VEnv} {H : Int → Nat → Prop} {cs : List ECtx} {x : Name}
    {live : List Int} {tgt : Int} {pc pcS : Nat} (h : CtxAt e H cs x live tgt pc pcS) :
    tgt ∉ live := by
  cases cs with
  | nil => simp only [CtxAt] at h; rw [h.1]; simp
  | cons c cs =>
    simp only [CtxAt] at h
    obtain ⟨live', acc, temps, pc1, tgt', pc', h1, h2, _⟩ := h
    have := (tempOK_iff.1 h2).2
    simpa using this

/-! ### one activation -/

/-- where the code stands for a frame of the reference machine: `ip` is the position of the
    next instruction of this activation, `rt` the register awaiting a callee's result -/
def FrameAt (e : VEnv) (G : Walk) (H : Int → Nat → Prop) (fr : Frame) (ip : Nat) (rt : Int) : Prop :=
  match fr.ctrl with
  | .run => ∃ pcE, SAt e G fr.focus ip pcE ∧ KAt e G fr.k pcE G.pc
  | .eval v x cs => ∃ live tgt pc' pcS pcE, checkValue e v live ip = some (tgt, pc') ∧
      CtxAt e H cs x live tgt pc' pcS ∧ SAt e G fr.focus pcS pcE ∧ KAt e G fr.k pcE G.pc
  | .ret n x cs => ∃ live tgt pcS pcE, H tgt n ∧ CtxAt e H cs x live tgt ip pcS ∧
      SAt e G fr.focus pcS pcE ∧ KAt e G fr.k pcE G.pc
  | .wait x cs => ∃ live pcS pcE, CtxAt e H cs x live rt ip pcS ∧
      SAt e G fr.focus pcS pcE ∧ KAt e G fr.k pcE G.pc

theorem FrameAt.mono {e : VEnv} {G : Walk} {H H' : Int → Nat → Prop} {fr : Frame} {ip : Nat}
    {rt : Int} (h : FrameAt e G H fr ip rt) (hm : ∀ t n, H t n → H' t n) :
    FrameAt e G H' fr ip rt := by
  unfold FrameAt at h ⊢
  split
  · rename_i hc; rw [hc] at h; exact h
  · rename_i v x cs hc
    rw [hc] at h
    obtain ⟨live, tgt, pc', pcS, pcE, h1, h2, h3, h4⟩ := h
    exact ⟨live, tgt, pc', pcS, pcE, h1, h2.mono hm, h3, h4⟩
  · rename_i n x cs hc
    rw [hc] at h
    obtain ⟨live, tgt, pcS, pcE, h1, h2, h3, h4⟩ := h
    exact ⟨live, tgt, pcS, pcE, hm _ _ h1, h2.mono hm, h3, h4⟩
  · rename_i x cs hc
    rw [hc] at h
    obtain ⟨live, pcS, pcE, h2, h3, h4⟩ := h
    exact ⟨live, pcS, pcE, h2.mono hm, h3, h4⟩

/-- the environment the VM's registers reflect: a value already delivered to its variable's
    register is ahead of the reference machine by one (silent) step -/
def effEnv (fr : Frame) : Env :=
  match fr.ctrl with
  | .ret n x [] => fr.env.set x n
  | _ => fr.env

def isWait (fr : Frame) : Prop := ∃ x cs, fr.ctrl = .wait x cs

section
variable {src : Source} {p : Program}

def FrameRel (V : Valid src p) (d : List Int) (fr : Frame) (a : Act) (ip : Nat) (rt : Int) : Prop :=
  fr.routine ≤ src.progs.length ∧ a.dbg = (fr.routine : Int) ∧
  FrameOK d a (V.ri fr.routine) (effEnv fr) fr.ctrs ∧
  FrameAt (V.env fr.routine) (V.G fr.routine) (Holds d a) fr ip rt

theorem FrameRel.below {V : Valid src p} {d d' : List Int} {fr : Frame} {a : Act} {ip : Nat} {rt : Int}
    {N : Nat} (h : FrameRel V d fr a ip rt) (hN : a.dataStart + a.segSize.toNat ≤ N)
    (hs : SameBelow N d d') : FrameRel V d' fr a ip rt := by
  obtain ⟨h1, h2, h3, h4⟩ := h
  exact ⟨h1, h2, h3.below hN hs, h4.mono (fun _ _ hh => hh.below hN hs)⟩

/-- the activations: the top one at position `ip`; every other one suspended in a call, its
    callee's activation recording where to return and where to deliver; the root at the bottom -/
def StackRel (V : Valid src p) (d : List Int) : List Frame → List Act → Nat → Int → Prop
  | [], _, _, _ => False
  | fr :: frs, as, ip, rt =>
    match as with
    | [] => False
    | a :: as' => FrameRel V d fr a ip rt ∧
      match frs with
      | [] => as' = [] ∧ fr.routine = src.progs.length
      | fr2 :: _ => fr.routine < src.progs.length ∧ isWait fr2 ∧
          ∃ ip2 : Nat, a.retAddr = (ip2 : Int) ∧ StackRel V d frs as' ip2 a.retTarget

theorem StackRel.below {V : Valid src p} {d d' : List Int} : ∀ {frs : List Frame} {as : List Act}
    {ip : Nat} {rt : Int} {N : Nat}, StackRel V d frs as ip rt → Tiles as N → SameBelow N d d' →
    StackRel V d' frs as ip rt := by
  intro frs
  induction frs with
  | nil => intro as ip rt N h _ _; simp only [StackRel] at h
  | cons fr frs ih =>
    intro as ip rt N h ht hs
    cases as with
    | nil => simp only [StackRel] at h
    | cons a as' =>
      simp only [StackRel] at h ⊢
      obtain ⟨_, hsum, ht'⟩ := ht
      refine ⟨h.1.below (by omega) hs, ?_⟩
      cases frs with
      | nil => exact h.2
      | cons fr2 frs' =>
        obtain ⟨g1, g2, ip2, g3, g4⟩ := h.2
        exact ⟨g1, g2, ip2, g3, ih g4 ht' (hs.mono (by omega))⟩

end

end Sim
end Theo
