/-
  C04 (static rules), part 4: the generator's verdict, characterised on the tree.
  `nValOK` / `nStmtOK` (RUN and LIT rules against an arity table), `defsOf` / `refsOf` (marks
  defined / jumped to), and the theorems that dispatching a value, a statement list, a parameter
  list, a program definition records no error iff these checks pass.
-/
import Theo.Proofs.StaticInv

namespace Theo
namespace Static
open GS

/-! ### checks on the tree -/

instance (l r : Node) (n : Nat) : Decidable (builtinP l r n) := by unfold builtinP; infer_instance

/-- number of arguments in an argument tree -/
def argCount : Node → Nat
  | .nil => 0
  | .mk t _ _ _ l r => if t = NodeT.SPLIT then argCount l + argCount r else 1

/-- RUN and LIT for a value (`args = false`) or an argument tree (`args = true`) -/
def nValOK (fa : Bytes → Option Nat) : Bool → Node → Bool
  | _, .nil => true
  | args, .mk t tok _ _ l r =>
    if args = true ∧ t = NodeT.SPLIT then nValOK fa true l && nValOK fa true r
    else if t = NodeT.NAME then true
    else if t = NodeT.NUMBER then !genRangeBad (decVal tok)
    else if t = NodeT.CALL then
      nValOK fa true r && (decide (builtinP l r (argCount r)) || fa l.tok == some (argCount r))
    else false

/-- RUN and LIT for a statement tree (of statement shape) -/
def nStmtOK (fa : Bytes → Option Nat) : Node → Bool
  | .nil => true
  | .mk t _ _ _ l r =>
    if t = NodeT.SPLIT then nStmtOK fa l && nStmtOK fa r
    else if t = NodeT.ASSIGN then nValOK fa false r
    else if t = NodeT.LOOP ∨ t = NodeT.WHILE then nValOK fa false l && nStmtOK fa r
    else if t = NodeT.IF then nValOK fa false l.left && nValOK fa false l.right
    else true

/-- marks defined in a statement tree -/
def defsOf : Node → List Bytes
  | .nil => []
  | .mk t _ _ _ l r =>
    if t = NodeT.SPLIT then defsOf l ++ defsOf r
    else if t = NodeT.LOOP ∨ t = NodeT.WHILE then defsOf r
    else if t = NodeT.MARK then [l.tok]
    else []

/-- marks jumped to in a statement tree -/
def refsOf : Node → List Bytes
  | .nil => []
  | .mk t _ _ _ l r =>
    if t = NodeT.SPLIT then refsOf l ++ refsOf r
    else if t = NodeT.LOOP ∨ t = NodeT.WHILE then refsOf r
    else if t = NodeT.GOTO then [l.tok]
    else if t = NodeT.IF then [r.left.tok]
    else []

/-- effect of a statement tree on the mark states -/
def upd : Node → (Bytes → Option Bool) → Bytes → Option Bool
  | .nil, σ => σ
  | .mk t _ _ _ l r, σ =>
    if t = NodeT.SPLIT then upd r (upd l σ)
    else if t = NodeT.LOOP ∨ t = NodeT.WHILE then upd r σ
    else if t = NodeT.MARK then fun m => if m = l.tok then some true else σ m
    else if t = NodeT.GOTO then fun m => if m = l.tok then some ((σ l.tok).getD false) else σ m
    else if t = NodeT.IF then fun m => if m = r.left.tok then some ((σ r.left.tok).getD false) else σ m
    else σ

theorem nodeSize_pos (n : Node) : 1 ≤ nodeSize n := by
  cases n <;> simp [nodeSize]

theorem rangeBad_strtol (tok : Bytes) : genRangeBad (strtolNat tok) = genRangeBad (decVal tok) := by
  unfold genRangeBad strtolNat
  have h1 : ConstGen.genGuardRejectsMax = true := rfl
  simp only [h1, if_true]
  unfold INT_MAX LONG_MAX
  apply decide_eq_decide.2
  omega

/-! ### values -/

theorem nValOK_false_mk (fa : Bytes → Option Nat) (t : Nat) (tok file : Bytes) (line : Int) (l r : Node) :
    nValOK fa false (.mk t tok file line l r) =
      if t = NodeT.NAME then true
      else if t = NodeT.NUMBER then !genRangeBad (decVal tok)
      else if t = NodeT.CALL then
        nValOK fa true r && (decide (builtinP l r (argCount r)) || fa l.tok == some (argCount r))
      else false := by
  rw [nValOK]; simp

theorem nValOK_true_split (fa : Bytes → Option Nat) (tok file : Bytes) (line : Int) (l r : Node) :
    nValOK fa true (.mk NodeT.SPLIT tok file line l r) = (nValOK fa true l && nValOK fa true r) := by
  rw [nValOK]; simp

theorem nValOK_true_ne (fa : Bytes → Option Nat) (t : Nat) (tok file : Bytes) (line : Int) (l r : Node)
    (h : t ≠ NodeT.SPLIT) :
    nValOK fa true (.mk t tok file line l r) = nValOK fa false (.mk t tok file line l r) := by
  rw [nValOK, nValOK]; simp [h]

theorem value_char : ∀ f : Nat,
    (∀ gs n tgt, nodeSize n ≤ f →
      ((dispatchValue f gs n tgt).errors = [] ↔ gs.errors = [] ∧ nValOK (look gs) false n = true)) ∧
    (∀ gs n acc, nodeSize n + 1 ≤ f →
      ((dispatchCallArgs f gs n acc).1.errors = [] ↔ gs.errors = [] ∧ nValOK (look gs) true n = true) ∧
      (dispatchCallArgs f gs n acc).2.length = acc.length + argCount n) := by
  intro f
  induction f with
  | zero =>
    refine ⟨fun gs n tgt h => ?_, fun gs n acc h => ?_⟩
    · have := nodeSize_pos n; omega
    · omega
  | succ f ih =>
    refine ⟨?_, ?_⟩
    · intro gs n tgt hf
      cases n with
      | nil => rw [dispatchValue_nil]; simp [nValOK]
      | mk t tok file line l r =>
        rw [dispatchValue_succ, nValOK_false_mk]
        have q0 := quiet_advanceLine gs line file
        have e0 := advanceLine_errors gs line file
        have hl0 : ∀ g, look (gs.advanceLine line file) g = look gs g := fun g => look_congr q0.funcAddrs g
        generalize gs.advanceLine line file = gs0 at q0 e0 hl0
        simp only [nodeSize] at hf
        by_cases h1 : t = NodeT.NAME
        · rw [if_pos h1, if_pos h1]; simp [e0]
        rw [if_neg h1, if_neg h1]
        by_cases h2 : t = NodeT.NUMBER
        · rw [if_pos h2, if_pos h2, emit_errors, genStrToInt_errors, rangeBad_strtol, e0]; simp
        rw [if_neg h2, if_neg h2]
        by_cases h3 : t = NodeT.CALL
        · rw [if_pos h3, if_pos h3]
          have hr : nodeSize r + 1 ≤ f := by have := nodeSize_pos l; omega
          obtain ⟨he, hlen⟩ := ih.2 gs0 r [] hr
          have qa := (quiet_values f).2 gs0 r []
          rw [(callTail_spec _ _ _ _ _).2, he, hlen, look_congr qa.funcAddrs, hl0, e0]
          have hfun : (fun g => look gs0 g) = look gs := funext hl0
          have hfun' : look gs0 = look gs := hfun
          rw [hfun']
          simp only [List.length_nil, Nat.zero_add, Bool.and_eq_true, Bool.or_eq_true, decide_eq_true_eq, beq_iff_eq]
          constructor
          · rintro ⟨⟨a, b⟩, c⟩; exact ⟨a, b, c⟩
          · rintro ⟨a, b, c⟩; exact ⟨⟨a, b⟩, c⟩
        · rw [if_neg h3, if_neg h3]
          constructor
          · intro h; exact absurd h (err_ne_nil _ _)
          · intro h; cases h.2
    · intro gs n acc hf
      cases n with
      | nil => rw [dispatchCallArgs_nil]; simp [nValOK, argCount]
      | mk t tok file line l r =>
        rw [dispatchCallArgs_succ]
        have hsz : nodeSize (.mk t tok file line l r) = nodeSize l + nodeSize r + 1 := rfl
        by_cases h1 : t = NodeT.SPLIT
        · subst h1
          rw [if_pos rfl, nValOK_true_split]
          have hl : nodeSize l + 1 ≤ f := by have := nodeSize_pos r; omega
          have hr : nodeSize r + 1 ≤ f := by have := nodeSize_pos l; omega
          obtain ⟨he1, hlen1⟩ := ih.2 gs l acc hl
          have q1 := (quiet_values f).2 gs l acc
          obtain ⟨he2, hlen2⟩ := ih.2 (dispatchCallArgs f gs l acc).1 r (dispatchCallArgs f gs l acc).2 hr
          have hfun : look (dispatchCallArgs f gs l acc).1 = look gs := funext (look_congr q1.funcAddrs)
          rw [he2, he1, hlen2, hlen1, hfun]
          refine ⟨?_, ?_⟩
          · simp only [Bool.and_eq_true]
            constructor
            · rintro ⟨⟨a, b⟩, c⟩; exact ⟨a, b, c⟩
            · rintro ⟨a, b, c⟩; exact ⟨⟨a, b⟩, c⟩
          · simp [argCount]; omega
        · rw [if_neg h1, nValOK_true_ne _ _ _ _ _ _ _ h1]
          dsimp only
          have hn : nodeSize (.mk t tok file line l r) ≤ f := by omega
          rw [ih.1 _ _ _ hn, fetchTemporary_errors]
          have hfun : look gs.fetchTemporary.1 = look gs := funext (look_congr (quiet_fetchTemporary gs).funcAddrs)
          rw [hfun]
          refine ⟨Iff.rfl, ?_⟩
          simp [argCount, h1]

theorem value_errors (f : Nat) (gs : GS) (n : Node) (tgt : Int) (h : nodeSize n ≤ f) :
    (dispatchValue f gs n tgt).errors = [] ↔ gs.errors = [] ∧ nValOK (look gs) false n = true :=
  (value_char f).1 gs n tgt h

/-! ### parameters -/

def regNames (gs : GS) : List Bytes := gs.top.regs.map (·.name)

theorem findReg_isSome (n : Bytes) : ∀ (regs : List VReg) (i : Nat),
    (findReg regs n i).isSome = true ↔ n ∈ regs.map (·.name)
  | [], _ => by simp [findReg]
  | r :: rs, i => by
    unfold findReg
    by_cases h : r.name = n
    · simp [h]
    · rw [if_neg h, findReg_isSome n rs (i + 1)]
      simp
      intro h'; exact absurd h'.symm h

theorem fetchVar_regNames (gs : GS) (n : Bytes) (x : Bytes) :
    x ∈ regNames (gs.fetchVar n).1 ↔ x ∈ regNames gs ∨ x = n := by
  unfold fetchVar
  dsimp only
  cases hf : findReg gs.top.regs n 0 with
  | some i =>
    dsimp only
    have : n ∈ regNames gs := (findReg_isSome n _ 0).1 (by rw [hf]; rfl)
    constructor
    · exact Or.inl
    · rintro (h | h)
      · exact h
      · exact h ▸ this
  | none =>
    dsimp only
    unfold regNames
    simp

theorem args_char : ∀ (f : Nat) (gs : GS) (n : Node), nodeSize n ≤ f →
    ((dispatchArgs f gs n).errors = [] ↔
      gs.errors = [] ∧ (namesOf n).Nodup ∧ ∀ x ∈ namesOf n, x ∉ regNames gs) ∧
    (∀ x, x ∈ regNames (dispatchArgs f gs n) ↔ x ∈ regNames gs ∨ x ∈ namesOf n) ∧
    (dispatchArgs f gs n).top.argnum = gs.top.argnum + (namesOf n).length := by
  intro f
  induction f with
  | zero => intro gs n h; have := nodeSize_pos n; omega
  | succ f ih =>
    intro gs n hf
    cases n with
    | nil => rw [dispatchArgs_nil]; simp [namesOf]
    | mk t tok file line l r =>
      rw [dispatchArgs_succ]
      simp only [nodeSize] at hf
      by_cases h1 : t = NodeT.SPLIT
      · subst h1
        rw [if_pos rfl]
        have hl : nodeSize l ≤ f := by omega
        have hr : nodeSize r ≤ f := by omega
        obtain ⟨e1, r1, a1⟩ := ih gs l hl
        obtain ⟨e2, r2, a2⟩ := ih (dispatchArgs f gs l) r hr
        have hn : namesOf (.mk NodeT.SPLIT tok file line l r) = namesOf l ++ namesOf r := by simp [namesOf]
        rw [hn]
        refine ⟨?_, ?_, ?_⟩
        · rw [e2, e1, List.nodup_append]
          constructor
          · rintro ⟨⟨h0, hn1, hd1⟩, hn2, hd2⟩
            refine ⟨h0, ⟨hn1, hn2, ?_⟩, ?_⟩
            · intro a ha b hb hab
              subst hab
              exact hd2 a hb ((r1 a).2 (Or.inr ha))
            · intro x hx
              rcases List.mem_append.1 hx with hx | hx
              · exact hd1 x hx
              · intro hreg; exact hd2 x hx ((r1 x).2 (Or.inl hreg))
          · rintro ⟨h0, ⟨hn1, hn2, hd⟩, hall⟩
            refine ⟨⟨h0, hn1, fun x hx => hall x (List.mem_append_left _ hx)⟩, hn2, ?_⟩
            intro x hx hreg
            rcases (r1 x).1 hreg with h | h
            · exact hall x (List.mem_append_right _ hx) h
            · exact hd x h x hx rfl
        · intro x
          rw [r2, r1, List.mem_append, or_assoc]
        · rw [a2, a1, List.length_append, Nat.add_assoc]
      · rw [if_neg h1]
        dsimp only
        have hn : namesOf (.mk t tok file line l r) = [tok] := by simp [namesOf, h1]
        rw [hn]
        have hfr := findReg_isSome tok gs.top.regs 0
        refine ⟨?_, ?_, ?_⟩
        · rw [fetchVar_errors]
          by_cases hd : (findReg gs.top.regs tok 0).isSome = true
          · rw [if_pos hd]
            constructor
            · intro h; exact absurd h (err_ne_nil _ _)
            · rintro ⟨_, _, h⟩; exact absurd (hfr.1 hd) (h tok (List.mem_singleton.2 rfl))
          · rw [if_neg hd]
            have : tok ∉ regNames gs := fun h => hd (hfr.2 h)
            simp [this]
        · intro x
          rw [fetchVar_regNames]
          have : regNames ({ (if (findReg gs.top.regs tok 0).isSome then gs.err GErrT.INTERNAL_ERROR else gs) with
              symbols := { (if (findReg gs.top.regs tok 0).isSome then gs.err GErrT.INTERNAL_ERROR else gs).top with
                argnum := (if (findReg gs.top.regs tok 0).isSome then gs.err GErrT.INTERNAL_ERROR else gs).top.argnum + 1 } ::
                (if (findReg gs.top.regs tok 0).isSome then gs.err GErrT.INTERNAL_ERROR else gs).symbols.drop 1 } : GS) = regNames gs := by
            split <;> rfl
          rw [this]; simp
        · rw [(quiet_fetchVar _ _).argnum]
          split <;> rfl

/-! ### statements -/

structure StmtSpec (gs gs' : GS) (n : Node) : Prop where
  errs : gs'.errors = [] ↔ gs.errors = [] ∧ nStmtOK (look gs) n = true
  funcAddrs : gs'.funcAddrs = gs.funcAddrs
  mstate : ∀ m, mstate gs' m = upd n (mstate gs) m

theorem look_eq {gs gs' : GS} (h : gs'.funcAddrs = gs.funcAddrs) : look gs' = look gs := funext (look_congr h)
theorem mstate_eq {gs gs' : GS} (h : ∀ m, mstate gs' m = mstate gs m) : mstate gs' = mstate gs := funext h

theorem StmtSpec.of_quiet_left {gs gs0 g : GS} {n : Node} (q : Quiet gs gs0) (e : gs0.errors = gs.errors)
    (h : StmtSpec gs0 g n) : StmtSpec gs g n :=
  ⟨by rw [h.errs, e, look_eq q.funcAddrs], h.funcAddrs.trans q.funcAddrs,
   fun m => by rw [h.mstate, mstate_eq q.mstate]⟩

theorem nodeSize_left_le (n : Node) : nodeSize n.left ≤ nodeSize n := by
  cases n with
  | nil => exact Nat.le_refl _
  | mk t tok file line l r => simp [Node.left, nodeSize]; omega
theorem nodeSize_right_le (n : Node) : nodeSize n.right ≤ nodeSize n := by
  cases n with
  | nil => exact Nat.le_refl _
  | mk t tok file line l r => simp [Node.right, nodeSize]; omega

theorem stmtShape_mk (t : Nat) (tok file : Bytes) (line : Int) (l r : Node) :
    stmtShape (.mk t tok file line l r) =
      if t = NodeT.SPLIT then stmtShape l && stmtShape r
      else if t = NodeT.ASSIGN then valShape false r
      else if t = NodeT.LOOP ∨ t = NodeT.WHILE then nilOr NodeT.NAME l && stmtShape r
      else if t = NodeT.IF then nilOr NodeT.NAME l.left && nilOr NodeT.NUMBER l.right
      else decide (t = NodeT.MARK ∨ t = NodeT.GOTO ∨ t = NodeT.STOP) := by
  rw [stmtShape]

theorem stmt_char : ∀ (f : Nat) (gs : GS) (n : Node), nodeSize n ≤ f → stmtShape n = true → MarksWF gs →
    StmtSpec gs (dispatchVoid f gs n) n := by
  intro f
  induction f with
  | zero => intro gs n h; have := nodeSize_pos n; omega
  | succ f ih =>
    intro gs n hf hs w
    cases n with
    | nil => rw [dispatchVoid_nil]; exact ⟨by simp [nStmtOK], rfl, fun m => rfl⟩
    | mk t tok file line l r =>
      rw [dispatchVoid_succ]
      dsimp only
      have q0 := quiet_advanceLine gs line file
      have e0 := advanceLine_errors gs line file
      generalize gs.advanceLine line file = gs0 at q0 e0
      refine StmtSpec.of_quiet_left q0 e0 ?_
      have w0 : MarksWF gs0 := q0.wf w
      clear q0 e0 w
      simp only [nodeSize] at hf
      have hfl : nodeSize l ≤ f := by have := nodeSize_pos r; omega
      have hfr : nodeSize r ≤ f := by have := nodeSize_pos l; omega
      rw [stmtShape_mk] at hs
      by_cases h1 : t = NodeT.SPLIT
      · subst h1
        rw [if_pos rfl]
        rw [if_pos rfl, Bool.and_eq_true] at hs
        have s1 := ih gs0 l hfl hs.1 w0
        have w1 : MarksWF (dispatchVoid f gs0 l) := (step_void f gs0 l).wf w0
        have s2 := ih (dispatchVoid f gs0 l) r hfr hs.2 w1
        refine ⟨?_, s2.funcAddrs.trans s1.funcAddrs, ?_⟩
        · rw [s2.errs, s1.errs, look_eq s1.funcAddrs]
          simp [nStmtOK, and_assoc]
        · intro m
          rw [s2.mstate, (funext s1.mstate : mstate (dispatchVoid f gs0 l) = upd l (mstate gs0))]
          simp [upd]
      rw [if_neg h1] at hs ⊢
      by_cases h2 : t = NodeT.PROGRAM
      · subst h2; simp [NodeT.PROGRAM, NodeT.ASSIGN, NodeT.LOOP, NodeT.WHILE, NodeT.IF, NodeT.MARK, NodeT.GOTO, NodeT.STOP] at hs
      rw [if_neg h2]
      by_cases h3 : t = NodeT.ASSIGN
      · subst h3
        rw [if_pos rfl]
        have qf := quiet_fetchVar gs0 l.tok
        have qv := quiet_value f (gs0.fetchVar l.tok).1 r (gs0.fetchVar l.tok).2
        refine ⟨?_, qv.funcAddrs.trans qf.funcAddrs, ?_⟩
        · rw [value_errors _ _ _ _ hfr, fetchVar_errors, look_eq qf.funcAddrs]
          simp [nStmtOK, NodeT.ASSIGN, NodeT.SPLIT]
        · intro m
          rw [(qf.trans qv).mstate]
          simp [upd, NodeT.ASSIGN, NodeT.SPLIT, NodeT.LOOP, NodeT.WHILE, NodeT.MARK, NodeT.GOTO, NodeT.IF]
      rw [if_neg h3] at hs ⊢
      by_cases h4 : t = NodeT.LOOP
      · subst h4
        rw [if_pos rfl]
        rw [if_pos (Or.inl rfl), Bool.and_eq_true] at hs
        have qp := quiet_loopPre gs0
        have ep := loopPre_errors gs0
        generalize (loopPre gs0).1 = p1 at qp ep
        generalize (loopPre gs0).2 = counter
        have qv := quiet_value f p1 l counter
        have ev := value_errors f p1 l counter hfl
        generalize dispatchValue f p1 l counter = v at qv ev
        have wv : MarksWF v := qv.wf (qp.wf w0)
        have sm := loopMid_spec v counter
        generalize (loopMid v counter).1 = m1 at sm
        generalize (loopMid v counter).2.1 = startL at sm
        generalize (loopMid v counter).2.2 = endL at sm
        have wm : MarksWF m1 := sm.wf wv
        have hb := step_void f m1 r
        have sb := ih m1 r hfr hs.2 wm
        generalize dispatchVoid f m1 r = b at hb sb
        have hs' : startL < b.labels.length := by
          have := hb.lablen; rw [sm.lablen] at this; rw [sm.startL]; omega
        obtain ⟨sc, _⟩ := loopPost_spec b counter startL endL hs'
        generalize loopPost b counter startL endL = res at sc
        have hfa : m1.funcAddrs = gs0.funcAddrs := by rw [sm.funcAddrs, qv.funcAddrs, qp.funcAddrs]
        refine ⟨?_, by rw [sc.funcAddrs, sb.funcAddrs, hfa], ?_⟩
        · rw [sc.errors, sb.errs, sm.errors, ev, ep, look_eq hfa, look_eq qp.funcAddrs]
          simp [nStmtOK, NodeT.LOOP, NodeT.SPLIT, NodeT.ASSIGN, and_assoc]
        · intro m
          have hn : ∀ x ∈ b.top.marks, x.2 ≠ endL := by
            intro x hx
            rcases hb.new x hx with h | h
            · have := wv.lt x (sm.marks ▸ h); rw [sm.endL]; omega
            · rw [sm.lablen] at h; rw [sm.endL]; omega
          rw [sc.mstate hn, sb.mstate, mstate_eq (sm.mstate wv), mstate_eq qv.mstate, mstate_eq qp.mstate]
          simp [upd, NodeT.LOOP, NodeT.SPLIT]
      by_cases h5 : t = NodeT.WHILE
      · subst h5
        rw [if_neg h4, if_pos rfl]
        rw [if_pos (Or.inr rfl), Bool.and_eq_true] at hs
        have sm := whilePre_spec gs0
        generalize (whilePre gs0).1 = p1 at sm
        generalize (whilePre gs0).2.1 = startL at sm
        generalize (whilePre gs0).2.2.1 = endL at sm
        generalize (whilePre gs0).2.2.2 = cond
        have wp : MarksWF p1 := sm.wf w0
        have qv := quiet_value f p1 l cond
        have ev := value_errors f p1 l cond hfl
        generalize dispatchValue f p1 l cond = v at qv ev
        have qe := quiet_emitBackpatched v (.jmpc endL cond) endL
          (by rw [qv.labels, sm.lablen, sm.endL]; omega) (Or.inr ⟨cond, rfl⟩)
        have ee : (v.emitBackpatched (.jmpc endL cond)).errors = v.errors := rfl
        generalize v.emitBackpatched (.jmpc endL cond) = m1 at qe ee
        have wm : MarksWF m1 := qe.wf (qv.wf wp)
        have hb := step_void f m1 r
        have sb := ih m1 r hfr hs.2 wm
        generalize dispatchVoid f m1 r = b at hb sb
        have hlen : gs0.labels.length + 2 ≤ b.labels.length := by
          have := hb.lablen; rw [qe.labels, qv.labels, sm.lablen] at this; exact this
        have hs' : startL < b.labels.length := by rw [sm.startL]; omega
        obtain ⟨sc, _⟩ := whilePost_spec b startL endL cond hs'
        generalize whilePost b startL endL cond = res at sc
        have hfa : m1.funcAddrs = gs0.funcAddrs := by rw [qe.funcAddrs, qv.funcAddrs, sm.funcAddrs]
        refine ⟨?_, by rw [sc.funcAddrs, sb.funcAddrs, hfa], ?_⟩
        · rw [sc.errors, sb.errs, ee, ev, sm.errors, look_eq hfa, look_eq sm.funcAddrs]
          simp [nStmtOK, NodeT.WHILE, NodeT.SPLIT, NodeT.ASSIGN, and_assoc]
        · intro m
          have hn : ∀ x ∈ b.top.marks, x.2 ≠ endL := by
            intro x hx
            rcases hb.new x hx with h | h
            · rw [qe.marks, qv.marks, sm.marks] at h
              have := w0.lt x h; rw [sm.endL]; omega
            · rw [qe.labels, qv.labels, sm.lablen] at h; rw [sm.endL]; omega
          rw [sc.mstate hn, sb.mstate, mstate_eq qe.mstate, mstate_eq qv.mstate, mstate_eq (sm.mstate w0)]
          simp [upd, NodeT.WHILE, NodeT.SPLIT]
      rw [if_neg h4, if_neg h5]
      rw [if_neg (by intro h; rcases h with h | h; exact h4 h; exact h5 h)] at hs
      by_cases h6 : t = NodeT.MARK
      · subst h6
        rw [if_pos rfl]
        obtain ⟨_, e1, f1, m1⟩ := mark_spec gs0 l.tok
        refine ⟨by rw [e1]; simp [nStmtOK, NodeT.MARK, NodeT.SPLIT, NodeT.ASSIGN, NodeT.LOOP, NodeT.WHILE, NodeT.IF], f1, ?_⟩
        intro m
        rw [m1 w0]
        simp [upd, NodeT.MARK, NodeT.SPLIT, NodeT.LOOP, NodeT.WHILE]
      rw [if_neg h6]
      by_cases h7 : t = NodeT.GOTO
      · subst h7
        rw [if_pos rfl]
        have j := goto_spec gs0 l.tok
        refine ⟨by rw [j.errors]; simp [nStmtOK, NodeT.GOTO, NodeT.SPLIT, NodeT.ASSIGN, NodeT.LOOP, NodeT.WHILE, NodeT.IF], j.funcAddrs, ?_⟩
        intro m
        rw [j.mstate w0]
        simp [upd, NodeT.GOTO, NodeT.MARK, NodeT.SPLIT, NodeT.LOOP, NodeT.WHILE]
      rw [if_neg h7]
      by_cases h8 : t = NodeT.IF
      · subst h8
        rw [if_pos rfl]
        have qp := quiet_ifPre gs0
        have ep := ifPre_errors gs0
        generalize (ifPre gs0).1 = p1 at qp ep
        generalize (ifPre gs0).2.1 = cond
        generalize (ifPre gs0).2.2.1 = op1
        generalize (ifPre gs0).2.2.2 = op2
        have hl1 : nodeSize l.left ≤ f := Nat.le_trans (nodeSize_left_le l) hfl
        have hl2 : nodeSize l.right ≤ f := Nat.le_trans (nodeSize_right_le l) hfl
        have qv1 := quiet_value f p1 l.left op1
        have ev1 := value_errors f p1 l.left op1 hl1
        generalize dispatchValue f p1 l.left op1 = v1 at qv1 ev1
        have qv2 := quiet_value f v1 l.right op2
        have ev2 := value_errors f v1 l.right op2 hl2
        generalize dispatchValue f v1 l.right op2 = v2 at qv2 ev2
        have j := ifPost_spec v2 cond op1 op2 r.left.tok
        have qq := qp.trans (qv1.trans qv2)
        refine ⟨?_, j.funcAddrs.trans qq.funcAddrs, ?_⟩
        · rw [j.errors, ev2, ev1, ep, look_eq qv1.funcAddrs, look_eq qp.funcAddrs]
          simp [nStmtOK, NodeT.IF, NodeT.SPLIT, NodeT.ASSIGN, NodeT.LOOP, NodeT.WHILE, and_assoc]
        · intro m
          rw [j.mstate (qq.wf w0), mstate_eq qq.mstate]
          simp [upd, NodeT.IF, NodeT.GOTO, NodeT.MARK, NodeT.SPLIT, NodeT.LOOP, NodeT.WHILE]
      rw [if_neg h8]
      rw [if_neg h8] at hs
      by_cases h9 : t = NodeT.STOP
      · subst h9
        rw [if_pos rfl]
        refine ⟨by simp [nStmtOK, NodeT.STOP, NodeT.SPLIT, NodeT.ASSIGN, NodeT.LOOP, NodeT.WHILE, NodeT.IF], rfl, ?_⟩
        intro m
        rw [(quiet_emit gs0 .halt).mstate]
        simp [upd, NodeT.STOP, NodeT.IF, NodeT.GOTO, NodeT.MARK, NodeT.SPLIT, NodeT.LOOP, NodeT.WHILE]
      · exfalso
        simp [h6, h7, h9] at hs

end Static
end Theo
