/-
  C04 (sugar) — scanner facts for the front end: the include phrase `include "__standards__"`
  prepended to the main file lexes as INCLUDE FNAME and leaves the lexing of the file's own text
  untouched (`lexBuffer_phrase`; closed facts about the phrase under the regenerated lexer rules
  are re-checked by `decide +kernel`, `phraseFacts_ok`); the scanner only produces token kinds up
  to `WITH` (`scan_scanned`); a file without `include` is just labelled (`scanToksWith_noinc`).
-/
import Theo.Proofs.SugarExtract
import Theo.Proofs.LexIdent
import Theo.Proofs.ScanProofs

namespace Theo.Sugar

/-! ### lexing a known prefix -/

/-- run `longestAux` over a known prefix: `error best` = all rules are dead inside the prefix -/
def prefixRun : List Rx → Bytes → Nat → Option (Nat × Nat) →
    Except (Option (Nat × Nat)) (List Rx × Nat × Option (Nat × Nat))
  | rs, [], n, best => .ok (rs, n, best)
  | rs, c :: cs, n, best =>
    let rs' := rs.map (Rx.deriv c)
    if rs'.all (fun r => r == Rx.empty) then .error best else
    let best' := match firstNullable rs' 0 with
      | some i => some (i, n + 1)
      | none => best
    prefixRun rs' cs (n + 1) best'

theorem longestAux_prefix : ∀ (p q : Bytes) (rs : List Rx) (n : Nat) (best : Option (Nat × Nat)),
    longestAux rs (p ++ q) n best =
      match prefixRun rs p n best with
      | .error b => b
      | .ok (rs', n', b') => longestAux rs' q n' b' := by
  intro p
  induction p with
  | nil => intro q rs n best; rfl
  | cons c cs ih =>
    intro q rs n best
    simp only [List.cons_append, longestAux, prefixRun]
    split
    · rfl
    · exact ih q _ _ _

/-- every rule in `rs` dies on every byte -/
def allDie (rs : List Rx) : Bool :=
  allBytes.all (fun c => (rs.map (Rx.deriv c)).all (fun r => r == Rx.empty))

theorem longestAux_allDie (rs : List Rx) (h : allDie rs = true) (q : Bytes) (n : Nat) (best : Option (Nat × Nat)) :
    longestAux rs q n best = best := by
  cases q with
  | nil => rfl
  | cons c cs =>
    have := List.all_eq_true.1 h c (mem_allBytes c)
    simp only [longestAux, this, if_true]

theorem lexFrom_fuel : ∀ (f1 f2 : Nat) (inp : Bytes) (line : Nat), inp.length < f1 → inp.length < f2 →
    lexFrom LexGen.rules f1 inp line = lexFrom LexGen.rules f2 inp line := by
  intro f1
  induction f1 with
  | zero => intro f2 inp line h; omega
  | succ f1 ih =>
    intro f2 inp line h1 h2
    obtain ⟨f2, rfl⟩ : ∃ g, f2 = g + 1 := ⟨f2 - 1, by omega⟩
    cases inp with
    | nil => rfl
    | cons c cs =>
      simp only [lexFrom]
      cases hl : longest (LexGen.rules.map (·.1)) (c :: cs) with
      | none => rfl
      | some v =>
        obtain ⟨i, n⟩ := v
        obtain ⟨hn0, hn1⟩ := longest_some_bounds hl
        have hd : ((c :: cs).drop n).length < f1 ∧ ((c :: cs).drop n).length < f2 := by
          rw [List.length_drop]; simp only [List.length_cons] at h1 h2 hn1 ⊢; omega
        simp only [ih f2 _ _ hd.1 hd.2]


abbrev R : List Rx := LexGen.rules.map (·.1)

/-- one token of `lexFrom` when the longest match is decided inside a known prefix `p` -/
theorem lexFrom_step (p q : Bytes) (f line i n : Nat) (hp : p ≠ [])
    (hl : longestAux R (p ++ q) 0 none = some (i, n)) (hn : n ≤ p.length) :
    lexFrom LexGen.rules (f + 1) (p ++ q) line =
      (match (LexGen.rules[i]?).bind (·.2) with
       | some k => [⟨k, p.take n, line + countNl (p.take n)⟩]
       | none => []) ++
      lexFrom LexGen.rules f (p.drop n ++ q) (line + countNl (p.take n)) := by
  cases p with
  | nil => exact absurd rfl hp
  | cons c cs =>
    have hl' : longest (LexGen.rules.map (·.1)) (c :: (cs ++ q)) = some (i, n) := hl
    simp only [List.cons_append, lexFrom, hl']
    rw [show c :: (cs ++ q) = (c :: cs) ++ q from rfl, List.take_append_of_le_length hn,
      List.drop_append_of_le_length hn]
    cases (LexGen.rules[i]?).bind (·.2) <;> rfl

def incWord : Bytes := ConstGen.includePhrase.take 7
def incQuoted : Bytes := ConstGen.includePhrase.drop 8

/-- closed facts about the include phrase `include "__standards__"` under the regenerated lexer
    rules: `include` followed by a blank is the keyword; the blank before a quote is skipped; the
    quoted name is one FNAME token after which every rule is dead -/
def phraseFacts : Bool :=
  (ConstGen.includePhrase == incWord ++ 32 :: incQuoted) &&
  (match prefixRun R (incWord ++ [32]) 0 none with
   | .error (some (i, n)) => n == 7 && ((LexGen.rules[i]?).bind (·.2) == some Tok.INCLUDE)
   | _ => false) &&
  (match prefixRun R (32 :: incQuoted.take 1) 0 none with
   | .error (some (i, n)) => n == 1 && ((LexGen.rules[i]?).bind (·.2) == none)
   | _ => false) &&
  (match prefixRun R incQuoted 0 none with
   | .ok (rs', _, some (i, n)) => n == incQuoted.length && allDie rs' &&
       ((LexGen.rules[i]?).bind (·.2) == some Tok.FNAME)
   | _ => false) &&
  (countNl ConstGen.includePhrase == 0) && ConstGen.includePhrase.all (· ≠ 0) &&
  (unquote incQuoted == ConstGen.stdFileName) && (incQuoted.length == 15)

theorem phraseFacts_ok : phraseFacts = true := by decide +kernel


theorem lexBuffer_phrase (content : Bytes) :
    lexBuffer (ConstGen.includePhrase ++ content) =
      ⟨Tok.INCLUDE, incWord, 1⟩ :: ⟨Tok.FNAME, incQuoted, 1⟩ :: lexBuffer content := by
  have hF := phraseFacts_ok
  simp only [phraseFacts, Bool.and_eq_true, beq_iff_eq] at hF
  obtain ⟨⟨⟨⟨⟨⟨⟨hsplit, hA⟩, hB⟩, hC⟩, hnl⟩, hnz⟩, _⟩, hqlen⟩ := hF
  -- the C string
  have hcstr : cstr (ConstGen.includePhrase ++ content) = ConstGen.includePhrase ++ cstr content := by
    unfold cstr
    exact List.takeWhile_append_of_pos (fun a ha => List.all_eq_true.1 hnz a ha)
  have hwlen : incWord.length = 7 := by decide
  have hwnl : countNl incWord = 0 := by decide
  have hqnl : countNl incQuoted = 0 := by decide
  unfold lexBuffer
  rw [hcstr]
  generalize cstr content = c'
  show lexFrom LexGen.rules ((ConstGen.includePhrase ++ c').length + 1) (ConstGen.includePhrase ++ c') 1 =
    ⟨Tok.INCLUDE, incWord, 1⟩ :: ⟨Tok.FNAME, incQuoted, 1⟩ :: lexFrom LexGen.rules (c'.length + 1) c' 1
  have hlen : (ConstGen.includePhrase ++ c').length + 1 = (c'.length + 21) + 1 + 1 + 1 := by
    rw [List.length_append, hsplit, List.length_append, List.length_cons, hwlen, hqlen]; omega
  rw [hlen]
  -- step 1: `include`
  split at hA
  · rename_i i n hrun
    simp only [Bool.and_eq_true, beq_iff_eq] at hA
    obtain ⟨hn, hk⟩ := hA
    subst hn
    have e1 : ConstGen.includePhrase ++ c' = (incWord ++ [32]) ++ (incQuoted ++ c') := by
      rw [hsplit]; simp
    rw [e1, lexFrom_step (incWord ++ [32]) (incQuoted ++ c') _ 1 i 7 (by simp)
      (by rw [longestAux_prefix, hrun]) (by simp [hwlen]), hk]
    have t1 : (incWord ++ [32]).take 7 = incWord := List.take_left' hwlen
    have d1 : (incWord ++ [32]).drop 7 = [32] := List.drop_left' hwlen
    rw [t1, d1, hwnl]
    -- step 2: the blank
    split at hB
    · rename_i i2 n2 hrun2
      simp only [Bool.and_eq_true, beq_iff_eq] at hB
      obtain ⟨hn2, hk2⟩ := hB
      subst hn2
      have e2 : [32] ++ (incQuoted ++ c') = (32 :: incQuoted.take 1) ++ (incQuoted.drop 1 ++ c') := by
        simp only [List.cons_append, List.nil_append]
        rw [← List.append_assoc, List.take_append_drop]
      rw [e2, lexFrom_step (32 :: incQuoted.take 1) (incQuoted.drop 1 ++ c') _ (1 + 0) i2 1 (by simp)
        (by rw [longestAux_prefix, hrun2]) (by simp), hk2]
      have t2 : (32 :: incQuoted.take 1).take 1 = [32] := rfl
      have d2 : (32 :: incQuoted.take 1).drop 1 ++ (incQuoted.drop 1 ++ c') = incQuoted ++ c' := by
        simp only [List.drop_succ_cons, List.drop_zero]
        rw [← List.append_assoc, List.take_append_drop]
      rw [t2, d2, show countNl [32] = 0 from rfl]
      -- step 3: the quoted name
      split at hC
      · rename_i rs' n3 i3 m3 hrun3
        simp only [Bool.and_eq_true, beq_iff_eq] at hC
        obtain ⟨⟨hn3, hdie⟩, hk3⟩ := hC
        subst hn3
        rw [lexFrom_step incQuoted c' _ (1 + 0 + 0) i3 incQuoted.length (by intro h; rw [h] at hqlen; cases hqlen)
          (by rw [longestAux_prefix, hrun3]; exact longestAux_allDie rs' hdie _ _ _) (Nat.le_refl _), hk3]
        rw [List.take_length, List.drop_length, hqnl]
        simp only [List.nil_append, List.cons_append, Nat.add_zero]
        rw [lexFrom_fuel (c'.length + 21) (c'.length + 1) c' 1 (by omega) (by omega)]
      · cases hC
    · cases hB
  · cases hA


/-! ### the scanner produces kinds up to `WITH` only -/

theorem lexRules_kinds_le : ∀ r ∈ LexGen.rules, ∀ k, r.2 = some k → k ≤ Tok.WITH := by
  have h : LexGen.rules.all (fun r => match r.2 with | some k => decide (k ≤ Tok.WITH) | none => true) = true := by
    decide +kernel
  intro r hr k hk
  have := List.all_eq_true.1 h r hr
  rw [hk] at this
  simpa using this

theorem lexBuffer_kind_le (content : Bytes) : ∀ t ∈ lexBuffer content, t.kind ≤ Tok.WITH := by
  intro t ht
  apply Nat.le_of_not_lt
  intro hlt
  refine lexFrom_kind_ne LexGen.rules t.kind (fun r hr he => ?_) _ _ _ t ht rfl
  have := lexRules_kinds_le r hr _ he
  omega

theorem scanFile_kinds_le (files : Files) :
    ∀ (d : Nat) (active : List Bytes) (fname content : Bytes),
      ∀ t ∈ (scanFile d files active fname content).toks, t.kind ≤ Tok.WITH := by
  intro d
  induction d with
  | zero => intro active fname content t ht; simp [scanFile] at ht
  | succ d ih =>
    intro active fname content
    rw [scanFile]
    refine scanToksWith_ind (fun o => ∀ t ∈ o.toks, t.kind ≤ Tok.WITH)
      (fun t => t.kind ≤ Tok.WITH) _ files (fname :: active)
      fname ?_ ?_ ?_ ?_ ?_ ?_ ?_ _ (lexBuffer_kind_le content)
    · intro t ht; simp at ht
    · intro a b ha hb t ht
      rcases List.mem_append.1 ht with h | h
      · exact ha t h
      · exact hb t h
    · intro r hr t ht; simp at ht; subst ht; exact hr
    · intro l t ht; simp at ht
    · intro l n _ t ht; simp at ht
    · intro l t ht; simp at ht
    · intro n c _ _; exact ih _ _ _

theorem scan_kinds_le (files : Files) (main : Bytes) : ∀ t ∈ (scan files main).toks, t.kind ≤ Tok.WITH := by
  intro t ht
  rw [scan_toks] at ht
  rcases List.mem_append.1 ht with h | h
  · unfold scanBody at h
    split at h
    · exact scanFile_kinds_le files _ _ _ _ t h
    · simp at h
  · simp at h; subst h
    rw [scanEof_kind]; decide

/-- the whole scanner output is `Scanned` -/
theorem scan_scanned (files : Files) (main : Bytes) : Scanned (scan files main).toks := by
  obtain ⟨body, eof, h, he, _⟩ := scan_one_eof files main
  exact ⟨scan_kinds_le files main, body, eof, h, he⟩

/-! ### a file without `include` -/

theorem scanToksWith_noinc (sub : List Bytes → Bytes → Bytes → ScanOut) (files : Files) (active : List Bytes)
    (fname : Bytes) : ∀ ts : List RawTok, (∀ t ∈ ts, t.kind ≠ Tok.INCLUDE) →
    scanToksWith sub files active fname ts = ⟨ts.map (fun t => ⟨t.kind, t.text, fname, t.line⟩), [], false⟩ := by
  intro ts
  induction ts using scanToksWith.induct with
  | case1 => intro _; rfl
  | case2 t ht => intro h; exact absurd ht (h t (by simp))
  | case3 t ht => intro _; simp [scanToksWith, ht]
  | case4 t n rest ht hn ih => intro h; exact absurd ht (h t (by simp))
  | case5 t n rest ht hn ih => intro h; exact absurd ht (h t (by simp))
  | case6 t n rest ht ih =>
    intro h
    rw [scanToksWith, if_neg ht, ih (fun x hx => h x (List.mem_cons_of_mem _ hx))]
    simp [ScanOut.append]

end Theo.Sugar
