/-
  C01 for the generator model, part 13: every jump the generator emits is on the backpatch list
  (`JT`), for every tree.
-/
import Theo.Proofs.GenShapeBackpatch

set_option linter.unusedSimpArgs false
set_option linter.unusedVariables false

namespace Theo
namespace GenShape
open GS Sem Static

theorem fetchVar_ct (gs : GS) (x : Bytes) : (gs.fetchVar x).1.code = gs.code ∧ (gs.fetchVar x).1.todo = gs.todo := by
  unfold fetchVar; dsimp only; split <;> exact ⟨rfl, rfl⟩
theorem fetchTemporary_ct (gs : GS) : gs.fetchTemporary.1.code = gs.code ∧ gs.fetchTemporary.1.todo = gs.todo := by
  unfold fetchTemporary; dsimp only; split <;> exact ⟨rfl, rfl⟩
theorem genStrToInt_ct (gs : GS) (t : Bytes) : (genStrToInt gs t).1.code = gs.code ∧ (genStrToInt gs t).1.todo = gs.todo := by
  unfold genStrToInt; dsimp only; split <;> exact ⟨rfl, rfl⟩

theorem JT.fetchVar {gs : GS} (h : JT gs) (x : Bytes) : JT (gs.fetchVar x).1 := h.same (fetchVar_ct gs x).1 (fetchVar_ct gs x).2
theorem JT.fetchTemporary {gs : GS} (h : JT gs) : JT gs.fetchTemporary.1 := h.same (fetchTemporary_ct gs).1 (fetchTemporary_ct gs).2
theorem JT.genStrToInt {gs : GS} (h : JT gs) (t : Bytes) : JT (genStrToInt gs t).1 := h.same (genStrToInt_ct gs t).1 (genStrToInt_ct gs t).2
theorem JT.markLabel {gs : GS} (h : JT gs) (m : Bytes) : JT (gs.markLabel m).1 :=
  h.same (markLabel_spec gs m).code (markLabel_spec gs m).todo
theorem JT.release {gs : GS} (h : JT gs) (i : Int) : JT (gs.releaseTemporary i) := h.same rfl rfl
theorem JT.err {gs : GS} (h : JT gs) (k : Nat) : JT (gs.err k) := h.same rfl rfl
theorem JT.setLabel {gs : GS} (h : JT gs) (l : Nat) (p : Int) : JT (gs.setLabel l p) := h.same rfl rfl
theorem JT.createLabel {gs : GS} (h : JT gs) : JT gs.createLabel.1 := h.same rfl rfl
theorem JT.popSymbols {gs : GS} (h : JT gs) (a : Int) : JT (gs.popSymbols a) :=
  h.same (popSymbols_spec gs a).code (popSymbols_spec gs a).todo

theorem JT.argFold : ∀ (l : List (Int × Nat)) (g : GS), JT g →
    JT (l.foldl (fun g a => (g.emit (.arg a.2 a.1)).releaseTemporary a.1) g) := by
  intro l
  induction l with
  | nil => intro g h; exact h
  | cons a as ih => intro g h; exact ih _ ((h.emit _ rfl).release _)

theorem JT.callTail {gs : GS} (h : JT gs) (al : List Int) (l r : Node) (tgt : Int) : JT (callTail gs al l r tgt) := by
  unfold Static.callTail
  dsimp only
  split
  · split <;> exact h.emit _ rfl
  · split
    · exact h.err _
    · split
      · exact h.err _
      · exact (JT.argFold _ _ (h.emit _ rfl)).emit _ rfl

theorem jt_values : ∀ f : Nat,
    (∀ gs n tgt, JT gs → JT (dispatchValue f gs n tgt)) ∧
    (∀ gs n acc, JT gs → JT (dispatchCallArgs f gs n acc).1) := by
  intro f
  induction f with
  | zero =>
    exact ⟨fun gs n tgt h => by rw [dispatchValue_zero]; exact h,
           fun gs n acc h => by rw [dispatchCallArgs_zero]; exact h⟩
  | succ f ih =>
    refine ⟨?_, ?_⟩
    · intro gs n tgt h
      cases n with
      | nil => rw [dispatchValue_nil]; exact h
      | mk t tok file line l r =>
        rw [dispatchValue_succ]
        have h0 := h.advanceLine line file
        split
        · exact (h0.fetchVar _).emit _ rfl
        · split
          · exact (h0.genStrToInt _).emit _ rfl
          · split
            · exact (ih.2 _ _ _ h0).callTail _ _ _ _
            · exact h0.err _
    · intro gs n acc h
      cases n with
      | nil => rw [dispatchCallArgs_nil]; exact h
      | mk t tok file line l r =>
        rw [dispatchCallArgs_succ]
        split
        · exact ih.2 _ _ _ (ih.2 _ _ _ h)
        · exact ih.1 _ _ _ h.fetchTemporary

theorem jt_args : ∀ (f : Nat) (gs : GS) (n : Node), JT gs → JT (dispatchArgs f gs n) := by
  intro f
  induction f with
  | zero => intro gs n h; rw [dispatchArgs_zero]; exact h
  | succ f ih =>
    intro gs n h
    cases n with
    | nil => rw [dispatchArgs_nil]; exact h
    | mk t tok file line l r =>
      rw [dispatchArgs_succ]
      split
      · exact ih _ _ (ih _ _ h)
      · dsimp only
        have h1 : JT (if (findReg gs.top.regs tok 0).isSome then gs.err GErrT.INTERNAL_ERROR else gs) := by
          split
          · exact h.err _
          · exact h
        generalize (if (findReg gs.top.regs tok 0).isSome then gs.err GErrT.INTERNAL_ERROR else gs) = g1 at h1
        exact JT.fetchVar (gs := bumpArg g1) (h1.same rfl rfl) tok

theorem jt_void : ∀ (f : Nat) (gs : GS) (n : Node), JT gs → JT (dispatchVoid f gs n) := by
  intro f
  induction f with
  | zero => intro gs n h; rw [dispatchVoid_zero]; exact h
  | succ f ih =>
    intro gs n h
    cases n with
    | nil => rw [dispatchVoid_nil]; exact h
    | mk t tok file line l r =>
      rw [dispatchVoid_succ]
      dsimp only
      have h0 := h.advanceLine line file
      generalize gs.advanceLine line file = gs0 at h0
      split
      · exact ih _ _ (ih _ _ h0)
      split
      · -- PROGRAM
        have hp : JT (progPre gs0 l.left.tok).1 := by
          unfold progPre
          dsimp only
          exact (h0.removeTopPotBreak.createLabel.emitBackpatched _).same rfl rfl
        have hb := ih _ r (jt_args f _ l.right.left hp)
        unfold progPost
        dsimp only
        exact ((((hb.fetchVar _).emit _ rfl).popSymbols _).setLabel _ _)
      split
      · exact (jt_values f).1 _ _ _ (h0.fetchVar _)
      split
      · -- LOOP
        have hp : JT (loopPre gs0).1 := by
          unfold loopPre
          dsimp only
          exact JT.fetchVar (gs := { gs0 with loops := gs0.loops + 1 }) (h0.same rfl rfl) _
        have hv := (jt_values f).1 _ l (loopPre gs0).2 hp
        have hm : JT (loopMid (dispatchValue f (loopPre gs0).1 l (loopPre gs0).2) (loopPre gs0).2).1 := by
          unfold loopMid
          dsimp only
          exact ((hv.createLabel.createLabel).setLabel _ _).emitBackpatched _
        have hb := ih _ r hm
        unfold loopPost
        dsimp only
        exact (((hb.emit _ rfl).emitBackpatched _).setLabel _ _)
      split
      · -- WHILE
        have hp : JT (whilePre gs0).1 := by
          unfold whilePre
          dsimp only
          exact (h0.createLabel.createLabel.fetchTemporary).setLabel _ _
        have hv := (jt_values f).1 _ l (whilePre gs0).2.2.2 hp
        have hb := ih _ r (hv.emitBackpatched (.jmpc (whilePre gs0).2.2.1 (whilePre gs0).2.2.2))
        unfold whilePost
        dsimp only
        exact ((hb.emitBackpatched _).setLabel _ _).release _
      split
      · exact (h0.markLabel _).setLabel _ _
      split
      · exact (h0.markLabel _).emitBackpatched _
      split
      · have hp : JT (ifPre gs0).1 := by
          unfold ifPre
          dsimp only
          exact h0.fetchTemporary.fetchTemporary.fetchTemporary
        have hv := (jt_values f).1 _ l.right (ifPre gs0).2.2.2 ((jt_values f).1 _ l.left (ifPre gs0).2.2.1 hp)
        unfold ifPost
        dsimp only
        exact (((((hv.emit _ rfl).markLabel _).emitBackpatched _).release _).release _).release _
      split
      · exact h0.emit _ rfl
      · exact h0.err _

end GenShape
end Theo
