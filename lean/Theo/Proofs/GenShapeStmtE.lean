/-
  C01 for the generator model, part 10: IF … THEN GOTO, LOOP and WHILE pass `checkStmt`
  (the loops given that their body does).
-/
import Theo.Proofs.GenShapeStmtD

set_option linter.unusedSimpArgs false
set_option linter.unusedVariables false

namespace Theo
namespace GenShape
open GS Sem Static

/-- one instruction further -/
theorem At.emit {X : RC} {pc : Nat} {gs : GS} (h : At X pc gs) {i : Instr} {t code : List Instr}
    (hp : gs.code ++ i :: t <+: code) (ha : Agree X.L code X.C) (hi : i ≠ Instr.potBreak) :
    At X (X.e.next pc) (gs.emit i) := by
  rw [(h.instr hp ha hi).2]
  exact ⟨by simp [GS.emit], by simp [GS.emit]⟩

theorem sameAnchor_self (C : List Instr) (a : Int) (b : Nat) (h : a = (b : Int)) : sameAnchor C a b = true := by
  subst h
  simp [sameAnchor]

theorem sameAnchor_of {C : List Instr} {a : Int} {b : Nat} (h0 : 0 ≤ a) (h : skipc C a.toNat = skipc C b) :
    sameAnchor C a b = true := by
  simp [sameAnchor, h0, h]

theorem ifPost_marks (g : GS) (cond op1 op2 : Int) (m : Bytes) :
    (ifPost g cond op1 op2 m).top.marks = ((g.emit (.test cond op1 op2)).markLabel m).1.top.marks := rfl

/-! ### IF x = c THEN GOTO m -/

theorem if_corr {X : RC} (ok : X.OK) (f : Nat) (gs0 : GS) (tok file : Bytes) (line : Int) (l r : Node) (pos : Pos)
    (tkx fa : Bytes) (la : Int) (a1 a2 : Node) (tkc fb : Bytes) (lb : Int) (b1 b2 : Node)
    (hl : l.left = .mk NodeT.NAME tkx fa la a1 a2) (hr : l.right = .mk NodeT.NUMBER tkc fb lb b1 b2)
    (hx : PV tkx) (hc : genRangeBad (decVal tkc) = false)
    (lk : SLinks X (ifPost (dispatchValue (f+1) (dispatchValue (f+1) (ifPre gs0).1 l.left (ifPre gs0).2.2.1) l.right
      (ifPre gs0).2.2.2) (ifPre gs0).2.1 (ifPre gs0).2.2.1 (ifPre gs0).2.2.2 r.left.tok)) :
    SCorr X gs0 (ifPost (dispatchValue (f+1) (dispatchValue (f+1) (ifPre gs0).1 l.left (ifPre gs0).2.2.1) l.right
      (ifPre gs0).2.2.2) (ifPre gs0).2.1 (ifPre gs0).2.2.1 (ifPre gs0).2.2.2 r.left.tok)
      (.mk NodeT.IF tok file line l r) (.cons (.ifGoto tkx (decVal tkc) r.left.tok pos) .nil) := by
  intro w hat
  rw [hl, hr] at lk ⊢
  have sp := ifPre_spec gs0
  generalize (ifPre gs0).1 = p1 at *
  generalize (ifPre gs0).2.1 = cond at *
  generalize (ifPre gs0).2.2.1 = op1 at *
  generalize (ifPre gs0).2.2.2 = op2 at *
  have v1 := vk_value (f+1) p1 (.mk NodeT.NAME tkx fa la a1 a2) op1
    (by rw [valNames_mk, if_neg (by decide), if_pos rfl]; exact hx)
  have n1 := name_corr ok f p1 tkx fa la a1 a2 op1 hx
  generalize dispatchValue (f+1) p1 (.mk NodeT.NAME tkx fa la a1 a2) op1 = g1 at *
  have v2 := vk_value (f+1) g1 (.mk NodeT.NUMBER tkc fb lb b1 b2) op2
    (by rw [valNames_mk, if_neg (by decide), if_neg (by decide), if_neg (by decide)])
  have n2 := number_corr (X := X) f g1 tkc fb lb b1 b2 op2
  generalize dispatchValue (f+1) g1 (.mk NodeT.NUMBER tkc fb lb b1 b2) op2 = g2 at *
  obtain ⟨q, _, _⟩ := ifPost_gq g2 cond op1 op2 r.left.tok
  have hcode := ifPost_code g2 cond op1 op2 r.left.tok
  have hmarks := ifPost_marks g2 cond op1 op2 r.left.tok
  have ms := markLabel_spec (g2.emit (.test cond op1 op2)) r.left.tok
  generalize ((g2.emit (.test cond op1 op2)).markLabel r.left.tok).2 = lab at *
  generalize ifPost g2 cond op1 op2 r.left.tok = res at *
  have lk2 : VLinks X g2 := lk.toVLinks.back q
  have lk1 : VLinks X g1 := lk2.back v2.vq.toGQ
  have hat1 : At X w.pc p1 := ⟨by rw [sp.code]; exact hat.eq, by rw [sp.code]; exact hat.pos⟩
  obtain ⟨ry, c1, c2, c3⟩ := n1 lk1 hat1
  obtain ⟨d1, d2⟩ := n2 lk2 c3
  obtain ⟨k1, k2⟩ := lit_ok hc
  rw [k1] at d1
  have hpre1 : g2.code ++ .test cond op1 op2 :: [.jmpc (lab : Int) cond] <+: res.code := by rw [hcode]; exact List.prefix_refl _
  obtain ⟨e1, e2⟩ := d2.instr hpre1 lk.agree (by intro h; cases h)
  have at3 := d2.emit hpre1 lk.agree (by intro h; cases h)
  have hpre2 : (g2.emit (.test cond op1 op2)).code ++ .jmpc (lab : Int) cond :: [] <+: res.code := by
    rw [hcode, emit_code]; simp
  obtain ⟨f1, f2⟩ := at3.instr hpre2 lk.agree (by intro h; cases h)
  have f3 := at3.skip_eq hpre2 lk.agree (by intro h; cases h)
  rw [patch_jmpc] at f1
  -- the temporaries
  obtain ⟨i1, i2, i3, r1, r2, r3, q1, q2, q3, t1, t2, t3, u1, u2, u3, hne⟩ := sp.regs
  have hext : RegsExt p1.top.regs X.R := ((v1.vq.regs.trans v2.vq.regs).trans q.regs).trans lk.regs
  have nn0 := notNamed_of_links (X := X) hext t1 u1
  have nn1 := notNamed_of_links (X := X) hext t2 u2
  have nn2 := notNamed_of_links (X := X) hext t3 u3
  rw [← q1] at nn0
  rw [← q2] at nn1
  rw [← q3] at nn2
  refine ⟨_, by rw [checkStmts_single]; exact checkStmt_if_ok c1 c2 nn1 d1 nn2 hne k2 (by rw [e1]; rfl) nn0 f1, ?_, ?_, ?_⟩
  · show At X (X.e.next (X.e.next (X.e.next (X.e.next w.pc)))) res
    rw [f2]
    have : (g2.emit (.test cond op1 op2)).code.length + 1 = res.code.length := by rw [hcode, emit_code]; simp
    rw [this]
    exact At.exact (by rw [hcode]; simp)
  · exact ⟨[], by simp, by
      rw [defsOf_leaf _ _ _ _ _ (by decide) (by decide) (by decide) (by decide)]; rfl, fun m pc h => by simp at h⟩
  · refine ⟨[(skipc X.C (X.e.next (X.e.next (X.e.next w.pc))),
        (X.L[lab]?).getD (-1) - ((g2.emit (.test cond op1 op2)).code.length : Int), r.left.tok)], rfl, ?_, ?_⟩
    · rw [refsOf_mk]; simp [NodeT.IF, NodeT.GOTO, NodeT.SPLIT, NodeT.LOOP, NodeT.WHILE]
    · intro g hg
      simp at hg
      subst hg
      refine ⟨lab, by rw [hmarks]; exact ms.mem, ?_⟩
      have hh := f3
      simp only [emit_code, List.length_append, List.length_cons, List.length_nil] at hh ⊢
      omega

/-! ### LOOP x DO body END -/

theorem loop_corr {X : RC} (ok : X.OK) (f : Nat) (gs0 : GS) (tok file : Bytes) (line : Int) (l r : Node) (pos : Pos)
    (tkx fa : Bytes) (la : Int) (a1 a2 : Node) (hl : l = .mk NodeT.NAME tkx fa la a1 a2) (hx : PV tkx)
    (body : Stmts) (w0 : MarksWF gs0)
    (p1 : GS) (counter : Int) (hp : loopPre gs0 = (p1, counter))
    (v : GS) (hv : v = dispatchValue (f+1) p1 l counter)
    (m1 : GS) (startL endL : Nat) (hm : loopMid v counter = (m1, startL, endL))
    (b : GS) (sb : SQ m1 b r) (stb : Step m1 b)
    (res : GS) (hres : res = loopPost b counter startL endL) (lk : SLinks X res)
    (hb : SLinks X b → SCorr X m1 b r body) :
    SCorr X gs0 res (.mk NodeT.LOOP tok file line l r) (.cons (.loop (gs0.loops + 1) tkx body pos) .nil) := by
  intro w hat
  subst hl
  have sp := loopPre_spec gs0
  rw [hp] at sp
  simp only at sp
  have vk := vk_value (f+1) p1 (.mk NodeT.NAME tkx fa la a1 a2) counter
    (by rw [valNames_mk, if_neg (by decide), if_pos rfl]; exact hx)
  have nc := name_corr ok f p1 tkx fa la a1 a2 counter hx
  rw [← hv] at vk nc
  -- the middle piece
  have hs : startL = v.labels.length := by have := loopMid_startL v counter; rw [hm] at this; exact this
  have he : endL = v.labels.length + 1 := by have := loopMid_endL v counter; rw [hm] at this; exact this
  have mcode : m1.code = v.code ++ [.jmpc (endL : Int) counter] := by have := loopMid_code v counter; rw [hm] at this; exact this
  have mlabels : m1.labels = (v.labels ++ [-1] ++ [-1]).set v.labels.length (v.code.length : Int) := by
    have := loopMid_labels v counter; rw [hm] at this; exact this
  have msym : m1.symbols = v.symbols := by have := loopMid_symbols v counter; rw [hm] at this; exact this
  have mq : GQ v m1 := by have := loopMid_gq v counter; rw [hm] at this; exact this
  -- the end piece
  have rcode : res.code = b.code ++ [.add counter counter (-1), .jmp (startL : Int)] := by rw [hres]; exact loopPost_code _ _ _ _
  have rlabels : res.labels = b.labels.set endL ((b.code.length + 2 : Nat) : Int) := by rw [hres]; exact loopPost_labels _ _ _ _
  have rtop : res.top = b.top := by rw [hres]; exact top_congr (loopPost_symbols _ _ _ _)
  have rq : GQ b res := by rw [hres]; exact loopPost_gq _ _ _ _
  -- labels
  have hvl : v.labels = gs0.labels := by rw [vk.vq.labels, sp.labels]
  have hml : m1.labels.length = gs0.labels.length + 2 := by rw [mlabels, hvl]; simp
  have hs' : startL = gs0.labels.length := by rw [hs, hvl]
  have he' : endL = gs0.labels.length + 1 := by rw [he, hvl]
  have hbl := stb.lablen
  have hmm : m1.top.marks = gs0.top.marks := by rw [top_congr msym, vk.vq.marks, sp.marks]
  have hnm : ∀ e ∈ b.top.marks, e.2 < gs0.labels.length ∨ gs0.labels.length + 2 ≤ e.2 := by
    intro e hin
    rcases stb.new e hin with h | h
    · exact Or.inl (w0.lt e (hmm ▸ h))
    · exact Or.inr (by omega)
  have hbs : b.labels[startL]? = some (v.code.length : Int) := by
    rw [sb.frame startL (by rw [hml, hs, hvl]; omega) (fun m _ hin => by
      rcases hnm _ hin with h | h <;> (simp only at h; rw [hs, hvl] at h; omega))]
    rw [mlabels, hs, List.getElem?_set_self (by simp)]
  have hbe : b.labels[endL]? = some (-1) := by
    rw [sb.frame endL (by rw [hml, he, hvl]; omega) (fun m _ hin => by
      rcases hnm _ hin with h | h <;> (simp only at h; rw [he, hvl] at h; omega))]
    rw [mlabels, he, List.getElem?_set_ne (by omega), List.getElem?_append_right (by simp)]
    simp
  -- links backward
  have lkb : SLinks X b := by
    refine lk.back rq (fun e hin => Or.inl (rtop ▸ hin)) ?_
    intro x y hxy hy _
    rw [rlabels]
    by_cases hxe : x = endL
    · subst hxe; rw [hbe] at hxy; exact absurd (Option.some.inj hxy).symm hy
    · rw [List.getElem?_set_ne (fun h => hxe h.symm)]; exact hxy
  have lkm : SLinks X m1 := lkb.back_sq sb stb
  have lkv : VLinks X v := lkm.toVLinks.back mq
  -- the walk
  have hat1 : At X w.pc p1 := ⟨by rw [sp.code]; exact hat.eq, by rw [sp.code]; exact hat.pos⟩
  obtain ⟨ry, c1, c2, c3⟩ := nc lkv hat1
  have hpre : v.code ++ .jmpc (endL : Int) counter :: [] <+: m1.code := by rw [mcode]; exact List.prefix_refl _
  obtain ⟨d1, d2⟩ := c3.instr hpre lkm.agree (by intro h; cases h)
  have d3 := c3.skip_eq hpre lkm.agree (by intro h; cases h)
  rw [patch_jmpc] at d1
  have atb : At X (X.e.next (X.e.next w.pc)) m1 := by
    rw [d2]
    have : v.code.length + 1 = m1.code.length := by rw [mcode]; simp
    rw [this]; exact At.exact (by rw [mcode]; simp)
  obtain ⟨w1, cs, sr⟩ := hb lkb { w with pc := X.e.next (X.e.next w.pc) } atb
  have hpre2 : b.code ++ .add counter counter (-1) :: [.jmp (startL : Int)] <+: res.code := by rw [rcode]; exact List.prefix_refl _
  obtain ⟨e1, e2⟩ := sr.at_.instr hpre2 lk.agree (by intro h; cases h)
  have at5 := sr.at_.emit hpre2 lk.agree (by intro h; cases h)
  have hpre3 : (b.emit (.add counter counter (-1))).code ++ .jmp (startL : Int) :: [] <+: res.code := by
    rw [rcode, emit_code]; simp
  obtain ⟨g1, g2⟩ := at5.instr hpre3 lk.agree (by intro h; cases h)
  have g3 := at5.skip_eq hpre3 lk.agree (by intro h; cases h)
  rw [patch_jmp] at g1
  have g3' : skipc X.C (X.e.next w1.pc) = b.code.length + 1 := by rw [g3, emit_code]; simp
  -- final label values
  have hnmr : ∀ x, x = startL ∨ x = endL → ∀ e ∈ res.top.marks, e.2 ≠ x := by
    intro x hx e hin
    rw [rtop] at hin
    have := hnm e hin
    omega
  have Ls : (X.L[startL]?).getD (-1) = (v.code.length : Int) := by
    refine lk.fin startL _ ?_ (by omega) (hnmr _ (Or.inl rfl))
    rw [rlabels, List.getElem?_set_ne (by omega)]; exact hbs
  have Le : (X.L[endL]?).getD (-1) = ((b.code.length + 2 : Nat) : Int) := by
    refine lk.fin endL _ ?_ (by omega) (hnmr _ (Or.inr rfl))
    rw [rlabels, List.getElem?_set_self (by omega)]
  -- the counter register
  obtain ⟨i, rg, q1, q2, q3⟩ := sp.reg
  have hext : RegsExt p1.top.regs X.R := (((vk.vq.regs.trans mq.regs).trans sb.gq.regs).trans rq.regs).trans lk.regs
  obtain ⟨r', x1, x2, x3⟩ := hext i rg q2
  have hnt : r'.isTemp = false := by
    cases ht : r'.isTemp with
    | false => rfl
    | true =>
      exfalso
      have := ok.tn r' (List.mem_iff_getElem?.2 ⟨i, x1⟩) ht
      rw [x2, q3] at this
      exact ctrName_ne_temp _ _ _ this
  obtain ⟨n, hn⟩ := ok.ctr
  have hctr : X.e.me.ctrOf (gs0.loops + 1) = some (i : Int) :=
    ctrOf_smap hn x1 hnt (by rw [x2, q3]; exact ctrName_hasId _ _ _) _ _
  rw [q1] at c2 d1 e1 hpre2
  have e1' : X.e.at w1.pc = some (.add (i : Int) (i : Int) (-1)) := by rw [e1]; rfl
  refine ⟨{ w1 with pc := skipc X.C (X.e.next w1.pc) + 1 }, ?_, ?_, ?_, ?_⟩
  · rw [checkStmts_single]
    refine checkStmt_loop_ok hctr c1 c2 d1 cs e1' g1 ?_ ?_
    · refine sameAnchor_self _ _ _ ?_
      show ((skipc X.C (X.e.next w1.pc) : Nat) : Int) + _ = ((skipc X.C (X.e.next w.pc) : Nat) : Int)
      rw [g3, d3, Ls]; omega
    · refine sameAnchor_self _ _ _ ?_
      show ((skipc X.C (X.e.next w.pc) : Nat) : Int) + _ = ((skipc X.C (X.e.next w1.pc) + 1 : Nat) : Int)
      rw [g3', d3, Le]; omega
  · show At X (skipc X.C (X.e.next w1.pc) + 1) res
    rw [g3']
    have : b.code.length + 1 + 1 = res.code.length := by rw [rcode]; simp
    rw [this]; exact At.exact (by rw [rcode]; simp)
  · obtain ⟨nm, h1, h2, h3⟩ := sr.marks
    refine ⟨nm, h1, by rw [h2, defsOf_mk]; simp [NodeT.LOOP, NodeT.SPLIT], ?_⟩
    intro m pc hmp
    obtain ⟨lab, y, k1, k2, k3, k4⟩ := h3 m pc hmp
    refine ⟨lab, y, rtop ▸ k1, ?_, k3, k4⟩
    have := hnm _ k1
    simp only at this
    rw [rlabels, List.getElem?_set_ne (by omega)]
    exact k2
  · obtain ⟨ng, h1, h2, h3⟩ := sr.gotos
    refine ⟨ng, h1, by rw [h2, refsOf_mk]; simp [NodeT.LOOP, NodeT.SPLIT], ?_⟩
    intro g hg
    obtain ⟨lab, k1, k2⟩ := h3 g hg
    exact ⟨lab, rtop ▸ k1, k2⟩

/-! ### WHILE x != 0 DO body END -/

theorem while_corr {X : RC} (ok : X.OK) (f : Nat) (gs0 : GS) (tok file : Bytes) (line : Int) (l r : Node) (pos : Pos)
    (tkx fa : Bytes) (la : Int) (a1 a2 : Node) (hl : l = .mk NodeT.NAME tkx fa la a1 a2) (hx : PV tkx)
    (body : Stmts) (w0 : MarksWF gs0)
    (p1 : GS) (startL endL : Nat) (cond : Int) (hp : whilePre gs0 = (p1, startL, endL, cond))
    (v : GS) (hv : v = dispatchValue (f+1) p1 l cond)
    (b : GS) (sb : SQ (v.emitBackpatched (.jmpc endL cond)) b r) (stb : Step (v.emitBackpatched (.jmpc endL cond)) b)
    (res : GS) (hres : res = whilePost b startL endL cond) (lk : SLinks X res)
    (hb : SLinks X b → SCorr X (v.emitBackpatched (.jmpc endL cond)) b r body) :
    SCorr X gs0 res (.mk NodeT.WHILE tok file line l r) (.cons (.while_ tkx body pos) .nil) := by
  intro w hat
  subst hl
  have sp := whilePre_spec' gs0
  rw [hp] at sp
  simp only at sp
  have vk := vk_value (f+1) p1 (.mk NodeT.NAME tkx fa la a1 a2) cond
    (by rw [valNames_mk, if_neg (by decide), if_pos rfl]; exact hx)
  have nc := name_corr ok f p1 tkx fa la a1 a2 cond hx
  rw [← hv] at vk nc
  have mcode : (v.emitBackpatched (.jmpc endL cond)).code = v.code ++ [.jmpc (endL : Int) cond] := rfl
  have mlab : (v.emitBackpatched (.jmpc endL cond)).labels = v.labels := rfl
  have mtop : (v.emitBackpatched (.jmpc endL cond)).top = v.top := rfl
  have mq : GQ v (v.emitBackpatched (.jmpc endL cond)) := gq_emitBackpatched _ _
  generalize v.emitBackpatched (.jmpc endL cond) = m1 at *
  have rcode : res.code = b.code ++ [.jmp (startL : Int)] := by rw [hres]; exact whilePost_code _ _ _ _
  have rlabels : res.labels = b.labels.set endL ((b.code.length + 1 : Nat) : Int) := by rw [hres]; exact whilePost_labels _ _ _ _
  have rmarks : res.top.marks = b.top.marks := by rw [hres]; rfl
  have rq : GQ b res := by rw [hres]; exact (whilePost_vq _ _ _ _).1
  have hvl : v.labels = (gs0.labels ++ [-1] ++ [-1]).set gs0.labels.length (gs0.code.length : Int) := by
    rw [vk.vq.labels, sp.labels]
  have hml : m1.labels.length = gs0.labels.length + 2 := by rw [mlab, hvl]; simp
  have hs' := sp.startL
  have he' := sp.endL
  have hbl := stb.lablen
  have hmm : m1.top.marks = gs0.top.marks := by rw [mtop, vk.vq.marks, sp.marks]
  have hnm : ∀ e ∈ b.top.marks, e.2 < gs0.labels.length ∨ gs0.labels.length + 2 ≤ e.2 := by
    intro e hin
    rcases stb.new e hin with h | h
    · exact Or.inl (w0.lt e (hmm ▸ h))
    · exact Or.inr (by omega)
  have hbs : b.labels[startL]? = some (gs0.code.length : Int) := by
    rw [sb.frame startL (by omega) (fun m _ hin => by have := hnm _ hin; simp only at this; omega)]
    rw [mlab, hvl, hs', List.getElem?_set_self (by simp)]
  have hbe : b.labels[endL]? = some (-1) := by
    rw [sb.frame endL (by omega) (fun m _ hin => by have := hnm _ hin; simp only at this; omega)]
    rw [mlab, hvl, he', List.getElem?_set_ne (by omega), List.getElem?_append_right (by simp)]
    simp
  have lkb : SLinks X b := by
    refine lk.back rq (fun e hin => Or.inl (rmarks ▸ hin)) ?_
    intro x y hxy hy _
    rw [rlabels]
    by_cases hxe : x = endL
    · subst hxe; rw [hbe] at hxy; exact absurd (Option.some.inj hxy).symm hy
    · rw [List.getElem?_set_ne (fun h => hxe h.symm)]; exact hxy
  have lkm : SLinks X m1 := lkb.back_sq sb stb
  have lkv : VLinks X v := lkm.toVLinks.back mq
  have hat1 : At X w.pc p1 := ⟨by rw [sp.code]; exact hat.eq, by rw [sp.code]; exact hat.pos⟩
  obtain ⟨ry, c1, c2, c3⟩ := nc lkv hat1
  have hpre : v.code ++ .jmpc (endL : Int) cond :: [] <+: m1.code := by rw [mcode]; exact List.prefix_refl _
  obtain ⟨d1, d2⟩ := c3.instr hpre lkm.agree (by intro h; cases h)
  have d3 := c3.skip_eq hpre lkm.agree (by intro h; cases h)
  rw [patch_jmpc] at d1
  have atb : At X (X.e.next (X.e.next w.pc)) m1 := by
    rw [d2]
    have : v.code.length + 1 = m1.code.length := by rw [mcode]; simp
    rw [this]; exact At.exact (by rw [mcode]; simp)
  obtain ⟨w1, cs, sr⟩ := hb lkb { w with pc := X.e.next (X.e.next w.pc) } atb
  have hpre2 : b.code ++ .jmp (startL : Int) :: [] <+: res.code := by rw [rcode]; exact List.prefix_refl _
  obtain ⟨g1, g2⟩ := sr.at_.instr hpre2 lk.agree (by intro h; cases h)
  have g3 := sr.at_.skip_eq hpre2 lk.agree (by intro h; cases h)
  rw [patch_jmp] at g1
  have hnmr : ∀ x, x = startL ∨ x = endL → ∀ e ∈ res.top.marks, e.2 ≠ x := by
    intro x hx e hin
    rw [rmarks] at hin
    have := hnm e hin
    omega
  have Ls : (X.L[startL]?).getD (-1) = (gs0.code.length : Int) := by
    refine lk.fin startL _ ?_ (by omega) (hnmr _ (Or.inl rfl))
    rw [rlabels, List.getElem?_set_ne (by omega)]; exact hbs
  have Le : (X.L[endL]?).getD (-1) = ((b.code.length + 1 : Nat) : Int) := by
    refine lk.fin endL _ ?_ (by omega) (hnmr _ (Or.inr rfl))
    rw [rlabels, List.getElem?_set_self (by omega)]
  -- the temporary
  obtain ⟨i, rg, q1, q2, q3⟩ := sp.reg
  have hext : RegsExt p1.top.regs X.R := (((vk.vq.regs.trans mq.regs).trans sb.gq.regs).trans rq.regs).trans lk.regs
  have hnn := notNamed_of_links (X := X) hext q2 q3
  rw [← q1] at hnn
  refine ⟨{ w1 with pc := skipc X.C w1.pc + 1 }, ?_, ?_, ?_, ?_⟩
  · rw [checkStmts_single]
    refine checkStmt_while_ok c1 c2 hnn d1 cs g1 ?_ ?_
    · refine sameAnchor_of (a := ((skipc X.C w1.pc : Nat) : Int) + _) ?_ ?_
      · rw [g3, Ls]; omega
      · rw [g3, Ls]
        have : ((b.code.length : Int) + ((gs0.code.length : Int) - (b.code.length : Int))).toNat = gs0.code.length := by omega
        rw [this]; exact hat.eq.symm
    · refine sameAnchor_self _ _ _ ?_
      show ((skipc X.C (X.e.next w.pc) : Nat) : Int) + _ = ((skipc X.C w1.pc + 1 : Nat) : Int)
      rw [g3, d3, Le]; omega
  · show At X (skipc X.C w1.pc + 1) res
    rw [g3]
    have : b.code.length + 1 = res.code.length := by rw [rcode]; simp
    rw [this]; exact At.exact (by rw [rcode]; simp)
  · obtain ⟨nm, h1, h2, h3⟩ := sr.marks
    refine ⟨nm, h1, by rw [h2, defsOf_mk]; simp [NodeT.WHILE, NodeT.SPLIT], ?_⟩
    intro m pc hmp
    obtain ⟨lab, y, k1, k2, k3, k4⟩ := h3 m pc hmp
    refine ⟨lab, y, rmarks ▸ k1, ?_, k3, k4⟩
    have := hnm _ k1
    simp only at this
    rw [rlabels, List.getElem?_set_ne (by omega)]
    exact k2
  · obtain ⟨ng, h1, h2, h3⟩ := sr.gotos
    refine ⟨ng, h1, by rw [h2, refsOf_mk]; simp [NodeT.WHILE, NodeT.SPLIT], ?_⟩
    intro g hg
    obtain ⟨lab, k1, k2⟩ := h3 g hg
    exact ⟨lab, rmarks ▸ k1, k2⟩

end GenShape
end Theo
