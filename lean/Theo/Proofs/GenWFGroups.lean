/-
  C03 for the generator, part 1: the shape of the code one routine body consists of.
  `Groups C F lo hi seg`: `seg` is a sequence of complete groups — single instructions whose
  register operands are below `F` and whose jump operands are labels in `[lo, hi)`, and call
  sequences `PREPARE; ARG 0 …; ARG (n-1) …; EXEC` for a callee record satisfying `C`.
  `Groups.facts` reads off, position by position, what the local well-formedness needs.
-/
import Theo.Model.Gen
import Theo.Proofs.GenWFLocal

namespace Theo
namespace GenWF

def RegIn (r : Int) (F : Nat) : Prop := 0 ≤ r ∧ r < (F : Int)

theorem RegIn.mono {r : Int} {F F' : Nat} (h : RegIn r F) (hf : F ≤ F') : RegIn r F' := by
  unfold RegIn at *; omega

theorem RegIn.regOK {r : Int} {F : Nat} (h : RegIn r F) : regOK r F = true := by
  unfold RegIn at h
  unfold Theo.regOK
  simp [h.1, h.2]

theorem regIn_nat {i F : Nat} (h : i < F) : RegIn (i : Int) F := by
  unfold RegIn; omega

def LabIn (l : Int) (lo hi : Nat) : Prop := ∃ n : Nat, l = (n : Int) ∧ lo ≤ n ∧ n < hi

theorem LabIn.mono {l : Int} {lo hi hi' : Nat} (h : LabIn l lo hi) (hh : hi ≤ hi') : LabIn l lo hi' := by
  obtain ⟨n, h1, h2, h3⟩ := h
  exact ⟨n, h1, h2, by omega⟩

/-- instructions emitted on their own -/
def SimpleOK (F lo hi : Nat) : Instr → Prop
  | .potBreak => True
  | .halt => True
  | .add t s _ => RegIn t F ∧ RegIn s F
  | .const t _ => RegIn t F
  | .test t a b => RegIn t F ∧ RegIn a F ∧ RegIn b F
  | .jmp l => LabIn l lo hi
  | .jmpc l s => LabIn l lo hi ∧ RegIn s F
  | _ => False

theorem SimpleOK.mono {F F' lo hi hi' : Nat} {i : Instr} (h : SimpleOK F lo hi i) (hf : F ≤ F') (hh : hi ≤ hi') :
    SimpleOK F' lo hi' i := by
  cases i <;> simp only [SimpleOK] at h ⊢
  · exact ⟨h.1.mono hf, h.2.mono hf⟩
  · exact h.mono hh
  · exact ⟨h.1.mono hh, h.2.mono hf⟩
  · exact h.mono hf
  · exact ⟨h.1.mono hf, h.2.1.mono hf, h.2.2.mono hf⟩

theorem SimpleOK.notAE {F lo hi : Nat} {i : Instr} (h : SimpleOK F lo hi i) : notAE i = true := by
  cases i <;> simp only [SimpleOK] at h <;> rfl

def isRet : Instr → Bool
  | .ret _ => true
  | _ => false

def isJump : Instr → Bool
  | .jmp _ => true
  | .jmpc _ _ => true
  | _ => false

theorem SimpleOK.notRet {F lo hi : Nat} {i : Instr} (h : SimpleOK F lo hi i) : isRet i = false := by
  cases i <;> simp only [SimpleOK] at h <;> rfl

/-- the ARG instructions of a call -/
def argSeg (srcs : List Int) : List Instr := srcs.zipIdx.map (fun a => Instr.arg (a.2 : Int) a.1)

/-- a complete call sequence -/
def callSeg (p : ProgRec) (tgt : Int) (srcs : List Int) : List Instr :=
  Instr.prepare p.stackSize p.mi tgt :: (argSeg srcs ++ [Instr.exec p.ind])

@[simp] theorem argSeg_length (srcs : List Int) : (argSeg srcs).length = srcs.length := by
  simp [argSeg]

theorem argSeg_get (srcs : List Int) (j : Nat) (hj : j < srcs.length) :
    (argSeg srcs)[j]? = some (Instr.arg (j : Int) srcs[j]) := by
  simp [argSeg, hj]

theorem callSeg_length (p : ProgRec) (tgt : Int) (srcs : List Int) :
    (callSeg p tgt srcs).length = srcs.length + 2 := by
  simp [callSeg]

inductive Groups (C : ProgRec → Prop) (F lo hi : Nat) : List Instr → Prop
  | nil : Groups C F lo hi []
  | simple {a : List Instr} {i : Instr} : Groups C F lo hi a → SimpleOK F lo hi i → Groups C F lo hi (a ++ [i])
  | call {a : List Instr} {p : ProgRec} {tgt : Int} {srcs : List Int} : Groups C F lo hi a → C p →
      RegIn tgt F → (∀ s ∈ srcs, RegIn s F) → srcs.length = p.argnum →
      Groups C F lo hi (a ++ callSeg p tgt srcs)

theorem Groups.append {C : ProgRec → Prop} {F lo hi : Nat} {a b : List Instr}
    (ha : Groups C F lo hi a) (hb : Groups C F lo hi b) : Groups C F lo hi (a ++ b) := by
  induction hb with
  | nil => rw [List.append_nil]; exact ha
  | simple _ hs ih => rw [← List.append_assoc]; exact Groups.simple ih hs
  | call _ hc ht hs hl ih => rw [← List.append_assoc]; exact Groups.call ih hc ht hs hl

theorem Groups.mono {C C' : ProgRec → Prop} {F F' lo hi hi' : Nat} {a : List Instr}
    (h : Groups C F lo hi a) (hc : ∀ p, C p → C' p) (hf : F ≤ F') (hh : hi ≤ hi') : Groups C' F' lo hi' a := by
  induction h with
  | nil => exact Groups.nil
  | simple _ hs ih => exact Groups.simple ih (hs.mono hf hh)
  | call _ hcp ht hs hl ih =>
    exact Groups.call ih (hc _ hcp) (ht.mono hf) (fun s h => (hs s h).mono hf) hl

theorem Groups.single {C : ProgRec → Prop} {F lo hi : Nat} {i : Instr} (h : SimpleOK F lo hi i) :
    Groups C F lo hi [i] := by
  have := Groups.simple (C := C) Groups.nil h
  simpa using this

theorem Groups.replicate_potBreak {C : ProgRec → Prop} {F lo hi : Nat} (k : Nat) :
    Groups C F lo hi (List.replicate k Instr.potBreak) := by
  induction k with
  | zero => exact Groups.nil
  | succ k ih =>
    rw [List.replicate_succ']
    exact Groups.simple ih trivial

theorem Groups.callOne {C : ProgRec → Prop} {F lo hi : Nat} {p : ProgRec} {tgt : Int} {srcs : List Int}
    (hc : C p) (ht : RegIn tgt F) (hs : ∀ s ∈ srcs, RegIn s F) (hl : srcs.length = p.argnum) :
    Groups C F lo hi (callSeg p tgt srcs) := by
  have := Groups.call (C := C) (F := F) (lo := lo) (hi := hi) Groups.nil hc ht hs hl
  simpa using this

/-- the first instruction of a group sequence is never an ARG / EXEC -/
theorem Groups.head {C : ProgRec → Prop} {F lo hi : Nat} {a : List Instr} (h : Groups C F lo hi a) :
    ∀ i, a[0]? = some i → notAE i = true := by
  induction h with
  | nil => intro i hi; simp at hi
  | @simple a i _ hs ih =>
    intro x hx
    cases a with
    | nil => simp at hx; rw [← hx]; exact hs.notAE
    | cons y ys => exact ih x (by simpa using hx)
  | @call a p tgt srcs _ _ _ _ _ ih =>
    intro x hx
    cases a with
    | nil => simp [callSeg] at hx; rw [← hx]; rfl
    | cons y ys => exact ih x (by simpa using hx)

theorem Groups.noRet {C : ProgRec → Prop} {F lo hi : Nat} {a : List Instr} (h : Groups C F lo hi a) :
    ∀ i ∈ a, isRet i = false := by
  induction h with
  | nil => intro i hi; cases hi
  | simple _ hs ih =>
    intro x hx
    rcases List.mem_append.1 hx with hx | hx
    · exact ih x hx
    · simp at hx; rw [hx]; exact hs.notRet
  | call _ _ _ _ _ ih =>
    intro x hx
    rcases List.mem_append.1 hx with hx | hx
    · exact ih x hx
    · unfold callSeg at hx
      rcases List.mem_cons.1 hx with rfl | hx
      · rfl
      · rcases List.mem_append.1 hx with hx | hx
        · unfold argSeg at hx
          obtain ⟨a, _, rfl⟩ := List.mem_map.1 hx
          rfl
        · rw [List.mem_singleton.1 hx]; rfl

/-! ### `prepBefore` along a call sequence -/

theorem prepBefore_succ (code : List Instr) (pc : Nat) :
    prepBefore code (pc + 1) =
      match code[pc]? with
      | some (.prepare c i _) => some (c, i)
      | some (.arg _ _) => prepBefore code pc
      | _ => none := by
  rfl

/-- positions inside `pre ++ callSeg p tgt srcs ++ post` -/
theorem callSeg_at (pre post : List Instr) (p : ProgRec) (tgt : Int) (srcs : List Int) :
    (pre ++ callSeg p tgt srcs ++ post)[pre.length]? = some (Instr.prepare p.stackSize p.mi tgt) ∧
    (∀ j, (hj : j < srcs.length) →
      (pre ++ callSeg p tgt srcs ++ post)[pre.length + 1 + j]? = some (Instr.arg (j : Int) srcs[j])) ∧
    (pre ++ callSeg p tgt srcs ++ post)[pre.length + 1 + srcs.length]? = some (Instr.exec p.ind) := by
  refine ⟨?_, ?_, ?_⟩
  · rw [List.append_assoc, List.getElem?_append_right (Nat.le_refl _)]
    simp [callSeg]
  · intro j hj
    rw [List.append_assoc, List.getElem?_append_right (by omega)]
    have : pre.length + 1 + j - pre.length = j + 1 := by omega
    rw [this]
    simp only [callSeg, List.cons_append, List.getElem?_cons_succ]
    rw [List.append_assoc, List.getElem?_append_left (by simpa using hj)]
    exact argSeg_get srcs j hj
  · rw [List.append_assoc, List.getElem?_append_right (by omega)]
    have : pre.length + 1 + srcs.length - pre.length = srcs.length + 1 := by omega
    rw [this]
    simp only [callSeg, List.cons_append, List.getElem?_cons_succ]
    rw [List.append_assoc, List.getElem?_append_right (by simp)]
    simp

theorem callSeg_prepBefore (pre post : List Instr) (p : ProgRec) (tgt : Int) (srcs : List Int) :
    ∀ j, j ≤ srcs.length →
      prepBefore (pre ++ callSeg p tgt srcs ++ post) (pre.length + 1 + j) = some ((p.stackSize : Int), p.mi) := by
  obtain ⟨h0, h1, _⟩ := callSeg_at pre post p tgt srcs
  intro j
  induction j with
  | zero =>
    intro _
    rw [Nat.add_zero, prepBefore_succ, h0]
  | succ j ih =>
    intro hj
    have : pre.length + 1 + (j + 1) = (pre.length + 1 + j) + 1 := by omega
    rw [this, prepBefore_succ, h1 j (by omega)]
    exact ih (by omega)

/-! ### position-wise facts -/

/-- what `Groups` guarantees about the instruction `ins` at position `pc` of the whole code `P` -/
def GFact (C : ProgRec → Prop) (F lo hi : Nat) (P : List Instr) (pc : Nat) : Instr → Prop
  | .potBreak => Plain P (pc + 1)
  | .halt => True
  | .add t s _ => RegIn t F ∧ RegIn s F ∧ Plain P (pc + 1)
  | .const t _ => RegIn t F ∧ Plain P (pc + 1)
  | .test t a b => RegIn t F ∧ RegIn a F ∧ RegIn b F ∧ Plain P (pc + 1)
  | .jmp l => LabIn l lo hi
  | .jmpc l s => LabIn l lo hi ∧ RegIn s F ∧ Plain P (pc + 1)
  | .prepare cnt idx tgt => ∃ p, C p ∧ cnt = p.stackSize ∧ idx = p.mi ∧ RegIn tgt F ∧ Inside P (pc + 1)
  | .arg t s => ∃ p, C p ∧ prepBefore P pc = some ((p.stackSize : Int), p.mi) ∧ 0 ≤ t ∧ t < (p.argnum : Int) ∧
      RegIn s F ∧ Inside P (pc + 1)
  | .exec en => ∃ p, C p ∧ prepBefore P pc = some ((p.stackSize : Int), p.mi) ∧ en = p.ind ∧ Plain P (pc + 1)
  | .brk => False
  | .ret _ => False

theorem plain_of_head {pre post : List Instr} (seg : List Instr) (n : Nat) (hn : n = pre.length + seg.length)
    (hpost : ∀ i, post[0]? = some i → notAE i = true) : Plain (pre ++ seg ++ post) n := by
  intro i hi
  subst hn
  rw [List.getElem?_append_right (by simp)] at hi
  simp at hi
  exact hpost i hi

theorem Groups.facts {C : ProgRec → Prop} {F lo hi : Nat} {seg : List Instr} (h : Groups C F lo hi seg) :
    ∀ (pre post : List Instr), (∀ i, post[0]? = some i → notAE i = true) →
      ∀ k ins, seg[k]? = some ins → GFact C F lo hi (pre ++ seg ++ post) (pre.length + k) ins := by
  induction h with
  | nil => intro pre post _ k ins hk; simp at hk
  | @simple a i _ hs ih =>
    intro pre post hpost k ins hk
    by_cases hlt : k < a.length
    · rw [List.getElem?_append_left hlt] at hk
      have hp' : ∀ x, (i :: post)[0]? = some x → notAE x = true := by
        intro x hx; simp at hx; rw [← hx]; exact hs.notAE
      have := ih pre (i :: post) hp' k ins hk
      have e : pre ++ a ++ i :: post = pre ++ (a ++ [i]) ++ post := by simp
      rw [e] at this
      exact this
    · have hk' := hk
      rw [List.getElem?_append_right (by omega)] at hk'
      have hk0 : k = a.length := by
        have := (List.getElem?_eq_some_iff.1 hk).1
        simp at this; omega
      subst hk0
      simp at hk'
      subst hk'
      have hpl : Plain (pre ++ (a ++ [i]) ++ post) (pre.length + a.length + 1) :=
        plain_of_head (a ++ [i]) _ (by simp; omega) hpost
      cases i <;> simp only [SimpleOK] at hs <;> simp only [GFact]
      · exact hpl
      · exact ⟨hs.1, hs.2, hpl⟩
      · exact hs
      · exact ⟨hs.1, hs.2, hpl⟩
      · exact ⟨hs, hpl⟩
      · exact ⟨hs.1, hs.2.1, hs.2.2, hpl⟩
  | @call a p tgt srcs _ hc ht hsr hl ih =>
    intro pre post hpost k ins hk
    by_cases hlt : k < a.length
    · rw [List.getElem?_append_left hlt] at hk
      have hp' : ∀ x, (callSeg p tgt srcs ++ post)[0]? = some x → notAE x = true := by
        intro x hx; simp [callSeg] at hx; rw [← hx]; rfl
      have := ih pre (callSeg p tgt srcs ++ post) hp' k ins hk
      have e : pre ++ a ++ (callSeg p tgt srcs ++ post) = pre ++ (a ++ callSeg p tgt srcs) ++ post := by simp
      rw [e] at this
      exact this
    · have e : pre ++ (a ++ callSeg p tgt srcs) ++ post = (pre ++ a) ++ callSeg p tgt srcs ++ post := by simp
      rw [e]
      obtain ⟨h0, h1, h2⟩ := callSeg_at (pre ++ a) post p tgt srcs
      have hpb := callSeg_prepBefore (pre ++ a) post p tgt srcs
      have hlen : (pre ++ a).length = pre.length + a.length := by simp
      rw [hlen] at h0 h1 h2 hpb
      have hkr := hk
      rw [List.getElem?_append_right (by omega)] at hkr
      have hklt : k - a.length < srcs.length + 2 := by
        have := (List.getElem?_eq_some_iff.1 hkr).1
        rw [callSeg_length] at this; exact this
      -- which position of the call sequence
      by_cases hk0 : k = a.length
      · subst hk0
        have hins : ins = Instr.prepare p.stackSize p.mi tgt := by
          simp [callSeg] at hkr; exact hkr.symm
        subst hins
        simp only [GFact]
        refine ⟨p, hc, rfl, rfl, ht, ?_⟩
        by_cases hs0 : srcs.length = 0
        · refine ⟨Instr.exec p.ind, ?_, rfl⟩
          have := h2
          rw [hs0] at this
          exact this
        · refine ⟨Instr.arg ((0 : Nat) : Int) (srcs[0]'(by omega)), ?_, rfl⟩
          have := h1 0 (by omega)
          exact this
      · by_cases hk1 : k - a.length - 1 < srcs.length
        · -- an ARG
          have hj : k = a.length + 1 + (k - a.length - 1) := by omega
          generalize k - a.length - 1 = j at hk1 hj
          subst hj
          have hins : ins = Instr.arg (j : Int) srcs[j] := by
            have hx : a.length + 1 + j - a.length = j + 1 := by omega
            rw [hx] at hkr
            simp only [callSeg, List.getElem?_cons_succ] at hkr
            rw [List.getElem?_append_left (by simpa using hk1), argSeg_get srcs j hk1] at hkr
            exact (Option.some.inj hkr).symm
          subst hins
          simp only [GFact]
          have hpos : pre.length + (a.length + 1 + j) = pre.length + a.length + 1 + j := by omega
          rw [hpos]
          refine ⟨p, hc, hpb j (by omega), by omega, by omega, hsr _ (List.getElem_mem _), ?_⟩
          by_cases hlast : j + 1 < srcs.length
          · refine ⟨Instr.arg ((j + 1 : Nat) : Int) srcs[j + 1], ?_, rfl⟩
            have := h1 (j + 1) hlast
            have e2 : pre.length + a.length + 1 + (j + 1) = pre.length + a.length + 1 + j + 1 := by omega
            rw [e2] at this
            exact this
          · refine ⟨Instr.exec p.ind, ?_, rfl⟩
            have e2 : pre.length + a.length + 1 + j + 1 = pre.length + a.length + 1 + srcs.length := by omega
            rw [e2]
            exact h2
        · -- the EXEC
          have hj : k = a.length + 1 + srcs.length := by omega
          subst hj
          have hins : ins = Instr.exec p.ind := by
            have hx : a.length + 1 + srcs.length - a.length = srcs.length + 1 := by omega
            rw [hx] at hkr
            simp only [callSeg, List.getElem?_cons_succ] at hkr
            rw [List.getElem?_append_right (by simp)] at hkr
            simp at hkr
            exact hkr.symm
          subst hins
          simp only [GFact]
          have hpos : pre.length + (a.length + 1 + srcs.length) = pre.length + a.length + 1 + srcs.length := by omega
          rw [hpos]
          refine ⟨p, hc, hpb srcs.length (Nat.le_refl _), rfl, ?_⟩
          have e3 : pre ++ a ++ callSeg p tgt srcs ++ post = pre ++ (a ++ callSeg p tgt srcs) ++ post := by simp
          rw [e3]
          exact plain_of_head (a ++ callSeg p tgt srcs) _ (by simp [callSeg_length]; omega) hpost

end GenWF
end Theo
