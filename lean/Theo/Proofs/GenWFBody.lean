/-
  C03 for the generator, part 2: the invariant of the generator state while the body of one
  routine is generated (`BInv C g0 gs`, relative to the state `g0` at the start of the body):
  the code emitted since then is a sequence of complete groups over the registers and labels of
  this routine, every label created since then is unset or points to a group boundary of that
  code, every jump emitted is on the backpatch list, and nothing else moved.  Preserved by the
  primitives; Proofs/GenWFDispatch.lean carries it through the dispatch functions.
-/
import Theo.Proofs.StaticInv
import Theo.Proofs.GenWFGroups

namespace Theo
namespace GenWF
open GS Static

/-! ### steps that only touch the registers of the current function -/

structure RegStep (gs gs' : GS) : Prop where
  code : gs'.code = gs.code
  labels : gs'.labels = gs.labels
  todo : gs'.todo = gs.todo
  marks : gs'.top.marks = gs.top.marks
  sm : gs'.stackMaps = gs.stackMaps
  fa : gs'.funcAddrs = gs.funcAddrs
  outer : gs'.symbols.drop 1 = gs.symbols.drop 1
  regs : gs.top.regs.length ≤ gs'.top.regs.length

theorem RegStep.refl (gs : GS) : RegStep gs gs := ⟨rfl, rfl, rfl, rfl, rfl, rfl, rfl, Nat.le_refl _⟩
theorem RegStep.trans {a b c : GS} (h1 : RegStep a b) (h2 : RegStep b c) : RegStep a c :=
  ⟨h2.code.trans h1.code, h2.labels.trans h1.labels, h2.todo.trans h1.todo, h2.marks.trans h1.marks,
   h2.sm.trans h1.sm, h2.fa.trans h1.fa, h2.outer.trans h1.outer, Nat.le_trans h1.regs h2.regs⟩

theorem findReg_lt : ∀ (regs : List VReg) (n : Bytes) (k i : Nat), findReg regs n k = some i →
    k ≤ i ∧ i < k + regs.length
  | [], _, _, _, h => by simp [findReg] at h
  | r :: rs, n, k, i, h => by
    unfold findReg at h
    split at h
    · have : k = i := Option.some.inj h
      subst this
      simp
    · have := findReg_lt rs n (k + 1) i h
      simp only [List.length_cons]
      omega

theorem firstFreeTemp_lt : ∀ (regs : List VReg) (k i : Nat), firstFreeTemp regs k = some i →
    k ≤ i ∧ i < k + regs.length
  | [], _, _, h => by simp [firstFreeTemp] at h
  | r :: rs, k, i, h => by
    unfold firstFreeTemp at h
    split at h
    · have : k = i := Option.some.inj h
      subst this
      simp
    · have := firstFreeTemp_lt rs (k + 1) i h
      simp only [List.length_cons]
      omega

theorem fetchVar_spec (gs : GS) (n : Bytes) :
    RegStep gs (gs.fetchVar n).1 ∧ RegIn (gs.fetchVar n).2 (gs.fetchVar n).1.top.regs.length := by
  unfold fetchVar
  dsimp only
  split
  · rename_i i hi
    have := findReg_lt _ _ _ _ hi
    exact ⟨RegStep.refl _, regIn_nat (show i < gs.top.regs.length by omega)⟩
  · refine ⟨⟨rfl, rfl, rfl, rfl, rfl, rfl, rfl, ?_⟩, ?_⟩
    · simp
    · apply regIn_nat
      simp

theorem fetchTemporary_spec (gs : GS) :
    RegStep gs gs.fetchTemporary.1 ∧ RegIn gs.fetchTemporary.2 gs.fetchTemporary.1.top.regs.length := by
  unfold fetchTemporary
  dsimp only
  split
  · rename_i i hi
    have := firstFreeTemp_lt _ _ _ hi
    refine ⟨⟨rfl, rfl, rfl, rfl, rfl, rfl, rfl, ?_⟩, ?_⟩
    · simp
    · apply regIn_nat
      simp
      omega
  · refine ⟨⟨rfl, rfl, rfl, rfl, rfl, rfl, rfl, ?_⟩, ?_⟩
    · simp
    · apply regIn_nat
      simp

theorem releaseTemporary_spec (gs : GS) (i : Int) : RegStep gs (gs.releaseTemporary i) := by
  unfold releaseTemporary
  refine ⟨rfl, rfl, rfl, rfl, rfl, rfl, rfl, ?_⟩
  simp

theorem releaseTemporary_regs (gs : GS) (i : Int) :
    (gs.releaseTemporary i).top.regs.length = gs.top.regs.length := by
  unfold releaseTemporary
  simp

/-! ### the invariant -/

structure BInvS (C : ProgRec → Prop) (g0 gs : GS) (seg : List Instr) : Prop where
  code : gs.code = g0.code ++ seg
  groups : Groups C gs.top.regs.length g0.labels.length gs.labels.length seg
  lablen : g0.labels.length ≤ gs.labels.length
  labold : ∀ l, l < g0.labels.length → gs.labels[l]? = g0.labels[l]?
  labnew : ∀ l, g0.labels.length ≤ l → l < gs.labels.length →
    gs.labels[l]? = some (-1) ∨
    ∃ k, k ≤ seg.length ∧ gs.labels[l]? = some (((g0.code.length + k : Nat)) : Int) ∧
      ∀ i, seg[k]? = some i → notAE i = true
  marks : ∀ m ∈ gs.top.marks, g0.labels.length ≤ m.2
  mwf : MarksWF gs
  todoOld : ∀ x ∈ g0.todo, x ∈ gs.todo
  todoNew : ∀ k i, seg[k]? = some i → isJump i = true → g0.code.length + k ∈ gs.todo
  sm : gs.stackMaps = g0.stackMaps
  fa : gs.funcAddrs = g0.funcAddrs
  outer : gs.symbols.drop 1 = g0.symbols.drop 1
  regs : g0.top.regs.length ≤ gs.top.regs.length
  cfa : ∀ e ∈ g0.funcAddrs, C e.2
  nosite : g0.code.getLast? ≠ some Instr.potBreak

def BInv (C : ProgRec → Prop) (g0 gs : GS) : Prop := ∃ seg, BInvS C g0 gs seg

theorem BInv.start {C : ProgRec → Prop} {g0 : GS} (hw : MarksWF g0) (hm : g0.top.marks = [])
    (hc : ∀ e ∈ g0.funcAddrs, C e.2) (hn : g0.code.getLast? ≠ some Instr.potBreak) : BInv C g0 g0 := by
  refine ⟨[], ⟨by simp, Groups.nil, Nat.le_refl _, fun _ _ => rfl, ?_, ?_, hw, fun _ h => h, ?_, rfl, rfl, rfl,
    Nat.le_refl _, hc, hn⟩⟩
  · intro l h1 h2; omega
  · rw [hm]; intro m h; cases h
  · intro k i h; simp at h

/-- the general update: a segment is appended, labels are created or set to group boundaries -/
theorem BInvS.update {C : ProgRec → Prop} {g0 gs : GS} {seg : List Instr} (h : BInvS C g0 gs seg)
    {gs' : GS} {s : List Instr}
    (hc : gs'.code = gs.code ++ s)
    (hg : Groups C gs'.top.regs.length g0.labels.length gs'.labels.length s)
    (hll : gs.labels.length ≤ gs'.labels.length)
    (hlo : ∀ l, l < g0.labels.length → gs'.labels[l]? = gs.labels[l]?)
    (hln : ∀ l, g0.labels.length ≤ l → l < gs'.labels.length →
      (l < gs.labels.length ∧ gs'.labels[l]? = gs.labels[l]?) ∨ gs'.labels[l]? = some (-1) ∨
      ∃ k, k ≤ seg.length + s.length ∧ gs'.labels[l]? = some (((g0.code.length + k : Nat)) : Int) ∧
        ∀ i, (seg ++ s)[k]? = some i → notAE i = true)
    (hm : ∀ m ∈ gs'.top.marks, g0.labels.length ≤ m.2) (hw : MarksWF gs')
    (ht : ∀ x ∈ gs.todo, x ∈ gs'.todo)
    (htn : ∀ k i, s[k]? = some i → isJump i = true → gs.code.length + k ∈ gs'.todo)
    (hr : gs.top.regs.length ≤ gs'.top.regs.length)
    (hsm : gs'.stackMaps = gs.stackMaps) (hfa : gs'.funcAddrs = gs.funcAddrs)
    (hout : gs'.symbols.drop 1 = gs.symbols.drop 1) : BInvS C g0 gs' (seg ++ s) := by
  have hhead := hg.head
  refine ⟨by rw [hc, h.code, List.append_assoc], ?_, Nat.le_trans h.lablen hll, ?_, ?_, hm, hw,
    fun x hx => ht x (h.todoOld x hx), ?_, hsm.trans h.sm, hfa.trans h.fa, hout.trans h.outer,
    Nat.le_trans h.regs hr, h.cfa, h.nosite⟩
  · exact (h.groups.mono (fun _ hp => hp) hr hll).append hg
  · intro l hl; rw [hlo l hl]; exact h.labold l hl
  · intro l hl1 hl2
    rcases hln l hl1 hl2 with ⟨h1, h2⟩ | h1 | h1
    · rw [h2]
      rcases h.labnew l hl1 h1 with h3 | ⟨k, hk, h3, h4⟩
      · exact Or.inl h3
      · refine Or.inr ⟨k, by simp; omega, h3, ?_⟩
        intro i hi
        by_cases hk' : k < seg.length
        · rw [List.getElem?_append_left hk'] at hi; exact h4 i hi
        · have : k = seg.length := by omega
          subst this
          rw [List.getElem?_append_right (Nat.le_refl _)] at hi
          simp at hi
          exact hhead i hi
    · exact Or.inl h1
    · obtain ⟨k, hk, h3, h4⟩ := h1
      exact Or.inr ⟨k, by simp; omega, h3, h4⟩
  · intro k i hk hj
    by_cases hk' : k < seg.length
    · rw [List.getElem?_append_left hk'] at hk
      exact ht _ (h.todoNew k i hk hj)
    · rw [List.getElem?_append_right (by omega)] at hk
      have := htn _ i hk hj
      rw [h.code] at this
      simp at this
      have e : g0.code.length + seg.length + (k - seg.length) = g0.code.length + k := by omega
      rw [e] at this
      exact this

theorem BInv.regStep {C : ProgRec → Prop} {g0 gs gs' : GS} (h : BInv C g0 gs) (r : RegStep gs gs') :
    BInv C g0 gs' := by
  obtain ⟨seg, h⟩ := h
  have := h.update (gs' := gs') (s := []) (by rw [r.code]; simp) Groups.nil (by rw [r.labels]; exact Nat.le_refl _)
    (fun l _ => by rw [r.labels])
    (fun l _ h2 => Or.inl ⟨by rw [r.labels] at h2; exact h2, by rw [r.labels]⟩)
    (by rw [r.marks]; exact h.marks)
    (h.mwf.congr (by rw [r.labels]; exact Nat.le_refl _) r.marks)
    (fun x hx => by rw [r.todo]; exact hx)
    (fun k i hk => by simp at hk)
    r.regs r.sm r.fa r.outer
  rw [List.append_nil] at this
  exact ⟨seg, this⟩

/-- appending a segment of complete groups; labels and marks untouched -/
theorem BInv.appendSeg {C : ProgRec → Prop} {g0 gs gs' : GS} (h : BInv C g0 gs) (s : List Instr)
    (hc : gs'.code = gs.code ++ s)
    (hg : Groups C gs'.top.regs.length g0.labels.length gs'.labels.length s)
    (hl : gs'.labels = gs.labels) (hm : gs'.top.marks = gs.top.marks)
    (ht : ∀ x ∈ gs.todo, x ∈ gs'.todo)
    (htn : ∀ k i, s[k]? = some i → isJump i = true → gs.code.length + k ∈ gs'.todo)
    (hr : gs.top.regs.length ≤ gs'.top.regs.length)
    (hsm : gs'.stackMaps = gs.stackMaps) (hfa : gs'.funcAddrs = gs.funcAddrs)
    (hout : gs'.symbols.drop 1 = gs.symbols.drop 1) : BInv C g0 gs' := by
  obtain ⟨seg, h⟩ := h
  exact ⟨seg ++ s, h.update hc hg (by rw [hl]; exact Nat.le_refl _) (fun l _ => by rw [hl])
    (fun l _ h2 => Or.inl ⟨by rw [hl] at h2; exact h2, by rw [hl]⟩)
    (by rw [hm]; exact h.marks) (h.mwf.congr (by rw [hl]; exact Nat.le_refl _) hm) ht htn hr hsm hfa hout⟩

theorem BInv.emit {C : ProgRec → Prop} {g0 gs : GS} (h : BInv C g0 gs) {i : Instr}
    (hs : SimpleOK gs.top.regs.length g0.labels.length gs.labels.length i) (hj : isJump i = false) :
    BInv C g0 (gs.emit i) := by
  refine h.appendSeg [i] rfl (Groups.single hs) rfl rfl (fun _ hx => hx) ?_ (Nat.le_refl _) rfl rfl rfl
  intro k x hk hjx
  cases k with
  | zero => simp at hk; rw [← hk, hj] at hjx; cases hjx
  | succ k => simp at hk

theorem BInv.emitBackpatched {C : ProgRec → Prop} {g0 gs : GS} (h : BInv C g0 gs) {i : Instr}
    (hs : SimpleOK gs.top.regs.length g0.labels.length gs.labels.length i) :
    BInv C g0 (gs.emitBackpatched i) := by
  refine h.appendSeg [i] rfl (Groups.single hs) rfl rfl ?_ ?_ (Nat.le_refl _) rfl rfl rfl
  · intro x hx; rw [emitBackpatched_todo]; exact List.mem_append_left _ hx
  · intro k x hk _
    cases k with
    | zero => rw [emitBackpatched_todo]; simp
    | succ k => simp at hk

/-! ### `advanceLine` -/

theorem advanceLine_shape (gs : GS) (line : Int) (file : Bytes) :
    ∃ k, (gs.advanceLine line file).code = gs.code ++ List.replicate k Instr.potBreak ∧
      (gs.advanceLine line file).labels = gs.labels ∧ (gs.advanceLine line file).todo = gs.todo ∧
      (gs.advanceLine line file).symbols = gs.symbols ∧ (gs.advanceLine line file).stackMaps = gs.stackMaps ∧
      (gs.advanceLine line file).funcAddrs = gs.funcAddrs := by
  unfold advanceLine
  split
  · exact ⟨0, by simp, rfl, rfl, rfl, rfl, rfl⟩
  · dsimp only
    by_cases hc : gs.fsName = file ∧ line ≠ gs.fsLine
    · simp only [if_pos hc]
      split
      · exact ⟨2, by simp [breakpoint, List.replicate], rfl, rfl, rfl, rfl, rfl⟩
      · exact ⟨1, by simp [breakpoint], rfl, rfl, rfl, rfl, rfl⟩
    · simp only [if_neg hc]
      split
      · exact ⟨1, by simp [breakpoint], rfl, rfl, rfl, rfl, rfl⟩
      · exact ⟨0, by simp, rfl, rfl, rfl, rfl, rfl⟩

theorem advanceLine_top (gs : GS) (line : Int) (file : Bytes) : (gs.advanceLine line file).top = gs.top := by
  obtain ⟨_, _, _, _, h, _⟩ := advanceLine_shape gs line file
  exact top_congr h

theorem BInv.advanceLine {C : ProgRec → Prop} {g0 gs : GS} (h : BInv C g0 gs) (line : Int) (file : Bytes) :
    BInv C g0 (gs.advanceLine line file) := by
  obtain ⟨k, h1, h2, h3, h4, h5, h6⟩ := advanceLine_shape gs line file
  have ht := advanceLine_top gs line file
  refine h.appendSeg _ h1 (Groups.replicate_potBreak k) h2 (by rw [ht]) (fun x hx => by rw [h3]; exact hx) ?_
    (by rw [ht]; exact Nat.le_refl _) h5 h6 (by rw [h4])
  intro j x hj hjx
  have := (List.getElem?_eq_some_iff.1 hj).2
  simp at this
  rw [← this] at hjx
  cases hjx

/-! ### labels -/

theorem BInv.createLabel {C : ProgRec → Prop} {g0 gs : GS} (h : BInv C g0 gs) : BInv C g0 gs.createLabel.1 := by
  obtain ⟨seg, h⟩ := h
  have := h.update (gs' := gs.createLabel.1) (s := []) (by simp) Groups.nil (by simp)
    (fun l hl => by
      rw [createLabel_labels, List.getElem?_append_left (Nat.lt_of_lt_of_le hl h.lablen)])
    (fun l _ h2 => by
      rw [createLabel_labels] at h2 ⊢
      by_cases hl : l < gs.labels.length
      · exact Or.inl ⟨hl, by rw [List.getElem?_append_left hl]⟩
      · simp at h2
        have : l = gs.labels.length := by omega
        subst this
        exact Or.inr (Or.inl (by simp)))
    h.marks (createLabel_wf gs h.mwf) (fun x hx => hx) (fun k i hk => by simp at hk)
    (Nat.le_refl _) rfl rfl rfl
  rw [List.append_nil] at this
  exact ⟨seg, this⟩

/-- setting a label of this routine to a position `g0.code.length + k` that is a group boundary -/
theorem BInvS.setLabel {C : ProgRec → Prop} {g0 gs : GS} {seg : List Instr} (h : BInvS C g0 gs seg)
    (l : Nat) (hl : g0.labels.length ≤ l) (k : Nat) (hk : k ≤ seg.length)
    (hp : ∀ i, seg[k]? = some i → notAE i = true) :
    BInvS C g0 (gs.setLabel l (((g0.code.length + k : Nat)) : Int)) seg := by
  have := h.update (gs' := gs.setLabel l (((g0.code.length + k : Nat)) : Int)) (s := []) (by simp) Groups.nil
    (by simp)
    (fun x hx => by
      rw [setLabel_labels, List.getElem?_set_ne (by omega)])
    (fun x _ h2 => by
      rw [setLabel_labels] at h2 ⊢
      simp at h2
      by_cases hx : l = x
      · subst hx
        refine Or.inr (Or.inr ⟨k, by simp; exact hk, ?_, by simpa using hp⟩)
        rw [List.getElem?_set_self h2]
      · exact Or.inl ⟨h2, by rw [List.getElem?_set_ne hx]⟩)
    h.marks (setLabel_wf gs _ _ h.mwf) (fun x hx => hx) (fun k i hk => by simp at hk)
    (Nat.le_refl _) rfl rfl rfl
  rw [List.append_nil] at this
  exact this

theorem BInv.setLabelNext {C : ProgRec → Prop} {g0 gs : GS} (h : BInv C g0 gs) (l : Nat)
    (hl : g0.labels.length ≤ l) : BInv C g0 (gs.setLabel l gs.nextPos) := by
  obtain ⟨seg, h⟩ := h
  have hn : gs.nextPos = (((g0.code.length + seg.length : Nat)) : Int) := by
    unfold nextPos; rw [h.code]; simp
  rw [hn]
  exact ⟨seg, h.setLabel l hl seg.length (Nat.le_refl _) (fun i hi => by simp at hi)⟩

theorem BInv.setLabelMark {C : ProgRec → Prop} {g0 gs : GS} (h : BInv C g0 gs) (l : Nat)
    (hl : g0.labels.length ≤ l) : BInv C g0 (gs.setLabel l gs.markPos) := by
  by_cases hs : gs.lastIsSite = true
  · obtain ⟨seg, h⟩ := h
    have hlast : gs.code.getLast? = some Instr.potBreak := by simpa [lastIsSite] using hs
    have hseg : seg ≠ [] := by
      intro h0
      rw [h.code, h0, List.append_nil] at hlast
      exact h.nosite hlast
    have hlen := List.length_pos_iff.2 hseg
    have hm : gs.markPos = (((g0.code.length + (seg.length - 1) : Nat)) : Int) := by
      unfold markPos nextPos; rw [if_pos hs, h.code]; simp; omega
    rw [hm]
    refine ⟨seg, h.setLabel l hl (seg.length - 1) (by omega) ?_⟩
    intro i hi
    have hidx : (g0.code ++ seg).length - 1 - g0.code.length = seg.length - 1 := by simp; omega
    rw [List.getLast?_eq_getElem?, h.code, List.getElem?_append_right (by simp; omega), hidx] at hlast
    rw [hlast] at hi
    rw [← Option.some.inj hi]; rfl
  · have : gs.markPos = gs.nextPos := by unfold markPos; rw [if_neg hs]
    rw [this]
    exact h.setLabelNext l hl

theorem markLabel_fields (gs : GS) (m : Bytes) :
    (gs.markLabel m).1.code = gs.code ∧ (gs.markLabel m).1.todo = gs.todo ∧
    (gs.markLabel m).1.stackMaps = gs.stackMaps ∧ (gs.markLabel m).1.funcAddrs = gs.funcAddrs ∧
    (gs.markLabel m).1.symbols.drop 1 = gs.symbols.drop 1 ∧ (gs.markLabel m).1.top.regs = gs.top.regs ∧
    ((gs.markLabel m).1.labels = gs.labels ∨ (gs.markLabel m).1.labels = gs.labels ++ [-1]) := by
  unfold markLabel
  split
  · exact ⟨rfl, rfl, rfl, rfl, rfl, rfl, Or.inl rfl⟩
  · exact ⟨rfl, rfl, rfl, rfl, rfl, rfl, Or.inr rfl⟩

theorem BInv.markLabel {C : ProgRec → Prop} {g0 gs : GS} (h : BInv C g0 gs) (m : Bytes) :
    BInv C g0 (gs.markLabel m).1 ∧ g0.labels.length ≤ (gs.markLabel m).2 ∧
      (gs.markLabel m).2 < (gs.markLabel m).1.labels.length := by
  obtain ⟨seg, h⟩ := h
  have s := markLabel_spec gs m
  obtain ⟨f1, f2, f3, f4, f5, f6, f7⟩ := markLabel_fields gs m
  have hmarks : ∀ e ∈ (gs.markLabel m).1.top.marks, g0.labels.length ≤ e.2 := by
    intro e he
    rcases s.new e he with h1 | h1
    · exact h.marks e h1
    · exact Nat.le_trans h.lablen h1
  refine ⟨?_, hmarks _ s.mem, s.lt h.mwf⟩
  have := h.update (gs' := (gs.markLabel m).1) (s := []) (by rw [f1]; simp) Groups.nil s.lablen
    (fun l hl => by
      rcases f7 with e | e
      · rw [e]
      · rw [e, List.getElem?_append_left (Nat.lt_of_lt_of_le hl h.lablen)])
    (fun l _ h2 => by
      rcases f7 with e | e
      · rw [e] at h2 ⊢; exact Or.inl ⟨h2, rfl⟩
      · rw [e] at h2 ⊢
        by_cases hl : l < gs.labels.length
        · exact Or.inl ⟨hl, by rw [List.getElem?_append_left hl]⟩
        · simp at h2
          have : l = gs.labels.length := by omega
          subst this
          exact Or.inr (Or.inl (by simp)))
    hmarks (s.wf h.mwf) (fun x hx => by rw [f2]; exact hx) (fun k i hk => by simp at hk)
    (by rw [f6]; exact Nat.le_refl _) f3 f4 f5
  rw [List.append_nil] at this
  exact ⟨seg, this⟩

theorem markLabel_regs (gs : GS) (m : Bytes) : (gs.markLabel m).1.top.regs = gs.top.regs :=
  (markLabel_fields gs m).2.2.2.2.2.1

end GenWF
end Theo
