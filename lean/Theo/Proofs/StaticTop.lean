/-
  C04 (static rules), part 5: program definitions, the whole tree, backpatching, `gen`.
  Result: `gen_errors_iff` — for a tree of parser shape, `gen` records no error iff `topOK`
  (the static rules read off the tree) holds.
-/
import Theo.Proofs.StaticChar

namespace Theo
namespace Static
open GS

/-! ### closed form of the mark states -/

theorem upd_closed : ∀ (n : Node) (σ : Bytes → Option Bool) (m : Bytes),
    upd n σ m = if m ∈ defsOf n then some true else if m ∈ refsOf n then some ((σ m).getD false) else σ m
  | .nil, σ, m => by simp [upd, defsOf, refsOf]
  | .mk t tok file line l r, σ, m => by
    have ihl := upd_closed l
    have ihr := upd_closed r
    by_cases h1 : t = NodeT.SPLIT
    · subst h1
      have e1 : upd (.mk NodeT.SPLIT tok file line l r) σ m = upd r (upd l σ) m := by simp [upd]
      have e2 : defsOf (.mk NodeT.SPLIT tok file line l r) = defsOf l ++ defsOf r := by simp [defsOf]
      have e3 : refsOf (.mk NodeT.SPLIT tok file line l r) = refsOf l ++ refsOf r := by simp [refsOf]
      rw [e1, e2, e3, ihr, ihl]
      by_cases a : m ∈ defsOf r <;> by_cases b : m ∈ refsOf r <;> by_cases c : m ∈ defsOf l <;>
        by_cases d : m ∈ refsOf l <;> simp [a, b, c, d]
    by_cases h2 : t = NodeT.LOOP ∨ t = NodeT.WHILE
    · have e1 : upd (.mk t tok file line l r) σ m = upd r σ m := by simp [upd, h1, h2]
      have e2 : defsOf (.mk t tok file line l r) = defsOf r := by simp [defsOf, h1, h2]
      have e3 : refsOf (.mk t tok file line l r) = refsOf r := by simp [refsOf, h1, h2]
      rw [e1, e2, e3, ihr]
    by_cases h3 : t = NodeT.MARK
    · subst h3
      simp [upd, defsOf, refsOf, NodeT.MARK, NodeT.SPLIT, NodeT.LOOP, NodeT.WHILE, NodeT.GOTO, NodeT.IF]
    by_cases h4 : t = NodeT.GOTO
    · subst h4
      simp [upd, defsOf, refsOf, NodeT.MARK, NodeT.SPLIT, NodeT.LOOP, NodeT.WHILE, NodeT.GOTO]
      by_cases hm : m = l.tok
      · simp [hm]
      · simp [hm]
    by_cases h5 : t = NodeT.IF
    · subst h5
      simp [upd, defsOf, refsOf, NodeT.MARK, NodeT.SPLIT, NodeT.LOOP, NodeT.WHILE, NodeT.GOTO, NodeT.IF]
      by_cases hm : m = r.left.tok
      · simp [hm]
      · simp [hm]
    · simp [upd, defsOf, refsOf, h1, h2, h3, h4, h5]

theorem mstate_nil {gs : GS} (h : gs.top.marks = []) (m : Bytes) : mstate gs m = none := by
  unfold mstate mlab; rw [h]; rfl

/-- the mark check of `popSymbols` after a body that started without marks -/
theorem body_marks (f : Nat) (gs : GS) (n : Node) (hf : nodeSize n ≤ f) (hs : stmtShape n = true)
    (hm : gs.top.marks = []) :
    (∀ e ∈ (dispatchVoid f gs n).top.marks, isSet (dispatchVoid f gs n) e.2) ↔ ∀ m ∈ refsOf n, m ∈ defsOf n := by
  have w := MarksWF.of_nil hm
  have sb := stmt_char f gs n hf hs w
  have wb := (step_void f gs n).wf w
  generalize dispatchVoid f gs n = b at sb wb
  have hst : ∀ m, mstate b m = if m ∈ defsOf n then some true else if m ∈ refsOf n then some false else none := by
    intro m
    rw [sb.mstate, upd_closed, mstate_nil hm]; rfl
  constructor
  · intro h m hr
    refine Classical.byContradiction fun hd => ?_
    have h1 := hst m
    rw [if_neg hd, if_pos hr] at h1
    unfold mstate at h1
    cases hl : mlab b m with
    | none => rw [hl] at h1; cases h1
    | some x =>
      rw [hl] at h1
      have h2 : isSetB b x = false := by simpa using h1
      have := (isSetB_iff b x).2 (h _ (mlab_some_mem hl))
      rw [h2] at this; cases this
  · intro h e he
    have h1 := hst e.1
    have hl : mlab b e.1 = some e.2 := mlab_of_mem wb (by exact he)
    unfold mstate at h1
    rw [hl] at h1
    by_cases hd : e.1 ∈ defsOf n
    · rw [if_pos hd] at h1
      exact (isSetB_iff b e.2).1 (by simpa using h1)
    · rw [if_neg hd] at h1
      by_cases hr : e.1 ∈ refsOf n
      · exact absurd (h _ hr) hd
      · rw [if_neg hr] at h1; cases h1

/-! ### a program definition -/

structure ProgSpec (gs res : GS) (nm : Bytes) (params : List Bytes) (body : Node) : Prop where
  errs : res.errors = [] ↔
    gs.errors = [] ∧ params.Nodup ∧ nStmtOK (look gs) body = true ∧ ∀ m ∈ refsOf body, m ∈ defsOf body
  look : ∀ g, look res g = if g = nm then some params.length else look gs g
  marks : res.top.marks = gs.top.marks

theorem prog_char (f : Nat) (gs : GS) (tok file : Bytes) (line : Int) (l r : Node)
    (hf : nodeSize (.mk NodeT.PROGRAM tok file line l r) ≤ f) (hs : stmtShape r = true) :
    ProgSpec gs (dispatchVoid f gs (.mk NodeT.PROGRAM tok file line l r)) l.left.tok (namesOf l.right.left) r := by
  cases f with
  | zero => simp [nodeSize] at hf
  | succ f =>
    rw [dispatchVoid_succ]
    dsimp only
    rw [if_neg (by decide), if_pos rfl]
    simp only [nodeSize] at hf
    have hfl : nodeSize l ≤ f := by have := nodeSize_pos r; omega
    have hfr : nodeSize r ≤ f := by have := nodeSize_pos l; omega
    have hfa : nodeSize l.right.left ≤ f :=
      Nat.le_trans (nodeSize_left_le _) (Nat.le_trans (nodeSize_right_le _) hfl)
    have q0 := quiet_advanceLine gs line file
    have e0 := advanceLine_errors gs line file
    generalize gs.advanceLine line file = gs0 at q0 e0
    have q := quiet_removeTopPotBreak gs0
    have sp := progPre_spec gs0 l.left.tok
    generalize (progPre gs0 l.left.tok).1 = p1 at sp
    generalize (progPre gs0 l.left.tok).2 = after at sp
    have aq := argsQuiet_args f p1 l.right.left
    obtain ⟨ae, _, an⟩ := args_char f p1 l.right.left hfa
    generalize dispatchArgs f p1 l.right.left = g at aq ae an
    have hgm : g.top.marks = [] := by rw [aq.marks, sp.top]
    have hb := step_void f g r
    have sb := stmt_char f g r hfr hs (MarksWF.of_nil hgm)
    have bm := body_marks f g r hfr hs hgm
    have so := progPost_spec (dispatchVoid f g r) (outNameOf l.right.right) g.nextPos after
    generalize dispatchVoid f g r = b at hb sb bm so
    generalize progPost b (outNameOf l.right.right) g.nextPos after = res at so
    have hsym : res.symbols = gs0.removeTopPotBreak.symbols := by
      rw [so.symbols, hb.outer, aq.outer, sp.outer]
    have hlook : look g = look gs := by
      rw [look_eq aq.funcAddrs, look_eq sp.funcAddrs, look_eq q0.funcAddrs]
    refine ⟨?_, ?_, ?_⟩
    · rw [so.errs, bm, sb.errs, ae, sp.errors, e0, hlook]
      have : regNames p1 = [] := by unfold regNames; rw [sp.top]; rfl
      rw [this]
      constructor
      · rintro ⟨⟨⟨h1, h2, _⟩, h3⟩, h4⟩; exact ⟨h1, h2, h3, h4⟩
      · rintro ⟨h1, h2, h3, h4⟩; exact ⟨⟨⟨h1, h2, fun _ _ h => by cases h⟩, h3⟩, h4⟩
    · intro x
      rw [so.look, hb.name, hb.argnum, an, aq.name, sp.top, look_eq sb.funcAddrs, hlook]
      simp
    · rw [top_congr hsym, q.marks, q0.marks]

/-! ### the whole tree -/

def bodyOK (fa : Bytes → Option Nat) (b : Node) : Bool :=
  nStmtOK fa b && (refsOf b).all (fun m => decide (m ∈ defsOf b))

/-- the static rules, read off a tree of parser shape -/
def topOK (fa : Bytes → Option Nat) : Node → Bool
  | .nil => true
  | .mk t tok file line l r =>
    if t = NodeT.SPLIT ∧ l.ty = NodeT.PROGRAM then
      decide (namesOf l.left.right.left).Nodup && bodyOK fa l.right &&
        topOK (fun g => if g = l.left.left.tok then some (namesOf l.left.right.left).length else fa g) r
    else bodyOK fa (.mk t tok file line l r)

theorem bodyOK_iff (fa : Bytes → Option Nat) (b : Node) :
    bodyOK fa b = true ↔ nStmtOK fa b = true ∧ ∀ m ∈ refsOf b, m ∈ defsOf b := by
  unfold bodyOK; simp

theorem main_char (f : Nat) (gs : GS) (n : Node) (hf : nodeSize n ≤ f) (hs : stmtShape n = true)
    (hm : gs.top.marks = []) :
    ((dispatchVoid f gs n).errors = [] ∧ ∀ e ∈ (dispatchVoid f gs n).top.marks, isSet (dispatchVoid f gs n) e.2) ↔
      gs.errors = [] ∧ bodyOK (look gs) n = true := by
  rw [body_marks f gs n hf hs hm, (stmt_char f gs n hf hs (MarksWF.of_nil hm)).errs, bodyOK_iff, and_assoc]

theorem top_char : ∀ (f : Nat) (gs : GS) (root : Node), nodeSize root ≤ f → AstShape root = true →
    gs.top.marks = [] →
    (((dispatchVoid f gs root).errors = [] ∧
        ∀ e ∈ (dispatchVoid f gs root).top.marks, isSet (dispatchVoid f gs root) e.2) ↔
      gs.errors = [] ∧ topOK (look gs) root = true) := by
  intro f
  induction f with
  | zero => intro gs root h; have := nodeSize_pos root; omega
  | succ f ih =>
    intro gs root hf hs hm
    cases root with
    | nil => rw [dispatchVoid_nil]; simp [topOK, hm]
    | mk t tok file line l r =>
      by_cases hp : t = NodeT.SPLIT ∧ l.ty = NodeT.PROGRAM
      · obtain ⟨ht, hl⟩ := hp
        subst ht
        cases l with
        | nil => simp [Node.ty, NodeT.PROGRAM] at hl
        | mk t2 tok2 file2 line2 l2 r2 =>
          have ht2 : t2 = NodeT.PROGRAM := hl
          subst ht2
          have hs' : stmtShape r2 = true ∧ AstShape r = true := by
            rw [AstShape] at hs
            simpa [Node.ty, Node.right] using hs
          rw [dispatchVoid_succ]
          dsimp only
          rw [if_pos rfl]
          simp only [nodeSize] at hf
          have q0 := quiet_advanceLine gs line file
          have e0 := advanceLine_errors gs line file
          generalize gs.advanceLine line file = gs0 at q0 e0
          have pc := prog_char f gs0 tok2 file2 line2 l2 r2 (by simp only [nodeSize]; have := nodeSize_pos r; omega) hs'.1
          generalize dispatchVoid f gs0 (.mk NodeT.PROGRAM tok2 file2 line2 l2 r2) = g at pc
          have hgm : g.top.marks = [] := by rw [pc.marks, q0.marks, hm]
          rw [ih g r (by omega) hs'.2 hgm, pc.errs, e0, look_eq q0.funcAddrs]
          have hlook : look g = fun x => if x = l2.left.tok then some (namesOf l2.right.left).length else look gs x := by
            funext x; rw [pc.look, look_eq q0.funcAddrs]
          rw [hlook]
          have ht : topOK (look gs) (.mk NodeT.SPLIT tok file line (.mk NodeT.PROGRAM tok2 file2 line2 l2 r2) r) =
              (decide (namesOf l2.right.left).Nodup && bodyOK (look gs) r2 &&
                topOK (fun x => if x = l2.left.tok then some (namesOf l2.right.left).length else look gs x) r) := by
            rw [topOK, if_pos ⟨rfl, rfl⟩]; rfl
          rw [ht]
          simp only [Bool.and_eq_true, decide_eq_true_eq, bodyOK_iff]
          constructor
          · rintro ⟨⟨h1, h2, h3, h4⟩, h5⟩; exact ⟨h1, ⟨h2, h3, h4⟩, h5⟩
          · rintro ⟨h1, ⟨h2, h3, h4⟩, h5⟩; exact ⟨⟨h1, h2, h3, h4⟩, h5⟩
      · have hs' : stmtShape (.mk t tok file line l r) = true := by
          rw [AstShape, if_neg hp] at hs; exact hs
        have ht : topOK (look gs) (.mk t tok file line l r) = bodyOK (look gs) (.mk t tok file line l r) := by
          rw [topOK, if_neg hp]
        rw [ht]
        exact main_char (f+1) gs _ hf hs' hm

/-! ### backpatching -/

theorem backpatchOne_mono (g : GS) (loc : Nat) : (backpatchOne g loc).errors = [] → g.errors = [] := by
  unfold backpatchOne
  split
  · dsimp only
    split
    · intro h; exact absurd h (err_ne_nil _ _)
    · exact id
  · dsimp only
    split
    · intro h; exact absurd h (err_ne_nil _ _)
    · exact id
  · intro h; exact absurd h (err_ne_nil _ _)

theorem backpatchOne_ok (g : GS) (loc lab : Nat) (hj : IsJump g.code[loc]? lab) (hs : isSet g lab) :
    (backpatchOne g loc).errors = g.errors ∧ (backpatchOne g loc).labels = g.labels ∧
    ∀ loc', loc' ≠ loc → (backpatchOne g loc).code[loc']? = g.code[loc']? := by
  have hs' : ¬ (g.labels[(lab : Int).toNat]?).getD (-1) = -1 := by rw [Int.toNat_natCast]; exact hs
  unfold backpatchOne
  rcases hj with hj | ⟨s, hj⟩
  · rw [hj]
    dsimp only
    rw [if_neg hs']
    refine ⟨rfl, rfl, ?_⟩
    intro loc' hne
    rw [List.getElem?_set_ne (Ne.symm hne)]
  · rw [hj]
    dsimp only
    rw [if_neg hs']
    refine ⟨rfl, rfl, ?_⟩
    intro loc' hne
    rw [List.getElem?_set_ne (Ne.symm hne)]

theorem backpatch_fold_mono : ∀ (todo : List Nat) (g : GS), (todo.foldl backpatchOne g).errors = [] → g.errors = []
  | [], _, h => h
  | loc :: rest, g, h => backpatchOne_mono g loc (backpatch_fold_mono rest _ h)

theorem backpatch_fold_ok : ∀ (todo : List Nat) (g : GS), todo.Nodup →
    (∀ loc ∈ todo, ∃ lab, IsJump g.code[loc]? lab ∧ isSet g lab) → (todo.foldl backpatchOne g).errors = g.errors
  | [], _, _, _ => rfl
  | loc :: rest, g, hn, h => by
    rw [List.nodup_cons] at hn
    obtain ⟨lab, hj, hs⟩ := h loc List.mem_cons_self
    obtain ⟨e1, e2, e3⟩ := backpatchOne_ok g loc lab hj hs
    rw [List.foldl_cons, backpatch_fold_ok rest _ hn.2, e1]
    intro loc' hloc'
    obtain ⟨lab', hj', hs'⟩ := h loc' (List.mem_cons_of_mem _ hloc')
    have hne : loc' ≠ loc := fun he => hn.1 (he ▸ hloc')
    refine ⟨lab', ?_, (isSet_congr e2 lab').2 hs'⟩
    unfold IsJump
    rw [e3 loc' hne]
    exact hj'

theorem backpatch_mono (g : GS) : (backpatch g).errors = [] → g.errors = [] := by
  unfold backpatch
  intro h
  have := backpatch_fold_mono g.todo _ h
  exact this

theorem backpatch_ok (g : GS) (ht : TodoOK g) (hs : ∀ l, l < g.labels.length → isSet g l) :
    (backpatch g).errors = g.errors := by
  unfold backpatch
  rw [backpatch_fold_ok g.todo _ ht.nodup]
  intro loc hloc
  obtain ⟨lab, h1, h2⟩ := ht.jumps loc hloc
  exact ⟨lab, h2, hs lab h1⟩

/-! ### `gen` -/

/-- the generator state before the tree is dispatched -/
def gs1 : GS := (({} : GS).emit (.prepare (-1) (-1) 0)).pushSymbols bRoot

/-- the root frame size is patched into the first instruction -/
def fixHead (gs : GS) : GS :=
  match gs.lookupFunc bRoot, gs.code with
  | some p, .prepare _ _ t :: rest => { gs with code := .prepare p.stackSize p.mi t :: rest }
  | _, _ => gs

theorem gen_errors_eq (errs : List SynErr) (root : Node) :
    (gen ⟨true, errs, root⟩).errors =
      (backpatch ((fixHead ((dispatchVoid (nodeSize root + 1) gs1 root).popSymbols 0)).emit .halt)).errors := rfl

theorem gen_ok_eq (a : AST) : (gen a).ok = (gen a).errors.isEmpty := rfl

theorem fixHead_spec (gs : GS) :
    (fixHead gs).errors = gs.errors ∧ (fixHead gs).labels = gs.labels ∧ (TodoOK gs → TodoOK (fixHead gs)) := by
  unfold fixHead
  split
  · rename_i p a b t rest hc
    refine ⟨rfl, rfl, ?_⟩
    intro h
    refine ⟨h.nodup, ?_⟩
    intro loc hloc
    obtain ⟨lab, h1, h2⟩ := h.jumps loc hloc
    refine ⟨lab, h1, ?_⟩
    rw [hc] at h2
    cases loc with
    | zero =>
      rcases h2 with h2 | ⟨s, h2⟩ <;> simp at h2
    | succ k => simpa [IsJump] using h2
  · exact ⟨rfl, rfl, id⟩

theorem gs1_facts : gs1.errors = [] ∧ gs1.top.marks = [] ∧ gs1.labels = [] ∧ gs1.todo = [] ∧ gs1.funcAddrs = [] :=
  ⟨rfl, rfl, rfl, rfl, rfl⟩

theorem gen_errors_iff (errs : List SynErr) (root : Node) (hs : AstShape root = true) :
    (gen ⟨true, errs, root⟩).errors = [] ↔ topOK (fun _ => none) root = true := by
  rw [gen_errors_eq]
  obtain ⟨g1, g2, g3, g4, g5⟩ := gs1_facts
  have hst := step_void (nodeSize root + 1) gs1 root
  have htop := top_char (nodeSize root + 1) gs1 root (Nat.le_succ _) hs g2
  have hlook : look gs1 = fun _ => none := by
    funext x; unfold look lookupFunc; rw [g5]; rfl
  rw [hlook, g1] at htop
  generalize dispatchVoid (nodeSize root + 1) gs1 root = b at hst htop
  have w1 : MarksWF gs1 := MarksWF.of_nil g2
  have t1 : TodoOK gs1 := ⟨by rw [g4]; exact List.nodup_nil, by rw [g4]; intro _ h; cases h⟩
  have a1 : LabAcc (fun _ => False) gs1 := by
    intro _ l hl; rw [g3] at hl; cases hl
  have tb := hst.todoOK w1 t1
  have ab := hst.acc _ a1
  have ps := popSymbols_spec b 0
  generalize b.popSymbols 0 = c at ps
  obtain ⟨f1, f2, f3⟩ := fixHead_spec c
  have tc : TodoOK c := TodoOK.safe ps.todo (by rw [ps.labels]; exact Nat.le_refl _) (ps.code ▸ CodeSafe.refl _) tb
  have td : TodoOK ((fixHead c).emit .halt) := (quiet_emit _ _).todoOK (f3 tc)
  have hce : ((fixHead c).emit .halt).errors = c.errors := f1
  constructor
  · intro h
    have h1 := backpatch_mono _ h
    rw [hce, ps.errs] at h1
    exact (htop.1 h1).2
  · intro h
    have h1 := htop.2 ⟨rfl, h⟩
    have hc0 : c.errors = [] := ps.errs.2 h1
    rw [backpatch_ok _ td, hce, hc0]
    intro l hl
    have hl' : l < b.labels.length := by
      have : ((fixHead c).emit .halt).labels = b.labels := by rw [emit_labels, f2, ps.labels]
      rw [this] at hl; exact hl
    have hset : isSet b l := by
      rcases ab h1.1 l hl' with h2 | h2 | ⟨e, he, hel⟩
      · exact h2
      · exact absurd h2 id
      · exact hel ▸ h1.2 e he
    have : ((fixHead c).emit .halt).labels = b.labels := by rw [emit_labels, f2, ps.labels]
    exact (isSet_congr this l).2 hset

end Static
end Theo
