/-
  C04 (static rules), part 6: the static rules read off the tree (`topOK`) are the static rules
  of the typed source (`staticOK (toSource root)`), for trees of parser shape.
-/
import Theo.Proofs.StaticTop

set_option linter.unusedSimpArgs false

namespace Theo
namespace Static
open Sem

/-! ### `lookupProg` as an arity table -/

def arity (src : Source) (r : Nat) (g : Bytes) : Option Nat :=
  (lookupProg src g r).map (fun x => x.2.params.length)

theorem go_stop (g : Bytes) (upto : Nat) (ps : List ProgDef) (i : Nat) (acc : Option (Nat × ProgDef))
    (h : upto ≤ i) : lookupProg.go g upto ps i acc = acc := by
  cases ps with
  | nil => rw [lookupProg.go]
  | cons p ps => rw [lookupProg.go, if_neg (by omega)]

theorem go_succ (g : Bytes) (k : Nat) : ∀ (ps : List ProgDef) (i : Nat) (acc : Option (Nat × ProgDef)) (p : ProgDef),
    i ≤ k → ps[k - i]? = some p →
    lookupProg.go g (k + 1) ps i acc = if p.name = g then some (k, p) else lookupProg.go g k ps i acc
  | [], _, _, _, _, h => by simp at h
  | q :: ps, i, acc, p, hi, h => by
    by_cases hik : i = k
    · subst hik
      simp at h
      subst h
      rw [lookupProg.go, if_pos (Nat.lt_succ_self _), go_stop _ _ _ _ _ (Nat.le_refl _),
        go_stop g i (q :: ps) i acc (Nat.le_refl _)]
    · have hlt : i < k := by omega
      rw [lookupProg.go, if_pos (by omega), lookupProg.go, if_pos hlt]
      have h' : ps[k - (i + 1)]? = some p := by
        have : k - i = (k - (i + 1)) + 1 := by omega
        rw [this, List.getElem?_cons_succ] at h
        exact h
      exact go_succ g k ps (i + 1) _ p (by omega) h'

theorem arity_zero (src : Source) (g : Bytes) : arity src 0 g = none := by
  unfold arity lookupProg
  rw [go_stop _ _ _ _ _ (Nat.le_refl _)]; rfl

theorem arity_succ (src : Source) (k : Nat) (p : ProgDef) (h : src.progs[k]? = some p) (g : Bytes) :
    arity src (k + 1) g = if p.name = g then some p.params.length else arity src k g := by
  unfold arity lookupProg
  rw [go_succ g k src.progs 0 none p (Nat.zero_le _) (by simpa using h)]
  split <;> rfl

/-! ### labels of a statement list -/

mutual
def sDefs : Stmts → List Name
  | .nil => []
  | .cons s ss => sDefs1 s ++ sDefs ss
def sDefs1 : Stmt → List Name
  | .mark m _ => [m]
  | .loop _ _ b _ => sDefs b
  | .while_ _ b _ => sDefs b
  | .assign _ _ _ => []
  | .goto _ _ => []
  | .ifGoto _ _ _ _ => []
  | .stop _ => []
end

mutual
theorem findLabel_isSome (m : Name) : ∀ (ss : Stmts) (k : Kont),
    (findLabel m ss k).isSome = decide (m ∈ sDefs ss)
  | .nil, k => by simp [findLabel, sDefs]
  | .cons s rest, k => by
    rw [findLabel, sDefs]
    have h1 := findLabelStmt_isSome m s rest k
    have h2 := findLabel_isSome m rest k
    cases hf : findLabelStmt m s rest k with
    | some x =>
      rw [hf] at h1
      have : m ∈ sDefs1 s := by simpa using h1.symm
      simp [this]
    | none =>
      rw [hf] at h1
      have : m ∉ sDefs1 s := by simpa using h1.symm
      simp [this, h2]
theorem findLabelStmt_isSome (m : Name) : ∀ (s : Stmt) (rest : Stmts) (k : Kont),
    (findLabelStmt m s rest k).isSome = decide (m ∈ sDefs1 s)
  | .mark m' pos, rest, k => by
    rw [findLabelStmt, sDefs1]
    by_cases h : m' = m
    · simp [h]
    · have : ¬ m = m' := fun e => h e.symm
      simp [h, this]
  | .loop id _ body _, rest, k => by
    rw [findLabelStmt, sDefs1]; exact findLabel_isSome m body _
  | .while_ x body _, rest, k => by
    rw [findLabelStmt, sDefs1]; exact findLabel_isSome m body _
  | .assign _ _ _, _, _ => by simp [findLabelStmt, sDefs1]
  | .goto _ _, _, _ => by simp [findLabelStmt, sDefs1]
  | .ifGoto _ _ _ _, _, _ => by simp [findLabelStmt, sDefs1]
  | .stop _, _, _ => by simp [findLabelStmt, sDefs1]
end

theorem sDefs_append : ∀ (a b : Stmts), sDefs (a.append b) = sDefs a ++ sDefs b
  | .nil, b => by simp [Stmts.append, sDefs]
  | .cons s ss, b => by simp [Stmts.append, sDefs, sDefs_append ss b]

/-! ### values -/

theorem valuesOf_nil : valuesOf .nil = .nil := by rw [valuesOf]
theorem valuesOf_mk (t : Nat) (tok file : Bytes) (line : Int) (l r : Node) :
    valuesOf (.mk t tok file line l r) =
      if t = NodeT.SPLIT then Values.appendV (valuesOf l) (valuesOf r)
      else .cons (valueOf (.mk t tok file line l r)) .nil := by rw [valuesOf]
theorem valueOf_nil : valueOf .nil = .num 0 := by rw [valueOf]
theorem valueOf_mk (t : Nat) (tok file : Bytes) (line : Int) (l r : Node) :
    valueOf (.mk t tok file line l r) =
      if t = NodeT.NAME then .var tok
      else if t = NodeT.NUMBER then .num (decVal tok)
      else if t = NodeT.CALL then
        if (l.tok = bINC ∨ l.tok = bDEC) ∧ (valuesOf r).length = 2 ∧ r.left.ty = NodeT.NAME ∧ r.right.left.ty = NodeT.NUMBER then
          (if l.tok = bINC then .inc r.left.tok (decVal r.right.left.tok) else .dec r.left.tok (decVal r.right.left.tok))
        else .call l.tok (valuesOf r)
      else .num 0 := by rw [valueOf]

theorem appendV_length : ∀ (a b : Values), (Values.appendV a b).length = a.length + b.length
  | .nil, b => by simp [Values.appendV, Values.length]
  | .cons v vs, b => by simp [Values.appendV, Values.length, appendV_length vs b]; omega

theorem valuesOf_length : ∀ n : Node, (valuesOf n).length = argCount n
  | .nil => by rw [valuesOf_nil]; rfl
  | .mk t tok file line l r => by
    rw [valuesOf_mk, argCount]
    split
    · rw [appendV_length, valuesOf_length l, valuesOf_length r]
    · rfl

theorem valuesOK_appendV (src : Source) (rt : Nat) : ∀ (a b : Values),
    valuesOK src rt (Values.appendV a b) = (valuesOK src rt a && valuesOK src rt b)
  | .nil, b => by simp [Values.appendV, valuesOK]
  | .cons v vs, b => by simp [Values.appendV, valuesOK, valuesOK_appendV src rt vs b, Bool.and_assoc]

theorem nValOK_count0 (fa : Bytes → Option Nat) : ∀ n : Node, argCount n = 0 → nValOK fa true n = true
  | .nil, _ => by rw [nValOK]
  | .mk t tok file line l r, h => by
    rw [argCount] at h
    by_cases ht : t = NodeT.SPLIT
    · subst ht
      rw [if_pos rfl] at h
      rw [nValOK_true_split, nValOK_count0 fa l (by omega), nValOK_count0 fa r (by omega)]; rfl
    · rw [if_neg ht] at h; cases h

theorem genRangeBad_zero : genRangeBad 0 = false := by decide

theorem valShape_mk (a : Bool) (t : Nat) (tok file : Bytes) (line : Int) (l r : Node) :
    valShape a (.mk t tok file line l r) =
      if a = true ∧ t = NodeT.SPLIT then valShape true l && valShape true r
      else decide (((t = NodeT.NAME ∨ t = NodeT.NUMBER) ∧ l = .nil) ∨
         (t = NodeT.CALL ∧ l.ty = NodeT.NAME ∧ valShape true r = true)) := by
  rw [valShape]

/-- the arguments of a built-in shape: only the constant is checked -/
theorem builtin_args (fa : Bytes → Option Nat) (l r : Node) (hb : builtinP l r (argCount r))
    (hs : valShape true r = true) : nValOK fa true r = !genRangeBad (decVal r.right.left.tok) := by
  obtain ⟨_, hc, h1, h2⟩ := hb
  cases r with
  | nil => simp [Node.left, Node.ty, NodeT.NAME] at h1
  | mk t1 tok1 f1 ln1 l1 r1 =>
    simp only [Node.left, Node.right] at h1 h2 ⊢
    have ht1 : t1 = NodeT.SPLIT := by
      refine Classical.byContradiction fun hne => ?_
      rw [argCount, if_neg hne] at hc; cases hc
    subst ht1
    rw [valShape_mk, if_pos ⟨rfl, rfl⟩, Bool.and_eq_true] at hs
    rw [argCount, if_pos rfl] at hc
    cases l1 with
    | nil => simp [Node.ty, NodeT.NAME] at h1
    | mk ta toka fa' lna la ra =>
      have hta : ta = NodeT.NAME := h1
      subst hta
      have hca : argCount (.mk NodeT.NAME toka fa' lna la ra) = 1 := by rw [argCount, if_neg (by decide)]
      rw [hca] at hc
      cases r1 with
      | nil => simp [Node.ty, NodeT.NUMBER] at h2
      | mk t2 tok2 f2 ln2 l2 r2 =>
        simp only at h2 ⊢
        cases l2 with
        | nil => simp [Node.ty, NodeT.NUMBER] at h2
        | mk tb tokb fb lnb lb rb =>
          have htb : tb = NodeT.NUMBER := h2
          subst htb
          have ht2 : t2 = NodeT.SPLIT := by
            refine Classical.byContradiction fun hne => ?_
            have hs2 := hs.2
            rw [valShape_mk, if_neg (fun h => hne h.2)] at hs2
            simp [Node.ty, NodeT.NUMBER, NodeT.NAME] at hs2
          subst ht2
          have hcb : argCount (.mk NodeT.NUMBER tokb fb lnb lb rb) = 1 := by rw [argCount, if_neg (by decide)]
          have hc2 : argCount r2 = 0 := by
            rw [argCount, if_pos rfl, hcb] at hc; omega
          rw [nValOK_true_split, nValOK_true_split, nValOK_count0 fa r2 hc2,
            nValOK_true_ne _ _ _ _ _ _ _ (by decide), nValOK_true_ne _ _ _ _ _ _ _ (by decide),
            nValOK_false_mk, nValOK_false_mk]
          simp [Node.tok, NodeT.NAME, NodeT.NUMBER]

theorem valueOK_call (src : Source) (rt : Nat) (f : Bytes) (args : Values) :
    valueOK src rt (.call f args) = (valuesOK src rt args && (arity src rt f == some args.length)) := by
  rw [valueOK]
  unfold arity
  cases lookupProg src f rt with
  | none => rfl
  | some x => simp

theorem values_link (src : Source) (rt : Nat) : ∀ n : Node,
    (valShape false n = true → valueOK src rt (valueOf n) = nValOK (arity src rt) false n) ∧
    (valShape true n = true → valuesOK src rt (valuesOf n) = nValOK (arity src rt) true n)
  | .nil => by
    refine ⟨fun _ => ?_, fun _ => ?_⟩
    · rw [valueOf_nil, valueOK, genRangeBad_zero, nValOK]; rfl
    · rw [valuesOf_nil, valuesOK, nValOK]
  | .mk t tok file line l r => by
    have ihl := values_link src rt l
    have ihr := values_link src rt r
    have part1 : valShape false (.mk t tok file line l r) = true →
        valueOK src rt (valueOf (.mk t tok file line l r)) = nValOK (arity src rt) false (.mk t tok file line l r) := by
      intro hs
      rw [valShape_mk, if_neg (by simp)] at hs
      rw [valueOf_mk, nValOK_false_mk]
      by_cases h1 : t = NodeT.NAME
      · rw [if_pos h1, if_pos h1, valueOK]
      rw [if_neg h1, if_neg h1]
      by_cases h2 : t = NodeT.NUMBER
      · rw [if_pos h2, if_pos h2, valueOK]
      rw [if_neg h2, if_neg h2]
      have hs' : t = NodeT.CALL ∧ l.ty = NodeT.NAME ∧ valShape true r = true := by
        simpa [h1, h2] using hs
      rw [if_pos hs'.1, if_pos hs'.1, valuesOf_length]
      by_cases hb : builtinP l r (argCount r)
      · have hb' : (l.tok = bINC ∨ l.tok = bDEC) ∧ argCount r = 2 ∧ r.left.ty = NodeT.NAME ∧ r.right.left.ty = NodeT.NUMBER := hb
        rw [if_pos hb', builtin_args _ l r hb hs'.2.2]
        simp only [hb, decide_true, Bool.true_or, Bool.and_true]
        split <;> rw [valueOK]
      · have hb' : ¬ ((l.tok = bINC ∨ l.tok = bDEC) ∧ argCount r = 2 ∧ r.left.ty = NodeT.NAME ∧ r.right.left.ty = NodeT.NUMBER) := hb
        rw [if_neg hb', valueOK_call, ihr.2 hs'.2.2, valuesOf_length]
        simp [hb]
    refine ⟨part1, ?_⟩
    intro hs
    rw [valuesOf_mk]
    by_cases ht : t = NodeT.SPLIT
    · subst ht
      rw [valShape_mk, if_pos ⟨rfl, rfl⟩, Bool.and_eq_true] at hs
      rw [if_pos rfl, valuesOK_appendV, ihl.2 hs.1, ihr.2 hs.2, nValOK_true_split]
    · rw [if_neg ht, valuesOK, valuesOK, nValOK_true_ne _ _ _ _ _ _ _ ht, Bool.and_true]
      apply part1
      rw [valShape_mk, if_neg (fun h => ht h.2)] at hs
      rw [valShape_mk, if_neg (by simp)]
      exact hs

/-! ### statements -/

theorem stmtsOf_nil (k : Nat) (ps : List ProgDef) : stmtsOf .nil k ps = (.nil, k, ps) := by rw [stmtsOf]

theorem stmtsOf_mk (t : Nat) (tok file : Bytes) (line : Int) (l r : Node) (n : Nat) (ps : List ProgDef) :
    stmtsOf (.mk t tok file line l r) n ps =
      if t = NodeT.SPLIT then
        ((stmtsOf l n ps).1.append (stmtsOf r (stmtsOf l n ps).2.1 (stmtsOf l n ps).2.2).1,
         (stmtsOf r (stmtsOf l n ps).2.1 (stmtsOf l n ps).2.2).2.1,
         (stmtsOf r (stmtsOf l n ps).2.1 (stmtsOf l n ps).2.2).2.2)
      else if t = NodeT.PROGRAM then
        (.nil, (stmtsOf r n ps).2.1,
         (stmtsOf r n ps).2.2 ++ [⟨l.left.tok, namesOf l.right.left, outNameOf l.right.right, (stmtsOf r n ps).1⟩])
      else if t = NodeT.ASSIGN then (.cons (.assign l.tok (valueOf r) (file, line)) .nil, n, ps)
      else if t = NodeT.LOOP then
        (.cons (.loop (n + 1) l.tok (stmtsOf r (n + 1) ps).1 (file, line)) .nil,
         (stmtsOf r (n + 1) ps).2.1, (stmtsOf r (n + 1) ps).2.2)
      else if t = NodeT.WHILE then
        (.cons (.while_ l.tok (stmtsOf r n ps).1 (file, line)) .nil, (stmtsOf r n ps).2.1, (stmtsOf r n ps).2.2)
      else if t = NodeT.MARK then (.cons (.mark l.tok (file, line)) .nil, n, ps)
      else if t = NodeT.GOTO then (.cons (.goto l.tok (file, line)) .nil, n, ps)
      else if t = NodeT.IF then
        (.cons (.ifGoto l.left.tok (decVal l.right.tok) r.left.tok (file, line)) .nil, n, ps)
      else if t = NodeT.STOP then (.cons (.stop (file, line)) .nil, n, ps)
      else (.nil, n, ps) := by
  rw [stmtsOf]
  rfl

theorem stmtsOK_append (src : Source) (rt : Nat) (body : Stmts) : ∀ (a b : Stmts),
    stmtsOK src rt body (a.append b) = (stmtsOK src rt body a && stmtsOK src rt body b)
  | .nil, b => by simp [Stmts.append, stmtsOK]
  | .cons s ss, b => by simp [Stmts.append, stmtsOK, stmtsOK_append src rt body ss b, Bool.and_assoc]

theorem nilOr_name_ok (fa : Bytes → Option Nat) (n : Node) (h : nilOr NodeT.NAME n = true) :
    nValOK fa false n = true := by
  cases n with
  | nil => rw [nValOK]
  | mk t tok file line l r =>
    have : t = NodeT.NAME := by simp [nilOr, Node.ty] at h; exact of_decide_eq_true h
    rw [nValOK_false_mk, if_pos this]

theorem nilOr_number_ok (fa : Bytes → Option Nat) (n : Node) (h : nilOr NodeT.NUMBER n = true) :
    nValOK fa false n = !genRangeBad (decVal n.tok) := by
  cases n with
  | nil => rw [nValOK]; simp [Node.tok, decVal, genRangeBad_zero]
  | mk t tok file line l r =>
    have : t = NodeT.NUMBER := by simp [nilOr, Node.ty] at h; exact of_decide_eq_true h
    subst this
    rw [nValOK_false_mk, if_neg (by decide), if_pos rfl]; rfl

theorem stmts_link (src : Source) (rt : Nat) (body : Stmts) : ∀ n : Node, stmtShape n = true →
    ∀ (k : Nat) (ps : List ProgDef),
      (stmtsOf n k ps).2.2 = ps ∧
      sDefs (stmtsOf n k ps).1 = defsOf n ∧
      stmtsOK src rt body (stmtsOf n k ps).1 =
        (nStmtOK (arity src rt) n && (refsOf n).all (fun m => (findLabel m body .done).isSome))
  | .nil, _, k, ps => by
    rw [stmtsOf_nil]; simp [sDefs, defsOf, stmtsOK, nStmtOK, refsOf]
  | .mk t tok file line l r, hs, k, ps => by
    rw [stmtShape_mk] at hs
    rw [stmtsOf_mk]
    by_cases h1 : t = NodeT.SPLIT
    · subst h1
      rw [if_pos rfl, Bool.and_eq_true] at hs
      rw [if_pos rfl]
      obtain ⟨a1, a2, a3⟩ := stmts_link src rt body l hs.1 k ps
      obtain ⟨b1, b2, b3⟩ := stmts_link src rt body r hs.2 (stmtsOf l k ps).2.1 (stmtsOf l k ps).2.2
      refine ⟨by rw [b1, a1], ?_, ?_⟩
      · simp only []
        rw [sDefs_append, a2, b2]; simp [defsOf]
      · simp only []
        rw [stmtsOK_append, a3, b3]
        simp only [nStmtOK, refsOf, if_true, List.all_append]
        cases nStmtOK (arity src rt) l <;> cases nStmtOK (arity src rt) r <;> simp
    rw [if_neg h1] at hs ⊢
    by_cases h2 : t = NodeT.PROGRAM
    · subst h2; simp [NodeT.PROGRAM, NodeT.ASSIGN, NodeT.LOOP, NodeT.WHILE, NodeT.IF, NodeT.MARK, NodeT.GOTO, NodeT.STOP] at hs
    rw [if_neg h2]
    by_cases h3 : t = NodeT.ASSIGN
    · subst h3
      rw [if_pos rfl] at hs
      rw [if_pos rfl]
      refine ⟨rfl, by simp [sDefs, sDefs1, defsOf, NodeT.ASSIGN, NodeT.SPLIT, NodeT.LOOP, NodeT.WHILE, NodeT.MARK], ?_⟩
      simp only [stmtsOK, stmtOK, Bool.and_true]
      rw [(values_link src rt r).1 hs]
      simp [nStmtOK, refsOf, NodeT.ASSIGN, NodeT.SPLIT, NodeT.LOOP, NodeT.WHILE, NodeT.GOTO, NodeT.IF]
    rw [if_neg h3] at hs ⊢
    by_cases h4 : t = NodeT.LOOP
    · subst h4
      rw [if_pos (Or.inl rfl), Bool.and_eq_true] at hs
      rw [if_pos rfl]
      obtain ⟨b1, b2, b3⟩ := stmts_link src rt body r hs.2 (k + 1) ps
      refine ⟨b1, ?_, ?_⟩
      · simp only [sDefs, sDefs1, List.append_nil]
        rw [b2]; simp [defsOf, NodeT.LOOP, NodeT.SPLIT]
      · simp only [stmtsOK, stmtOK, Bool.and_true]
        rw [b3]
        simp [nStmtOK, refsOf, NodeT.LOOP, NodeT.SPLIT, NodeT.ASSIGN, nilOr_name_ok _ l hs.1]
    by_cases h5 : t = NodeT.WHILE
    · subst h5
      rw [if_pos (Or.inr rfl), Bool.and_eq_true] at hs
      rw [if_neg h4, if_pos rfl]
      obtain ⟨b1, b2, b3⟩ := stmts_link src rt body r hs.2 k ps
      refine ⟨b1, ?_, ?_⟩
      · simp only [sDefs, sDefs1, List.append_nil]
        rw [b2]; simp [defsOf, NodeT.WHILE, NodeT.SPLIT]
      · simp only [stmtsOK, stmtOK, Bool.and_true]
        rw [b3]
        simp [nStmtOK, refsOf, NodeT.WHILE, NodeT.LOOP, NodeT.SPLIT, NodeT.ASSIGN, nilOr_name_ok _ l hs.1]
    rw [if_neg h4, if_neg h5]
    rw [if_neg (by intro h; rcases h with h | h; exact h4 h; exact h5 h)] at hs
    by_cases h6 : t = NodeT.MARK
    · subst h6
      rw [if_pos rfl]
      refine ⟨rfl, by simp [sDefs, sDefs1, defsOf, NodeT.MARK, NodeT.SPLIT, NodeT.LOOP, NodeT.WHILE], ?_⟩
      simp [stmtsOK, stmtOK, nStmtOK, refsOf, NodeT.MARK, NodeT.SPLIT, NodeT.ASSIGN, NodeT.LOOP, NodeT.WHILE, NodeT.IF, NodeT.GOTO]
    rw [if_neg h6]
    by_cases h7 : t = NodeT.GOTO
    · subst h7
      rw [if_pos rfl]
      refine ⟨rfl, by simp [sDefs, sDefs1, defsOf, NodeT.GOTO, NodeT.MARK, NodeT.SPLIT, NodeT.LOOP, NodeT.WHILE], ?_⟩
      simp [stmtsOK, stmtOK, nStmtOK, refsOf, NodeT.MARK, NodeT.SPLIT, NodeT.ASSIGN, NodeT.LOOP, NodeT.WHILE, NodeT.IF, NodeT.GOTO]
    rw [if_neg h7]
    by_cases h8 : t = NodeT.IF
    · subst h8
      rw [if_pos rfl, Bool.and_eq_true] at hs
      rw [if_pos rfl]
      refine ⟨rfl, by simp [sDefs, sDefs1, defsOf, NodeT.IF, NodeT.GOTO, NodeT.MARK, NodeT.SPLIT, NodeT.LOOP, NodeT.WHILE], ?_⟩
      simp [stmtsOK, stmtOK, nStmtOK, refsOf, NodeT.MARK, NodeT.SPLIT, NodeT.ASSIGN, NodeT.LOOP, NodeT.WHILE, NodeT.IF, NodeT.GOTO,
        nilOr_name_ok _ l.left hs.1, nilOr_number_ok _ l.right hs.2]
    rw [if_neg h8]
    rw [if_neg h8] at hs
    by_cases h9 : t = NodeT.STOP
    · subst h9
      rw [if_pos rfl]
      refine ⟨rfl, by simp [sDefs, sDefs1, defsOf, NodeT.STOP, NodeT.IF, NodeT.GOTO, NodeT.MARK, NodeT.SPLIT, NodeT.LOOP, NodeT.WHILE], ?_⟩
      simp [stmtsOK, stmtOK, nStmtOK, refsOf, NodeT.STOP, NodeT.MARK, NodeT.SPLIT, NodeT.ASSIGN, NodeT.LOOP, NodeT.WHILE, NodeT.IF, NodeT.GOTO]
    · exfalso
      simp [h6, h7, h9] at hs

/-! ### the whole source -/

theorem stmtsOf_prefix : ∀ (n : Node) (k : Nat) (ps : List ProgDef), ∃ ext, (stmtsOf n k ps).2.2 = ps ++ ext
  | .nil, k, ps => ⟨[], by rw [stmtsOf_nil]; simp⟩
  | .mk t tok file line l r, k, ps => by
    rw [stmtsOf_mk]
    split
    · obtain ⟨e1, h1⟩ := stmtsOf_prefix l k ps
      obtain ⟨e2, h2⟩ := stmtsOf_prefix r (stmtsOf l k ps).2.1 (stmtsOf l k ps).2.2
      exact ⟨e1 ++ e2, by simp only []; rw [h2, h1, List.append_assoc]⟩
    split
    · obtain ⟨e1, h1⟩ := stmtsOf_prefix r k ps
      exact ⟨e1 ++ [_], by simp only []; rw [h1, List.append_assoc]⟩
    split
    · exact ⟨[], by simp⟩
    split
    · exact stmtsOf_prefix r (k + 1) ps
    split
    · exact stmtsOf_prefix r k ps
    split
    · exact ⟨[], by simp⟩
    split
    · exact ⟨[], by simp⟩
    split
    · exact ⟨[], by simp⟩
    split
    · exact ⟨[], by simp⟩
    · exact ⟨[], by simp⟩

/-- rules RUN / LIT / JUMP of a routine whose body is the statement tree `n` -/
theorem body_link (src : Source) (rt : Nat) (n : Node) (hs : stmtShape n = true) (k : Nat) (ps : List ProgDef) :
    stmtsOK src rt (stmtsOf n k ps).1 (stmtsOf n k ps).1 = bodyOK (arity src rt) n := by
  obtain ⟨_, h2, h3⟩ := stmts_link src rt (stmtsOf n k ps).1 n hs k ps
  rw [h3]
  unfold bodyOK
  have : (fun m => (findLabel m (stmtsOf n k ps).1 .done).isSome) = (fun m => decide (m ∈ defsOf n)) := by
    funext m; rw [findLabel_isSome, h2]
  rw [this]

theorem bodyOf_at {src : Source} {i : Nat} {pd : ProgDef} (h : src.progs[i]? = some pd) : bodyOf src i = pd.body := by
  unfold bodyOf; rw [h]
theorem bodyOf_main (src : Source) : bodyOf src src.progs.length = src.main := by
  unfold bodyOf; rw [List.getElem?_eq_none (Nat.le_refl _)]

theorem top_link : ∀ (root : Node), AstShape root = true → ∀ (k : Nat) (ps : List ProgDef) (src : Source),
    (stmtsOf root k ps).2.2 = src.progs → (stmtsOf root k ps).1 = src.main →
    topOK (arity src ps.length) root =
      ((List.range' ps.length (src.progs.length + 1 - ps.length)).all (routineOK src) &&
        (src.progs.drop ps.length).all (fun pd => decide pd.params.Nodup))
  | .nil, _, k, ps, src, hp, hm => by
    rw [stmtsOf_nil] at hp hm
    simp only [] at hp hm
    rw [topOK, ← hp]
    have : ps.length + 1 - ps.length = 1 := by omega
    rw [this]
    have hb : bodyOf src ps.length = .nil := by rw [hp, bodyOf_main, ← hm]
    simp [routineOK, hb, stmtsOK]
  | .mk t tok file line l r, hs, k, ps, src, hp, hm => by
    by_cases hpr : t = NodeT.SPLIT ∧ l.ty = NodeT.PROGRAM
    · obtain ⟨ht, hl⟩ := hpr
      subst ht
      cases l with
      | nil => simp [Node.ty, NodeT.PROGRAM] at hl
      | mk t2 tok2 file2 line2 l2 r2 =>
        have ht2 : t2 = NodeT.PROGRAM := hl
        subst ht2
        have hs' : stmtShape r2 = true ∧ AstShape r = true := by
          rw [AstShape] at hs
          simpa [Node.ty, Node.right] using hs
        rw [stmtsOf_mk, if_pos rfl, stmtsOf_mk, if_neg (by decide), if_pos rfl] at hp hm
        simp only [] at hp hm
        have hB := (stmts_link src ps.length (stmtsOf r2 k ps).1 r2 hs'.1 k ps).1
        rw [hB] at hp hm
        have hbody := body_link src ps.length r2 hs'.1 k ps
        generalize (stmtsOf r2 k ps).1 = body at hp hm hbody
        generalize (stmtsOf r2 k ps).2.1 = k1 at hp hm
        have hm' : (stmtsOf r k1 (ps ++ [⟨l2.left.tok, namesOf l2.right.left, outNameOf l2.right.right, body⟩])).1 = src.main := hm
        obtain ⟨ext, hext⟩ := stmtsOf_prefix r k1 (ps ++ [⟨l2.left.tok, namesOf l2.right.left, outNameOf l2.right.right, body⟩])
        have ih := top_link r hs'.2 k1 _ src hp hm'
        have hprogs : src.progs = ps ++ (⟨l2.left.tok, namesOf l2.right.left, outNameOf l2.right.right, body⟩ :: ext) := by
          rw [← hp, hext]; simp
        have hget : src.progs[ps.length]? = some ⟨l2.left.tok, namesOf l2.right.left, outNameOf l2.right.right, body⟩ := by
          rw [hprogs]; simp
        have hlen : src.progs.length + 1 - ps.length = (src.progs.length + 1 - (ps.length + 1)) + 1 := by
          rw [hprogs]; simp; omega
        have hfa : (fun g => if g = l2.left.tok then some (namesOf l2.right.left).length else arity src ps.length g) =
            arity src (ps.length + 1) := by
          funext g
          rw [arity_succ src ps.length _ hget g]
          by_cases hg : g = l2.left.tok
          · rw [if_pos hg, if_pos hg.symm]
          · rw [if_neg hg, if_neg (fun h => hg h.symm)]
        have hdrop : src.progs.drop ps.length =
            ⟨l2.left.tok, namesOf l2.right.left, outNameOf l2.right.right, body⟩ :: src.progs.drop (ps.length + 1) := by
          rw [hprogs]; simp
        rw [topOK, if_pos ⟨rfl, rfl⟩]
        show (decide (namesOf l2.right.left).Nodup && bodyOK (arity src ps.length) r2 &&
          topOK (fun g => if g = l2.left.tok then some (namesOf l2.right.left).length else arity src ps.length g) r) = _
        rw [hfa, hlen, List.range'_succ, hdrop]
        rw [List.length_append] at ih
        simp only [List.length_cons, List.length_nil, Nat.zero_add] at ih
        rw [ih]
        simp only [List.all_cons]
        have hr : routineOK src ps.length = bodyOK (arity src ps.length) r2 := by
          unfold routineOK
          rw [bodyOf_at hget]
          exact hbody
        rw [hr]
        cases decide (namesOf l2.right.left).Nodup <;> cases bodyOK (arity src ps.length) r2 <;> simp [Bool.and_comm, Bool.and_assoc, Bool.and_left_comm]
    · have hs' : stmtShape (.mk t tok file line l r) = true := by
        rw [AstShape, if_neg hpr] at hs; exact hs
      have hB := (stmts_link src ps.length (stmtsOf (.mk t tok file line l r) k ps).1 _ hs' k ps).1
      have hbody := body_link src ps.length _ hs' k ps
      rw [hB] at hp
      rw [hm] at hbody
      rw [topOK, if_neg hpr, ← hp]
      have : ps.length + 1 - ps.length = 1 := by omega
      rw [this]
      have hb : bodyOf src ps.length = src.main := by rw [hp, bodyOf_main]
      simp [routineOK, hb, hbody]

theorem toSource_eq (root : Node) : toSource root = ⟨(stmtsOf root 0 []).2.2, (stmtsOf root 0 []).1⟩ := rfl

/-- the static rules read off the tree are the static rules of the typed source -/
theorem topOK_static (root : Node) (hs : AstShape root = true) :
    topOK (fun _ => none) root = staticOK (toSource root) := by
  have h := top_link root hs 0 [] (toSource root) rfl rfl
  have hfa : arity (toSource root) ([] : List ProgDef).length = fun _ => none := by
    funext g; exact arity_zero _ g
  rw [hfa] at h
  rw [h]
  unfold staticOK
  simp [List.range_eq_range']

end Static
end Theo
