/-
  C03 for the generator, interface between the generator-side proof and the checker-side proof:
  a *local* description of well-formed code.  Every program counter `pc ≥ 1` is given a frame
  size `fr pc` and a routine id `rd pc` by two arbitrary functions; the pending-call part of the
  certificate is computed from the code (`pendOf`: the PREPARE that starts the ARG run ending at
  `pc`).  `LocalWF` lists, instruction by instruction, what has to hold; nothing here mentions
  the generator.  Proofs/GenWFCert.lean shows `LocalWF p fr rd R → checkCert p (certOf …)`.
-/
import Theo.Spec.WellFormed

namespace Theo
namespace GenWF

/-- not an `ARG` / `EXEC` (the instructions that live inside a call sequence) -/
def notAE : Instr → Bool
  | .arg _ _ => false
  | .exec _ => false
  | _ => true

/-- operands `(count, idx)` of the PREPARE that starts the ARG run ending just before `pc` -/
def prepBefore (code : List Instr) : Nat → Option (Int × Int)
  | 0 => none
  | pc + 1 =>
    match code[pc]? with
    | some (.prepare c i _) => some (c, i)
    | some (.arg _ _) => prepBefore code pc
    | _ => none

/-- the pending-call annotation of `pc` -/
def pendOf (code : List Instr) (pc : Nat) : Option (Nat × Nat) :=
  match code[pc]? with
  | some (.arg _ _) => (prepBefore code pc).map (fun x => (x.1.toNat, x.2.toNat))
  | some (.exec _) => (prepBefore code pc).map (fun x => (x.1.toNat, x.2.toNat))
  | _ => none

/-- the certificate determined by a frame-size and a routine-id function -/
def certOf (code : List Instr) (fr rd : Nat → Nat) : Cert :=
  (List.range code.length).map (fun pc => if pc = 0 then none else some ⟨fr pc, rd pc, pendOf code pc⟩)

/-- `pc + 1` exists and belongs to the same activation -/
def Next (code : List Instr) (fr rd : Nat → Nat) (pc : Nat) : Prop :=
  pc + 1 < code.length ∧ fr (pc + 1) = fr pc ∧ rd (pc + 1) = rd pc

/-- the instruction at `x` (if any) is not inside a call sequence -/
def Plain (code : List Instr) (x : Nat) : Prop := ∀ i, code[x]? = some i → notAE i = true

/-- the instruction at `x` exists and is an `ARG` or `EXEC` -/
def Inside (code : List Instr) (x : Nat) : Prop := ∃ i, code[x]? = some i ∧ notAE i = false

/-- a jump from `pc` by `off` lands on a plain instruction of the same activation, not on 0 -/
def JumpOK (code : List Instr) (fr rd : Nat → Nat) (pc : Nat) (off : Int) : Prop :=
  ∃ tgt : Nat, (pc : Int) + off = (tgt : Int) ∧ 1 ≤ tgt ∧ tgt < code.length ∧
    fr tgt = fr pc ∧ rd tgt = rd pc ∧ Plain code tgt

/-- what has to hold of the instruction `ins` at `pc` -/
def PcWF (p : Program) (fr rd : Nat → Nat) (R : Nat) (pc : Nat) : Instr → Prop
  | .potBreak => Next p.code fr rd pc ∧ Plain p.code (pc + 1)
  | .brk => False
  | .halt => True
  | .add t s _ => regOK t (fr pc) = true ∧ regOK s (fr pc) = true ∧ Next p.code fr rd pc ∧ Plain p.code (pc + 1)
  | .test t a b => regOK t (fr pc) = true ∧ regOK a (fr pc) = true ∧ regOK b (fr pc) = true ∧
      Next p.code fr rd pc ∧ Plain p.code (pc + 1)
  | .const t _ => regOK t (fr pc) = true ∧ Next p.code fr rd pc ∧ Plain p.code (pc + 1)
  | .jmp off => JumpOK p.code fr rd pc off
  | .jmpc off s => regOK s (fr pc) = true ∧ JumpOK p.code fr rd pc off ∧
      Next p.code fr rd pc ∧ Plain p.code (pc + 1)
  | .prepare cnt idx tgt => 0 ≤ cnt ∧ 0 ≤ idx ∧ regOK tgt (fr pc) = true ∧ mapOK p idx cnt.toNat = true ∧
      idx.toNat < rd pc ∧ Next p.code fr rd pc ∧ Inside p.code (pc + 1)
  | .arg t s => ∃ cnt idx, prepBefore p.code pc = some (cnt, idx) ∧ regOK t cnt.toNat = true ∧
      regOK s (fr pc) = true ∧ Next p.code fr rd pc ∧ Inside p.code (pc + 1)
  | .exec en => ∃ cnt idx, prepBefore p.code pc = some (cnt, idx) ∧ idx.toNat < rd pc ∧
      (∃ e : Nat, en = (e : Int) ∧ 1 ≤ e ∧ e < p.code.length ∧ fr e = cnt.toNat ∧ rd e = idx.toNat ∧
        Plain p.code e ∧ retsBefore p.code en = idx.toNat) ∧
      Next p.code fr rd pc ∧ Plain p.code (pc + 1)
  | .ret s => regOK s (fr pc) = true ∧ rd pc < R

/-- locally well-formed code -/
structure LocalWF (p : Program) (fr rd : Nat → Nat) (R : Nat) : Prop where
  head : ∃ c0 m0 t0 rest, p.code = Instr.prepare c0 m0 t0 :: rest ∧ 0 ≤ c0 ∧
    mapOK p m0 c0.toNat = true ∧ fr 1 = c0.toNat
  last : p.code.getLast? = some Instr.halt
  root : rd 1 = R ∧ R = retsBefore p.code p.code.length
  plain1 : Plain p.code 1
  pcs : ∀ pc ins, 1 ≤ pc → p.code[pc]? = some ins → PcWF p fr rd R pc ins
  sites : sitesOKb p = true

end GenWF
end Theo
