/-
  Converse of C12/C13, part 4: the table generator reports a conflict only where a state
  contains a clash — a shift and a complete item acting on the same column, or two different
  complete items acting on the same column.  Item sets have no duplicates; recorded transitions
  are labelled by symbols that do follow a dot.
-/
import Theo.Proofs.LRConverseSem

namespace Theo
namespace LRConverse
open LRSound LRComplete FirstProofs

/-! ## item sets have no duplicates -/

theorem nodup_insert (x : Item) : ∀ (l : ItemSet), l.Nodup → x ∉ l → (ItemSet.insert l x).Nodup := by
  intro l
  induction l with
  | nil => intro _ _; simp [ItemSet.insert, sortedInsert]
  | cons y ys ih =>
    intro hnd hx
    simp only [ItemSet.insert, sortedInsert]
    split
    · exact List.nodup_cons.mpr ⟨hx, hnd⟩
    · split
      · rw [List.nodup_cons] at hnd ⊢
        refine ⟨?_, ih hnd.2 (fun h => hx (by simp [h]))⟩
        intro hy
        rcases mem_sortedInsert _ _ _ _ _ hy with h | h
        · apply hx; rw [h]; simp
        · exact hnd.1 h
      · exact hnd

theorem nodup_foldl_insert : ∀ (l : List Item) (acc : ItemSet), acc.Nodup → l.Nodup →
    (∀ x ∈ l, x ∉ acc) → (l.foldl ItemSet.insert acc).Nodup := by
  intro l
  induction l with
  | nil => intro acc h _ _; exact h
  | cons x xs ih =>
    intro acc hacc hl hx
    rw [List.nodup_cons] at hl
    rw [List.foldl_cons]
    apply ih _ (nodup_insert x acc hacc (hx x (by simp))) hl.2
    intro y hy hm
    rcases mem_sortedInsert _ _ _ _ _ hm with h | h
    · subst h; exact hl.1 hy
    · exact hx y (by simp [hy]) h

theorem nodup_hullAux (g : Grammar) (fi : FirstInfo) : ∀ (fuel : Nat) (work : List Item) (acc : ItemSet),
    acc.Nodup → (hullAux g fi fuel work acc).Nodup := by
  intro fuel
  induction fuel with
  | zero => intro work acc h; simpa [hullAux] using h
  | succ fuel ih =>
    intro work acc h
    cases work with
    | nil => simpa [hullAux] using h
    | cons it work =>
      simp only [hullAux]
      apply ih
      apply nodup_foldl_insert _ _ h (nodup_eraseDups _ _ (Nat.le_refl _))
      intro x hx
      rw [List.mem_eraseDups, List.mem_filter] at hx
      simpa using hx.2

theorem nodup_hull (g : Grammar) (fi : FirstInfo) (I : List Item) (hI : I.Nodup) : (hull g fi I).Nodup := by
  simp only [hull]
  apply nodup_hullAux
  exact nodup_foldl_insert I [] (by simp) hI (by simp)

theorem nodup_jump (g : Grammar) (fi : FirstInfo) (I : ItemSet) (X : Sym) (hI : I.Nodup) :
    (jump g fi I X).Nodup := by
  simp only [jump]
  apply nodup_hull
  apply List.Pairwise.map _ _ (List.Pairwise.filter _ hI)
  intro a b hab h
  apply hab
  obtain ⟨l1, a1, d1, f1⟩ := a
  obtain ⟨l2, a2, d2, f2⟩ := b
  simp only [Item.mk.injEq] at h ⊢
  exact ⟨h.1, h.2.1, by omega, h.2.2.2⟩

theorem reached_nodup {ga : Grammar} {fi : FirstInfo} {h0 : ItemSet} (h0nd : h0.Nodup)
    {γ : List Sym} {I : ItemSet} (h : Reached ga fi h0 γ I) : I.Nodup := by
  induction h with
  | base => exact h0nd
  | step _ _ ih => exact nodup_jump _ _ _ _ ih

/-! ## recorded transitions are labelled by symbols after a dot -/

theorem mem_befores_inv (g : Grammar) (I : ItemSet) (X : Sym) (h : X ∈ befores g I) :
    ∃ it ∈ I, g.afterDot it = X := by
  have key : ∀ (l : List Sym) (acc : List Sym),
      X ∈ l.foldl (fun acc s => if s = .eps then acc else sortedInsert Sym.lt false s acc) acc →
      X ∈ acc ∨ X ∈ l := by
    intro l
    induction l with
    | nil => intro acc h; exact Or.inl h
    | cons s ss ih =>
      intro acc h
      rw [List.foldl_cons] at h
      rcases ih _ h with h | h
      · split at h
        · exact Or.inl h
        · rcases mem_sortedInsert _ _ _ _ _ h with h | h
          · exact Or.inr (by simp [h])
          · exact Or.inl h
      · exact Or.inr (by simp [h])
  rcases key _ [] h with h | h
  · cases h
  · obtain ⟨it, hit, rfl⟩ := List.mem_map.mp h
    exact ⟨it, hit, rfl⟩

def TransBef (g : Grammar) (S : List LRState) : Prop :=
  ∀ (q : Nat) (st : LRState), S[q]? = some st → ∀ p ∈ st.trans, p.1 ∈ befores g st.items

theorem expandState_transBef (ga : Grammar) (fi : FirstInfo) (S : List LRState) (i : Nat)
    (h : TransBef ga S) : TransBef ga (expandState ga fi S i) := by
  rw [expandState_eq]
  cases hst : S[i]? with
  | none => exact h
  | some st =>
    simp only []
    have hfold : (fun (acc : List LRState × List (Sym × Nat)) =>
        TransBef ga acc.1 ∧ ∀ p ∈ acc.2, p.1 ∈ befores ga st.items)
        ((befores ga st.items).foldl (expF ga fi st.items) (S, [])) := by
      apply foldl_inv (fun (acc : List LRState × List (Sym × Nat)) =>
        TransBef ga acc.1 ∧ ∀ p ∈ acc.2, p.1 ∈ befores ga st.items)
      · exact ⟨h, by simp⟩
      · intro acc x hx hacc
        obtain ⟨h1, h2⟩ := hacc
        have h2' : ∀ j, ∀ p ∈ acc.2 ++ [(x, j)], p.1 ∈ befores ga st.items := by
          intro j p hp
          rcases List.mem_append.mp hp with hp | hp
          · exact h2 p hp
          · simp only [List.mem_singleton] at hp; subst hp; exact hx
        simp only [expF]
        split
        · exact ⟨h1, h2' _⟩
        · refine ⟨?_, h2' _⟩
          intro q st' hq
          rcases getElem?_snoc _ _ _ _ hq with hq | ⟨_, hq⟩
          · exact h1 q st' hq
          · subst hq; simp
    obtain ⟨h1, h2⟩ := hfold
    intro q st' hq
    rw [List.getElem?_set] at hq
    by_cases hiq : i = q
    · subst hiq
      simp only [if_true] at hq
      split at hq
      · cases hq; exact h2
      · cases hq
    · simp only [hiq, if_false] at hq
      exact h1 q st' hq

theorem collectAux_transBef (ga : Grammar) (fi : FirstInfo) :
    ∀ (fuel i : Nat) (S : List LRState), TransBef ga S → TransBef ga (collectAux ga fi fuel i S) := by
  intro fuel
  induction fuel with
  | zero => intro i S h; simpa [collectAux] using h
  | succ fuel ih =>
    intro i S h
    simp only [collectAux]
    split
    · exact ih _ _ (expandState_transBef ga fi S i h)
    · exact h

theorem collection_transBef (ga : Grammar) (fi : FirstInfo) (sPrime eof fuel : Nat) :
    TransBef ga (collection ga fi sPrime eof fuel) := by
  simp only [collection]
  apply collectAux_transBef
  intro q st hq
  cases q with
  | zero => simp at hq; subst hq; simp
  | succ q => simp at hq

/-! ## one row: no clash in the state, no conflict reported -/

/-- the state contains no clash: no shift together with a complete item acting on the same
    column, no two different complete items acting on the same column -/
structure NoClash (ga : Grammar) (pm : Bool) (eof : Nat) (st : LRState) : Prop where
  sr : ∀ (c j : Nat) (it : Item), (Sym.t c, j) ∈ st.trans → it ∈ st.items →
    it.dot = (ga.rhs it).length → ActsOn pm eof it c → False
  rr : ∀ (it1 it2 : Item) (c : Nat), it1 ∈ st.items → it2 ∈ st.items → it1 ≠ it2 →
    it1.dot = (ga.rhs it1).length → it2.dot = (ga.rhs it2).length →
    ActsOn pm eof it1 c → ActsOn pm eof it2 c → False

/-- phase 1 reports nothing; afterwards every cell is empty or a recorded shift -/
theorem row1_quiet (state : Nat) (st : LRState) (confs : List Conflict) (row0 : List Action)
    (grow0 : List Int) (h0 : ∀ t, cell row0 t = .err) :
    (st.trans.foldl (row1F state) (row0, grow0, confs)).2.2 = confs ∧
    ∀ t, cell (st.trans.foldl (row1F state) (row0, grow0, confs)).1 t = .err ∨
      ∃ j, cell (st.trans.foldl (row1F state) (row0, grow0, confs)).1 t = .shift j ∧
        (Sym.t t, j) ∈ st.trans := by
  apply foldl_inv (fun (acc : List Action × List Int × List Conflict) =>
    acc.2.2 = confs ∧ ∀ t, cell acc.1 t = .err ∨ ∃ j, cell acc.1 t = .shift j ∧ (Sym.t t, j) ∈ st.trans)
  · exact ⟨rfl, fun t => Or.inl (h0 t)⟩
  · intro acc p hp hacc
    obtain ⟨X, j⟩ := p
    obtain ⟨h1, h2⟩ := hacc
    cases X with
    | eps => exact ⟨h1, h2⟩
    | n k => exact ⟨h1, h2⟩
    | t i =>
      have hrow : (row1F state acc (Sym.t i, j)).1 = acc.1.set i (.shift j) ∧
          (row1F state acc (Sym.t i, j)).2.2 = acc.2.2 := by
        simp only [row1F, placeShift]
        have hi := h2 i
        simp only [cell] at hi
        rcases hi with hi | ⟨j', hi, _⟩ <;> rw [hi] <;> simp [setCell]
      rw [hrow.1, hrow.2]
      refine ⟨h1, ?_⟩
      intro t
      rw [cell_set]
      split
      · rename_i hit
        right
        exact ⟨j, rfl, by rw [← hit.1]; exact hp⟩
      · exact h2 t

/-- a run of placements on distinct, free columns reports nothing and only fills those columns -/
theorem pl_quiet (state : Nat) : ∀ (pl : List (Nat × Action)) (acc : List Action × List Conflict),
    (pl.map (·.1)).Nodup → (∀ p ∈ pl, isHard (cell acc.1 p.1) = false) →
    (pl.foldl (plF state) acc).2 = acc.2 ∧
    ∀ t, cell (pl.foldl (plF state) acc).1 t = cell acc.1 t ∨
      ∃ a, (t, a) ∈ pl ∧ cell (pl.foldl (plF state) acc).1 t = a := by
  intro pl
  induction pl with
  | nil => intro acc _ _; exact ⟨rfl, fun t => Or.inl rfl⟩
  | cons p ps ih =>
    intro acc hnd hfree
    rw [List.foldl_cons]
    simp only [List.map_cons, List.nodup_cons] at hnd
    rcases plF_cases state acc p with ⟨h0, _, _⟩ | ⟨_, h1, h2⟩
    · rw [hfree p (by simp)] at h0; cases h0
    · have hfree' : ∀ q ∈ ps, isHard (cell (plF state acc p).1 q.1) = false := by
        intro q hq
        rw [h1, cell_set]
        have hne : p.1 ≠ q.1 := by
          intro h
          apply hnd.1
          rw [h]
          exact List.mem_map.mpr ⟨q, hq, rfl⟩
        simp only [hne, false_and, if_false]
        exact hfree q (by simp [hq])
      obtain ⟨i1, i2⟩ := ih (plF state acc p) hnd.2 hfree'
      refine ⟨by rw [i1, h2], ?_⟩
      intro t
      rcases i2 t with h | ⟨a, ha, h⟩
      · rw [h, h1, cell_set]
        split
        · rename_i hpt
          right
          exact ⟨p.2, by rw [← hpt.1]; simp, rfl⟩
        · exact Or.inl rfl
      · exact Or.inr ⟨a, by simp [ha], h⟩

theorem itemPl_mem (ga : Grammar) (pm : Bool) (eof width : Nat) (it : Item) (p : Nat × Action)
    (hp : p ∈ itemPl ga pm eof width it) :
    it.dot = (ga.rhs it).length ∧ ActsOn pm eof it p.1 := by
  simp only [itemPl] at hp
  split at hp
  · cases hp
  · rename_i hd
    have hd' : it.dot = (ga.rhs it).length := by simpa using hd
    refine ⟨hd', ?_⟩
    split at hp
    · rename_i hpm
      exact Or.inr ⟨hpm.1, by simpa using hpm.2⟩
    · simp only [List.mem_singleton] at hp
      subst hp
      exact Or.inl rfl

theorem itemPl_nodup (ga : Grammar) (pm : Bool) (eof width : Nat) (it : Item) :
    ((itemPl ga pm eof width it).map (·.1)).Nodup := by
  simp only [itemPl]
  split
  · simp
  · split
    · rw [List.map_map]
      have : ((fun (x : Nat × Action) => x.1) ∘ fun t => (t, actOf ga it)) = id := by
        funext t; rfl
      rw [this, List.map_id]
      exact List.nodup_range
    · simp

/-- the cells of a row while the complete items are being placed -/
def CellInv (ga : Grammar) (pm : Bool) (eof : Nat) (st : LRState) (done : List Item) (row : List Action) :
    Prop :=
  ∀ t, cell row t = .err ∨ cell row t = .accept ∨
    (∃ j, cell row t = .shift j ∧ (Sym.t t, j) ∈ st.trans) ∨
    (∃ l a b, cell row t = .reduce l a b ∧
      ∃ it ∈ done, it.dot = (ga.rhs it).length ∧ ActsOn pm eof it t)

theorem row2_quiet (ga : Grammar) (pm : Bool) (eof width state : Nat) (st : LRState)
    (hnc : NoClash ga pm eof st) (hnd : st.items.Nodup) (confs : List Conflict) :
    ∀ (rest done : List Item) (acc : List Action × List Conflict), done ++ rest = st.items →
      acc.2 = confs → CellInv ga pm eof st done acc.1 →
      (rest.foldl (row2F ga pm eof width state) acc).2 = confs := by
  intro rest
  induction rest with
  | nil => intro done acc _ h _; exact h
  | cons it rest ih =>
    intro done acc hsplit hconf hinv
    rw [List.foldl_cons]
    have hit : it ∈ st.items := by rw [← hsplit]; simp
    have hdone : ∀ x ∈ done, x ∈ st.items ∧ x ≠ it := by
      intro x hx
      refine ⟨by rw [← hsplit]; simp [hx], ?_⟩
      rw [← hsplit, List.nodup_append] at hnd
      exact hnd.2.2 x hx it (by simp)
    apply ih (done ++ [it]) _ (by rw [← hsplit]; simp)
    · rw [row2F_eq]
      have hfree : ∀ p ∈ itemPl ga pm eof width it, isHard (cell acc.1 p.1) = false := by
        intro p hp
        obtain ⟨hd, hact⟩ := itemPl_mem ga pm eof width it p hp
        rcases hinv p.1 with h | h | ⟨j, h, hj⟩ | ⟨l, a, b, h, it1, hit1, hd1, hact1⟩
        · rw [h]; rfl
        · rw [h]; rfl
        · exact absurd (hnc.sr p.1 j it hj hit hd hact) id
        · exact absurd (hnc.rr it1 it p.1 (hdone it1 hit1).1 hit (hdone it1 hit1).2 hd1 hd hact1 hact) id
      rw [(pl_quiet state _ acc (itemPl_nodup ga pm eof width it) hfree).1, hconf]
    · rw [row2F_eq]
      have hfree : ∀ p ∈ itemPl ga pm eof width it, isHard (cell acc.1 p.1) = false := by
        intro p hp
        obtain ⟨hd, hact⟩ := itemPl_mem ga pm eof width it p hp
        rcases hinv p.1 with h | h | ⟨j, h, hj⟩ | ⟨l, a, b, h, it1, hit1, hd1, hact1⟩
        · rw [h]; rfl
        · rw [h]; rfl
        · exact absurd (hnc.sr p.1 j it hj hit hd hact) id
        · exact absurd (hnc.rr it1 it p.1 (hdone it1 hit1).1 hit (hdone it1 hit1).2 hd1 hd hact1 hact) id
      have h2 := (pl_quiet state _ acc (itemPl_nodup ga pm eof width it) hfree).2
      intro t
      rcases h2 t with h | ⟨a, ha, h⟩
      · rw [h]
        rcases hinv t with h' | h' | h' | ⟨l, a, b, h', it1, hit1, hd1, hact1⟩
        · exact Or.inl h'
        · exact Or.inr (Or.inl h')
        · exact Or.inr (Or.inr (Or.inl h'))
        · exact Or.inr (Or.inr (Or.inr ⟨l, a, b, h', it1, by simp [hit1], hd1, hact1⟩))
      · obtain ⟨hd, hact⟩ := itemPl_mem ga pm eof width it (t, a) ha
        have hact' : a = actOf ga it := itemPl_act ga pm eof width it (t, a) ha
        rw [h, hact']
        simp only [actOf]
        split
        · exact Or.inr (Or.inl rfl)
        · exact Or.inr (Or.inr (Or.inr ⟨_, _, _, rfl, it, by simp, hd, hact⟩))

theorem fillRow_quiet (ga : Grammar) (pm : Bool) (eof width state : Nat) (st : LRState)
    (hnc : NoClash ga pm eof st) (hnd : st.items.Nodup) (confs : List Conflict) :
    (fillRow ga pm eof width state st confs).2.2 = confs := by
  rw [fillRow_eq]
  simp only []
  obtain ⟨h1, h2⟩ := row1_quiet state st confs (List.replicate width .err)
    (List.replicate ga.numNT (-1)) (cell_replicate width)
  apply row2_quiet ga pm eof width state st hnc hnd confs st.items [] _ rfl h1
  intro t
  rcases h2 t with h | h
  · exact Or.inl h
  · exact Or.inr (Or.inr (Or.inl h))

/-! ## all rows -/

theorem genTables_quiet (g : Grammar) (start eof : Nat) (pm : Bool) (fuel : Nat)
    (h : ∀ (q : Nat) (st : LRState),
      (collection (g.augment start eof) (firstSets (g.augment start eof)) g.numNT eof fuel)[q]? = some st →
      NoClash (g.augment start eof) pm eof st ∧ st.items.Nodup) :
    (genTables g start eof pm fuel).1.conflicts = [] := by
  rw [genTables_eq]
  simp only []
  apply foldl_inv (fun (acc : List (List Action) × List (List Int) × List Conflict) => acc.2.2 = [])
  · rfl
  · intro acc p hp hacc
    have hq := List.mem_zipIdx_iff_getElem?.mp hp
    obtain ⟨hnc, hnd⟩ := h p.2 p.1 hq
    simp only [rowsF]
    rw [fillRow_quiet _ pm eof _ p.2 p.1 hnc hnd, hacc]

end LRConverse
end Theo
