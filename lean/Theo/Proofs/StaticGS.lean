/-
  C04 (static rules), part 1: the generator's primitives as far as the verdict depends on them.
  `Quiet gs gs'` = nothing the verdict depends on changed (errors may only have grown, code only
  changed at positions that hold no jump); the label/mark bookkeeping (`MarksWF`, `mstate`,
  `LabAcc`, `TodoOK`) and what `markLabel`, `setLabel`, `createLabel`, `popSymbols`, `backpatch`
  do to it.
-/
import Theo.Spec.Static

namespace Theo
namespace Static
open GS

/-! ### generic list facts -/

theorem find?_mem_fst {α β : Type} [DecidableEq α] {l : List (α × β)} {a : α} {e : α × β}
    (h : l.find? (fun e => e.1 = a) = some e) : e ∈ l ∧ e.1 = a := by
  have h1 := List.mem_of_find?_eq_some h
  have h2 := List.find?_some h
  exact ⟨h1, by simpa using h2⟩

theorem find?_none_fst {α β : Type} [DecidableEq α] {l : List (α × β)} {a : α}
    (h : l.find? (fun e => e.1 = a) = none) : ∀ e ∈ l, e.1 ≠ a := by
  intro e he
  have := List.find?_eq_none.1 h e he
  simpa using this

theorem find?_of_nodup {α β : Type} [DecidableEq α] : ∀ {l : List (α × β)}, (l.map (·.1)).Nodup →
    ∀ {e : α × β}, e ∈ l → l.find? (fun x => x.1 = e.1) = some e
  | [], _, _, h => by cases h
  | x :: xs, hn, e, h => by
    rw [List.map_cons, List.nodup_cons] at hn
    rcases List.mem_cons.1 h with rfl | h
    · simp
    · have hne : x.1 ≠ e.1 := by
        intro heq
        exact hn.1 (heq ▸ List.mem_map_of_mem (f := (·.1)) h)
      rw [List.find?_cons_of_neg (by simpa using hne)]
      exact find?_of_nodup hn.2 h

theorem nodup_snd {α β : Type} : ∀ {l : List (α × β)}, (l.map (·.2)).Nodup →
    ∀ {a a' : α} {b : β}, (a, b) ∈ l → (a', b) ∈ l → a = a'
  | [], _, _, _, _, h, _ => by cases h
  | x :: xs, hn, a, a', b, h1, h2 => by
    rw [List.map_cons, List.nodup_cons] at hn
    rcases List.mem_cons.1 h1 with e1 | h1 <;> rcases List.mem_cons.1 h2 with e2 | h2
    · have := e1.trans e2.symm
      exact (Prod.mk.inj this).1
    · exact absurd (List.mem_map_of_mem (f := (·.2)) h2) (by rw [← e1] at hn; exact hn.1)
    · exact absurd (List.mem_map_of_mem (f := (·.2)) h1) (by rw [← e2] at hn; exact hn.1)
    · exact nodup_snd hn.2 h1 h2

theorem bytesLt_tri' : ∀ a b : Bytes, bytesLt a b = false → bytesLt b a = false → a = b := by
  intro a
  induction a with
  | nil => intro b h1 _; cases b with
    | nil => rfl
    | cons y ys => simp [bytesLt] at h1
  | cons x xs ih =>
    intro b h1 h2
    cases b with
    | nil => simp [bytesLt] at h2
    | cons y ys =>
      unfold bytesLt at h1 h2
      by_cases hxy : x < y
      · rw [if_pos hxy] at h1; cases h1
      · by_cases hyx : y < x
        · rw [if_pos hyx] at h2; cases h2
        · rw [if_neg hxy, if_neg hyx] at h1
          rw [if_neg hyx, if_neg hxy] at h2
          have e : x = y := UInt8.le_antisymm (UInt8.not_lt.1 hyx) (UInt8.not_lt.1 hxy)
          rw [e, ih ys h1 h2]

/-- inserting a key that is not present permutes `x :: l` -/
theorem sortedInsert_perm (x : Bytes × Nat) : ∀ (l : List (Bytes × Nat)), (∀ e ∈ l, e.1 ≠ x.1) →
    (sortedInsert markLt false x l).Perm (x :: l)
  | [], _ => by simp [sortedInsert]
  | y :: ys, h => by
    unfold sortedInsert
    by_cases h1 : markLt x y = true
    · rw [if_pos h1]
    · rw [if_neg h1]
      by_cases h2 : markLt y x = true
      · rw [if_pos h2]
        have ih := sortedInsert_perm x ys (fun e he => h e (List.mem_cons_of_mem _ he))
        exact (List.Perm.cons y ih).trans (List.Perm.swap x y ys)
      · exfalso
        have : y.1 = x.1 := (bytesLt_tri' x.1 y.1 (by simpa [markLt] using h1) (by simpa [markLt] using h2)).symm
        exact h y (List.mem_cons_self) this

/-! ### fields of the primitives -/

@[simp] theorem err_errors (gs : GS) (k : Nat) : (gs.err k).errors = gs.errors ++ [⟨k, gs.fsName, gs.fsLine⟩] := rfl
@[simp] theorem err_funcAddrs (gs : GS) (k : Nat) : (gs.err k).funcAddrs = gs.funcAddrs := rfl
@[simp] theorem err_labels (gs : GS) (k : Nat) : (gs.err k).labels = gs.labels := rfl
@[simp] theorem err_todo (gs : GS) (k : Nat) : (gs.err k).todo = gs.todo := rfl
@[simp] theorem err_code (gs : GS) (k : Nat) : (gs.err k).code = gs.code := rfl
@[simp] theorem err_symbols (gs : GS) (k : Nat) : (gs.err k).symbols = gs.symbols := rfl
@[simp] theorem err_top (gs : GS) (k : Nat) : (gs.err k).top = gs.top := rfl

theorem err_ne_nil (gs : GS) (k : Nat) : (gs.err k).errors ≠ [] := by simp

@[simp] theorem emit_errors (gs : GS) (i : Instr) : (gs.emit i).errors = gs.errors := rfl
@[simp] theorem emit_funcAddrs (gs : GS) (i : Instr) : (gs.emit i).funcAddrs = gs.funcAddrs := rfl
@[simp] theorem emit_labels (gs : GS) (i : Instr) : (gs.emit i).labels = gs.labels := rfl
@[simp] theorem emit_todo (gs : GS) (i : Instr) : (gs.emit i).todo = gs.todo := rfl
@[simp] theorem emit_code (gs : GS) (i : Instr) : (gs.emit i).code = gs.code ++ [i] := rfl
@[simp] theorem emit_symbols (gs : GS) (i : Instr) : (gs.emit i).symbols = gs.symbols := rfl
@[simp] theorem emit_top (gs : GS) (i : Instr) : (gs.emit i).top = gs.top := rfl

@[simp] theorem setTop_top (gs : GS) (f : FGS) : (gs.setTop f).top = f := rfl
@[simp] theorem setTop_drop (gs : GS) (f : FGS) : (gs.setTop f).symbols.drop 1 = gs.symbols.drop 1 := rfl
@[simp] theorem setTop_errors (gs : GS) (f : FGS) : (gs.setTop f).errors = gs.errors := rfl
@[simp] theorem setTop_funcAddrs (gs : GS) (f : FGS) : (gs.setTop f).funcAddrs = gs.funcAddrs := rfl
@[simp] theorem setTop_labels (gs : GS) (f : FGS) : (gs.setTop f).labels = gs.labels := rfl
@[simp] theorem setTop_todo (gs : GS) (f : FGS) : (gs.setTop f).todo = gs.todo := rfl
@[simp] theorem setTop_code (gs : GS) (f : FGS) : (gs.setTop f).code = gs.code := rfl

/-- code changes that keep every non-site instruction where it is -/
def CodeSafe (c c' : List Instr) : Prop :=
  ∀ (loc : Nat) (i : Instr), c[loc]? = some i → i ≠ Instr.potBreak → c'[loc]? = some i

theorem CodeSafe.refl (c : List Instr) : CodeSafe c c := fun _ _ h _ => h
theorem CodeSafe.trans {a b c : List Instr} (h1 : CodeSafe a b) (h2 : CodeSafe b c) : CodeSafe a c :=
  fun loc i h hn => h2 loc i (h1 loc i h hn) hn
theorem CodeSafe.append (c : List Instr) (x : List Instr) : CodeSafe c (c ++ x) := by
  intro loc i h _
  have hl : loc < c.length := (List.getElem?_eq_some_iff.1 h).1
  rw [List.getElem?_append_left hl]; exact h
theorem CodeSafe.dropLast (c : List Instr) (h : c.getLast? = some Instr.potBreak) : CodeSafe c c.dropLast := by
  intro loc i hi hn
  obtain ⟨hl, hv⟩ := List.getElem?_eq_some_iff.1 hi
  have hne : loc ≠ c.length - 1 := by
    intro he
    subst he
    rw [List.getLast?_eq_getElem?] at h
    rw [h] at hi
    exact hn (Option.some.inj hi).symm
  rw [List.getElem?_dropLast]
  rw [if_pos (by omega)]
  exact hi

/-! ### the bookkeeping the verdict depends on -/

/-- label `l` has a position -/
def isSetB (gs : GS) (l : Nat) : Bool := (gs.labels[l]?).getD (-1) != -1
def isSet (gs : GS) (l : Nat) : Prop := (gs.labels[l]?).getD (-1) ≠ -1
theorem isSetB_iff (gs : GS) (l : Nat) : isSetB gs l = true ↔ isSet gs l := by
  unfold isSetB isSet; simp

/-- label of mark `m` in the current function -/
def mlab (gs : GS) (m : Bytes) : Option Nat := (gs.top.marks.find? (fun e => e.1 = m)).map (·.2)

/-- `none`: never mentioned; `some false`: jumped to, not (yet) defined; `some true`: defined -/
def mstate (gs : GS) (m : Bytes) : Option Bool := (mlab gs m).map (isSetB gs)

structure MarksWF (gs : GS) : Prop where
  keys : (gs.top.marks.map (·.1)).Nodup
  vals : (gs.top.marks.map (·.2)).Nodup
  lt : ∀ e ∈ gs.top.marks, e.2 < gs.labels.length

/-- every label is set, or excused by `P`, or the label of a mark of the current function
    (as long as no error was recorded) -/
def LabAcc (P : Nat → Prop) (gs : GS) : Prop :=
  gs.errors = [] → ∀ l, l < gs.labels.length → isSet gs l ∨ P l ∨ ∃ e ∈ gs.top.marks, e.2 = l

def IsJump (o : Option Instr) (lab : Nat) : Prop :=
  o = some (Instr.jmp (lab : Int)) ∨ ∃ s, o = some (Instr.jmpc (lab : Int) s)

/-- the backpatch list: distinct positions, each holding a jump to an existing label -/
structure TodoOK (gs : GS) : Prop where
  nodup : gs.todo.Nodup
  jumps : ∀ loc ∈ gs.todo, ∃ lab : Nat, lab < gs.labels.length ∧ IsJump gs.code[loc]? lab

theorem IsJump.safe {c c' : List Instr} (h : CodeSafe c c') {loc lab : Nat} (hj : IsJump c[loc]? lab) :
    IsJump c'[loc]? lab := by
  rcases hj with hj | ⟨s, hj⟩
  · exact Or.inl (h loc _ hj (by intro h; cases h))
  · exact Or.inr ⟨s, h loc _ hj (by intro h; cases h)⟩

theorem TodoOK.safe {gs gs' : GS} (ht : gs'.todo = gs.todo) (hl : gs.labels.length ≤ gs'.labels.length)
    (hc : CodeSafe gs.code gs'.code) (h : TodoOK gs) : TodoOK gs' := by
  refine ⟨ht ▸ h.nodup, ?_⟩
  intro loc hloc
  rw [ht] at hloc
  obtain ⟨lab, h1, h2⟩ := h.jumps loc hloc
  exact ⟨lab, by omega, h2.safe hc⟩

/-- nothing the verdict depends on changed, except that errors may have been added -/
structure Quiet (gs gs' : GS) : Prop where
  errs : gs'.errors = [] → gs.errors = []
  funcAddrs : gs'.funcAddrs = gs.funcAddrs
  labels : gs'.labels = gs.labels
  marks : gs'.top.marks = gs.top.marks
  name : gs'.top.name = gs.top.name
  argnum : gs'.top.argnum = gs.top.argnum
  outer : gs'.symbols.drop 1 = gs.symbols.drop 1
  todoOK : TodoOK gs → TodoOK gs'

theorem Quiet.refl (gs : GS) : Quiet gs gs :=
  ⟨id, rfl, rfl, rfl, rfl, rfl, rfl, TodoOK.safe rfl (Nat.le_refl _) (CodeSafe.refl _)⟩
theorem Quiet.trans {a b c : GS} (h1 : Quiet a b) (h2 : Quiet b c) : Quiet a c :=
  ⟨fun h => h1.errs (h2.errs h), h2.funcAddrs.trans h1.funcAddrs, h2.labels.trans h1.labels,
   h2.marks.trans h1.marks, h2.name.trans h1.name, h2.argnum.trans h1.argnum,
   h2.outer.trans h1.outer, fun h => h2.todoOK (h1.todoOK h)⟩

theorem quiet_err (gs : GS) (k : Nat) : Quiet gs (gs.err k) :=
  ⟨fun h => absurd h (err_ne_nil gs k), rfl, rfl, rfl, rfl, rfl, rfl, TodoOK.safe rfl (Nat.le_refl _) (CodeSafe.refl _)⟩
theorem quiet_emit (gs : GS) (i : Instr) : Quiet gs (gs.emit i) :=
  ⟨id, rfl, rfl, rfl, rfl, rfl, rfl, TodoOK.safe rfl (Nat.le_refl _) (CodeSafe.append _ _)⟩

@[simp] theorem breakpoint_errors (gs : GS) : gs.breakpoint.errors = gs.errors := rfl
theorem quiet_breakpoint (gs : GS) : Quiet gs gs.breakpoint :=
  ⟨id, rfl, rfl, rfl, rfl, rfl, rfl, TodoOK.safe rfl (Nat.le_refl _) (CodeSafe.append _ _)⟩

@[simp] theorem removeTopPotBreak_errors (gs : GS) : gs.removeTopPotBreak.errors = gs.errors := by
  unfold removeTopPotBreak; split
  · dsimp only; split <;> rfl
  · rfl
theorem quiet_removeTopPotBreak (gs : GS) : Quiet gs gs.removeTopPotBreak := by
  unfold removeTopPotBreak
  split
  · rename_i h
    have hl : gs.code.getLast? = some Instr.potBreak := by simpa [lastIsSite] using h
    dsimp only
    split
    · exact ⟨id, rfl, rfl, rfl, rfl, rfl, rfl, TodoOK.safe rfl (Nat.le_refl _) (CodeSafe.dropLast _ hl)⟩
    · exact ⟨id, rfl, rfl, rfl, rfl, rfl, rfl, TodoOK.safe rfl (Nat.le_refl _) (CodeSafe.dropLast _ hl)⟩
  · exact Quiet.refl _

theorem quiet_setpos_bp (g : GS) (file : Bytes) (l1 : Int) (f2 : Bytes) :
    Quiet g (({ g with fsName := f2, fsLine := l1 } : GS).breakpoint) ∧
    (({ g with fsName := f2, fsLine := l1 } : GS).breakpoint).errors = g.errors :=
  have _ := file
  ⟨⟨id, rfl, rfl, rfl, rfl, rfl, rfl, TodoOK.safe rfl (Nat.le_refl _) (CodeSafe.append _ _)⟩, rfl⟩

theorem advanceLine_spec (gs : GS) (line : Int) (file : Bytes) :
    Quiet gs (gs.advanceLine line file) ∧ (gs.advanceLine line file).errors = gs.errors := by
  unfold advanceLine
  split
  · exact ⟨Quiet.refl _, rfl⟩
  · dsimp only
    by_cases hc : gs.fsName = file ∧ line ≠ gs.fsLine
    · simp only [if_pos hc]
      have h1 := quiet_setpos_bp gs file line gs.fsName
      split
      · have h2 := quiet_setpos_bp (({ gs with fsLine := line } : GS).breakpoint) file line file
        exact ⟨h1.1.trans h2.1, h2.2.trans h1.2⟩
      · exact h1
    · simp only [if_neg hc]
      split
      · exact quiet_setpos_bp gs file line file
      · exact ⟨Quiet.refl _, rfl⟩

@[simp] theorem advanceLine_errors (gs : GS) (line : Int) (file : Bytes) :
    (gs.advanceLine line file).errors = gs.errors := (advanceLine_spec gs line file).2
theorem quiet_advanceLine (gs : GS) (line : Int) (file : Bytes) : Quiet gs (gs.advanceLine line file) :=
  (advanceLine_spec gs line file).1

@[simp] theorem fetchTemporary_errors (gs : GS) : gs.fetchTemporary.1.errors = gs.errors := by
  unfold fetchTemporary; dsimp only; split <;> rfl
theorem quiet_fetchTemporary (gs : GS) : Quiet gs gs.fetchTemporary.1 := by
  unfold fetchTemporary
  dsimp only
  split <;> exact ⟨id, rfl, rfl, rfl, rfl, rfl, rfl, TodoOK.safe rfl (Nat.le_refl _) (CodeSafe.refl _)⟩

@[simp] theorem releaseTemporary_errors (gs : GS) (i : Int) : (gs.releaseTemporary i).errors = gs.errors := rfl
theorem quiet_releaseTemporary (gs : GS) (i : Int) : Quiet gs (gs.releaseTemporary i) :=
  ⟨id, rfl, rfl, rfl, rfl, rfl, rfl, TodoOK.safe rfl (Nat.le_refl _) (CodeSafe.refl _)⟩

@[simp] theorem fetchVar_errors (gs : GS) (n : Bytes) : (gs.fetchVar n).1.errors = gs.errors := by
  unfold fetchVar; dsimp only; split <;> rfl
theorem quiet_fetchVar (gs : GS) (n : Bytes) : Quiet gs (gs.fetchVar n).1 := by
  unfold fetchVar
  dsimp only
  split
  · exact Quiet.refl _
  · exact ⟨id, rfl, rfl, rfl, rfl, rfl, rfl, TodoOK.safe rfl (Nat.le_refl _) (CodeSafe.refl _)⟩

/-! ### transfer along `Quiet` -/

theorem isSet_congr {gs gs' : GS} (h : gs'.labels = gs.labels) (l : Nat) : isSet gs' l ↔ isSet gs l := by
  unfold isSet; rw [h]
theorem mlab_congr {gs gs' : GS} (h : gs'.top.marks = gs.top.marks) (m : Bytes) : mlab gs' m = mlab gs m := by
  unfold mlab; rw [h]
theorem mstate_eq_of {gs gs' : GS} {m : Bytes} (h1 : mlab gs' m = mlab gs m)
    (h2 : ∀ l, mlab gs m = some l → (isSet gs' l ↔ isSet gs l)) : mstate gs' m = mstate gs m := by
  unfold mstate
  rw [h1]
  cases hm : mlab gs m with
  | none => rfl
  | some l =>
    simp only [Option.map_some]; congr 1
    rw [Bool.eq_iff_iff, isSetB_iff, isSetB_iff]
    exact h2 l hm
theorem mstate_congr {gs gs' : GS} (hl : gs'.labels = gs.labels) (h : gs'.top.marks = gs.top.marks) (m : Bytes) :
    mstate gs' m = mstate gs m :=
  mstate_eq_of (mlab_congr h m) (fun l _ => isSet_congr hl l)
theorem MarksWF.congr {gs gs' : GS} (hl : gs.labels.length ≤ gs'.labels.length) (h : gs'.top.marks = gs.top.marks)
    (w : MarksWF gs) : MarksWF gs' :=
  ⟨h ▸ w.keys, h ▸ w.vals, fun e he => Nat.lt_of_lt_of_le (w.lt e (h ▸ he)) hl⟩
theorem LabAcc.congr {P : Nat → Prop} {gs gs' : GS} (he : gs'.errors = [] → gs.errors = [])
    (hl : gs'.labels = gs.labels) (h : gs'.top.marks = gs.top.marks) (a : LabAcc P gs) : LabAcc P gs' := by
  intro h0 l hlt
  rw [hl] at hlt
  rcases a (he h0) l hlt with h1 | h1 | h1
  · exact Or.inl ((isSet_congr hl l).2 h1)
  · exact Or.inr (Or.inl h1)
  · exact Or.inr (Or.inr (h ▸ h1))
theorem LabAcc.mono {P Q : Nat → Prop} {gs : GS} (hpq : ∀ l, P l → Q l) (a : LabAcc P gs) : LabAcc Q gs := by
  intro h0 l hlt
  rcases a h0 l hlt with h1 | h1 | h1
  · exact Or.inl h1
  · exact Or.inr (Or.inl (hpq l h1))
  · exact Or.inr (Or.inr h1)

theorem Quiet.mstate {gs gs' : GS} (q : Quiet gs gs') (m : Bytes) : mstate gs' m = mstate gs m :=
  mstate_congr q.labels q.marks m
theorem Quiet.wf {gs gs' : GS} (q : Quiet gs gs') (w : MarksWF gs) : MarksWF gs' :=
  w.congr (by rw [q.labels]; exact Nat.le_refl _) q.marks
theorem Quiet.acc {gs gs' : GS} (q : Quiet gs gs') {P : Nat → Prop} (a : LabAcc P gs) : LabAcc P gs' :=
  a.congr q.errs q.labels q.marks

/-- the arity table: what a call can see -/
def look (gs : GS) (f : Bytes) : Option Nat := (gs.lookupFunc f).map (·.argnum)

theorem look_congr {gs gs' : GS} (h : gs'.funcAddrs = gs.funcAddrs) (f : Bytes) : look gs' f = look gs f := by
  unfold look lookupFunc; rw [h]

/-! ### labels -/

theorem nextPos_ne (gs : GS) : gs.nextPos ≠ -1 := by unfold nextPos; omega
theorem markPos_ne (gs : GS) : gs.markPos ≠ -1 := by
  unfold markPos nextPos
  split
  · rename_i h
    have : gs.code ≠ [] := by
      intro h0; simp [lastIsSite, h0] at h
    have := List.length_pos_iff.2 this
    omega
  · omega

theorem createLabel_fst (gs : GS) : gs.createLabel.1 = { gs with labels := gs.labels ++ [-1] } := rfl
@[simp] theorem createLabel_snd (gs : GS) : gs.createLabel.2 = gs.labels.length := rfl
@[simp] theorem createLabel_errors (gs : GS) : gs.createLabel.1.errors = gs.errors := rfl
@[simp] theorem createLabel_funcAddrs (gs : GS) : gs.createLabel.1.funcAddrs = gs.funcAddrs := rfl
@[simp] theorem createLabel_symbols (gs : GS) : gs.createLabel.1.symbols = gs.symbols := rfl
@[simp] theorem createLabel_top (gs : GS) : gs.createLabel.1.top = gs.top := rfl
@[simp] theorem createLabel_todo (gs : GS) : gs.createLabel.1.todo = gs.todo := rfl
@[simp] theorem createLabel_code (gs : GS) : gs.createLabel.1.code = gs.code := rfl
@[simp] theorem createLabel_labels (gs : GS) : gs.createLabel.1.labels = gs.labels ++ [-1] := rfl

theorem createLabel_isSet (gs : GS) (l : Nat) : isSet gs.createLabel.1 l ↔ isSet gs l := by
  unfold isSet
  rw [createLabel_labels]
  by_cases h : l < gs.labels.length
  · rw [List.getElem?_append_left h]
  · have h' : gs.labels.length ≤ l := Nat.le_of_not_lt h
    rw [List.getElem?_append_right h', List.getElem?_eq_none h']
    by_cases h2 : l - gs.labels.length = 0
    · rw [h2]; simp
    · rw [List.getElem?_eq_none (by simp; omega)]

theorem createLabel_mstate (gs : GS) (m : Bytes) : mstate gs.createLabel.1 m = mstate gs m :=
  mstate_eq_of (mlab_congr rfl m) (fun l _ => createLabel_isSet gs l)

theorem createLabel_wf (gs : GS) (w : MarksWF gs) : MarksWF gs.createLabel.1 :=
  MarksWF.congr (gs := gs) (by simp) rfl w
theorem createLabel_todoOK (gs : GS) (h : TodoOK gs) : TodoOK gs.createLabel.1 :=
  TodoOK.safe (gs := gs) rfl (by simp) (CodeSafe.refl _) h
theorem createLabel_acc (gs : GS) {P : Nat → Prop} (a : LabAcc P gs) :
    LabAcc (fun l => P l ∨ l = gs.labels.length) gs.createLabel.1 := by
  intro h0 l hlt
  by_cases h : l < gs.labels.length
  · rcases a h0 l h with h1 | h1 | h1
    · exact Or.inl ((createLabel_isSet gs l).2 h1)
    · exact Or.inr (Or.inl (Or.inl h1))
    · exact Or.inr (Or.inr h1)
  · simp at hlt
    exact Or.inr (Or.inl (Or.inr (by omega)))

@[simp] theorem setLabel_errors (gs : GS) (l : Nat) (p : Int) : (gs.setLabel l p).errors = gs.errors := rfl
@[simp] theorem setLabel_funcAddrs (gs : GS) (l : Nat) (p : Int) : (gs.setLabel l p).funcAddrs = gs.funcAddrs := rfl
@[simp] theorem setLabel_symbols (gs : GS) (l : Nat) (p : Int) : (gs.setLabel l p).symbols = gs.symbols := rfl
@[simp] theorem setLabel_top (gs : GS) (l : Nat) (p : Int) : (gs.setLabel l p).top = gs.top := rfl
@[simp] theorem setLabel_todo (gs : GS) (l : Nat) (p : Int) : (gs.setLabel l p).todo = gs.todo := rfl
@[simp] theorem setLabel_code (gs : GS) (l : Nat) (p : Int) : (gs.setLabel l p).code = gs.code := rfl
@[simp] theorem setLabel_labels (gs : GS) (l : Nat) (p : Int) : (gs.setLabel l p).labels = gs.labels.set l p := rfl
theorem setLabel_lablen (gs : GS) (l : Nat) (p : Int) : (gs.setLabel l p).labels.length = gs.labels.length := by simp

theorem setLabel_isSet (gs : GS) (l : Nat) (p : Int) (hp : p ≠ -1) (x : Nat) :
    isSet (gs.setLabel l p) x ↔ (x = l ∧ l < gs.labels.length) ∨ isSet gs x := by
  unfold isSet
  rw [setLabel_labels, List.getElem?_set]
  by_cases hx : l = x
  · subst hx
    rw [if_pos rfl]
    by_cases hl : l < gs.labels.length
    · rw [if_pos hl]; simp [hp, hl]
    · rw [if_neg hl, List.getElem?_eq_none (Nat.le_of_not_lt hl)]; simp; omega
  · rw [if_neg hx]
    have : ¬ x = l := fun h => hx h.symm
    simp [this]

theorem setLabel_wf (gs : GS) (l : Nat) (p : Int) (w : MarksWF gs) : MarksWF (gs.setLabel l p) :=
  MarksWF.congr (gs := gs) (by simp) rfl w
theorem setLabel_todoOK (gs : GS) (l : Nat) (p : Int) (h : TodoOK gs) : TodoOK (gs.setLabel l p) :=
  TodoOK.safe (gs := gs) rfl (by simp) (CodeSafe.refl _) h

theorem setLabel_acc (gs : GS) (l : Nat) (p : Int) (hp : p ≠ -1) {P : Nat → Prop}
    (a : LabAcc (fun x => P x ∨ x = l) gs) : LabAcc P (gs.setLabel l p) := by
  intro h0 x hlt
  rw [setLabel_lablen] at hlt
  rcases a h0 x hlt with h1 | (h1 | h1) | h1
  · exact Or.inl ((setLabel_isSet gs l p hp x).2 (Or.inr h1))
  · exact Or.inr (Or.inl h1)
  · exact Or.inl ((setLabel_isSet gs l p hp x).2 (Or.inl ⟨h1, h1 ▸ hlt⟩))
  · exact Or.inr (Or.inr h1)

theorem setLabel_acc' (gs : GS) (l : Nat) (p : Int) (hp : p ≠ -1) {P : Nat → Prop}
    (a : LabAcc P gs) : LabAcc P (gs.setLabel l p) :=
  setLabel_acc gs l p hp (a.mono (fun _ h => Or.inl h))

theorem mlab_some_mem {gs : GS} {m : Bytes} {l : Nat} (h : mlab gs m = some l) : (m, l) ∈ gs.top.marks := by
  unfold mlab at h
  cases hf : gs.top.marks.find? (fun e => e.1 = m) with
  | none => rw [hf] at h; cases h
  | some e =>
    rw [hf] at h
    obtain ⟨h1, h2⟩ := find?_mem_fst hf
    have h3 : e.2 = l := by simpa using h
    have : e = (m, l) := by rw [← h2, ← h3]
    exact this ▸ h1

theorem mlab_of_mem {gs : GS} (w : MarksWF gs) {m : Bytes} {l : Nat} (h : (m, l) ∈ gs.top.marks) :
    mlab gs m = some l := by
  unfold mlab
  rw [find?_of_nodup w.keys h]; rfl

theorem mlab_none {gs : GS} {m : Bytes} (h : mlab gs m = none) : ∀ e ∈ gs.top.marks, e.1 ≠ m := by
  unfold mlab at h
  cases hf : gs.top.marks.find? (fun e => e.1 = m) with
  | none => exact find?_none_fst hf
  | some e => rw [hf] at h; cases h

/-- setting a label that belongs to no mark of the current function -/
theorem setLabel_mstate_other (gs : GS) (l : Nat) (p : Int) (hp : p ≠ -1)
    (hn : ∀ e ∈ gs.top.marks, e.2 ≠ l) (m : Bytes) : mstate (gs.setLabel l p) m = mstate gs m := by
  refine mstate_eq_of (mlab_congr rfl m) (fun x hx => ?_)
  rw [setLabel_isSet gs l p hp]
  constructor
  · rintro (⟨h1, _⟩ | h1)
    · exact absurd h1 (hn _ (mlab_some_mem hx))
    · exact h1
  · exact Or.inr

/-- setting the label of mark `m` -/
theorem setLabel_mstate_mark (gs : GS) (w : MarksWF gs) (m : Bytes) (l : Nat) (p : Int) (hp : p ≠ -1)
    (hm : (m, l) ∈ gs.top.marks) (m' : Bytes) :
    mstate (gs.setLabel l p) m' = if m' = m then some true else mstate gs m' := by
  have hl : l < gs.labels.length := w.lt _ hm
  by_cases hmm : m' = m
  · subst hmm
    rw [if_pos rfl]
    unfold mstate
    rw [mlab_congr (gs := gs) (gs' := gs.setLabel l p) rfl, mlab_of_mem w hm]
    simp only [Option.map_some]
    congr 1
    exact (isSetB_iff _ _).2 ((setLabel_isSet gs l p hp l).2 (Or.inl ⟨rfl, hl⟩))
  · rw [if_neg hmm]
    refine mstate_eq_of (mlab_congr rfl m') (fun x hx => ?_)
    rw [setLabel_isSet gs l p hp]
    constructor
    · rintro (⟨h1, _⟩ | h1)
      · exfalso
        have h2 := mlab_some_mem hx
        rw [h1] at h2
        exact hmm (nodup_snd w.vals h2 hm)
      · exact h1
    · exact Or.inr

/-! ### `markLabel` -/

structure MLSpec (gs : GS) (m : Bytes) (gs' : GS) (l : Nat) : Prop where
  errors : gs'.errors = gs.errors
  funcAddrs : gs'.funcAddrs = gs.funcAddrs
  todo : gs'.todo = gs.todo
  code : gs'.code = gs.code
  name : gs'.top.name = gs.top.name
  argnum : gs'.top.argnum = gs.top.argnum
  outer : gs'.symbols.drop 1 = gs.symbols.drop 1
  lablen : gs.labels.length ≤ gs'.labels.length
  mem : (m, l) ∈ gs'.top.marks
  ext : ∀ e ∈ gs.top.marks, e ∈ gs'.top.marks
  new : ∀ e ∈ gs'.top.marks, e ∈ gs.top.marks ∨ gs.labels.length ≤ e.2
  isSet : ∀ x, isSet gs' x ↔ isSet gs x
  wf : MarksWF gs → MarksWF gs'
  acc : ∀ P : Nat → Prop, LabAcc P gs → LabAcc P gs'
  mstate : MarksWF gs → ∀ m', mstate gs' m' = if m' = m then some ((mstate gs m).getD false) else mstate gs m'

theorem markLabel_spec (gs : GS) (m : Bytes) : MLSpec gs m (gs.markLabel m).1 (gs.markLabel m).2 := by
  unfold markLabel
  cases hf : gs.top.marks.find? (fun e => e.1 = m) with
  | some e =>
    dsimp only
    obtain ⟨he, hem⟩ := find?_mem_fst hf
    have hme : (m, e.2) = e := by rw [← hem]
    refine ⟨rfl, rfl, rfl, rfl, rfl, rfl, rfl, Nat.le_refl _, hme ▸ he, fun _ h => h, fun _ h => Or.inl h,
      fun _ => Iff.rfl, id, fun _ h => h, ?_⟩
    intro _ m'
    by_cases hmm : m' = m
    · subst hmm
      rw [if_pos rfl]
      have : mlab gs m' = some e.2 := by unfold mlab; rw [hf]; rfl
      unfold mstate; rw [this]; rfl
    · rw [if_neg hmm]
  | none =>
    dsimp only
    have hnone := find?_none_fst hf
    have hperm := sortedInsert_perm (m, gs.labels.length) gs.top.marks (fun e he => hnone e he)
    -- abbreviations
    generalize hg : (gs.createLabel.1.setTop
      { gs.createLabel.1.top with marks := sortedInsert markLt false (m, gs.createLabel.2) gs.createLabel.1.top.marks }) = gs'
    have hmarks : gs'.top.marks = sortedInsert markLt false (m, gs.labels.length) gs.top.marks := by rw [← hg]; rfl
    have hlabels : gs'.labels = gs.labels ++ [-1] := by rw [← hg]; rfl
    have hmem : ∀ e, e ∈ gs'.top.marks ↔ e = (m, gs.labels.length) ∨ e ∈ gs.top.marks := by
      intro e; rw [hmarks, hperm.mem_iff, List.mem_cons]
    have hset : ∀ x, isSet gs' x ↔ isSet gs x := by
      intro x
      rw [isSet_congr (gs := gs.createLabel.1) (by rw [hlabels]; rfl), createLabel_isSet]
    have hwf : MarksWF gs → MarksWF gs' := by
      intro w
      refine ⟨?_, ?_, ?_⟩
      · rw [hmarks, (hperm.map _).nodup_iff, List.map_cons, List.nodup_cons]
        refine ⟨?_, w.keys⟩
        intro hin
        obtain ⟨e, he, hem⟩ := List.mem_map.1 hin
        exact hnone e he hem
      · rw [hmarks, (hperm.map _).nodup_iff, List.map_cons, List.nodup_cons]
        refine ⟨?_, w.vals⟩
        intro hin
        obtain ⟨e, he, hem⟩ := List.mem_map.1 hin
        have := w.lt e he
        simp only at hem
        omega
      · intro e he
        rw [hlabels, List.length_append]
        rcases (hmem e).1 he with rfl | he
        · simp
        · have := w.lt e he; simp; omega
    have hml : mlab gs m = none := by unfold mlab; rw [hf]; rfl
    refine ⟨by rw [← hg]; rfl, by rw [← hg]; rfl, by rw [← hg]; rfl, by rw [← hg]; rfl, by rw [← hg]; rfl,
      by rw [← hg]; rfl, by rw [← hg]; rfl, by rw [hlabels]; simp, (hmem _).2 (Or.inl rfl),
      fun e he => (hmem e).2 (Or.inr he), ?_, hset, hwf, ?_, ?_⟩
    · intro e he
      rcases (hmem e).1 he with rfl | he
      · exact Or.inr (Nat.le_refl _)
      · exact Or.inl he
    · intro P a h0 l hlt
      have h0' : gs.errors = [] := by rw [← hg] at h0; exact h0
      rw [hlabels] at hlt
      by_cases h : l < gs.labels.length
      · rcases a h0' l h with h1 | h1 | ⟨e, he, hel⟩
        · exact Or.inl ((hset l).2 h1)
        · exact Or.inr (Or.inl h1)
        · exact Or.inr (Or.inr ⟨e, (hmem e).2 (Or.inr he), hel⟩)
      · simp at hlt
        exact Or.inr (Or.inr ⟨(m, gs.labels.length), (hmem _).2 (Or.inl rfl), by simp; omega⟩)
    · intro w m'
      have w' := hwf w
      by_cases hmm : m' = m
      · subst hmm
        rw [if_pos rfl]
        have h1 : mlab gs' m' = some gs.labels.length := mlab_of_mem w' ((hmem _).2 (Or.inl rfl))
        have h2 : mstate gs m' = none := by unfold mstate; rw [hml]; rfl
        unfold mstate at h2 ⊢
        rw [h1, h2]
        simp only [Option.map_some, Option.getD_none]
        congr 1
        cases hb : isSetB gs' gs.labels.length with
        | false => rfl
        | true =>
          exfalso
          have := (hset _).1 ((isSetB_iff _ _).1 hb)
          unfold isSet at this
          rw [List.getElem?_eq_none (Nat.le_refl _)] at this
          exact this rfl
      · rw [if_neg hmm]
        refine mstate_eq_of ?_ (fun x _ => hset x)
        apply Option.ext
        intro x
        constructor
        · intro hx
          rcases (hmem _).1 (mlab_some_mem hx) with h | h
          · exact absurd (Prod.mk.inj h).1 hmm
          · exact mlab_of_mem w h
        · intro hx
          exact mlab_of_mem w' ((hmem _).2 (Or.inr (mlab_some_mem hx)))

theorem MLSpec.todoOK {gs gs' : GS} {m : Bytes} {l : Nat} (s : MLSpec gs m gs' l) (h : TodoOK gs) : TodoOK gs' :=
  TodoOK.safe s.todo s.lablen (s.code ▸ CodeSafe.refl _) h
theorem MLSpec.lt {gs gs' : GS} {m : Bytes} {l : Nat} (s : MLSpec gs m gs' l) (w : MarksWF gs) :
    l < gs'.labels.length := (s.wf w).lt _ s.mem

/-! ### `emitBackpatched`, `pushSymbols`, `popSymbols` -/

@[simp] theorem emitBackpatched_errors (gs : GS) (i : Instr) : (gs.emitBackpatched i).errors = gs.errors := rfl
theorem emitBackpatched_todo (gs : GS) (i : Instr) : (gs.emitBackpatched i).todo = gs.todo ++ [gs.code.length] := by
  simp [emitBackpatched, emit]
theorem emitBackpatched_code (gs : GS) (i : Instr) : (gs.emitBackpatched i).code = gs.code ++ [i] := rfl

theorem quiet_emitBackpatched (gs : GS) (i : Instr) (lab : Nat) (hl : lab < gs.labels.length)
    (hi : i = Instr.jmp (lab : Int) ∨ ∃ s, i = Instr.jmpc (lab : Int) s) : Quiet gs (gs.emitBackpatched i) := by
  refine ⟨id, rfl, rfl, rfl, rfl, rfl, rfl, ?_⟩
  intro h
  have hlt : ∀ loc ∈ gs.todo, loc < gs.code.length := by
    intro loc hloc
    obtain ⟨lab', _, hj⟩ := h.jumps loc hloc
    rcases hj with hj | ⟨s, hj⟩ <;> exact (List.getElem?_eq_some_iff.1 hj).1
  refine ⟨?_, ?_⟩
  · rw [emitBackpatched_todo, List.nodup_append]
    refine ⟨h.nodup, by simp, ?_⟩
    intro a ha b hb
    simp at hb
    have := hlt a ha
    omega
  · intro loc hloc
    rw [emitBackpatched_todo, List.mem_append] at hloc
    rw [emitBackpatched_code]
    rcases hloc with hloc | hloc
    · obtain ⟨lab', h1, h2⟩ := h.jumps loc hloc
      exact ⟨lab', h1, h2.safe (CodeSafe.append _ _)⟩
    · simp at hloc
      subst hloc
      refine ⟨lab, hl, ?_⟩
      unfold IsJump
      rw [List.getElem?_append_right (Nat.le_refl _)]
      simp
      rcases hi with hi | ⟨s, hi⟩
      · exact Or.inl hi
      · exact Or.inr ⟨s, hi⟩

@[simp] theorem pushSymbols_errors (gs : GS) (n : Bytes) : (gs.pushSymbols n).errors = gs.errors := rfl
@[simp] theorem pushSymbols_funcAddrs (gs : GS) (n : Bytes) : (gs.pushSymbols n).funcAddrs = gs.funcAddrs := rfl
@[simp] theorem pushSymbols_labels (gs : GS) (n : Bytes) : (gs.pushSymbols n).labels = gs.labels := rfl
@[simp] theorem pushSymbols_todo (gs : GS) (n : Bytes) : (gs.pushSymbols n).todo = gs.todo := rfl
@[simp] theorem pushSymbols_code (gs : GS) (n : Bytes) : (gs.pushSymbols n).code = gs.code := rfl
@[simp] theorem pushSymbols_top (gs : GS) (n : Bytes) : (gs.pushSymbols n).top = ⟨n, [], 0, []⟩ := rfl
@[simp] theorem pushSymbols_drop (gs : GS) (n : Bytes) : (gs.pushSymbols n).symbols.drop 1 = gs.symbols := rfl

/-- the error check of `popSymbols` -/
theorem popFold_spec (marks : List (Bytes × Nat)) : ∀ (g : GS),
    let g' := marks.foldl (fun g e =>
      if (g.labels[e.2]?).getD (-1) = -1 then g.err GErrT.UNKNOWN_MARK else g) g
    g'.labels = g.labels ∧ g'.funcAddrs = g.funcAddrs ∧ g'.symbols = g.symbols ∧ g'.todo = g.todo ∧
    g'.code = g.code ∧ g'.stackMaps = g.stackMaps ∧
    (g'.errors = [] ↔ g.errors = [] ∧ ∀ e ∈ marks, isSet g e.2) := by
  induction marks with
  | nil => intro g; simp
  | cons e es ih =>
    intro g
    simp only [List.foldl_cons]
    by_cases he : (g.labels[e.2]?).getD (-1) = -1
    · rw [if_pos he]
      obtain ⟨h1, h2, h3, h4, h5, h6, h7⟩ := ih (g.err GErrT.UNKNOWN_MARK)
      refine ⟨h1, h2, h3, h4, h5, h6, ?_⟩
      rw [h7]
      constructor
      · intro h; exact absurd h.1 (err_ne_nil _ _)
      · intro h; exact absurd he (h.2 e List.mem_cons_self)
    · rw [if_neg he]
      obtain ⟨h1, h2, h3, h4, h5, h6, h7⟩ := ih g
      refine ⟨h1, h2, h3, h4, h5, h6, ?_⟩
      rw [h7]
      constructor
      · intro h
        refine ⟨h.1, ?_⟩
        intro x hx
        rcases List.mem_cons.1 hx with rfl | hx
        · exact he
        · exact h.2 x hx
      · intro h; exact ⟨h.1, fun x hx => h.2 x (List.mem_cons_of_mem _ hx)⟩

structure PopSpec (gs gs' : GS) : Prop where
  labels : gs'.labels = gs.labels
  todo : gs'.todo = gs.todo
  code : gs'.code = gs.code
  symbols : gs'.symbols = gs.symbols.drop 1
  errs : gs'.errors = [] ↔ gs.errors = [] ∧ ∀ e ∈ gs.top.marks, isSet gs e.2
  look : ∀ f, look gs' f = if f = gs.top.name then some gs.top.argnum else look gs f

theorem find?_filter_ne' {β : Type} (l : List (Bytes × β)) {x y : Bytes} (h : y ≠ x) :
    (l.filter (fun e => e.1 ≠ x)).find? (fun e => e.1 = y) = l.find? (fun e => e.1 = y) := by
  induction l with
  | nil => rfl
  | cons a as ih =>
    by_cases ha : a.1 = x
    · rw [List.filter_cons_of_neg (by simpa using ha)]
      rw [List.find?_cons_of_neg (by simp [ha]; exact fun h' => h h'.symm)]
      exact ih
    · rw [List.filter_cons_of_pos (by simpa using ha)]
      by_cases hy : a.1 = y
      · rw [List.find?_cons_of_pos (by simpa using hy), List.find?_cons_of_pos (by simpa using hy)]
      · rw [List.find?_cons_of_neg (by simpa using hy), List.find?_cons_of_neg (by simpa using hy)]
        exact ih

theorem popSymbols_spec (gs : GS) (addr : Int) : PopSpec gs (gs.popSymbols addr) := by
  unfold popSymbols
  dsimp only
  obtain ⟨h1, h2, h3, h4, h5, h6, h7⟩ := popFold_spec gs.top.marks gs
  refine ⟨h1, h4, h5, by rw [h3], h7, ?_⟩
  intro f
  unfold look lookupFunc
  by_cases hf : f = gs.top.name
  · rw [if_pos hf, List.find?_cons_of_pos (by simp [hf])]; rfl
  · rw [if_neg hf, List.find?_cons_of_neg (by simpa using fun h => hf h.symm)]
    rw [find?_filter_ne' _ hf, h2]

end Static
end Theo
