/-
  C01 for the generator model, part 18: the whole tree — the definitions in text order, then the
  main statements (`top_corr`).
-/
import Theo.Proofs.GenShapeRoutine2

set_option linter.unusedSimpArgs false
set_option linter.unusedVariables false

namespace Theo
namespace GenShape
open GS Sem Static

/-- the side conditions on the whole tree (see Props/C01GenShape.lean) -/
def astNames : Node → Bool
  | .nil => true
  | .mk t tok f ln l r =>
    if t = NodeT.SPLIT ∧ l.ty = NodeT.PROGRAM then
      progNames l.left && stmtNames l.right && labelsOK l.right && astNames r
    else stmtNames (.mk t tok f ln l r) && labelsOK (.mk t tok f ln l r)

/-- the generator-side part of `prog_corr` -/
theorem prog_gen (src : Source) (f' : Nat) (gs gs00 : GS) (k0 : Nat)
    (l2 r2 : Node) (k : Nat) (infos : List RInfo) (ps : List ProgDef)
    (hc : gs00.code = gs.code ++ List.replicate k0 Instr.potBreak)
    (hsy : gs00.symbols = gs.symbols) (hsm : gs00.stackMaps = gs.stackMaps) (hfa : gs00.funcAddrs = gs.funcAddrs)
    (hlb : gs00.labels = gs.labels) (hlo : gs00.loops = gs.loops)
    (ti : TopInv src gs k infos)
    (hfa' : nodeSize l2.right.left ≤ f') (hfr : nodeSize r2 ≤ f')
    (hs : stmtShape r2 = true) (hn : stmtNames r2 = true) (hlab : labelsOK r2 = true) (hpn : progNames l2 = true)
    (hpd : src.progs[k]? = some ⟨l2.left.tok, namesOf l2.right.left, outNameOf l2.right.right, (stmtsOf r2 gs.loops ps).1⟩)
    (hst : Static.routineOK src k = true) (hnd : (namesOf l2.right.left).Nodup) :
    TopInv src (progRes f' gs00 l2 r2) (k + 1) (infos ++ [progRi f' gs gs00 k0 l2 r2 k]) ∧ TQ gs (progRes f' gs00 l2 r2) ∧
      gs.labels.length ≤ (progRes f' gs00 l2 r2).labels.length ∧
      (progRes f' gs00 l2 r2).loops = gs.loops + loopCount r2 := by
  have := prog_corr
    ⟨(progRes f' gs00 l2 r2).code.mapIdx (fun p i => patch (progRes f' gs00 l2 r2).labels p i), (progRes f' gs00 l2 r2).stackMaps, [], []⟩
    src (progRes f' gs00 l2 r2).labels f' gs gs00 k0 l2 r2 k infos ps [] hc hsy hsm hfa hlb hlo ti hfa' hfr hs hn hlab hpn hpd hst hnd
    (by intro p i _ hi; show (List.mapIdx _ _)[p]? = _; rw [List.getElem?_mapIdx, hi]; rfl)
    (by intro l v h _; rw [h]; rfl) (List.prefix_refl _) gs.code.length rfl
  exact this.2

/-- the main statements -/
theorem main_corr (P : Program) (src : Source) (L : List Int) (f : Nat) (gs : GS) (root : Node) (hf : nodeSize root ≤ f)
    (hs : stmtShape root = true) (hn : stmtNames root = true) (hlab : labelsOK root = true)
    (infos : List RInfo) (ps : List ProgDef)
    (hp : ps = src.progs) (hm : (stmtsOf root gs.loops ps).1 = src.main)
    (hst : Static.routineOK src src.progs.length = true)
    (ti : TopInv src gs src.progs.length infos)
    (hag : Agree L (dispatchVoid f gs root).code P.code)
    (hfin : ∀ (l : Nat) (v : Int), (dispatchVoid f gs root).labels[l]? = some v → v ≠ -1 → (L[l]?).getD (-1) = v)
    (pc : Nat) (hpc : skipc P.code pc = skipc P.code gs.code.length) :
    (∃ w, checkStmts ⟨P.code, src, ⟨0, src.progs.length, smap (dispatchVoid f gs root).top.regs⟩, src.progs.length, infos⟩
        src.main ⟨pc, [], []⟩ = some w ∧ resolveOK P.code w = true ∧
        skipc P.code w.pc = skipc P.code (dispatchVoid f gs root).code.length) ∧
      NTNodup (dispatchVoid f gs root).top.regs ∧ (dispatchVoid f gs root).stackMaps.length = src.progs.length ∧
      TQ gs (dispatchVoid f gs root) := by
  have sq := sq_void f gs root hf hs hn
  have tn0 : TempNamed gs.top.regs := by rw [ti.regs]; intro r h; cases h
  have ntn0 : NTNodup gs.top.regs := by unfold NTNodup; rw [ti.regs]; exact List.nodup_nil
  have ctr0 : CtrInv gs.top.regs gs.loops := by rw [ti.regs]; exact CtrInv.nil _
  have ok : RC.OK ⟨P.code, L, (dispatchVoid f gs root).top.regs, src, src.progs.length, infos, 0⟩ :=
    ⟨sq.gq.tn tn0, sq.gq.ntn ntn0, ⟨_, sq.ctr ctr0⟩⟩
  have hst' : stmtsOK src src.progs.length (stmtsOf root gs.loops ps).1 (stmtsOf root gs.loops ps).1 = true := by
    unfold Static.routineOK at hst
    rw [bodyOf_main] at hst
    rw [hm]; exact hst
  have hpos : 0 < gs.code.length := by obtain ⟨i, h1, _⟩ := ti.head; exact (List.getElem?_eq_some_iff.1 h1).1
  obtain ⟨w, cw, atw, rok⟩ := body_corr ok f gs root hf hs hn hlab ps hst' ti.marks ti.head (RegsExt.refl _) hag
    (fun f j pd h => ti.func f j pd h) hfin pc ⟨hpc, hpos⟩
  rw [hm] at cw
  refine ⟨⟨w, cw, rok, atw.eq⟩, sq.gq.ntn ntn0, by rw [sq.gq.stackMaps]; exact ti.nprogs,
    sq.gq.code, by rw [sq.gq.stackMaps]; exact List.prefix_refl _, body_frame f gs root hf hs hn ti.marks⟩

theorem top_main (P : Program) (src : Source) (L : List Int) (f : Nat) (gs : GS) (root : Node) (hf : nodeSize root ≤ f)
    (hs' : stmtShape root = true) (hn' : stmtNames root = true) (hl' : labelsOK root = true)
    (k : Nat) (infos : List RInfo) (ps : List ProgDef) (hk : ps.length = k)
    (hp : (stmtsOf root gs.loops ps).2.2 = src.progs) (hm : (stmtsOf root gs.loops ps).1 = src.main)
    (hst : ∀ r, r ≤ src.progs.length → Static.routineOK src r = true)
    (ti : TopInv src gs k infos)
    (hag : Agree L (dispatchVoid f gs root).code P.code)
    (hfin : ∀ (l : Nat) (v : Int), (dispatchVoid f gs root).labels[l]? = some v → v ≠ -1 → (L[l]?).getD (-1) = v)
    (pc : Nat) (hpc : skipc P.code pc = skipc P.code gs.code.length) :
    (∃ infos' pc', checkProgs P src (src.progs.drop k) k infos pc = some (infos', pc') ∧
      ∃ w, checkStmts ⟨P.code, src, ⟨0, src.progs.length, smap (dispatchVoid f gs root).top.regs⟩, src.progs.length, infos'⟩
          src.main ⟨pc', [], []⟩ = some w ∧ resolveOK P.code w = true ∧
        skipc P.code w.pc = skipc P.code (dispatchVoid f gs root).code.length) ∧
      NTNodup (dispatchVoid f gs root).top.regs ∧ (dispatchVoid f gs root).stackMaps.length = src.progs.length ∧
      TQ gs (dispatchVoid f gs root) := by
  have hps : ps = src.progs := by rw [← hp, (stmts_link src k .nil root hs' gs.loops ps).1]
  have hk' : k = src.progs.length := by rw [← hps, hk]
  subst hk'
  obtain ⟨h1, h2, h3, h4⟩ := main_corr P src L f gs root hf hs' hn' hl' infos ps hps hm (hst _ (Nat.le_refl _)) ti hag hfin pc hpc
  refine ⟨⟨infos, pc, ?_, h1⟩, h2, h3, h4⟩
  rw [List.drop_of_length_le (Nat.le_refl _)]
  simp only [checkProgs]

theorem top_corr (P : Program) (src : Source) (L : List Int) : ∀ (f : Nat) (gs : GS) (root : Node), nodeSize root ≤ f →
    AstShape root = true → astNames root = true →
    ∀ (k : Nat) (infos : List RInfo) (ps : List ProgDef), ps.length = k →
    (stmtsOf root gs.loops ps).2.2 = src.progs → (stmtsOf root gs.loops ps).1 = src.main →
    (∀ r, r ≤ src.progs.length → Static.routineOK src r = true) → (∀ pd ∈ src.progs, pd.params.Nodup) →
    TopInv src gs k infos →
    Agree L (dispatchVoid f gs root).code P.code →
    (∀ (l : Nat) (v : Int), (dispatchVoid f gs root).labels[l]? = some v → v ≠ -1 → (L[l]?).getD (-1) = v) →
    (dispatchVoid f gs root).stackMaps <+: P.stackMaps →
    ∀ pc, skipc P.code pc = skipc P.code gs.code.length →
    (∃ infos' pc', checkProgs P src (src.progs.drop k) k infos pc = some (infos', pc') ∧
      ∃ w, checkStmts ⟨P.code, src, ⟨0, src.progs.length, smap (dispatchVoid f gs root).top.regs⟩, src.progs.length, infos'⟩
          src.main ⟨pc', [], []⟩ = some w ∧ resolveOK P.code w = true ∧
        skipc P.code w.pc = skipc P.code (dispatchVoid f gs root).code.length) ∧
      NTNodup (dispatchVoid f gs root).top.regs ∧ (dispatchVoid f gs root).stackMaps.length = src.progs.length ∧
      TQ gs (dispatchVoid f gs root) := by
  intro f
  induction f with
  | zero => intro gs root h; have := nodeSize_pos root; omega
  | succ f ih =>
    intro gs root hf hs hn k infos ps hk hp hm hst hpar ti hag hfin hM pc hpc
    cases root with
    | nil => exact top_main P src L (f+1) gs .nil hf rfl rfl rfl k infos ps hk hp hm hst ti hag hfin pc hpc
    | mk t tok file line l r =>
      by_cases hpr : t = NodeT.SPLIT ∧ l.ty = NodeT.PROGRAM
      · obtain ⟨ht, hl⟩ := hpr
        subst ht
        cases l with
        | nil => simp [Node.ty, NodeT.PROGRAM] at hl
        | mk t2 tok2 file2 line2 l2 r2 =>
          have ht2 : t2 = NodeT.PROGRAM := hl
          subst ht2
          have hs' : stmtShape r2 = true ∧ AstShape r = true := by
            rw [AstShape] at hs
            simpa [Node.ty, Node.right] using hs
          have hn' : ((progNames l2 = true ∧ stmtNames r2 = true) ∧ labelsOK r2 = true) ∧ astNames r = true := by
            rw [astNames, if_pos ⟨rfl, rfl⟩] at hn
            simpa [Node.left, Node.right] using hn
          obtain ⟨⟨⟨hpn, hnr2⟩, hlab⟩, hnr⟩ := hn'
          simp only [nodeSize] at hf
          obtain ⟨f', rfl⟩ : ∃ f', f = f' + 1 := ⟨f - 1, by have := nodeSize_pos l2; have := nodeSize_pos r2; omega⟩
          -- the source side
          rw [stmtsOf_mk, if_pos rfl, stmtsOf_mk, if_neg (by decide), if_pos rfl] at hp hm
          simp only [] at hp hm
          have hB := (stmts_link src k .nil r2 hs'.1 gs.loops ps).1
          rw [hB] at hp hm
          rw [stmtsOf_loops r2 gs.loops ps] at hp hm
          obtain ⟨ext, hext⟩ := stmtsOf_prefix r (gs.loops + loopCount r2)
            (ps ++ [⟨l2.left.tok, namesOf l2.right.left, outNameOf l2.right.right, (stmtsOf r2 gs.loops ps).1⟩])
          have hprogs : src.progs = ps ++ (⟨l2.left.tok, namesOf l2.right.left, outNameOf l2.right.right, (stmtsOf r2 gs.loops ps).1⟩ :: ext) := by
            rw [← hp, hext]; simp
          have hget : src.progs[k]? = some ⟨l2.left.tok, namesOf l2.right.left, outNameOf l2.right.right, (stmtsOf r2 gs.loops ps).1⟩ := by
            rw [hprogs, ← hk]; simp
          have hklt : k < src.progs.length := (List.getElem?_eq_some_iff.1 hget).1
          have hdrop : src.progs.drop k =
              ⟨l2.left.tok, namesOf l2.right.left, outNameOf l2.right.right, (stmtsOf r2 gs.loops ps).1⟩ :: src.progs.drop (k + 1) := by
            rw [hprogs, ← hk]; simp
          have hnd : (namesOf l2.right.left).Nodup := hpar _ (List.mem_of_getElem? hget)
          -- the generator side
          rw [dispatchVoid_succ] at hag hfin hM ⊢
          dsimp only at hag hfin hM ⊢
          rw [if_pos rfl] at hag hfin hM ⊢
          rw [dispatchVoid_program] at hag hfin hM ⊢
          obtain ⟨k1, hk1⟩ := advanceLine_code gs line file
          obtain ⟨k2, hk2⟩ := advanceLine_code (gs.advanceLine line file) line2 file2
          obtain ⟨m1, m2, m3, m4, _⟩ := advanceLine_misc gs line file
          obtain ⟨n1, n2, n3, n4, _⟩ := advanceLine_misc (gs.advanceLine line file) line2 file2
          have hsy := (advanceLine_symbols (gs.advanceLine line file) line2 file2).trans (advanceLine_symbols gs line file)
          have hc : ((gs.advanceLine line file).advanceLine line2 file2).code = gs.code ++ List.replicate (k1 + k2) Instr.potBreak := by
            rw [hk2, hk1, List.append_assoc, List.replicate_append_replicate]
          generalize (gs.advanceLine line file).advanceLine line2 file2 = gs00 at *
          have hfa' : nodeSize l2.right.left ≤ f' :=
            Nat.le_trans (nodeSize_left_le _) (Nat.le_trans (nodeSize_right_le _) (by have := nodeSize_pos r2; have := nodeSize_pos r; omega))
          have hfr2 : nodeSize r2 ≤ f' := by have := nodeSize_pos l2; have := nodeSize_pos r; omega
          obtain ⟨hti, htq, hll, hloops⟩ := prog_gen src f' gs gs00 (k1 + k2) l2 r2 k infos ps hc hsy (n1.trans m1) (n2.trans m2)
            (n3.trans m3) (n4.trans m4) ti hfa' hfr2 hs'.1 hnr2 hlab hpn hget (hst k (Nat.le_of_lt hklt)) hnd
          have hrest := ih (progRes f' gs00 l2 r2) r (by have := nodeSize_pos l2; have := nodeSize_pos r2; omega) hs'.2 hnr
            (k + 1) (infos ++ [progRi f' gs gs00 (k1 + k2) l2 r2 k])
            (ps ++ [⟨l2.left.tok, namesOf l2.right.left, outNameOf l2.right.right, (stmtsOf r2 gs.loops ps).1⟩])
            (by simp [hk]) (by rw [hloops]; exact hp) (by rw [hloops]; exact hm) hst hpar hti hag hfin hM
            (progRes f' gs00 l2 r2).code.length rfl
          obtain ⟨⟨infos', pc', c1, c2⟩, h2, h3, h4⟩ := hrest
          have hchk := (prog_corr P src L f' gs gs00 (k1 + k2) l2 r2 k infos ps (src.progs.drop (k + 1)) hc hsy (n1.trans m1)
            (n2.trans m2) (n3.trans m3) (n4.trans m4) ti hfa' hfr2 hs'.1 hnr2 hlab hpn hget (hst k (Nat.le_of_lt hklt)) hnd
            (hag.of_prefix h4.code)
            (fun x v hx hv => hfin x v (by rw [h4.labels x (List.getElem?_eq_some_iff.1 hx).1]; exact hx) hv)
            (h4.stackMaps.trans hM) pc hpc).1
          refine ⟨⟨infos', pc', ?_, c2⟩, h2, h3, htq.trans h4 hll⟩
          rw [hdrop, hchk]
          exact c1
      · have hs' : stmtShape (.mk t tok file line l r) = true := by
          rw [AstShape, if_neg hpr] at hs; exact hs
        have hn' : stmtNames (.mk t tok file line l r) = true ∧ labelsOK (.mk t tok file line l r) = true := by
          rw [astNames, if_neg hpr, Bool.and_eq_true] at hn; exact hn
        exact top_main P src L (f+1) gs _ hf hs' hn'.1 hn'.2 k infos ps hk hp hm hst ti hag hfin pc hpc

end GenShape
end Theo
