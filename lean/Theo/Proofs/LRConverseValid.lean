/-
  Converse of C12/C13, part 2: validity of items.
  Every item `[A → α . β, a]` of the state reached along a path `γ` of the automaton is *valid*
  for `γ`: there is a rightmost derivation `S' ⇒*rm δ A w ⇒rm δ α β w` with `γ = δ α` and
  `a = FIRST₁(w·eof)`.  Every state of the collection is reached along some path.
-/
import Theo.Proofs.LRConverseDeriv

namespace Theo
namespace LRConverse
open LRSound LRComplete FirstProofs

/-- the lookahead of a right context: its first token, the end marker if it is empty -/
def laOf (eof : Nat) (w : List Nat) : Nat := (w.head?).getD eof

theorem laOf_nil (eof : Nat) : laOf eof [] = eof := rfl
theorem laOf_cons (eof a : Nat) (w : List Nat) : laOf eof (a :: w) = a := rfl

/-- item sets reached from the initial set `h0` along a path of grammar symbols -/
inductive Reached (ga : Grammar) (fi : FirstInfo) (h0 : ItemSet) : List Sym → ItemSet → Prop where
  | base : Reached ga fi h0 [] h0
  | step {γ : List Sym} {I : ItemSet} {X : Sym} :
      Reached ga fi h0 γ I → X ≠ .eps → Reached ga fi h0 (γ ++ [X]) (jump ga fi I X)

section Valid
variable (g : Grammar) (start eof : Nat)

/-- `it` is valid for the viable prefix `γ` -/
def ValidFor (γ : List Sym) (it : Item) : Prop :=
  ∃ (δ : List Sym) (w : List Nat),
    RDerives (g.augment start eof) [.n g.numNT] (δ ++ Sym.n it.left :: tsyms w) ∧
    γ = δ ++ ((g.augment start eof).rhs it).take it.dot ∧
    it.follow = .t (laOf eof w)

/-- what we know about an item of a reached state -/
structure VItem (γ : List Sym) (it : Item) : Prop where
  good : Good g start eof it
  dot_le : it.dot ≤ ((g.augment start eof).rhs it).length
  valid : ValidFor g start eof γ it

theorem good_rhs_ntOK (hg : g.Closed) (hs : start < g.numNT) {it : Item} (h : Good g start eof it) :
    ∀ s ∈ (g.augment start eof).rhs it, NTOK g s := by
  intro s hsm
  rcases h.left_ok with hl | hl
  · exact symOK_ntOK (aug_alts_symOK g start eof hg hl (good_rhs_get g start eof h) s hsm)
  · rw [(good_S g start eof hg h hl.1).2.1] at hsm
    simp only [List.mem_singleton] at hsm
    subst hsm
    exact ⟨by simp, fun k hk => by cases hk; exact hs⟩

theorem rhs_split (ga : Grammar) (it : Item) (X : Sym) (h : (ga.rhs it)[it.dot]? = some X) :
    ga.rhs it = (ga.rhs it).take it.dot ++ X :: (ga.rhs it).drop (it.dot + 1) := by
  have hlt : it.dot < (ga.rhs it).length := by
    rcases Nat.lt_or_ge it.dot (ga.rhs it).length with h' | h'
    · exact h'
    · rw [List.getElem?_eq_none h'] at h; cases h
  have hx : (ga.rhs it)[it.dot] = X := by
    rw [List.getElem?_eq_getElem hlt] at h; simpa using h
  conv => lhs; rw [← List.take_append_drop it.dot (ga.rhs it)]
  rw [List.drop_eq_getElem_cons hlt, hx]

theorem initial_vitem (hg : g.Closed) :
    VItem g start eof [] ⟨g.numNT, 0, 0, .t eof⟩ := by
  refine ⟨⟨by simp [augment_alts_S g start eof hg], Or.inr ⟨rfl, rfl⟩⟩, Nat.zero_le _, ?_⟩
  exact ⟨[], [], by simpa [tsyms] using RDerives.refl, by simp, rfl⟩

theorem leaf_of_root {t : Tree} {a : Nat} (h : t.root = .t a) : t = .leaf a := by
  cases t with
  | leaf b => simp only [Tree.root, Sym.t.injEq] at h; rw [h]
  | node l k cs => simp [Tree.root] at h

/-- closure step: items added by `closeItem` are valid for the same viable prefix -/
theorem vitem_close (hg : g.Closed) (hs : start < g.numNT) (hp : g.Productive) (γ : List Sym)
    {it : Item} (h : VItem g start eof γ it) :
    ∀ x ∈ closeItem (g.augment start eof) (firstSets (g.augment start eof)) it,
      VItem g start eof γ x := by
  intro x hx
  obtain ⟨hgood', hdot0, _⟩ := good_close g start eof _ hg hs h.good x hx
  refine ⟨hgood', by omega, ?_⟩
  obtain ⟨δ, w, hder, hγ, hfol⟩ := h.valid
  simp only [closeItem] at hx
  split at hx
  · rename_i B hB
    simp only [List.mem_flatMap, List.mem_range, List.mem_map] at hx
    obtain ⟨ri, hri, la, hla, rfl⟩ := hx
    have hget := afterDot_some _ it (.n B) (by simp) hB
    have hsplit := rhs_split (g.augment start eof) it (.n B) hget
    generalize hα : ((g.augment start eof).rhs it).take it.dot = α at hsplit hγ
    generalize hβ : ((g.augment start eof).rhs it).drop (it.dot + 1) = β at hsplit hla
    -- the lookahead is a terminal `c` in FIRST(β a)
    obtain ⟨c, rfl, hc⟩ := close_follow (g.augment start eof) it _ hfol la (by rw [hβ]; exact hla)
    rw [hβ, hfol] at hc
    obtain ⟨β'', hsd⟩ := (fos_sound (firstSets_sound (g.augment start eof)) _).1 c hc
    -- all symbols involved are productive
    have hrhs := good_rhs_ntOK g start eof hg hs h.good
    have hβok : ∀ s ∈ β ++ [Sym.t (laOf eof w)], NTOK g s := by
      intro s hsm
      rcases List.mem_append.mp hsm with hsm | hsm
      · apply hrhs; rw [hsplit]; simp [hsm]
      · simp only [List.mem_singleton] at hsm; subst hsm
        exact ⟨by simp, fun k hk => by cases hk⟩
    have hψok := sd_ntOK g start eof hg hsd hβok
    obtain ⟨ts, hroots, hvalid⟩ := trees_of_syms (g.augment start eof) g.numNT
      (productive_aug g start eof hg hp) _ hψok
    obtain ⟨ts', hroots', hvalid', hy⟩ := sd_trees hsd ts hroots hvalid
    -- shape of the two tree lists
    obtain ⟨tβ, tl, e1, r1, r2⟩ := List.map_eq_append_iff.mp hroots'
    have htl : tl = [Tree.leaf (laOf eof w)] := by
      cases tl with
      | nil => simp at r2
      | cons t0 tl =>
        simp only [List.map_cons, List.cons.injEq, List.map_eq_nil_iff] at r2
        rw [leaf_of_root r2.1, r2.2]
    cases ts with
    | nil => simp at hroots
    | cons t0 ts0 =>
      simp only [List.map_cons, List.cons.injEq] at hroots
      have ht0 := leaf_of_root hroots.1
      subst e1 htl ht0
      have hy' : yields tβ ++ [laOf eof w] = c :: yields ts0 := by
        simpa [yields, Tree.yield] using hy
      -- the derivation
      have hvβ : ∀ t ∈ tβ, t.Valid (g.augment start eof) := fun t ht => hvalid' t (by simp [ht])
      have h1 : RDerives (g.augment start eof) [.n g.numNT]
          (δ ++ (g.augment start eof).rhs it ++ tsyms w) :=
        RDerives.tail hder (RStep.mk δ it.left it.alt _ w (good_rhs_get g start eof h.good))
      have h2 := trees_rd (g.augment start eof) tβ hvβ (δ ++ α ++ [Sym.n B]) w
      rw [r1] at h2
      refine ⟨δ ++ α, yields tβ ++ w, ?_, by simp [hγ], ?_⟩
      · rw [hsplit] at h1
        have := rd_trans (by simpa [List.append_assoc] using h1) h2
        simpa [tsyms_append, List.append_assoc] using this
      · show Sym.t c = Sym.t (laOf eof (yields tβ ++ w))
        cases hz : yields tβ with
        | nil =>
          rw [hz] at hy'
          simp only [List.nil_append, List.cons.injEq] at hy'
          rw [← hy'.1]; rfl
        | cons c' z' =>
          rw [hz] at hy'
          simp only [List.cons_append, List.cons.injEq] at hy'
          rw [← hy'.1]; rfl
  · simp at hx

/-- goto step: moving the dot over `X` gives an item valid for `γ X` -/
theorem vitem_adv (γ : List Sym) {it : Item} {X : Sym} (h : VItem g start eof γ it)
    (hX : X ≠ .eps) (ha : (g.augment start eof).afterDot it = X) :
    VItem g start eof (γ ++ [X]) (adv it) := by
  have hget := afterDot_some _ it X hX ha
  have hlt : it.dot < ((g.augment start eof).rhs it).length := by
    rcases Nat.lt_or_ge it.dot ((g.augment start eof).rhs it).length with h' | h'
    · exact h'
    · rw [List.getElem?_eq_none h'] at hget; cases hget
  refine ⟨good_adv g start eof h.good, by rw [rhs_adv]; simp only [adv]; omega, ?_⟩
  obtain ⟨δ, w, hder, hγ, hfol⟩ := h.valid
  refine ⟨δ, w, hder, ?_, hfol⟩
  rw [rhs_adv]
  simp only [adv]
  rw [List.take_add_one, hget, hγ]
  simp

theorem reached_valid (hg : g.Closed) (hs : start < g.numNT) (hp : g.Productive)
    {γ : List Sym} {I : ItemSet}
    (h : Reached (g.augment start eof) (firstSets (g.augment start eof))
      (hull (g.augment start eof) (firstSets (g.augment start eof)) [⟨g.numNT, 0, 0, .t eof⟩]) γ I) :
    ∀ it ∈ I, VItem g start eof γ it := by
  induction h with
  | base =>
    apply hull_mem _ _ (VItem g start eof []) (VItem g start eof []) (fun _ h => h)
      (fun it hit => vitem_close g start eof hg hs hp [] hit)
    intro x hx
    simp only [List.mem_singleton] at hx
    subst hx
    exact initial_vitem g start eof hg
  | @step γ I X _ hX ih =>
    apply jump_mem _ _ (VItem g start eof (γ ++ [X])) (VItem g start eof (γ ++ [X])) (fun _ h => h)
      (fun it hit => vitem_close g start eof hg hs hp (γ ++ [X]) hit)
    intro it hit ha
    exact vitem_adv g start eof γ (ih it hit) hX ha

end Valid

/-! ## every state of the collection is reached -/

def AllReached (ga : Grammar) (fi : FirstInfo) (h0 : ItemSet) (S : List LRState) : Prop :=
  ∀ (q : Nat) (st : LRState), S[q]? = some st → ∃ γ, Reached ga fi h0 γ st.items

theorem expandState_reached (ga : Grammar) (fi : FirstInfo) (h0 : ItemSet) (S : List LRState) (i : Nat)
    (h : AllReached ga fi h0 S) : AllReached ga fi h0 (expandState ga fi S i) := by
  rw [expandState_eq]
  cases hst : S[i]? with
  | none => exact h
  | some st =>
    simp only []
    have hfold : (fun (acc : List LRState × List (Sym × Nat)) =>
        AllReached ga fi h0 acc.1 ∧ acc.1[i]? = some st)
        ((befores ga st.items).foldl (expF ga fi st.items) (S, [])) := by
      apply foldl_inv (fun (acc : List LRState × List (Sym × Nat)) =>
        AllReached ga fi h0 acc.1 ∧ acc.1[i]? = some st)
      · exact ⟨h, hst⟩
      · intro acc x hx hacc
        obtain ⟨h1, h2⟩ := hacc
        simp only [expF]
        split
        · exact ⟨h1, h2⟩
        · refine ⟨?_, getElem?_append_some _ _ _ _ h2⟩
          intro q st' hq
          rcases getElem?_snoc _ _ _ _ hq with hq | ⟨_, hq⟩
          · exact h1 q st' hq
          · obtain ⟨γ, hγ⟩ := h1 i st h2
            subst hq
            exact ⟨γ ++ [x], Reached.step hγ (befores_ne_eps ga st.items x hx)⟩
    obtain ⟨h1, h2⟩ := hfold
    intro q st' hq
    rw [List.getElem?_set] at hq
    by_cases hiq : i = q
    · subst hiq
      simp only [if_true] at hq
      split at hq
      · cases hq
        exact h1 i st h2
      · cases hq
    · simp only [hiq, if_false] at hq
      exact h1 q st' hq

theorem collectAux_reached (ga : Grammar) (fi : FirstInfo) (h0 : ItemSet) :
    ∀ (fuel i : Nat) (S : List LRState), AllReached ga fi h0 S →
      AllReached ga fi h0 (collectAux ga fi fuel i S) := by
  intro fuel
  induction fuel with
  | zero => intro i S h; simpa [collectAux] using h
  | succ fuel ih =>
    intro i S h
    simp only [collectAux]
    split
    · exact ih _ _ (expandState_reached ga fi h0 S i h)
    · exact h

theorem collection_reached (ga : Grammar) (fi : FirstInfo) (sPrime eof fuel : Nat) :
    AllReached ga fi (hull ga fi [⟨sPrime, 0, 0, .t eof⟩]) (collection ga fi sPrime eof fuel) := by
  simp only [collection]
  apply collectAux_reached
  intro q st hq
  cases q with
  | zero => simp at hq; subst hq; exact ⟨[], Reached.base⟩
  | succ q => simp at hq

end LRConverse
end Theo
