/-
  C07 for the generator model, part 9: the whole tree — the definitions in text order pass
  `siteProgs`, then the main statements (`site_top`).
-/
import Theo.Proofs.GenSitesProg

set_option linter.unusedSimpArgs false
set_option linter.unusedVariables false

namespace Theo
namespace GenSites
open GS Sem Static GenShape Layout

/-! ### the header of a definition: its site is removed again -/

theorem removeTop_noSite (gs : GS) (hl : LastNS gs.code) : gs.removeTopPotBreak = gs := by
  unfold removeTopPotBreak
  have : gs.lastIsSite = false := by
    unfold lastIsSite
    obtain ⟨i, h1, h2⟩ := hl
    rw [h1]
    simp
    exact h2
  rw [this]
  simp

theorem removeTop_moved {gs gs0 : GS} {file : Bytes} {line : Int} (mv : Moved gs gs0 file line)
    (ht : TInv (fun _ => True) gs) :
    gs0.removeTopPotBreak.lineInfo = gs.lineInfo ∧ gs0.removeTopPotBreak.fsName = file ∧ gs0.removeTopPotBreak.fsLine = line := by
  have hlast : gs0.lastIsSite = true := by
    unfold lastIsSite; rw [mv.code]; simp
  have hpos : gs0.nextPos - 1 = (gs.code.length : Int) := by
    unfold nextPos; rw [mv.code]; simp
  have hne : ∀ e ∈ gs.lineInfo, e.1 ≠ (gs.code.length : Int) := by
    intro e he
    have := (ht.1.rng e he).2
    omega
  have hfind : (gs0.lineInfo.find? (fun e => e.1 = gs0.nextPos - 1)).map (·.2) = some ⟨file, line⟩ := by
    rw [hpos, mv.lineInfo, List.find?_append]
    have : gs.lineInfo.find? (fun e => decide (e.1 = (gs.code.length : Int))) = none := by
      rw [List.find?_eq_none]
      intro e he
      simpa using hne e he
    rw [this]
    simp
  have hfilter : gs0.lineInfo.filter (fun e => e.1 ≠ gs0.nextPos - 1) = gs.lineInfo := by
    rw [hpos, mv.lineInfo, List.filter_append]
    have : gs.lineInfo.filter (fun e => decide (e.1 ≠ (gs.code.length : Int))) = gs.lineInfo := by
      rw [List.filter_eq_self]
      intro e he
      simpa using hne e he
    rw [this]
    simp
  unfold removeTopPotBreak
  rw [hlast]
  simp only [if_true]
  rw [hfind]
  exact ⟨hfilter, mv.fsName, mv.fsLine⟩

/-- what the two `advanceLine` of `SPLIT (PROGRAM …)` and `removeTopPotBreak` do, for a header laid
    out as clause 6 asks -/
theorem prog_hdr (gs : GS) (s : LSt) (hctx : Ctx gs s) (ht : TInv (fun _ => True) gs) (hl : LastNS gs.code)
    (file : Bytes) (line : Int) (file2 : Bytes) (line2 : Int)
    (hso : onLine s.file s.line file line = true ∨ (file2 = file ∧ line2 = line)) :
    ∃ k0, k0 ≤ 1 ∧ ((gs.advanceLine line file).advanceLine line2 file2).code = gs.code ++ List.replicate k0 Instr.potBreak ∧
      ((gs.advanceLine line file).advanceLine line2 file2).removeTopPotBreak.lineInfo = gs.lineInfo ∧
      TInv (fun _ => True) ((gs.advanceLine line file).advanceLine line2 file2).removeTopPotBreak ∧
      Ctx ((gs.advanceLine line file).advanceLine line2 file2).removeTopPotBreak
        (if isStd file2 then ⟨s.file, s.line, .fresh⟩ else ⟨file2, line2, .fresh⟩) := by
  have h00 : (gs.advanceLine line file).advanceLine line2 file2 = gs.advanceLine line2 file2 := by
    rcases hso with h | ⟨h1, h2⟩
    · rw [advanceLine_onLine gs line file (by rw [hctx.file, hctx.line]; exact h)]
    · subst h1; subst h2; exact advanceLine_idem gs line2 file2
  rw [h00]
  by_cases hstd : isStd file2 = true
  · have hstd' : file2 = ConstGen.genStdFileName := by simpa [isStd] using hstd
    rw [advanceLine_std gs line2 file2 hstd', removeTop_noSite gs hl, if_pos hstd]
    exact ⟨0, by omega, by simp, rfl, ht, ⟨hctx.file, hctx.line⟩⟩
  · have hstd' : file2 ≠ ConstGen.genStdFileName := by simpa [isStd] using hstd
    by_cases hsame : file2 = gs.fsName ∧ line2 = gs.fsLine
    · rw [advanceLine_same gs line2 file2 hsame.1 hsame.2, removeTop_noSite gs hl, if_neg hstd]
      exact ⟨0, by omega, by simp, rfl, ht, ⟨hsame.1.symm, hsame.2.symm⟩⟩
    · have mv := moved_of gs line2 file2 hstd' hsame ht
      obtain ⟨a, b, c⟩ := removeTop_moved mv ht
      rw [if_neg hstd]
      exact ⟨1, by omega, by rw [mv.code]; rfl, a, (ht.advanceLine trivial).removeTopPotBreak, ⟨b, c⟩⟩

theorem topLay_prog (tok file : Bytes) (line : Int) (tok2 file2 : Bytes) (line2 : Int) (l2 r2 r : Node) (s : LSt) :
    topLay (.mk NodeT.SPLIT tok file line (.mk NodeT.PROGRAM tok2 file2 line2 l2 r2) r) s =
      (splitOK s file line (.mk NodeT.PROGRAM tok2 file2 line2 l2 r2) &&
        (match stmtLay r2 (if isStd file2 then ⟨s.file, s.line, .fresh⟩ else ⟨file2, line2, .fresh⟩) with
         | some s2 => topLay r ⟨s2.file, s2.line, .fresh⟩
         | none => false)) := by
  rw [topLay, if_pos ⟨rfl, rfl⟩]
  rfl

theorem tinv_progRes {gs00 : GS} (h : TInv (fun _ => True) gs00.removeTopPotBreak) (f' : Nat) (l2 r2 : Node) :
    TInv (fun _ => True) (progRes f' gs00 l2 r2) := by
  unfold progRes progPost
  dsimp only
  exact ((((tinv_void ((tinv_progPre h _).dispatchArgs f' _) f' r2).fetchVar _).emit (by nofun) (by nofun)).popSymbols _).setLabel _ _

/-! ### the main statements -/

theorem site_main (P : Program) (src : Source) (L : List Int) (f : Nat) (gs : GS) (root : Node) (hf : nodeSize root ≤ f)
    (hs : stmtShape root = true) (hn : stmtNames root = true) (hlab : labelsOK root = true)
    (infos : List RInfo) (ps : List ProgDef)
    (hm : (stmtsOf root gs.loops ps).1 = src.main)
    (hst : Static.routineOK src src.progs.length = true)
    (ti : TopInv src gs src.progs.length infos)
    (hag : Agree L (dispatchVoid f gs root).code P.code)
    (hfin : ∀ (l : Nat) (v : Int), (dispatchVoid f gs root).labels[l]? = some v → v ≠ -1 → (L[l]?).getD (-1) = v)
    (ht : TInv (fun _ => True) gs) (s s' : LSt) (hlay : stmtLay root s = some s') (hctx : Ctx gs s)
    (hfresh : s.kind = LKind.fresh) :
    ∃ exp w kk t, BodyOut ⟨P.code, L, (dispatchVoid f gs root).top.regs, src, src.progs.length, infos, 0⟩ gs
      (dispatchVoid f gs root) src.main s' exp w kk t := by
  have sq := sq_void f gs root hf hs hn
  have tn0 : TempNamed gs.top.regs := by rw [ti.regs]; intro r h; cases h
  have ntn0 : NTNodup gs.top.regs := by unfold NTNodup; rw [ti.regs]; exact List.nodup_nil
  have ctr0 : CtrInv gs.top.regs gs.loops := by rw [ti.regs]; exact CtrInv.nil _
  have ok : RC.OK ⟨P.code, L, (dispatchVoid f gs root).top.regs, src, src.progs.length, infos, 0⟩ :=
    ⟨sq.gq.tn tn0, sq.gq.ntn ntn0, ⟨_, sq.ctr ctr0⟩⟩
  have hst' : stmtsOK src src.progs.length (stmtsOf root gs.loops ps).1 (stmtsOf root gs.loops ps).1 = true := by
    unfold Static.routineOK at hst
    rw [bodyOf_main] at hst
    rw [hm]; exact hst
  have := site_body ok f gs root hf hs hn hlab ps hst' ti.marks ti.head (RegsExt.refl _) hag
    (fun f j pd h => ti.func f j pd h) hfin ht s s' hlay hctx hfresh
  rw [hm] at this
  exact this

theorem siteProgs_nil (P : Program) (src : Source) (i : Nat) (infos : List RInfo) (pc : Nat) :
    siteProgs P src [] i infos pc = some (infos, pc) := by rw [siteProgs]

/-- what `site_top` establishes -/
structure TopOut (P : Program) (src : Source) (L : List Int) (gs b : GS) (k : Nat) (infos : List RInfo) : Prop where
  progs : ∃ infos' gm exp w kk t s', siteProgs P src (src.progs.drop k) k infos gs.code.length = some (infos', gm.code.length) ∧
    Head gm ∧ gm.lineInfo <+: b.lineInfo ∧
    BodyOut ⟨P.code, L, b.top.regs, src, src.progs.length, infos', 0⟩ gm b src.main s' exp w kk t
  li : gs.lineInfo <+: b.lineInfo

theorem site_top (P : Program) (src : Source) (L : List Int) : ∀ (f : Nat) (gs : GS) (root : Node), nodeSize root ≤ f →
    AstShape root = true → astNames root = true →
    ∀ (k : Nat) (infos : List RInfo) (ps : List ProgDef), ps.length = k →
    (stmtsOf root gs.loops ps).2.2 = src.progs → (stmtsOf root gs.loops ps).1 = src.main →
    (∀ r, r ≤ src.progs.length → Static.routineOK src r = true) → (∀ pd ∈ src.progs, pd.params.Nodup) →
    TopInv src gs k infos →
    Agree L (dispatchVoid f gs root).code P.code →
    (∀ (l : Nat) (v : Int), (dispatchVoid f gs root).labels[l]? = some v → v ≠ -1 → (L[l]?).getD (-1) = v) →
    (dispatchVoid f gs root).stackMaps <+: P.stackMaps →
    TInv (fun _ => True) gs → ∀ s : LSt, Ctx gs s → s.kind = LKind.fresh → topLay root s = true →
    (dispatchVoid f gs root).lineInfo <+: P.lineInfo → LiSorted P.lineInfo →
    TopOut P src L gs (dispatchVoid f gs root) k infos := by
  intro f
  induction f with
  | zero => intro gs root h; have := nodeSize_pos root; omega
  | succ f ih =>
    intro gs root hf hs hn k infos ps hk hp hm hst hpar ti hag hfin hM ht s hctx hfresh hlay hLI hLS
    -- the main statements
    have main : ∀ (root : Node), nodeSize root ≤ f + 1 → stmtShape root = true → stmtNames root = true → labelsOK root = true →
        (stmtsOf root gs.loops ps).2.2 = src.progs → (stmtsOf root gs.loops ps).1 = src.main →
        Agree L (dispatchVoid (f+1) gs root).code P.code →
        (∀ (l : Nat) (v : Int), (dispatchVoid (f+1) gs root).labels[l]? = some v → v ≠ -1 → (L[l]?).getD (-1) = v) →
        (stmtLay root s).isSome = true →
        TopOut P src L gs (dispatchVoid (f+1) gs root) k infos := by
      intro root hf hs' hn' hl' hp hm hag hfin hlay
      have hps : ps = src.progs := by rw [← hp, (stmts_link src k .nil root hs' gs.loops ps).1]
      have hk' : k = src.progs.length := by rw [← hps, hk]
      subst hk'
      obtain ⟨s', hs1⟩ := Option.isSome_iff_exists.1 hlay
      obtain ⟨exp, w, kk, t, bo⟩ := site_main P src L (f+1) gs root hf hs' hn' hl' infos ps hm (hst _ (Nat.le_refl _)) ti hag hfin
        ht s s' hs1 hctx hfresh
      refine ⟨⟨infos, gs, exp, w, kk, t, s', ?_, ti.head, by rw [bo.li]; exact prefix_append_self _ _, bo⟩,
        by rw [bo.li]; exact prefix_append_self _ _⟩
      rw [List.drop_of_length_le (Nat.le_refl _)]
      exact siteProgs_nil _ _ _ _ _
    cases root with
    | nil => exact main .nil hf rfl rfl rfl hp hm hag hfin (by rw [stmtLay_nil]; rfl)
    | mk t tok file line l r =>
      by_cases hpr : t = NodeT.SPLIT ∧ l.ty = NodeT.PROGRAM
      · obtain ⟨htt, hl⟩ := hpr
        subst htt
        cases l with
        | nil => simp [Node.ty, NodeT.PROGRAM] at hl
        | mk t2 tok2 file2 line2 l2 r2 =>
          have ht2 : t2 = NodeT.PROGRAM := hl
          subst ht2
          have hs' : stmtShape r2 = true ∧ AstShape r = true := by
            rw [AstShape] at hs
            simpa [Node.ty, Node.right] using hs
          have hn' : ((progNames l2 = true ∧ stmtNames r2 = true) ∧ labelsOK r2 = true) ∧ astNames r = true := by
            rw [astNames, if_pos ⟨rfl, rfl⟩] at hn
            simpa [Node.left, Node.right] using hn
          obtain ⟨⟨⟨hpn, hnr2⟩, hlab⟩, hnr⟩ := hn'
          simp only [nodeSize] at hf
          obtain ⟨f', rfl⟩ : ∃ f', f = f' + 1 := ⟨f - 1, by have := nodeSize_pos l2; have := nodeSize_pos r2; omega⟩
          -- the layout
          rw [topLay_prog, Bool.and_eq_true] at hlay
          obtain ⟨hso, hlay2⟩ := hlay
          obtain ⟨s2, hb2, hrest⟩ : ∃ s2, stmtLay r2 (if isStd file2 then ⟨s.file, s.line, .fresh⟩ else ⟨file2, line2, .fresh⟩) = some s2 ∧
              topLay r ⟨s2.file, s2.line, .fresh⟩ = true := by
            cases hb : stmtLay r2 (if isStd file2 then ⟨s.file, s.line, .fresh⟩ else ⟨file2, line2, .fresh⟩) with
            | none => rw [hb] at hlay2; cases hlay2
            | some s2 => rw [hb] at hlay2; exact ⟨s2, rfl, hlay2⟩
          have hso' : onLine s.file s.line file line = true ∨ (file2 = file ∧ line2 = line) := by
            unfold splitOK at hso
            rw [Bool.or_eq_true] at hso
            rcases hso with h | h
            · exact Or.inl h
            · simp only [Node.file, Node.line, Bool.and_eq_true] at h
              exact Or.inr ⟨of_decide_eq_true h.1.2, of_decide_eq_true h.2⟩
          -- the source side
          rw [stmtsOf_mk, if_pos rfl, stmtsOf_mk, if_neg (by decide), if_pos rfl] at hp hm
          simp only [] at hp hm
          have hB := (stmts_link src k .nil r2 hs'.1 gs.loops ps).1
          rw [hB] at hp hm
          rw [stmtsOf_loops r2 gs.loops ps] at hp hm
          obtain ⟨ext, hext⟩ := stmtsOf_prefix r (gs.loops + loopCount r2)
            (ps ++ [⟨l2.left.tok, namesOf l2.right.left, outNameOf l2.right.right, (stmtsOf r2 gs.loops ps).1⟩])
          have hprogs : src.progs = ps ++ (⟨l2.left.tok, namesOf l2.right.left, outNameOf l2.right.right, (stmtsOf r2 gs.loops ps).1⟩ :: ext) := by
            rw [← hp, hext]; simp
          have hget : src.progs[k]? = some ⟨l2.left.tok, namesOf l2.right.left, outNameOf l2.right.right, (stmtsOf r2 gs.loops ps).1⟩ := by
            rw [hprogs, ← hk]; simp
          have hklt : k < src.progs.length := (List.getElem?_eq_some_iff.1 hget).1
          have hdrop : src.progs.drop k =
              ⟨l2.left.tok, namesOf l2.right.left, outNameOf l2.right.right, (stmtsOf r2 gs.loops ps).1⟩ :: src.progs.drop (k + 1) := by
            rw [hprogs, ← hk]; simp
          have hnd : (namesOf l2.right.left).Nodup := hpar _ (List.mem_of_getElem? hget)
          -- the generator side
          rw [dispatchVoid_succ] at hag hfin hM hLI ⊢
          dsimp only at hag hfin hM hLI ⊢
          rw [if_pos rfl] at hag hfin hM hLI ⊢
          rw [dispatchVoid_program] at hag hfin hM hLI ⊢
          obtain ⟨k0, hk0, hc, hrli, hrt, hrctx⟩ := prog_hdr gs s hctx ht ti.last file line file2 line2 hso'
          obtain ⟨m1, m2, m3, m4, _⟩ := advanceLine_misc gs line file
          obtain ⟨n1, n2, n3, n4, _⟩ := advanceLine_misc (gs.advanceLine line file) line2 file2
          have hsy := (advanceLine_symbols (gs.advanceLine line file) line2 file2).trans (advanceLine_symbols gs line file)
          generalize (gs.advanceLine line file).advanceLine line2 file2 = gs00 at *
          have hfa' : nodeSize l2.right.left ≤ f' :=
            Nat.le_trans (nodeSize_left_le _) (Nat.le_trans (nodeSize_right_le _) (by have := nodeSize_pos r2; have := nodeSize_pos r; omega))
          have hfr2 : nodeSize r2 ≤ f' := by have := nodeSize_pos l2; have := nodeSize_pos r; omega
          obtain ⟨hti, htq, hll, hloops⟩ := prog_gen src f' gs gs00 k0 l2 r2 k infos ps hc hsy (n1.trans m1) (n2.trans m2)
            (n3.trans m3) (n4.trans m4) ti hfa' hfr2 hs'.1 hnr2 hlab hpn hget (hst k (Nat.le_of_lt hklt)) hnd
          have htres := tinv_progRes hrt f' l2 r2
          have hfresh1 : (if isStd file2 then (⟨s.file, s.line, .fresh⟩ : LSt) else ⟨file2, line2, .fresh⟩).kind = LKind.fresh := by
            split <;> rfl
          -- the generator side of the definition: its line table and file context
          obtain ⟨exp0, po⟩ := (site_prog
            ⟨(progRes f' gs00 l2 r2).code.mapIdx (fun p i => patch (progRes f' gs00 l2 r2).labels p i), (progRes f' gs00 l2 r2).stackMaps,
              (progRes f' gs00 l2 r2).potBreaks, (progRes f' gs00 l2 r2).lineInfo⟩
            src (progRes f' gs00 l2 r2).labels f' gs gs00 k0 l2 r2 k infos ps [] hc hk0 hsy (n1.trans m1) (n2.trans m2) (n3.trans m3)
            (n4.trans m4) ti hfa' hfr2 hs'.1 hnr2 hlab hpn hget (hst k (Nat.le_of_lt hklt)) hnd
            (by intro p i _ hi; show (List.mapIdx _ _)[p]? = _; rw [List.getElem?_mapIdx, hi]; rfl)
            (by intro l v h _; rw [h]; rfl) (List.prefix_refl _) hrli hrt _ s2 hrctx hfresh1 hb2 (List.prefix_refl _) htres.1.liS).2
          have hrest' := ih (progRes f' gs00 l2 r2) r (by have := nodeSize_pos l2; have := nodeSize_pos r2; omega) hs'.2 hnr
            (k + 1) (infos ++ [progRi f' gs gs00 k0 l2 r2 k])
            (ps ++ [⟨l2.left.tok, namesOf l2.right.left, outNameOf l2.right.right, (stmtsOf r2 gs.loops ps).1⟩])
            (by simp [hk]) (by rw [hloops]; exact hp) (by rw [hloops]; exact hm) hst hpar hti hag hfin hM
            htres ⟨s2.file, s2.line, .fresh⟩ ⟨po.ctx.file, po.ctx.line⟩ rfl hrest hLI hLS
          obtain ⟨_, _, _, h4⟩ := top_corr P src L (f'+1) (progRes f' gs00 l2 r2) r
            (by have := nodeSize_pos l2; have := nodeSize_pos r2; omega) hs'.2 hnr
            (k + 1) (infos ++ [progRi f' gs gs00 k0 l2 r2 k])
            (ps ++ [⟨l2.left.tok, namesOf l2.right.left, outNameOf l2.right.right, (stmtsOf r2 gs.loops ps).1⟩])
            (by simp [hk]) (by rw [hloops]; exact hp) (by rw [hloops]; exact hm) hst hpar hti hag hfin hM
            (progRes f' gs00 l2 r2).code.length rfl
          obtain ⟨⟨infos', gm, exp, w, kk, tt, s', c1, c2, c3, c4⟩, hli⟩ := hrest'
          have hstep := (site_prog P src L f' gs gs00 k0 l2 r2 k infos ps (src.progs.drop (k + 1)) hc hk0 hsy (n1.trans m1)
            (n2.trans m2) (n3.trans m3) (n4.trans m4) ti hfa' hfr2 hs'.1 hnr2 hlab hpn hget (hst k (Nat.le_of_lt hklt)) hnd
            (hag.of_prefix h4.code)
            (fun x v hx hv => hfin x v (by rw [h4.labels x (List.getElem?_eq_some_iff.1 hx).1]; exact hx) hv)
            (h4.stackMaps.trans hM) hrli hrt _ s2 hrctx hfresh1 hb2 (hli.trans hLI) hLS).1
          refine ⟨⟨infos', gm, exp, w, kk, tt, s', ?_, c2, c3, c4⟩, ?_⟩
          · rw [hdrop, hstep]; exact c1
          · refine List.IsPrefix.trans ?_ hli
            rw [po.li]; exact prefix_append_self _ _
      · have hs' : stmtShape (.mk t tok file line l r) = true := by
          rw [AstShape, if_neg hpr] at hs; exact hs
        have hn' : stmtNames (.mk t tok file line l r) = true ∧ labelsOK (.mk t tok file line l r) = true := by
          rw [astNames, if_neg hpr, Bool.and_eq_true] at hn; exact hn
        rw [topLay, if_neg hpr] at hlay
        exact main _ hf hs' hn'.1 hn'.2 hp hm hag hfin hlay

end GenSites
end Theo
