/-
  C07 for the generator model, part 1: vocabulary.
  Exact positions (`skipc` against real instructions), the positions of the sites of a piece of
  code (`pbPos`) and what the validator reads (`sitePositions`), `advanceLine` as "no-op or one
  site", the line table growing at the end, and the algebra of the site walk (`sitesStmts`).
-/
import Theo.Proofs.GenShapeGen
import Theo.Proofs.GenTables
import Theo.Proofs.SimEvents
import Theo.Spec.Layout

set_option linter.unusedSimpArgs false
set_option linter.unusedVariables false

namespace Theo
namespace GenSites
open GS Sem Static GenShape Layout

/-! ### exact positions -/

theorem skipc_le_of_real {C : List Instr} : ∀ (d p q : Nat), q = p + d → C[q]? ≠ some Instr.potBreak → skipc C p ≤ q := by
  intro d
  induction d with
  | zero =>
    intro p q hq hr
    subst hq
    rw [Sim.skipc_of_not_pb hr]
    exact Nat.le_refl _
  | succ d ih =>
    intro p q hq hr
    by_cases hp : C[p]? = some Instr.potBreak
    · rw [skipc_pb hp]
      exact ih (p + 1) q (by omega) hr
    · rw [Sim.skipc_of_not_pb hp]; omega

theorem skipc_le_real {C : List Instr} {p q : Nat} (hpq : p ≤ q) (hr : C[q]? ≠ some Instr.potBreak) : skipc C p ≤ q :=
  skipc_le_of_real (q - p) p q (by omega) hr

/-- two positions with the same anchor, both directly behind a real instruction, are equal -/
theorem pc_exact {C : List Instr} {pc len : Nat} (h : skipc C pc = skipc C len)
    (h1 : 0 < pc) (hpc : C[pc - 1]? ≠ some Instr.potBreak)
    (h2 : 0 < len) (hlen : C[len - 1]? ≠ some Instr.potBreak) : pc = len := by
  rcases Nat.lt_trichotomy pc len with hlt | heq | hgt
  · exfalso
    have a := skipc_le_real (C := C) (p := pc) (q := len - 1) (by omega) hlen
    have b := Sim.le_skipc C len
    omega
  · exact heq
  · exfalso
    have a := skipc_le_real (C := C) (p := len) (q := pc - 1) (by omega) hpc
    have b := Sim.le_skipc C pc
    omega

/-- … the same when the generator's code since `lo` is free of sites and the validator moved past `lo` -/
theorem pc_exact_clean {C : List Instr} {pc lo len : Nat} (h : skipc C pc = skipc C len)
    (hpc : C[pc - 1]? ≠ some Instr.potBreak) (hlo : lo < pc)
    (hclean : ∀ p, lo ≤ p → p < len → C[p]? ≠ some Instr.potBreak) : pc = len := by
  rcases Nat.lt_trichotomy pc len with hlt | heq | hgt
  · exfalso
    have a : skipc C pc = pc := Sim.skipc_of_not_pb (hclean pc (by omega) hlt)
    have b := Sim.le_skipc C len
    omega
  · exact heq
  · exfalso
    have a := skipc_le_real (C := C) (p := len) (q := pc - 1) (by omega) hpc
    have b := Sim.le_skipc C pc
    omega

theorem real_of_at {e : VEnv} {q : Nat} {i : Instr} (h : e.at q = some i) :
    e.code[e.next q - 1]? ≠ some Instr.potBreak := by
  unfold VEnv.next
  rw [Nat.add_sub_cancel]
  exact Sim.skipc_not_pb e.code q

/-! ### where a simple statement ends -/

theorem checkValue_end {e : VEnv} : ∀ {v : Value} {live : List Int} {pc : Nat} {tgt : Int} {pc' : Nat},
    checkValue e v live pc = some (tgt, pc') → skipc e.code pc < pc' ∧ e.code[pc' - 1]? ≠ some Instr.potBreak := by
  intro v live pc tgt pc' h
  have hlt : skipc e.code pc < pc' := by
    rw [← Sim.checkValue_skipc] at h
    exact Sim.checkValue_lt h
  refine ⟨hlt, ?_⟩
  cases v with
  | var y =>
    obtain ⟨_, _, ha, _, rfl⟩ := Sim.checkValue_var h
    exact real_of_at ha
  | num n =>
    obtain ⟨ha, _, _, rfl⟩ := Sim.checkValue_num h
    exact real_of_at ha
  | inc y k =>
    have h' : checkIncDec e y k true live pc = some (tgt, pc') := by simpa only [checkValue] using h
    obtain ⟨_, _, _, _, _, _, _, _, _, _, ha, _, _, rfl⟩ := Sim.checkIncDec_inv h'
    exact real_of_at ha
  | dec y k =>
    have h' : checkIncDec e y k false live pc = some (tgt, pc') := by simpa only [checkValue] using h
    obtain ⟨_, _, _, _, _, _, _, _, _, _, ha, _, _, rfl⟩ := Sim.checkIncDec_inv h'
    exact real_of_at ha
  | call f args =>
    obtain ⟨temps, pc1, _, j, pd, ri, cnt, pc2, _, _, _, _, _, _, ha, rfl⟩ := Sim.checkValue_call h
    exact real_of_at ha

theorem simple_end {e : VEnv} {s : Stmt} (hs : Sim.isSimple s = true) {w w' : Walk} (h : checkStmt e s w = some w') :
    skipc e.code w.pc < w'.pc ∧ e.code[w'.pc - 1]? ≠ some Instr.potBreak := by
  cases s with
  | assign x v pos =>
    obtain ⟨rx, pc1, h1, _, rfl⟩ := Sim.checkStmt_assign_inv h
    exact checkValue_end h1
  | goto m pos =>
    obtain ⟨off, ha, rfl⟩ := Sim.checkStmt_goto_inv h
    exact ⟨by show _ < e.next w.pc; unfold VEnv.next; omega, real_of_at ha⟩
  | ifGoto x cst m pos =>
    obtain ⟨rx, t1, t2, t0, off, _, _, _, _, _, _, _, _, _, ha, rfl⟩ := Sim.checkStmt_ifGoto_inv h
    refine ⟨?_, real_of_at ha⟩
    show _ < e.next (e.next (e.next (e.next w.pc)))
    have l1 : skipc e.code w.pc < e.next w.pc := by unfold VEnv.next; omega
    have l2 := Sim.lt_next e (e.next w.pc)
    have l3 := Sim.lt_next e (e.next (e.next w.pc))
    have l4 := Sim.lt_next e (e.next (e.next (e.next w.pc)))
    omega
  | stop pos =>
    obtain ⟨ha, rfl⟩ := Sim.checkStmt_stop_inv h
    exact ⟨by show _ < e.next w.pc; unfold VEnv.next; omega, real_of_at ha⟩
  | mark _ _ => cases hs
  | loop _ _ _ _ => cases hs
  | while_ _ _ _ => cases hs

/-! ### the sites of a piece of code -/

/-- positions of the sites of `t`, when `t` starts at position `base` -/
def pbPos : List Instr → Nat → List Nat
  | [], _ => []
  | i :: is, b => if i = Instr.potBreak then b :: pbPos is (b + 1) else pbPos is (b + 1)

theorem pbPos_append : ∀ (a b : List Instr) (base : Nat), pbPos (a ++ b) base = pbPos a base ++ pbPos b (base + a.length)
  | [], b, base => by simp [pbPos]
  | i :: is, b, base => by
    simp only [List.cons_append, pbPos, List.length_cons]
    rw [pbPos_append is b (base + 1)]
    have : base + 1 + is.length = base + (is.length + 1) := by omega
    rw [this]
    split <;> simp

theorem pbPos_clean : ∀ (t : List Instr) (base : Nat), (∀ i ∈ t, i ≠ Instr.potBreak) → pbPos t base = []
  | [], _, _ => rfl
  | i :: is, base, h => by
    simp only [pbPos]
    rw [if_neg (h i List.mem_cons_self)]
    exact pbPos_clean is (base + 1) (fun x hx => h x (List.mem_cons_of_mem _ hx))

theorem pbPos_site (base : Nat) : pbPos [Instr.potBreak] base = [base] := by simp [pbPos]

theorem pbPos_one {i : Instr} (h : i ≠ Instr.potBreak) (base : Nat) : pbPos [i] base = [] := by simp [pbPos, h]

theorem sitePositions_aux (C : List Instr) : ∀ (t : List Instr) (lo : Nat),
    (∀ i, i < t.length → (C[lo + i]? = some Instr.potBreak ↔ t[i]? = some Instr.potBreak)) →
    (List.range t.length).filterMap (fun k => if C[lo + k]? = some Instr.potBreak then some (lo + k) else none) = pbPos t lo
  | [], lo, _ => rfl
  | x :: xs, lo, h => by
    rw [List.length_cons, List.range_succ_eq_map, List.filterMap_cons, List.filterMap_map]
    have h0 := h 0 (by simp)
    simp only [Nat.add_zero, List.getElem?_cons_zero, Option.some.injEq] at h0
    have ih := sitePositions_aux C xs (lo + 1) (by
      intro i hi
      have := h (i + 1) (by simp; omega)
      rw [show lo + 1 + i = lo + (i + 1) by omega]
      simpa using this)
    have hfun : ((fun k => if C[lo + k]? = some Instr.potBreak then some (lo + k) else none) ∘ Nat.succ) =
        (fun k => if C[lo + 1 + k]? = some Instr.potBreak then some (lo + 1 + k) else none) := by
      funext k
      simp only [Function.comp, Nat.succ_eq_add_one]
      rw [show lo + (k + 1) = lo + 1 + k by omega]
    rw [hfun, ih]
    simp only [pbPos, Nat.add_zero]
    by_cases hx : x = Instr.potBreak
    · rw [if_pos hx, if_pos (h0.2 hx)]
    · rw [if_neg hx, if_neg (fun hc => hx (h0.1 hc))]

/-- the sites the validator finds in a region are those of the generator's code there -/
theorem sitePositions_eq (C : List Instr) (t : List Instr) (lo hi : Nat) (hhi : hi = lo + t.length)
    (h : ∀ i, i < t.length → (C[lo + i]? = some Instr.potBreak ↔ t[i]? = some Instr.potBreak)) :
    sitePositions C lo hi = pbPos t lo := by
  unfold sitePositions
  rw [hhi, Nat.add_sub_cancel_left]
  exact sitePositions_aux C t lo h

theorem patch_pb_iff (L : List Int) (p : Nat) (i : Instr) : patch L p i = Instr.potBreak ↔ i = Instr.potBreak := by
  cases i <;> simp [patch]

/-- backpatching keeps sites and non-sites -/
theorem agree_pb_iff {L : List Int} {code C : List Instr} (ha : Agree L code C) {p : Nat} (h0 : 0 < p) (hp : p < code.length) :
    C[p]? = some Instr.potBreak ↔ code[p]? = some Instr.potBreak := by
  have hc : code[p]? = some code[p] := List.getElem?_eq_getElem hp
  rw [ha p _ h0 hc, hc]
  simp only [Option.some.injEq]
  exact patch_pb_iff L p _

/-! ### `advanceLine`: nothing, or one site -/

theorem advanceLine_std (gs : GS) (line : Int) (file : Bytes) (h : file = ConstGen.genStdFileName) :
    gs.advanceLine line file = gs := by
  unfold advanceLine; rw [if_pos h]

theorem advanceLine_same (gs : GS) (line : Int) (file : Bytes) (hf : file = gs.fsName) (hl : line = gs.fsLine) :
    gs.advanceLine line file = gs := by
  subst hf; subst hl
  unfold advanceLine
  split
  · rfl
  · simp

theorem advanceLine_move (gs : GS) (line : Int) (file : Bytes) (hs : file ≠ ConstGen.genStdFileName)
    (hm : ¬ (file = gs.fsName ∧ line = gs.fsLine)) :
    gs.advanceLine line file = ({ gs with fsName := file, fsLine := line } : GS).breakpoint := by
  unfold advanceLine
  rw [if_neg hs]
  dsimp only
  by_cases hf : gs.fsName = file
  · have hl : line ≠ gs.fsLine := fun h => hm ⟨hf.symm, h⟩
    have hc : gs.fsName = file ∧ line ≠ gs.fsLine := ⟨hf, hl⟩
    simp only [if_pos hc]
    have : ¬ (({ gs with fsLine := line } : GS).breakpoint.fsName ≠ file) := by
      show ¬ (gs.fsName ≠ file); simp [hf]
    rw [if_neg this]
    subst hf
    rfl
  · have hc : ¬ (gs.fsName = file ∧ line ≠ gs.fsLine) := fun h => hf h.1
    simp only [if_neg hc]
    rw [if_pos hf]

/-- the state after one site was emitted for the (new) current line -/
structure Moved (gs gs0 : GS) (file : Bytes) (line : Int) : Prop where
  code : gs0.code = gs.code ++ [Instr.potBreak]
  lineInfo : gs0.lineInfo = gs.lineInfo ++ [((gs.code.length : Int), ⟨file, line⟩)]
  fsName : gs0.fsName = file
  fsLine : gs0.fsLine = line

theorem moved_of (gs : GS) (line : Int) (file : Bytes) (hs : file ≠ ConstGen.genStdFileName)
    (hm : ¬ (file = gs.fsName ∧ line = gs.fsLine)) (ht : TInv (fun _ => True) gs) :
    Moved gs (gs.advanceLine line file) file line := by
  rw [advanceLine_move gs line file hs hm]
  refine ⟨rfl, ?_, rfl, rfl⟩
  show sortedInsert liLt true (_, _) gs.lineInfo = _
  exact insert_li_append _ _ _ (fun e he => (ht.1.rng e he).2)

/-! ### the site walk -/

theorem sitesStmts_nil (e : VEnv) (w : Walk) (k : Nat) (prev : Prev) : sitesStmts e .nil w k prev = some ([], w, k, prev) := by
  rw [sitesStmts.eq_def]

theorem sitesStmts_cons_ok {e : VEnv} {s : Stmt} {ss : Stmts} {w w1 w2 : Walk} {k k1 k2 : Nat} {prev prev1 prev2 : Prev}
    {l1 l2 : List ESite} (h1 : sitesStmt e s w k prev = some (l1, w1, k1, prev1))
    (h2 : sitesStmts e ss w1 k1 prev1 = some (l2, w2, k2, prev2)) :
    sitesStmts e (.cons s ss) w k prev = some (l1 ++ l2, w2, k2, prev2) := by
  rw [sitesStmts.eq_def]
  simp only [h1, h2]

theorem sitesStmts_single {e : VEnv} {s : Stmt} {w w1 : Walk} {k k1 : Nat} {prev prev1 : Prev} {l1 : List ESite}
    (h1 : sitesStmt e s w k prev = some (l1, w1, k1, prev1)) :
    sitesStmts e (.cons s .nil) w k prev = some (l1, w1, k1, prev1) := by
  have := sitesStmts_cons_ok h1 (sitesStmts_nil e w1 k1 prev1)
  simpa using this

theorem sitesStmts_append_ok {e : VEnv} : ∀ {a b : Stmts} {w w1 w2 : Walk} {k k1 k2 : Nat} {prev prev1 prev2 : Prev}
    {l1 l2 : List ESite}, sitesStmts e a w k prev = some (l1, w1, k1, prev1) →
    sitesStmts e b w1 k1 prev1 = some (l2, w2, k2, prev2) →
    sitesStmts e (a.append b) w k prev = some (l1 ++ l2, w2, k2, prev2)
  | .nil, b, w, w1, w2, k, k1, k2, prev, prev1, prev2, l1, l2, h1, h2 => by
    obtain ⟨rfl, rfl, rfl, rfl⟩ := Sim.sitesStmts_nil_inv h1
    simpa [Stmts.append] using h2
  | .cons s ss, b, w, w1, w2, k, k1, k2, prev, prev1, prev2, l1, l2, h1, h2 => by
    obtain ⟨la, wa, ka, pa, lb, ha, hb, rfl⟩ := Sim.sitesStmts_cons_inv h1
    have := sitesStmts_append_ok hb h2
    simp only [Stmts.append]
    rw [List.append_assoc]
    exact sitesStmts_cons_ok ha this

/-- simple statements and marks -/
theorem sitesStmt_simple_ok {e : VEnv} {s : Stmt} (hs : Sim.isSimple s = true) {w w' : Walk} {k : Nat} {prev : Prev}
    (hc : (Sim.sameLine prev s && !Sim.afterMk prev) = false) (h : checkStmt e s w = some w') :
    sitesStmt e s w k prev = some (Sim.hereOf w k prev s, w', 0, some (s.pos, false)) := by
  rw [Sim.sitesStmt_unfold]
  have hm : isMark s = false := by cases s <;> simp [Sim.isSimple] at hs <;> rfl
  rw [hm, Bool.or_false, hc]
  simp only [Bool.false_eq_true, if_false]
  cases s <;> simp [Sim.isSimple] at hs <;> simp only [h]

theorem sitesStmt_mark_ok {e : VEnv} {m : Name} {q : Pos} {w : Walk} {k : Nat} {prev : Prev}
    (hc : Sim.sameLine prev (.mark m q) = false) :
    sitesStmt e (.mark m q) w k prev =
      some ([(w.pc + k, q, some m)], { w with marks := w.marks ++ [(m, w.pc)] }, k + 1, some (q, true)) := by
  rw [Sim.sitesStmt_unfold, hc]
  simp only [Bool.false_and, Bool.false_eq_true, if_false, checkStmt, Sim.hereOf, Sim.kOf, hc]
  rfl

theorem sitesStmt_loop_ok {e : VEnv} {id : Nat} {x : Name} {body : Stmts} {q : Pos} {w w' wb : Walk} {k kb : Nat}
    {prev pb : Prev} {lb : List ESite}
    (hc : (Sim.sameLine prev (.loop id x body q) && !Sim.afterMk prev) = false)
    (hb : sitesStmts e body { w with pc := w.pc + Sim.kOf k prev (.loop id x body q) + 2 } 0 (some (q, false)) = some (lb, wb, kb, pb))
    (h : checkStmt e (.loop id x body q) w = some w')
    (hj : loopJumpsExact e.code (w.pc + Sim.kOf k prev (.loop id x body q) + 1) (w.pc + Sim.kOf k prev (.loop id x body q) + 1) w'.pc = true) :
    sitesStmt e (.loop id x body q) w k prev = some (Sim.hereOf w k prev (.loop id x body q) ++ lb, w', 0, none) := by
  rw [Sim.sitesStmt_unfold]
  have hm : isMark (.loop id x body q) = false := rfl
  rw [hm, Bool.or_false, hc]
  simp only [Bool.false_eq_true, if_false]
  have hb' : sitesStmts e body { w with pc := w.pc + Sim.kOf k prev (.loop id x body q) + 2 } 0
      (some ((Stmt.loop id x body q).pos, false)) = some (lb, wb, kb, pb) := hb
  simp only [hb', h, hj, if_true]

theorem sitesStmt_while_ok {e : VEnv} {x : Name} {body : Stmts} {q : Pos} {w w' wb : Walk} {k kb : Nat}
    {prev pb : Prev} {lb : List ESite}
    (hc : (Sim.sameLine prev (.while_ x body q) && !Sim.afterMk prev) = false)
    (hb : sitesStmts e body { w with pc := w.pc + Sim.kOf k prev (.while_ x body q) + 2 } 0 (some (q, false)) = some (lb, wb, kb, pb))
    (h : checkStmt e (.while_ x body q) w = some w')
    (hj : loopJumpsExact e.code (w.pc + Sim.kOf k prev (.while_ x body q) + 1) (w.pc + Sim.kOf k prev (.while_ x body q)) w'.pc = true) :
    sitesStmt e (.while_ x body q) w k prev = some (Sim.hereOf w k prev (.while_ x body q) ++ lb, w', 0, none) := by
  rw [Sim.sitesStmt_unfold]
  have hm : isMark (.while_ x body q) = false := rfl
  rw [hm, Bool.or_false, hc]
  simp only [Bool.false_eq_true, if_false]
  have hb' : sitesStmts e body { w with pc := w.pc + Sim.kOf k prev (.while_ x body q) + 2 } 0
      (some ((Stmt.while_ x body q).pos, false)) = some (lb, wb, kb, pb) := hb
  simp only [hb', h, hj, if_true]

end GenSites
end Theo
