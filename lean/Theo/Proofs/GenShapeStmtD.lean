/-
  C01 for the generator model, part 9: the statement kinds without a body — assignment, STOP,
  GOTO, label, IF … THEN GOTO — pass `checkStmt`.
-/
import Theo.Proofs.GenShapeStmtC

set_option linter.unusedSimpArgs false
set_option linter.unusedVariables false

namespace Theo
namespace GenShape
open GS Sem Static

theorem patch_jmp (L : List Int) (p : Nat) (lab : Nat) :
    patch L p (.jmp (lab : Int)) = .jmp ((L[lab]?).getD (-1) - (p : Int)) := by
  simp [patch]
theorem patch_jmpc (L : List Int) (p : Nat) (lab : Nat) (s : Int) :
    patch L p (.jmpc (lab : Int) s) = .jmpc ((L[lab]?).getD (-1) - (p : Int)) s := by
  simp [patch]

/-- the validator's anchored position is the generator's position when an instruction sits there -/
theorem At.skip_eq {X : RC} {pc : Nat} {gs : GS} (h : At X pc gs) {i : Instr} {t code : List Instr}
    (hp : gs.code ++ i :: t <+: code) (ha : Agree X.L code X.C) (hi : i ≠ Instr.potBreak) :
    skipc X.C pc = gs.code.length := by
  have hc : X.C[gs.code.length]? = some (patch X.L gs.code.length i) :=
    ha _ _ h.pos (prefix_getElem? hp (getElem?_append_len _ _ _))
  rw [h.eq]
  exact skipc_eq_self hc (patch_ne_pb _ _ hi)

theorem defsOf_leaf {t : Nat} (tok file : Bytes) (line : Int) (l r : Node) (h1 : t ≠ NodeT.SPLIT) (h2 : t ≠ NodeT.LOOP)
    (h3 : t ≠ NodeT.WHILE) (h4 : t ≠ NodeT.MARK) : defsOf (.mk t tok file line l r) = [] := by
  rw [defsOf_mk, if_neg h1, if_neg (by intro h; rcases h with h | h; exact h2 h; exact h3 h), if_neg h4]

theorem refsOf_leaf {t : Nat} (tok file : Bytes) (line : Int) (l r : Node) (h1 : t ≠ NodeT.SPLIT) (h2 : t ≠ NodeT.LOOP)
    (h3 : t ≠ NodeT.WHILE) (h4 : t ≠ NodeT.GOTO) (h5 : t ≠ NodeT.IF) : refsOf (.mk t tok file line l r) = [] := by
  rw [refsOf_mk, if_neg h1, if_neg (by intro h; rcases h with h | h; exact h2 h; exact h3 h), if_neg h4, if_neg h5]

/-! ### assignment -/

theorem assign_corr {X : RC} (ok : X.OK) (f : Nat) (gs0 : GS) (tok file : Bytes) (line : Int) (l r : Node)
    (hf : nodeSize r ≤ f) (hnil : isNil r = false) (hsr : valShape false r = true) (hnr : valNames r = true)
    (hx : PV l.tok) (hv : valueOK X.src X.rt (valueOf r) = true) (pos : Pos)
    (lk : SLinks X (dispatchValue f (gs0.fetchVar l.tok).1 r (gs0.fetchVar l.tok).2)) :
    SCorr X gs0 (dispatchValue f (gs0.fetchVar l.tok).1 r (gs0.fetchVar l.tok).2)
      (.mk NodeT.ASSIGN tok file line l r) (.cons (.assign l.tok (valueOf r) pos) .nil) := by
  intro w hat
  have fv := fetchVar_spec PV gs0 l.tok hx
  have vk := vk_value f (gs0.fetchVar l.tok).1 r (gs0.fetchVar l.tok).2 hnr
  have hat1 : At X w.pc (gs0.fetchVar l.tok).1 := ⟨by rw [fv.code]; exact hat.eq, by rw [fv.code]; exact hat.pos⟩
  obtain ⟨i, rg, e1, e2, e3⟩ := fv.reg
  obtain ⟨pc', cv, at'⟩ := (value_corr ok f).1 (gs0.fetchVar l.tok).1 r (gs0.fetchVar l.tok).2 [] w.pc hf hnil hsr hnr hv
    lk.toVLinks (LiveOK.nil _) rfl hat1
  have hreg := regOf_of_links ok (vk.vq.regs.trans lk.regs) e2 e3 hx
  rw [e1] at cv
  refine ⟨{ w with pc := pc' }, ?_, SRes.empty at' rfl rfl ?_ ?_⟩
  · rw [checkStmts_single]; exact checkStmt_assign_ok cv hreg
  · exact defsOf_leaf _ _ _ _ _ (by decide) (by decide) (by decide) (by decide)
  · exact refsOf_leaf _ _ _ _ _ (by decide) (by decide) (by decide) (by decide) (by decide)

/-! ### STOP -/

theorem stop_corr {X : RC} (gs0 : GS) (tok file : Bytes) (line : Int) (l r : Node) (pos : Pos)
    (lk : SLinks X (gs0.emit .halt)) :
    SCorr X gs0 (gs0.emit .halt) (.mk NodeT.STOP tok file line l r) (.cons (.stop pos) .nil) := by
  intro w hat
  obtain ⟨a1, a2⟩ := hat.instr (i := .halt) (t := []) (List.prefix_refl _) lk.agree (by intro h; cases h)
  refine ⟨{ w with pc := X.e.next w.pc }, ?_, SRes.empty ?_ rfl rfl ?_ ?_⟩
  · rw [checkStmts_single]; exact checkStmt_stop_ok (by rw [a1]; rfl)
  · show At X (X.e.next w.pc) _
    rw [a2]
    exact ⟨by simp [emit], by simp [emit]⟩
  · exact defsOf_leaf _ _ _ _ _ (by decide) (by decide) (by decide) (by decide)
  · exact refsOf_leaf _ _ _ _ _ (by decide) (by decide) (by decide) (by decide) (by decide)

/-! ### GOTO -/

theorem goto_corr {X : RC} (gs0 : GS) (tok file : Bytes) (line : Int) (l r : Node) (pos : Pos)
    (lk : SLinks X ((gs0.markLabel l.tok).1.emitBackpatched (.jmp (gs0.markLabel l.tok).2))) :
    SCorr X gs0 ((gs0.markLabel l.tok).1.emitBackpatched (.jmp (gs0.markLabel l.tok).2))
      (.mk NodeT.GOTO tok file line l r) (.cons (.goto l.tok pos) .nil) := by
  intro w hat
  have ms := markLabel_spec gs0 l.tok
  have hcode : ((gs0.markLabel l.tok).1.emitBackpatched (.jmp (gs0.markLabel l.tok).2)).code =
      gs0.code ++ [.jmp ((gs0.markLabel l.tok).2 : Int)] := by rw [emitBackpatched_code, ms.code]
  obtain ⟨a1, a2⟩ := hat.instr (t := []) (by rw [hcode]; exact List.prefix_refl _) lk.agree (by intro h; cases h)
  have a3 := hat.skip_eq (t := []) (by rw [hcode]; exact List.prefix_refl _) lk.agree (by intro h; cases h)
  rw [patch_jmp] at a1
  refine ⟨_, by rw [checkStmts_single]; exact checkStmt_goto_ok a1, ?_, ?_, ?_⟩
  · show At X (X.e.next w.pc) _
    rw [a2]
    exact ⟨by rw [hcode]; simp, by rw [hcode]; simp⟩
  · exact ⟨[], by simp, by
      rw [defsOf_leaf _ _ _ _ _ (by decide) (by decide) (by decide) (by decide)]; rfl, fun m pc h => by simp at h⟩
  · refine ⟨[(skipc X.C w.pc, (X.L[(gs0.markLabel l.tok).2]?).getD (-1) - (gs0.code.length : Int), l.tok)], rfl, ?_, ?_⟩
    · rw [refsOf_mk]; simp [NodeT.GOTO, NodeT.SPLIT, NodeT.LOOP, NodeT.WHILE]
    · intro g hg
      simp at hg
      subst hg
      refine ⟨(gs0.markLabel l.tok).2, ms.mem, ?_⟩
      simp only
      rw [a3]; omega

/-! ### labels -/

theorem mark_corr {X : RC} (gs0 : GS) (tok file : Bytes) (line : Int) (l r : Node) (pos : Pos) (w0 : MarksWF gs0)
    (hd : Head gs0)
    (lk : SLinks X ((gs0.markLabel l.tok).1.setLabel (gs0.markLabel l.tok).2 (gs0.markLabel l.tok).1.markPos)) :
    SCorr X gs0 ((gs0.markLabel l.tok).1.setLabel (gs0.markLabel l.tok).2 (gs0.markLabel l.tok).1.markPos)
      (.mk NodeT.MARK tok file line l r) (.cons (.mark l.tok pos) .nil) := by
  intro w hat
  have ms := markLabel_spec gs0 l.tok
  have hlt : (gs0.markLabel l.tok).2 < (gs0.markLabel l.tok).1.labels.length := ms.lt w0
  have hcode : ((gs0.markLabel l.tok).1.setLabel (gs0.markLabel l.tok).2 (gs0.markLabel l.tok).1.markPos).code = gs0.code := ms.code
  refine ⟨{ w with marks := w.marks ++ [(l.tok, w.pc)] }, by rw [checkStmts_single]; simp only [checkStmt], ?_, ?_, ?_⟩
  · exact ⟨by rw [hcode]; exact hat.eq, by rw [hcode]; exact hat.pos⟩
  · refine ⟨[(l.tok, w.pc)], rfl, ?_, ?_⟩
    · rw [defsOf_mk]; simp [NodeT.MARK, NodeT.SPLIT, NodeT.LOOP, NodeT.WHILE]
    · intro m pc h
      have hm : m = l.tok ∧ pc = w.pc := by
        by_cases hml : l.tok = m
        · simp [hml] at h; exact ⟨hml.symm, h.symm⟩
        · simp [hml] at h
      obtain ⟨rfl, rfl⟩ := hm
      refine ⟨(gs0.markLabel l.tok).2, (gs0.markLabel l.tok).1.markPos, ms.mem, setLabel_get_eq _ _ _ hlt, ?_, ?_⟩
      · unfold markPos nextPos
        split
        · rename_i hl
          have : (gs0.markLabel l.tok).1.code ≠ [] := by intro h0; simp [lastIsSite, h0] at hl
          have := List.length_pos_iff.2 this
          omega
        · omega
      · -- the mark position anchors where the validator stands
        unfold markPos nextPos
        rw [ms.code]
        split
        · rename_i hl
          have hl' : gs0.code.getLast? = some Instr.potBreak := by
            have : (gs0.markLabel l.tok).1.lastIsSite = true := hl
            unfold lastIsSite at this
            rw [ms.code] at this
            simpa using this
          rw [List.getLast?_eq_getElem?] at hl'
          have hpos := hat.pos
          have h1 : 0 < gs0.code.length - 1 := by
            refine Nat.pos_of_ne_zero fun h0 => ?_
            obtain ⟨i, hi1, hi2⟩ := hd
            rw [h0] at hl'
            rw [hl'] at hi1
            exact hi2 (Option.some.inj hi1).symm
          have hC : X.C[gs0.code.length - 1]? = some Instr.potBreak := by
            have := lk.agree (gs0.code.length - 1) _ h1 (by rw [hcode]; exact hl')
            rw [this]; rfl
          have : ((gs0.code.length : Int) - 1).toNat = gs0.code.length - 1 := by omega
          rw [this, skipc_pb hC, hat.eq]
          congr 1; omega
        · rw [Int.toNat_natCast]; exact hat.eq.symm
  · exact ⟨[], by simp, by
      rw [refsOf_leaf _ _ _ _ _ (by decide) (by decide) (by decide) (by decide) (by decide)]; rfl, fun g h => by cases h⟩

end GenShape
end Theo
