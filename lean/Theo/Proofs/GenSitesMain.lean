/-
  C07 for the generator model, part 6: `site_corr`, the induction over `dispatchVoid`.
-/
import Theo.Proofs.GenSitesCorr

set_option linter.unusedSimpArgs false
set_option linter.unusedVariables false

namespace Theo
namespace GenSites
open GS Sem Static GenShape Layout

theorem tinv_void {gs : GS} (ht : TInv (fun _ => True) gs) (f : Nat) (n : Node) :
    TInv (fun _ => True) (dispatchVoid f gs n) := dispatchVoid_inv _ f gs n (allPos_true n) ht

theorem tinv_value {gs : GS} (ht : TInv (fun _ => True) gs) (f : Nat) (n : Node) (tgt : Int) :
    TInv (fun _ => True) (dispatchValue f gs n tgt) := ht.dispatchValue f (allPos_true n) tgt

theorem head_pos {gs : GS} (hd : Head gs) : 0 < gs.code.length := by
  obtain ⟨i, h1, _⟩ := hd
  exact (List.getElem?_eq_some_iff.1 h1).1

theorem nosite_ifPre (gs0 : GS) : NoSite gs0 (ifPre gs0).1 := by
  unfold ifPre
  dsimp only
  exact ((nosite_fetchTemporary gs0).trans (nosite_fetchTemporary _)).trans (nosite_fetchTemporary _)

theorem nosite_ifPost (g : GS) (cond op1 op2 : Int) (m : Bytes) : NoSite g (ifPost g cond op1 op2 m) := by
  unfold ifPost
  dsimp only
  exact (((((nosite_emit g (by intro h; cases h)).trans (nosite_markLabel _ _)).trans
    (nosite_emitBackpatched _ (by intro h; cases h))).trans (nosite_releaseTemporary _ _)).trans
    (nosite_releaseTemporary _ _)).trans (nosite_releaseTemporary _ _)

theorem site_corr {X : RC} (ok : X.OK) : ∀ (f : Nat) (gs : GS) (n : Node), nodeSize n ≤ f → stmtShape n = true →
    stmtNames n = true → ∀ (ps : List ProgDef) (body : Stmts),
    stmtsOK X.src X.rt body (stmtsOf n gs.loops ps).1 = true →
    SLinks X (dispatchVoid f gs n) → MarksWF gs → Head gs → TInv (fun _ => True) gs →
    ∀ (s s' : LSt), stmtLay n s = some s' → Ctx gs s →
    SiteCorr X gs (dispatchVoid f gs n) n (stmtsOf n gs.loops ps).1 s s' := by
  intro f
  induction f with
  | zero => intro gs n h; have := nodeSize_pos n; omega
  | succ f ih =>
    intro gs n hf hs hn ps body hv lk w0 hd ht s s' hlay hctx
    cases n with
    | nil =>
      rw [dispatchVoid_nil]
      rw [stmtsOf_nil]
      rw [stmtLay_nil] at hlay
      cases hlay
      intro w k hex
      exact ⟨[], w, k, [], sitesStmts_nil _ _ _ _, hex, by simp, rfl, by simp, by rw [defsOf]; rfl,
        fun m p h => by simp at h, hctx⟩
    | mk t tok file line l r =>
      simp only [nodeSize] at hf
      have hfl : nodeSize l ≤ f := by have := nodeSize_pos r; omega
      have hfr : nodeSize r ≤ f := by have := nodeSize_pos l; omega
      rw [stmtShape_mk] at hs
      rw [stmtNames_mk] at hn
      rw [stmtsOf_mk] at hv ⊢
      by_cases h1 : t = NodeT.SPLIT
      · subst h1
        obtain ⟨hso, s1, hl1, hl2⟩ := stmtLay_split hlay
        have hsplit : dispatchVoid (f+1) gs (.mk NodeT.SPLIT tok file line l r) = dispatchVoid f (dispatchVoid f gs l) r := by
          rw [dispatchVoid_succ]
          dsimp only
          rw [if_pos rfl, split_absorb f gs s hctx file line l hfl hso]
        rw [hsplit] at lk ⊢
        rw [if_pos rfl, Bool.and_eq_true] at hs hn
        simp only [if_true] at hv ⊢
        rw [stmtsOK_append, Bool.and_eq_true] at hv
        have sq1 := sq_void f gs l hfl hs.1 hn.1
        have st1 := step_void f gs l
        have sq2 := sq_void f (dispatchVoid f gs l) r hfr hs.2 hn.2
        have st2 := step_void f (dispatchVoid f gs l) r
        have hk1 : (stmtsOf l gs.loops ps).2.1 = (dispatchVoid f gs l).loops := by rw [stmtsOf_loops, sq1.loops]
        rw [hk1] at hv ⊢
        have lk1 : SLinks X (dispatchVoid f gs l) := lk.back_sq sq2 st2
        have c1 := ih gs l hfl hs.1 hn.1 ps body hv.1 lk1 w0 hd ht s s1 hl1 hctx
        intro w k hex
        obtain ⟨l1, w1, k1, t1, o1⟩ := c1 w k hex
        have c2 := ih (dispatchVoid f gs l) r hfr hs.2 hn.2 (stmtsOf l gs.loops ps).2.2 body hv.2 lk (st1.wf w0)
          (hd.mono sq1.gq.code) (tinv_void ht f l) s1 s' hl2 o1.ctx
        obtain ⟨l2, w2, k2, t2, o2⟩ := c2 w1 k1 o1.ex
        exact ⟨l1 ++ l2, w2, k2, t1 ++ t2, SiteOut.split tok file line o1 o2 st2 sq2 (st2.wf (st1.wf w0))⟩
      obtain ⟨hstd, hcond, hrest⟩ := stmtLay_stmt h1 hlay
      have hstd' : file ≠ ConstGen.genStdFileName := by simpa [isStd] using hstd
      have fs := advanceLine_fs gs line file hstd'
      have w0' : MarksWF (gs.advanceLine line file) := (quiet_advanceLine gs line file).wf w0
      have hlo : (gs.advanceLine line file).loops = gs.loops := (advanceLine_misc gs line file).2.2.2.1
      obtain ⟨k0, hk0⟩ := advanceLine_code gs line file
      have hd' : Head (gs.advanceLine line file) := hd.mono (by rw [hk0]; exact prefix_append_self _ _)
      have ht' : TInv (fun _ => True) (gs.advanceLine line file) := ht.advanceLine trivial
      rw [dispatchVoid_succ] at lk ⊢
      dsimp only at lk ⊢
      simp only [if_neg h1] at hs hn hv lk hrest ⊢
      by_cases h2 : t = NodeT.PROGRAM
      · subst h2; simp [NodeT.PROGRAM, NodeT.ASSIGN, NodeT.LOOP, NodeT.WHILE, NodeT.IF, NodeT.MARK, NodeT.GOTO, NodeT.STOP] at hs
      simp only [if_neg h2] at hv lk ⊢
      by_cases h3 : t = NodeT.ASSIGN
      · subst h3
        simp only [if_true] at hs hn hv lk hrest ⊢
        simp only [Bool.and_eq_true, Bool.not_eq_true'] at hn
        have hvl : valLay file line false r = true ∧ s' = ⟨file, line, .stmt⟩ := by
          by_cases hv' : valLay file line false r = true
          · rw [if_pos hv'] at hrest; exact ⟨hv', (Option.some.inj hrest).symm⟩
          · rw [if_neg hv'] at hrest; cases hrest
        have hvv : valueOK X.src X.rt (valueOf r) = true := by
          simp only [stmtsOK, stmtOK, Bool.and_true] at hv; exact hv
        have nf := nosite_fetchVar (gs.advanceLine line file) l.tok
        have hns : NoSite (gs.advanceLine line file)
            (dispatchValue f ((gs.advanceLine line file).fetchVar l.tok).1 r ((gs.advanceLine line file).fetchVar l.tok).2) :=
          nf.trans (nosite_value f _ r _ (by rw [nf.fsName, nf.fsLine, fs.1, fs.2]; exact hvl.1))
        have hcorr := assign_corr ok f (gs.advanceLine line file) tok file line l r hfr hn.1.2 hs hn.2 hn.1.1 hvv (file, line) lk
        rw [hvl.2]
        exact simple_site gs _ NodeT.ASSIGN tok file line l r (.assign l.tok (valueOf r) (file, line)) rfl rfl
          (defsOf_leaf _ _ _ _ _ (by decide) (by decide) (by decide) (by decide)) s hctx hstd
          (cond_nonmark (by decide) hcond) ht hns hcorr lk
      simp only [if_neg h3] at hs hn hv lk hrest ⊢
      by_cases h4 : t = NodeT.LOOP
      · subst h4
        simp only [true_or, if_true] at hs hn hv lk hrest ⊢
        simp only [Bool.and_eq_true, Bool.not_eq_true'] at hs hn
        obtain ⟨tkx, fa, la, a1, a2, hl⟩ := nameNode hn.1.1 hs.1
        have hx : PV tkx := by have := hn.1.2; rw [hl] at this; exact this
        have hvn : valNames l = true := valNames_name hn.1.1 hs.1 hn.1.2
        obtain ⟨f', rfl⟩ : ∃ f', f = f' + 1 := ⟨f - 1, by have := nodeSize_pos l; omega⟩
        -- the layout of the loop
        have hvll : valLay file line false l = true := by
          by_cases hv' : valLay file line false l = true
          · exact hv'
          · rw [if_neg hv'] at hrest; cases hrest
        rw [if_pos hvll] at hrest
        obtain ⟨s1, hb1, hs'⟩ : ∃ s1, stmtLay r ⟨file, line, .stmt⟩ = some s1 ∧ s' = ⟨s1.file, s1.line, .fresh⟩ := by
          cases hb : stmtLay r ⟨file, line, .stmt⟩ with
          | none => rw [hb] at hrest; cases hrest
          | some s1 => rw [hb] at hrest; exact ⟨s1, rfl, (Option.some.inj hrest).symm⟩
        have hon : onLine (gs.advanceLine line file).fsName (gs.advanceLine line file).fsLine fa la = true := by
          rw [hl, valLay_mk, if_neg (fun h => by cases h.1), if_neg (by decide), Bool.and_true] at hvll
          rw [fs.1, fs.2]; exact hvll
        rw [← hlo] at hv ⊢
        rw [hs']
        intro w k hex
        obtain ⟨mv, hdr⟩ := hdr_of gs s file line hctx hstd ht w k hex (cond_nonmark (by decide) hcond)
        generalize gs.advanceLine line file = gs0 at *
        have sp := loopPre_spec gs0
        have vk := vk_value (f'+1) (loopPre gs0).1 l (loopPre gs0).2 hvn
        have hm1l : (loopMid (dispatchValue (f'+1) (loopPre gs0).1 l (loopPre gs0).2) (loopPre gs0).2).1.loops = gs0.loops + 1 := by
          rw [loopMid_loops, vk.vq.loops, sp.loops]
        have mq := loopMid_gq (dispatchValue (f'+1) (loopPre gs0).1 l (loopPre gs0).2) (loopPre gs0).2
        have hmm : (loopMid (dispatchValue (f'+1) (loopPre gs0).1 l (loopPre gs0).2) (loopPre gs0).2).1.top.marks = gs0.top.marks := by
          rw [top_congr (loopMid_symbols _ _), vk.vq.marks, sp.marks]
        have hml : gs0.labels.length ≤ (loopMid (dispatchValue (f'+1) (loopPre gs0).1 l (loopPre gs0).2) (loopPre gs0).2).1.labels.length := by
          rw [loopMid_labels, vk.vq.labels, sp.labels]; simp <;> omega
        have sb := sq_void (f'+1) (loopMid (dispatchValue (f'+1) (loopPre gs0).1 l (loopPre gs0).2) (loopPre gs0).2).1 r hfr hs.2 hn.2
        have stb := step_void (f'+1) (loopMid (dispatchValue (f'+1) (loopPre gs0).1 l (loopPre gs0).2) (loopPre gs0).2).1 r
        have hbody : stmtsOK X.src X.rt body (stmtsOf r (gs0.loops + 1) ps).1 = true := by
          simp only [stmts1, stmtsOK, stmtOK, Bool.and_true] at hv; exact hv
        have hpre : gs0.code <+: (loopMid (dispatchValue (f'+1) (loopPre gs0).1 l (loopPre gs0).2) (loopPre gs0).2).1.code :=
          (sp.gq.trans vk.vq.toGQ).code.trans mq.code
        have htm : TInv (fun _ => True) (loopMid (dispatchValue (f'+1) (loopPre gs0).1 l (loopPre gs0).2) (loopPre gs0).2).1 := by
          have h1 : TInv (fun _ => True) (loopPre gs0).1 := by
            rw [loopPre_eq]; exact (ht'.loops _).fetchVar _
          have h2 := tinv_value h1 (f'+1) l (loopPre gs0).2
          exact ((h2.createLabel.createLabel.setLabel _ _).emitBackpatched (by nofun) (by nofun))
        have hih := ih (loopMid (dispatchValue (f'+1) (loopPre gs0).1 l (loopPre gs0).2) (loopPre gs0).2).1 r hfr hs.2 hn.2 ps body
        have hsc := stmt_corr ok (f'+1) (loopMid (dispatchValue (f'+1) (loopPre gs0).1 l (loopPre gs0).2) (loopPre gs0).2).1 r hfr hs.2 hn.2 ps body
        rw [hm1l] at hih hsc
        have hcorr := loop_corr ok f' gs0 tok file line l r (file, line) tkx fa la a1 a2 hl hx (stmtsOf r (gs0.loops + 1) ps).1 w0'
          (loopPre gs0).1 (loopPre gs0).2 rfl _ rfl (loopMid (dispatchValue (f'+1) (loopPre gs0).1 l (loopPre gs0).2) (loopPre gs0).2).1 (loopMid (dispatchValue (f'+1) (loopPre gs0).1 l (loopPre gs0).2) (loopPre gs0).2).2.1 (loopMid (dispatchValue (f'+1) (loopPre gs0).1 l (loopPre gs0).2) (loopPre gs0).2).2.2 rfl _ sb stb _ rfl lk
          (fun lkb => hsc hbody lkb (w0'.congr hml hmm) (hd'.mono hpre))
        have facts := loop_facts (X := X) f' gs0 l r tkx fa la a1 a2 hl hx hon w0' (head_pos hd')
          (loopPre gs0).1 (loopPre gs0).2 rfl _ rfl (loopMid (dispatchValue (f'+1) (loopPre gs0).1 l (loopPre gs0).2) (loopPre gs0).2).1 (loopMid (dispatchValue (f'+1) (loopPre gs0).1 l (loopPre gs0).2) (loopPre gs0).2).2.1 (loopMid (dispatchValue (f'+1) (loopPre gs0).1 l (loopPre gs0).2) (loopPre gs0).2).2.2 rfl _ sb stb _ rfl lk
        generalize hm1 : (loopMid (dispatchValue (f'+1) (loopPre gs0).1 l (loopPre gs0).2) (loopPre gs0).2).1 = m1 at *
        generalize hbb : dispatchVoid (f'+1) m1 r = b at *
        generalize hres : loopPost b (loopPre gs0).2 (loopMid (dispatchValue (f'+1) (loopPre gs0).1 l (loopPre gs0).2) (loopPre gs0).2).2.1
          (loopMid (dispatchValue (f'+1) (loopPre gs0).1 l (loopPre gs0).2) (loopPre gs0).2).2.2 = res at *
        have hbi := hih hbody facts.lkb (w0'.congr hml hmm) (hd'.mono hpre) htm ⟨file, line, .stmt⟩ s1 hb1
          ⟨by rw [facts.mfsName, fs.1], by rw [facts.mfsLine, fs.2]⟩
        obtain ⟨hh, hk⟩ := hdr.hereOf (.loop (gs0.loops + 1) l.tok (stmtsOf r (gs0.loops + 1) ps).1 (file, line)) rfl
        have hrpre : gs0.code <+: res.code := hpre.trans (sb.gq.code.trans (by obtain ⟨t, _, _, h⟩ := facts.rcode; rw [h]; exact prefix_append_self _ _))
        have hat := hdr.ex.at hrpre lk.agree
        obtain ⟨w', cw, sr⟩ := hcorr w hat
        rw [checkStmts_single] at cw
        have hl' : l.tok = tkx := by rw [hl]; rfl
        rw [← hl'] at cw
        -- the body
        obtain ⟨i1, i2, _, _, mcode⟩ := facts.mcode
        have hexb : Ex m1 { w with pc := w.pc + (if mv then k + 1 else k) + 2 } 0 := by
          refine Ex.exact (by show 0 < w.pc + _ + 2; omega) ?_
          show w.pc + _ + 2 = m1.code.length
          rw [mcode]; simp; have := hdr.ex.len; omega
        obtain ⟨lb, wb', kb, tb, ob⟩ := hbi _ 0 hexb
        -- the end of the loop
        have hbpos : 0 < b.code.length := by
          have := sb.gq.code.length_le; rw [mcode] at this; simp at this; omega
        obtain ⟨ctr, rx, offE, offL, w1i, _, _, _, _, _, _, hjmp, _, _, hw'eq⟩ := Sim.checkStmt_loop_inv cw
        have hreal : X.C[w'.pc - 1]? ≠ some Instr.potBreak := by
          rw [hw'eq]; exact real_of_at hjmp
        have hw' : w'.pc = res.code.length :=
          loop_end_exact sr.at_ (by rw [hw'eq]; show 0 < _ + 1; omega) hreal facts.rcode hbpos lk.agree
        have hj := facts.jumps
        have hlen0 : gs0.code.length = w.pc + (if mv then k + 1 else k) := hdr.ex.len.symm
        rw [hlen0, ← hw'] at hj
        have hc : (Sim.sameLine (prevOf s) (.loop (gs0.loops + 1) l.tok (stmtsOf r (gs0.loops + 1) ps).1 (file, line)) &&
            !Sim.afterMk (prevOf s)) = false := by
          rw [hdr.same _ rfl, hdr.mvEq]
          have hcn := cond_nonmark (t := NodeT.LOOP) (by decide) hcond
          cases hs1 : (decide (file = s.file) && decide (line = s.line))
          · simp
          · rw [hs1] at hcn
            simp only [Bool.true_and, Bool.not_eq_eq_eq_not, Bool.not_false, decide_eq_true_eq] at hcn
            unfold prevOf Sim.afterMk
            rw [hcn]; simp
        have hwalk := sitesStmts_single (sitesStmt_loop_ok (e := X.e) (k := k) hc (by rw [hk]; exact ob.walk) cw (by rw [hk]; exact hj))
        rw [hh] at hwalk
        obtain ⟨t, out⟩ := loop_out hdr hex facts ob hwalk hw'
          (n := .mk NodeT.LOOP tok file line l r) (by rw [defsOf_mk]; simp [NodeT.LOOP, NodeT.SPLIT])
        exact ⟨_, _, _, t, out⟩
      simp only [if_neg h4] at hv lk ⊢
      by_cases h5 : t = NodeT.WHILE
      · subst h5
        simp only [or_true, if_true] at hs hn hv lk hrest ⊢
        simp only [Bool.and_eq_true, Bool.not_eq_true'] at hs hn
        obtain ⟨tkx, fa, la, a1, a2, hl⟩ := nameNode hn.1.1 hs.1
        have hx : PV tkx := by have := hn.1.2; rw [hl] at this; exact this
        have hvn : valNames l = true := valNames_name hn.1.1 hs.1 hn.1.2
        obtain ⟨f', rfl⟩ : ∃ f', f = f' + 1 := ⟨f - 1, by have := nodeSize_pos l; omega⟩
        have hvll : valLay file line false l = true := by
          by_cases hv' : valLay file line false l = true
          · exact hv'
          · rw [if_neg hv'] at hrest; cases hrest
        rw [if_pos hvll] at hrest
        obtain ⟨s1, hb1, hs'⟩ : ∃ s1, stmtLay r ⟨file, line, .stmt⟩ = some s1 ∧ s' = ⟨s1.file, s1.line, .fresh⟩ := by
          cases hb : stmtLay r ⟨file, line, .stmt⟩ with
          | none => rw [hb] at hrest; cases hrest
          | some s1 => rw [hb] at hrest; exact ⟨s1, rfl, (Option.some.inj hrest).symm⟩
        have hon : onLine (gs.advanceLine line file).fsName (gs.advanceLine line file).fsLine fa la = true := by
          rw [hl, valLay_mk, if_neg (fun h => by cases h.1), if_neg (by decide), Bool.and_true] at hvll
          rw [fs.1, fs.2]; exact hvll
        rw [← hlo] at hv ⊢
        rw [hs']
        intro w k hex
        obtain ⟨mv, hdr⟩ := hdr_of gs s file line hctx hstd ht w k hex (cond_nonmark (by decide) hcond)
        generalize gs.advanceLine line file = gs0 at *
        have sp := whilePre_spec' gs0
        have vk := vk_value (f'+1) (whilePre gs0).1 l (whilePre gs0).2.2.2 hvn
        have htm : TInv (fun _ => True) ((dispatchValue (f'+1) (whilePre gs0).1 l (whilePre gs0).2.2.2).emitBackpatched
            (.jmpc (whilePre gs0).2.2.1 (whilePre gs0).2.2.2)) := by
          have h1 : TInv (fun _ => True) (whilePre gs0).1 := by
            unfold whilePre; dsimp only
            exact (ht'.createLabel.createLabel.fetchTemporary).setLabel _ _
          exact (tinv_value h1 (f'+1) l (whilePre gs0).2.2.2).emitBackpatched (by nofun) (by nofun)
        generalize hm1 : (dispatchValue (f'+1) (whilePre gs0).1 l (whilePre gs0).2.2.2).emitBackpatched
          (.jmpc (whilePre gs0).2.2.1 (whilePre gs0).2.2.2) = m1 at *
        have hm1l : m1.loops = gs0.loops := by rw [← hm1]; show (dispatchValue _ _ _ _).loops = _; rw [vk.vq.loops, sp.loops]
        have hmm : m1.top.marks = gs0.top.marks := by
          rw [← hm1]; show (dispatchValue _ _ _ _).top.marks = _; rw [vk.vq.marks, sp.marks]
        have hml : gs0.labels.length ≤ m1.labels.length := by
          rw [← hm1]; show _ ≤ (dispatchValue _ _ _ _).labels.length; rw [vk.vq.labels, sp.labels]; simp <;> omega
        have hpre : gs0.code <+: m1.code := by
          rw [← hm1]; exact (sp.gq.trans vk.vq.toGQ).code.trans (gq_emitBackpatched _ _).code
        have sb := sq_void (f'+1) m1 r hfr hs.2 hn.2
        have stb := step_void (f'+1) m1 r
        have hbody : stmtsOK X.src X.rt body (stmtsOf r gs0.loops ps).1 = true := by
          simp only [stmts1, stmtsOK, stmtOK, Bool.and_true] at hv; exact hv
        have hih := ih m1 r hfr hs.2 hn.2 ps body
        have hsc := stmt_corr ok (f'+1) m1 r hfr hs.2 hn.2 ps body
        rw [hm1l] at hih hsc
        subst hm1
        have hcorr := while_corr ok f' gs0 tok file line l r (file, line) tkx fa la a1 a2 hl hx (stmtsOf r gs0.loops ps).1 w0'
          (whilePre gs0).1 (whilePre gs0).2.1 (whilePre gs0).2.2.1 (whilePre gs0).2.2.2 rfl _ rfl _ sb stb _ rfl lk
          (fun lkb => hsc hbody lkb (w0'.congr hml hmm) (hd'.mono hpre))
        have facts := while_facts (X := X) f' gs0 l r tkx fa la a1 a2 hl hx hon w0' (head_pos hd')
          (whilePre gs0).1 (whilePre gs0).2.1 (whilePre gs0).2.2.1 (whilePre gs0).2.2.2 rfl _ rfl _ sb stb _ rfl lk
        generalize hm1 : (dispatchValue (f'+1) (whilePre gs0).1 l (whilePre gs0).2.2.2).emitBackpatched
          (.jmpc (whilePre gs0).2.2.1 (whilePre gs0).2.2.2) = m1 at *
        generalize hbb : dispatchVoid (f'+1) m1 r = b at *
        generalize hres : whilePost b (whilePre gs0).2.1 (whilePre gs0).2.2.1 (whilePre gs0).2.2.2 = res at *
        have hbi := hih hbody facts.lkb (w0'.congr hml hmm) (hd'.mono hpre) htm ⟨file, line, .stmt⟩ s1 hb1
          ⟨by rw [facts.mfsName, fs.1], by rw [facts.mfsLine, fs.2]⟩
        obtain ⟨hh, hk⟩ := hdr.hereOf (.while_ l.tok (stmtsOf r gs0.loops ps).1 (file, line)) rfl
        have hrpre : gs0.code <+: res.code := hpre.trans (sb.gq.code.trans (by obtain ⟨t, _, _, h⟩ := facts.rcode; rw [h]; exact prefix_append_self _ _))
        have hat := hdr.ex.at hrpre lk.agree
        obtain ⟨w', cw, sr⟩ := hcorr w hat
        rw [checkStmts_single] at cw
        have hl' : l.tok = tkx := by rw [hl]; rfl
        rw [← hl'] at cw
        obtain ⟨i1, i2, _, _, mcode⟩ := facts.mcode
        have hexb : Ex m1 { w with pc := w.pc + (if mv then k + 1 else k) + 2 } 0 := by
          refine Ex.exact (by show 0 < w.pc + _ + 2; omega) ?_
          show w.pc + _ + 2 = m1.code.length
          rw [mcode]; simp; have := hdr.ex.len; omega
        obtain ⟨lb, wb', kb, tb, ob⟩ := hbi _ 0 hexb
        have hbpos : 0 < b.code.length := by
          have := sb.gq.code.length_le; rw [mcode] at this; simp at this; omega
        obtain ⟨rx, tmp, offE, offL, w1i, _, _, _, _, _, hjmp, _, _, hw'eq⟩ := Sim.checkStmt_while_inv cw
        have hreal : X.C[w'.pc - 1]? ≠ some Instr.potBreak := by
          rw [hw'eq]; exact real_of_at hjmp
        have hw' : w'.pc = res.code.length :=
          loop_end_exact sr.at_ (by rw [hw'eq]; show 0 < _ + 1; omega) hreal facts.rcode hbpos lk.agree
        have hj := facts.jumps
        have hlen0 : gs0.code.length = w.pc + (if mv then k + 1 else k) := hdr.ex.len.symm
        rw [hlen0, ← hw'] at hj
        have hc : (Sim.sameLine (prevOf s) (.while_ l.tok (stmtsOf r gs0.loops ps).1 (file, line)) &&
            !Sim.afterMk (prevOf s)) = false := by
          rw [hdr.same _ rfl, hdr.mvEq]
          have hcn := cond_nonmark (t := NodeT.WHILE) (by decide) hcond
          cases hs1 : (decide (file = s.file) && decide (line = s.line))
          · simp
          · rw [hs1] at hcn
            simp only [Bool.true_and, Bool.not_eq_eq_eq_not, Bool.not_false, decide_eq_true_eq] at hcn
            unfold prevOf Sim.afterMk
            rw [hcn]; simp
        have hwalk := sitesStmts_single (sitesStmt_while_ok (e := X.e) (k := k) hc (by rw [hk]; exact ob.walk) cw (by rw [hk]; exact hj))
        rw [hh] at hwalk
        obtain ⟨t, out⟩ := loop_out hdr hex facts ob hwalk hw'
          (n := .mk NodeT.WHILE tok file line l r) (by rw [defsOf_mk]; simp [NodeT.WHILE, NodeT.SPLIT])
        exact ⟨_, _, _, t, out⟩
      simp only [if_neg h5] at hv lk ⊢
      rw [if_neg (by intro h; rcases h with h | h; exact h4 h; exact h5 h)] at hs hn hrest
      by_cases h6 : t = NodeT.MARK
      · subst h6
        simp only [if_true] at hv lk ⊢
        have hs' : s' = ⟨file, line, .mark⟩ := by
          simpa [NodeT.MARK, NodeT.IF] using hrest.symm
        rw [hs']
        exact mark_site gs tok file line l r s hctx hstd (cond_mark hcond) ht w0
      simp only [if_neg h6] at hv lk ⊢
      by_cases h7 : t = NodeT.GOTO
      · subst h7
        simp only [if_true] at hv lk ⊢
        have hs' : s' = ⟨file, line, .stmt⟩ := by
          simpa [NodeT.GOTO, NodeT.MARK, NodeT.IF] using hrest.symm
        rw [hs']
        have hns : NoSite (gs.advanceLine line file)
            (((gs.advanceLine line file).markLabel l.tok).1.emitBackpatched (.jmp ((gs.advanceLine line file).markLabel l.tok).2)) :=
          (nosite_markLabel _ _).trans (nosite_emitBackpatched _ (by intro h; cases h))
        exact simple_site gs _ NodeT.GOTO tok file line l r (.goto l.tok (file, line)) rfl rfl
          (defsOf_leaf _ _ _ _ _ (by decide) (by decide) (by decide) (by decide)) s hctx hstd
          (cond_nonmark (by decide) hcond) ht hns (goto_corr _ tok file line l r (file, line) lk) lk
      simp only [if_neg h7] at hv lk ⊢
      by_cases h8 : t = NodeT.IF
      · subst h8
        simp only [if_true] at hs hn hv lk hrest ⊢
        simp only [Bool.and_eq_true, Bool.not_eq_true'] at hs hn
        obtain ⟨tkx, fa, la, a1, a2, hll⟩ := nameNode hn.1.1 hs.1
        obtain ⟨tkc, fb, lb, b1, b2, hlr⟩ := numberNode hn.1.2 hs.2
        have hx : PV tkx := by have := hn.2; rw [hll] at this; exact this
        obtain ⟨f', rfl⟩ : ∃ f', f = f' + 1 := ⟨f - 1, by have := nodeSize_pos l; omega⟩
        have hc : genRangeBad (decVal tkc) = false := by
          simp only [stmts1, stmtsOK, stmtOK, Bool.and_true, Bool.and_eq_true, Bool.not_eq_true'] at hv
          have := hv.1; rw [hlr] at this; exact this
        have hvl : (valLay file line false l.left = true ∧ valLay file line false l.right = true) ∧ s' = ⟨file, line, .stmt⟩ := by
          by_cases hv' : (valLay file line false l.left && valLay file line false l.right) = true
          · rw [if_pos hv'] at hrest
            rw [Bool.and_eq_true] at hv'
            exact ⟨hv', (Option.some.inj hrest).symm⟩
          · rw [if_neg hv'] at hrest; cases hrest
        rw [hvl.2]
        have n0 := nosite_ifPre (gs.advanceLine line file)
        have n1 := nosite_value (f'+1) (ifPre (gs.advanceLine line file)).1 l.left (ifPre (gs.advanceLine line file)).2.2.1
          (by rw [n0.fsName, n0.fsLine, fs.1, fs.2]; exact hvl.1.1)
        have n2 := nosite_value (f'+1) (dispatchValue (f'+1) (ifPre (gs.advanceLine line file)).1 l.left (ifPre (gs.advanceLine line file)).2.2.1)
          l.right (ifPre (gs.advanceLine line file)).2.2.2
          (by rw [n1.fsName, n1.fsLine, n0.fsName, n0.fsLine, fs.1, fs.2]; exact hvl.1.2)
        have hns := ((n0.trans n1).trans n2).trans (nosite_ifPost _ (ifPre (gs.advanceLine line file)).2.1
          (ifPre (gs.advanceLine line file)).2.2.1 (ifPre (gs.advanceLine line file)).2.2.2 r.left.tok)
        have hcorr : SCorr X (gs.advanceLine line file) (ifPost (dispatchValue (f'+1) (dispatchValue (f'+1) (ifPre (gs.advanceLine line file)).1 l.left (ifPre (gs.advanceLine line file)).2.2.1) l.right (ifPre (gs.advanceLine line file)).2.2.2) (ifPre (gs.advanceLine line file)).2.1 (ifPre (gs.advanceLine line file)).2.2.1 (ifPre (gs.advanceLine line file)).2.2.2 r.left.tok) (.mk NodeT.IF tok file line l r)
            (.cons (.ifGoto l.left.tok (decVal l.right.tok) r.left.tok (file, line)) .nil) := by
          have := if_corr ok f' (gs.advanceLine line file) tok file line l r (file, line) tkx fa la a1 a2 tkc fb lb b1 b2 hll hlr hx hc lk
          rw [hll, hlr] at this ⊢
          exact this
        exact simple_site gs _ NodeT.IF tok file line l r (.ifGoto l.left.tok (decVal l.right.tok) r.left.tok (file, line)) rfl rfl
          (defsOf_leaf _ _ _ _ _ (by decide) (by decide) (by decide) (by decide)) s hctx hstd
          (cond_nonmark (by decide) hcond) ht hns hcorr lk
      simp only [if_neg h8] at hs hv lk ⊢
      by_cases h9 : t = NodeT.STOP
      · subst h9
        simp only [if_true] at hv lk ⊢
        have hs' : s' = ⟨file, line, .stmt⟩ := by
          simpa [NodeT.STOP, NodeT.MARK, NodeT.IF] using hrest.symm
        rw [hs']
        exact simple_site gs _ NodeT.STOP tok file line l r (.stop (file, line)) rfl rfl
          (defsOf_leaf _ _ _ _ _ (by decide) (by decide) (by decide) (by decide)) s hctx hstd
          (cond_nonmark (by decide) hcond) ht (nosite_emit _ (by intro h; cases h)) (stop_corr _ tok file line l r (file, line) lk) lk
      · exfalso
        simp [h6, h7, h9] at hs

end GenSites
end Theo
