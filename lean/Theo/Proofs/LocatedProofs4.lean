/-
  C02 (located errors), part 4: the generator.
  Every generator error is reported at the current file context `(fsName, fsLine)`, which starts
  at the placeholder and is only changed by `advanceLine` to the position of a visited node.
  So for a predicate `P` on positions that holds for the placeholder, for all parse errors (they
  are copied when the parse failed) and for all nodes of the tree: every error of `gen` is at a
  position satisfying `P`.
-/
import Theo.Proofs.LocatedProofs3

namespace Theo
namespace Loc

/-- the file context and the recorded errors are at good positions -/
def LInv (P : Bytes → Int → Prop) (gs : GS) : Prop :=
  P gs.fsName gs.fsLine ∧ ∀ e ∈ gs.errors, P e.file e.line

/-- `b` has the same file context and errors as `a` -/
def SameL (a b : GS) : Prop :=
  b.fsName = a.fsName ∧ b.fsLine = a.fsLine ∧ b.errors = a.errors

theorem SameL.refl (a : GS) : SameL a a := ⟨rfl, rfl, rfl⟩

theorem SameL.trans {a b c : GS} (h1 : SameL a b) (h2 : SameL b c) : SameL a c :=
  ⟨h2.1.trans h1.1, h2.2.1.trans h1.2.1, h2.2.2.trans h1.2.2⟩

section
variable {P : Bytes → Int → Prop} {gs : GS}

theorem LInv.same {a b : GS} (h : LInv P a) (hs : SameL a b) : LInv P b := by
  obtain ⟨h1, h2, h3⟩ := hs
  unfold LInv
  rw [h1, h2, h3]
  exact h

theorem LInv.foldl {α} (f : GS → α → GS) (hf : ∀ g x, LInv P g → LInv P (f g x)) :
    ∀ (l : List α) (g : GS), LInv P g → LInv P (l.foldl f g) := by
  intro l
  induction l with
  | nil => intro g h; exact h
  | cons x xs ih => intro g h; exact ih (f g x) (hf g x h)

theorem LInv.err (h : LInv P gs) (k : Nat) : LInv P (gs.err k) := by
  refine ⟨h.1, ?_⟩
  intro e he
  rcases List.mem_append.1 he with h1 | h1
  · exact h.2 e h1
  · rw [List.mem_singleton.1 h1]; exact h.1

theorem LInv.ifErr (h : LInv P gs) (c : Prop) [Decidable c] (k : Nat) :
    LInv P (if c then gs.err k else gs) := by
  split
  · exact h.err k
  · exact h

theorem LInv.emit (h : LInv P gs) (i : Instr) : LInv P (gs.emit i) := h.same ⟨rfl, rfl, rfl⟩
theorem LInv.setTop (h : LInv P gs) (f : FGS) : LInv P (gs.setTop f) := h.same ⟨rfl, rfl, rfl⟩
theorem LInv.pushSymbols (h : LInv P gs) (n : Bytes) : LInv P (gs.pushSymbols n) := h.same ⟨rfl, rfl, rfl⟩
theorem LInv.releaseTemporary (h : LInv P gs) (i : Int) : LInv P (gs.releaseTemporary i) :=
  h.same ⟨rfl, rfl, rfl⟩
theorem LInv.setLabel (h : LInv P gs) (l : Nat) (p : Int) : LInv P (gs.setLabel l p) :=
  h.same ⟨rfl, rfl, rfl⟩
theorem LInv.createLabel (h : LInv P gs) : LInv P gs.createLabel.1 := h.same ⟨rfl, rfl, rfl⟩
theorem LInv.emitBackpatched (h : LInv P gs) (i : Instr) : LInv P (gs.emitBackpatched i) :=
  h.same ⟨rfl, rfl, rfl⟩
theorem LInv.breakpoint (h : LInv P gs) : LInv P gs.breakpoint := h.same ⟨rfl, rfl, rfl⟩

theorem LInv.fetchTemporary (h : LInv P gs) : LInv P gs.fetchTemporary.1 := by
  unfold GS.fetchTemporary
  simp only
  split <;> exact h.same ⟨rfl, rfl, rfl⟩

theorem LInv.fetchVar (h : LInv P gs) (n : Bytes) : LInv P (gs.fetchVar n).1 := by
  unfold GS.fetchVar
  simp only
  split <;> exact h.same ⟨rfl, rfl, rfl⟩

theorem LInv.markLabel (h : LInv P gs) (n : Bytes) : LInv P (gs.markLabel n).1 := by
  unfold GS.markLabel
  split <;> exact h.same ⟨rfl, rfl, rfl⟩

theorem LInv.genStrToInt (h : LInv P gs) (tok : Bytes) : LInv P (genStrToInt gs tok).1 := by
  unfold Theo.genStrToInt
  simp only
  exact h.ifErr _ _

theorem LInv.popSymbols (h : LInv P gs) (addr : Int) : LInv P (gs.popSymbols addr) := by
  unfold GS.popSymbols
  simp only
  refine LInv.same (LInv.foldl _ ?_ _ gs h) ⟨rfl, rfl, rfl⟩
  intro g e hg
  exact hg.ifErr _ _

theorem LInv.removeTopPotBreak (h : LInv P gs) : LInv P gs.removeTopPotBreak := by
  unfold GS.removeTopPotBreak
  split
  · simp only
    split <;> exact h.same ⟨rfl, rfl, rfl⟩
  · exact h

theorem LInv.advanceLine (h : LInv P gs) {line : Int} {file : Bytes} (hP : P file line) :
    LInv P (gs.advanceLine line file) := by
  unfold GS.advanceLine
  split
  · exact h
  · have h1 : LInv P (if gs.fsName = file ∧ line ≠ gs.fsLine
        then ({ gs with fsLine := line } : GS).breakpoint else gs) := by
      split
      · next hc =>
        have h' : LInv P ({ gs with fsLine := line } : GS) := ⟨by rw [hc.1]; exact hP, h.2⟩
        exact h'.breakpoint
      · exact h
    have key : ∀ g1 : GS, LInv P g1 → LInv P (if g1.fsName ≠ file
        then ({ g1 with fsName := file, fsLine := line } : GS).breakpoint else g1) := by
      intro g1 hg1
      split
      · have h' : LInv P ({ g1 with fsName := file, fsLine := line } : GS) := ⟨hP, hg1.2⟩
        exact h'.breakpoint
      · exact hg1
    exact key _ h1

theorem LInv.mk_iff (c sm pb li e sy fa la td lo fn fl) :
    LInv P (GS.mk c sm pb li e sy fa la td lo fn fl) ↔ (P fn fl ∧ ∀ x ∈ e, P x.file x.line) :=
  Iff.rfl

theorem LInv.argFold (l : List (Int × Nat)) (gs : GS) (h : LInv P gs) :
    LInv P (l.foldl (fun g a => (g.emit (.arg a.2 a.1)).releaseTemporary a.1) gs) :=
  LInv.foldl _ (fun _ _ hg => (hg.emit _).releaseTemporary _) l gs h

theorem LInv.dispatchArgs : ∀ (f : Nat) (gs : GS) (n : Node), LInv P gs → LInv P (dispatchArgs f gs n) := by
  intro f
  induction f with
  | zero => intro gs n h; unfold Theo.dispatchArgs; exact h
  | succ f ih =>
    intro gs n h
    cases n with
    | nil => unfold Theo.dispatchArgs; exact h
    | mk t tok file line l r =>
      simp only [Theo.dispatchArgs]
      split
      · exact ih _ _ (ih _ _ h)
      · refine LInv.fetchVar ?_ _
        have h1 : LInv P (if (GS.findReg gs.top.regs tok 0).isSome = true
            then gs.err GErrT.INTERNAL_ERROR else gs) := h.ifErr _ _
        exact h1.same ⟨rfl, rfl, rfl⟩

theorem NodeP.left {n : Node} (h : NodeP P n) : NodeP P n.left := by
  cases n with
  | nil => trivial
  | mk _ _ _ _ a b => exact h.2.1

theorem NodeP.right {n : Node} (h : NodeP P n) : NodeP P n.right := by
  cases n with
  | nil => trivial
  | mk _ _ _ _ a b => exact h.2.2

/-- one backward step through a generator expression -/
macro "linv_step" : tactic => `(tactic| with_reducible first
  | assumption
  | apply LInv.emit
  | apply LInv.emitBackpatched
  | apply LInv.err
  | apply LInv.setLabel
  | apply LInv.releaseTemporary
  | apply LInv.popSymbols
  | apply LInv.pushSymbols
  | apply LInv.removeTopPotBreak
  | apply LInv.argFold
  | apply LInv.createLabel
  | apply LInv.fetchTemporary
  | apply LInv.fetchVar
  | apply LInv.markLabel
  | apply LInv.genStrToInt
  | apply LInv.dispatchArgs
  | refine LInv.advanceLine ?_ (by assumption)
  | split)

theorem dispatchValue_CallArgs_linv (P : Bytes → Int → Prop) : ∀ f : Nat,
    (∀ (gs : GS) (n : Node) (tgt : Int), NodeP P n → LInv P gs → LInv P (dispatchValue f gs n tgt)) ∧
    (∀ (gs : GS) (n : Node) (acc : List Int), NodeP P n → LInv P gs →
      LInv P (dispatchCallArgs f gs n acc).1) := by
  intro f
  induction f with
  | zero =>
    constructor
    · intro gs n tgt _ h; unfold dispatchValue; exact h
    · intro gs n acc _ h; unfold dispatchCallArgs; exact h
  | succ f ih =>
    obtain ⟨ihV, ihC⟩ := ih
    constructor
    · intro gs n tgt hn h
      cases n with
      | nil => unfold dispatchValue; exact h
      | mk t tok file line l r =>
        obtain ⟨hp, hl, hr⟩ := hn
        simp only [dispatchValue]
        repeat' (first | linv_step | (with_reducible apply ihC) | (with_reducible apply ihV))
    · intro gs n acc hn h
      cases n with
      | nil => unfold dispatchCallArgs; exact h
      | mk t tok file line l r =>
        have hself := hn
        obtain ⟨hp, hl, hr⟩ := hn
        simp only [dispatchCallArgs]
        repeat' (first | linv_step | (with_reducible apply ihC) | (with_reducible apply ihV))

theorem LInv.dispatchValue (h : LInv P gs) (f : Nat) {n : Node} (hn : NodeP P n) (tgt : Int) :
    LInv P (dispatchValue f gs n tgt) :=
  (dispatchValue_CallArgs_linv P f).1 gs n tgt hn h

theorem dispatchVoid_linv (P : Bytes → Int → Prop) : ∀ (f : Nat) (gs : GS) (n : Node),
    NodeP P n → LInv P gs → LInv P (dispatchVoid f gs n) := by
  intro f
  induction f with
  | zero => intro gs n _ h; unfold dispatchVoid; exact h
  | succ f ih =>
    intro gs n hn h
    cases n with
    | nil => unfold dispatchVoid; exact h
    | mk t tok file line l r =>
      obtain ⟨hp, hl, hr⟩ := hn
      have hll := hl.left
      have hlr := hl.right
      simp only [dispatchVoid]
      repeat' (first
        | linv_step
        | (with_reducible apply ih)
        | (with_reducible refine LInv.dispatchValue ?_ _ (by assumption) _)
        | (rw [LInv.mk_iff]; change LInv _ _))

theorem LInv.backpatchOne (h : LInv P gs) (loc : Nat) : LInv P (backpatchOne gs loc) := by
  unfold Theo.backpatchOne
  split
  · exact (h.ifErr _ _).same ⟨rfl, rfl, rfl⟩
  · exact (h.ifErr _ _).same ⟨rfl, rfl, rfl⟩
  · exact h.err _

theorem LInv.backpatch (h : LInv P gs) : LInv P (backpatch gs) := by
  unfold Theo.backpatch
  refine LInv.foldl _ (fun g x hg => hg.backpatchOne x) _ _ ?_
  exact h.same ⟨rfl, rfl, rfl⟩

theorem LInv.patchRoot (h : LInv P gs) :
    LInv P (match gs.lookupFunc bRoot, gs.code with
      | some p, .prepare _ _ t :: rest => { gs with code := .prepare p.stackSize p.mi t :: rest }
      | _, _ => gs) := by
  split
  · exact h.same ⟨rfl, rfl, rfl⟩
  · exact h

/-- the final generator state of `gen` -/
def genFinal (a : AST) : GS :=
  let gs : GS := {}
  let gs := gs.emit (.prepare (-1) (-1) 0)
  let gs := gs.pushSymbols bRoot
  let gs :=
    if !a.ok then
      { gs with errors := gs.errors ++ a.errs.map (fun e => ⟨GErrT.PARSE_ERROR, e.file, e.line⟩) }
    else dispatchVoid (nodeSize a.root + 1) gs a.root
  let gs := gs.popSymbols 0
  let gs :=
    match gs.lookupFunc bRoot, gs.code with
    | some p, .prepare _ _ t :: rest => { gs with code := .prepare p.stackSize p.mi t :: rest }
    | _, _ => gs
  let gs := gs.emit .halt
  backpatch gs

theorem gen_errors (a : AST) : (gen a).errors = (genFinal a).errors := rfl

theorem genFinal_linv (a : AST) (hd : P ConstGen.rootFsName ConstGen.rootFsLine)
    (he : ∀ e ∈ a.errs, P e.file e.line) (hn : a.ok = true → NodeP P a.root) :
    LInv P (genFinal a) := by
  have h0 : LInv P ((({} : GS).emit (.prepare (-1) (-1) 0)).pushSymbols bRoot) :=
    ⟨hd, fun _ h => (by cases h)⟩
  unfold genFinal
  simp only
  refine LInv.backpatch (LInv.emit (LInv.patchRoot (LInv.popSymbols ?_ _)) _)
  split
  · refine ⟨hd, ?_⟩
    intro e hx
    simp only [List.mem_append, List.mem_map] at hx
    rcases hx with hx | ⟨s, hs, rfl⟩
    · cases hx
    · exact he s hs
  · rename_i hok
    exact dispatchVoid_linv P _ _ _ (hn (by simpa using hok)) h0

/-- every error of the generator is at a good position -/
theorem gen_errors_P (a : AST) (hd : P ConstGen.rootFsName ConstGen.rootFsLine)
    (he : ∀ e ∈ a.errs, P e.file e.line) (hn : a.ok = true → NodeP P a.root) :
    ∀ e ∈ (gen a).errors, P e.file e.line := by
  rw [gen_errors]
  exact (genFinal_linv a hd he hn).2

end
end Loc
end Theo
