/-
  C01 for the generator model, part 20: an error-free parse builds a tree that satisfies the
  identifier part of the side condition (`astIdents`: operands present, variables `varOK`)
  whenever the texts of the ID tokens are `varOK` — so for sources a user can write only the
  uniqueness of jump targets (`astLabels`) remains of `NamesOK`.
-/
import Theo.Proofs.GenShapeTop

set_option linter.unusedSimpArgs false
set_option linter.unusedVariables false

namespace Theo
namespace GenShape
open GS Sem Static C04

/-! ### the two halves of `astNames` -/

def astIdents : Node → Bool
  | .nil => true
  | .mk t tok f ln l r =>
    if t = NodeT.SPLIT ∧ l.ty = NodeT.PROGRAM then progNames l.left && stmtNames l.right && astIdents r
    else stmtNames (.mk t tok f ln l r)

def astLabels : Node → Bool
  | .nil => true
  | .mk t tok f ln l r =>
    if t = NodeT.SPLIT ∧ l.ty = NodeT.PROGRAM then labelsOK l.right && astLabels r
    else labelsOK (.mk t tok f ln l r)

theorem astNames_eq : ∀ root : Node, astNames root = (astIdents root && astLabels root)
  | .nil => by rw [astNames, astIdents, astLabels]; rfl
  | .mk t tok f ln l r => by
    rw [astNames, astIdents, astLabels]
    split
    · rw [astNames_eq r]
      cases progNames l.left <;> cases stmtNames l.right <;> cases labelsOK l.right <;> cases astIdents r <;> rfl
    · rfl

/-! ### the tokens still to be read are tokens of the input -/

def TS (Q : Token → Prop) (ps : PS) : Prop := ∀ t ∈ ps.ts, Q t

theorem skipToSep_sub : ∀ (ts : List Token) (t : Token), t ∈ PS.skipToSep ts → t ∈ ts
  | [], _, h => by simp [PS.skipToSep] at h
  | x :: xs, t, h => by
    unfold PS.skipToSep at h
    split at h
    · exact h
    · exact List.mem_cons_of_mem _ (skipToSep_sub xs t h)

theorem TS.err {Q : Token → Prop} {ps : PS} (h : TS Q ps) (k : SynKind) : TS Q (ps.err k) := h

theorem TS.matchK {Q : Token → Prop} {ps : PS} (h : TS Q ps) (k : Nat) : TS Q (ps.matchK k) := by
  unfold PS.matchK
  dsimp only
  have h1 : TS Q (if ps.la ≠ k then { ps.err .expectedToken with ts := PS.skipToSep ps.ts } else ps) := by
    split
    · intro t ht; exact h t (skipToSep_sub _ _ ht)
    · exact h
  generalize (if ps.la ≠ k then { ps.err .expectedToken with ts := PS.skipToSep ps.ts } else ps) = ps1 at h1
  split
  · intro t ht; exact h1 t (List.mem_of_mem_drop ht)
  · exact h1

structure TSP (Q : Token → Prop) (f : Nat) : Prop where
  s : ∀ ps, TS Q ps → TS Q (pS f ps).2
  ports : ∀ ps, TS Q ps → TS Q (pPORTS f ps).2
  args : ∀ ps, TS Q ps → TS Q (pARGS f ps).2
  eeos : ∀ ps, TS Q ps → TS Q (pEEOS f ps)
  p : ∀ ps, TS Q ps → TS Q (pP f ps).2
  morep : ∀ ps, TS Q ps → TS Q (pMOREP f ps).2
  value : ∀ ps, TS Q ps → TS Q (pVALUE f ps).2
  mv : ∀ ps, TS Q ps → TS Q (pMVARGS f ps).2

theorem TS.oports {Q : Token → Prop} {ps : PS} (h : TS Q ps) : TS Q (pOPORTS ps).2 := by
  rw [pOPORTS_eq]
  split
  · exact (h.matchK _).matchK _
  · exact h

theorem tsp_all (Q : Token → Prop) : ∀ f, TSP Q f
  | 0 =>
    { s := fun ps h => by rw [pS_zero]; exact h.err _
      ports := fun ps h => by rw [pPORTS_zero]; exact h.err _
      args := fun ps h => by rw [pARGS_zero]; exact h.err _
      eeos := fun ps h => by rw [pEEOS_zero]; exact h.err _
      p := fun ps h => by rw [pP_zero]; exact h.err _
      morep := fun ps h => by rw [pMOREP_zero]; exact h.err _
      value := fun ps h => by rw [pVALUE_zero]; exact h.err _
      mv := fun ps h => by rw [pMVARGS_zero]; exact h.err _ }
  | f + 1 =>
    have ih := tsp_all Q f
    { s := fun ps h => by
        rw [pS_succ]
        split
        · exact ih.s _ ((ih.p _ ((ih.ports _ ((h.matchK _).matchK _)).matchK _)).matchK _)
        · exact ih.p _ h
      ports := fun ps h => by
        rw [pPORTS_succ]
        split
        · exact (ih.args _ (h.matchK _)).oports
        · exact h
      args := fun ps h => by
        rw [pARGS_succ]
        split
        · exact h.matchK _
        · exact ih.args _ ((h.matchK _).matchK _)
      eeos := fun ps h => by
        rw [pEEOS_succ]
        split
        · exact ih.eeos _ (ih.p _ (h.err _))
        · split
          · exact ih.eeos _ (ih.s _ (h.err _))
          · split
            · exact ih.eeos _ (ih.morep _ h)
            · exact h
      p := fun ps h => by
        rw [pP_succ]
        split
        · refine ih.eeos _ (ih.morep _ ?_)
          split
          · exact ih.value _ ((h.matchK _).matchK _)
          · split
            · exact ih.p _ ((h.matchK _).matchK _)
            · exact (h.matchK _).err _
        · split
          · refine ih.eeos _ (ih.morep _ ((ih.p _ (TS.matchK ?_ _)).matchK _))
            split
            · exact ((h.matchK _).matchK _).matchK _
            · exact (h.matchK _).matchK _
          · split
            · exact ih.eeos _ (ih.morep _ ((h.matchK _).matchK _))
            · split
              · exact ih.eeos _ (ih.morep _ (((((((h.matchK _).matchK _).matchK _).matchK _).matchK _).matchK _).matchK _))
              · split
                · exact ih.eeos _ (ih.morep _ (h.matchK _))
                · exact ih.eeos _ (h.err _)
      morep := fun ps h => by
        rw [pMOREP_succ]
        split
        · exact h
        · refine ih.p _ ?_
          split
          · exact (h.matchK _).err _
          · exact h.matchK _
      value := fun ps h => by
        rw [pVALUE_succ]
        split
        · exact h.matchK _
        · split
          · exact h.matchK _
          · split
            · refine TS.matchK ?_ _
              split
              · exact ((h.matchK _).matchK _).matchK _
              · exact ih.mv _ (ih.value _ (((h.matchK _).matchK _).matchK _))
            · exact h.err _
      mv := fun ps h => by
        rw [pMVARGS_succ]
        split
        · exact h
        · split
          · exact ih.value _ (h.matchK _)
          · exact ih.mv _ (ih.value _ (h.matchK _)) }

/-! ### the nodes the parser builds -/

abbrev QV : Token → Prop := fun t => t.kind = Tok.ID → varOK t.text = true

/-- a matched identifier is an ID token of the input -/
theorem cur_ok {ps : PS} (hts : TS QV ps) (he : (ps.matchK Tok.ID).errs = []) : varOK ps.cur.text = true := by
  rcases matchK_adv ps Tok.ID (by decide) with h | ⟨_, t, hk, ht⟩
  · rw [he] at h; simp at h
  · have hc : ps.cur = t := by unfold PS.cur; rw [ht]; rfl
    rw [hc]
    exact hts t (by rw [ht]; exact List.mem_cons_self) hk

theorem valNames_leafName (tok file : Bytes) (line : Int) : valNames (.mk NodeT.NAME tok file line .nil .nil) = varOK tok := by
  rw [valNames_mk, if_neg (by decide), if_pos rfl]
theorem valNames_leafNumber (tok file : Bytes) (line : Int) : valNames (.mk NodeT.NUMBER tok file line .nil .nil) = true := by
  rw [valNames_mk, if_neg (by decide), if_neg (by decide), if_neg (by decide)]
theorem valNames_call (n a args : Node) : valNames (mkAt NodeT.CALL n a args) = valNames args := by
  rw [mkAt, valNames_mk, if_neg (by decide), if_neg (by decide), if_pos rfl]
theorem valNames_split (n a b : Node) : valNames (mkAt NodeT.SPLIT n a b) = (valNames a && valNames b) := by
  rw [mkAt, valNames_mk, if_pos rfl]

theorem stmtNames_split (n a b : Node) : stmtNames (mkAt NodeT.SPLIT n a b) = (stmtNames a && stmtNames b) := by
  rw [mkAt, stmtNames_mk, if_pos rfl]
theorem stmtNames_assign (n l v : Node) : stmtNames (mkAt NodeT.ASSIGN n l v) = (varOK l.tok && !isNil v && valNames v) := by
  rw [mkAt, stmtNames_mk, if_neg (by decide), if_pos rfl]
theorem stmtNames_mark (n a b : Node) : stmtNames (mkAt NodeT.MARK n a b) = true := by
  rw [mkAt, stmtNames_mk]; simp [NodeT.MARK, NodeT.SPLIT, NodeT.ASSIGN, NodeT.LOOP, NodeT.WHILE, NodeT.IF]
theorem stmtNames_goto (n a b : Node) : stmtNames (mkAt NodeT.GOTO n a b) = true := by
  rw [mkAt, stmtNames_mk]; simp [NodeT.GOTO, NodeT.SPLIT, NodeT.ASSIGN, NodeT.LOOP, NodeT.WHILE, NodeT.IF]
theorem stmtNames_stop (tok file : Bytes) (line : Int) : stmtNames (.mk NodeT.STOP tok file line .nil .nil) = true := by
  rw [stmtNames_mk]; simp [NodeT.STOP, NodeT.SPLIT, NodeT.ASSIGN, NodeT.LOOP, NodeT.WHILE, NodeT.IF]
theorem stmtNames_loop (t : Nat) (ht : t = NodeT.LOOP ∨ t = NodeT.WHILE) (n : Node) (tok file : Bytes) (line : Int) (b : Node) :
    stmtNames (mkAt t n (.mk NodeT.NAME tok file line .nil .nil) b) = (varOK tok && stmtNames b) := by
  rw [mkAt, stmtNames_mk]
  rcases ht with rfl | rfl <;> simp [NodeT.LOOP, NodeT.WHILE, NodeT.SPLIT, NodeT.ASSIGN, isNil, Node.tok]
theorem stmtNames_if (n : Node) (t1 f1 : Bytes) (l1 : Int) (t2 f2 : Bytes) (l2 : Int) (g : Node) :
    stmtNames (mkAt NodeT.IF n (mkAt NodeT.EQ n (.mk NodeT.NAME t1 f1 l1 .nil .nil) (.mk NodeT.NUMBER t2 f2 l2 .nil .nil)) g) = varOK t1 := by
  rw [mkAt, stmtNames_mk]
  simp [NodeT.IF, NodeT.SPLIT, NodeT.ASSIGN, NodeT.LOOP, NodeT.WHILE, isNil, Node.left, Node.right, Node.tok, mkAt]

theorem astIdents_of_stmt : ∀ n : Node, stmtShape n = true → stmtNames n = true → astIdents n = true
  | .nil, _, _ => by rw [astIdents]
  | .mk t tok file line l r, h, hn => by
    rw [astIdents]
    split
    · rename_i hc
      obtain ⟨rfl, hl⟩ := hc
      rw [stmtShape, if_pos rfl, Bool.and_eq_true] at h
      cases l with
      | nil => simp [Node.ty, NodeT.PROGRAM] at hl
      | mk t2 tok2 f2 ln2 l2 r2 =>
        have : t2 = NodeT.PROGRAM := hl
        subst this
        have h1 := h.1
        rw [stmtShape] at h1
        simp [NodeT.PROGRAM, NodeT.SPLIT, NodeT.ASSIGN, NodeT.LOOP, NodeT.WHILE, NodeT.IF, NodeT.MARK, NodeT.GOTO, NodeT.STOP] at h1
    · exact hn

theorem astIdents_prog (n nm name port body e1 e2 e3 more : Node)
    (hp : (namesOf port.left).all varOK = true ∧ varOK (outNameOf port.right) = true)
    (hb : stmtNames body = true) (hm : astIdents more = true) :
    astIdents (mkAt NodeT.SPLIT n (mkAt NodeT.PROGRAM nm (mkAt NodeT.SPLIT nm name port)
      (mkAt NodeT.SPLIT nm body (mkAt NodeT.MARK e1 e2 e3))) more) = true := by
  rw [mkAt, astIdents, if_pos ⟨rfl, rfl⟩]
  simp only [Node.left, Node.right, mkAt]
  rw [Bool.and_eq_true, Bool.and_eq_true]
  refine ⟨⟨?_, ?_⟩, hm⟩
  · unfold progNames
    show ((namesOf port.left).all varOK && varOK (outNameOf port.right)) = true
    rw [hp.1, hp.2]; rfl
  · have h1 := stmtNames_split nm body (mkAt NodeT.MARK e1 e2 e3)
    have h2 := stmtNames_mark e1 e2 e3
    rw [mkAt] at h1 h2
    rw [mkAt] at h1
    rw [h1, hb, h2]; rfl

theorem namesOf_split (n a b : Node) : namesOf (mkAt NodeT.SPLIT n a b) = namesOf a ++ namesOf b := by
  rw [mkAt, namesOf, if_pos rfl]
theorem namesOf_leaf (tok file : Bytes) (line : Int) : namesOf (.mk NodeT.NAME tok file line .nil .nil) = [tok] := by
  rw [namesOf, if_neg (by decide)]

/-! ### the induction over the fuel -/

structure NH (f : Nat) : Prop where
  value : ∀ ps, TS QV ps → (pVALUE f ps).2.errs = [] → valNames (pVALUE f ps).1 = true ∧ isNil (pVALUE f ps).1 = false
  mv : ∀ ps, TS QV ps → (pMVARGS f ps).2.errs = [] → valNames (pMVARGS f ps).1 = true
  args : ∀ ps, TS QV ps → (pARGS f ps).2.errs = [] → (namesOf (pARGS f ps).1).all varOK = true
  ports : ∀ ps, TS QV ps → (pPORTS f ps).2.errs = [] →
    (namesOf (pPORTS f ps).1.left).all varOK = true ∧ varOK (outNameOf (pPORTS f ps).1.right) = true
  p : ∀ ps, TS QV ps → (pP f ps).2.errs = [] → stmtNames (pP f ps).1 = true
  morep : ∀ ps, TS QV ps → (pMOREP f ps).2.errs = [] → stmtNames (pMOREP f ps).1 = true
  s : ∀ ps, TS QV ps → (pS f ps).2.errs = [] → astIdents (pS f ps).1 = true

theorem nh_zero : NH 0 where
  value ps _ h := by rw [pVALUE_zero] at h; exact absurd h (err_ne _ _)
  mv ps _ h := by rw [pMVARGS_zero] at h; exact absurd h (err_ne _ _)
  args ps _ h := by rw [pARGS_zero] at h; exact absurd h (err_ne _ _)
  ports ps _ h := by rw [pPORTS_zero] at h; exact absurd h (err_ne _ _)
  p ps _ h := by rw [pP_zero] at h; exact absurd h (err_ne _ _)
  morep ps _ h := by rw [pMOREP_zero] at h; exact absurd h (err_ne _ _)
  s ps _ h := by rw [pS_zero] at h; exact absurd h (err_ne _ _)

theorem nh_value {f : Nat} (ih : NH f) (ps : PS) (hts : TS QV ps) (h : (pVALUE (f+1) ps).2.errs = []) :
    valNames (pVALUE (f+1) ps).1 = true ∧ isNil (pVALUE (f+1) ps).1 = false := by
  have ab := ab_all f
  have tsp := tsp_all QV f
  rw [pVALUE.eq_def (f+1) ps] at h ⊢
  dsimp only [PS.matchmk] at h ⊢
  by_cases h1 : ps.la = Tok.ID
  · simp only [if_pos h1] at h ⊢
    exact ⟨by rw [valNames_leafName]; exact cur_ok hts h, rfl⟩
  simp only [if_neg h1] at h ⊢
  by_cases h2 : ps.la = Tok.INT
  · simp only [if_pos h2]
    exact ⟨valNames_leafNumber _ _ _, rfl⟩
  simp only [if_neg h2] at h ⊢
  by_cases h3 : ps.la = Tok.RUN
  · simp only [if_pos h3] at h ⊢
    split at h
    · rename_i hc
      simp only [if_pos hc]
      exact ⟨by rw [valNames_call]; rfl, rfl⟩
    · rename_i hc
      simp only [if_neg hc]
      dsimp only at h
      have e1 := nil_of_le (mk_le _ Tok.END (by decide)) h
      have e2 := nil_of_le (ab.mv _).le e1
      have t0 : TS QV (((ps.matchK Tok.RUN).matchK Tok.ID).matchK Tok.WITH) := ((hts.matchK _).matchK _).matchK _
      have s2 := (ih.value _ t0 e2).1
      have s1 := ih.mv _ (tsp.value _ t0) e1
      refine ⟨?_, rfl⟩
      rw [valNames_call, valNames_split, s1, s2]; rfl
  · simp only [if_neg h3] at h
    exact absurd h (err_ne _ _)

theorem nh_mv {f : Nat} (ih : NH f) (ps : PS) (hts : TS QV ps) (h : (pMVARGS (f+1) ps).2.errs = []) :
    valNames (pMVARGS (f+1) ps).1 = true := by
  have ab := ab_all f
  have tsp := tsp_all QV f
  rw [pMVARGS] at h ⊢
  by_cases h1 : ps.la ≠ Tok.ARGSEP
  · simp only [if_pos h1]; rfl
  simp only [if_neg h1] at h ⊢
  cases hv : (pVALUE f (ps.matchK Tok.ARGSEP)).1 with
  | nil => simp only [hv]; rfl
  | mk t tok file line l r =>
    simp only [hv] at h ⊢
    have e1 := nil_of_le (ab.mv _).le h
    have s1 := (ih.value _ (hts.matchK _) e1).1
    have s2 := ih.mv _ (tsp.value _ (hts.matchK _)) h
    rw [hv] at s1
    rw [valNames_split, s1, s2]; rfl

theorem nh_morep {f : Nat} (ih : NH f) (ps : PS) (hts : TS QV ps) (h : (pMOREP (f+1) ps).2.errs = []) :
    stmtNames (pMOREP (f+1) ps).1 = true := by
  rw [pMOREP] at h ⊢
  by_cases h1 : ps.la ≠ Tok.PROGSEP
  · simp only [if_pos h1]; rfl
  · simp only [if_neg h1] at h ⊢
    refine ih.p _ ?_ h
    split
    · exact (hts.matchK _).err _
    · exact hts.matchK _

theorem nh_args {f : Nat} (ih : NH f) (ps : PS) (hts : TS QV ps) (h : (pARGS (f+1) ps).2.errs = []) :
    (namesOf (pARGS (f+1) ps).1).all varOK = true := by
  have ab := ab_all f
  rw [pARGS] at h ⊢
  dsimp only [PS.matchmk] at h ⊢
  by_cases h1 : (ps.matchK Tok.ID).la ≠ Tok.ARGSEP
  · simp only [if_pos h1] at h ⊢
    rw [namesOf_split, namesOf_leaf]
    simp [namesOf, cur_ok hts h]
  · simp only [if_neg h1] at h ⊢
    have e1 := nil_of_le (mk_le _ Tok.ARGSEP (by decide)) (nil_of_le (ab.args _).le h)
    have s1 := ih.args _ ((hts.matchK _).matchK _) h
    rw [namesOf_split, namesOf_leaf, List.all_append, s1]
    simp [cur_ok hts e1]

theorem outNameOf_nil : outNameOf .nil = bX0 := rfl

theorem nh_oports (ps : PS) (hts : TS QV ps) (h : (pOPORTS ps).2.errs = []) : varOK (outNameOf (pOPORTS ps).1) = true := by
  unfold pOPORTS at h ⊢
  by_cases h1 : ps.la = Tok.OUT
  · simp only [if_pos h1] at h ⊢
    dsimp only [PS.matchmk] at h ⊢
    show varOK (ps.matchK Tok.OUT).cur.text = true
    exact cur_ok (hts.matchK _) h
  · simp only [if_neg h1]
    rw [outNameOf_nil]; decide

theorem nh_ports {f : Nat} (ih : NH f) (ps : PS) (hts : TS QV ps) (h : (pPORTS (f+1) ps).2.errs = []) :
    (namesOf (pPORTS (f+1) ps).1.left).all varOK = true ∧ varOK (outNameOf (pPORTS (f+1) ps).1.right) = true := by
  have ab := ab_all f
  have tsp := tsp_all QV f
  rw [pPORTS] at h ⊢
  by_cases h1 : ps.la = Tok.IN
  · simp only [if_pos h1] at h ⊢
    have e1 := nil_of_le (oports_adv _).le h
    have s1 := ih.args _ (hts.matchK _) e1
    have s2 := nh_oports _ (tsp.args _ (hts.matchK _)) h
    simp only [mkAt, Node.left, Node.right]
    exact ⟨s1, s2⟩
  · simp only [if_neg h1]
    simp only [Node.left, Node.right]
    exact ⟨rfl, by rw [outNameOf_nil]; decide⟩

theorem nh_s {f : Nat} (ih : NH f) (ps : PS) (hts : TS QV ps) (h : (pS (f+1) ps).2.errs = []) :
    astIdents (pS (f+1) ps).1 = true := by
  have ab := ab_all f
  have tsp := tsp_all QV f
  have sh := sh_all f
  rw [pS] at h ⊢
  by_cases h1 : ps.la = Tok.PROGRAM
  · simp only [if_pos h1] at h ⊢
    dsimp only [PS.matchmk] at h ⊢
    have t1 : TS QV ((ps.matchK Tok.PROGRAM).matchK Tok.ID) := (hts.matchK _).matchK _
    have t2 := tsp.ports _ t1
    have t3 := tsp.p _ (t2.matchK Tok.DO)
    have s1 := ih.s _ (t3.matchK Tok.END) h
    have e1 := nil_of_le (ab.s _).le h
    have e2 := nil_of_le (mk_le _ Tok.END (by decide)) e1
    have s2 := ih.p _ (t2.matchK Tok.DO) e2
    have e3 := nil_of_le (ab.p _).le e2
    have e4 := nil_of_le (mk_le _ Tok.DO (by decide)) e3
    have s3 := ih.ports _ t1 e4
    exact astIdents_prog _ _ _ _ _ _ _ _ _ s3 s2 s1
  · simp only [if_neg h1] at h ⊢
    exact astIdents_of_stmt _ (sh.p _ h) (ih.p _ hts h)

theorem tail_names {f : Nat} (ih : NH f) (ps : PS) (hts : TS QV ps) (h : (pEEOS f (pMOREP f ps).2).errs = []) :
    (pMOREP f ps).2.errs = [] ∧ ps.errs = [] ∧ stmtNames (pMOREP f ps).1 = true := by
  have ab := ab_all f
  have e1 := nil_of_le (ab.eeos _) h
  exact ⟨e1, nil_of_le (ab.morep _) e1, ih.morep _ hts e1⟩

theorem nh_p {f : Nat} (ih : NH f) (ps : PS) (hts : TS QV ps) (h : (pP (f+1) ps).2.errs = []) :
    stmtNames (pP (f+1) ps).1 = true := by
  have ab := ab_all f
  have tsp := tsp_all QV f
  rw [pP] at h ⊢
  dsimp only [PS.matchmk] at h ⊢
  by_cases h1 : ps.la = Tok.ID
  · simp only [if_pos h1] at h ⊢
    by_cases h2 : (ps.matchK Tok.ID).la = Tok.ASSIGN
    · simp only [if_pos h2] at h ⊢
      have t1 : TS QV ((ps.matchK Tok.ID).matchK Tok.ASSIGN) := (hts.matchK _).matchK _
      obtain ⟨_, e2, s1⟩ := tail_names ih _ (tsp.value _ t1) h
      obtain ⟨v1, v2⟩ := ih.value _ t1 e2
      have e3 := nil_of_le (mk_le _ Tok.ASSIGN (by decide)) (nil_of_le (ab.value _).le e2)
      rw [stmtNames_split, stmtNames_assign, v1, v2, s1]
      simp [Node.tok, cur_ok hts e3]
    · simp only [if_neg h2] at h ⊢
      by_cases h3 : (ps.matchK Tok.ID).la = Tok.LABELDEC
      · simp only [if_pos h3] at h ⊢
        have t1 : TS QV ((ps.matchK Tok.ID).matchK Tok.LABELDEC) := (hts.matchK _).matchK _
        obtain ⟨_, e2, s1⟩ := tail_names ih _ (tsp.p _ t1) h
        rw [stmtNames_split, stmtNames_split, stmtNames_mark, ih.p _ t1 e2, s1]; rfl
      · simp only [if_neg h3] at h ⊢
        have e1 := nil_of_le (ab.eeos _) h
        have e2 := nil_of_le (ab.morep _) e1
        exact absurd e2 (err_ne _ _)
  simp only [if_neg h1] at h ⊢
  by_cases h2 : ps.la = Tok.LOOP ∨ ps.la = Tok.WHILE
  · simp only [if_pos h2] at h ⊢
    have t0 : TS QV (ps.matchK ps.la) := hts.matchK _
    have t1 : TS QV ((if ps.la = Tok.WHILE then ((ps.matchK ps.la).matchK Tok.ID).matchK Tok.NEQ_ZERO
        else (ps.matchK ps.la).matchK Tok.ID).matchK Tok.DO) := by
      refine TS.matchK ?_ _
      split
      · exact (t0.matchK _).matchK _
      · exact t0.matchK _
    obtain ⟨_, e2, s1⟩ := tail_names ih _ ((tsp.p _ t1).matchK _) h
    have e3 := nil_of_le (mk_le _ Tok.END (by decide)) e2
    have s2 := ih.p _ t1 e3
    have e4 := nil_of_le (mk_le _ Tok.DO (by decide)) (nil_of_le (ab.p _).le e3)
    have e5 : ((ps.matchK ps.la).matchK Tok.ID).errs = [] := by
      split at e4
      · exact nil_of_le (mk_le _ Tok.NEQ_ZERO (by decide)) e4
      · exact e4
    rw [stmtNames_split, stmtNames_split, stmtNames_mark, s1]
    rw [stmtNames_loop _ (by split; exact Or.inl rfl; exact Or.inr rfl), s2, cur_ok t0 e5]; rfl
  simp only [if_neg h2] at h ⊢
  by_cases h3 : ps.la = Tok.GOTO
  · simp only [if_pos h3] at h ⊢
    obtain ⟨_, _, s1⟩ := tail_names ih _ ((hts.matchK _).matchK _) h
    rw [stmtNames_split, stmtNames_goto, s1]; rfl
  simp only [if_neg h3] at h ⊢
  by_cases h4 : ps.la = Tok.IF
  · simp only [if_pos h4] at h ⊢
    have t0 : TS QV (ps.matchK Tok.IF) := hts.matchK _
    obtain ⟨_, e2, s1⟩ := tail_names ih _ ((((((t0.matchK _).matchK _).matchK _).matchK _).matchK _).matchK _) h
    have e3 : ((ps.matchK Tok.IF).matchK Tok.ID).errs = [] :=
      nil_of_le (mk_le _ Tok.EQ (by decide)) (nil_of_le (mk_le _ Tok.INT (by decide)) (nil_of_le (mk_le _ Tok.THEN (by decide))
        (nil_of_le (mk_le _ Tok.GOTO (by decide)) (nil_of_le (mk_le _ Tok.ID (by decide)) e2))))
    rw [stmtNames_split, stmtNames_if, s1, cur_ok t0 e3]; rfl
  simp only [if_neg h4] at h ⊢
  by_cases h5 : ps.la = Tok.STOP
  · simp only [if_pos h5] at h ⊢
    obtain ⟨_, _, s1⟩ := tail_names ih _ (hts.matchK _) h
    rw [stmtNames_split, stmtNames_stop, s1]; rfl
  · simp only [if_neg h5] at h ⊢
    have e1 := nil_of_le (ab.eeos _) h
    exact absurd e1 (err_ne _ _)

theorem nh_all : ∀ f, NH f
  | 0 => nh_zero
  | f + 1 =>
    have ih := nh_all f
    { value := nh_value ih, mv := nh_mv ih, args := nh_args ih, ports := nh_ports ih, p := nh_p ih,
      morep := nh_morep ih, s := nh_s ih }

/-- an error-free parse of a token stream whose identifiers are user variables satisfies the
    identifier part of the side condition -/
theorem parser_idents (ts : List Token) (he : (parseTokens ts).2 = [])
    (hid : ∀ t ∈ ts, t.kind = Tok.ID → varOK t.text = true) : astIdents (parseTokens ts).1 = true := by
  rw [parseTokens_snd] at he
  rw [parseTokens_fst]
  have h1 := pTrailing_le (ts.length + 1) (parseFuel ts.length) (pS (parseFuel ts.length) ⟨ts, []⟩).2
  exact (nh_all _).s _ (fun t ht => hid t ht) (nil_of_le h1 he)

end GenShape
end Theo
