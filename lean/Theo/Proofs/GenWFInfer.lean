/-
  Completeness of the certificate inference (C03) relative to a given valid certificate:
  if some certificate `c` passes `checkCert` and its pending-call routine ids are the ones
  `calleeOf` computes, then the worklist propagation `inferCert` produces a certificate that
  passes too, i.e. `wfCheck p = true` (`wfCheck_of_cert`).
  Proof: the loop keeps its certificate pointwise below `c` (`Below`), every annotated pc is on
  the worklist or has all its successors annotated (`Done`), and the fuel covers the worklist
  plus the still unannotated entries; at the end `checkPc` transfers from `c` (`checkPc_transfer`).
-/
import Theo.Proofs.WFProofs
namespace Theo
namespace GenWF
open WF

/-! auxiliary definitions and lemmas live in `Theo.GenWF.Infer` -/
namespace Infer

/-- the hypothesis on pending-call routine ids -/
def CalOK (p : Program) (c : Cert) : Prop :=
  ∀ (pc : Nat) (cnt idx tgt : Int) (I N : PcInfo) (cf j : Nat),
    p.code[pc]? = some (Instr.prepare cnt idx tgt) → c.info (pc : Int) = some I →
    c.info ((pc : Int) + 1) = some N → N.pend = some (cf, j) → j = calleeOf p.code pc

theorem succs_valid {p : Program} {c : Cert} {root pc : Nat} {ins : Instr} {I : PcInfo}
    (hcal : CalOK p c) (hins : p.code[pc]? = some ins) (hI : c.info (pc : Int) = some I)
    (h : checkPc p c root pc ins I = true) :
    ∀ s ∈ succsOf p.code pc ins I, c.info s.1 = some s.2 := by
  intro s hs
  cases ins with
  | potBreak | brk | add _ _ _ | test _ _ _ | const _ _ =>
    simp only [checkPc, Bool.and_eq_true, beq_iff_eq] at h
    simp only [succsOf, List.mem_singleton] at hs
    subst hs; simp only [h.2]
  | halt | ret _ => simp only [succsOf, List.not_mem_nil] at hs
  | jmp off =>
    simp only [checkPc, Bool.and_eq_true, beq_iff_eq] at h
    simp only [succsOf, List.mem_singleton] at hs
    subst hs; exact h.2
  | jmpc off r =>
    simp only [checkPc, Bool.and_eq_true, beq_iff_eq] at h
    simp only [succsOf, List.mem_cons, List.not_mem_nil, or_false] at hs
    rcases hs with rfl | rfl
    · exact h.1.2
    · exact h.2
  | arg t r =>
    simp only [checkPc] at h
    simp only [succsOf, List.mem_singleton] at hs
    subst hs
    split at h
    · simp only [Bool.and_eq_true, beq_iff_eq] at h; exact h.2
    · cases h
  | exec entry =>
    simp only [checkPc] at h
    simp only [succsOf] at hs
    split at h
    · rename_i cf j hp
      rw [hp] at hs
      simp only [Bool.and_eq_true, beq_iff_eq, List.mem_cons, List.not_mem_nil, or_false] at h hs
      rcases hs with rfl | rfl
      · exact h.1.2
      · exact h.2
    · cases h
  | prepare cnt idx tgt =>
    simp only [checkPc] at h
    simp only [succsOf, List.mem_singleton] at hs
    subst hs
    simp only [Bool.and_eq_true] at h
    obtain ⟨_, h⟩ := h
    split at h
    · rename_i N hN
      simp only [Bool.and_eq_true, beq_iff_eq] at h
      obtain ⟨⟨hf, hr⟩, h⟩ := h
      split at h
      · rename_i cf j hp
        simp only [Bool.and_eq_true, beq_iff_eq, decide_eq_true_eq] at h
        have hj := hcal pc cnt idx tgt I N cf j hins hI hN hp
        show c.info ((pc : Int) + 1) = _
        rw [hN]
        cases N
        simp only at hf hr hp
        subst hf hr hp
        rw [← hj, h.1]
      · cases h
    · cases h

/-- the certificate enters `checkPc` only through the successors -/
theorem checkPc_transfer {p : Program} {c c' : Cert} {root pc : Nat} {ins : Instr} {I : PcInfo}
    (h : checkPc p c root pc ins I = true)
    (hc : ∀ s ∈ succsOf p.code pc ins I, c.info s.1 = some s.2)
    (hc' : ∀ s ∈ succsOf p.code pc ins I, c'.info s.1 = some s.2) :
    checkPc p c' root pc ins I = true := by
  cases ins with
  | potBreak | brk | add _ _ _ | test _ _ _ | const _ _ =>
    simp only [checkPc, Bool.and_eq_true, beq_iff_eq] at h ⊢
    simp only [succsOf, List.mem_singleton, forall_eq] at hc'
    simp only [h, hc', and_self]
  | halt => rfl
  | ret _ => exact h
  | jmp off =>
    simp only [checkPc, Bool.and_eq_true, beq_iff_eq] at h ⊢
    simp only [succsOf, List.mem_singleton, forall_eq] at hc'
    exact ⟨h.1, hc'⟩
  | jmpc off r =>
    simp only [checkPc, Bool.and_eq_true, beq_iff_eq] at h ⊢
    have h1 := hc' (_, _) (List.mem_cons_self)
    have h2 := hc' (_, _) (List.mem_cons_of_mem _ List.mem_cons_self)
    exact ⟨⟨h.1.1, h1⟩, h2⟩
  | arg t r =>
    simp only [checkPc] at h ⊢
    simp only [succsOf, List.mem_singleton, forall_eq] at hc'
    split at h
    · simp only [Bool.and_eq_true, beq_iff_eq] at h ⊢; exact ⟨h.1, hc'⟩
    · cases h
  | exec entry =>
    simp only [checkPc] at h ⊢
    simp only [succsOf] at hc'
    split at h
    · rename_i cf j hp
      rw [hp] at hc'
      simp only [Bool.and_eq_true, beq_iff_eq] at h ⊢
      have h1 := hc' (_, _) (List.mem_cons_self)
      have h2 := hc' (_, _) (List.mem_cons_of_mem _ List.mem_cons_self)
      exact ⟨⟨h.1.1, h1⟩, h2⟩
    · cases h
  | prepare cnt idx tgt =>
    simp only [checkPc] at h ⊢
    simp only [succsOf, List.mem_singleton, forall_eq] at hc hc'
    simp only [Bool.and_eq_true] at h ⊢
    refine ⟨h.1, ?_⟩
    obtain ⟨_, h⟩ := h
    rw [hc] at h
    rw [hc']
    exact h

def stepF (acc : Cert × List Nat) (s : Int × PcInfo) : Cert × List Nat :=
  if s.1 < 1 then acc else
  match acc.1[s.1.toNat]? with
  | some none => (acc.1.set s.1.toNat (some s.2), acc.2 ++ [s.1.toNat])
  | _ => acc

theorem count_set_none (l : Cert) (i : Nat) (J : PcInfo) (h : l[i]? = some none) :
    (l.set i (some J)).count none + 1 = l.count none := by
  obtain ⟨hi, hg⟩ := List.getElem?_eq_some_iff.1 h
  rw [List.count_set hi, hg]
  have : 0 < l.count none := List.count_pos_iff.2 (List.mem_of_getElem? h)
  simp
  omega

/-- `a` has the length of `c` and every annotation of `a` is the one of `c` -/
def Below (c a : Cert) : Prop :=
  a.length = c.length ∧ ∀ (i : Nat) (I : PcInfo), a[i]? = some (some I) → c[i]? = some (some I)

/-- the accumulator `y` extends the accumulator `x` -/
structure Grow (x y : Cert × List Nat) : Prop where
  len : y.1.length = x.1.length
  mono : ∀ (i : Nat) (I : PcInfo), x.1[i]? = some (some I) → y.1[i]? = some (some I)
  new : ∀ (i : Nat) (I : PcInfo), y.1[i]? = some (some I) → x.1[i]? = some (some I) ∨ i ∈ y.2
  sub : ∀ i ∈ x.2, i ∈ y.2
  cnt : y.2.length + y.1.count none = x.2.length + x.1.count none
  zero : x.1[0]? = some none → y.1[0]? = some none

theorem Grow.refl (x : Cert × List Nat) : Grow x x :=
  ⟨rfl, fun _ _ h => h, fun _ _ h => Or.inl h, fun _ h => h, rfl, fun h => h⟩

theorem Grow.trans {x y z : Cert × List Nat} (h1 : Grow x y) (h2 : Grow y z) : Grow x z where
  len := h2.len.trans h1.len
  mono := fun i I h => h2.mono i I (h1.mono i I h)
  new := fun i I h => by
    rcases h2.new i I h with h | h
    · rcases h1.new i I h with h | h
      · exact Or.inl h
      · exact Or.inr (h2.sub i h)
    · exact Or.inr h
  sub := fun i h => h2.sub i (h1.sub i h)
  cnt := h2.cnt.trans h1.cnt
  zero := fun h => h2.zero (h1.zero h)

theorem stepF_spec {c : Cert} (h0 : c.info 0 = none) {x : Cert × List Nat} (hx : Below c x.1)
    {s : Int × PcInfo} (hs : c.info s.1 = some s.2) :
    Below c (stepF x s).1 ∧ Grow x (stepF x s) ∧ 1 ≤ s.1 ∧
      (stepF x s).1[s.1.toNat]? = some (some s.2) := by
  obtain ⟨hs0, hsg⟩ := info_eq_some hs
  have hs1 : 1 ≤ s.1 := by
    rcases (by omega : s.1 < 1 ∨ 1 ≤ s.1) with h | h
    · have : s.1 = 0 := by omega
      rw [this, h0] at hs; cases hs
    · exact h
  have hlt : s.1.toNat < x.1.length := by
    rw [hx.1]; exact (List.getElem?_eq_some_iff.1 hsg).1
  unfold stepF
  rw [if_neg (by omega)]
  split
  · rename_i hn
    have hB : Below c (x.1.set s.1.toNat (some s.2)) := by
      refine ⟨?_, ?_⟩
      · rw [List.length_set]; exact hx.1
      · intro i I hi
        simp only [List.getElem?_set] at hi
        split at hi
        · rename_i e
          subst e
          cases hi
          exact hsg
        · exact hx.2 i I hi
    have hG : Grow x (x.1.set s.1.toNat (some s.2), x.2 ++ [s.1.toNat]) := by
      refine ⟨?_, ?_, ?_, ?_, ?_, ?_⟩
      · show (x.1.set s.1.toNat (some s.2)).length = _
        rw [List.length_set]
      · intro i I hi
        show (x.1.set s.1.toNat (some s.2))[i]? = _
        simp only [List.getElem?_set]
        split
        · rename_i e; subst e; rw [hn] at hi; cases hi
        · exact hi
      · intro i I hi
        change (x.1.set s.1.toNat (some s.2))[i]? = _ at hi
        show _ ∨ i ∈ x.2 ++ [s.1.toNat]
        simp only [List.getElem?_set] at hi
        split at hi
        · rename_i e; subst e; right; simp
        · left; exact hi
      · intro i hi
        show i ∈ x.2 ++ [s.1.toNat]
        simp only [List.mem_append]; exact Or.inl hi
      · have := count_set_none x.1 s.1.toNat s.2 hn
        show (x.2 ++ [s.1.toNat]).length + (x.1.set s.1.toNat (some s.2)).count none = _
        simp only [List.length_append, List.length_singleton]
        omega
      · intro hz
        show (x.1.set s.1.toNat (some s.2))[0]? = _
        simp only [List.getElem?_set]
        rw [if_neg (by omega)]
        exact hz
    refine ⟨hB, hG, hs1, ?_⟩
    show (x.1.set s.1.toNat (some s.2))[s.1.toNat]? = _
    simp only [List.getElem?_set, if_pos hlt, if_true]
  · rename_i hn
    refine ⟨hx, Grow.refl _, hs1, ?_⟩
    cases hg : x.1[s.1.toNat]? with
    | none =>
      have := List.getElem?_eq_none_iff.1 hg
      omega
    | some o =>
      cases o with
      | none => exact absurd hg hn
      | some J =>
        have := hx.2 _ _ hg
        rw [hsg] at this
        cases this
        rfl

theorem fold_spec {c : Cert} (h0 : c.info 0 = none) :
    ∀ (ss : List (Int × PcInfo)) (x : Cert × List Nat), Below c x.1 →
      (∀ s ∈ ss, c.info s.1 = some s.2) →
      Below c (ss.foldl stepF x).1 ∧ Grow x (ss.foldl stepF x) ∧
        ∀ s ∈ ss, 1 ≤ s.1 ∧ (ss.foldl stepF x).1[s.1.toNat]? = some (some s.2) := by
  intro ss
  induction ss with
  | nil => intro x hx _; exact ⟨hx, Grow.refl _, fun _ h => by cases h⟩
  | cons s ss ih =>
    intro x hx hss
    obtain ⟨hb, hg, h1, hset⟩ := stepF_spec h0 hx (hss s List.mem_cons_self)
    obtain ⟨hb', hg', hall⟩ := ih (stepF x s) hb (fun t ht => hss t (List.mem_cons_of_mem _ ht))
    simp only [List.foldl_cons]
    refine ⟨hb', hg.trans hg', ?_⟩
    intro t ht
    rcases List.mem_cons.1 ht with rfl | ht
    · exact ⟨h1, hg'.mono _ _ hset⟩
    · exact hall t ht

theorem inferLoop_succ (code : List Instr) (fuel pc : Nat) (work : List Nat) (c : Cert) :
    inferLoop code (fuel + 1) (pc :: work) c =
      match code[pc]?, (c[pc]?).join with
      | some ins, some I =>
        inferLoop code fuel (work ++ ((succsOf code pc ins I).foldl stepF (c, [])).2)
          ((succsOf code pc ins I).foldl stepF (c, [])).1
      | _, _ => inferLoop code fuel work c := by
  rfl


/-- all successors of the annotated `pc` are annotated (with what `succsOf` says) -/
def Done (p : Program) (a : Cert) (pc : Nat) (I : PcInfo) : Prop :=
  ∀ ins, p.code[pc]? = some ins → ∀ s ∈ succsOf p.code pc ins I,
    1 ≤ s.1 ∧ a[s.1.toNat]? = some (some s.2)

theorem Done.mono {p : Program} {a a' : Cert} {pc : Nat} {I : PcInfo}
    (hm : ∀ (i : Nat) (J : PcInfo), a[i]? = some (some J) → a'[i]? = some (some J))
    (h : Done p a pc I) : Done p a' pc I :=
  fun ins hins s hs => ⟨(h ins hins s hs).1, hm _ _ (h ins hins s hs).2⟩

/-- invariant of the worklist loop -/
structure Inv (p : Program) (c : Cert) (R : PcInfo) (work : List Nat) (a : Cert) : Prop where
  below : Below c a
  zero : a[0]? = some none
  one : a[1]? = some (some R)
  done : ∀ (pc : Nat) (I : PcInfo), a[pc]? = some (some I) → pc ∈ work ∨ Done p a pc I

theorem join_some {o : Option (Option PcInfo)} {I : PcInfo} (h : o.join = some I) :
    o = some (some I) := by
  cases o with
  | none => cases h
  | some x =>
    cases x with
    | none => cases h
    | some J => simp only [Option.join_some] at h; rw [h]

theorem loop_spec {p : Program} {c : Cert} {R : PcInfo} (ok : CertOK p c R) (hcal : CalOK p c) :
    ∀ (fuel : Nat) (work : List Nat) (a : Cert), Inv p c R work a →
      work.length + a.count none ≤ fuel → Inv p c R [] (inferLoop p.code fuel work a) := by
  intro fuel
  induction fuel with
  | zero =>
    intro work a hI hf
    have : work = [] := List.eq_nil_of_length_eq_zero (by omega)
    subst this
    exact hI
  | succ fuel ih =>
    intro work a hI hf
    cases work with
    | nil => exact hI
    | cons pc rest =>
      rw [inferLoop_succ]
      split
      · rename_i ins I hins hj
        have hg := join_some hj
        have hcI : c.info (pc : Int) = some I := info_of_get (hI.below.2 _ _ hg)
        have hchk := ok.chk pc I ins hcI hins
        have hss := succs_valid hcal hins hcI hchk
        obtain ⟨hb, hgr, hall⟩ := fold_spec ok.c0 (succsOf p.code pc ins I) (a, []) hI.below hss
        apply ih
        · refine ⟨hb, hgr.zero hI.zero, hgr.mono _ _ hI.one, ?_⟩
          intro i J hi
          rcases hgr.new i J hi with h | h
          · rcases hI.done i J h with hw | hd
            · rcases List.mem_cons.1 hw with rfl | hw
              · right
                have : J = I := by
                  rw [hg] at h; cases h; rfl
                subst this
                intro ins' hins' s hs
                rw [hins] at hins'; cases hins'
                exact hall s hs
              · left; exact List.mem_append.2 (Or.inl hw)
            · right; exact hd.mono hgr.mono
          · left; exact List.mem_append.2 (Or.inr h)
        · have := hgr.cnt
          simp only [List.length_nil, List.length_cons, List.length_append] at this hf ⊢
          omega
      · rename_i hne
        apply ih
        · refine ⟨hI.below, hI.zero, hI.one, ?_⟩
          intro i J hi
          rcases hI.done i J hi with hw | hd
          · rcases List.mem_cons.1 hw with rfl | hw
            · exfalso
              have hlt : i < p.code.length := by
                rw [← ok.len, ← hI.below.1]; exact (List.getElem?_eq_some_iff.1 hi).1
              exact hne _ _ (List.getElem?_eq_getElem hlt) (by rw [hi]; rfl)
            · exact Or.inl hw
          · exact Or.inr hd
        · simp only [List.length_cons] at hf
          omega


theorem checkCert_intro {p : Program} {a : Cert} {R : PcInfo} {fr mi t : Int}
    (hlen : a.length = p.code.length) (hcode : p.code[0]? = some (Instr.prepare fr mi t))
    (h0 : a[0]? = some none) (h1 : a[1]? = some (some R)) (hfr : 0 ≤ fr)
    (hmap : mapOK p mi fr.toNat = true) (hR : R.frame = fr.toNat) (hpend : R.pend = none)
    (hrid : R.rid = retsBefore p.code p.code.length)
    (hlast : p.code.getLast? = some Instr.halt)
    (hall : ∀ (pc : Nat) (I : PcInfo) (ins : Instr), a[pc]? = some (some I) →
      p.code[pc]? = some ins → checkPc p a R.rid pc ins I = true)
    (hsites : sitesOKb p = true) : checkCert p a = true := by
  unfold checkCert
  rw [Bool.and_eq_true, Bool.and_eq_true]
  refine ⟨⟨by rw [hlen]; exact beq_self_eq_true _, ?_⟩, hsites⟩
  split
  · rename_i fr' mi' t' crest R' ctail hc
    rw [hc] at hcode
    simp only [List.getElem?_cons_zero, Option.some.injEq, Instr.prepare.injEq] at hcode
    obtain ⟨rfl, rfl, rfl⟩ := hcode
    simp only [List.getElem?_cons_succ, List.getElem?_cons_zero, Option.some.injEq] at h1
    subst h1
    simp only [Bool.and_eq_true, decide_eq_true_eq, beq_iff_eq]
    refine ⟨⟨⟨⟨⟨⟨hfr, hmap⟩, hR⟩, by rw [hpend]; rfl⟩, hrid⟩, hlast⟩, ?_⟩
    rw [List.all_eq_true]
    rintro ⟨⟨ins, pc⟩, o⟩ hx
    obtain ⟨i, hi⟩ := List.mem_iff_getElem?.1 hx
    rw [List.getElem?_zip_eq_some, List.getElem?_zipIdx] at hi
    obtain ⟨hi1, hi2⟩ := hi
    cases hci : p.code[i]? with
    | none => rw [hci] at hi1; cases hi1
    | some ins' =>
      rw [hci] at hi1
      simp only [Option.map_some, Nat.zero_add, Option.some.injEq, Prod.mk.injEq] at hi1
      obtain ⟨rfl, rfl⟩ := hi1
      cases o with
      | none => rfl
      | some I =>
        simp only [Bool.and_eq_true, bne_iff_ne, ne_eq]
        refine ⟨?_, hall _ _ _ hi2 hci⟩
        intro h; subst h
        rw [h0] at hi2; cases hi2
  · rename_i a _ _ hne
    exfalso
    rcases hp : p.code with _ | ⟨i0, crest⟩
    · rw [hp] at hcode; cases hcode
    · rw [hp] at hcode
      simp only [List.getElem?_cons_zero, Option.some.injEq] at hcode
      subst hcode
      rcases a with _ | ⟨a0, _ | ⟨a1, tl⟩⟩
      · cases h0
      · cases h1
      · simp only [List.getElem?_cons_succ, List.getElem?_cons_zero, Option.some.injEq] at h0 h1
        subst h0 h1
        exact hne _ _ _ _ _ _ hp rfl


theorem inferCert_eq {p : Program} {fr mi t : Int}
    (hcode : p.code[0]? = some (Instr.prepare fr mi t)) (hlen : 2 ≤ p.code.length) :
    inferCert p = inferLoop p.code (p.code.length + 1) [1]
      ((List.replicate p.code.length none).set 1
        (some ⟨fr.toNat, retsBefore p.code p.code.length, none⟩)) := by
  unfold inferCert
  split
  · rename_i fr' mi' t' i1 rest hc
    rw [hc] at hcode
    simp only [List.getElem?_cons_zero, Option.some.injEq, Instr.prepare.injEq] at hcode
    obtain ⟨rfl, rfl, rfl⟩ := hcode
    rfl
  · rename_i hne
    exfalso
    rcases hp : p.code with _ | ⟨i0, _ | ⟨i1, rest⟩⟩
    · rw [hp] at hcode; cases hcode
    · rw [hp] at hlen; simp only [List.length_cons, List.length_nil] at hlen; omega
    · rw [hp] at hcode
      simp only [List.getElem?_cons_zero, Option.some.injEq] at hcode
      subst hcode
      exact hne _ _ _ _ _ hp

theorem info_of_get' {a : Cert} {x : Int} {J : PcInfo} (h0 : 0 ≤ x)
    (h : a[x.toNat]? = some (some J)) : a.info x = some J := by
  unfold Cert.info
  rw [if_neg (by omega), h]
  rfl

theorem checkCert_of_inv {p : Program} {c a : Cert} {R : PcInfo} (h : checkCert p c = true)
    (ok : CertOK p c R) (hcal : CalOK p c) (hI : Inv p c R [] a) : checkCert p a = true := by
  obtain ⟨fr, mi, t, hcode, hfr, hmap, hR⟩ := ok.head
  have hsites : sitesOKb p = true := by
    unfold checkCert at h
    rw [Bool.and_eq_true] at h
    exact h.2
  refine checkCert_intro (hI.below.1.trans ok.len) hcode hI.zero hI.one hfr hmap hR ok.rpend
    ok.rrid ok.last ?_ hsites
  intro pc I ins hg hins
  have hcI : c.info (pc : Int) = some I := info_of_get (hI.below.2 _ _ hg)
  have hchk := ok.chk pc I ins hcI hins
  have hss := succs_valid hcal hins hcI hchk
  refine checkPc_transfer hchk hss ?_
  intro s hs
  rcases hI.done pc I hg with hw | hd
  · cases hw
  · obtain ⟨h1, h2⟩ := hd ins hins s hs
    exact info_of_get' (by omega) h2

theorem wfCheck_of_cert' {p : Program} {c : Cert} (h : checkCert p c = true)
    (hcal : CalOK p c) : wfCheck p = true := by
  obtain ⟨R, ok⟩ := certOK_of_check h
  obtain ⟨fr, mi, t, hcode, hfr, hmap, hR⟩ := ok.head
  obtain ⟨_, hc1⟩ := info_eq_some ok.c1
  have hn : 2 ≤ p.code.length := by
    have := (List.getElem?_eq_some_iff.1 hc1).1
    rw [ok.len] at this
    simp only [Int.toNat_one] at this
    omega
  unfold wfCheck
  rw [inferCert_eq hcode hn]
  have hRe : R = ⟨fr.toNat, retsBefore p.code p.code.length, none⟩ := by
    have h1 := ok.rpend
    have h2 : R.rid = retsBefore p.code p.code.length := ok.rrid
    cases R
    simp only at hR h1 h2
    subst hR h1 h2
    rfl
  apply checkCert_of_inv h ok hcal
  apply loop_spec ok hcal
  · refine ⟨⟨?_, ?_⟩, ?_, ?_, ?_⟩
    · rw [List.length_set, List.length_replicate, ok.len]
    · intro i I hi
      simp only [List.getElem?_set, List.length_replicate, List.getElem?_replicate] at hi
      split at hi
      · rename_i e
        subst e
        rw [if_pos (by omega)] at hi
        cases hi
        rw [← hRe]
        simpa using hc1
      · split at hi <;> cases hi
    · simp only [List.getElem?_set, List.length_replicate, List.getElem?_replicate]
      rw [if_neg (by omega), if_pos (by omega)]
    · simp only [List.getElem?_set, List.length_replicate]
      rw [if_pos trivial, if_pos (by omega), hRe]
    · intro i I hi
      simp only [List.getElem?_set, List.length_replicate, List.getElem?_replicate] at hi
      split at hi
      · rename_i e; subst e; left; exact List.mem_singleton.2 rfl
      · split at hi <;> cases hi
  · have := List.count_le_length (a := (none : Option PcInfo))
      (l := (List.replicate p.code.length none).set 1
        (some ⟨fr.toNat, retsBefore p.code p.code.length, none⟩))
    rw [List.length_set, List.length_replicate] at this
    simp only [List.length_cons, List.length_nil]
    omega

end Infer

/-- if SOME certificate `c` passes the checker and its pending-call routine ids are the ones the
    inference computes (`calleeOf`), then the inferred certificate passes too -/
theorem wfCheck_of_cert {p : Program} {c : Cert} (h : checkCert p c = true)
    (hcal : ∀ (pc : Nat) (cnt idx tgt : Int) (I N : PcInfo) (cf j : Nat),
      p.code[pc]? = some (Instr.prepare cnt idx tgt) → c.info (pc : Int) = some I →
      c.info ((pc : Int) + 1) = some N → N.pend = some (cf, j) → j = calleeOf p.code pc) :
    wfCheck p = true :=
  Infer.wfCheck_of_cert' h hcal

end GenWF
end Theo
