/-
  The slot table `tt` of every definition produced by `extractMacros` is strictly increasing
  (hence has no repeats): the positions pushed by `ExSt.pushRule` are `rule.length - 1` right after
  the rule has been extended, and every position already in the table is `<` the old rule length.

  Invariant of the extraction state (`ExSt.ttGood`): every definition of the stack `es.macros`
  satisfies `MacroDef.ttInc` = "`tt` is pairwise `<` and every entry is `<` `rule.length`".
  It is preserved by every primitive of `ExSt`, hence by `exA`, `exMD`, `exS`; `checkInsertions`
  only rewrites bodies.
-/
import Theo.Model.MacroExtract

namespace Theo

/-- the slot table is strictly increasing and points into the rule -/
def MacroDef.ttInc (m : MacroDef) : Prop :=
  m.tt.Pairwise (· < ·) ∧ ∀ i ∈ m.tt, i < m.rule.length

/-- every definition on the stack of the extraction state has an increasing slot table -/
def ExSt.ttGood (es : ExSt) : Prop := ∀ m ∈ es.macros, m.ttInc

theorem pairwise_lt_nodup : ∀ {l : List Nat}, l.Pairwise (· < ·) → l.Nodup := by
  intro l h
  exact List.Pairwise.imp (fun hab => Nat.ne_of_lt hab) h

theorem MacroDef.ttInc.nodup {m : MacroDef} (h : m.ttInc) : m.tt.Nodup :=
  pairwise_lt_nodup h.1

/-- pushing a position `≥` every bound keeps the table increasing -/
theorem pairwise_lt_snoc {l : List Nat} {n : Nat} (h : l.Pairwise (· < ·)) (hb : ∀ i ∈ l, i < n) :
    (l ++ [n]).Pairwise (· < ·) := by
  rw [List.pairwise_append]
  refine ⟨h, List.pairwise_singleton _ _, ?_⟩
  intro a ha b hb'
  rw [List.mem_singleton] at hb'
  subst hb'
  exact hb a ha

namespace ExSt

theorem ttGood_of_macros_eq {es es' : ExSt} (h : es'.macros = es.macros) (hg : es.ttGood) :
    es'.ttGood := by
  unfold ttGood; rw [h]; exact hg

theorem err_macros (es : ExSt) (k : Nat) : (es.err k).macros = es.macros := rfl
theorem advance_macros (es : ExSt) : es.advance.macros = es.macros := rfl
theorem copy_macros (es : ExSt) : es.copy.macros = es.macros := rfl

theorem matchK_macros (es : ExSt) (k : Nat) : (es.matchK k).1.macros = es.macros := by
  unfold matchK; split <;> rfl

theorem strToInt_macros (es : ExSt) (t : Bytes) : (es.strToInt t).1.macros = es.macros := by
  unfold strToInt; simp only []; split <;> rfl

theorem ttGood_err {es : ExSt} (k : Nat) (h : es.ttGood) : (es.err k).ttGood :=
  ttGood_of_macros_eq (err_macros es k) h

theorem ttGood_advance {es : ExSt} (h : es.ttGood) : es.advance.ttGood :=
  ttGood_of_macros_eq (advance_macros es) h

theorem ttGood_copy {es : ExSt} (h : es.ttGood) : es.copy.ttGood :=
  ttGood_of_macros_eq (copy_macros es) h

theorem ttGood_matchK {es : ExSt} (k : Nat) (h : es.ttGood) : (es.matchK k).1.ttGood :=
  ttGood_of_macros_eq (matchK_macros es k) h

theorem ttGood_strToInt {es : ExSt} (t : Bytes) (h : es.ttGood) : (es.strToInt t).1.ttGood :=
  ttGood_of_macros_eq (strToInt_macros es t) h

theorem ttGood_pushMacro {es : ExSt} (h : es.ttGood) : es.pushMacro.ttGood := by
  intro m hm
  simp only [pushMacro, List.mem_append, List.mem_singleton] at hm
  rcases hm with hm | rfl
  · exact h m hm
  · exact ⟨List.Pairwise.nil, fun i hi => by cases hi⟩

theorem ttGood_popMacro {es : ExSt} (h : es.ttGood) : es.popMacro.ttGood := by
  intro m hm
  exact h m (List.dropLast_subset _ hm)

theorem ttGood_modifyLast {es : ExSt} (f : MacroDef → MacroDef)
    (hf : ∀ m, m.ttInc → (f m).ttInc) (h : es.ttGood) : (es.modifyLast f).ttGood := by
  unfold modifyLast
  split
  · rename_i m hm
    intro x hx
    simp only [List.mem_append, List.mem_singleton] at hx
    rcases hx with hx | rfl
    · exact h x (List.dropLast_subset _ hx)
    · exact hf m (h m (List.mem_of_getLast? hm))
  · exact h

/-- the one step that touches `tt`: the pushed position is the old rule length -/
theorem ttGood_pushRule {es : ExSt} (h : es.ttGood) : es.pushRule.ttGood := by
  unfold pushRule
  apply ttGood_modifyLast _ _ h
  intro m hm
  obtain ⟨hp, hb⟩ := hm
  simp only []
  have hlt : ∀ i ∈ m.tt, i < (m.rule ++ [(es.toks[es.pos]?).getD default]).length := by
    intro i hi
    have := hb i hi
    simp only [List.length_append, List.length_singleton]
    omega
  split
  · exact ⟨hp, hlt⟩
  · split
    · simp only [List.length_append, List.length_singleton, Nat.add_sub_cancel]
      refine ⟨pairwise_lt_snoc hp hb, ?_⟩
      intro i hi
      show i < (m.rule ++ [(es.toks[es.pos]?).getD default]).length
      rcases List.mem_append.mp hi with hi | hi
      · exact hlt i hi
      · rw [List.mem_singleton] at hi
        simp only [List.length_append, List.length_singleton]
        omega
    · exact ⟨hp, hlt⟩

theorem ttGood_pushBody {es : ExSt} (h : es.ttGood) : es.pushBody.ttGood := by
  unfold pushBody
  exact ttGood_modifyLast _ (fun m hm => hm) h

end ExSt

open ExSt

theorem exA_ttGood : ∀ (f : Nat) (es : ExSt), es.ttGood → (exA f es).ttGood := by
  intro f
  induction f with
  | zero => intro es h; exact h
  | succ f ih =>
    intro es h
    unfold exA
    simp only []
    split
    · exact ttGood_matchK _ h
    · split
      · exact ttGood_advance h
      · split
        · exact ih _ (ttGood_advance (ttGood_err _ h))
        · exact ih _ (ttGood_advance (ttGood_pushBody h))

theorem exMD_ttGood : ∀ (f : Nat) (first : Bool) (es : ExSt), es.ttGood → (exMD f first es).ttGood := by
  intro f
  induction f with
  | zero => intro first es h; exact h
  | succ f ih =>
    intro first es h
    unfold exMD
    simp only []
    split
    · exact ttGood_popMacro (exA_ttGood _ _ (ttGood_matchK _ h))
    · split
      · split
        · exact ttGood_popMacro (exA_ttGood _ _ (ttGood_advance (ttGood_err _ h)))
        · exact exA_ttGood _ _ (ttGood_advance h)
      · split
        · exact ih _ _ (ttGood_advance (ttGood_err _ h))
        · exact ih _ _ (ttGood_advance (ttGood_pushRule h))

theorem exS_ttGood : ∀ (f : Nat) (es : ExSt), es.ttGood → (exS f es).ttGood := by
  intro f
  induction f with
  | zero => intro es h; exact h
  | succ f ih =>
    intro es h
    unfold exS
    simp only []
    split
    · exact ttGood_advance (ttGood_copy h)
    · split
      · apply ih
        apply exMD_ttGood
        have h1 : es.advance.pushMacro.ttGood := ttGood_pushMacro (ttGood_advance h)
        split
        · split
          · exact ttGood_modifyLast _ (fun m hm => hm)
              (ttGood_strToInt _ (ttGood_matchK _ (ttGood_advance h1)))
          · exact ttGood_matchK _ (ttGood_advance h1)
        · exact h1
      · exact ih _ (ttGood_advance (ttGood_copy h))

/-- `checkInsertions` rewrites bodies only: every definition it returns has the slot table and the
    rule of a definition it was given (or of the accumulator) -/
theorem checkInsertions_fold_tt (endTok : Token) (P : MacroDef → Prop)
    (hP : ∀ (m : MacroDef) (b : List Token), P m → P { m with body := b }) :
    ∀ (ms : List MacroDef) (acc : List MacroDef × List PErr),
      (∀ x ∈ acc.1, P x) → (∀ x ∈ ms, P x) →
      ∀ x ∈ (ms.foldl (fun (acc : List MacroDef × List PErr) m =>
        let (body', errs') := m.body.foldl (fun (a : List Token × List PErr) t =>
          if t.kind = Tok.INSERTION then
            let v := strtolNat (t.text.drop 1)
            let e1 := if macroRangeBad v then a.2 ++ [⟨PErrT.RANGE, endTok.file, endTok.line, []⟩] else a.2
            let ind := toInt32 v
            if ind < 0 ∨ ind ≥ (m.tt.length : Int) then
              (a.1 ++ [{ t with kind := Tok.ID, text := [101, 114, 114, 111, 114] }],
               e1 ++ [⟨PErrT.RANGE, t.file, t.line, []⟩])
            else (a.1 ++ [t], e1)
          else (a.1 ++ [t], a.2)) ([], acc.2)
        (acc.1 ++ [{ m with body := body' }], errs')) acc).1, P x := by
  intro ms
  induction ms with
  | nil => intro acc ha _ x hx; exact ha x hx
  | cons m ms ih =>
    intro acc ha hm
    rw [List.foldl_cons]
    apply ih
    · intro x hx
      simp only [List.mem_append, List.mem_singleton] at hx
      rcases hx with hx | rfl
      · exact ha x hx
      · exact hP m _ (hm m List.mem_cons_self)
    · intro x hx
      exact hm x (List.mem_cons_of_mem _ hx)

theorem checkInsertions_ttInc (endTok : Token) (ms : List MacroDef) (errs : List PErr)
    (h : ∀ m ∈ ms, m.ttInc) : ∀ m ∈ (checkInsertions endTok ms errs).1, m.ttInc := by
  unfold checkInsertions
  exact checkInsertions_fold_tt endTok MacroDef.ttInc (fun m b hm => hm) ms ([], errs)
    (fun x hx => by cases hx) h

/-- every definition produced by `extractMacros` has a strictly increasing slot table whose
    entries are positions of its rule -/
theorem extracted_ttInc (toks : List Token) : ∀ m ∈ (extractMacros toks).macros, m.ttInc := by
  unfold extractMacros
  simp only []
  apply checkInsertions_ttInc
  exact exS_ttGood _ _ (fun m hm => by cases hm)

/-- … in particular it has no repeats -/
theorem extracted_tt_nodup (toks : List Token) : ∀ m ∈ (extractMacros toks).macros, m.tt.Nodup :=
  fun m hm => (extracted_ttInc toks m hm).nodup

end Theo
