/-
  Range guards of gen.cpp / macro.cpp (C20).
-/
import Theo.Model.Gen

namespace Theo

theorem genRangeBad_iff (v : Nat) : genRangeBad v = true ↔ INT_MAX ≤ (v : Int) := by
  have hc : ConstGen.genGuardRejectsMax = true := rfl
  simp only [genRangeBad, hc, if_true, decide_eq_true_eq, ge_iff_le]

theorem macroRangeBad_iff (v : Nat) : macroRangeBad v = true ↔ INT_MAX ≤ (v : Int) := by
  have hc : ConstGen.macroGuardRejectsMax = true := rfl
  simp only [macroRangeBad, hc, if_true, decide_eq_true_eq, ge_iff_le]

theorem strtolNat_big (tok : Bytes) (h : INT_MAX ≤ (decVal tok : Int)) :
    INT_MAX ≤ (strtolNat tok : Int) := by
  simp only [strtolNat, LONG_MAX, INT_MAX] at *
  omega

theorem strtolNat_small (tok : Bytes) (h : (decVal tok : Int) < INT_MAX) :
    strtolNat tok = decVal tok := by
  simp only [strtolNat, LONG_MAX, INT_MAX] at *
  omega

theorem toInt32_small (v : Nat) (h : (v : Int) < INT_MAX) : toInt32 v = (v : Int) := by
  simp only [INT_MAX] at h
  have h1 : v % 4294967296 = v := Nat.mod_eq_of_lt (by omega)
  have h2 : v < 2147483648 := by omega
  simp only [toInt32, h1, h2, if_true]

theorem genStrToInt_big (gs : GS) (tok : Bytes) (h : INT_MAX ≤ (decVal tok : Int)) :
    (genStrToInt gs tok).1 = gs.err GErrT.INTERNAL_ERROR := by
  have hb : genRangeBad (strtolNat tok) = true := (genRangeBad_iff _).2 (strtolNat_big tok h)
  simp only [genStrToInt, hb, if_true]

theorem genStrToInt_small (gs : GS) (tok : Bytes) (h : (decVal tok : Int) < INT_MAX) :
    genStrToInt gs tok = (gs, (decVal tok : Int)) := by
  have hv := strtolNat_small tok h
  have hb : genRangeBad (strtolNat tok) = false := by
    cases hg : genRangeBad (strtolNat tok) with
    | false => rfl
    | true =>
      have := (genRangeBad_iff _).1 hg
      rw [hv] at this
      omega
  rw [hv] at hb
  simp only [genStrToInt, hv, hb, toInt32_small _ h]
  simp

theorem genStrToInt_errors_big (gs : GS) (tok : Bytes) (h : INT_MAX ≤ (decVal tok : Int)) :
    (genStrToInt gs tok).1.errors = gs.errors ++ [⟨GErrT.INTERNAL_ERROR, gs.fsName, gs.fsLine⟩] := by
  rw [genStrToInt_big gs tok h]; rfl

theorem genStrToInt_in_range (gs : GS) (tok : Bytes) (h : (genStrToInt gs tok).1.errors = gs.errors) :
    0 ≤ (genStrToInt gs tok).2 ∧ (genStrToInt gs tok).2 < INT_MAX := by
  by_cases hd : (decVal tok : Int) < INT_MAX
  · rw [genStrToInt_small gs tok hd]
    exact ⟨by omega, hd⟩
  · have hd' : INT_MAX ≤ (decVal tok : Int) := by omega
    rw [genStrToInt_errors_big gs tok hd'] at h
    have := congrArg List.length h
    simp at this

theorem strToInt_errs_big (es : ExSt) (text : Bytes) (h : INT_MAX ≤ (decVal text : Int)) :
    (es.strToInt text).1.errs = es.errs ++ [⟨PErrT.RANGE, es.cur.file, es.cur.line, []⟩] := by
  have hb : macroRangeBad (strtolNat text) = true := (macroRangeBad_iff _).2 (strtolNat_big text h)
  simp only [ExSt.strToInt, hb, if_true]
  rfl

theorem GS.breakpoint_errors (gs : GS) : gs.breakpoint.errors = gs.errors := rfl

theorem GS.advanceLine_errors (gs : GS) (line : Int) (file : Bytes) :
    (gs.advanceLine line file).errors = gs.errors := by
  unfold GS.advanceLine
  split
  · rfl
  · simp only
    split <;> split <;> simp [GS.breakpoint_errors]

theorem dispatchValue_number_errors (f : Nat) (gs : GS) (tok file : Bytes) (line : Int) (l r : Node) (tgt : Int)
    (h : INT_MAX ≤ (decVal tok : Int)) :
    (dispatchValue (f + 1) gs (.mk NodeT.NUMBER tok file line l r) tgt).errors ≠ [] := by
  have h1 : ¬ NodeT.NUMBER = NodeT.NAME := by decide
  simp only [dispatchValue, h1, if_false, if_true, GS.emit]
  rw [genStrToInt_errors_big _ tok h]
  simp

end Theo
