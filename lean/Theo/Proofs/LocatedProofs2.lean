/-
  C02 (located errors), part 2: macro extraction and macro application.
  For an arbitrary predicate `P` on positions that holds for every token of the (non-empty)
  input stream: every error of `extractMacros` / `applyMacros` is at a position satisfying `P`
  (or at the placeholder for the pass-budget error), and so is every token of the output streams,
  of the rules and of the bodies.
-/
import Theo.Proofs.ApplyProofs

namespace Theo
namespace Loc

section
variable (P : Bytes → Int → Prop)

def ToksP (ts : List Token) : Prop := ∀ t ∈ ts, P t.file t.line
def ErrsP (es : List PErr) : Prop := ∀ e ∈ es, P e.file e.line
def MacP (m : MacroDef) : Prop := ToksP P m.rule ∧ ToksP P m.body

variable {P}

theorem ToksP.nil : ToksP P [] := fun _ h => (by cases h)
theorem ErrsP.nil : ErrsP P [] := fun _ h => (by cases h)

theorem ToksP.append {a b : List Token} (ha : ToksP P a) (hb : ToksP P b) : ToksP P (a ++ b) := by
  intro t ht
  rcases List.mem_append.1 ht with h | h
  · exact ha t h
  · exact hb t h

theorem ToksP.snoc {a : List Token} {t : Token} (ha : ToksP P a) (ht : P t.file t.line) :
    ToksP P (a ++ [t]) :=
  ha.append (fun x hx => by rw [List.mem_singleton.1 hx]; exact ht)

theorem ErrsP.snoc {a : List PErr} {e : PErr} (ha : ErrsP P a) (he : P e.file e.line) :
    ErrsP P (a ++ [e]) := by
  intro x hx
  rcases List.mem_append.1 hx with h | h
  · exact ha x h
  · rw [List.mem_singleton.1 h]; exact he

theorem ToksP.sub {a b : List Token} (hb : ToksP P b) (h : ∀ t ∈ a, t ∈ b) : ToksP P a :=
  fun t ht => hb t (h t ht)

/-- fold with an invariant -/
theorem foldl_inv {α β : Type} (I : β → Prop) (Q : α → Prop) (f : β → α → β)
    (hf : ∀ b a, I b → Q a → I (f b a)) :
    ∀ (l : List α) (b : β), I b → (∀ a ∈ l, Q a) → I (l.foldl f b) := by
  intro l
  induction l with
  | nil => intro b hb _; exact hb
  | cons x xs ih =>
    intro b hb hq
    exact ih (f b x) (hf b x hb (hq x (by simp))) (fun a ha => hq a (List.mem_cons_of_mem _ ha))

/-! ### extraction -/

structure EInv (P : Bytes → Int → Prop) (es : ExSt) : Prop where
  ne : es.toks ≠ []
  toks : ToksP P es.toks
  errs : ErrsP P es.errs
  out : ToksP P es.out
  macros : ∀ m ∈ es.macros, MacP P m

theorem cur_mem (es : ExSt) (h : es.toks ≠ []) : es.cur ∈ es.toks := by
  unfold ExSt.cur
  have hlen : 0 < es.toks.length := List.length_pos_iff.2 h
  have hi : min es.pos (es.toks.length - 1) < es.toks.length := by omega
  rw [List.getElem?_eq_getElem hi]
  exact List.getElem_mem hi

theorem EInv.cur {es : ExSt} (h : EInv P es) : P es.cur.file es.cur.line :=
  h.toks _ (cur_mem es h.ne)

theorem EInv.err {es : ExSt} (h : EInv P es) (k : Nat) : EInv P (es.err k) :=
  ⟨h.ne, h.toks, h.errs.snoc h.cur, h.out, h.macros⟩

theorem EInv.advance {es : ExSt} (h : EInv P es) : EInv P es.advance :=
  ⟨h.ne, h.toks, h.errs, h.out, h.macros⟩

theorem EInv.setPos {es : ExSt} (h : EInv P es) (n : Nat) : EInv P { es with pos := n } :=
  ⟨h.ne, h.toks, h.errs, h.out, h.macros⟩

theorem EInv.copy {es : ExSt} (h : EInv P es) : EInv P es.copy :=
  ⟨h.ne, h.toks, h.errs, h.out.snoc h.cur, h.macros⟩

theorem EInv.pushMacro {es : ExSt} (h : EInv P es) : EInv P es.pushMacro := by
  refine ⟨h.ne, h.toks, h.errs, h.out, ?_⟩
  intro m hm
  rcases List.mem_append.1 hm with h1 | h1
  · exact h.macros m h1
  · rw [List.mem_singleton.1 h1]; exact ⟨ToksP.nil, ToksP.nil⟩

theorem EInv.popMacro {es : ExSt} (h : EInv P es) : EInv P es.popMacro :=
  ⟨h.ne, h.toks, h.errs, h.out, fun m hm => h.macros m (List.dropLast_subset _ hm)⟩

theorem EInv.modifyLast {es : ExSt} (h : EInv P es) (f : MacroDef → MacroDef)
    (hf : ∀ m, MacP P m → MacP P (f m)) : EInv P (es.modifyLast f) := by
  unfold ExSt.modifyLast
  split
  · next m hm =>
    refine ⟨h.ne, h.toks, h.errs, h.out, ?_⟩
    intro x hx
    rcases List.mem_append.1 hx with h1 | h1
    · exact h.macros x (List.dropLast_subset _ h1)
    · rw [List.mem_singleton.1 h1]
      exact hf m (h.macros m (List.mem_of_getLast? hm))
  · exact h

theorem EInv.matchK {es : ExSt} (h : EInv P es) (k : Nat) : EInv P (es.matchK k).1 := by
  unfold ExSt.matchK
  split
  · exact (h.err _).setPos _
  · exact h.setPos _

theorem la_ne_eof {es : ExSt} (h : es.la ≠ Tok.T_EOF) : ∃ t, es.toks[es.pos]? = some t := by
  unfold ExSt.la at h
  cases ht : es.toks[es.pos]? with
  | none => rw [ht] at h; exact absurd rfl h
  | some t => exact ⟨t, rfl⟩

theorem EInv.pushRule {es : ExSt} (h : EInv P es) (hla : es.la ≠ Tok.T_EOF) : EInv P es.pushRule := by
  obtain ⟨t, ht⟩ := la_ne_eof hla
  have hp : P t.file t.line := h.toks t (List.mem_of_getElem? ht)
  unfold ExSt.pushRule
  rw [ht]
  refine h.modifyLast _ ?_
  intro m hm
  have h1 : ToksP P (m.rule ++ [t]) := hm.1.snoc hp
  simp only [Option.getD_some]
  split
  · exact ⟨h1, hm.2⟩
  · split
    · exact ⟨h1, hm.2⟩
    · exact ⟨h1, hm.2⟩

theorem EInv.pushBody {es : ExSt} (h : EInv P es) (hla : es.la ≠ Tok.T_EOF) : EInv P es.pushBody := by
  obtain ⟨t, ht⟩ := la_ne_eof hla
  have hp : P t.file t.line := h.toks t (List.mem_of_getElem? ht)
  unfold ExSt.pushBody
  rw [ht]
  exact h.modifyLast _ (fun m hm => ⟨hm.1, hm.2.snoc hp⟩)

theorem EInv.strToInt {es : ExSt} (h : EInv P es) (text : Bytes) : EInv P (es.strToInt text).1 := by
  unfold ExSt.strToInt
  simp only
  split
  · exact h.err _
  · exact h

theorem exA_inv : ∀ (f : Nat) (es : ExSt), EInv P es → EInv P (exA f es) := by
  intro f
  induction f with
  | zero => intro es h; rw [exA]; exact h
  | succ f ih =>
    intro es h
    rw [exA]
    split
    · exact h.matchK _
    · split
      · exact h.advance
      · split
        · exact ih _ (h.err _).advance
        · next hne _ _ => exact ih _ (h.pushBody hne).advance

theorem exMD_inv : ∀ (f : Nat) (first : Bool) (es : ExSt), EInv P es → EInv P (exMD f first es) := by
  intro f
  induction f with
  | zero => intro first es h; rw [exMD]; exact h
  | succ f ih =>
    intro first es h
    rw [exMD]
    split
    · exact (exA_inv _ _ (h.matchK _)).popMacro
    · split
      · split
        · exact (exA_inv _ _ (h.err _).advance).popMacro
        · exact exA_inv _ _ h.advance
      · split
        · exact ih _ _ (h.err _).advance
        · next hne _ _ => exact ih _ _ (h.pushRule hne).advance

/-- the optional `PRIO <int>` part of a definition head -/
def prioPart (es1 : ExSt) : ExSt :=
  if es1.la = Tok.PRIORITY then
    let es1a := es1.advance
    let (es1b, ok) := es1a.matchK Tok.INT
    if ok then
      let text := ((es1b.toks[es1b.pos - 1]?).getD default).text
      let (es1c, v) := es1b.strToInt text
      es1c.modifyLast (fun m => { m with priority := v })
    else es1b
  else es1

theorem prioPart_inv (es : ExSt) (h : EInv P es) : EInv P (prioPart es) := by
  unfold prioPart
  split
  · simp only
    split
    · exact ((h.advance.matchK _).strToInt _).modifyLast _ (fun m hm => hm)
    · exact h.advance.matchK _
  · exact h

theorem exS_succ (f : Nat) (es : ExSt) : exS (f + 1) es =
    if es.la = Tok.T_EOF then es.copy.advance
    else if es.la = Tok.DEFINE then
      exS f (exMD (2 * es.toks.length + 4) true (prioPart es.advance.pushMacro))
    else exS f es.copy.advance := by
  rw [exS]
  rfl

theorem exS_inv : ∀ (f : Nat) (es : ExSt), EInv P es → EInv P (exS f es) := by
  intro f
  induction f with
  | zero => intro es h; rw [exS]; exact h
  | succ f ih =>
    intro es h
    rw [exS_succ]
    split
    · exact h.copy.advance
    · split
      · exact ih _ (exMD_inv _ _ _ (prioPart_inv _ h.advance.pushMacro))
      · exact ih _ h.copy.advance

/-- the body fold of `checkInsertions` for one definition -/
def ciBody (endTok : Token) (m : MacroDef) (errs : List PErr) : List Token × List PErr :=
  m.body.foldl (fun (a : List Token × List PErr) t =>
      if t.kind = Tok.INSERTION then
        let v := strtolNat (t.text.drop 1)
        let e1 := if macroRangeBad v then a.2 ++ [⟨PErrT.RANGE, endTok.file, endTok.line, []⟩] else a.2
        let ind := toInt32 v
        if ind < 0 ∨ ind ≥ (m.tt.length : Int) then
          (a.1 ++ [{ t with kind := Tok.ID, text := [101, 114, 114, 111, 114] }],
           e1 ++ [⟨PErrT.RANGE, t.file, t.line, []⟩])
        else (a.1 ++ [t], e1)
      else (a.1 ++ [t], a.2)) ([], errs)

theorem checkInsertions_eq (endTok : Token) (ms : List MacroDef) (errs : List PErr) :
    checkInsertions endTok ms errs =
      ms.foldl (fun (acc : List MacroDef × List PErr) m =>
        (acc.1 ++ [{ m with body := (ciBody endTok m acc.2).1 }], (ciBody endTok m acc.2).2)) ([], errs) :=
  rfl

theorem ciBody_inv (endTok : Token) (hend : P endTok.file endTok.line) (m : MacroDef)
    (hm : ToksP P m.body) (errs : List PErr) (he : ErrsP P errs) :
    ToksP P (ciBody endTok m errs).1 ∧ ErrsP P (ciBody endTok m errs).2 := by
  unfold ciBody
  refine foldl_inv (fun a : List Token × List PErr => ToksP P a.1 ∧ ErrsP P a.2)
    (fun t : Token => P t.file t.line) _ ?_ m.body _ ⟨ToksP.nil, he⟩ hm
  intro a t ha ht
  split
  · simp only
    have he1 : ErrsP P (if macroRangeBad (strtolNat (t.text.drop 1)) = true
        then a.2 ++ [⟨PErrT.RANGE, endTok.file, endTok.line, []⟩] else a.2) := by
      split
      · exact ha.2.snoc hend
      · exact ha.2
    split
    · exact ⟨ha.1.snoc ht, he1.snoc ht⟩
    · exact ⟨ha.1.snoc ht, he1⟩
  · exact ⟨ha.1.snoc ht, ha.2⟩

theorem checkInsertions_inv (endTok : Token) (hend : P endTok.file endTok.line)
    (ms : List MacroDef) (hms : ∀ m ∈ ms, MacP P m) (errs : List PErr) (he : ErrsP P errs) :
    (∀ m ∈ (checkInsertions endTok ms errs).1, MacP P m) ∧ ErrsP P (checkInsertions endTok ms errs).2 := by
  rw [checkInsertions_eq]
  refine foldl_inv (fun acc : List MacroDef × List PErr => (∀ m ∈ acc.1, MacP P m) ∧ ErrsP P acc.2)
    (fun m => MacP P m) _ ?_ ms _ ⟨fun _ h => (by cases h), he⟩ hms
  intro acc m hacc hm
  have hb := ciBody_inv endTok hend m hm.2 acc.2 hacc.2
  refine ⟨?_, hb.2⟩
  intro x hx
  rcases List.mem_append.1 hx with h1 | h1
  · exact hacc.1 x h1
  · rw [List.mem_singleton.1 h1]
    exact ⟨hm.1, hb.1⟩

/-- extraction keeps positions: errors, the remaining stream, rules and bodies -/
theorem extractMacros_inv (toks : List Token) (hne : toks ≠ []) (ht : ToksP P toks) :
    ErrsP P (extractMacros toks).errs ∧ ToksP P (extractMacros toks).toks ∧
    ∀ m ∈ (extractMacros toks).macros, MacP P m := by
  have h0 : EInv P ⟨toks, [], [], 0, []⟩ :=
    ⟨hne, ht, ErrsP.nil, ToksP.nil, fun _ h => (by cases h)⟩
  have h1 := exS_inv (toks.length + 2) _ h0
  have h2 := checkInsertions_inv _ h1.cur _ h1.macros _ h1.errs
  exact ⟨h2.2, h1.out, h2.1⟩

/-! ### application -/

/-- a value accepted by the LR driver satisfies every invariant `I` that holds for the leaves of
    input symbols and is preserved by the semantic actions -/
theorem lrParse_accept_inv {τ V : Type} (T : Tables) (term : τ → Nat) (leaf : τ → V)
    (act : Nat → Nat → List V → V) (I : V → Prop) (J : τ → Prop)
    (hleaf : ∀ x, J x → I (leaf x))
    (hact : ∀ l a popped, (∀ v ∈ popped, I v) → I (act l a popped)) :
    ∀ (fuel : Nat) (inp : List τ) (sts : List Nat) (vals : List V) (v : V),
      (∀ x ∈ inp, J x) → (∀ w ∈ vals, I w) →
      lrParse T term leaf act fuel inp sts vals = .accept v → I v := by
  intro fuel
  induction fuel with
  | zero => intro inp sts vals v _ _ h; simp [lrParse] at h
  | succ fuel ih =>
    intro inp sts vals v hJ hI h
    cases sts with
    | nil => simp [lrParse] at h
    | cons s srest =>
      cases inp with
      | nil => simp [lrParse] at h
      | cons x xs =>
        simp only [lrParse] at h
        cases hrow : T.action[s]? with
        | none => rw [hrow] at h; simp at h
        | some row =>
          rw [hrow] at h
          simp only [] at h
          by_cases hlen : row.length ≤ term x
          · simp [hlen] at h
          · simp only [hlen, if_false] at h
            cases hc : (row[term x]?).getD .err with
            | err => rw [hc] at h; simp at h
            | shift s' =>
              rw [hc] at h
              simp only [] at h
              refine ih _ _ _ v (fun y hy => hJ y (List.mem_cons_of_mem _ hy)) ?_ h
              intro w hw
              rcases List.mem_cons.1 hw with h1 | h1
              · rw [h1]; exact hleaf x (hJ x (by simp))
              · exact hI w h1
            | accept =>
              rw [hc] at h
              simp only [] at h
              cases vals with
              | nil => simp at h
              | cons v0 vs =>
                simp only [ParseOut.accept.injEq] at h
                subst h
                exact hI _ (by simp)
            | reduce l al beta =>
              rw [hc] at h
              simp only [] at h
              by_cases hb : vals.length < beta ∨ (s :: srest).length ≤ beta
              · rw [if_pos hb] at h; simp at h
              · simp only [hb, if_false] at h
                cases hd : (s :: srest).drop beta with
                | nil => rw [hd] at h; simp at h
                | cons sp rest' =>
                  rw [hd] at h
                  simp only [] at h
                  cases hg : ((T.goto[sp]?).bind (·[l]?)) with
                  | none => rw [hg] at h; simp at h
                  | some j =>
                    rw [hg] at h
                    simp only [] at h
                    by_cases hj : j < 0
                    · simp [hj] at h
                    · simp only [hj, if_false] at h
                      refine ih _ _ _ v hJ ?_ h
                      intro w hw
                      rcases List.mem_cons.1 hw with h1 | h1
                      · rw [h1]
                        exact hact _ _ _ (fun u hu => hI u (List.mem_of_mem_take hu))
                      · exact hI w (List.mem_of_mem_drop h1)

/-- an accumulation all of whose tokens are at good positions -/
def AccP (P : Bytes → Int → Prop) (a : Accum) : Prop := ToksP P a.total ∧ ∀ l ∈ a.split, ToksP P l

theorem toksP_flatMap_total {vs : List Accum} (h : ∀ v ∈ vs, AccP P v) :
    ToksP P (vs.flatMap (·.total)) := by
  intro t ht
  obtain ⟨v, hv, htv⟩ := List.mem_flatMap.1 ht
  exact (h v hv).1 t htv

theorem accAct_inv (l a : Nat) (popped : List Accum) (h : ∀ v ∈ popped, AccP P v) :
    AccP P (accAct l a popped) := by
  unfold accAct
  split
  · refine ⟨toksP_flatMap_total h, ?_⟩
    intro x hx
    rw [List.mem_reverse, List.mem_map] at hx
    obtain ⟨v, hv, rfl⟩ := hx
    exact (h v hv).1
  · refine ⟨toksP_flatMap_total (fun v hv => h v (List.mem_reverse.1 hv)), ?_⟩
    intro x hx
    cases hx

theorem detectAt_inv (d : Detector) (inp : List Token) (a : Accum) (hi : ToksP P inp)
    (h : detectAt d inp = some a) : AccP P a := by
  unfold detectAt at h
  split at h
  · next v hv =>
    cases h
    refine lrParse_accept_inv d.tables (fun t => t.kind) accLeaf accAct (AccP P)
      (fun t : Token => P t.file t.line) ?_ accAct_inv _ _ _ _ _ hi (fun _ hw => (by cases hw)) hv
    intro x hx
    refine ⟨fun t ht => ?_, fun l hl t ht => ?_⟩
    · simp only [accLeaf, List.mem_singleton] at ht; rw [ht]; exact hx
    · simp only [accLeaf, List.mem_singleton] at hl; rw [hl, List.mem_singleton] at ht; rw [ht]; exact hx
  · cases h

theorem detect_inv (d : Detector) (inp : List Token) (r : Response) (hi : ToksP P inp)
    (h : detect d inp = some r) : ∀ l ∈ r.matched, ToksP P l := by
  obtain ⟨_, ⟨a, ha, _, _, hm⟩, _⟩ := detect_leftmost d inp r h
  rw [hm]
  exact (detectAt_inv d _ a (hi.sub (fun t ht => List.mem_of_mem_drop ht)) ha).2

theorem replacement_inv (m : MacroDef) (r : Response) (pass : Nat) (hm : ToksP P m.body)
    (hr : ∀ l ∈ r.matched, ToksP P l) : ToksP P (replacement m r pass) := by
  unfold replacement
  intro t ht
  simp only [List.mem_flatMap] at ht
  obtain ⟨cand, hc, ht⟩ := ht
  have hcP := hm cand hc
  split at ht
  · split at ht
    · next ri _ =>
      cases hl : r.matched[ri]? with
      | none => rw [hl] at ht; cases ht
      | some l =>
        rw [hl] at ht
        exact hr l (List.mem_of_getElem? hl) t ht
    · cases ht
  · split at ht
    · rw [List.mem_singleton.1 ht]; exact hcP
    · rw [List.mem_singleton.1 ht]; exact hcP

theorem applyStep_inv (defs : List MacroDef) (hd : ∀ m ∈ defs, MacP P m) (inp : List Token)
    (hi : ToksP P inp) (p : Nat) (d : Detector) (r : Response) (out : List Token)
    (h : applyStep (bins ((defs.map mkDetector).filter (·.usable))) inp p = some (d, r, out)) :
    ToksP P out := by
  obtain ⟨_, hmem⟩ := step_usable defs inp p d r out h
  obtain ⟨_, _, _, _, _, _, hdet, hout, _⟩ := applyStep_some _ _ _ _ _ _ h
  rw [hout]
  refine ((hi.sub (fun t ht => List.mem_of_mem_take ht)).append
    (replacement_inv d.md r p (hd _ hmem).2 (detect_inv d inp r hi hdet))).append
    (hi.sub (fun t ht => List.mem_of_mem_drop ht))

theorem passLoop_inv (defs : List MacroDef) (hd : ∀ m ∈ defs, MacP P m) :
    ∀ (left pass : Nat) (inp : List Token) (n : Nat), ToksP P inp →
      ToksP P (passLoop (bins ((defs.map mkDetector).filter (·.usable))) left pass inp n).1 := by
  intro left
  induction left with
  | zero => intro pass inp n hi; exact hi
  | succ left ih =>
    intro pass inp n hi
    rw [passLoop_succ]
    cases h : applyStep (bins ((defs.map mkDetector).filter (·.usable))) inp pass with
    | none => exact hi
    | some x =>
      obtain ⟨d, r, inp'⟩ := x
      exact ih _ _ _ (applyStep_inv defs hd inp hi pass d r inp' h)

/-- the detector of a definition with an empty rule (`DEFINE DEFINE AS …`) has no conflict, so
    a NON_LR error always has a first rule token to take its position from -/
theorem emptyRule_usable : (mkDetector ⟨0, [], [], [], []⟩).usable = true := by decide +kernel

theorem usable_of_rule_nil (m : MacroDef) (h : m.rule = []) : (mkDetector m).usable = true := by
  have : (mkDetector m).tables = (mkDetector ⟨0, [], [], [], []⟩).tables := by
    simp only [mkDetector, detectorGrammar, h]
  unfold Detector.usable
  rw [this]
  exact emptyRule_usable

theorem nonLRErrs_inv (defs : List MacroDef) (hd : ∀ m ∈ defs, MacP P m) : ErrsP P (nonLRErrs defs) := by
  intro e he
  simp only [nonLRErrs, List.mem_filterMap, List.mem_map] at he
  obtain ⟨d, ⟨m, hm, rfl⟩, hsome⟩ := he
  split at hsome
  · cases hsome
  · next hu =>
    simp only [Option.some.injEq] at hsome
    subst hsome
    cases hr : m.rule with
    | nil => exact absurd (usable_of_rule_nil m hr) hu
    | cons t ts =>
      have : (mkDetector m).md.rule = t :: ts := hr
      simp only [this, List.head?_cons, Option.getD_some]
      exact (hd m hm).1 t (by rw [hr]; simp)

/-- application keeps positions; the only new position is the placeholder of the budget error -/
theorem applyMacros_inv (inp : List Token) (defs : List MacroDef) (passes : Nat)
    (hdash : P bDash (-1)) (hi : ToksP P inp) (hd : ∀ m ∈ defs, MacP P m) :
    ToksP P (applyMacros inp defs passes).toks ∧ ErrsP P (applyMacros inp defs passes).errs := by
  constructor
  · cases passes with
    | zero => exact hi
    | succ k => rw [applyMacros_succ_toks]; exact passLoop_inv defs hd _ _ _ _ hi
  · have hmax : ∀ e ∈ (applyMacros inp defs passes).errs, e ∈ nonLRErrs defs ∨
        (e.file = bDash ∧ e.line = -1) := by
      simp only [applyMacros]
      have hn : (defs.map mkDetector).filterMap (fun d =>
          if d.usable then none
          else
            let t := d.md.rule.head?.getD default
            some (⟨PErrT.MACRO_COMPILE_NON_LR, t.file, t.line, []⟩ : PErr)) = nonLRErrs defs := rfl
      rw [hn]
      intro e he
      have key : ∀ c : Bool, e ∈ (if c = true then nonLRErrs defs ++
          [(⟨PErrT.MACRO_APPLY_REACHED_MAX_PASSES, bDash, -1, []⟩ : PErr)] else nonLRErrs defs) →
          e ∈ nonLRErrs defs ∨ (e.file = bDash ∧ e.line = -1) := by
        intro c hc
        cases c with
        | false => exact Or.inl hc
        | true =>
          rcases List.mem_append.1 hc with h1 | h1
          · exact Or.inl h1
          · rw [List.mem_singleton.1 h1]; exact Or.inr ⟨rfl, rfl⟩
      split at he <;> exact key _ he
    intro e he
    rcases hmax e he with h1 | ⟨h1, h2⟩
    · exact nonLRErrs_inv defs hd e h1
    · rw [h1, h2]; exact hdash

end
end Loc
end Theo
