/-
  C01 for the generator model, part 2: the primitives of the generator state, as far as the code
  they emit and the register file are concerned (`GQ`, `VQ`), and the invariant that every jump
  in the code is on the backpatch list (`JT`).
-/
import Theo.Proofs.GenShapeBase

set_option linter.unusedSimpArgs false
set_option linter.unusedVariables false

namespace Theo
namespace GenShape
open GS Sem Static

/-! ### what every step inside a routine preserves -/

structure GQ (gs gs' : GS) : Prop where
  code : gs.code <+: gs'.code
  stackMaps : gs'.stackMaps = gs.stackMaps
  funcAddrs : gs'.funcAddrs = gs.funcAddrs
  outer : gs'.symbols.drop 1 = gs.symbols.drop 1
  regs : RegsExt gs.top.regs gs'.top.regs
  tn : TempNamed gs.top.regs → TempNamed gs'.top.regs
  ntn : NTNodup gs.top.regs → NTNodup gs'.top.regs

theorem GQ.refl (gs : GS) : GQ gs gs := ⟨List.prefix_refl _, rfl, rfl, rfl, RegsExt.refl _, id, id⟩
theorem GQ.trans {a b c : GS} (h1 : GQ a b) (h2 : GQ b c) : GQ a c :=
  ⟨h1.code.trans h2.code, h2.stackMaps.trans h1.stackMaps, h2.funcAddrs.trans h1.funcAddrs,
   h2.outer.trans h1.outer, h1.regs.trans h2.regs, fun h => h2.tn (h1.tn h), fun h => h2.ntn (h1.ntn h)⟩

/-- a step that leaves the symbol stack alone -/
theorem GQ.of_syms {gs gs' : GS} (hc : gs.code <+: gs'.code) (hm : gs'.stackMaps = gs.stackMaps)
    (hf : gs'.funcAddrs = gs.funcAddrs) (hs : gs'.symbols = gs.symbols) : GQ gs gs' := by
  have ht : gs'.top = gs.top := top_congr hs
  exact ⟨hc, hm, hf, by rw [hs], by rw [ht]; exact RegsExt.refl _, by rw [ht]; exact id, by rw [ht]; exact id⟩

/-- a step that replaces the register file of the current function -/
theorem GQ.of_regs (gs : GS) (f : FGS) (he : RegsExt gs.top.regs f.regs)
    (ht : TempNamed gs.top.regs → TempNamed f.regs) (hn : NTNodup gs.top.regs → NTNodup f.regs) :
    GQ gs (gs.setTop f) :=
  ⟨List.prefix_refl _, rfl, rfl, rfl, he, ht, hn⟩

/-- value steps: additionally labels, marks and the loop counter are untouched, and every new
    register that is not a temporary has a name satisfying `P` -/
structure VQ (P : Bytes → Prop) (gs gs' : GS) : Prop extends GQ gs gs' where
  labels : gs'.labels = gs.labels
  marks : gs'.top.marks = gs.top.marks
  loops : gs'.loops = gs.loops
  fresh : ∀ (i : Nat) (r : VReg), gs'.top.regs[i]? = some r → gs.top.regs.length ≤ i → r.isTemp = false → P r.name

theorem VQ.refl (P : Bytes → Prop) (gs : GS) : VQ P gs gs :=
  ⟨GQ.refl gs, rfl, rfl, rfl, fun i r h hl _ => by
    have := (List.getElem?_eq_some_iff.1 h).1
    omega⟩

theorem VQ.trans {P : Bytes → Prop} {a b c : GS} (h1 : VQ P a b) (h2 : VQ P b c) : VQ P a c := by
  refine ⟨h1.toGQ.trans h2.toGQ, h2.labels.trans h1.labels, h2.marks.trans h1.marks, h2.loops.trans h1.loops, ?_⟩
  intro i r h hl ht
  by_cases hi : i < b.top.regs.length
  · obtain ⟨r', e1, e2, e3⟩ := h2.regs i b.top.regs[i] (List.getElem?_eq_getElem hi)
    rw [h] at e1
    cases e1
    have := h1.fresh i b.top.regs[i] (List.getElem?_eq_getElem hi) hl (by rw [← e3]; exact ht)
    rw [← e2] at this; exact this
  · exact h2.fresh i r h (by omega) ht

/-- a value step that leaves the symbol stack alone -/
theorem VQ.of_syms (P : Bytes → Prop) {gs gs' : GS} (hc : gs.code <+: gs'.code) (hm : gs'.stackMaps = gs.stackMaps)
    (hf : gs'.funcAddrs = gs.funcAddrs) (hs : gs'.symbols = gs.symbols) (hl : gs'.labels = gs.labels)
    (hlo : gs'.loops = gs.loops) : VQ P gs gs' := by
  have ht : gs'.top = gs.top := top_congr hs
  refine ⟨GQ.of_syms hc hm hf hs, hl, by rw [ht], hlo, ?_⟩
  intro i r h hlen _
  rw [ht] at h
  have := (List.getElem?_eq_some_iff.1 h).1
  omega

theorem VQ.ctr {P : Bytes → Prop} {gs gs' : GS} (h : VQ P gs gs')
    (hP : ∀ x, P x → bLoopVar.isPrefixOf x = false) (hc : CtrInv gs.top.regs gs.loops) :
    CtrInv gs'.top.regs gs'.loops := by
  rw [h.loops]
  exact hc.ext h.regs (fun i r h1 h2 h3 => hP _ (h.fresh i r h1 h2 h3))

/-! ### the primitives -/

theorem vq_err (P : Bytes → Prop) (gs : GS) (k : Nat) : VQ P gs (gs.err k) :=
  VQ.of_syms P (List.prefix_refl _) rfl rfl rfl rfl rfl

theorem vq_emit (P : Bytes → Prop) (gs : GS) (i : Instr) : VQ P gs (gs.emit i) :=
  VQ.of_syms P (prefix_append_self _ _) rfl rfl rfl rfl rfl

theorem gq_emitBackpatched (gs : GS) (i : Instr) : GQ gs (gs.emitBackpatched i) :=
  GQ.of_syms (prefix_append_self _ _) rfl rfl rfl

theorem gq_createLabel (gs : GS) : GQ gs gs.createLabel.1 := GQ.of_syms (List.prefix_refl _) rfl rfl rfl
theorem gq_setLabel (gs : GS) (l : Nat) (p : Int) : GQ gs (gs.setLabel l p) := GQ.of_syms (List.prefix_refl _) rfl rfl rfl

theorem top_regs_setTop_marks (gs : GS) (m : List (Bytes × Nat)) :
    (gs.setTop { gs.top with marks := m }).top.regs = gs.top.regs := rfl

theorem gq_markLabel (gs : GS) (m : Bytes) : GQ gs (gs.markLabel m).1 := by
  unfold markLabel
  split
  · exact GQ.refl _
  · exact ⟨List.prefix_refl _, rfl, rfl, rfl, RegsExt.refl _, id, id⟩

theorem markLabel_code (gs : GS) (m : Bytes) : (gs.markLabel m).1.code = gs.code := (markLabel_spec gs m).code
theorem markLabel_regs (gs : GS) (m : Bytes) : (gs.markLabel m).1.top.regs = gs.top.regs := by
  unfold markLabel
  split <;> rfl
theorem markLabel_loops (gs : GS) (m : Bytes) : (gs.markLabel m).1.loops = gs.loops := by
  unfold markLabel
  split <;> rfl

/-- the sites `advanceLine` emits -/
theorem advanceLine_code (gs : GS) (line : Int) (file : Bytes) :
    ∃ k, (gs.advanceLine line file).code = gs.code ++ List.replicate k Instr.potBreak := by
  unfold advanceLine
  split
  · exact ⟨0, by simp⟩
  · dsimp only
    by_cases hc : gs.fsName = file ∧ line ≠ gs.fsLine
    · simp only [if_pos hc]
      split
      · exact ⟨2, by simp [breakpoint]⟩
      · exact ⟨1, by simp [breakpoint]⟩
    · simp only [if_neg hc]
      split
      · exact ⟨1, by simp [breakpoint]⟩
      · exact ⟨0, by simp⟩

theorem advanceLine_symbols (gs : GS) (line : Int) (file : Bytes) : (gs.advanceLine line file).symbols = gs.symbols := by
  unfold advanceLine
  split
  · rfl
  · dsimp only
    split <;> split <;> rfl

theorem advanceLine_misc (gs : GS) (line : Int) (file : Bytes) :
    (gs.advanceLine line file).stackMaps = gs.stackMaps ∧ (gs.advanceLine line file).funcAddrs = gs.funcAddrs ∧
    (gs.advanceLine line file).labels = gs.labels ∧ (gs.advanceLine line file).loops = gs.loops ∧
    (gs.advanceLine line file).todo = gs.todo := by
  unfold advanceLine
  split
  · exact ⟨rfl, rfl, rfl, rfl, rfl⟩
  · dsimp only
    split <;> split <;> exact ⟨rfl, rfl, rfl, rfl, rfl⟩

theorem vq_advanceLine (P : Bytes → Prop) (gs : GS) (line : Int) (file : Bytes) : VQ P gs (gs.advanceLine line file) := by
  obtain ⟨k, hk⟩ := advanceLine_code gs line file
  obtain ⟨h1, h2, h3, h4, _⟩ := advanceLine_misc gs line file
  exact VQ.of_syms P (by rw [hk]; exact prefix_append_self _ _) h1 h2 (advanceLine_symbols gs line file) h3 h4

theorem vq_genStrToInt (P : Bytes → Prop) (gs : GS) (tok : Bytes) : VQ P gs (genStrToInt gs tok).1 := by
  unfold genStrToInt
  dsimp only
  split
  · exact vq_err P _ _
  · exact VQ.refl P _

theorem genStrToInt_code (gs : GS) (tok : Bytes) : (genStrToInt gs tok).1.code = gs.code := by
  unfold genStrToInt
  dsimp only
  split <;> rfl

/-! ### registers -/

theorem filter_map_modify {l : List VReg} {f : VReg → VReg} (hf : ∀ r, (f r).isTemp = r.isTemp ∧ (f r).name = r.name) :
    ∀ i, ((l.modify i f).filter (fun r => !r.isTemp)).map (·.name) = (l.filter (fun r => !r.isTemp)).map (·.name) := by
  induction l with
  | nil => intro i; simp
  | cons x xs ih =>
    intro i
    cases i with
    | zero =>
      simp only [List.modify_cons, if_true]
      simp only [List.filter_cons, (hf x).1]
      cases x.isTemp <;> simp [(hf x).2]
    | succ i =>
      rw [List.modify_succ_cons]
      simp only [List.filter_cons]
      split
      · simp [ih i]
      · exact ih i

theorem regsExt_modify (l : List VReg) (i : Nat) {f : VReg → VReg}
    (hf : ∀ r, (f r).isTemp = r.isTemp ∧ (f r).name = r.name) : RegsExt l (l.modify i f) := by
  intro j r hj
  rw [List.getElem?_modify, hj]
  by_cases h : i = j
  · exact ⟨f r, by simp [h], (hf r).2, (hf r).1⟩
  · exact ⟨r, by simp [h], rfl, rfl⟩

theorem tempNamed_modify {l : List VReg} (i : Nat) {f : VReg → VReg}
    (hf : ∀ r, (f r).isTemp = r.isTemp ∧ (f r).name = r.name) (h : TempNamed l) : TempNamed (l.modify i f) := by
  intro r hr ht
  obtain ⟨j, hj⟩ := List.mem_iff_getElem?.1 hr
  rw [List.getElem?_modify] at hj
  cases hl : l[j]? with
  | none => rw [hl] at hj; cases hj
  | some r0 =>
    rw [hl] at hj
    have hm : r0 ∈ l := List.mem_iff_getElem?.2 ⟨j, hl⟩
    by_cases hij : i = j
    · simp [hij] at hj
      subst hj
      rw [(hf r0).2]
      exact h r0 hm (by rw [← (hf r0).1]; exact ht)
    · simp [hij] at hj
      subst hj
      exact h r0 hm ht

theorem gq_modify (gs : GS) (i : Nat) (f : VReg → VReg) (hf : ∀ r, (f r).isTemp = r.isTemp ∧ (f r).name = r.name) :
    GQ gs (gs.setTop { gs.top with regs := gs.top.regs.modify i f }) :=
  GQ.of_regs gs _ (regsExt_modify _ _ hf) (tempNamed_modify _ hf)
    (fun h => by unfold NTNodup; rw [filter_map_modify hf]; exact h)

theorem vq_modify (P : Bytes → Prop) (gs : GS) (i : Nat) (f : VReg → VReg)
    (hf : ∀ r, (f r).isTemp = r.isTemp ∧ (f r).name = r.name) :
    VQ P gs (gs.setTop { gs.top with regs := gs.top.regs.modify i f }) := by
  refine ⟨gq_modify gs i f hf, rfl, rfl, rfl, ?_⟩
  intro j r h hl _
  have : j < (gs.top.regs.modify i f).length := (List.getElem?_eq_some_iff.1 h).1
  rw [List.length_modify] at this
  omega

theorem vq_releaseTemporary (P : Bytes → Prop) (gs : GS) (i : Int) : VQ P gs (gs.releaseTemporary i) := by
  unfold releaseTemporary
  exact vq_modify P gs _ _ (fun r => by split <;> exact ⟨rfl, rfl⟩)

theorem ntNodup_append_temp {l : List VReg} (h : NTNodup l) (n : Bytes) (u : Bool) : NTNodup (l ++ [⟨u, true, n⟩]) := by
  unfold NTNodup at *
  simpa [List.filter_append] using h

theorem ntNodup_append_var {l : List VReg} (h : NTNodup l) (n : Bytes) (u : Bool) (hn : n ∉ l.map (·.name)) :
    NTNodup (l ++ [⟨u, false, n⟩]) := by
  unfold NTNodup at *
  simp only [List.filter_append, List.map_append]
  have : List.filter (fun r : VReg => !r.isTemp) [⟨u, false, n⟩] = [⟨u, false, n⟩] := by simp
  rw [this]
  simp only [List.map_cons, List.map_nil]
  rw [List.nodup_append]
  refine ⟨h, by simp, ?_⟩
  intro a ha b hb hab
  simp at hb
  subst hb
  subst hab
  apply hn
  obtain ⟨r, hr, e⟩ := List.mem_map.1 ha
  exact List.mem_map.2 ⟨r, (List.mem_filter.1 hr).1, e⟩

theorem tempNamed_append {l : List VReg} (h : TempNamed l) (r : VReg) (hr : r.isTemp = true → r.name = bTempName) :
    TempNamed (l ++ [r]) := by
  intro x hx ht
  rcases List.mem_append.1 hx with hx | hx
  · exact h x hx ht
  · simp at hx; subst hx; exact hr ht

theorem findReg_some : ∀ (regs : List VReg) (n : Bytes) (k j : Nat), findReg regs n k = some j →
    ∃ (i : Nat) (r : VReg), j = k + i ∧ regs[i]? = some r ∧ r.name = n
  | [], _, _, _, h => by simp [findReg] at h
  | r :: rs, n, k, j, h => by
    unfold findReg at h
    by_cases hr : r.name = n
    · rw [if_pos hr] at h
      cases h
      exact ⟨0, r, rfl, rfl, hr⟩
    · rw [if_neg hr] at h
      obtain ⟨i, r', h1, h2, h3⟩ := findReg_some rs n (k + 1) j h
      exact ⟨i + 1, r', by omega, by simpa using h2, h3⟩

theorem findReg_none {regs : List VReg} {n : Bytes} (h : findReg regs n 0 = none) : n ∉ regs.map (·.name) := by
  intro hin
  have := (findReg_isSome n regs 0).2 hin
  rw [h] at this; cases this

/-- `fetchVar`: the register of a name -/
structure FVSpec (P : Bytes → Prop) (gs : GS) (x : Bytes) (gs' : GS) (idx : Int) : Prop where
  vq : VQ P gs gs'
  keep : KeepUse gs.top.regs gs'.top.regs
  code : gs'.code = gs.code
  reg : ∃ (i : Nat) (r : VReg), idx = (i : Int) ∧ gs'.top.regs[i]? = some r ∧ r.name = x

theorem fetchVar_spec (P : Bytes → Prop) (gs : GS) (x : Bytes) (hx : P x) :
    FVSpec P gs x (gs.fetchVar x).1 (gs.fetchVar x).2 := by
  unfold fetchVar
  dsimp only
  cases hf : findReg gs.top.regs x 0 with
  | some j =>
    dsimp only
    obtain ⟨i, r, h1, h2, h3⟩ := findReg_some _ _ _ _ hf
    exact ⟨VQ.refl P _, KeepUse.refl _, rfl, i, r, by simp [h1], h2, h3⟩
  | none =>
    dsimp only
    have hn := findReg_none hf
    refine ⟨⟨GQ.of_regs gs _ (RegsExt.append _ _) (fun h => tempNamed_append h _ (fun h' => by cases h'))
      (fun h => ntNodup_append_var h _ _ hn), rfl, rfl, rfl, ?_⟩, KeepUse.append _ _, rfl, ?_⟩
    · intro i r h hl _
      have h' : (gs.top.regs ++ [(⟨true, false, x⟩ : VReg)])[i]? = some r := h
      have hlt : i < (gs.top.regs ++ [(⟨true, false, x⟩ : VReg)]).length := (List.getElem?_eq_some_iff.1 h').1
      simp at hlt
      have : i = gs.top.regs.length := by omega
      subst this
      rw [getElem?_snoc_len] at h'
      cases h'
      exact hx
    · exact ⟨gs.top.regs.length, ⟨true, false, x⟩, rfl, getElem?_snoc_len _ _, rfl⟩

theorem firstFreeTemp_some : ∀ (regs : List VReg) (k j : Nat), firstFreeTemp regs k = some j →
    ∃ (i : Nat) (r : VReg), j = k + i ∧ regs[i]? = some r ∧ r.isTemp = true ∧ r.inUse = false
  | [], _, _, h => by simp [firstFreeTemp] at h
  | r :: rs, k, j, h => by
    unfold firstFreeTemp at h
    by_cases hr : (r.isTemp && !r.inUse) = true
    · rw [if_pos hr] at h
      cases h
      simp at hr
      exact ⟨0, r, rfl, rfl, hr.1, hr.2⟩
    · rw [if_neg hr] at h
      obtain ⟨i, r', h1, h2, h3⟩ := firstFreeTemp_some rs (k + 1) j h
      exact ⟨i + 1, r', by omega, by simpa using h2, h3⟩

/-- `fetchTemporary`: a temporary that was free, now in use -/
structure FTSpec (P : Bytes → Prop) (gs gs' : GS) (idx : Int) : Prop where
  vq : VQ P gs gs'
  keep : KeepUse gs.top.regs gs'.top.regs
  code : gs'.code = gs.code
  free : FreeAt gs.top.regs idx
  reg : ∃ (i : Nat) (r : VReg), idx = (i : Int) ∧ gs'.top.regs[i]? = some r ∧ r.isTemp = true ∧ r.inUse = true

theorem fetchTemporary_spec (P : Bytes → Prop) (gs : GS) : FTSpec P gs gs.fetchTemporary.1 gs.fetchTemporary.2 := by
  unfold fetchTemporary
  dsimp only
  cases hf : firstFreeTemp gs.top.regs 0 with
  | some j =>
    dsimp only
    obtain ⟨i, r, h1, h2, h3, h4⟩ := firstFreeTemp_some _ _ _ hf
    have hj : j = i := by omega
    subst hj
    refine ⟨vq_modify P gs j _ (fun r => ⟨rfl, rfl⟩), ?_, rfl, ⟨j, rfl, ?_⟩, j, { r with inUse := true }, rfl, ?_, h3, rfl⟩
    · intro k r' hk hu
      show (gs.top.regs.modify j _)[k]? = some r'
      rw [List.getElem?_modify, hk]
      by_cases hjk : j = k
      · subst hjk
        rw [h2] at hk
        cases hk
        rw [h4] at hu; cases hu
      · simp [hjk]
    · intro r' hr'
      rw [h2] at hr'
      cases hr'
      exact h4
    · show (gs.top.regs.modify j _)[j]? = _
      rw [List.getElem?_modify, h2]
      simp
  | none =>
    dsimp only
    refine ⟨⟨GQ.of_regs gs _ (RegsExt.append _ _) (fun h => tempNamed_append h _ (fun _ => rfl))
      (fun h => ntNodup_append_temp h _ _), rfl, rfl, rfl, ?_⟩, KeepUse.append _ _, rfl,
      ⟨gs.top.regs.length, rfl, ?_⟩, gs.top.regs.length, ⟨true, true, bTempName⟩, rfl, getElem?_snoc_len _ _, rfl, rfl⟩
    · intro i r h hl ht
      have h' : (gs.top.regs ++ [(⟨true, true, bTempName⟩ : VReg)])[i]? = some r := h
      have hlt : i < (gs.top.regs ++ [(⟨true, true, bTempName⟩ : VReg)]).length := (List.getElem?_eq_some_iff.1 h').1
      simp at hlt
      have : i = gs.top.regs.length := by omega
      subst this
      rw [getElem?_snoc_len] at h'
      cases h'
      cases ht
    · intro r hr
      rw [List.getElem?_eq_none (Nat.le_refl _)] at hr
      cases hr

/-! ### every jump is on the backpatch list -/

def JT (gs : GS) : Prop := ∀ (p : Nat) (i : Instr), gs.code[p]? = some i → isJmp i = true → p ∈ gs.todo

theorem JT.same {gs gs' : GS} (h : JT gs) (hc : gs'.code = gs.code) (ht : gs'.todo = gs.todo) : JT gs' := by
  intro p i hp hj
  rw [ht]; rw [hc] at hp
  exact h p i hp hj

theorem JT.emit {gs : GS} (h : JT gs) (i : Instr) (hi : isJmp i = false) : JT (gs.emit i) := by
  intro p x hp hj
  show p ∈ gs.todo
  have hp' : (gs.code ++ [i])[p]? = some x := hp
  by_cases hl : p < gs.code.length
  · rw [List.getElem?_append_left hl] at hp'
    exact h p x hp' hj
  · rw [List.getElem?_append_right (by omega)] at hp'
    have : p - gs.code.length = 0 := by
      have := (List.getElem?_eq_some_iff.1 hp').1
      simp at this; omega
    rw [this] at hp'
    simp at hp'
    subst hp'
    rw [hi] at hj; cases hj

theorem JT.emitBackpatched {gs : GS} (h : JT gs) (i : Instr) : JT (gs.emitBackpatched i) := by
  intro p x hp hj
  rw [emitBackpatched_todo]
  have hp' : (gs.code ++ [i])[p]? = some x := hp
  by_cases hl : p < gs.code.length
  · rw [List.getElem?_append_left hl] at hp'
    exact List.mem_append_left _ (h p x hp' hj)
  · have := (List.getElem?_eq_some_iff.1 hp').1
    simp at this
    have : p = gs.code.length := by omega
    subst this
    simp

theorem JT.breakpoint {gs : GS} (h : JT gs) : JT gs.breakpoint := by
  have : gs.breakpoint.code = (gs.emit .potBreak).code := rfl
  exact (h.emit .potBreak rfl).same this rfl

theorem JT.advanceLine {gs : GS} (h : JT gs) (line : Int) (file : Bytes) : JT (gs.advanceLine line file) := by
  unfold GS.advanceLine
  split
  · exact h
  · dsimp only
    by_cases hc : gs.fsName = file ∧ line ≠ gs.fsLine
    · simp only [if_pos hc]
      have h1 : JT (({ gs with fsLine := line } : GS).breakpoint) := JT.breakpoint (gs := { gs with fsLine := line }) h
      split
      · exact JT.breakpoint (gs := { ({ gs with fsLine := line } : GS).breakpoint with fsName := file, fsLine := line }) h1
      · exact h1
    · simp only [if_neg hc]
      split
      · exact JT.breakpoint (gs := { gs with fsName := file, fsLine := line }) h
      · exact h

theorem JT.removeTopPotBreak {gs : GS} (h : JT gs) : JT gs.removeTopPotBreak := by
  have key : ∀ g : GS, g.code = gs.code.dropLast → g.todo = gs.todo → JT g := by
    intro g hc ht p i hp hj
    rw [ht]
    rw [hc, List.getElem?_dropLast] at hp
    split at hp
    · exact h p i hp hj
    · cases hp
  unfold GS.removeTopPotBreak
  split
  · dsimp only
    split
    · exact key _ rfl rfl
    · exact key _ rfl rfl
  · exact h

end GenShape
end Theo
