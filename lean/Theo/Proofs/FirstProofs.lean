/-
  FIRST-set fixpoint = textbook FIRST (C13).
-/
import Theo.Spec.CFG

namespace Theo

end Theo
