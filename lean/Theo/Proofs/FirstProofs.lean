/-
  FIRST-set fixpoint = textbook FIRST (C13).
-/
import Theo.Spec.CFG

namespace Theo
namespace FirstProofs

/-! ### `unionNat` -/

theorem unionNat_cons (a : List Nat) (y : Nat) (b : List Nat) :
    unionNat a (y :: b) = unionNat (if a.contains y then a else a ++ [y]) b := rfl

theorem mem_unionNat {x : Nat} {a b : List Nat} : x ∈ unionNat a b ↔ x ∈ a ∨ x ∈ b := by
  induction b generalizing a with
  | nil => simp [unionNat]
  | cons y b ih =>
    rw [unionNat_cons, ih]
    by_cases h : y ∈ a
    · simp [h]; grind
    · simp [h]; grind

theorem unionNat_prefix (a b : List Nat) : a <+: unionNat a b := by
  induction b generalizing a with
  | nil => simp [unionNat]
  | cons y b ih =>
    rw [unionNat_cons]
    by_cases h : y ∈ a
    · simpa [h] using ih a
    · simp only [List.contains_iff_mem, h, if_false]
      exact List.IsPrefix.trans (List.prefix_append a [y]) (ih _)

theorem unionNat_nodup {a : List Nat} (b : List Nat) (ha : a.Nodup) : (unionNat a b).Nodup := by
  induction b generalizing a with
  | nil => simpa [unionNat] using ha
  | cons y b ih =>
    rw [unionNat_cons]
    by_cases h : y ∈ a
    · simpa [h] using ih ha
    · simp only [List.contains_iff_mem, h, if_false]
      apply ih
      rw [List.nodup_append]
      refine ⟨ha, by simp, ?_⟩
      intro x hx y' hy'
      simp at hy'
      subst hy'
      intro hxy; subst hxy; exact h hx

/-! ### `firstOfString` -/

theorem fos_nil (fi : FirstInfo) : firstOfString fi [] = ([], true) := rfl
theorem fos_eps (fi : FirstInfo) (r : List Sym) : firstOfString fi (.eps :: r) = ([], false) := rfl
theorem fos_t (fi : FirstInfo) (i : Nat) (r : List Sym) :
    firstOfString fi (.t i :: r) = ([i], false) := rfl
theorem fos_n (fi : FirstInfo) (k : Nat) (r : List Sym) :
    firstOfString fi (.n k :: r) =
      if fi.nullOf k then
        (unionNat (fi.firstOf k) (firstOfString fi r).1, (firstOfString fi r).2)
      else (fi.firstOf k, false) := rfl

theorem mem_fos_append (fi : FirstInfo) (p q : List Sym) (a : Nat) :
    a ∈ (firstOfString fi (p ++ q)).1 ↔
      a ∈ (firstOfString fi p).1 ∨ ((firstOfString fi p).2 = true ∧ a ∈ (firstOfString fi q).1) := by
  induction p with
  | nil => simp [fos_nil]
  | cons s p ih =>
    cases s with
    | eps => simp [fos_eps]
    | t i => simp [fos_t]
    | n k =>
      simp only [List.cons_append, fos_n]
      by_cases h : fi.nullOf k = true
      · simp only [h, if_true, mem_unionNat, ih]; grind
      · simp [h]

theorem null_fos_append (fi : FirstInfo) (p q : List Sym) :
    (firstOfString fi (p ++ q)).2 = true ↔
      (firstOfString fi p).2 = true ∧ (firstOfString fi q).2 = true := by
  induction p with
  | nil => simp [fos_nil]
  | cons s p ih =>
    cases s with
    | eps => simp [fos_eps]
    | t i => simp [fos_t]
    | n k =>
      simp only [List.cons_append, fos_n]
      by_cases h : fi.nullOf k = true
      · simp only [h, if_true, ih]
      · simp [h]

/-! ### sentential-form derivations -/

theorem sd_trans {g : Grammar} {α β γ : List Sym}
    (h1 : SDerives g α β) (h2 : SDerives g β γ) : SDerives g α γ := by
  induction h1 with
  | refl _ => exact h2
  | step hk _ ih => exact SDerives.step hk (ih h2)

theorem sd_context {g : Grammar} {α β : List Sym} (p q : List Sym)
    (h : SDerives g α β) : SDerives g (p ++ α ++ q) (p ++ β ++ q) := by
  induction h with
  | refl _ => exact SDerives.refl _
  | @step pre post rhs β n k hk _ ih =>
    have := SDerives.step (g := g) (pre := p ++ pre) (post := post ++ q) hk
      (by simpa [List.append_assoc] using ih)
    simpa [List.append_assoc] using this

theorem sd_single {g : Grammar} {n k : Nat} {rhs : List Sym}
    (hk : (g.alts n)[k]? = some rhs) : SDerives g [.n n] rhs := by
  have := SDerives.step (g := g) (pre := []) (post := []) hk
    (by simpa using SDerives.refl rhs)
  simpa using this

theorem sd_cons_left {g : Grammar} {α β : List Sym} (s : Sym)
    (h : SDerives g α β) : SDerives g (s :: α) (s :: β) := by
  simpa using sd_context [s] [] h

theorem sd_append_right {g : Grammar} {α β : List Sym} (q : List Sym)
    (h : SDerives g α β) : SDerives g (α ++ q) (β ++ q) := by
  simpa using sd_context [] q h

/-! ### soundness -/

def FISound (g : Grammar) (fi : FirstInfo) : Prop :=
  (∀ n a, a ∈ fi.firstOf n → First g n a) ∧ (∀ n, fi.nullOf n = true → Nullable g n)

theorem fos_sound {g : Grammar} {fi : FirstInfo} (hs : FISound g fi) (ss : List Sym) :
    (∀ a ∈ (firstOfString fi ss).1, ∃ β, SDerives g ss (.t a :: β)) ∧
    ((firstOfString fi ss).2 = true → SDerives g ss []) := by
  induction ss with
  | nil => simp [fos_nil]; exact SDerives.refl _
  | cons s r ih =>
    cases s with
    | eps => simp [fos_eps]
    | t i =>
      simp only [fos_t]
      refine ⟨?_, by simp⟩
      intro a ha
      simp at ha; subst ha
      exact ⟨r, SDerives.refl _⟩
    | n k =>
      have hfirst : ∀ a ∈ fi.firstOf k, ∃ β, SDerives g (.n k :: r) (.t a :: β) := by
        intro a ha
        obtain ⟨β, hβ⟩ := hs.1 k a ha
        exact ⟨β ++ r, by simpa using sd_append_right r hβ⟩
      rw [fos_n]
      by_cases h : fi.nullOf k = true
      · have hnull : SDerives g (.n k :: r) r := by
          simpa using sd_append_right r (hs.2 k h)
        simp only [h, if_true, mem_unionNat]
        refine ⟨?_, fun hr => sd_trans hnull (ih.2 hr)⟩
        rintro a (ha | ha)
        · exact hfirst a ha
        · obtain ⟨β, hβ⟩ := ih.1 a ha
          exact ⟨β, sd_trans hnull hβ⟩
      · simp only [h]
        exact ⟨hfirst, by simp⟩

/-! ### one round -/

/-- the accumulator step of `firstRound` -/
def stepF (fi : FirstInfo) (acc : List Nat × Bool) (a : List Sym) : List Nat × Bool :=
  (unionNat acc.1 (firstOfString fi a).1, acc.2 || (firstOfString fi a).2)

/-- the new (FIRST, nullable) pair of non-terminal `n` after one round -/
def roundAcc (g : Grammar) (fi : FirstInfo) (n : Nat) : List Nat × Bool :=
  (g.alts n).foldl (stepF fi) (fi.firstOf n, fi.nullOf n)

theorem firstRound_eq (g : Grammar) (fi : FirstInfo) :
    firstRound g fi =
      ⟨((List.range g.numNT).map (roundAcc g fi)).map (·.1),
       ((List.range g.numNT).map (roundAcc g fi)).map (·.2)⟩ := rfl

theorem round_firsts_length (g : Grammar) (fi : FirstInfo) :
    (firstRound g fi).firsts.length = g.numNT := by simp [firstRound_eq]

theorem round_nullable_length (g : Grammar) (fi : FirstInfo) :
    (firstRound g fi).nullable.length = g.numNT := by simp [firstRound_eq]

theorem round_firstOf {g : Grammar} {fi : FirstInfo} {n : Nat} (hn : n < g.numNT) :
    (firstRound g fi).firstOf n = (roundAcc g fi n).1 := by
  simp [firstRound_eq, FirstInfo.firstOf, hn]

theorem round_nullOf {g : Grammar} {fi : FirstInfo} {n : Nat} (hn : n < g.numNT) :
    (firstRound g fi).nullOf n = (roundAcc g fi n).2 := by
  simp [firstRound_eq, FirstInfo.nullOf, hn]

theorem round_firstOf_ge {g : Grammar} {fi : FirstInfo} {n : Nat} (hn : g.numNT ≤ n) :
    (firstRound g fi).firstOf n = [] := by
  simp [firstRound_eq, FirstInfo.firstOf, hn]

theorem round_nullOf_ge {g : Grammar} {fi : FirstInfo} {n : Nat} (hn : g.numNT ≤ n) :
    (firstRound g fi).nullOf n = false := by
  simp [firstRound_eq, FirstInfo.nullOf, hn]

theorem mem_foldl_stepF (fi : FirstInfo) (as : List (List Sym)) (init : List Nat × Bool) (x : Nat) :
    x ∈ (as.foldl (stepF fi) init).1 ↔ x ∈ init.1 ∨ ∃ a ∈ as, x ∈ (firstOfString fi a).1 := by
  induction as generalizing init with
  | nil => simp
  | cons a as ih =>
    rw [List.foldl_cons, ih]
    simp only [stepF, mem_unionNat, List.mem_cons, exists_eq_or_imp, or_assoc]

theorem null_foldl_stepF (fi : FirstInfo) (as : List (List Sym)) (init : List Nat × Bool) :
    (as.foldl (stepF fi) init).2 = true ↔
      init.2 = true ∨ ∃ a ∈ as, (firstOfString fi a).2 = true := by
  induction as generalizing init with
  | nil => simp
  | cons a as ih =>
    rw [List.foldl_cons, ih]
    simp only [stepF, Bool.or_eq_true, List.mem_cons, exists_eq_or_imp, or_assoc]

theorem prefix_foldl_stepF (fi : FirstInfo) (as : List (List Sym)) (init : List Nat × Bool) :
    init.1 <+: (as.foldl (stepF fi) init).1 := by
  induction as generalizing init with
  | nil => simp
  | cons a as ih =>
    rw [List.foldl_cons]
    exact List.IsPrefix.trans (unionNat_prefix init.1 (firstOfString fi a).1) (ih (stepF fi init a))

theorem nodup_foldl_stepF (fi : FirstInfo) (as : List (List Sym)) (init : List Nat × Bool)
    (h : init.1.Nodup) : (as.foldl (stepF fi) init).1.Nodup := by
  induction as generalizing init with
  | nil => simpa
  | cons a as ih =>
    rw [List.foldl_cons]
    exact ih _ (unionNat_nodup _ h)

theorem round_sound {g : Grammar} {fi : FirstInfo} (hs : FISound g fi) :
    FISound g (firstRound g fi) := by
  constructor
  · intro n a ha
    by_cases hn : n < g.numNT
    · rw [round_firstOf hn, roundAcc, mem_foldl_stepF] at ha
      rcases ha with ha | ⟨rhs, hrhs, ha⟩
      · exact hs.1 n a ha
      · obtain ⟨k, hk⟩ := List.getElem?_of_mem hrhs
        obtain ⟨β, hβ⟩ := (fos_sound hs rhs).1 a ha
        exact ⟨β, sd_trans (sd_single hk) hβ⟩
    · rw [round_firstOf_ge (by omega)] at ha
      simp at ha
  · intro n hnull
    by_cases hn : n < g.numNT
    · rw [round_nullOf hn, roundAcc, null_foldl_stepF] at hnull
      rcases hnull with h | ⟨rhs, hrhs, h⟩
      · exact hs.2 n h
      · obtain ⟨k, hk⟩ := List.getElem?_of_mem hrhs
        exact sd_trans (sd_single hk) ((fos_sound hs rhs).2 h)
    · rw [round_nullOf_ge (by omega)] at hnull
      simp at hnull

theorem iter_sound {g : Grammar} (k : Nat) {fi : FirstInfo} (hs : FISound g fi) :
    FISound g (firstIter g k fi) := by
  induction k generalizing fi with
  | zero => exact hs
  | succ k ih =>
    simp only [firstIter]
    split
    · exact hs
    · exact ih (round_sound hs)

def initFI (g : Grammar) : FirstInfo := ⟨List.replicate g.numNT [], List.replicate g.numNT false⟩

theorem init_firstOf (g : Grammar) (n : Nat) : (initFI g).firstOf n = [] := by
  simp only [initFI, FirstInfo.firstOf, List.getElem?_replicate]
  split <;> rfl

theorem init_nullOf (g : Grammar) (n : Nat) : (initFI g).nullOf n = false := by
  simp only [initFI, FirstInfo.nullOf, List.getElem?_replicate]
  split <;> rfl

theorem firstSets_eq (g : Grammar) :
    firstSets g = firstIter g (g.numNT * (g.terminals.eraseDups.length + 1) + 1) (initFI g) := rfl

theorem firstSets_sound (g : Grammar) : FISound g (firstSets g) := by
  rw [firstSets_eq]
  apply iter_sound
  constructor
  · intro n a ha; rw [init_firstOf] at ha; simp at ha
  · intro n h; rw [init_nullOf] at h; simp at h

/-! ### a fixed point of `firstRound` is complete -/

theorem alts_entry {g : Grammar} {n : Nat} {rhs : List Sym} (h : rhs ∈ g.alts n) :
    ∃ e ∈ g.prods, e.1 = n ∧ rhs ∈ e.2 := by
  unfold Grammar.alts at h
  cases hf : g.prods.find? (fun e => e.1 = n) with
  | none => simp [hf] at h
  | some e =>
    simp [hf] at h
    have h1 := List.mem_of_find?_eq_some hf
    have h2 := List.find?_some hf
    exact ⟨e, h1, by simpa using h2, h⟩

theorem alts_lhs_lt {g : Grammar} (hg : g.Closed) {n : Nat} {rhs : List Sym}
    (h : rhs ∈ g.alts n) : n < g.numNT := by
  obtain ⟨e, he, hn, _⟩ := alts_entry h
  exact hn ▸ (hg e he).1

theorem alts_terminal {g : Grammar} {n i : Nat} {rhs : List Sym}
    (h : rhs ∈ g.alts n) (hi : Sym.t i ∈ rhs) : i ∈ g.terminals := by
  obtain ⟨e, he, _, hr⟩ := alts_entry h
  simp only [Grammar.terminals, List.mem_flatMap, List.mem_filterMap]
  exact ⟨e, he, rhs, hr, .t i, hi, rfl⟩

theorem fix_mono {g : Grammar} (hg : g.Closed) {fi : FirstInfo} (hfix : firstRound g fi = fi)
    {α β : List Sym} (h : SDerives g α β) :
    (∀ a ∈ (firstOfString fi β).1, a ∈ (firstOfString fi α).1) ∧
    ((firstOfString fi β).2 = true → (firstOfString fi α).2 = true) := by
  induction h with
  | refl _ => exact ⟨fun _ h => h, fun h => h⟩
  | @step pre post rhs β n k hk _ ih =>
    have hmem : rhs ∈ g.alts n := List.mem_of_getElem? hk
    have hn : n < g.numNT := alts_lhs_lt hg hmem
    have hF : ∀ a ∈ (firstOfString fi rhs).1, a ∈ fi.firstOf n := by
      intro a ha
      have : a ∈ (firstRound g fi).firstOf n := by
        rw [round_firstOf hn, roundAcc, mem_foldl_stepF]
        exact Or.inr ⟨rhs, hmem, ha⟩
      rwa [hfix] at this
    have hN : (firstOfString fi rhs).2 = true → fi.nullOf n = true := by
      intro hr
      have : (firstRound g fi).nullOf n = true := by
        rw [round_nullOf hn, roundAcc, null_foldl_stepF]
        exact Or.inr ⟨rhs, hmem, hr⟩
      rwa [hfix] at this
    have e1 : pre ++ Sym.n n :: post = pre ++ ([Sym.n n] ++ post) := by simp
    have hF1 : ∀ a, a ∈ (firstOfString fi [Sym.n n]).1 ↔ a ∈ fi.firstOf n := by
      intro a; rw [fos_n]; split <;> simp [fos_nil, mem_unionNat]
    have hN1 : (firstOfString fi [Sym.n n]).2 = true ↔ fi.nullOf n = true := by
      rw [fos_n]; split <;> simp_all [fos_nil]
    constructor
    · intro a ha
      have := ih.1 a ha
      rw [List.append_assoc, mem_fos_append, mem_fos_append] at this
      rw [e1, mem_fos_append, mem_fos_append, hF1, hN1]
      grind
    · intro hb
      have := ih.2 hb
      rw [List.append_assoc, null_fos_append, null_fos_append] at this
      rw [e1, null_fos_append, null_fos_append, hN1]
      grind

theorem fix_complete {g : Grammar} (hg : g.Closed) {fi : FirstInfo} (hfix : firstRound g fi = fi)
    (n : Nat) :
    (∀ a, First g n a → a ∈ fi.firstOf n) ∧ (Nullable g n → fi.nullOf n = true) := by
  constructor
  · rintro a ⟨β, hβ⟩
    have := (fix_mono hg hfix hβ).1 a (by simp [fos_t])
    rw [fos_n] at this
    split at this <;> simpa [fos_nil, mem_unionNat] using this
  · intro h
    have := (fix_mono hg hfix h).2 (by simp [fos_nil])
    rw [fos_n] at this
    split at this <;> simp_all

/-! ### the iteration reaches a fixed point within its fuel -/

theorem nodup_length_le {l m : List Nat} (hl : l.Nodup) (hs : ∀ x ∈ l, x ∈ m) :
    l.length ≤ m.length := by
  induction l generalizing m with
  | nil => simp
  | cons x l ih =>
    have hx : x ∈ m := hs x (by simp)
    rw [List.nodup_cons] at hl
    have h1 : l.length ≤ (m.erase x).length := by
      apply ih hl.2
      intro y hy
      have hne : y ≠ x := by intro h; subst h; exact hl.1 hy
      exact (List.mem_erase_of_ne hne).2 (hs y (by simp [hy]))
    rw [List.length_erase_of_mem hx] at h1
    have : 0 < m.length := List.length_pos_of_mem hx
    simp only [List.length_cons]
    omega

theorem sum_range_mono (f h : Nat → Nat) (N : Nat) (H : ∀ i, i < N → f i ≤ h i) :
    ((List.range N).map f).sum ≤ ((List.range N).map h).sum ∧
    (((List.range N).map f).sum = ((List.range N).map h).sum → ∀ i, i < N → f i = h i) := by
  induction N with
  | zero => simp
  | succ N ih =>
    have ih' := ih (fun i hi => H i (by omega))
    have hN := H N (by omega)
    simp only [List.range_succ, List.map_append, List.sum_append, List.map_cons, List.map_nil,
      List.sum_cons, List.sum_nil, Nat.add_zero]
    refine ⟨by omega, ?_⟩
    intro heq i hi
    by_cases hiN : i = N
    · subst hiN; omega
    · exact ih'.2 (by omega) i (by omega)

theorem sum_range_le_mul (f : Nat → Nat) (N c : Nat) (H : ∀ i, i < N → f i ≤ c) :
    ((List.range N).map f).sum ≤ N * c := by
  induction N with
  | zero => simp
  | succ N ih =>
    have ih' := ih (fun i hi => H i (by omega))
    have hN := H N (by omega)
    simp only [List.range_succ, List.map_append, List.sum_append, List.map_cons, List.map_nil,
      List.sum_cons, List.sum_nil, Nat.add_zero, Nat.succ_mul]
    omega

/-- invariant of the iteration -/
def Inv (g : Grammar) (fi : FirstInfo) : Prop :=
  fi.firsts.length = g.numNT ∧ fi.nullable.length = g.numNT ∧
  ∀ n, (fi.firstOf n).Nodup ∧ ∀ a ∈ fi.firstOf n, a ∈ g.terminals

theorem fos_terminals {g : Grammar} {fi : FirstInfo}
    (hfi : ∀ n, ∀ a ∈ fi.firstOf n, a ∈ g.terminals) (ss : List Sym)
    (hss : ∀ i, Sym.t i ∈ ss → i ∈ g.terminals) :
    ∀ a ∈ (firstOfString fi ss).1, a ∈ g.terminals := by
  induction ss with
  | nil => simp [fos_nil]
  | cons s r ih =>
    have ih' := ih (fun i hi => hss i (by simp [hi]))
    cases s with
    | eps => simp [fos_eps]
    | t i =>
      intro a ha
      simp [fos_t] at ha
      subst ha
      exact hss a (by simp)
    | n k =>
      rw [fos_n]
      split
      · intro a ha
        rw [mem_unionNat] at ha
        rcases ha with ha | ha
        · exact hfi k a ha
        · exact ih' a ha
      · exact hfi k

theorem inv_round {g : Grammar} {fi : FirstInfo} (h : Inv g fi) : Inv g (firstRound g fi) := by
  refine ⟨round_firsts_length g fi, round_nullable_length g fi, ?_⟩
  intro n
  by_cases hn : n < g.numNT
  · rw [round_firstOf hn, roundAcc]
    refine ⟨nodup_foldl_stepF _ _ _ (h.2.2 n).1, ?_⟩
    intro a ha
    rw [mem_foldl_stepF] at ha
    rcases ha with ha | ⟨rhs, hrhs, ha⟩
    · exact (h.2.2 n).2 a ha
    · exact fos_terminals (fun m => (h.2.2 m).2) rhs (fun i hi => alts_terminal hrhs hi) a ha
  · rw [round_firstOf_ge (by omega)]
    simp

/-- number of facts recorded in `fi` -/
def mu (g : Grammar) (fi : FirstInfo) : Nat :=
  ((List.range g.numNT).map
    (fun n => (fi.firstOf n).length + (if fi.nullOf n = true then 1 else 0))).sum

theorem mu_le {g : Grammar} {fi : FirstInfo} (h : Inv g fi) :
    mu g fi ≤ g.numNT * (g.terminals.eraseDups.length + 1) := by
  apply sum_range_le_mul
  intro n _
  have : (fi.firstOf n).length ≤ g.terminals.eraseDups.length :=
    nodup_length_le (h.2.2 n).1 (fun x hx => List.mem_eraseDups.2 ((h.2.2 n).2 x hx))
  split <;> omega

theorem firstOf_eq_getElem {fi : FirstInfo} {n : Nat} (h : n < fi.firsts.length) :
    fi.firstOf n = fi.firsts[n] := by
  simp [FirstInfo.firstOf, h]

theorem nullOf_eq_getElem {fi : FirstInfo} {n : Nat} (h : n < fi.nullable.length) :
    fi.nullOf n = fi.nullable[n] := by
  simp [FirstInfo.nullOf, h]

theorem mu_round_lt {g : Grammar} {fi : FirstInfo} (h : Inv g fi) (hne : firstRound g fi ≠ fi) :
    mu g fi < mu g (firstRound g fi) := by
  have hpre : ∀ n, n < g.numNT → fi.firstOf n <+: (firstRound g fi).firstOf n := by
    intro n hn
    rw [round_firstOf hn, roundAcc]
    exact prefix_foldl_stepF fi (g.alts n) (fi.firstOf n, fi.nullOf n)
  have hnul : ∀ n, n < g.numNT → fi.nullOf n = true → (firstRound g fi).nullOf n = true := by
    intro n hn hh
    rw [round_nullOf hn, roundAcc, null_foldl_stepF]
    exact Or.inl hh
  have hpt : ∀ n, n < g.numNT →
      (fi.firstOf n).length + (if fi.nullOf n = true then 1 else 0) ≤
      ((firstRound g fi).firstOf n).length +
        (if (firstRound g fi).nullOf n = true then 1 else 0) := by
    intro n hn
    have h1 := (hpre n hn).length_le
    have h2 := hnul n hn
    split <;> split <;> simp_all <;> omega
  have hm := sum_range_mono _ _ g.numNT hpt
  have hle : mu g fi ≤ mu g (firstRound g fi) := hm.1
  rcases Nat.lt_or_ge (mu g fi) (mu g (firstRound g fi)) with hlt | hge
  · exact hlt
  · exfalso
    apply hne
    have heq := hm.2 (Nat.le_antisymm hle hge)
    have hfo : ∀ n, n < g.numNT → (firstRound g fi).firstOf n = fi.firstOf n ∧
        (firstRound g fi).nullOf n = fi.nullOf n := by
      intro n hn
      have h0 := heq n hn
      have h1 := (hpre n hn).length_le
      have h2 := hnul n hn
      have hlen : (fi.firstOf n).length = ((firstRound g fi).firstOf n).length := by
        split at h0 <;> split at h0 <;> simp_all <;> omega
      refine ⟨((hpre n hn).eq_of_length hlen).symm, ?_⟩
      rw [hlen] at h0
      cases hA : fi.nullOf n <;> cases hB : (firstRound g fi).nullOf n <;> simp_all
    have hl1 := round_firsts_length g fi
    have hl2 := round_nullable_length g fi
    have e1 : (firstRound g fi).firsts = fi.firsts := by
      apply List.ext_getElem (by rw [hl1, h.1])
      intro i hi1 hi2
      rw [← firstOf_eq_getElem hi1, ← firstOf_eq_getElem hi2]
      exact (hfo i (by omega)).1
    have e2 : (firstRound g fi).nullable = fi.nullable := by
      apply List.ext_getElem (by rw [hl2, h.2.1])
      intro i hi1 hi2
      rw [← nullOf_eq_getElem hi1, ← nullOf_eq_getElem hi2]
      exact (hfo i (by omega)).2
    cases hr : firstRound g fi with
    | mk a b =>
      cases fi with
      | mk c d =>
        rw [hr] at e1 e2
        simp at e1 e2
        rw [e1, e2]

theorem iter_fix {g : Grammar} (k : Nat) {fi : FirstInfo} (h : Inv g fi)
    (hk : g.numNT * (g.terminals.eraseDups.length + 1) < mu g fi + k) :
    firstRound g (firstIter g k fi) = firstIter g k fi := by
  induction k generalizing fi with
  | zero => have := mu_le h; omega
  | succ k ih =>
    simp only [firstIter]
    split
    · assumption
    · rename_i hne
      have := mu_round_lt h hne
      exact ih (inv_round h) (by omega)

theorem inv_init (g : Grammar) : Inv g (initFI g) := by
  refine ⟨by simp [initFI], by simp [initFI], ?_⟩
  intro n
  rw [init_firstOf]
  simp

theorem firstSets_fix (g : Grammar) : firstRound g (firstSets g) = firstSets g := by
  rw [firstSets_eq]
  exact iter_fix _ (inv_init g) (by omega)

/-! ### the two theorems -/

theorem first_correct (g : Grammar) (hg : g.Closed) (n a : Nat) :
    a ∈ (firstSets g).firstOf n ↔ First g n a :=
  ⟨(firstSets_sound g).1 n a, (fix_complete hg (firstSets_fix g) n).1 a⟩

theorem nullable_correct (g : Grammar) (hg : g.Closed) (n : Nat) :
    (firstSets g).nullOf n = true ↔ Nullable g n :=
  ⟨(firstSets_sound g).2 n, (fix_complete hg (firstSets_fix g) n).2⟩

end FirstProofs
end Theo
