/-
  C07, part 1: the sites passed along VM runs; quiet (site-free) execution of instructions at
  exact positions; value and call code inside site-free ranges.
-/
import Theo.Spec.Events
import Theo.Proofs.Simulation

set_option linter.unusedSimpArgs false
set_option linter.unusedSectionVars false

namespace Theo
namespace Sim
open Sem WF

/-! ### sites along runs -/

theorem sitesPassed_add (p : Program) {vm vm1 : VM} {a : Nat} (h : Steps vm a vm1) (b : Nat) :
    sitesPassed p (a + b) vm = sitesPassed p a vm ++ sitesPassed p b vm1 := by
  induction h with
  | refl vm => rw [Nat.zero_add]; rfl
  | @cons vm vm1 vm' r k hd hs _ ih =>
    rw [Nat.add_right_comm]
    simp only [sitesPassed, hs]
    rw [ih, List.append_assoc]

/-- `vm'` is reached from `vm` passing exactly the sites `L` -/
def ES (p : Program) (vm : VM) (L : List (BreakPoint × VM)) (vm' : VM) : Prop :=
  ∃ k, Steps vm k vm' ∧ sitesPassed p k vm = L
/-- the same with at least one instruction -/
def EP (p : Program) (vm : VM) (L : List (BreakPoint × VM)) (vm' : VM) : Prop :=
  ∃ k, Steps vm (k + 1) vm' ∧ sitesPassed p (k + 1) vm = L

theorem ES.refl (p : Program) (vm : VM) : ES p vm [] vm := ⟨0, Steps.refl _, rfl⟩
theorem EP.es {p : Program} {a b : VM} {L : List (BreakPoint × VM)} (h : EP p a L b) : ES p a L b := by
  obtain ⟨k, h⟩ := h; exact ⟨k + 1, h⟩
theorem ES.trans {p : Program} {a b c : VM} {L1 L2 : List (BreakPoint × VM)} (h1 : ES p a L1 b)
    (h2 : ES p b L2 c) : ES p a (L1 ++ L2) c := by
  obtain ⟨k, s1, e1⟩ := h1; obtain ⟨l, s2, e2⟩ := h2
  exact ⟨k + l, s1.trans s2, by rw [sitesPassed_add p s1, e1, e2]⟩
theorem EP.trans_es {p : Program} {a b c : VM} {L1 L2 : List (BreakPoint × VM)} (h1 : EP p a L1 b)
    (h2 : ES p b L2 c) : EP p a (L1 ++ L2) c := by
  obtain ⟨k, s1, e1⟩ := h1; obtain ⟨l, s2, e2⟩ := h2
  refine ⟨k + l, by rw [Nat.add_right_comm]; exact s1.trans s2, ?_⟩
  rw [Nat.add_right_comm, sitesPassed_add p s1, e1, e2]
theorem ES.trans_ep {p : Program} {a b c : VM} {L1 L2 : List (BreakPoint × VM)} (h1 : ES p a L1 b)
    (h2 : EP p b L2 c) : EP p a (L1 ++ L2) c := by
  obtain ⟨k, s1, e1⟩ := h1; obtain ⟨l, s2, e2⟩ := h2
  exact ⟨k + l, s1.trans s2, by rw [Nat.add_assoc, sitesPassed_add p s1, e1, e2]⟩
theorem EP.trans {p : Program} {a b c : VM} {L1 L2 : List (BreakPoint × VM)} (h1 : EP p a L1 b)
    (h2 : EP p b L2 c) : EP p a (L1 ++ L2) c := h1.trans_es h2.es

/-- quiet execution: no site passed -/
abbrev QS (p : Program) (a b : VM) : Prop := ES p a [] b
abbrev QP (p : Program) (a b : VM) : Prop := EP p a [] b

theorem QP.trans {p : Program} {a b c : VM} (h1 : QP p a b) (h2 : QP p b c) : QP p a c := by
  have := EP.trans h1 h2; simpa using this
theorem QS.trans {p : Program} {a b c : VM} (h1 : QS p a b) (h2 : QS p b c) : QS p a c := by
  have := ES.trans h1 h2; simpa using this
theorem QP.trans_qs {p : Program} {a b c : VM} (h1 : QP p a b) (h2 : QS p b c) : QP p a c := by
  have := EP.trans_es h1 h2; simpa using this
theorem QS.trans_qp {p : Program} {a b c : VM} (h1 : QS p a b) (h2 : QP p b c) : QP p a c := by
  have := ES.trans_ep h1 h2; simpa using this

theorem steps_one {vm vm' : VM} (h : Steps vm 1 vm') : ∃ r, Theo.step vm = .ok (vm', r) := by
  cases h with
  | cons hd hs hrest =>
    cases hrest
    exact ⟨_, hs⟩

section
variable {p : Program} {c : Cert} {R : PcInfo}

/-- one instruction that is not a site -/
theorem quiet1 {vm vm' : VM} (hg : Good p c R.rid vm) {pc : Nat} {ins : Instr}
    (hip : vm.ip = (pc : Int)) (hins : p.code[pc]? = some ins) (h1 : ins ≠ .potBreak)
    (h2 : ins ≠ .brk) (hs : Steps vm 1 vm') : QP p vm vm' := by
  obtain ⟨r, hst⟩ := steps_one hs
  refine ⟨0, hs, ?_⟩
  have hf := hg.fetch hip hins
  simp only [sitesPassed, hst, hf]
  cases ins <;> simp at h1 h2 ⊢

/-- one site instruction -/
theorem site1 {vm vm' : VM} (hg : Good p c R.rid vm) {pc : Nat} {bp : BreakPoint}
    (hip : vm.ip = (pc : Int)) (hins : p.code[pc]? = some .potBreak)
    (hl : p.lineAt (pc : Int) = some bp) (hs : Steps vm 1 vm') : EP p vm [(bp, vm')] vm' := by
  obtain ⟨r, hst⟩ := steps_one hs
  refine ⟨0, hs, ?_⟩
  have hf := hg.fetch hip hins
  rw [hip] at hf
  simp only [sitesPassed, hst, hip, hf, hl]
  rfl

/-! ### instructions at exact positions, with their effect on the top activation's registers -/

theorem q_add (hc : CertOK p c R) {vm : VM} (hg : Good p c R.rid vm) {a : Act} {rest : List Act}
    (hst : vm.stack = a :: rest) {pc : Nat} (hip : vm.ip = (pc : Int)) {t s k : Int}
    (hins : p.code[pc]? = some (.add t s k)) {n m : Nat} (hs : Holds vm.data a s n)
    (hm : addClamp (n : Int) k = (m : Int)) (hle : m ≤ WORD_MAX) :
    0 ≤ t ∧ t < a.segSize ∧
    ∃ vm', QP p vm vm' ∧ Good p c R.rid vm' ∧ vm'.ip = ((pc + 1 : Nat) : Int) ∧
      Pres vm vm' a [t] ∧ Holds vm'.data a t m := by
  obtain ⟨h0, h1, _, _, v, hv, vm2, s2, g2, ip2, st2, d2⟩ := x_add hc hg hst hip hins
  rw [hs.2.2.1] at hv
  cases hv
  rw [hm] at d2
  refine ⟨h0, h1, vm2, quiet1 hg hip hins (by simp) (by simp) s2, g2, by rw [ip2]; omega,
    Pres.of_set st2 d2 h0, ?_⟩
  rw [d2]
  exact Holds.set_same h0 h1 (by rw [hg.top_in hst]; omega) hle

theorem q_const (hc : CertOK p c R) {vm : VM} (hg : Good p c R.rid vm) {a : Act} {rest : List Act}
    (hst : vm.stack = a :: rest) {pc : Nat} (hip : vm.ip = (pc : Int)) {t k : Int}
    (hins : p.code[pc]? = some (.const t k)) :
    0 ≤ t ∧ t < a.segSize ∧
    ∃ vm', QP p vm vm' ∧ Good p c R.rid vm' ∧ vm'.ip = ((pc + 1 : Nat) : Int) ∧
      Pres vm vm' a [t] ∧ ∀ m : Nat, k = (m : Int) → m ≤ WORD_MAX → Holds vm'.data a t m := by
  obtain ⟨h0, h1, vm2, s2, g2, ip2, st2, d2⟩ := x_const hc hg hst hip hins
  refine ⟨h0, h1, vm2, quiet1 hg hip hins (by simp) (by simp) s2, g2, by rw [ip2]; omega,
    Pres.of_set st2 d2 h0, ?_⟩
  intro m hk hle
  rw [d2, hk]
  exact Holds.set_same h0 h1 (by rw [hg.top_in hst]; omega) hle

theorem q_test (hc : CertOK p c R) {vm : VM} (hg : Good p c R.rid vm) {a : Act} {rest : List Act}
    (hst : vm.stack = a :: rest) {pc : Nat} (hip : vm.ip = (pc : Int)) {t x y : Int}
    (hins : p.code[pc]? = some (.test t x y)) {n1 n2 : Nat}
    (hx : Holds vm.data a x n1) (hy : Holds vm.data a y n2) :
    0 ≤ t ∧ t < a.segSize ∧
    ∃ vm', QP p vm vm' ∧ Good p c R.rid vm' ∧ vm'.ip = ((pc + 1 : Nat) : Int) ∧
      Pres vm vm' a [t] ∧ Holds vm'.data a t (if n1 = n2 then 0 else 1) := by
  obtain ⟨h0, h1, _, _, _, _, v1, v2, hv1, hv2, vm2, s2, g2, ip2, st2, d2⟩ :=
    x_test hc hg hst hip hins
  rw [hx.2.2.1] at hv1
  rw [hy.2.2.1] at hv2
  cases hv1
  cases hv2
  have hval : (if (n1 : Int) = (n2 : Int) then (0 : Int) else 1) =
      (((if n1 = n2 then 0 else 1 : Nat)) : Int) := by
    by_cases h : n1 = n2
    · simp [h]
    · have : ¬ (n1 : Int) = (n2 : Int) := by omega
      simp [h, this]
  rw [hval] at d2
  refine ⟨h0, h1, vm2, quiet1 hg hip hins (by simp) (by simp) s2, g2, by rw [ip2]; omega,
    Pres.of_set st2 d2 h0, ?_⟩
  rw [d2]
  refine Holds.set_same h0 h1 (by rw [hg.top_in hst]; omega) ?_
  unfold WORD_MAX
  split <;> omega

theorem q_jmp (hc : CertOK p c R) {vm : VM} (hg : Good p c R.rid vm) {pc : Nat}
    (hip : vm.ip = (pc : Int)) {off : Int} (hins : p.code[pc]? = some (.jmp off)) :
    ∃ vm', QP p vm vm' ∧ Good p c R.rid vm' ∧ vm'.ip = (pc : Int) + off ∧
      vm'.stack = vm.stack ∧ vm'.data = vm.data := by
  obtain ⟨vm2, s2, g2, ip2, st2, d2⟩ := x_jmp hc hg hip hins
  exact ⟨vm2, quiet1 hg hip hins (by simp) (by simp) s2, g2, ip2, st2, d2⟩

theorem q_jmpc (hc : CertOK p c R) {vm : VM} (hg : Good p c R.rid vm) {a : Act} {rest : List Act}
    (hst : vm.stack = a :: rest) {pc : Nat} (hip : vm.ip = (pc : Int)) {off s : Int}
    (hins : p.code[pc]? = some (.jmpc off s)) {n : Nat} (hs : Holds vm.data a s n) :
    ∃ vm', QP p vm vm' ∧ Good p c R.rid vm' ∧
      vm'.ip = (if n = 0 then (pc : Int) + off else ((pc + 1 : Nat) : Int)) ∧
      vm'.stack = vm.stack ∧ vm'.data = vm.data := by
  obtain ⟨_, _, v, hv, vm2, s2, g2, ip2, st2, d2⟩ := x_jmpc hc hg hst hip hins
  rw [hs.2.2.1] at hv
  cases hv
  refine ⟨vm2, quiet1 hg hip hins (by simp) (by simp) s2, g2, ?_, st2, d2⟩
  rw [ip2]
  by_cases h : n = 0
  · simp [h]
  · have : ¬ (n : Int) = 0 := by omega
    simp [h, this]

/-- passing one site -/
theorem q_site (hc : CertOK p c R) {vm : VM} (hg : Good p c R.rid vm) {pc : Nat}
    (hip : vm.ip = (pc : Int)) (hins : p.code[pc]? = some .potBreak) {bp : BreakPoint}
    (hl : p.lineAt (pc : Int) = some bp) :
    ∃ vm', EP p vm [(bp, vm')] vm' ∧ Good p c R.rid vm' ∧ vm'.ip = ((pc + 1 : Nat) : Int) ∧
      vm'.stack = vm.stack ∧ vm'.data = vm.data := by
  obtain ⟨vm2, s2, g2, ip2, st2, d2⟩ := x_pb hc hg hip hins
  exact ⟨vm2, site1 hg hip hins hl s2, g2, by rw [ip2]; omega, st2, d2⟩

/-! ### site-free ranges -/

def Clean (code : List Instr) (lo hi : Nat) : Prop :=
  ∀ x, lo ≤ x → x < hi → code[x]? ≠ some Instr.potBreak

theorem Clean.skipc {code : List Instr} {lo hi x : Nat} (h : Clean code lo hi) (h1 : lo ≤ x)
    (h2 : x < hi) : skipc code x = x := skipc_of_not_pb (h x h1 h2)

theorem Clean.mono {code : List Instr} {lo hi lo' hi' : Nat} (h : Clean code lo hi) (h1 : lo ≤ lo')
    (h2 : hi' ≤ hi) : Clean code lo' hi' := fun x g1 g2 => h x (by omega) (by omega)

theorem le_skipPB (code : List Instr) : ∀ f pc, pc ≤ skipPB code f pc := by
  intro f
  induction f with
  | zero => intro pc; exact Nat.le_refl _
  | succ f ih =>
    intro pc
    unfold skipPB
    split
    · exact Nat.le_trans (Nat.le_succ _) (ih (pc + 1))
    · exact Nat.le_refl _

theorem le_skipc (code : List Instr) (pc : Nat) : pc ≤ skipc code pc := le_skipPB code _ pc

theorem lt_next (e : VEnv) (pc : Nat) : pc < e.next pc := by
  unfold VEnv.next
  have := le_skipc e.code pc
  omega

theorem checkArgInstrs_le {e : VEnv} : ∀ {ts : List Int} {i pc pc2 : Nat},
    checkArgInstrs e ts i pc = some pc2 → pc ≤ pc2 := by
  intro ts
  induction ts with
  | nil => intro i pc pc2 h; simp only [checkArgInstrs, Option.some.injEq] at h; omega
  | cons t ts ih =>
    intro i pc pc2 h
    obtain ⟨_, h2⟩ := checkArgInstrs_cons h
    have := ih h2
    have := lt_next e pc
    omega

theorem callTail_lt {e : VEnv} {f : Name} {live temps : List Int} {pc1 : Nat} {tgt : Int} {pc' : Nat}
    (h : CallTail e f live temps pc1 tgt pc') : pc1 < pc' := by
  obtain ⟨j, pd, ri, cnt, pc2, _, _, _, _, _, h6, _, rfl⟩ := h
  have := checkArgInstrs_le h6
  have := lt_next e pc1
  have := lt_next e pc2
  omega

mutual
theorem checkValue_lt {e : VEnv} : ∀ {v : Value} {live : List Int} {pc : Nat} {tgt : Int} {pc' : Nat},
    checkValue e v live pc = some (tgt, pc') → pc < pc'
  | .var y, live, pc, tgt, pc', h => by
    obtain ⟨_, _, _, _, rfl⟩ := checkValue_var h
    exact lt_next e pc
  | .num n, live, pc, tgt, pc', h => by
    obtain ⟨_, _, _, rfl⟩ := checkValue_num h
    exact lt_next e pc
  | .inc y k, live, pc, tgt, pc', h => by
    simp only [checkValue] at h
    obtain ⟨_, _, _, _, _, _, _, _, _, _, _, _, _, rfl⟩ := checkIncDec_inv h
    have := lt_next e pc
    have := lt_next e (e.next pc)
    have := lt_next e (e.next (e.next pc))
    omega
  | .dec y k, live, pc, tgt, pc', h => by
    simp only [checkValue] at h
    obtain ⟨_, _, _, _, _, _, _, _, _, _, _, _, _, rfl⟩ := checkIncDec_inv h
    have := lt_next e pc
    have := lt_next e (e.next pc)
    have := lt_next e (e.next (e.next pc))
    omega
  | .call f args, live, pc, tgt, pc', h => by
    obtain ⟨temps, pc1, h1, h2⟩ := checkValue_call h
    have := checkArgs_le h1
    have := callTail_lt h2
    omega
theorem checkArgs_le {e : VEnv} : ∀ {args : Values} {live acc : List Int} {pc : Nat}
    {temps : List Int} {pc1 : Nat}, checkArgs e args live acc pc = some (temps, pc1) → pc ≤ pc1
  | .nil, live, acc, pc, temps, pc1, h => by
    rw [checkArgs_nil] at h
    cases h
    exact Nat.le_refl _
  | .cons a as, live, acc, pc, temps, pc1, h => by
    obtain ⟨t, pca, h1, _, h3⟩ := checkArgs_cons h
    have := checkValue_lt h1
    have := checkArgs_le h3
    omega
end

theorem ctxAt_le {e : VEnv} {H : Int → Nat → Prop} : ∀ {cs : List ECtx} {x : Name} {live : List Int}
    {tgt : Int} {pc pcS : Nat}, CtxAt e H cs x live tgt pc pcS → pc ≤ pcS := by
  intro cs
  induction cs with
  | nil => intro x live tgt pc pcS h; simp only [CtxAt] at h; omega
  | cons c1 cs ih =>
    intro x live tgt pc pcS h
    simp only [CtxAt] at h
    obtain ⟨live', acc, temps, pc1, tgt', pc', _, _, _, h4, h5, h6⟩ := h
    have := checkArgs_le h4
    have := callTail_lt h5
    have := ih h6
    omega

theorem at_exact {e : VEnv} (he : e.code = p.code) {lo hi x : Nat} (hcl : Clean p.code lo hi)
    (h1 : lo ≤ x) (h2 : x < hi) {ins : Instr} (h : e.at x = some ins) : p.code[x]? = some ins := by
  have := at_code he h
  rwa [hcl.skipc h1 h2] at this

theorem next_exact {e : VEnv} (he : e.code = p.code) {lo hi x : Nat} (hcl : Clean p.code lo hi)
    (h1 : lo ≤ x) (h2 : x < hi) : e.next x = x + 1 := by
  rw [next_code he, hcl.skipc h1 h2]

/-! ### value code inside a site-free range -/

theorem eval_simple_q (hc : CertOK p c R) {e : VEnv} (he : e.code = p.code) {vm : VM}
    (hg : Good p c R.rid vm) {a : Act} {rest : List Act} (hst : vm.stack = a :: rest) {pc hi : Nat}
    (hip : vm.ip = (pc : Int)) (hcl : Clean p.code pc hi) {env : Env} {ctrs : Ctrs}
    (hfo : FrameOK vm.data a e.me env ctrs) {v : Value} {live : List Int} {tgt : Int} {pc' : Nat}
    (hcv : checkValue e v live pc = some (tgt, pc')) (hhi : pc' ≤ hi) {n : Nat}
    (hv : SimpleVal env v n) :
    ∃ vm' ts, QP p vm vm' ∧ Good p c R.rid vm' ∧ vm'.ip = (pc' : Int) ∧ Pres vm vm' a (tgt :: ts) ∧
      Holds vm'.data a tgt n ∧ ∀ t ∈ ts, tempOK e live t = true := by
  have hlt := checkValue_lt hcv
  cases hv with
  | var y =>
    obtain ⟨ry, h1, h2, _, rfl⟩ := checkValue_var hcv
    have hy := hfo.reg h1
    obtain ⟨_, _, vm', s1, g1, ip1, p1, hh⟩ :=
      q_add hc hg hst hip (at_exact he hcl (Nat.le_refl _) (by omega) h2) hy
        (clamp_zero hy.2.2.2) hy.2.2.2
    exact ⟨vm', [], s1, g1, by rw [ip1, next_exact he hcl (Nat.le_refl _) (by omega)], p1, hh,
      fun _ h => nomatch h⟩
  | num n =>
    obtain ⟨h2, hn, _, rfl⟩ := checkValue_num hcv
    obtain ⟨_, _, vm', s1, g1, ip1, p1, hh⟩ :=
      q_const hc hg hst hip (at_exact he hcl (Nat.le_refl _) (by omega) h2)
    exact ⟨vm', [], s1, g1, by rw [ip1, next_exact he hcl (Nat.le_refl _) (by omega)], p1,
      hh n rfl (Nat.le_of_lt hn), fun _ h => nomatch h⟩
  | inc y k =>
    simp only [checkValue] at hcv
    obtain ⟨ry, t1, t2, c2, h1, h2, ht1, h3, ht2, hne, h4, hk, _, rfl⟩ := checkIncDec_inv hcv
    have l1 := lt_next e pc
    have l2 := lt_next e (e.next pc)
    have l3 := lt_next e (e.next (e.next pc))
    have n1 : e.next pc = pc + 1 := next_exact he hcl (Nat.le_refl _) (by omega)
    have n2 : e.next (e.next pc) = pc + 2 := by
      rw [n1]; exact next_exact he hcl (by omega) (by omega)
    have n3 : e.next (e.next (e.next pc)) = pc + 3 := by
      rw [n2]; exact next_exact he hcl (by omega) (by omega)
    rw [n1] at h3
    rw [n2] at h4
    have hy := hfo.reg h1
    obtain ⟨t10, _, vm1, s1, g1, ip1, p1, hh1⟩ :=
      q_add hc hg hst hip (at_exact he hcl (Nat.le_refl _) (by omega) h2) hy
        (clamp_zero hy.2.2.2) hy.2.2.2
    have st1 := p1.stack.trans hst
    obtain ⟨t20, _, vm2, s2, g2, ip2, p2, _⟩ :=
      q_const hc g1 st1 ip1 (at_exact he hcl (by omega) (by omega) h3)
    have st2 := p2.stack.trans st1
    have hh2 : Holds vm2.data a t1 (env.get y) :=
      p2.other _ _ (by simp; exact fun h => hne h.symm) hh1
    obtain ⟨_, _, vm3, s3, g3, ip3, p3, hh3⟩ :=
      q_add hc g2 st2 ip2 (at_exact he hcl (by omega) (by omega) h4) hh2
        (m := addSat (env.get y) k) (by simp only [if_true]; exact clamp_inc) (addSat_le _ _)
    refine ⟨vm3, [t1, t2], (s1.trans s2).trans s3, g3, by rw [ip3, n3], ?_, hh3, ?_⟩
    · exact ((p1.trans p2).trans p3).weaken (by simp)
    · intro t ht
      simp only [List.mem_cons, List.not_mem_nil, or_false] at ht
      rcases ht with rfl | rfl
      · exact ht1
      · exact ht2
  | dec y k =>
    simp only [checkValue] at hcv
    obtain ⟨ry, t1, t2, c2, h1, h2, ht1, h3, ht2, hne, h4, hk, _, rfl⟩ := checkIncDec_inv hcv
    have l1 := lt_next e pc
    have l2 := lt_next e (e.next pc)
    have l3 := lt_next e (e.next (e.next pc))
    have n1 : e.next pc = pc + 1 := next_exact he hcl (Nat.le_refl _) (by omega)
    have n2 : e.next (e.next pc) = pc + 2 := by
      rw [n1]; exact next_exact he hcl (by omega) (by omega)
    have n3 : e.next (e.next (e.next pc)) = pc + 3 := by
      rw [n2]; exact next_exact he hcl (by omega) (by omega)
    rw [n1] at h3
    rw [n2] at h4
    have hy := hfo.reg h1
    obtain ⟨t10, _, vm1, s1, g1, ip1, p1, hh1⟩ :=
      q_add hc hg hst hip (at_exact he hcl (Nat.le_refl _) (by omega) h2) hy
        (clamp_zero hy.2.2.2) hy.2.2.2
    have st1 := p1.stack.trans hst
    obtain ⟨t20, _, vm2, s2, g2, ip2, p2, _⟩ :=
      q_const hc g1 st1 ip1 (at_exact he hcl (by omega) (by omega) h3)
    have st2 := p2.stack.trans st1
    have hh2 : Holds vm2.data a t1 (env.get y) :=
      p2.other _ _ (by simp; exact fun h => hne h.symm) hh1
    obtain ⟨_, _, vm3, s3, g3, ip3, p3, hh3⟩ :=
      q_add hc g2 st2 ip2 (at_exact he hcl (by omega) (by omega) h4) hh2
        (m := env.get y - k)
        (by simp only [Bool.false_eq_true, if_false]; exact clamp_dec hy.2.2.2)
        (Nat.le_trans (Nat.sub_le _ _) hy.2.2.2)
    refine ⟨vm3, [t1, t2], (s1.trans s2).trans s3, g3, by rw [ip3, n3], ?_, hh3, ?_⟩
    · exact ((p1.trans p2).trans p3).weaken (by simp)
    · intro t ht
      simp only [List.mem_cons, List.not_mem_nil, or_false] at ht
      rcases ht with rfl | rfl
      · exact ht1
      · exact ht2

/-! ### the call sequence inside a site-free range -/

theorem arg_loop_q (hc : CertOK p c R) {e : VEnv} (he : e.code = p.code) {callee a : Act}
    {rest : List Act} {pc2 hi : Nat} (hhi : pc2 < hi) : ∀ (temps : List Int) (vals : List Nat)
    (i pc : Nat) (vm : VM) (done : List Nat), Good p c R.rid vm → vm.stack = callee :: a :: rest →
    vm.ip = (pc : Int) → Clean p.code pc hi →
    checkArgInstrs e temps i pc = some pc2 → HoldAll (Holds vm.data a) temps vals →
    done.length = i → FrameInit vm.data callee done →
    ∃ vm', QS p vm vm' ∧ Good p c R.rid vm' ∧ vm'.ip = (pc2 : Int) ∧ vm'.stack = vm.stack ∧
      SameBelow callee.dataStart vm.data vm'.data ∧ FrameInit vm'.data callee (done ++ vals) := by
  intro temps
  induction temps with
  | nil =>
    intro vals i pc vm done hg hst hip hcl hchk hh hlen hfi
    have hv : vals = [] := by
      have := hh.1
      cases vals with
      | nil => rfl
      | cons _ _ => simp at this
    subst hv
    simp only [checkArgInstrs, Option.some.injEq] at hchk
    subst hchk
    exact ⟨vm, ES.refl _ _, hg, hip, rfl, SameBelow.refl _ _, by simpa using hfi⟩
  | cons t ts ih =>
    intro vals i pc vm done hg hst hip hcl hchk hh hlen hfi
    cases vals with
    | nil => have := hh.1; simp at this
    | cons v vs =>
      obtain ⟨hv, hh'⟩ := hh.cons_inv
      obtain ⟨h1, h2⟩ := checkArgInstrs_cons hchk
      have hle := checkArgInstrs_le h2
      have hl1 := lt_next e pc
      have hins := at_exact he hcl (Nat.le_refl _) (by omega) h1
      have hn : e.next pc = pc + 1 := next_exact he hcl (Nat.le_refl _) (by omega)
      obtain ⟨i0, i1, _, _, w, hw, vm2, s2, g2, ip2, st2, d2⟩ := x_arg hc hg hst hip hins
      rw [hv.2.2.1] at hw
      cases hw
      have htl := hg.tiles
      rw [hst] at htl
      obtain ⟨_, hsum, _, hsum2, _⟩ := htl
      have hsb : SameBelow callee.dataStart vm.data vm2.data := by
        rw [d2]; exact SameBelow.set _ _ (by omega)
      have hidx : ((i : Nat) : Int).toNat = i := by omega
      have hfi2 : FrameInit vm2.data callee (done ++ [v]) := by
        intro r hr
        rw [d2, hidx]
        by_cases hri : r = i
        · subst hri
          rw [List.getElem?_set_self (by omega), List.getElem?_append_right (by omega), hlen]
          simp
        · rw [List.getElem?_set_ne (by omega), hfi r hr]
          by_cases hlt : r < i
          · rw [List.getElem?_append_left (by omega)]
          · rw [List.getElem?_eq_none (by omega), List.getElem?_eq_none (by simp; omega)]
      have hh2 : HoldAll (Holds vm2.data a) ts vs :=
        hh'.mono (fun t _ n hn => hn.below (by omega) hsb)
      rw [hn] at h2
      obtain ⟨vm3, s3, g3, ip3, st3, sb3, fi3⟩ :=
        ih vs (i + 1) (pc + 1) vm2 (done ++ [v]) g2 (st2.trans hst) (by rw [ip2]; omega)
          (hcl.mono (by omega) (Nat.le_refl _)) h2 hh2 (by simp [hlen]) hfi2
      refine ⟨vm3, (quiet1 hg hip hins (by simp) (by simp) s2).es.trans s3 |> fun h => by simpa using h,
        g3, ip3, st3.trans st2, hsb.trans sb3, ?_⟩
      rw [List.append_assoc] at fi3
      exact fi3

theorem do_call_q {src : Source} {V : Valid src p} (hc : CertOK p c R) (hV : V.OK) {r : Nat}
    (hr : r ≤ src.progs.length) {vm : VM} (hg : Good p c R.rid vm) {a : Act} {rest : List Act}
    (hst : vm.stack = a :: rest) {pc1 hi : Nat} (hip : vm.ip = (pc1 : Int))
    (hcl : Clean p.code pc1 hi) {f : Name}
    {live temps : List Int} {tgt : Int} {pc' : Nat}
    (hct : CallTail (V.env r) f live temps pc1 tgt pc') (hhi : pc' ≤ hi) {vals : List Nat}
    (hh : HoldAll (Holds vm.data a) temps vals) :
    ∃ j pd, lookupProg src f r = some (j, pd) ∧ j < r ∧ src.progs[j]? = some pd ∧
      pd.params.length = vals.length ∧
      ∃ vm' callee, QP p vm vm' ∧ Good p c R.rid vm' ∧ vm'.ip = ((V.start j : Nat) : Int) ∧
        vm'.stack = callee :: a :: rest ∧ callee.retAddr = (pc' : Int) ∧ callee.retTarget = tgt ∧
        callee.dbg = (j : Int) ∧ SameBelow vm.data.length vm.data vm'.data ∧
        FrameOK vm'.data callee (V.ri j) (bindParams pd.params vals []) [] := by
  have he : (V.env r).code = p.code := rfl
  have hlt0 := callTail_lt hct
  obtain ⟨j, pd, ri, cnt, pc2, h1, h2, h3, h4, _, h6, h7, rfl⟩ := hct
  have h1' : lookupProg src f r = some (j, pd) := h1
  obtain ⟨hjr, hpd⟩ := lookupProg_spec h1'
  obtain ⟨_, hri⟩ := env_infos hV h2
  have hri := hri hr
  subst hri
  have hjn : j < src.progs.length := by omega
  refine ⟨j, pd, h1', hjr, hpd, by rw [h3, hh.1], ?_⟩
  have hle6 := checkArgInstrs_le h6
  have hl2 := lt_next (V.env r) pc2
  have hl1 := lt_next (V.env r) pc1
  have hn1 : (V.env r).next pc1 = pc1 + 1 := next_exact he hcl (Nat.le_refl _) (by omega)
  have hn2 : (V.env r).next pc2 = pc2 + 1 := next_exact he hcl (by omega) (by omega)
  -- PREPARE
  have hins1 := at_exact he hcl (Nat.le_refl _) (by omega) h4
  obtain ⟨hcnt, ht0, ht1, vm2, s2, g2, ip2, st2, d2⟩ := x_prepare hc hg hst hip hins1
  rw [hst] at st2
  have hin := hg.top_in hst
  have hsb2 : SameBelow vm.data.length vm.data vm2.data := by
    rw [d2]; exact SameBelow.append _ _ (Nat.le_refl _)
  have hfi2 : FrameInit vm2.data ⟨vm.data.length, cnt, tgt, -1, ((V.ri j).mi : Int)⟩ [] := by
    intro r' hr'
    have hr'' : (r' : Int) < cnt := hr'
    rw [d2, List.getElem?_append_right (by simp)]
    simp only [Nat.add_sub_cancel_left, List.getElem?_nil, Option.getD_none]
    rw [List.getElem?_replicate, if_pos (by omega)]
    rfl
  have hh2 : HoldAll (Holds vm2.data a) temps vals :=
    hh.mono (fun t _ n hn => hn.below (by omega) hsb2)
  rw [hn1] at h6
  -- ARG*
  obtain ⟨vm3, s3, g3, ip3, st3, sb3, fi3⟩ :=
    arg_loop_q hc he (hi := hi) (by omega) temps vals 0 _ vm2 [] g2 st2 (by rw [ip2]; omega)
      (hcl.mono (by omega) (Nat.le_refl _)) h6 hh2 rfl hfi2
  rw [st2] at st3
  -- EXEC
  have hins2 := at_exact he hcl (by omega) (by omega) h7
  obtain ⟨vm5, s5, g5, ip5, st5, d5⟩ := x_exec hc g3 st3 ip3 hins2
  have hsb5 : SameBelow vm.data.length vm.data vm5.data := by
    rw [d5]; exact hsb2.trans sb3
  have q2 := quiet1 hg hip hins1 (by simp) (by simp) s2
  have q5 := quiet1 g3 ip3 hins2 (by simp) (by simp) s5
  refine ⟨vm5, _, (q2.trans_qs s3).trans q5, g5,
    by rw [ip5, hV.entry j hjn], st5, ?_, rfl, ?_, hsb5, ?_⟩
  · show ((pc2 : Nat) : Int) + 1 = _
    rw [hn2]; omega
  · show ((V.ri j).mi : Int) = j
    rw [hV.mi j (by omega)]
  · obtain ⟨pd', ro, q1, q2', _, _⟩ := hV.rout j hjn
    rw [hpd] at q1
    cases q1
    have ham := winv_actMap g5.winv _ (by rw [st5]; exact List.mem_cons_self)
    refine callee_frameOK (hV.nodup j (by omega)) q2' (by rw [h3, hh.1]) hh.le ?_
      (actmap_regs hc hV (by omega) ham (by show ((V.ri j).mi : Int) = j; rw [hV.mi j (by omega)]))
    rw [d5]; exact fi3

end

end Sim
end Theo
