/-
  C01 budget, part 5: the VM is not unboundedly slower than the reference machine.

  One reference step costs `cost cfg` real instructions (SimCountStep.lean): at most 4 — except
  for the step that performs a call with `k` arguments, which costs `k + 2` (`PREPARE`, `k` times
  `ARG`, `EXEC`).  That step is paid for by the `k - 1` instruction-free steps that moved from
  one evaluated argument to the next: with the *credit* of a configuration = the number of
  argument values already computed in the pending calls of all activations,

      cost cfg + credit (step cfg) ≤ credit cfg + 4        (`cost_credit`)

  so that, every real instruction being preceded by at most `S` breakpoint sites, after `n`
  reference steps the VM has executed at most `(S + 1) * (4 * n + L + 1)` instructions, where
  `L` = the number of routines (the prologue `PREPARE; JMP over each routine body`).
-/
import Theo.Proofs.SimCountStep

set_option linter.unusedSimpArgs false
set_option linter.unusedSectionVars false

namespace Theo
namespace Sim
open Sem WF

/-! ### credits -/

/-- argument values already computed in a stack of pending calls -/
def ccred : List ECtx → Nat
  | [] => 0
  | c :: cs => c.done.length + ccred cs

def fcred (fr : Frame) : Nat :=
  match fr.ctrl with
  | .run => 0
  | .eval _ _ cs => ccred cs
  | .ret _ _ cs => ccred cs
  | .wait _ cs => ccred cs

def scred : List Frame → Nat
  | [] => 0
  | fr :: rest => fcred fr + scred rest

def cred (cfg : Config) : Nat := scred cfg.stack

theorem cred_doCall (src : Source) (fr : Frame) (rest : List Frame) (f : Name) (args : List Nat) :
    cred (doCall src fr rest f args) = fcred fr + scred rest := by
  unfold doCall
  split
  · split
    · simp only [cred, scred, fcred, Nat.zero_add]
    · rfl
  · rfl

theorem cred_goto (src : Source) {r : Nat} {env : Env} {ctrs : Ctrs} {focus : Stmts} {k : Kont}
    {rest : List Frame} (m : Name) :
    cred (match findLabel m (bodyOf src r) .done with
      | some (f, k2) => (⟨⟨r, env, ctrs, f, k2, .run⟩ :: rest, .running⟩ : Config)
      | none => ⟨⟨r, env, ctrs, focus, k, .run⟩ :: rest, .stuck⟩) = scred rest := by
  split <;> simp only [cred, scred, fcred, Nat.zero_add]

/-- the amortised cost of one reference step is at most 4 real instructions -/
theorem cost_credit (src : Source) {cfg : Config} (hrun : cfg.status = .running) :
    cost cfg + cred (Sem.step src cfg) ≤ cred cfg + 4 := by
  obtain ⟨stack, status⟩ := cfg
  simp only at hrun
  subst hrun
  cases stack with
  | nil => exact Nat.le_add_left _ _
  | cons fr rest =>
  obtain ⟨r, env, ctrs, focus, k, ctrl⟩ := fr
  cases ctrl with
  | run =>
    cases focus with
    | cons s ss =>
      cases s with
      | assign x v pos =>
        show 0 + cred ⟨⟨r, env, ctrs, ss, k, .eval v x []⟩ :: rest, .running⟩ ≤ _
        simp only [cred, scred, fcred, ccred]
        omega
      | mark m pos =>
        show 0 + cred ⟨⟨r, env, ctrs, ss, k, .run⟩ :: rest, .running⟩ ≤ _
        simp only [cred, scred, fcred]
        omega
      | loop id x body pos =>
        show 2 + cred (if env.get x ≠ 0 then
            (⟨⟨r, env, ctrs.set id (env.get x), body, .loop id body ss k, .run⟩ :: rest, .running⟩ : Config)
          else ⟨⟨r, env, ctrs.set id (env.get x), ss, k, .run⟩ :: rest, .running⟩) ≤ _
        split <;> simp only [cred, scred, fcred] <;> omega
      | while_ x body pos =>
        show 2 + cred (if env.get x ≠ 0 then
            (⟨⟨r, env, ctrs, body, .while_ x body ss k, .run⟩ :: rest, .running⟩ : Config)
          else ⟨⟨r, env, ctrs, ss, k, .run⟩ :: rest, .running⟩) ≤ _
        split <;> simp only [cred, scred, fcred] <;> omega
      | goto m pos =>
        show 1 + cred (match findLabel m (bodyOf src r) .done with
          | some (f, k2) => (⟨⟨r, env, ctrs, f, k2, .run⟩ :: rest, .running⟩ : Config)
          | none => ⟨⟨r, env, ctrs, .cons (.goto m pos) ss, k, .run⟩ :: rest, .stuck⟩) ≤ _
        rw [cred_goto]
        simp only [cred, scred, fcred]
        omega
      | ifGoto x cst m pos =>
        show 4 + cred (if env.get x = cst then
            (match findLabel m (bodyOf src r) .done with
             | some (f, k2) => (⟨⟨r, env, ctrs, f, k2, .run⟩ :: rest, .running⟩ : Config)
             | none => ⟨⟨r, env, ctrs, .cons (.ifGoto x cst m pos) ss, k, .run⟩ :: rest, .stuck⟩)
          else ⟨⟨r, env, ctrs, ss, k, .run⟩ :: rest, .running⟩) ≤ _
        split
        · rw [cred_goto]
          simp only [cred, scred, fcred]
          omega
        · simp only [cred, scred, fcred]
          omega
      | stop pos =>
        show 0 + cred ⟨⟨r, env, ctrs, .cons (.stop pos) ss, k, .run⟩ :: rest, .halted⟩ ≤ _
        simp only [cred]
        omega
    | nil =>
      cases k with
      | loop id body ss k' =>
        show 3 + cred (if ctrs.get id - 1 ≠ 0 then
            (⟨⟨r, env, ctrs.set id (ctrs.get id - 1), body, .loop id body ss k', .run⟩ :: rest,
              .running⟩ : Config)
          else ⟨⟨r, env, ctrs.set id (ctrs.get id - 1), ss, k', .run⟩ :: rest, .running⟩) ≤ _
        split <;> simp only [cred, scred, fcred] <;> omega
      | while_ x body ss k' =>
        show 3 + cred (if env.get x ≠ 0 then
            (⟨⟨r, env, ctrs, body, .while_ x body ss k', .run⟩ :: rest, .running⟩ : Config)
          else ⟨⟨r, env, ctrs, ss, k', .run⟩ :: rest, .running⟩) ≤ _
        split <;> simp only [cred, scred, fcred] <;> omega
      | done =>
        cases rest with
        | nil =>
          show 1 + cred ⟨[⟨r, env, ctrs, .nil, .done, .run⟩], .halted⟩ ≤ _
          simp only [cred]
          omega
        | cons caller rest' =>
          obtain ⟨r2, env2, ctrs2, focus2, k2, ctrl2⟩ := caller
          cases ctrl2 with
          | wait x cs =>
            show 1 + cred ⟨⟨r2, env2, ctrs2, focus2, k2,
              .ret (env.get (match src.progs[r]? with | some pd => pd.out | none => [])) x cs⟩ :: rest',
              .running⟩ ≤ _
            simp only [cred, scred, fcred]
            omega
          | run =>
            show 1 + cred ⟨_ :: _ :: rest', .stuck⟩ ≤ _
            simp only [cred]
            omega
          | eval _ _ _ =>
            show 1 + cred ⟨_ :: _ :: rest', .stuck⟩ ≤ _
            simp only [cred]
            omega
          | ret _ _ _ =>
            show 1 + cred ⟨_ :: _ :: rest', .stuck⟩ ≤ _
            simp only [cred]
            omega
  | eval v x cs =>
    cases v with
    | var y =>
      show 1 + cred ⟨⟨r, env, ctrs, focus, k, .ret (env.get y) x cs⟩ :: rest, .running⟩ ≤ _
      simp only [cred, scred, fcred]
      omega
    | num n =>
      show 1 + cred ⟨⟨r, env, ctrs, focus, k, .ret n x cs⟩ :: rest, .running⟩ ≤ _
      simp only [cred, scred, fcred]
      omega
    | inc y c =>
      show 3 + cred ⟨⟨r, env, ctrs, focus, k, .ret (addSat (env.get y) c) x cs⟩ :: rest, .running⟩ ≤ _
      simp only [cred, scred, fcred]
      omega
    | dec y c =>
      show 3 + cred ⟨⟨r, env, ctrs, focus, k, .ret (env.get y - c) x cs⟩ :: rest, .running⟩ ≤ _
      simp only [cred, scred, fcred]
      omega
    | call f args =>
      cases args with
      | nil =>
        show 2 + cred (doCall src ⟨r, env, ctrs, focus, k, .wait x cs⟩ rest f []) ≤ _
        rw [cred_doCall]
        simp only [cred, scred, fcred]
        omega
      | cons a0 as0 =>
        show 0 + cred ⟨⟨r, env, ctrs, focus, k, .eval a0 x (⟨f, [], as0⟩ :: cs)⟩ :: rest, .running⟩ ≤ _
        simp only [cred, scred, fcred, ccred, List.length_nil]
        omega
  | ret n x cs =>
    cases cs with
    | nil =>
      show 0 + cred ⟨⟨r, env.set x n, ctrs, focus, k, .run⟩ :: rest, .running⟩ ≤ _
      simp only [cred, scred, fcred, ccred]
      omega
    | cons c1 cs' =>
      obtain ⟨f, done, todo⟩ := c1
      cases todo with
      | nil =>
        show (done.length + 3) +
          cred (doCall src ⟨r, env, ctrs, focus, k, .wait x cs'⟩ rest f (done ++ [n])) ≤ _
        rw [cred_doCall]
        simp only [cred, scred, fcred, ccred]
        omega
      | cons a0 as0 =>
        show 0 + cred ⟨⟨r, env, ctrs, focus, k, .eval a0 x (⟨f, done ++ [n], as0⟩ :: cs')⟩ :: rest,
          .running⟩ ≤ _
        simp only [cred, scred, fcred, ccred, List.length_append, List.length_cons, List.length_nil]
        omega
  | wait x cs =>
    show 0 + cred ⟨⟨r, env, ctrs, focus, k, .wait x cs⟩ :: rest, .stuck⟩ ≤ _
    simp only [cred]
    omega

/-! ### the prologue: `PREPARE`, then one jump over every routine body -/

/-- `Skips` (SimValid.lean) with the number of jumps -/
inductive SkipsN (code : List Instr) : Nat → Nat → Nat → Prop where
  | refl (pc : Nat) : SkipsN code 0 pc pc
  | jump {n pc : Nat} {off : Int} {after pcF : Nat} : code[skipc code pc]? = some (.jmp off) →
      ((skipc code pc : Nat) : Int) + off = (after : Int) → SkipsN code n after pcF →
      SkipsN code (n + 1) pc pcF

theorem checkProgs_skipsN (p : Program) (src : Source) : ∀ (rest : List ProgDef) (i : Nat)
    (infos : List RInfo) (pc : Nat) (infosF : List RInfo) (pcF : Nat),
    checkProgs p src rest i infos pc = some (infosF, pcF) → SkipsN p.code rest.length pc pcF := by
  intro rest
  induction rest with
  | nil =>
    intro i infos pc infosF pcF h
    simp only [checkProgs] at h
    cases h
    exact SkipsN.refl _
  | cons pd rest ih =>
    intro i infos pc infosF pcF h
    simp only [checkProgs] at h
    split at h
    · rename_i off sm h1 h2
      split at h
      · cases h
      · split at h
        · split at h
          · split at h
            · rename_i hc2
              obtain ⟨_, _, hoff⟩ := hc2
              exact SkipsN.jump h1 hoff (ih _ _ _ _ _ h)
            · cases h
          · cases h
        · cases h
    · cases h

section
variable {src : Source} {p : Program} {V : Valid src p} {c : Cert} {R : PcInfo} {S : Nat}
  (hS : SiteBound p.code S) (hc : CertOK p c R) (hV : V.OK)
include hS hc

theorem skips_run_c {n pc pcF : Nat} (hs : SkipsN p.code n pc pcF) : ∀ {vm : VM},
    Good p c R.rid vm → Anch p.code vm.ip pc →
    ∃ vm', SC S n vm vm' ∧ Good p c R.rid vm' ∧ Anch p.code vm'.ip pcF ∧ vm'.stack = vm.stack ∧
      vm'.data = vm.data := by
  induction hs with
  | refl pc => intro vm hg ha; exact ⟨vm, SC.refl _ _, hg, ha, rfl, rfl⟩
  | jump h1 h2 _ ih =>
    intro vm hg ha
    obtain ⟨vm1, s1, g1, ip1, st1, d1⟩ := r_jmp_c hS hc hg ha h1
    obtain ⟨vm2, s2, g2, a2, st2, d2⟩ := ih g1 (by rw [ip1, h2]; exact Anch.self _ _)
    exact ⟨vm2, (s1.trans s2).cast (Nat.add_comm _ _), g2, a2, st2.trans st1, d2.trans d1⟩

include hV

/-- `init_match` (Simulation.lean) with its `1 + L` real instructions -/
theorem init_match_c (hsk : SkipsN p.code src.progs.length 1 (V.start src.progs.length)) :
    ∃ vm, SC S (src.progs.length + 1) (VM.mk' p) vm ∧ Match V c R (initial src) vm := by
  obtain ⟨cnt, tgt, hhead⟩ := hV.head
  have g0 := Good.init p c R.rid
  obtain ⟨s1, g1⟩ := g0.exec1 hc (pc := 0) (vm' := { VM.mk' p with
      data := [] ++ List.replicate cnt.toNat 0,
      stack := [⟨0, cnt, tgt, -1, (src.progs.length : Int)⟩], ip := 0 + 1 }) (b := false)
    rfl hhead (by simp) rfl
  obtain ⟨vm2, s2, g2, a2, st2, d2⟩ :=
    skips_run_c hS hc hsk g1 (by show Anch p.code ((0 : Int) + 1) 1; exact Anch.self _ 1)
  refine ⟨vm2, (((SA.refl S _).one s1).trans s2).cast (Nat.add_comm _ _), g2, rfl,
    ⟨V.start src.progs.length, a2, ?_⟩, ?_⟩
  · rw [st2]
    show StackRel V vm2.data [_] [⟨0, cnt, tgt, -1, (src.progs.length : Int)⟩] _ 0
    rw [stackRel_cons]
    refine ⟨⟨Nat.le_refl _, rfl, ?_, initial_frameAt hV _⟩, rfl, rfl⟩
    have ham := winv_actMap g2.winv _ (by rw [st2]; exact List.mem_cons_self)
    have hcnt : 0 ≤ cnt := ham.2
    refine callee_frameOK (params := []) (vals := []) (hV.nodup _ (Nat.le_refl _)) (by rfl) rfl
      (fun _ h => nomatch h) ?_ (actmap_regs hc hV (Nat.le_refl _) ham rfl)
    intro r hr
    have hr' : (r : Int) < cnt := hr
    rw [d2]
    show ([] ++ List.replicate cnt.toNat (0 : Int))[0 + r]? = _
    rw [List.nil_append, List.getElem?_replicate, if_pos (by omega)]
    rfl
  · intro fr rest h
    cases h
    exact fun ⟨_, _, h⟩ => nomatch h

/-- the simulation along the reference execution, with an upper bound of the VM instructions -/
theorem sim_iter_upper (hsk : SkipsN p.code src.progs.length 1 (V.start src.progs.length)) : ∀ n,
    ((iter src n (initial src)).status = .running →
      ∃ m vm, Steps (VM.mk' p) m vm ∧ Match V c R (iter src n (initial src)) vm ∧
        m + (S + 1) * cred (iter src n (initial src)) ≤ (S + 1) * (4 * n + (src.progs.length + 1))) ∧
    ((iter src n (initial src)).status = .halted →
      ∃ m vm, Steps (VM.mk' p) m vm ∧ Final (p := p) (iter src n (initial src)) vm ∧
        m ≤ (S + 1) * (4 * n + (src.progs.length + 2))) := by
  intro n
  induction n with
  | zero =>
    refine ⟨fun _ => ?_, fun h => ?_⟩
    · obtain ⟨vm, ⟨m, _, hm2, hs⟩, hm⟩ := init_match_c hS hc hV hsk
      refine ⟨m, vm, hs, hm, ?_⟩
      have : cred (iter src 0 (initial src)) = 0 := rfl
      rw [this, Nat.mul_zero, Nat.mul_zero, Nat.zero_add, Nat.add_zero]
      exact hm2
    · cases h
  | succ n ih =>
    have e : iter src (n + 1) (initial src) = Sem.step src (iter src n (initial src)) := rfl
    by_cases hr : (iter src n (initial src)).status = .running
    · obtain ⟨m, vm, hs, hm, hle⟩ := ih.1 hr
      have hres := sim_step_c hS hc hV hm
      have hcc := cost_credit src hr
      rw [← e] at hres hcc
      have e4 : (S + 1) * (4 * (n + 1) + (src.progs.length + 1)) =
          (S + 1) * (4 * n + (src.progs.length + 1)) + (S + 1) * 4 := by
        rw [← Nat.mul_add]
        congr 1
        omega
      refine ⟨fun h => ?_, fun h => ?_⟩
      · cases hres with
        | run vm' _ hs' hm' =>
          obtain ⟨j, _, hj, hsj⟩ := hs'
          refine ⟨m + j, vm', hs.trans hsj, hm', ?_⟩
          have h1 := Nat.mul_le_mul_left (S + 1) hcc
          rw [Nat.mul_add, Nat.mul_add] at h1
          omega
        | halt vm' hh _ _ => rw [hh] at h; cases h
      · cases hres with
        | run vm' hh _ _ => rw [hh] at h; cases h
        | halt vm' _ hs' hf =>
          obtain ⟨j, hj, hsj⟩ := hs'
          refine ⟨m + j, vm', hs.trans hsj, hf, ?_⟩
          have e5 : (S + 1) * (4 * (n + 1) + (src.progs.length + 2)) =
              (S + 1) * (4 * n + (src.progs.length + 1)) + (S + 1) * 5 := by
            rw [← Nat.mul_add]
            congr 1
            omega
          omega
    · rw [e, step_fixed src _ hr]
      refine ⟨fun h => absurd h hr, fun h => ?_⟩
      obtain ⟨m, vm, hs, hf, hle⟩ := ih.2 h
      refine ⟨m, vm, hs, hf, Nat.le_trans hle (Nat.mul_le_mul_left _ (by omega))⟩

/-- a halting reference execution of `n` steps: the VM reaches `HALT` within
    `(S + 1) * (4 * n + L + 2)` instructions, with agreeing variables -/
theorem halts_sim_upper (hsk : SkipsN p.code src.progs.length 1 (V.start src.progs.length))
    {n : Nat} (hh : (iter src n (initial src)).status = .halted) :
    ∃ m vm, m ≤ (S + 1) * (4 * n + (src.progs.length + 2)) ∧ runFrom (VM.mk' p) m = .ok vm ∧
      vm.isDone = .ok true ∧ StacksAgree' p vm.data (iter src n (initial src)).stack vm.stack := by
  obtain ⟨m, vm, hs, ⟨hd, hag⟩, hle⟩ := (sim_iter_upper hS hc hV hsk n).2 hh
  exact ⟨m, vm, hle, hs.run.1, hd, hag⟩

end

/-- the validated layout, with the counted prologue -/
theorem valid_of_shapeCheck_skipsN {src : Source} {p : Program} (h : shapeCheck src p = true) :
    ∃ V : Valid src p, V.OK ∧ SkipsN p.code src.progs.length 1 (V.start src.progs.length) := by
  obtain ⟨V, hV, hchk, _⟩ := valid_of_shapeCheck_strong h
  exact ⟨V, hV, checkProgs_skipsN p src _ _ _ _ _ _ hchk⟩

/-! ### a computable bound of the runs of sites -/

/-- the longest run of consecutive breakpoint sites in the code -/
def maxSiteRun (code : List Instr) : Nat :=
  (List.range code.length).foldr (fun pc a => max (skipc code pc - pc) a) 0

theorem foldr_max_ge (f : Nat → Nat) : ∀ (l : List Nat) (x : Nat), x ∈ l →
    f x ≤ l.foldr (fun pc a => max (f pc) a) 0
  | [], _, h => nomatch h
  | y :: l, x, h => by
    simp only [List.foldr]
    rcases List.mem_cons.1 h with rfl | h
    · exact Nat.le_max_left _ _
    · exact Nat.le_trans (foldr_max_ge f l x h) (Nat.le_max_right _ _)

theorem siteBound_maxSiteRun (code : List Instr) : SiteBound code (maxSiteRun code) := by
  intro pc
  by_cases hpc : pc < code.length
  · have h : skipc code pc - pc ≤ maxSiteRun code :=
      foldr_max_ge (fun pc => skipc code pc - pc) (List.range code.length) pc
        (List.mem_range.2 hpc)
    omega
  · have : skipc code pc = pc :=
      skipc_of_not_pb (by rw [List.getElem?_eq_none (by omega)]; simp)
    omega

end Sim
end Theo
