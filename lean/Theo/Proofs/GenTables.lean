/-
  Invariant of the generator state behind C08: preserved by `breakpoint`, `emit`,
  `removeTopPotBreak`, `backpatch` (the only functions touching code and tables).
-/
import Theo.Model.Gen
import Theo.Spec.VMSpec
import Theo.Proofs.VMInvA

namespace Theo

/-! ### `BreakPoint.lt` is a strict total order -/

theorem bytesLt_irrefl : ∀ a : Bytes, bytesLt a a = false := by
  intro a
  induction a with
  | nil => rfl
  | cons x xs ih => simp [bytesLt, ih, UInt8.lt_irrefl]

theorem bytesLt_trans : ∀ a b c : Bytes,
    bytesLt a b = true → bytesLt b c = true → bytesLt a c = true := by
  intro a
  induction a with
  | nil =>
    intro b c h1 h2
    cases b with
    | nil => simp [bytesLt] at h1
    | cons y ys =>
      cases c with
      | nil => simp [bytesLt] at h2
      | cons z zs => simp [bytesLt]
  | cons x xs ih =>
    intro b c h1 h2
    cases b with
    | nil => simp [bytesLt] at h1
    | cons y ys =>
      cases c with
      | nil => simp [bytesLt] at h2
      | cons z zs =>
        simp only [bytesLt] at h1 h2 ⊢
        by_cases hxy : x < y
        · by_cases hyz : y < z
          · rw [if_pos (UInt8.lt_trans hxy hyz)]
          · rw [if_neg hyz] at h2
            by_cases hzy : z < y
            · rw [if_pos hzy] at h2; cases h2
            · have e : y = z := UInt8.le_antisymm (UInt8.not_lt.1 hzy) (UInt8.not_lt.1 hyz)
              subst e
              rw [if_pos hxy]
        · rw [if_neg hxy] at h1
          by_cases hyx : y < x
          · rw [if_pos hyx] at h1; cases h1
          · rw [if_neg hyx] at h1
            have e : x = y := UInt8.le_antisymm (UInt8.not_lt.1 hyx) (UInt8.not_lt.1 hxy)
            subst e
            by_cases hxz : x < z
            · rw [if_pos hxz]
            · rw [if_neg hxz] at h2 ⊢
              by_cases hzx : z < x
              · rw [if_pos hzx] at h2; cases h2
              · rw [if_neg hzx] at h2 ⊢
                exact ih _ _ h1 h2

theorem BreakPoint.lt_iff (a b : BreakPoint) :
    a.lt b = true ↔ bytesLt a.file b.file = true ∨ (a.file = b.file ∧ a.line < b.line) := by
  unfold BreakPoint.lt
  constructor
  · intro h
    by_cases h1 : bytesLt a.file b.file = true
    · exact Or.inl h1
    · rw [if_neg h1] at h
      by_cases h2 : bytesLt b.file a.file = true
      · rw [if_pos h2] at h; cases h
      · rw [if_neg h2] at h
        right
        exact ⟨bytesLt_tri _ _ (by simpa using h1) (by simpa using h2), by simpa using h⟩
  · rintro (h | ⟨hf, hl⟩)
    · rw [if_pos h]
    · rw [hf, bytesLt_irrefl]
      simpa using hl

theorem BreakPoint.lt_irrefl (a : BreakPoint) : a.lt a = false := by
  cases h : a.lt a
  · rfl
  · rw [BreakPoint.lt_iff, bytesLt_irrefl] at h
    rcases h with h | ⟨_, h⟩
    · cases h
    · omega

theorem BreakPoint.lt_trans (a b c : BreakPoint) (h1 : a.lt b = true) (h2 : b.lt c = true) :
    a.lt c = true := by
  rw [BreakPoint.lt_iff] at h1 h2 ⊢
  rcases h1 with h1 | ⟨f1, l1⟩
  · rcases h2 with h2 | ⟨f2, l2⟩
    · exact Or.inl (bytesLt_trans _ _ _ h1 h2)
    · rw [← f2]; exact Or.inl h1
  · rcases h2 with h2 | ⟨f2, l2⟩
    · rw [f1]; exact Or.inl h2
    · right; exact ⟨f1.trans f2, by omega⟩

/-! ### keyed sorted lists -/

/-- keys strictly increasing w.r.t. `BreakPoint.lt` -/
abbrev PbSorted (l : List (BreakPoint × List Int)) : Prop :=
  l.Pairwise (fun a b => a.1.lt b.1 = true)

abbrev LiSorted (l : List (Int × BreakPoint)) : Prop :=
  l.Pairwise (fun a b => a.1 < b.1)

theorem PbSorted.unique {l : List (BreakPoint × List Int)} (h : PbSorted l)
    {k : BreakPoint} {v w : List Int} (hv : (k, v) ∈ l) (hw : (k, w) ∈ l) : v = w := by
  induction l with
  | nil => cases hv
  | cons y ys ih =>
    replace h := List.pairwise_cons.1 h
    rcases List.mem_cons.1 hv with e1 | hv'
    · rcases List.mem_cons.1 hw with e2 | hw'
      · rw [← e2] at e1; exact (Prod.mk.inj e1).2
      · have := h.1 _ hw'
        rw [← e1] at this
        simp [BreakPoint.lt_irrefl] at this
    · rcases List.mem_cons.1 hw with e2 | hw'
      · have := h.1 _ hv'
        rw [← e2] at this
        simp [BreakPoint.lt_irrefl] at this
      · exact ih h.2 hv' hw'

theorem LiSorted.unique {l : List (Int × BreakPoint)} (h : LiSorted l)
    {k : Int} {v w : BreakPoint} (hv : (k, v) ∈ l) (hw : (k, w) ∈ l) : v = w := by
  induction l with
  | nil => cases hv
  | cons y ys ih =>
    replace h := List.pairwise_cons.1 h
    rcases List.mem_cons.1 hv with e1 | hv'
    · rcases List.mem_cons.1 hw with e2 | hw'
      · rw [← e2] at e1; exact (Prod.mk.inj e1).2
      · have := h.1 _ hw'
        rw [← e1] at this
        simp at this
    · rcases List.mem_cons.1 hw with e2 | hw'
      · have := h.1 _ hv'
        rw [← e2] at this
        simp at this
      · exact ih h.2 hv' hw'

/-- `find?` by key returns an element of the list with that key -/
theorem find_key_some {α β} [DecidableEq α] {l : List (α × β)} {k : α} {e : α × β}
    (h : l.find? (fun e => e.1 = k) = some e) : e ∈ l ∧ e.1 = k := by
  have h1 := List.mem_of_find?_eq_some h
  have h2 := List.find?_some h
  exact ⟨h1, by simpa using h2⟩

theorem find_key_none {α β} [DecidableEq α] {l : List (α × β)} {k : α}
    (h : l.find? (fun e => e.1 = k) = none) : ∀ e ∈ l, e.1 ≠ k := by
  intro e he
  have := List.find?_eq_none.1 h e he
  simpa using this

/-- the site list of a location as read by `breakpoint` -/
def sitesAt (pb : List (BreakPoint × List Int)) (bp : BreakPoint) : List Int :=
  ((pb.find? (fun e => e.1 = bp)).map (·.2)).getD []

theorem mem_sitesAt {pb : List (BreakPoint × List Int)} (h : PbSorted pb) (bp : BreakPoint) (i : Int) :
    i ∈ sitesAt pb bp ↔ ∃ s, (bp, s) ∈ pb ∧ i ∈ s := by
  unfold sitesAt
  cases hf : pb.find? (fun e => e.1 = bp) with
  | none =>
    simp only [Option.map_none, Option.getD_none, List.not_mem_nil, false_iff]
    rintro ⟨s, hs, _⟩
    exact find_key_none hf _ hs rfl
  | some e =>
    obtain ⟨he, hk⟩ := find_key_some hf
    obtain ⟨k, v⟩ := e
    simp only at hk
    subst hk
    simp only [Option.map_some, Option.getD_some]
    constructor
    · intro hi; exact ⟨v, he, hi⟩
    · rintro ⟨s, hs, hi⟩
      rw [h.unique he hs]; exact hi

theorem sitesAt_eq {pb : List (BreakPoint × List Int)} (h : PbSorted pb) {bp : BreakPoint}
    {s : List Int} (hs : (bp, s) ∈ pb) : sitesAt pb bp = s := by
  unfold sitesAt
  cases hf : pb.find? (fun e => e.1 = bp) with
  | none => exact absurd rfl (find_key_none hf _ hs)
  | some e =>
    obtain ⟨he, hk⟩ := find_key_some hf
    obtain ⟨k, v⟩ := e
    simp only at hk
    subst hk
    simp only [Option.map_some, Option.getD_some]
    exact h.unique he hs

theorem sitesAt_nil_of_no_key {pb : List (BreakPoint × List Int)} {bp : BreakPoint}
    (h : ∀ e ∈ pb, e.1 ≠ bp) : sitesAt pb bp = [] := by
  unfold sitesAt
  cases hf : pb.find? (fun e => e.1 = bp) with
  | none => rfl
  | some e => exact absurd (find_key_some hf).2 (h _ (find_key_some hf).1)

/-- membership after replace-or-insert by key -/
theorem mem_insert_bp (bp : BreakPoint) (v : List Int) :
    ∀ l : List (BreakPoint × List Int), PbSorted l →
    ∀ e, e ∈ sortedInsert GS.bpLt true (bp, v) l ↔ (e = (bp, v) ∨ (e ∈ l ∧ e.1 ≠ bp)) := by
  intro l
  induction l with
  | nil => intro _ e; simp [sortedInsert]
  | cons y ys ih =>
    intro hp e
    obtain ⟨hy, hys⟩ := List.pairwise_cons.1 hp
    unfold sortedInsert
    by_cases h1 : GS.bpLt (bp, v) y = true
    · rw [if_pos h1]
      have hne : ∀ z ∈ y :: ys, z.1 ≠ bp := by
        intro z hz heq
        have hlt : bp.lt z.1 = true := by
          rcases List.mem_cons.1 hz with rfl | hz
          · exact h1
          · exact BreakPoint.lt_trans _ _ _ h1 (hy z hz)
        rw [heq, BreakPoint.lt_irrefl] at hlt
        cases hlt
      constructor
      · intro h
        rcases List.mem_cons.1 h with rfl | h
        · left; rfl
        · right; exact ⟨h, hne _ h⟩
      · rintro (rfl | ⟨h, _⟩)
        · exact List.mem_cons_self
        · exact List.mem_cons_of_mem _ h
    · rw [if_neg h1]
      by_cases h2 : GS.bpLt y (bp, v) = true
      · rw [if_pos h2]
        have hyne : y.1 ≠ bp := by
          intro heq
          have h2' : y.1.lt bp = true := h2
          rw [heq, BreakPoint.lt_irrefl] at h2'
          cases h2'
        simp only [List.mem_cons, ih hys e]
        constructor
        · rintro (rfl | h | ⟨h, hk⟩)
          · exact Or.inr ⟨Or.inl rfl, hyne⟩
          · exact Or.inl h
          · exact Or.inr ⟨Or.inr h, hk⟩
        · rintro (h | ⟨rfl | h, hk⟩)
          · exact Or.inr (Or.inl h)
          · exact Or.inl rfl
          · exact Or.inr (Or.inr ⟨h, hk⟩)
      · rw [if_neg h2]
        simp only [if_true]
        have hyk : y.1 = bp :=
          (BreakPoint.lt_tri bp y.1 (by simpa [GS.bpLt] using h1) (by simpa [GS.bpLt] using h2)).symm
        have hne : ∀ z ∈ ys, z.1 ≠ bp := by
          intro z hz heq
          have := hy z hz
          rw [hyk, heq, BreakPoint.lt_irrefl] at this
          cases this
        simp only [List.mem_cons]
        constructor
        · rintro (h | h)
          · exact Or.inl h
          · exact Or.inr ⟨Or.inr h, hne _ h⟩
        · rintro (h | ⟨rfl | h, hk⟩)
          · exact Or.inl h
          · exact absurd hyk hk
          · exact Or.inr h

theorem sorted_insert_bp (bp : BreakPoint) (v : List Int) :
    ∀ l : List (BreakPoint × List Int), PbSorted l →
    PbSorted (sortedInsert GS.bpLt true (bp, v) l) := by
  intro l
  induction l with
  | nil => intro _; simp [sortedInsert]
  | cons y ys ih =>
    intro hp
    have hp' := hp
    obtain ⟨hy, hys⟩ := List.pairwise_cons.1 hp
    unfold sortedInsert
    by_cases h1 : GS.bpLt (bp, v) y = true
    · rw [if_pos h1]
      refine List.pairwise_cons.2 ⟨?_, hp'⟩
      intro z hz
      rcases List.mem_cons.1 hz with rfl | hz
      · exact h1
      · exact BreakPoint.lt_trans _ _ _ h1 (hy z hz)
    · rw [if_neg h1]
      by_cases h2 : GS.bpLt y (bp, v) = true
      · rw [if_pos h2]
        refine List.pairwise_cons.2 ⟨?_, ih hys⟩
        intro z hz
        rcases (mem_insert_bp bp v ys hys z).1 hz with rfl | ⟨hz, _⟩
        · exact h2
        · exact hy z hz
      · rw [if_neg h2]
        simp only [if_true]
        have hyk : y.1 = bp :=
          (BreakPoint.lt_tri bp y.1 (by simpa [GS.bpLt] using h1) (by simpa [GS.bpLt] using h2)).symm
        refine List.pairwise_cons.2 ⟨?_, hys⟩
        intro z hz
        have := hy z hz
        rw [hyk] at this
        exact this

/-- inserting a key larger than all keys appends -/
theorem insert_li_append (pos : Int) (bp : BreakPoint) :
    ∀ l : List (Int × BreakPoint), (∀ e ∈ l, e.1 < pos) →
    sortedInsert GS.liLt true (pos, bp) l = l ++ [(pos, bp)] := by
  intro l
  induction l with
  | nil => intro _; rfl
  | cons y ys ih =>
    intro h
    have hy : y.1 < pos := h y List.mem_cons_self
    unfold sortedInsert
    have h1 : ¬ (GS.liLt (pos, bp) y = true) := by simp [GS.liLt]; omega
    have h2 : GS.liLt y (pos, bp) = true := by simp [GS.liLt]; omega
    rw [if_neg h1, if_pos h2, ih (fun e he => h e (List.mem_cons_of_mem _ he))]
    rfl

/-! ### the invariant on code and tables -/

structure TI (P : BreakPoint → Prop) (code : List Instr) (li : List (Int × BreakPoint))
    (pb : List (BreakPoint × List Int)) : Prop where
  liS : LiSorted li
  pbS : PbSorted pb
  inv : ∀ bp i, (∃ s, (bp, s) ∈ pb ∧ i ∈ s) ↔ (i, bp) ∈ li
  site : ∀ i : Nat, (∃ bp, ((i : Int), bp) ∈ li) ↔ code[i]? = some Instr.potBreak
  rng : ∀ e ∈ li, 0 ≤ e.1 ∧ e.1 < code.length
  nd : ∀ e ∈ pb, e.2.Nodup ∧ e.2 ≠ []
  nobrk : Instr.brk ∉ code
  nostd : ∀ e ∈ pb, e.1.file ≠ ConstGen.genStdFileName
  real : ∀ e ∈ pb, P e.1

theorem TI.empty (P : BreakPoint → Prop) (code : List Instr)
    (h1 : Instr.potBreak ∉ code) (h2 : Instr.brk ∉ code) : TI P code [] [] where
  liS := List.Pairwise.nil
  pbS := List.Pairwise.nil
  inv := by simp
  site := by
    intro i
    simp only [List.not_mem_nil, exists_false, false_iff]
    intro h
    exact h1 (List.mem_iff_getElem?.2 ⟨i, h⟩)
  rng := by simp
  nd := by simp
  nobrk := h2
  nostd := by simp
  real := by simp

theorem TI.append {P : BreakPoint → Prop} {code li pb} (h : TI P code li pb) {i : Instr}
    (h1 : i ≠ Instr.potBreak) (h2 : i ≠ Instr.brk) : TI P (code ++ [i]) li pb where
  liS := h.liS
  pbS := h.pbS
  inv := h.inv
  site := by
    intro j
    rw [h.site j]
    by_cases hj : j < code.length
    · rw [List.getElem?_append_left hj]
    · have hj' : code.length ≤ j := by omega
      rw [List.getElem?_append_right hj', List.getElem?_eq_none hj', List.getElem?_singleton]
      constructor
      · intro h; cases h
      · intro h
        split at h
        · exact absurd (Option.some.inj h) h1
        · cases h
  rng := by
    intro e he
    have := h.rng e he
    simp only [List.length_append, List.length_singleton]
    omega
  nd := h.nd
  nobrk := by
    intro hm
    rcases List.mem_append.1 hm with hm | hm
    · exact h.nobrk hm
    · exact h2 (List.mem_singleton.1 hm).symm
  nostd := h.nostd
  real := h.real

theorem TI.set {P : BreakPoint → Prop} {code li pb} (h : TI P code li pb) {loc : Nat}
    {old new : Instr} (ho : code[loc]? = some old) (h0 : old ≠ Instr.potBreak)
    (h1 : new ≠ Instr.potBreak) (h2 : new ≠ Instr.brk) : TI P (code.set loc new) li pb where
  liS := h.liS
  pbS := h.pbS
  inv := h.inv
  site := by
    intro j
    rw [h.site j, List.getElem?_set]
    by_cases hj : loc = j
    · subst hj
      rw [if_pos rfl, ho]
      constructor
      · intro h; exact absurd (Option.some.inj h) h0
      · intro h
        split at h
        · exact absurd (Option.some.inj h) h1
        · cases h
    · rw [if_neg hj]
  rng := by
    intro e he
    rw [List.length_set]
    exact h.rng e he
  nd := h.nd
  nobrk := by
    intro hm
    rcases List.mem_or_eq_of_mem_set hm with hm | hm
    · exact h.nobrk hm
    · exact h2 hm.symm
  nostd := h.nostd
  real := h.real

theorem TI.bp {P : BreakPoint → Prop} {code li pb} (h : TI P code li pb) (bp : BreakPoint)
    (hf : bp.file ≠ ConstGen.genStdFileName) (hP : P bp) :
    TI P (code ++ [Instr.potBreak])
      (sortedInsert GS.liLt true ((code.length : Int), bp) li)
      (sortedInsert GS.bpLt true (bp, sitesAt pb bp ++ [(code.length : Int)]) pb) := by
  rw [insert_li_append _ _ _ (fun e he => (h.rng e he).2)]
  have hmem := mem_insert_bp bp (sitesAt pb bp ++ [(code.length : Int)]) pb h.pbS
  have hsA := mem_sitesAt h.pbS bp
  refine
    { liS := ?_, pbS := sorted_insert_bp _ _ _ h.pbS, inv := ?_, site := ?_, rng := ?_, nd := ?_,
      nobrk := ?_, nostd := ?_, real := ?_ }
  · refine List.pairwise_append.2 ⟨h.liS, List.pairwise_singleton _ _, ?_⟩
    intro a ha b hb
    rw [List.mem_singleton.1 hb]
    exact (h.rng a ha).2
  · intro bp' i
    simp only [hmem, List.mem_append, List.mem_singleton]
    constructor
    · rintro ⟨s, (he | ⟨hs, hk⟩), hi⟩
      · obtain ⟨rfl, rfl⟩ := Prod.mk.inj he
        rcases List.mem_append.1 hi with hi | hi
        · left
          obtain ⟨s0, hs0, hi0⟩ := (hsA i).1 hi
          exact (h.inv _ _).1 ⟨s0, hs0, hi0⟩
        · right
          rw [List.mem_singleton.1 hi]
      · left
        exact (h.inv _ _).1 ⟨s, hs, hi⟩
    · rintro (hi | he)
      · obtain ⟨s, hs, his⟩ := (h.inv _ _).2 hi
        by_cases hk : bp' = bp
        · subst hk
          refine ⟨_, Or.inl rfl, ?_⟩
          exact List.mem_append_left _ ((hsA i).2 ⟨s, hs, his⟩)
        · exact ⟨s, Or.inr ⟨hs, hk⟩, his⟩
      · obtain ⟨rfl, rfl⟩ := Prod.mk.inj he
        exact ⟨_, Or.inl rfl, List.mem_append_right _ (List.mem_singleton.2 rfl)⟩
  · intro j
    simp only [List.mem_append, List.mem_singleton]
    by_cases hj : j < code.length
    · rw [List.getElem?_append_left hj, ← h.site j]
      constructor
      · rintro ⟨b, (hb | hb)⟩
        · exact ⟨b, hb⟩
        · have := (Prod.mk.inj hb).1
          omega
      · rintro ⟨b, hb⟩
        exact ⟨b, Or.inl hb⟩
    · have hj' : code.length ≤ j := by omega
      rw [List.getElem?_append_right hj', List.getElem?_singleton]
      constructor
      · rintro ⟨b, (hb | hb)⟩
        · have := (h.rng _ hb).2
          simp only at this
          omega
        · have := (Prod.mk.inj hb).1
          rw [if_pos (by omega)]
      · intro hh
        split at hh
        · refine ⟨bp, Or.inr ?_⟩
          have : j = code.length := by omega
          rw [this]
        · cases hh
  · intro e he
    simp only [List.length_append, List.length_singleton]
    rcases List.mem_append.1 he with he | he
    · have := h.rng e he
      omega
    · rw [List.mem_singleton.1 he]
      simp only
      omega
  · intro e he
    rcases (hmem e).1 he with rfl | ⟨he, _⟩
    · simp only
      refine ⟨?_, by simp⟩
      refine List.nodup_append.2 ⟨?_, List.pairwise_singleton _ _, ?_⟩
      · by_cases hk : ∃ s, (bp, s) ∈ pb
        · obtain ⟨s, hs⟩ := hk
          rw [sitesAt_eq h.pbS hs]
          exact (h.nd _ hs).1
        · rw [sitesAt_nil_of_no_key]
          · exact List.nodup_nil
          · intro e he hk'
            exact hk ⟨e.2, by rw [← hk']; exact he⟩
      · intro a ha b hb hab
        rw [List.mem_singleton.1 hb] at hab
        subst hab
        obtain ⟨s, hs, hi⟩ := (hsA _).1 ha
        have := (h.rng _ ((h.inv _ _).1 ⟨s, hs, hi⟩)).2
        simp only at this
        omega
    · exact h.nd e he
  · intro hm
    rcases List.mem_append.1 hm with hm | hm
    · exact h.nobrk hm
    · cases List.mem_singleton.1 hm
  · intro e he
    rcases (hmem e).1 he with rfl | ⟨he, _⟩
    · exact hf
    · exact h.nostd e he
  · intro e he
    rcases (hmem e).1 he with rfl | ⟨he, _⟩
    · exact hP
    · exact h.real e he

/-- the per-entry update of `removeTopPotBreak` -/
def rmF (pos : Int) (bp : BreakPoint) (e : BreakPoint × List Int) : Option (BreakPoint × List Int) :=
  if e.1 = bp then
    let s := e.2.filter (· ≠ pos)
    if s.isEmpty then none else some (e.1, s)
  else some e

theorem rmF_some {pos : Int} {bp : BreakPoint} {e e' : BreakPoint × List Int}
    (h : rmF pos bp e = some e') :
    e'.1 = e.1 ∧ ((e.1 = bp ∧ e'.2 = e.2.filter (· ≠ pos) ∧ e'.2 ≠ []) ∨ (e.1 ≠ bp ∧ e' = e)) := by
  unfold rmF at h
  by_cases hk : e.1 = bp
  · rw [if_pos hk] at h
    simp only at h
    split at h
    · cases h
    · rename_i hne
      have := Option.some.inj h
      subst this
      refine ⟨rfl, Or.inl ⟨hk, rfl, ?_⟩⟩
      simpa using hne
  · rw [if_neg hk] at h
    have := Option.some.inj h
    subst this
    exact ⟨rfl, Or.inr ⟨hk, rfl⟩⟩

theorem TI.remove {P : BreakPoint → Prop} {d li pb} (h : TI P (d ++ [Instr.potBreak]) li pb)
    (bp : BreakPoint) (hb : ((d.length : Int), bp) ∈ li) :
    TI P d (li.filter (fun e => e.1 ≠ (d.length : Int))) (pb.filterMap (rmF (d.length : Int) bp)) := by
  have hmf : ∀ e : Int × BreakPoint,
      e ∈ li.filter (fun e => e.1 ≠ (d.length : Int)) ↔ e ∈ li ∧ e.1 ≠ (d.length : Int) := by
    intro e; simp [List.mem_filter]
  refine
    { liS := List.Pairwise.filter _ h.liS, pbS := ?_, inv := ?_, site := ?_, rng := ?_, nd := ?_,
      nobrk := ?_, nostd := ?_, real := ?_ }
  · refine List.Pairwise.filterMap _ ?_ h.pbS
    intro a a' haa b hb b' hb'
    rw [(rmF_some hb).1, (rmF_some hb').1]
    exact haa
  · intro bp' i
    rw [hmf]
    simp only [List.mem_filterMap]
    constructor
    · rintro ⟨s, ⟨e, he, hfe⟩, hi⟩
      obtain ⟨hk, hc⟩ := rmF_some hfe
      simp only at hk
      rcases hc with ⟨hkb, hs, _⟩ | ⟨hkb, hee⟩
      · simp only at hs
        rw [hs, List.mem_filter] at hi
        refine ⟨(h.inv _ _).1 ⟨e.2, ?_, hi.1⟩, by simpa using hi.2⟩
        rw [hk]; exact he
      · subst hee
        have hin := (h.inv _ _).1 ⟨s, he, hi⟩
        refine ⟨hin, ?_⟩
        intro hpos
        subst hpos
        exact hkb (h.liS.unique hin hb)
    · rintro ⟨hin, hne⟩
      obtain ⟨s, hs, his⟩ := (h.inv _ _).2 hin
      by_cases hk : bp' = bp
      · subst hk
        have hmem : i ∈ s.filter (· ≠ (d.length : Int)) := by
          rw [List.mem_filter]; exact ⟨his, by simpa using hne⟩
        refine ⟨s.filter (· ≠ (d.length : Int)), ⟨(bp', s), hs, ?_⟩, hmem⟩
        unfold rmF
        rw [if_pos rfl]
        simp only
        rw [if_neg]
        intro hemp
        rw [List.isEmpty_iff] at hemp
        rw [hemp] at hmem
        cases hmem
      · refine ⟨s, ⟨(bp', s), hs, ?_⟩, his⟩
        unfold rmF
        rw [if_neg hk]
  · intro j
    simp only [hmf]
    constructor
    · rintro ⟨b, hbj, hne⟩
      have hs := (h.site j).1 ⟨b, hbj⟩
      have hlt : j < d.length := by
        have := (h.rng _ hbj).2
        simp only [List.length_append, List.length_singleton] at this
        omega
      rwa [List.getElem?_append_left hlt] at hs
    · intro hs
      have hlt : j < d.length := by
        obtain ⟨hlt, _⟩ := List.getElem?_eq_some_iff.1 hs
        exact hlt
      rw [← List.getElem?_append_left (l₂ := [Instr.potBreak]) hlt] at hs
      obtain ⟨b, hbj⟩ := (h.site j).2 hs
      refine ⟨b, hbj, ?_⟩
      omega
  · intro e he
    obtain ⟨he, hne⟩ := (hmf e).1 he
    have := h.rng e he
    simp only [List.length_append, List.length_singleton] at this
    omega
  · intro e' he'
    obtain ⟨e, he, hfe⟩ := List.mem_filterMap.1 he'
    obtain ⟨hk, hc⟩ := rmF_some hfe
    rcases hc with ⟨_, hs, hne⟩ | ⟨_, hee⟩
    · refine ⟨?_, hne⟩
      rw [hs]
      exact List.Pairwise.filter _ (h.nd e he).1
    · rw [hee]; exact h.nd e he
  · intro hm
    exact h.nobrk (List.mem_append_left _ hm)
  · intro e' he'
    obtain ⟨e, he, hfe⟩ := List.mem_filterMap.1 he'
    rw [(rmF_some hfe).1]
    exact h.nostd e he
  · intro e' he'
    obtain ⟨e, he, hfe⟩ := List.mem_filterMap.1 he'
    rw [(rmF_some hfe).1]
    exact h.real e he

/-! ### the invariant on generator states -/

def TInv (P : BreakPoint → Prop) (gs : GS) : Prop :=
  TI P gs.code gs.lineInfo gs.potBreaks ∧ gs.fsName ≠ ConstGen.genStdFileName

/-- `b` has the same code, tables and current file as `a` -/
def Same (a b : GS) : Prop :=
  b.code = a.code ∧ b.lineInfo = a.lineInfo ∧ b.potBreaks = a.potBreaks ∧ b.fsName = a.fsName

theorem Same.refl (a : GS) : Same a a := ⟨rfl, rfl, rfl, rfl⟩

theorem Same.trans {a b c : GS} (h1 : Same a b) (h2 : Same b c) : Same a c :=
  ⟨h2.1.trans h1.1, h2.2.1.trans h1.2.1, h2.2.2.1.trans h1.2.2.1, h2.2.2.2.trans h1.2.2.2⟩

theorem Same.foldl {α} (f : GS → α → GS) (hf : ∀ g x, Same g (f g x)) :
    ∀ (l : List α) (g : GS), Same g (l.foldl f g) := by
  intro l
  induction l with
  | nil => intro g; exact Same.refl g
  | cons x xs ih => intro g; exact (hf g x).trans (ih (f g x))

theorem TInv.same {P : BreakPoint → Prop} {a b : GS} (h : TInv P a) (hs : Same a b) : TInv P b := by
  obtain ⟨h1, h2, h3, h4⟩ := hs
  unfold TInv
  rw [h1, h2, h3, h4]
  exact h

theorem TInv.of_fst {P : BreakPoint → Prop} {α} {x : GS × α} {g : GS} {r : α}
    (heq : x = (g, r)) (h : TInv P x.1) : TInv P g := by
  rw [heq] at h; exact h

theorem TInv.foldl {P : BreakPoint → Prop} {α} (f : GS → α → GS)
    (hf : ∀ g x, TInv P g → TInv P (f g x)) :
    ∀ (l : List α) (g : GS), TInv P g → TInv P (l.foldl f g) := by
  intro l
  induction l with
  | nil => intro g h; exact h
  | cons x xs ih => intro g h; exact ih (f g x) (hf g x h)

section Prims
variable {P : BreakPoint → Prop} {gs : GS}

theorem same_err (gs : GS) (k : Nat) : Same gs (gs.err k) := ⟨rfl, rfl, rfl, rfl⟩
theorem same_setTop (gs : GS) (f : FGS) : Same gs (gs.setTop f) := ⟨rfl, rfl, rfl, rfl⟩
theorem same_pushSymbols (gs : GS) (n : Bytes) : Same gs (gs.pushSymbols n) := ⟨rfl, rfl, rfl, rfl⟩
theorem same_releaseTemporary (gs : GS) (i : Int) : Same gs (gs.releaseTemporary i) :=
  ⟨rfl, rfl, rfl, rfl⟩
theorem same_setLabel (gs : GS) (l : Nat) (p : Int) : Same gs (gs.setLabel l p) := ⟨rfl, rfl, rfl, rfl⟩
theorem same_createLabel (gs : GS) : Same gs gs.createLabel.1 := ⟨rfl, rfl, rfl, rfl⟩

theorem same_fetchTemporary (gs : GS) : Same gs gs.fetchTemporary.1 := by
  unfold GS.fetchTemporary
  simp only
  split <;> exact ⟨rfl, rfl, rfl, rfl⟩

theorem same_fetchVar (gs : GS) (n : Bytes) : Same gs (gs.fetchVar n).1 := by
  unfold GS.fetchVar
  simp only
  split <;> exact ⟨rfl, rfl, rfl, rfl⟩

theorem same_markLabel (gs : GS) (n : Bytes) : Same gs (gs.markLabel n).1 := by
  unfold GS.markLabel
  split <;> exact ⟨rfl, rfl, rfl, rfl⟩

theorem same_genStrToInt (gs : GS) (tok : Bytes) : Same gs (genStrToInt gs tok).1 := by
  unfold genStrToInt
  simp only
  split
  · exact same_err _ _
  · exact Same.refl _

theorem same_popSymbols (gs : GS) (addr : Int) : Same gs (gs.popSymbols addr) := by
  unfold GS.popSymbols
  simp only
  refine Same.trans (Same.foldl _ ?_ _ gs) ⟨rfl, rfl, rfl, rfl⟩
  intro g e
  split
  · exact same_err _ _
  · exact Same.refl _

theorem TInv.err (h : TInv P gs) (k : Nat) : TInv P (gs.err k) := h.same (same_err _ _)
theorem TInv.setTop (h : TInv P gs) (f : FGS) : TInv P (gs.setTop f) := h.same (same_setTop _ _)
theorem TInv.pushSymbols (h : TInv P gs) (n : Bytes) : TInv P (gs.pushSymbols n) :=
  h.same (same_pushSymbols _ _)
theorem TInv.releaseTemporary (h : TInv P gs) (i : Int) : TInv P (gs.releaseTemporary i) :=
  h.same (same_releaseTemporary _ _)
theorem TInv.setLabel (h : TInv P gs) (l : Nat) (p : Int) : TInv P (gs.setLabel l p) :=
  h.same (same_setLabel _ _ _)
theorem TInv.createLabel (h : TInv P gs) : TInv P gs.createLabel.1 := h.same (same_createLabel _)
theorem TInv.fetchTemporary (h : TInv P gs) : TInv P gs.fetchTemporary.1 :=
  h.same (same_fetchTemporary _)
theorem TInv.fetchVar (h : TInv P gs) (n : Bytes) : TInv P (gs.fetchVar n).1 :=
  h.same (same_fetchVar _ _)
theorem TInv.markLabel (h : TInv P gs) (n : Bytes) : TInv P (gs.markLabel n).1 :=
  h.same (same_markLabel _ _)
theorem TInv.genStrToInt (h : TInv P gs) (tok : Bytes) : TInv P (genStrToInt gs tok).1 :=
  h.same (same_genStrToInt _ _)
theorem TInv.popSymbols (h : TInv P gs) (addr : Int) : TInv P (gs.popSymbols addr) :=
  h.same (same_popSymbols _ _)

theorem TInv.emit (h : TInv P gs) {i : Instr} (h1 : i ≠ Instr.potBreak) (h2 : i ≠ Instr.brk) :
    TInv P (gs.emit i) :=
  ⟨h.1.append h1 h2, h.2⟩

theorem TInv.emitBackpatched (h : TInv P gs) {i : Instr} (h1 : i ≠ Instr.potBreak)
    (h2 : i ≠ Instr.brk) : TInv P (gs.emitBackpatched i) :=
  (h.emit h1 h2).same ⟨rfl, rfl, rfl, rfl⟩

theorem TInv.breakpoint (h : TInv P gs) (hP : P ⟨gs.fsName, gs.fsLine⟩) : TInv P gs.breakpoint :=
  ⟨h.1.bp ⟨gs.fsName, gs.fsLine⟩ h.2 hP, h.2⟩

theorem TInv.advanceLine (h : TInv P gs) {line : Int} {file : Bytes} (hP : P ⟨file, line⟩) :
    TInv P (gs.advanceLine line file) := by
  unfold GS.advanceLine
  by_cases hstd : file = ConstGen.genStdFileName
  · rw [if_pos hstd]; exact h
  · rw [if_neg hstd]
    have h1 : TInv P (if gs.fsName = file ∧ line ≠ gs.fsLine
        then ({ gs with fsLine := line } : GS).breakpoint else gs) := by
      split
      · rename_i hc
        have h' : TInv P ({ gs with fsLine := line } : GS) := h.same ⟨rfl, rfl, rfl, rfl⟩
        refine h'.breakpoint ?_
        show P ⟨gs.fsName, line⟩
        rw [hc.1]; exact hP
      · exact h
    have key : ∀ g1 : GS, TInv P g1 → TInv P (if g1.fsName ≠ file
        then ({ g1 with fsName := file, fsLine := line } : GS).breakpoint else g1) := by
      intro g1 hg1
      split
      · have h' : TInv P ({ g1 with fsName := file, fsLine := line } : GS) := ⟨hg1.1, hstd⟩
        exact h'.breakpoint hP
      · exact hg1
    exact key _ h1

theorem TInv.removeTopPotBreak (h : TInv P gs) : TInv P gs.removeTopPotBreak := by
  unfold GS.removeTopPotBreak
  split
  · rename_i hl
    have hl' : gs.code.getLast? = some Instr.potBreak := by
      simpa [GS.lastIsSite] using hl
    obtain ⟨d, hd⟩ := List.getLast?_eq_some_iff.1 hl'
    have hpos : gs.nextPos - 1 = (d.length : Int) := by
      simp [GS.nextPos, hd]
    have hdl : gs.code.dropLast = d := by rw [hd, List.dropLast_concat]
    have hti := h.1
    rw [hd] at hti
    obtain ⟨bp, hbp⟩ := (hti.site d.length).2 (by simp)
    have hfind : gs.lineInfo.find? (fun e => e.1 = gs.nextPos - 1) = some ((d.length : Int), bp) := by
      rw [hpos]
      cases hf : gs.lineInfo.find? (fun e => e.1 = (d.length : Int)) with
      | none => exact absurd rfl (find_key_none hf _ hbp)
      | some e =>
        obtain ⟨he, hk⟩ := find_key_some hf
        obtain ⟨k, v⟩ := e
        simp only at hk
        subst hk
        rw [hti.liS.unique he hbp]
    simp only [hfind, Option.map_some]
    refine ⟨?_, h.2⟩
    simp only [hpos, hdl]
    exact hti.remove bp hbp
  · exact h

end Prims

/-! ### the dispatch functions -/

/-- every node position of the tree satisfies `P` -/
def Node.AllPos (P : BreakPoint → Prop) : Node → Prop
  | .nil => True
  | .mk _ _ f l a b => P ⟨f, l⟩ ∧ a.AllPos P ∧ b.AllPos P

theorem Node.AllPos.left {P : BreakPoint → Prop} {n : Node} (h : n.AllPos P) : n.left.AllPos P := by
  cases n with
  | nil => trivial
  | mk _ _ _ _ a b => exact h.2.1

theorem Node.AllPos.right {P : BreakPoint → Prop} {n : Node} (h : n.AllPos P) : n.right.AllPos P := by
  cases n with
  | nil => trivial
  | mk _ _ _ _ a b => exact h.2.2

theorem TInv.argFold {P : BreakPoint → Prop} (l : List (Int × Nat)) (gs : GS) (h : TInv P gs) :
    TInv P (l.foldl (fun g a => (g.emit (.arg a.2 a.1)).releaseTemporary a.1) gs) :=
  TInv.foldl _ (fun g a hg => (hg.emit (by nofun) (by nofun)).releaseTemporary _) l gs h

theorem TInv.loops {P : BreakPoint → Prop} {gs : GS} (h : TInv P gs) (n : Nat) :
    TInv P { gs with loops := n } := h.same ⟨rfl, rfl, rfl, rfl⟩

theorem dispatchArgs_same : ∀ (f : Nat) (gs : GS) (n : Node), Same gs (dispatchArgs f gs n) := by
  intro f
  induction f with
  | zero => intro gs n; unfold dispatchArgs; exact Same.refl _
  | succ f ih =>
    intro gs n
    cases n with
    | nil => unfold dispatchArgs; exact Same.refl _
    | mk t tok file line l r =>
      simp only [dispatchArgs]
      split
      · exact (ih _ _).trans (ih _ _)
      · refine Same.trans ?_ (same_fetchVar _ _)
        split
        · exact ⟨rfl, rfl, rfl, rfl⟩
        · exact ⟨rfl, rfl, rfl, rfl⟩

theorem TInv.dispatchArgs {P : BreakPoint → Prop} {gs : GS} (h : TInv P gs) (f : Nat) (n : Node) :
    TInv P (dispatchArgs f gs n) := h.same (dispatchArgs_same _ _ _)

/-- one backward step through a generator expression -/
macro "tinv_step" : tactic => `(tactic| first | (intro hcontra; cases hcontra; done) | with_reducible first
  | assumption
  | refine TInv.emit ?_ ?_ ?_
  | refine TInv.emitBackpatched ?_ ?_ ?_
  | apply TInv.err
  | apply TInv.setLabel
  | apply TInv.releaseTemporary
  | apply TInv.popSymbols
  | apply TInv.pushSymbols
  | apply TInv.removeTopPotBreak
  | apply TInv.argFold
  | apply TInv.createLabel
  | apply TInv.fetchTemporary
  | apply TInv.fetchVar
  | apply TInv.markLabel
  | apply TInv.genStrToInt
  | apply TInv.dispatchArgs
  | refine TInv.advanceLine ?_ (by assumption)
  | split)

theorem dispatchValue_CallArgs_inv (P : BreakPoint → Prop) : ∀ f : Nat,
    (∀ (gs : GS) (n : Node) (tgt : Int), n.AllPos P → TInv P gs → TInv P (dispatchValue f gs n tgt)) ∧
    (∀ (gs : GS) (n : Node) (acc : List Int), n.AllPos P → TInv P gs →
      TInv P (dispatchCallArgs f gs n acc).1) := by
  intro f
  induction f with
  | zero =>
    constructor
    · intro gs n tgt _ h; unfold dispatchValue; exact h
    · intro gs n acc _ h; unfold dispatchCallArgs; exact h
  | succ f ih =>
    obtain ⟨ihV, ihC⟩ := ih
    constructor
    · intro gs n tgt hn h
      cases n with
      | nil => unfold dispatchValue; exact h
      | mk t tok file line l r =>
        obtain ⟨hp, hl, hr⟩ := hn
        simp only [dispatchValue]
        repeat' (first | tinv_step | (with_reducible apply ihC) | (with_reducible apply ihV))
    · intro gs n acc hn h
      cases n with
      | nil => unfold dispatchCallArgs; exact h
      | mk t tok file line l r =>
        have hself := hn
        obtain ⟨hp, hl, hr⟩ := hn
        simp only [dispatchCallArgs]
        repeat' (first | tinv_step | (with_reducible apply ihC) | (with_reducible apply ihV))

theorem TInv.mk_iff {P : BreakPoint → Prop} (c sm pb li e sy fa la td lo fn fl) :
    TInv P (GS.mk c sm pb li e sy fa la td lo fn fl) ↔ (TI P c li pb ∧ fn ≠ ConstGen.genStdFileName) :=
  Iff.rfl

theorem TInv.dispatchValue {P : BreakPoint → Prop} {gs : GS} (h : TInv P gs) (f : Nat) {n : Node}
    (hn : n.AllPos P) (tgt : Int) : TInv P (dispatchValue f gs n tgt) :=
  (dispatchValue_CallArgs_inv P f).1 gs n tgt hn h

theorem dispatchVoid_inv (P : BreakPoint → Prop) : ∀ (f : Nat) (gs : GS) (n : Node),
    n.AllPos P → TInv P gs → TInv P (dispatchVoid f gs n) := by
  intro f
  induction f with
  | zero => intro gs n _ h; unfold dispatchVoid; exact h
  | succ f ih =>
    intro gs n hn h
    cases n with
    | nil => unfold dispatchVoid; exact h
    | mk t tok file line l r =>
      obtain ⟨hp, hl, hr⟩ := hn
      have hll := hl.left
      have hlr := hl.right
      simp only [dispatchVoid]
      repeat' (first
        | tinv_step
        | (with_reducible apply ih)
        | (with_reducible refine TInv.dispatchValue ?_ _ (by assumption) _)
        | (rw [TInv.mk_iff]; change TInv _ _))

/-! ### backpatching and the root patch -/

section Patch
variable {P : BreakPoint → Prop} {g : GS}

theorem TInv.setCode (h : TInv P g) {loc : Nat} {old new : Instr} (ho : g.code[loc]? = some old)
    (h0 : old ≠ Instr.potBreak) (h1 : new ≠ Instr.potBreak) (h2 : new ≠ Instr.brk) :
    TInv P { g with code := g.code.set loc new } :=
  ⟨h.1.set ho h0 h1 h2, h.2⟩

theorem TInv.ifErr (h : TInv P g) (c : Prop) [Decidable c] (k : Nat) :
    TInv P (if c then g.err k else g) := by
  split
  · exact h.err k
  · exact h

theorem code_ifErr (g : GS) (c : Prop) [Decidable c] (k : Nat) :
    (if c then g.err k else g).code = g.code := by
  split <;> rfl

theorem TInv.backpatchOne (h : TInv P g) (loc : Nat) : TInv P (backpatchOne g loc) := by
  unfold Theo.backpatchOne
  split
  · rename_i lab heq
    exact (h.ifErr _ _).setCode (by rw [code_ifErr]; exact heq) (by nofun) (by nofun) (by nofun)
  · rename_i lab s heq
    exact (h.ifErr _ _).setCode (by rw [code_ifErr]; exact heq) (by nofun) (by nofun) (by nofun)
  · exact h.err _

theorem TInv.backpatch (h : TInv P g) : TInv P (backpatch g) := by
  unfold Theo.backpatch
  refine TInv.foldl _ (fun g x hg => hg.backpatchOne x) _ _ ?_
  exact h.same ⟨rfl, rfl, rfl, rfl⟩

theorem TInv.patchRoot (h : TInv P g) :
    TInv P (match g.lookupFunc bRoot, g.code with
      | some p, .prepare _ _ t :: rest => { g with code := .prepare p.stackSize p.mi t :: rest }
      | _, _ => g) := by
  split
  · rename_i p c i t rest _ hcode
    refine ⟨?_, h.2⟩
    have := h.1.set (loc := 0) (new := Instr.prepare p.stackSize p.mi t)
      (old := Instr.prepare c i t) (by rw [hcode]; rfl) (by nofun) (by nofun) (by nofun)
    rw [hcode] at this
    exact this
  · exact h

end Patch

/-! ### the generator -/

/-- the final generator state of `gen` -/
def genState (a : AST) : GS :=
  let gs : GS := {}
  let gs := gs.emit (.prepare (-1) (-1) 0)
  let gs := gs.pushSymbols bRoot
  let gs :=
    if !a.ok then
      { gs with errors := gs.errors ++ a.errs.map (fun e => ⟨GErrT.PARSE_ERROR, e.file, e.line⟩) }
    else dispatchVoid (nodeSize a.root + 1) gs a.root
  let gs := gs.popSymbols 0
  let gs :=
    match gs.lookupFunc bRoot, gs.code with
    | some p, .prepare _ _ t :: rest => { gs with code := .prepare p.stackSize p.mi t :: rest }
    | _, _ => gs
  let gs := gs.emit .halt
  backpatch gs

theorem gen_code (a : AST) :
    (gen a).code =
      ⟨(genState a).code, (genState a).stackMaps, (genState a).potBreaks, (genState a).lineInfo⟩ :=
  rfl

theorem TInv.init (P : BreakPoint → Prop) :
    TInv P ((({} : GS).emit (.prepare (-1) (-1) 0)).pushSymbols bRoot) := by
  refine TInv.pushSymbols ⟨?_, by decide⟩ _
  exact TI.empty P _ (by simp [GS.emit]) (by simp [GS.emit])

theorem genState_inv (a : AST) (P : BreakPoint → Prop) (hP : a.ok = true → a.root.AllPos P) :
    TInv P (genState a) := by
  unfold genState
  simp only
  refine TInv.backpatch (TInv.emit (TInv.patchRoot (TInv.popSymbols ?_ _)) (by nofun) (by nofun))
  split
  · exact (TInv.init P).same ⟨rfl, rfl, rfl, rfl⟩
  · rename_i hok
    exact dispatchVoid_inv P _ _ _ (hP (by simpa using hok)) (TInv.init P)

theorem gen_TI (a : AST) (P : BreakPoint → Prop) (hP : a.ok = true → a.root.AllPos P) :
    TI P (gen a).code.code (gen a).code.lineInfo (gen a).code.potBreaks := by
  rw [gen_code]
  exact (genState_inv a P hP).1

theorem allPos_true : ∀ n : Node, n.AllPos (fun _ => True)
  | .nil => trivial
  | .mk _ _ _ _ a b => ⟨trivial, allPos_true a, allPos_true b⟩

theorem gen_TI' (a : AST) :
    TI (fun _ => True) (gen a).code.code (gen a).code.lineInfo (gen a).code.potBreaks :=
  gen_TI a _ (fun _ => allPos_true _)

/-! ### consequences of the invariant for a program -/

theorem find_li_iff {li : List (Int × BreakPoint)} (h : LiSorted li) (i : Int) (bp : BreakPoint) :
    (li.find? (fun e => e.1 = i)).map (·.2) = some bp ↔ (i, bp) ∈ li := by
  cases hf : li.find? (fun e => e.1 = i) with
  | none =>
    simp only [Option.map_none, false_iff, reduceCtorEq]
    intro hm
    exact find_key_none hf _ hm rfl
  | some e =>
    obtain ⟨he, hk⟩ := find_key_some hf
    obtain ⟨k, v⟩ := e
    simp only at hk
    subst hk
    simp only [Option.map_some, Option.some.injEq]
    constructor
    · intro hv; rw [← hv]; exact he
    · intro hm; exact h.unique he hm

theorem find_pb_iff {pb : List (BreakPoint × List Int)} (h : PbSorted pb) (bp : BreakPoint)
    (s : List Int) : (pb.find? (fun e => e.1 = bp)).map (·.2) = some s ↔ (bp, s) ∈ pb := by
  cases hf : pb.find? (fun e => e.1 = bp) with
  | none =>
    simp only [Option.map_none, false_iff, reduceCtorEq]
    intro hm
    exact find_key_none hf _ hm rfl
  | some e =>
    obtain ⟨he, hk⟩ := find_key_some hf
    obtain ⟨k, v⟩ := e
    simp only at hk
    subst hk
    simp only [Option.map_some, Option.some.injEq]
    constructor
    · intro hv; rw [← hv]; exact he
    · intro hm; exact h.unique he hm

section Prog
variable {P : BreakPoint → Prop} {p : Program}

theorem TI.tablesInverse (h : TI P p.code p.lineInfo p.potBreaks) : TablesInverse p := by
  refine ⟨?_, ?_, ?_⟩
  · intro bp i
    unfold Program.sitesOf Program.lineAt
    rw [find_li_iff h.liS, ← h.inv]
    constructor
    · rintro ⟨s, hs, hi⟩; exact ⟨s, (find_pb_iff h.pbS _ _).1 hs, hi⟩
    · rintro ⟨s, hs, hi⟩; exact ⟨s, (find_pb_iff h.pbS _ _).2 hs, hi⟩
  · intro i
    unfold Program.lineAt
    rw [← h.site i]
    constructor
    · rintro ⟨bp, hb⟩; exact ⟨bp, (find_li_iff h.liS _ _).1 hb⟩
    · rintro ⟨bp, hb⟩; exact ⟨bp, (find_li_iff h.liS _ _).2 hb⟩
  · intro i bp hb
    unfold Program.lineAt at hb
    exact (h.rng _ ((find_li_iff h.liS _ _).1 hb)).1

theorem TI.sitesOK (h : TI P p.code p.lineInfo p.potBreaks) : SitesOK p := by
  refine ⟨?_, h.nobrk⟩
  intro e he i hi
  have hin : (i, e.1) ∈ p.lineInfo := (h.inv _ _).1 ⟨e.2, he, hi⟩
  have h0 := (h.rng _ hin).1
  simp only at h0
  refine ⟨h0, (h.site i.toNat).1 ⟨e.1, ?_⟩⟩
  rw [Int.toNat_of_nonneg h0]
  exact hin

theorem TI.noDuplicates (h : TI P p.code p.lineInfo p.potBreaks) :
    (∀ e ∈ p.potBreaks, e.2.Nodup ∧ e.2 ≠ []) ∧
    (p.potBreaks.map (·.1)).Nodup ∧ (p.lineInfo.map (·.1)).Nodup := by
  refine ⟨h.nd, ?_, ?_⟩
  · refine List.pairwise_map.2 (h.pbS.imp ?_)
    intro a b hab heq
    rw [heq, BreakPoint.lt_irrefl] at hab
    cases hab
  · refine List.pairwise_map.2 (h.liS.imp ?_)
    intro a b hab heq
    omega

theorem TI.noStd (h : TI P p.code p.lineInfo p.potBreaks) :
    ∀ bp ∈ p.available, bp.file ≠ ConstGen.genStdFileName := by
  intro bp hbp
  obtain ⟨e, he, rfl⟩ := List.mem_map.1 hbp
  exact h.nostd e he

theorem TI.realLines (h : TI P p.code p.lineInfo p.potBreaks) : ∀ bp ∈ p.available, P bp := by
  intro bp hbp
  obtain ⟨e, he, rfl⟩ := List.mem_map.1 hbp
  exact h.real e he

theorem TI.enableIff (h : TI P p.code p.lineInfo p.potBreaks) (bp : BreakPoint) :
    bp ∈ p.available ↔ ∃ i, p.lineAt i = some bp := by
  unfold Program.lineAt
  constructor
  · intro hbp
    obtain ⟨e, he, rfl⟩ := List.mem_map.1 hbp
    obtain ⟨_, hne⟩ := h.nd e he
    obtain ⟨i, hi⟩ := List.exists_mem_of_ne_nil _ hne
    exact ⟨i, (find_li_iff h.liS _ _).2 ((h.inv _ _).1 ⟨e.2, he, hi⟩)⟩
  · rintro ⟨i, hi⟩
    obtain ⟨s, hs, _⟩ := (h.inv _ _).2 ((find_li_iff h.liS _ _).1 hi)
    exact List.mem_map.2 ⟨(bp, s), hs, rfl⟩

end Prog

/-! ### the C08 statements -/

theorem gen_tablesInverse (a : AST) : TablesInverse (gen a).code := (gen_TI' a).tablesInverse

theorem gen_noDuplicates (a : AST) :
    (∀ e ∈ (gen a).code.potBreaks, e.2.Nodup ∧ e.2 ≠ []) ∧
    ((gen a).code.potBreaks.map (·.1)).Nodup ∧ ((gen a).code.lineInfo.map (·.1)).Nodup :=
  (gen_TI' a).noDuplicates

theorem gen_noBreak (a : AST) : Instr.brk ∉ (gen a).code.code := (gen_TI' a).nobrk

theorem gen_sitesOK (a : AST) : SitesOK (gen a).code := (gen_TI' a).sitesOK

theorem gen_noStd (a : AST) : ∀ bp ∈ (gen a).code.available, bp.file ≠ ConstGen.genStdFileName :=
  (gen_TI' a).noStd

theorem gen_enableIff (a : AST) (bp : BreakPoint) :
    bp ∈ (gen a).code.available ↔ ∃ i, (gen a).code.lineAt i = some bp :=
  (gen_TI' a).enableIff bp

/-- positions of a tree, for any enumeration `nodes` of the nodes satisfying the defining
    equation on `mk` (the property file instantiates it with `Node.nodes`) -/
theorem allPos_of_nodes (nodes : Node → List Node)
    (hmk : ∀ t tok f l a b, nodes (.mk t tok f l a b) = .mk t tok f l a b :: (nodes a ++ nodes b))
    (root : Node) : ∀ sub : Node, (∀ n ∈ nodes sub, n ∈ nodes root) →
      sub.AllPos (fun bp => ∃ n ∈ nodes root, n.file = bp.file ∧ n.line = bp.line) := by
  intro sub
  induction sub with
  | nil => intro _; trivial
  | mk t tok f l a b iha ihb =>
    intro hsub
    rw [hmk] at hsub
    refine ⟨⟨_, hsub _ List.mem_cons_self, rfl, rfl⟩, iha ?_, ihb ?_⟩
    · intro n hn
      exact hsub n (List.mem_cons_of_mem _ (List.mem_append_left _ hn))
    · intro n hn
      exact hsub n (List.mem_cons_of_mem _ (List.mem_append_right _ hn))

theorem gen_realLines (nodes : Node → List Node)
    (hmk : ∀ t tok f l a b, nodes (.mk t tok f l a b) = .mk t tok f l a b :: (nodes a ++ nodes b))
    (a : AST) (_h : a.ok = true) :
    ∀ bp ∈ (gen a).code.available, ∃ n ∈ nodes a.root, n.file = bp.file ∧ n.line = bp.line :=
  (gen_TI a _ (fun _ => allPos_of_nodes nodes hmk a.root a.root (fun _ h => h))).realLines

end Theo
