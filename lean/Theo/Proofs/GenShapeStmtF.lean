/-
  C01 for the generator model, part 11: `stmt_corr` — the code of a statement tree passes
  `checkStmts` for the statements `stmtsOf` reads off the same tree.
-/
import Theo.Proofs.GenShapeStmtE

set_option linter.unusedSimpArgs false
set_option linter.unusedVariables false

namespace Theo
namespace GenShape
open GS Sem Static

/-! ### `advanceLine` is idempotent -/

theorem advanceLine_fs (gs : GS) (line : Int) (file : Bytes) (h : file ≠ ConstGen.genStdFileName) :
    (gs.advanceLine line file).fsName = file ∧ (gs.advanceLine line file).fsLine = line := by
  unfold advanceLine
  rw [if_neg h]
  dsimp only
  by_cases hc : gs.fsName = file ∧ line ≠ gs.fsLine
  · simp only [if_pos hc]
    have : ¬ (({ gs with fsLine := line } : GS).breakpoint.fsName ≠ file) := by
      show ¬ (gs.fsName ≠ file); simp [hc.1]
    rw [if_neg this]
    exact ⟨hc.1, rfl⟩
  · simp only [if_neg hc]
    by_cases h2 : gs.fsName ≠ file
    · rw [if_pos h2]; exact ⟨rfl, rfl⟩
    · rw [if_neg h2]
      have h2' : gs.fsName = file := by simpa using h2
      refine ⟨h2', ?_⟩
      refine Classical.byContradiction fun hne => hc ⟨h2', fun h => hne h.symm⟩

theorem advanceLine_idem (gs : GS) (line : Int) (file : Bytes) :
    (gs.advanceLine line file).advanceLine line file = gs.advanceLine line file := by
  by_cases h : file = ConstGen.genStdFileName
  · unfold advanceLine; simp [h]
  · obtain ⟨h1, h2⟩ := advanceLine_fs gs line file h
    generalize gs.advanceLine line file = g at *
    unfold advanceLine
    rw [if_neg h]
    dsimp only
    have hc : ¬ (g.fsName = file ∧ line ≠ g.fsLine) := by rw [h2]; simp
    simp only [if_neg hc]
    rw [if_neg (by simp [h1])]

theorem dispatchVoid_adv (f : Nat) (gs : GS) (t : Nat) (tok file : Bytes) (line : Int) (l r : Node) :
    dispatchVoid (f+1) (gs.advanceLine line file) (.mk t tok file line l r) = dispatchVoid (f+1) gs (.mk t tok file line l r) := by
  rw [dispatchVoid_succ, dispatchVoid_succ, advanceLine_idem]

theorem SCorr.of_adv {X : RC} {gs gs0 gs' : GS} {n : Node} {ss : Stmts} {k : Nat}
    (hk : gs0.code = gs.code ++ List.replicate k Instr.potBreak) (hp : gs0.code <+: gs'.code)
    (ha : Agree X.L gs'.code X.C) (h : SCorr X gs0 gs' n ss) : SCorr X gs gs' n ss :=
  fun w hat => h w (hat.sites hk hp ha)

/-! ### statement lists -/

theorem SRes.split {X : RC} {g1 gs' : GS} {l r : Node} (tok file : Bytes) (line : Int) {w w1 w2 : Walk}
    (r1 : SRes X g1 l w w1) (r2 : SRes X gs' r w1 w2) (st2 : Step g1 gs') (s2 : SQ g1 gs' r) (wf' : MarksWF gs') :
    SRes X gs' (.mk NodeT.SPLIT tok file line l r) w w2 := by
  obtain ⟨nm1, a1, a2, a3⟩ := r1.marks
  obtain ⟨nm2, b1, b2, b3⟩ := r2.marks
  obtain ⟨ng1, c1, c2, c3⟩ := r1.gotos
  obtain ⟨ng2, d1, d2, d3⟩ := r2.gotos
  refine ⟨r2.at_, ⟨nm1 ++ nm2, by rw [b1, a1, List.append_assoc], ?_, ?_⟩, ⟨ng1 ++ ng2, by rw [d1, c1, List.append_assoc], ?_, ?_⟩⟩
  · rw [List.map_append, a2, b2, defsOf_mk, if_pos rfl]
  · intro m pc h
    rw [List.filter_append, List.getLast?_append] at h
    cases hb : (nm2.filter (fun e => e.1 = m)).getLast? with
    | some x =>
      rw [hb] at h
      simp only [Option.some_or] at h
      rw [h] at hb
      exact b3 m pc hb
    | none =>
      rw [hb] at h
      simp only [Option.none_or] at h
      have hemp : nm2.filter (fun e => e.1 = m) = [] := List.getLast?_eq_none_iff.1 hb
      obtain ⟨lab, v, k1, k2, k3, k4⟩ := a3 m pc h
      refine ⟨lab, v, st2.ext _ k1, ?_, k3, k4⟩
      rw [s2.frame lab (List.getElem?_eq_some_iff.1 k2).1 ?_]
      · exact k2
      · intro m' hm' hin
        have hmm : m' = m := nodup_snd wf'.vals hin (st2.ext _ k1)
        subst hmm
        rw [← b2] at hm'
        obtain ⟨e, he, hem⟩ := List.mem_map.1 hm'
        have : e ∈ nm2.filter (fun e => e.1 = m') := List.mem_filter.2 ⟨he, by simpa using hem⟩
        rw [hemp] at this
        cases this
  · rw [List.map_append, c2, d2, refsOf_mk, if_pos rfl]
  · intro g hg
    rcases List.mem_append.1 hg with hg | hg
    · obtain ⟨lab, k1, k2⟩ := c3 g hg
      exact ⟨lab, st2.ext _ k1, k2⟩
    · exact d3 g hg

theorem stmts1 (s : Stmt) (n : Nat) (ps : List ProgDef) : ((Stmts.cons s .nil, n, ps) : Stmts × Nat × List ProgDef).1 = .cons s .nil := rfl

theorem stmt_corr {X : RC} (ok : X.OK) : ∀ (f : Nat) (gs : GS) (n : Node), nodeSize n ≤ f → stmtShape n = true →
    stmtNames n = true → ∀ (ps : List ProgDef) (body : Stmts),
    stmtsOK X.src X.rt body (stmtsOf n gs.loops ps).1 = true →
    SLinks X (dispatchVoid f gs n) → MarksWF gs → Head gs →
    SCorr X gs (dispatchVoid f gs n) n (stmtsOf n gs.loops ps).1 := by
  intro f
  induction f with
  | zero => intro gs n h; have := nodeSize_pos n; omega
  | succ f ih =>
    intro gs n hf hs hn ps body hv lk w0 hd
    cases n with
    | nil =>
      rw [dispatchVoid_nil] at lk ⊢
      rw [stmtsOf_nil]
      intro w hat
      exact ⟨w, by simp only [checkStmts], SRes.empty hat rfl rfl (by rw [defsOf]) (by rw [refsOf])⟩
    | mk t tok file line l r =>
      -- the step over `advanceLine`
      have sq0 := sq_void (f+1) (gs.advanceLine line file) (.mk t tok file line l r) hf hs hn
      rw [dispatchVoid_adv] at sq0
      obtain ⟨k0, hk0⟩ := advanceLine_code gs line file
      refine SCorr.of_adv hk0 sq0.gq.code lk.agree ?_
      have hlo : (gs.advanceLine line file).loops = gs.loops := (advanceLine_misc gs line file).2.2.2.1
      have w0' : MarksWF (gs.advanceLine line file) := (quiet_advanceLine gs line file).wf w0
      have hd' : Head (gs.advanceLine line file) := hd.mono (by rw [hk0]; exact prefix_append_self _ _)
      rw [← hlo] at hv ⊢
      clear sq0 hk0 hlo w0 hd
      rw [dispatchVoid_succ] at lk ⊢
      dsimp only at lk ⊢
      generalize gs.advanceLine line file = gs0 at *
      simp only [nodeSize] at hf
      have hfl : nodeSize l ≤ f := by have := nodeSize_pos r; omega
      have hfr : nodeSize r ≤ f := by have := nodeSize_pos l; omega
      rw [stmtShape_mk] at hs
      rw [stmtNames_mk] at hn
      rw [stmtsOf_mk] at hv ⊢
      by_cases h1 : t = NodeT.SPLIT
      · subst h1
        rw [if_pos rfl, Bool.and_eq_true] at hs hn
        simp only [if_true] at hv lk ⊢
        rw [stmtsOK_append, Bool.and_eq_true] at hv
        have s1 := sq_void f gs0 l hfl hs.1 hn.1
        have st1 := step_void f gs0 l
        have s2 := sq_void f (dispatchVoid f gs0 l) r hfr hs.2 hn.2
        have st2 := step_void f (dispatchVoid f gs0 l) r
        have hk1 : (stmtsOf l gs0.loops ps).2.1 = (dispatchVoid f gs0 l).loops := by rw [stmtsOf_loops, s1.loops]
        rw [hk1] at hv ⊢
        have lk1 : SLinks X (dispatchVoid f gs0 l) := lk.back_sq s2 st2
        have c1 := ih gs0 l hfl hs.1 hn.1 ps body hv.1 lk1 w0' hd'
        have c2 := ih (dispatchVoid f gs0 l) r hfr hs.2 hn.2 (stmtsOf l gs0.loops ps).2.2 body hv.2 lk (st1.wf w0')
          (hd'.mono s1.gq.code)
        intro w hat
        obtain ⟨w1, e1, r1⟩ := c1 w hat
        obtain ⟨w2, e2, r2⟩ := c2 w1 r1.at_
        refine ⟨w2, ?_, SRes.split tok file line r1 r2 st2 s2 (st2.wf (st1.wf w0'))⟩
        rw [checkStmts_append, e1]
        exact e2
      simp only [if_neg h1] at hs hn hv lk ⊢
      by_cases h2 : t = NodeT.PROGRAM
      · subst h2; simp [NodeT.PROGRAM, NodeT.ASSIGN, NodeT.LOOP, NodeT.WHILE, NodeT.IF, NodeT.MARK, NodeT.GOTO, NodeT.STOP] at hs
      simp only [if_neg h2] at hv lk ⊢
      by_cases h3 : t = NodeT.ASSIGN
      · subst h3
        simp only [if_true] at hs hn hv lk ⊢
        simp only [Bool.and_eq_true, Bool.not_eq_true'] at hn
        have hvv : valueOK X.src X.rt (valueOf r) = true := by
          simp only [stmtsOK, stmtOK, Bool.and_true] at hv; exact hv
        exact assign_corr ok f gs0 tok file line l r hfr hn.1.2 hs hn.2 hn.1.1 hvv (file, line) lk
      simp only [if_neg h3] at hs hn hv lk ⊢
      by_cases h4 : t = NodeT.LOOP
      · subst h4
        simp only [true_or, if_true] at hs hn hv lk ⊢
        simp only [Bool.and_eq_true, Bool.not_eq_true'] at hs hn
        obtain ⟨tkx, fa, la, a1, a2, hl⟩ := nameNode hn.1.1 hs.1
        have hx : PV tkx := by have := hn.1.2; rw [hl] at this; exact this
        have hvn : valNames l = true := valNames_name hn.1.1 hs.1 hn.1.2
        obtain ⟨f', rfl⟩ : ∃ f', f = f' + 1 := ⟨f - 1, by have := nodeSize_pos l; omega⟩
        have sp := loopPre_spec gs0
        have vk := vk_value (f'+1) (loopPre gs0).1 l (loopPre gs0).2 hvn
        have hm1l : (loopMid (dispatchValue (f'+1) (loopPre gs0).1 l (loopPre gs0).2) (loopPre gs0).2).1.loops = gs0.loops + 1 := by
          rw [loopMid_loops, vk.vq.loops, sp.loops]
        have mq := loopMid_gq (dispatchValue (f'+1) (loopPre gs0).1 l (loopPre gs0).2) (loopPre gs0).2
        have hmm : (loopMid (dispatchValue (f'+1) (loopPre gs0).1 l (loopPre gs0).2) (loopPre gs0).2).1.top.marks = gs0.top.marks := by
          rw [top_congr (loopMid_symbols _ _), vk.vq.marks, sp.marks]
        have hml : gs0.labels.length ≤ (loopMid (dispatchValue (f'+1) (loopPre gs0).1 l (loopPre gs0).2) (loopPre gs0).2).1.labels.length := by
          rw [loopMid_labels, vk.vq.labels, sp.labels]; simp <;> omega
        have sb := sq_void (f'+1) (loopMid (dispatchValue (f'+1) (loopPre gs0).1 l (loopPre gs0).2) (loopPre gs0).2).1 r hfr hs.2 hn.2
        have stb := step_void (f'+1) (loopMid (dispatchValue (f'+1) (loopPre gs0).1 l (loopPre gs0).2) (loopPre gs0).2).1 r
        have hbody : stmtsOK X.src X.rt body (stmtsOf r (gs0.loops + 1) ps).1 = true := by
          simp only [stmts1, stmtsOK, stmtOK, Bool.and_true] at hv; exact hv
        have hih := ih (loopMid (dispatchValue (f'+1) (loopPre gs0).1 l (loopPre gs0).2) (loopPre gs0).2).1 r hfr hs.2 hn.2 ps body
        rw [hm1l] at hih
        have hpre : gs0.code <+: (loopMid (dispatchValue (f'+1) (loopPre gs0).1 l (loopPre gs0).2) (loopPre gs0).2).1.code :=
          (sp.gq.trans vk.vq.toGQ).code.trans mq.code
        have := loop_corr ok f' gs0 tok file line l r (file, line) tkx fa la a1 a2 hl hx (stmtsOf r (gs0.loops + 1) ps).1 w0'
          (loopPre gs0).1 (loopPre gs0).2 rfl _ rfl _ _ _ rfl _ sb stb _ rfl lk
          (fun lkb => hih hbody lkb (w0'.congr hml hmm) (hd'.mono hpre))
        rw [hl] at this ⊢
        exact this
      simp only [if_neg h4] at hv lk ⊢
      by_cases h5 : t = NodeT.WHILE
      · subst h5
        simp only [or_true, if_true] at hs hn hv lk ⊢
        simp only [Bool.and_eq_true, Bool.not_eq_true'] at hs hn
        obtain ⟨tkx, fa, la, a1, a2, hl⟩ := nameNode hn.1.1 hs.1
        have hx : PV tkx := by have := hn.1.2; rw [hl] at this; exact this
        have hvn : valNames l = true := valNames_name hn.1.1 hs.1 hn.1.2
        obtain ⟨f', rfl⟩ : ∃ f', f = f' + 1 := ⟨f - 1, by have := nodeSize_pos l; omega⟩
        have sp := whilePre_spec' gs0
        have vk := vk_value (f'+1) (whilePre gs0).1 l (whilePre gs0).2.2.2 hvn
        generalize hm1 : (dispatchValue (f'+1) (whilePre gs0).1 l (whilePre gs0).2.2.2).emitBackpatched
          (.jmpc (whilePre gs0).2.2.1 (whilePre gs0).2.2.2) = m1 at *
        have hm1l : m1.loops = gs0.loops := by rw [← hm1]; show (dispatchValue _ _ _ _).loops = _; rw [vk.vq.loops, sp.loops]
        have hmm : m1.top.marks = gs0.top.marks := by
          rw [← hm1]; show (dispatchValue _ _ _ _).top.marks = _; rw [vk.vq.marks, sp.marks]
        have hml : gs0.labels.length ≤ m1.labels.length := by
          rw [← hm1]; show _ ≤ (dispatchValue _ _ _ _).labels.length; rw [vk.vq.labels, sp.labels]; simp <;> omega
        have hpre : gs0.code <+: m1.code := by
          rw [← hm1]; exact (sp.gq.trans vk.vq.toGQ).code.trans (gq_emitBackpatched _ _).code
        have sb := sq_void (f'+1) m1 r hfr hs.2 hn.2
        have stb := step_void (f'+1) m1 r
        have hbody : stmtsOK X.src X.rt body (stmtsOf r gs0.loops ps).1 = true := by
          simp only [stmts1, stmtsOK, stmtOK, Bool.and_true] at hv; exact hv
        have hih := ih m1 r hfr hs.2 hn.2 ps body
        rw [hm1l] at hih
        subst hm1
        have := while_corr ok f' gs0 tok file line l r (file, line) tkx fa la a1 a2 hl hx (stmtsOf r gs0.loops ps).1 w0'
          (whilePre gs0).1 (whilePre gs0).2.1 (whilePre gs0).2.2.1 (whilePre gs0).2.2.2 rfl _ rfl _ sb stb _ rfl lk
          (fun lkb => hih hbody lkb (w0'.congr hml hmm) (hd'.mono hpre))
        rw [hl] at this ⊢
        exact this
      simp only [if_neg h5] at hv lk ⊢
      rw [if_neg (by intro h; rcases h with h | h; exact h4 h; exact h5 h)] at hs hn
      by_cases h6 : t = NodeT.MARK
      · subst h6
        simp only [if_true] at hv lk ⊢
        exact mark_corr gs0 tok file line l r (file, line) w0' hd' lk
      simp only [if_neg h6] at hv lk ⊢
      by_cases h7 : t = NodeT.GOTO
      · subst h7
        simp only [if_true] at hv lk ⊢
        exact goto_corr gs0 tok file line l r (file, line) lk
      simp only [if_neg h7] at hv lk ⊢
      by_cases h8 : t = NodeT.IF
      · subst h8
        simp only [if_true] at hs hn hv lk ⊢
        simp only [Bool.and_eq_true, Bool.not_eq_true'] at hs hn
        obtain ⟨tkx, fa, la, a1, a2, hll⟩ := nameNode hn.1.1 hs.1
        obtain ⟨tkc, fb, lb, b1, b2, hlr⟩ := numberNode hn.1.2 hs.2
        have hx : PV tkx := by have := hn.2; rw [hll] at this; exact this
        obtain ⟨f', rfl⟩ : ∃ f', f = f' + 1 := ⟨f - 1, by have := nodeSize_pos l; omega⟩
        have hc : genRangeBad (decVal tkc) = false := by
          simp only [stmts1, stmtsOK, stmtOK, Bool.and_true, Bool.and_eq_true, Bool.not_eq_true'] at hv
          have := hv.1; rw [hlr] at this; exact this
        have := if_corr ok f' gs0 tok file line l r (file, line) tkx fa la a1 a2 tkc fb lb b1 b2 hll hlr hx hc lk
        rw [hll, hlr] at this ⊢
        exact this
      simp only [if_neg h8] at hs hv lk ⊢
      by_cases h9 : t = NodeT.STOP
      · subst h9
        simp only [if_true] at hv lk ⊢
        exact stop_corr gs0 tok file line l r (file, line) lk
      · exfalso
        simp [h6, h7, h9] at hs

end GenShape
end Theo
