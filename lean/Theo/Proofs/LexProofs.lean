/-
  Helper lemmas for C14: derivative correctness, longest-match correctness, progress.
-/
import Theo.Spec.Tokenisation

namespace Theo

namespace Rx

/-! ### inversion lemmas for `Matches` -/

theorem not_matches_empty {s : Bytes} : ¬ Matches .empty s := by
  intro h; cases h

theorem matches_eps_iff {s : Bytes} : Matches .eps s ↔ s = [] := by
  constructor
  · intro h; cases h; rfl
  · intro h; subst h; exact .eps

theorem matches_cls_iff {rs} {s : Bytes} :
    Matches (.cls rs) s ↔ ∃ c, s = [c] ∧ inRanges rs c = true := by
  constructor
  · intro h; cases h with | cls h => exact ⟨_, rfl, h⟩
  · rintro ⟨c, rfl, h⟩; exact .cls h

theorem matches_ncls_iff {rs} {s : Bytes} :
    Matches (.ncls rs) s ↔ ∃ c, s = [c] ∧ inRanges rs c = false := by
  constructor
  · intro h; cases h with | ncls h => exact ⟨_, rfl, h⟩
  · rintro ⟨c, rfl, h⟩; exact .ncls h

theorem matches_seq_iff {a b : Rx} {s : Bytes} :
    Matches (.seq a b) s ↔ ∃ s1 s2, s = s1 ++ s2 ∧ Matches a s1 ∧ Matches b s2 := by
  constructor
  · intro h; cases h with | seq h1 h2 => exact ⟨_, _, rfl, h1, h2⟩
  · rintro ⟨s1, s2, rfl, h1, h2⟩; exact .seq h1 h2

theorem matches_alt_iff {a b : Rx} {s : Bytes} :
    Matches (.alt a b) s ↔ Matches a s ∨ Matches b s := by
  constructor
  · intro h
    cases h with
    | altL h => exact .inl h
    | altR h => exact .inr h
  · rintro (h | h)
    · exact .altL h
    · exact .altR h

theorem matches_star_cons_aux {a r : Rx} {t : Bytes} (h : Matches r t) :
    ∀ (c : UInt8) (s : Bytes), r = .star a → t = c :: s →
      ∃ s1 s2, s = s1 ++ s2 ∧ Matches a (c :: s1) ∧ Matches (.star a) s2 := by
  induction h with
  | eps => intro c s hr; cases hr
  | cls _ => intro c s hr; cases hr
  | ncls _ => intro c s hr; cases hr
  | seq _ _ _ _ => intro c s hr; cases hr
  | altL _ _ => intro c s hr; cases hr
  | altR _ _ => intro c s hr; cases hr
  | starNil => intro c s _ ht; cases ht
  | @starCons a' u v h1 h2 _ ih2 =>
    intro c s hr ht
    cases hr
    cases u with
    | nil => exact ih2 c s rfl (by simpa using ht)
    | cons d u' =>
      simp only [List.cons_append, List.cons.injEq] at ht
      obtain ⟨rfl, rfl⟩ := ht
      exact ⟨u', v, rfl, h1, h2⟩

theorem matches_star_cons_iff {a : Rx} {c : UInt8} {s : Bytes} :
    Matches (.star a) (c :: s) ↔
      ∃ s1 s2, s = s1 ++ s2 ∧ Matches a (c :: s1) ∧ Matches (.star a) s2 := by
  constructor
  · intro h; exact matches_star_cons_aux h c s rfl rfl
  · rintro ⟨s1, s2, rfl, h1, h2⟩
    exact Matches.starCons h1 h2

/-! ### smart constructors preserve the language -/

theorem matches_mkSeq {a b : Rx} {s : Bytes} :
    Matches (mkSeq a b) s ↔ Matches (.seq a b) s := by
  unfold mkSeq
  split
  · simp [matches_seq_iff, not_matches_empty]
  · simp [matches_seq_iff, not_matches_empty]
  · rw [matches_seq_iff]
    constructor
    · intro h; exact ⟨[], s, rfl, .eps, h⟩
    · rintro ⟨s1, s2, rfl, h1, h2⟩
      rw [matches_eps_iff] at h1; subst h1; simpa using h2
  · rw [matches_seq_iff]
    constructor
    · intro h; exact ⟨s, [], by simp, h, .eps⟩
    · rintro ⟨s1, s2, rfl, h1, h2⟩
      rw [matches_eps_iff] at h2; subst h2; simpa using h1
  · exact Iff.rfl

theorem matches_mkAlt {a b : Rx} {s : Bytes} :
    Matches (mkAlt a b) s ↔ Matches (.alt a b) s := by
  unfold mkAlt
  split
  · simp [matches_alt_iff, not_matches_empty]
  · simp [matches_alt_iff, not_matches_empty]
  · split
    · next h => subst h; simp [matches_alt_iff]
    · exact Iff.rfl

/-! ### nullable / derivative correctness -/

theorem nullable_correct (r : Rx) : r.nullable = true ↔ r.Matches [] := by
  induction r with
  | empty => simp [nullable, not_matches_empty]
  | eps => simp [nullable, matches_eps_iff]
  | cls rs => simp [nullable, matches_cls_iff]
  | ncls rs => simp [nullable, matches_ncls_iff]
  | seq a b iha ihb =>
    simp only [nullable, Bool.and_eq_true, iha, ihb, matches_seq_iff]
    constructor
    · rintro ⟨h1, h2⟩; exact ⟨[], [], rfl, h1, h2⟩
    · rintro ⟨s1, s2, h, h1, h2⟩
      have h' := h.symm
      simp only [List.append_eq_nil_iff] at h'
      obtain ⟨rfl, rfl⟩ := h'
      exact ⟨h1, h2⟩
  | alt a b iha ihb =>
    simp [nullable, matches_alt_iff, iha, ihb]
  | star a _ => simp [nullable]; exact .starNil

theorem matches_seq_cons_iff {a b : Rx} {c : UInt8} {s : Bytes} :
    Matches (.seq a b) (c :: s) ↔
      (∃ s1 s2, s = s1 ++ s2 ∧ Matches a (c :: s1) ∧ Matches b s2) ∨
      (Matches a [] ∧ Matches b (c :: s)) := by
  rw [matches_seq_iff]
  constructor
  · rintro ⟨s1, s2, h, h1, h2⟩
    cases s1 with
    | nil =>
      simp only [List.nil_append] at h
      subst h
      exact .inr ⟨h1, h2⟩
    | cons d s1' =>
      simp only [List.cons_append, List.cons.injEq] at h
      obtain ⟨rfl, rfl⟩ := h
      exact .inl ⟨s1', s2, rfl, h1, h2⟩
  · rintro (⟨s1, s2, rfl, h1, h2⟩ | ⟨h1, h2⟩)
    · exact ⟨c :: s1, s2, rfl, h1, h2⟩
    · exact ⟨[], c :: s, rfl, h1, h2⟩

theorem deriv_correct (r : Rx) (c : UInt8) (s : Bytes) :
    (r.deriv c).Matches s ↔ r.Matches (c :: s) := by
  induction r generalizing s with
  | empty => simp [deriv, not_matches_empty]
  | eps => simp [deriv, not_matches_empty, matches_eps_iff]
  | cls rs =>
    simp only [deriv, matches_cls_iff]
    split
    · next h =>
      rw [matches_eps_iff]
      constructor
      · rintro rfl; exact ⟨c, rfl, h⟩
      · rintro ⟨d, hd, _⟩; simp at hd; exact hd.2
    · next h =>
      constructor
      · intro h'; exact absurd h' not_matches_empty
      · rintro ⟨d, hd, hr⟩
        simp at hd
        obtain ⟨rfl, _⟩ := hd
        exact absurd hr h
  | ncls rs =>
    simp only [deriv, matches_ncls_iff]
    split
    · next h =>
      constructor
      · intro h'; exact absurd h' not_matches_empty
      · rintro ⟨d, hd, hr⟩
        simp at hd
        obtain ⟨rfl, _⟩ := hd
        simp [h] at hr
    · next h =>
      rw [matches_eps_iff]
      constructor
      · rintro rfl; exact ⟨c, rfl, by simpa using h⟩
      · rintro ⟨d, hd, _⟩; simp at hd; exact hd.2
  | seq a b iha ihb =>
    rw [matches_seq_cons_iff]
    simp only [deriv]
    split
    · next hn =>
      rw [matches_mkAlt, matches_alt_iff, matches_mkSeq, matches_seq_iff, ihb]
      simp only [iha, ← nullable_correct, hn, true_and]
    · next hn =>
      rw [matches_mkSeq, matches_seq_iff]
      simp only [iha, ← nullable_correct, hn, false_and, or_false, Bool.false_eq_true]
  | alt a b iha ihb =>
    simp only [deriv]
    rw [matches_mkAlt, matches_alt_iff, matches_alt_iff, iha, ihb]
  | star a iha =>
    simp only [deriv]
    rw [matches_mkSeq, matches_seq_iff, matches_star_cons_iff]
    simp only [iha]

theorem derivs_correct (p : Bytes) (r : Rx) (t : Bytes) :
    (derivs p r).Matches t ↔ r.Matches (p ++ t) := by
  induction p generalizing r with
  | nil => simp [derivs]
  | cons c p ih => simp only [derivs, ih, deriv_correct, List.cons_append]

theorem matchesB_correct (r : Rx) (s : Bytes) : r.matchesB s = true ↔ r.Matches s := by
  unfold matchesB
  rw [nullable_correct, derivs_correct, List.append_nil]

theorem derivs_append (p q : Bytes) (r : Rx) : derivs (p ++ q) r = derivs q (derivs p r) := by
  induction p generalizing r with
  | nil => rfl
  | cons c p ih => simp only [List.cons_append, derivs, ih]

theorem derivs_nullable (p : Bytes) (r : Rx) : (derivs p r).nullable = true ↔ r.Matches p := by
  rw [nullable_correct, derivs_correct, List.append_nil]

end Rx

/-! ### `firstNullable` -/

theorem firstNullable_none {rs : List Rx} {k : Nat} (h : firstNullable rs k = none) :
    ∀ (j : Nat) (r : Rx), rs[j]? = some r → r.nullable = false := by
  induction rs generalizing k with
  | nil => intro j r hj; simp at hj
  | cons a rs ih =>
    simp only [firstNullable] at h
    split at h
    · cases h
    · next hn =>
      intro j r hj
      cases j with
      | zero => simp at hj; subst hj; simpa using hn
      | succ j => exact ih h j r (by simpa using hj)

theorem firstNullable_some {rs : List Rx} {k i : Nat} (h : firstNullable rs k = some i) :
    k ≤ i ∧ (∃ r, rs[i - k]? = some r ∧ r.nullable = true) ∧
      ∀ (j : Nat) (r : Rx), j < i - k → rs[j]? = some r → r.nullable = false := by
  induction rs generalizing k with
  | nil => simp [firstNullable] at h
  | cons a rs ih =>
    simp only [firstNullable] at h
    split at h
    · next hn =>
      cases h
      refine ⟨Nat.le_refl _, ⟨a, by simp, hn⟩, ?_⟩
      intro j r hj; omega
    · next hn =>
      obtain ⟨h1, ⟨r, hr, hrn⟩, h3⟩ := ih h
      have e : i - k = (i - (k + 1)) + 1 := by omega
      refine ⟨by omega, ⟨r, by rw [e]; simpa using hr, hrn⟩, ?_⟩
      intro j r' hj hr'
      cases j with
      | zero => simp at hr'; subst hr'; simpa using hn
      | succ j => exact h3 j r' (by omega) (by simpa using hr')

/-! ### `longestAux` -/

/-- maximal munch among the prefix lengths greater than `lo` -/
def MunchAbove (rules : List Rx) (inp : Bytes) (lo i n : Nat) : Prop :=
  lo < n ∧ n ≤ inp.length ∧
  (∃ r : Rx, rules[i]? = some r ∧ r.Matches (inp.take n)) ∧
  (∀ (j : Nat) (r : Rx) (m : Nat), rules[j]? = some r → lo < m → m ≤ inp.length →
      r.Matches (inp.take m) → m ≤ n ∧ (m = n → i ≤ j))

/-- no rule matches a prefix longer than `lo` -/
def NoMunchAbove (rules : List Rx) (inp : Bytes) (lo : Nat) : Prop :=
  ∀ (j : Nat) (r : Rx) (m : Nat), rules[j]? = some r → lo < m → m ≤ inp.length →
    ¬ r.Matches (inp.take m)

theorem isMaxMunch_iff {rules : List Rx} {inp : Bytes} {i n : Nat} :
    IsMaxMunch rules inp i n ↔ MunchAbove rules inp 0 i n := Iff.rfl

theorem noMunch_iff {rules : List Rx} {inp : Bytes} :
    NoMunch rules inp ↔ NoMunchAbove rules inp 0 := Iff.rfl

theorem derivs_empty (s : Bytes) : Rx.derivs s .empty = .empty := by
  induction s with
  | nil => rfl
  | cons c s ih => simpa [Rx.derivs, Rx.deriv] using ih

theorem map_deriv_map_derivs (orig : List Rx) (p : Bytes) (c : UInt8) :
    (orig.map (Rx.derivs p)).map (Rx.deriv c) = orig.map (Rx.derivs (p ++ [c])) := by
  simp only [List.map_map]
  apply List.map_congr_left
  intro r _
  simp [Rx.derivs_append, Rx.derivs]

theorem take_append_of_le {p cs : Bytes} {m : Nat} (h : p.length ≤ m) :
    (p ++ cs).take m = p ++ cs.take (m - p.length) := by
  rw [List.take_append, List.take_of_length_le h]

theorem longestAux_spec (orig : List Rx) (cs : Bytes) :
    ∀ (p : Bytes) (best : Option (Nat × Nat)),
      (NoMunchAbove orig (p ++ cs) p.length ∧
          longestAux (orig.map (Rx.derivs p)) cs p.length best = best) ∨
      (∃ i n, longestAux (orig.map (Rx.derivs p)) cs p.length best = some (i, n) ∧
          MunchAbove orig (p ++ cs) p.length i n) := by
  induction cs with
  | nil =>
    intro p best
    left
    refine ⟨?_, rfl⟩
    intro j r m _ h1 h2
    simp at h2; omega
  | cons c cs ih =>
    intro p best
    have hlen : (p ++ [c]).length = p.length + 1 := by simp
    have hinp : p ++ c :: cs = (p ++ [c]) ++ cs := by simp
    simp only [longestAux, map_deriv_map_derivs]
    split
    · next hall =>
      left
      refine ⟨?_, rfl⟩
      intro j r m hj h1 h2 hm
      rw [hinp, take_append_of_le (by omega), ← Rx.derivs_correct] at hm
      have hmem : Rx.derivs (p ++ [c]) r ∈ orig.map (Rx.derivs (p ++ [c])) :=
        List.mem_map.2 ⟨r, List.mem_of_getElem? hj, rfl⟩
      have := List.all_eq_true.1 hall _ hmem
      rw [beq_iff_eq] at this
      rw [this] at hm
      exact Rx.not_matches_empty hm
    · next hall =>
      have IH := ih (p ++ [c])
      rw [hlen, ← hinp] at IH
      -- facts about prefixes of length exactly `p.length + 1`
      have htake1 : (p ++ c :: cs).take (p.length + 1) = p ++ [c] := by
        rw [hinp, take_append_of_le (by omega), hlen]; simp
      have hlenle : p.length + 1 ≤ (p ++ c :: cs).length := by simp
      cases hfn : firstNullable (orig.map (Rx.derivs (p ++ [c]))) 0 with
      | none =>
        simp only []
        rcases IH best with ⟨hno, hres⟩ | ⟨i, n, hres, hm⟩
        · left
          refine ⟨?_, hres⟩
          intro j r m hj h1 h2 hmm
          by_cases hm1 : m = p.length + 1
          · subst hm1
            rw [htake1, ← Rx.derivs_nullable] at hmm
            have := firstNullable_none hfn j (Rx.derivs (p ++ [c]) r) (by simp [hj])
            rw [this] at hmm; cases hmm
          · exact hno j r m hj (by omega) h2 hmm
        · right
          refine ⟨i, n, hres, ?_⟩
          obtain ⟨h1, h2, h3, h4⟩ := hm
          refine ⟨by omega, h2, h3, ?_⟩
          intro j r m hj hm1 hm2 hmm
          by_cases hm1' : m = p.length + 1
          · subst hm1'
            rw [htake1, ← Rx.derivs_nullable] at hmm
            have := firstNullable_none hfn j (Rx.derivs (p ++ [c]) r) (by simp [hj])
            rw [this] at hmm; cases hmm
          · exact h4 j r m hj (by omega) hm2 hmm
      | some i0 =>
        simp only []
        obtain ⟨_, ⟨r0', hr0', hr0n⟩, hfirst⟩ := firstNullable_some hfn
        simp only [Nat.sub_zero, List.getElem?_map, Option.map_eq_some_iff] at hr0'
        obtain ⟨r0, hr0, rfl⟩ := hr0'
        rw [Rx.derivs_nullable] at hr0n
        rcases IH (some (i0, p.length + 1)) with ⟨hno, hres⟩ | ⟨i, n, hres, hm⟩
        · right
          refine ⟨i0, p.length + 1, hres, by omega, hlenle, ⟨r0, hr0, by rw [htake1]; exact hr0n⟩, ?_⟩
          intro j r m hj hm1 hm2 hmm
          by_cases hm1' : m = p.length + 1
          · subst hm1'
            refine ⟨Nat.le_refl _, fun _ => ?_⟩
            rw [htake1, ← Rx.derivs_nullable] at hmm
            apply Nat.le_of_not_lt
            intro hlt
            have := hfirst j (Rx.derivs (p ++ [c]) r) (by omega) (by simp [hj])
            rw [this] at hmm; cases hmm
          · exact absurd hmm (hno j r m hj (by omega) hm2)
        · right
          refine ⟨i, n, hres, ?_⟩
          obtain ⟨h1, h2, h3, h4⟩ := hm
          refine ⟨by omega, h2, h3, ?_⟩
          intro j r m hj hm1 hm2 hmm
          by_cases hm1' : m = p.length + 1
          · subst hm1'
            exact ⟨by omega, fun h => by omega⟩
          · exact h4 j r m hj (by omega) hm2 hmm

theorem longest_spec (rules : List Rx) (inp : Bytes) :
    (NoMunch rules inp ∧ longest rules inp = none) ∨
    (∃ i n, longest rules inp = some (i, n) ∧ IsMaxMunch rules inp i n) := by
  have h := longestAux_spec rules inp [] none
  simpa [longest, Rx.derivs, isMaxMunch_iff, noMunch_iff] using h

theorem isMaxMunch_unique {rules : List Rx} {inp : Bytes} {i n i' n' : Nat}
    (h : IsMaxMunch rules inp i n) (h' : IsMaxMunch rules inp i' n') : i = i' ∧ n = n' := by
  obtain ⟨a1, a2, ⟨r, a3, a4⟩, a5⟩ := h
  obtain ⟨b1, b2, ⟨r', b3, b4⟩, b5⟩ := h'
  have c1 := a5 i' r' n' b3 b1 b2 b4
  have c2 := b5 i r n a3 a1 a2 a4
  have hn : n = n' := by omega
  refine ⟨?_, hn⟩
  have := c1.2 hn.symm
  have := c2.2 hn
  omega

theorem isMaxMunch_not_noMunch {rules : List Rx} {inp : Bytes} {i n : Nat}
    (h : IsMaxMunch rules inp i n) : ¬ NoMunch rules inp := by
  obtain ⟨a1, a2, ⟨r, a3, a4⟩, _⟩ := h
  intro hno
  exact hno i r n a3 a1 a2 a4

theorem longest_match (rules : List Rx) (inp : Bytes) (i n : Nat) :
    longest rules inp = some (i, n) ↔ IsMaxMunch rules inp i n := by
  rcases longest_spec rules inp with ⟨hno, hres⟩ | ⟨i', n', hres, hm⟩
  · constructor
    · intro h; rw [hres] at h; cases h
    · intro h; exact absurd hno (isMaxMunch_not_noMunch h)
  · constructor
    · intro h
      rw [hres] at h
      cases h
      exact hm
    · intro h
      obtain ⟨rfl, rfl⟩ := isMaxMunch_unique h hm
      exact hres

theorem longest_none (rules : List Rx) (inp : Bytes) :
    longest rules inp = none ↔ NoMunch rules inp := by
  rcases longest_spec rules inp with ⟨hno, hres⟩ | ⟨i', n', hres, hm⟩
  · exact ⟨fun _ => hno, fun _ => hres⟩
  · constructor
    · intro h; rw [hres] at h; cases h
    · intro h; exact absurd h (isMaxMunch_not_noMunch hm)

/-! ### progress with the generated rules -/

theorem catch_all :
    LexGen.rules.getLast? = some (Rx.alt (Rx.ncls [(10, 10)]) (Rx.cls [(10, 10)]), some Tok.NV_ID) := by
  decide +kernel

theorem matches_any_byte (c : UInt8) :
    (Rx.alt (Rx.ncls [(10, 10)]) (Rx.cls [(10, 10)])).Matches [c] := by
  cases h : inRanges [(10, 10)] c
  · exact .altL (.ncls h)
  · exact .altR (.cls h)

theorem longest_total (inp : Bytes) (h : inp ≠ []) :
    (longest (LexGen.rules.map (·.1)) inp).isSome = true := by
  cases hl : longest (LexGen.rules.map (·.1)) inp with
  | some _ => rfl
  | none =>
    exfalso
    rw [longest_none] at hl
    cases inp with
    | nil => exact h rfl
    | cons c cs =>
      have hlast := catch_all
      rw [List.getLast?_eq_getElem?] at hlast
      refine hl (LexGen.rules.length - 1) (Rx.alt (Rx.ncls [(10, 10)]) (Rx.cls [(10, 10)])) 1 ?_ (by omega) (by simp) ?_
      · rw [List.getElem?_map, hlast]; rfl
      · simpa using matches_any_byte c

theorem longest_some_bounds {rules : List Rx} {inp : Bytes} {i n : Nat}
    (h : longest rules inp = some (i, n)) : 0 < n ∧ n ≤ inp.length := by
  rw [longest_match] at h
  exact ⟨h.1, h.2.1⟩

/-! ### `lexemes` / `lexFrom` -/

theorem lexFrom_eq_tokensOfLexemes (rules : List (Rx × Option Nat)) (fuel : Nat) (inp : Bytes)
    (line : Nat) :
    lexFrom rules fuel inp line = tokensOfLexemes rules (lexemes rules fuel inp line) := by
  induction fuel generalizing inp line with
  | zero => simp [lexFrom, lexemes, tokensOfLexemes]
  | succ fuel ih =>
    cases inp with
    | nil => simp [lexFrom, lexemes, tokensOfLexemes]
    | cons c cs =>
      simp only [lexFrom, lexemes]
      cases hl : longest (rules.map (·.1)) (c :: cs) with
      | none => simp [tokensOfLexemes]
      | some v =>
        obtain ⟨i, n⟩ := v
        simp only [ih]
        unfold tokensOfLexemes
        rw [List.filterMap_cons]
        cases hk : (rules[i]?).bind (·.2) with
        | none => simp
        | some k => simp

theorem lexemes_flatten (fuel : Nat) (inp : Bytes) (line : Nat) (hf : inp.length < fuel) :
    ((lexemes LexGen.rules fuel inp line).map (·.2.1)).flatten = inp := by
  induction fuel generalizing inp line with
  | zero => omega
  | succ fuel ih =>
    cases inp with
    | nil => simp [lexemes]
    | cons c cs =>
      simp only [lexemes]
      have htot := longest_total (c :: cs) (by simp)
      cases hl : longest (LexGen.rules.map (·.1)) (c :: cs) with
      | none => rw [hl] at htot; cases htot
      | some v =>
        obtain ⟨i, n⟩ := v
        obtain ⟨hn0, hn1⟩ := longest_some_bounds hl
        simp only [List.map_cons, List.flatten_cons]
        rw [ih]
        · exact List.take_append_drop n (c :: cs)
        · rw [List.length_drop]; simp only [List.length_cons] at hf hn1 ⊢; omega

theorem lexemes_maxmunch (rules : List (Rx × Option Nat)) (fuel : Nat) (inp : Bytes) (line k : Nat)
    (l : Nat × Bytes × Nat) (h : (lexemes rules fuel inp line)[k]? = some l) :
    IsMaxMunch (rules.map (·.1))
        (inp.drop ((((lexemes rules fuel inp line).take k).map (·.2.1)).flatten.length))
        l.1 l.2.1.length ∧
      l.2.1 = (inp.drop ((((lexemes rules fuel inp line).take k).map (·.2.1)).flatten.length)).take
        l.2.1.length := by
  induction fuel generalizing inp line k with
  | zero => simp [lexemes] at h
  | succ fuel ih =>
    cases inp with
    | nil => simp [lexemes] at h
    | cons c cs =>
      simp only [lexemes] at h ⊢
      cases hl : longest (rules.map (·.1)) (c :: cs) with
      | none => rw [hl] at h; simp at h
      | some v =>
        obtain ⟨i, n⟩ := v
        rw [hl] at h
        simp only [] at h ⊢
        obtain ⟨hn0, hn1⟩ := longest_some_bounds hl
        have hlen : ((c :: cs).take n).length = n := by
          rw [List.length_take]; omega
        cases k with
        | zero =>
          simp only [List.getElem?_cons_zero, Option.some.injEq] at h
          subst h
          simp only [List.take_zero, List.map_nil, List.flatten_nil, List.length_nil, List.drop_zero,
            hlen]
          exact ⟨(longest_match _ _ _ _).1 hl, trivial⟩
        | succ k =>
          simp only [List.getElem?_cons_succ] at h
          have := ih _ _ _ h
          simp only [List.take_succ_cons, List.map_cons, List.flatten_cons, List.length_append, hlen]
          rw [← List.drop_drop]
          exact this

theorem lexemes_line (rules : List (Rx × Option Nat)) (fuel : Nat) (inp : Bytes) (line k : Nat)
    (l : Nat × Bytes × Nat) (h : (lexemes rules fuel inp line)[k]? = some l) :
    l.2.2 = line + countNl ((((lexemes rules fuel inp line).take (k + 1)).map (·.2.1)).flatten) := by
  induction fuel generalizing inp line k with
  | zero => simp [lexemes] at h
  | succ fuel ih =>
    cases inp with
    | nil => simp [lexemes] at h
    | cons c cs =>
      simp only [lexemes] at h ⊢
      cases hl : longest (rules.map (·.1)) (c :: cs) with
      | none => rw [hl] at h; simp at h
      | some v =>
        obtain ⟨i, n⟩ := v
        rw [hl] at h
        simp only [] at h ⊢
        cases k with
        | zero =>
          simp only [List.getElem?_cons_zero, Option.some.injEq] at h
          subst h
          simp
        | succ k =>
          simp only [List.getElem?_cons_succ] at h
          have := ih _ _ _ h
          rw [this]
          simp only [List.take_succ_cons, List.map_cons, List.flatten_cons]
          simp only [countNl, List.count_append]
          omega

/-! ### the keyword table -/

theorem keywords_lex :
    LexGen.keywords.all (fun e => lexBuffer e.1 == [⟨e.2, e.1, 1⟩]) = true := by
  decide +kernel

end Theo
