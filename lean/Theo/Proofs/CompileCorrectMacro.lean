/-
  C01 (end to end), part 2: macro extraction and macro application keep the text invariant of
  the token stream (`TokOK`: `ID` tokens are identifier-shaped or start with `#`, `TEMP_VAL`
  tokens start with `#`).

  The stages create a token of kind `ID` in exactly two places:
   * `checkInsertions` turns an out-of-range `$n` of a body into `ID "error"` (identifier-shaped);
   * `replacement` turns a `TEMP_VAL` body token `#n` into `ID (tempName "#n" file line pass)`,
     and `tempName` starts with the temporary's own text, hence with `#`.
  Everything else is copied: the remaining stream, rules and bodies (extraction), body tokens and
  the slot fillers cut out of the stream by the detector (application).

  Proved for an arbitrary predicate `Q` on tokens closed under those two constructions, along the
  lines of the position invariant of Proofs/LocatedProofs2.lean.
-/
import Theo.Proofs.CompileCorrectLex
import Theo.Proofs.LocatedProofs2

namespace Theo
namespace CompileCorrect

section
variable (Q : Token → Prop)

def ToksQ (ts : List Token) : Prop := ∀ t ∈ ts, Q t
def MacQ (m : MacroDef) : Prop := ToksQ Q m.rule ∧ ToksQ Q m.body

/-- closure under `checkInsertions`: a `$n` out of range becomes `ID "error"` -/
def ClosedErr : Prop :=
  ∀ t : Token, Q t → Q { t with kind := Tok.ID, text := [101, 114, 114, 111, 114] }

/-- closure under `replacement`: a temporary is renamed -/
def ClosedTemp : Prop :=
  ∀ (t : Token) (file : Bytes) (line : Int) (pass : Nat), Q t → t.kind = Tok.TEMP_VAL →
    Q { t with kind := Tok.ID, text := tempName t.text file line pass }

variable {Q}

theorem ToksQ.nil : ToksQ Q [] := fun _ h => (by cases h)

theorem ToksQ.append {a b : List Token} (ha : ToksQ Q a) (hb : ToksQ Q b) : ToksQ Q (a ++ b) := by
  intro t ht
  rcases List.mem_append.1 ht with h | h
  · exact ha t h
  · exact hb t h

theorem ToksQ.snoc {a : List Token} {t : Token} (ha : ToksQ Q a) (ht : Q t) : ToksQ Q (a ++ [t]) :=
  ha.append (fun x hx => by rw [List.mem_singleton.1 hx]; exact ht)

theorem ToksQ.sub {a b : List Token} (hb : ToksQ Q b) (h : ∀ t ∈ a, t ∈ b) : ToksQ Q a :=
  fun t ht => hb t (h t ht)

/-! ### extraction -/

structure EInv (Q : Token → Prop) (es : ExSt) : Prop where
  ne : es.toks ≠ []
  toks : ToksQ Q es.toks
  out : ToksQ Q es.out
  macros : ∀ m ∈ es.macros, MacQ Q m

theorem EInv.cur {es : ExSt} (h : EInv Q es) : Q es.cur := h.toks _ (Loc.cur_mem es h.ne)

theorem EInv.err {es : ExSt} (h : EInv Q es) (k : Nat) : EInv Q (es.err k) :=
  ⟨h.ne, h.toks, h.out, h.macros⟩

theorem EInv.advance {es : ExSt} (h : EInv Q es) : EInv Q es.advance :=
  ⟨h.ne, h.toks, h.out, h.macros⟩

theorem EInv.setPos {es : ExSt} (h : EInv Q es) (n : Nat) : EInv Q { es with pos := n } :=
  ⟨h.ne, h.toks, h.out, h.macros⟩

theorem EInv.copy {es : ExSt} (h : EInv Q es) : EInv Q es.copy :=
  ⟨h.ne, h.toks, h.out.snoc h.cur, h.macros⟩

theorem EInv.pushMacro {es : ExSt} (h : EInv Q es) : EInv Q es.pushMacro := by
  refine ⟨h.ne, h.toks, h.out, ?_⟩
  intro m hm
  rcases List.mem_append.1 hm with h1 | h1
  · exact h.macros m h1
  · rw [List.mem_singleton.1 h1]; exact ⟨ToksQ.nil, ToksQ.nil⟩

theorem EInv.popMacro {es : ExSt} (h : EInv Q es) : EInv Q es.popMacro :=
  ⟨h.ne, h.toks, h.out, fun m hm => h.macros m (List.dropLast_subset _ hm)⟩

theorem EInv.modifyLast {es : ExSt} (h : EInv Q es) (f : MacroDef → MacroDef)
    (hf : ∀ m, MacQ Q m → MacQ Q (f m)) : EInv Q (es.modifyLast f) := by
  unfold ExSt.modifyLast
  split
  · next m hm =>
    refine ⟨h.ne, h.toks, h.out, ?_⟩
    intro x hx
    rcases List.mem_append.1 hx with h1 | h1
    · exact h.macros x (List.dropLast_subset _ h1)
    · rw [List.mem_singleton.1 h1]
      exact hf m (h.macros m (List.mem_of_getLast? hm))
  · exact h

theorem EInv.matchK {es : ExSt} (h : EInv Q es) (k : Nat) : EInv Q (es.matchK k).1 := by
  unfold ExSt.matchK
  split
  · exact (h.err _).setPos _
  · exact h.setPos _

theorem EInv.pushRule {es : ExSt} (h : EInv Q es) (hla : es.la ≠ Tok.T_EOF) : EInv Q es.pushRule := by
  obtain ⟨t, ht⟩ := Loc.la_ne_eof hla
  have hp : Q t := h.toks t (List.mem_of_getElem? ht)
  unfold ExSt.pushRule
  rw [ht]
  refine h.modifyLast _ ?_
  intro m hm
  have h1 : ToksQ Q (m.rule ++ [t]) := hm.1.snoc hp
  simp only [Option.getD_some]
  split
  · exact ⟨h1, hm.2⟩
  · split
    · exact ⟨h1, hm.2⟩
    · exact ⟨h1, hm.2⟩

theorem EInv.pushBody {es : ExSt} (h : EInv Q es) (hla : es.la ≠ Tok.T_EOF) : EInv Q es.pushBody := by
  obtain ⟨t, ht⟩ := Loc.la_ne_eof hla
  have hp : Q t := h.toks t (List.mem_of_getElem? ht)
  unfold ExSt.pushBody
  rw [ht]
  exact h.modifyLast _ (fun m hm => ⟨hm.1, hm.2.snoc hp⟩)

theorem EInv.strToInt {es : ExSt} (h : EInv Q es) (text : Bytes) : EInv Q (es.strToInt text).1 := by
  unfold ExSt.strToInt
  simp only
  split
  · exact h.err _
  · exact h

theorem exA_inv : ∀ (f : Nat) (es : ExSt), EInv Q es → EInv Q (exA f es) := by
  intro f
  induction f with
  | zero => intro es h; rw [exA]; exact h
  | succ f ih =>
    intro es h
    rw [exA]
    split
    · exact h.matchK _
    · split
      · exact h.advance
      · split
        · exact ih _ (h.err _).advance
        · next hne _ _ => exact ih _ (h.pushBody hne).advance

theorem exMD_inv : ∀ (f : Nat) (first : Bool) (es : ExSt), EInv Q es → EInv Q (exMD f first es) := by
  intro f
  induction f with
  | zero => intro first es h; rw [exMD]; exact h
  | succ f ih =>
    intro first es h
    rw [exMD]
    split
    · exact (exA_inv _ _ (h.matchK _)).popMacro
    · split
      · split
        · exact (exA_inv _ _ (h.err _).advance).popMacro
        · exact exA_inv _ _ h.advance
      · split
        · exact ih _ _ (h.err _).advance
        · next hne _ _ => exact ih _ _ (h.pushRule hne).advance

theorem prioPart_inv (es : ExSt) (h : EInv Q es) : EInv Q (Loc.prioPart es) := by
  unfold Loc.prioPart
  split
  · simp only
    split
    · exact ((h.advance.matchK _).strToInt _).modifyLast _ (fun m hm => hm)
    · exact h.advance.matchK _
  · exact h

theorem exS_inv : ∀ (f : Nat) (es : ExSt), EInv Q es → EInv Q (exS f es) := by
  intro f
  induction f with
  | zero => intro es h; rw [exS]; exact h
  | succ f ih =>
    intro es h
    rw [Loc.exS_succ]
    split
    · exact h.copy.advance
    · split
      · exact ih _ (exMD_inv _ _ _ (prioPart_inv _ h.advance.pushMacro))
      · exact ih _ h.copy.advance

theorem ciBody_inv (hE : ClosedErr Q) (endTok : Token) (m : MacroDef) (hm : ToksQ Q m.body)
    (errs : List PErr) : ToksQ Q (Loc.ciBody endTok m errs).1 := by
  unfold Loc.ciBody
  refine Loc.foldl_inv (fun a : List Token × List PErr => ToksQ Q a.1) Q _ ?_ m.body _ ToksQ.nil hm
  intro a t ha ht
  split
  · simp only
    split
    · exact ha.snoc (hE t ht)
    · exact ha.snoc ht
  · exact ha.snoc ht

theorem checkInsertions_inv (hE : ClosedErr Q) (endTok : Token) (ms : List MacroDef)
    (hms : ∀ m ∈ ms, MacQ Q m) (errs : List PErr) :
    ∀ m ∈ (checkInsertions endTok ms errs).1, MacQ Q m := by
  rw [Loc.checkInsertions_eq]
  refine Loc.foldl_inv (fun acc : List MacroDef × List PErr => ∀ m ∈ acc.1, MacQ Q m)
    (fun m => MacQ Q m) _ ?_ ms _ (fun _ h => (by cases h)) hms
  intro acc m hacc hm x hx
  rcases List.mem_append.1 hx with h1 | h1
  · exact hacc x h1
  · rw [List.mem_singleton.1 h1]
    exact ⟨hm.1, ciBody_inv hE endTok m hm.2 acc.2⟩

/-- extraction keeps the invariant: the remaining stream, rules and bodies -/
theorem extractMacros_inv (hE : ClosedErr Q) (toks : List Token) (hne : toks ≠ [])
    (ht : ToksQ Q toks) :
    ToksQ Q (extractMacros toks).toks ∧ ∀ m ∈ (extractMacros toks).macros, MacQ Q m := by
  have h0 : EInv Q ⟨toks, [], [], 0, []⟩ := ⟨hne, ht, ToksQ.nil, fun _ h => (by cases h)⟩
  have h1 := exS_inv (toks.length + 2) _ h0
  exact ⟨h1.out, checkInsertions_inv hE _ _ h1.macros _⟩

/-! ### application -/

def AccQ (Q : Token → Prop) (a : Accum) : Prop := ToksQ Q a.total ∧ ∀ l ∈ a.split, ToksQ Q l

theorem toksQ_flatMap_total {vs : List Accum} (h : ∀ v ∈ vs, AccQ Q v) :
    ToksQ Q (vs.flatMap (·.total)) := by
  intro t ht
  obtain ⟨v, hv, htv⟩ := List.mem_flatMap.1 ht
  exact (h v hv).1 t htv

theorem accAct_inv (l a : Nat) (popped : List Accum) (h : ∀ v ∈ popped, AccQ Q v) :
    AccQ Q (accAct l a popped) := by
  unfold accAct
  split
  · refine ⟨toksQ_flatMap_total h, ?_⟩
    intro x hx
    rw [List.mem_reverse, List.mem_map] at hx
    obtain ⟨v, hv, rfl⟩ := hx
    exact (h v hv).1
  · refine ⟨toksQ_flatMap_total (fun v hv => h v (List.mem_reverse.1 hv)), ?_⟩
    intro x hx
    cases hx

theorem detectAt_inv (d : Detector) (inp : List Token) (a : Accum) (hi : ToksQ Q inp)
    (h : detectAt d inp = some a) : AccQ Q a := by
  unfold detectAt at h
  split at h
  · next v hv =>
    cases h
    refine Loc.lrParse_accept_inv d.tables (fun t => t.kind) accLeaf accAct (AccQ Q) Q ?_
      accAct_inv _ _ _ _ _ hi (fun _ hw => (by cases hw)) hv
    intro x hx
    refine ⟨fun t ht => ?_, fun l hl t ht => ?_⟩
    · simp only [accLeaf, List.mem_singleton] at ht; rw [ht]; exact hx
    · simp only [accLeaf, List.mem_singleton] at hl; rw [hl, List.mem_singleton] at ht; rw [ht]; exact hx
  · cases h

/-- the slot fillers of a detection are tokens of the stream -/
theorem detect_inv (d : Detector) (inp : List Token) (r : Response) (hi : ToksQ Q inp)
    (h : detect d inp = some r) : ∀ l ∈ r.matched, ToksQ Q l := by
  obtain ⟨_, ⟨a, ha, _, _, hm⟩, _⟩ := detect_leftmost d inp r h
  rw [hm]
  exact (detectAt_inv d _ a (hi.sub (fun t ht => List.mem_of_mem_drop ht)) ha).2

/-- the replacement: slot fillers, renamed temporaries, copied body tokens -/
theorem replacement_inv (hT : ClosedTemp Q) (m : MacroDef) (r : Response) (pass : Nat)
    (hm : ToksQ Q m.body) (hr : ∀ l ∈ r.matched, ToksQ Q l) : ToksQ Q (replacement m r pass) := by
  unfold replacement
  intro t ht
  simp only [List.mem_flatMap] at ht
  obtain ⟨cand, hc, ht⟩ := ht
  have hcQ := hm cand hc
  split at ht
  · split at ht
    · next ri _ =>
      cases hl : r.matched[ri]? with
      | none => rw [hl] at ht; cases ht
      | some l =>
        rw [hl] at ht
        exact hr l (List.mem_of_getElem? hl) t ht
    · cases ht
  · split at ht
    · next hk =>
      rw [List.mem_singleton.1 ht]
      exact hT cand _ _ _ hcQ hk
    · rw [List.mem_singleton.1 ht]; exact hcQ

theorem applyStep_inv (hT : ClosedTemp Q) (defs : List MacroDef) (hd : ∀ m ∈ defs, MacQ Q m)
    (inp : List Token) (hi : ToksQ Q inp) (p : Nat) (d : Detector) (r : Response) (out : List Token)
    (h : applyStep (bins ((defs.map mkDetector).filter (·.usable))) inp p = some (d, r, out)) :
    ToksQ Q out := by
  obtain ⟨_, hmem⟩ := step_usable defs inp p d r out h
  obtain ⟨_, _, _, _, _, _, hdet, hout, _⟩ := applyStep_some _ _ _ _ _ _ h
  rw [hout]
  refine ((hi.sub (fun t ht => List.mem_of_mem_take ht)).append
    (replacement_inv hT d.md r p (hd _ hmem).2 (detect_inv d inp r hi hdet))).append
    (hi.sub (fun t ht => List.mem_of_mem_drop ht))

theorem passLoop_inv (hT : ClosedTemp Q) (defs : List MacroDef) (hd : ∀ m ∈ defs, MacQ Q m) :
    ∀ (left pass : Nat) (inp : List Token) (n : Nat), ToksQ Q inp →
      ToksQ Q (passLoop (bins ((defs.map mkDetector).filter (·.usable))) left pass inp n).1 := by
  intro left
  induction left with
  | zero => intro pass inp n hi; exact hi
  | succ left ih =>
    intro pass inp n hi
    rw [passLoop_succ]
    cases h : applyStep (bins ((defs.map mkDetector).filter (·.usable))) inp pass with
    | none => exact hi
    | some x =>
      obtain ⟨d, r, inp'⟩ := x
      exact ih _ _ _ (applyStep_inv hT defs hd inp hi pass d r inp' h)

/-- application keeps the invariant -/
theorem applyMacros_inv (hT : ClosedTemp Q) (inp : List Token) (defs : List MacroDef)
    (passes : Nat) (hi : ToksQ Q inp) (hd : ∀ m ∈ defs, MacQ Q m) :
    ToksQ Q (applyMacros inp defs passes).toks := by
  cases passes with
  | zero => exact hi
  | succ k => rw [applyMacros_succ_toks]; exact passLoop_inv hT defs hd _ _ _ _ hi

end

/-! ### the text invariant is closed under the two constructions -/

theorem tokOK_closedErr : ClosedErr TokOK := by
  intro t _
  exact ⟨fun _ => Or.inl (show identShape [101, 114, 114, 111, 114] = true by decide),
    fun h => absurd (show Tok.ID = Tok.TEMP_VAL from h) (by decide)⟩

theorem tempName_head (text file : Bytes) (line : Int) (pass : Nat) (h : text.head? = some 35) :
    (tempName text file line pass).head? = some 35 := by
  cases text with
  | nil => cases h
  | cons c cs => simpa [tempName] using h

theorem tokOK_closedTemp : ClosedTemp TokOK := by
  intro t file line pass ht hk
  exact ⟨fun _ => Or.inr (tempName_head _ _ _ _ (ht.2 hk)),
    fun h => absurd (show Tok.ID = Tok.TEMP_VAL from h) (by decide)⟩

/-- every token that reaches the descent obeys the text invariant, whatever the files -/
theorem pipeline_tokOK (fs : Files) (main : Bytes) (passes : Nat) :
    ToksOK (applyMacros (extractMacros (scan fs main).toks).toks
      (extractMacros (scan fs main).toks).macros passes).toks := by
  have h1 := extractMacros_inv tokOK_closedErr (scan fs main).toks (Loc.scan_toks_ne_nil _ _)
    (scan_tokOK fs main)
  exact applyMacros_inv tokOK_closedTemp _ _ passes h1.1 h1.2

end CompileCorrect
end Theo
