/-
  C01, part 7: one step of the reference machine is simulated by the VM.
-/
import Theo.Proofs.SimExec

set_option linter.unusedSimpArgs false
set_option linter.unusedSectionVars false

namespace Theo
namespace Sim
open Sem WF

/-! ### the stutter measure -/

mutual
def vsize : Value → Nat
  | .var _ => 1
  | .num _ => 1
  | .inc _ _ => 1
  | .dec _ _ => 1
  | .call _ args => 1 + vssize args
def vssize : Values → Nat
  | .nil => 0
  | .cons a as => vsize a + vssize as + 1
end

def ssize1 : Stmt → Nat
  | .assign _ v _ => vsize v + 2
  | _ => 1

def fsize : Stmts → Nat
  | .nil => 0
  | .cons s ss => ssize1 s + fsize ss + 1

def csize : List ECtx → Nat
  | [] => 0
  | c :: cs => vssize c.todo + 1 + csize cs

def fmeasure (fr : Frame) : Nat :=
  match fr.ctrl with
  | .run => fsize fr.focus
  | .eval v _ cs => vsize v + csize cs + fsize fr.focus + 1
  | .ret _ _ cs => csize cs + fsize fr.focus + 1
  | .wait _ _ => 0

def cmeasure (c : Config) : Nat :=
  match c.stack with
  | fr :: _ => fmeasure fr
  | [] => 0

/-! ### the relation on whole states -/

section
variable {src : Source} {p : Program}

def RestRel (V : Valid src p) (d : List Int) (r : Nat) (a : Act) (frs : List Frame)
    (as' : List Act) : Prop :=
  match frs with
  | [] => as' = [] ∧ r = src.progs.length
  | fr2 :: _ => r < src.progs.length ∧ isWait fr2 ∧
      ∃ ip2 : Nat, a.retAddr = (ip2 : Int) ∧ StackRel V d frs as' ip2 a.retTarget

theorem stackRel_cons {V : Valid src p} {d : List Int} {fr : Frame} {frs : List Frame} {a : Act}
    {as' : List Act} {ip : Nat} {rt : Int} :
    StackRel V d (fr :: frs) (a :: as') ip rt ↔
      FrameRel V d fr a ip rt ∧ RestRel V d fr.routine a frs as' := by
  cases frs with
  | nil => simp only [StackRel, RestRel]
  | cons _ _ => simp only [StackRel, RestRel]

theorem stackRel_inv {V : Valid src p} {d : List Int} {fr : Frame} {frs : List Frame}
    {as : List Act} {ip : Nat} {rt : Int} (h : StackRel V d (fr :: frs) as ip rt) :
    ∃ a as', as = a :: as' ∧ FrameRel V d fr a ip rt ∧ RestRel V d fr.routine a frs as' := by
  cases as with
  | nil => simp only [StackRel] at h
  | cons a as' => exact ⟨a, as', rfl, stackRel_cons.1 h⟩

theorem RestRel.below {V : Valid src p} {d d' : List Int} {r : Nat} {a : Act} {frs : List Frame}
    {as' : List Act} (h : RestRel V d r a frs as') (ht : Tiles as' a.dataStart)
    (hs : SameBelow a.dataStart d d') : RestRel V d' r a frs as' := by
  unfold RestRel at h ⊢
  cases frs with
  | nil => exact h
  | cons fr2 frs' =>
    obtain ⟨g1, g2, ip2, g3, g4⟩ := h
    exact ⟨g1, g2, ip2, g3, g4.below ht hs⟩

/-- the words the debugger shows agree with the reference environments -/
def FrameAgrees' (p : Program) (d : List Int) (fr : Frame) (a : Act) : Prop :=
  a.dbg = (fr.routine : Int) ∧
  ∀ sm, p.stackMaps[fr.routine]? = some sm → ∀ e ∈ sm.map, bLoopVar.isPrefixOf e.2 = false →
    0 ≤ e.1 ∧ d[a.dataStart + e.1.toNat]? = some ((fr.env.get e.2 : Nat) : Int)

def StacksAgree' (p : Program) (d : List Int) : List Frame → List Act → Prop
  | [], [] => True
  | fr :: frs, a :: as => FrameAgrees' p d fr a ∧ StacksAgree' p d frs as
  | _, _ => False

theorem FrameRel.agrees {V : Valid src p} (hV : V.OK) {d : List Int} {fr : Frame} {a : Act}
    {ip : Nat} {rt : Int} (h : FrameRel V d fr a ip rt) (he : effEnv fr = fr.env) :
    FrameAgrees' p d fr a := by
  obtain ⟨h1, h2, h3, _⟩ := h
  refine ⟨h2, fun sm hsm e hmem hc => ?_⟩
  obtain ⟨sm', q1, q2⟩ := hV.regs fr.routine h1
  rw [hsm] at q1
  cases q1
  rw [he] at h3
  have := h3.1 e.1 e.2 (by rw [q2]; exact hmem) hc
  exact ⟨this.1, this.2.2.1⟩

theorem effEnv_wait {fr : Frame} (h : isWait fr) : effEnv fr = fr.env := by
  obtain ⟨x, cs, h⟩ := h
  unfold effEnv
  rw [h]

theorem StackRel.agrees {V : Valid src p} (hV : V.OK) {d : List Int} : ∀ {frs : List Frame}
    {as : List Act} {ip : Nat} {rt : Int}, StackRel V d frs as ip rt →
    (∀ fr rest, frs = fr :: rest → effEnv fr = fr.env) → StacksAgree' p d frs as := by
  intro frs
  induction frs with
  | nil => intro as ip rt h _; simp only [StackRel] at h
  | cons fr frs ih =>
    intro as ip rt h he
    obtain ⟨a, as', rfl, h1, h2⟩ := stackRel_inv h
    simp only [StacksAgree']
    refine ⟨h1.agrees hV (he fr frs rfl), ?_⟩
    unfold RestRel at h2
    cases frs with
    | nil => rw [h2.1]; simp only [StacksAgree']
    | cons fr2 frs' =>
      obtain ⟨_, g2, ip2, _, g4⟩ := h2
      exact ih g4 (fun fr' rest' hh => by cases hh; exact effEnv_wait g2)

variable (V : Valid src p) (c : Cert) (R : PcInfo)

structure Match (cfg : Config) (vm : VM) : Prop where
  good : Good p c R.rid vm
  run : cfg.status = .running
  rel : ∃ ip : Nat, Anch p.code vm.ip ip ∧ StackRel V vm.data cfg.stack vm.stack ip 0
  top : ∀ fr rest, cfg.stack = fr :: rest → ¬ isWait fr

def Final (cfg : Config) (vm : VM) : Prop :=
  vm.isDone = .ok true ∧ StacksAgree' p vm.data cfg.stack vm.stack

/-- the outcome of simulating one step of the reference machine -/
inductive StepRes (cfg : Config) (vm : VM) (cfg' : Config) : Prop where
  | run (vm' : VM) : cfg'.status = .running →
      (SP vm vm' ∨ (vm' = vm ∧ cmeasure cfg' < cmeasure cfg)) → Match V c R cfg' vm' →
      StepRes cfg vm cfg'
  | halt (vm' : VM) : cfg'.status = .halted → SS vm vm' → Final (p := p) cfg' vm' →
      StepRes cfg vm cfg'

/-- the part of a matched state that a step inside the top activation leaves alone -/
structure TopCtx (vm : VM) (r : Nat) (a : Act) (as' : List Act) (rest : List Frame) : Prop where
  good : Good p c R.rid vm
  stk : vm.stack = a :: as'
  rle : r ≤ src.progs.length
  dbg : a.dbg = (r : Int)
  restrel : RestRel V vm.data r a rest as'

variable {V c R}

theorem TopCtx.tiles {vm : VM} {r : Nat} {a : Act} {as' : List Act} {rest : List Frame}
    (T : TopCtx V c R vm r a as' rest) : Tiles as' a.dataStart := by
  have := T.good.tiles
  rw [T.stk] at this
  exact this.2.2

theorem TopCtx.finish {vm : VM} {r : Nat} {a : Act} {as' : List Act} {rest : List Frame}
    (T : TopCtx V c R vm r a as' rest) {vm' : VM} (hg : Good p c R.rid vm')
    (hst : vm'.stack = vm.stack) (hsb : SameBelow a.dataStart vm.data vm'.data) {ip' : Nat}
    (ha : Anch p.code vm'.ip ip') {fr' : Frame} (hr : fr'.routine = r)
    (hfo : FrameOK vm'.data a (V.ri r) (effEnv fr') fr'.ctrs)
    (hat : FrameAt (V.env r) (V.G r) (Holds vm'.data a) fr' ip' 0) (hnw : ¬ isWait fr') :
    Match V c R ⟨fr' :: rest, .running⟩ vm' := by
  refine ⟨hg, rfl, ⟨ip', ha, ?_⟩, ?_⟩
  · rw [hst, T.stk]
    show StackRel V vm'.data (fr' :: rest) (a :: as') ip' 0
    rw [stackRel_cons]
    subst hr
    exact ⟨⟨T.rle, T.dbg, hfo, hat⟩, T.restrel.below T.tiles hsb⟩
  · intro fr rest' h
    cases h
    exact hnw

theorem Match.inv {cfg : Config} {vm : VM} (hm : Match V c R cfg vm) :
    ∃ fr rest a as' ip, cfg = ⟨fr :: rest, .running⟩ ∧ TopCtx V c R vm fr.routine a as' rest ∧
      Anch p.code vm.ip ip ∧ FrameOK vm.data a (V.ri fr.routine) (effEnv fr) fr.ctrs ∧
      FrameAt (V.env fr.routine) (V.G fr.routine) (Holds vm.data a) fr ip 0 ∧ ¬ isWait fr := by
  obtain ⟨hg, hrun, ⟨ip, ha, hrel⟩, htop⟩ := hm
  obtain ⟨stack, status⟩ := cfg
  simp only at hrun hrel htop
  subst hrun
  cases stack with
  | nil => simp only [StackRel] at hrel
  | cons fr rest =>
    obtain ⟨a, as', hst, ⟨h1, h2, h3, h4⟩, hr⟩ := stackRel_inv hrel
    exact ⟨fr, rest, a, as', ip, rfl, ⟨hg, hst, h1, h2, hr⟩, ha, h3, h4, htop fr rest rfl⟩

/-! ### the cases of `Sem.step` -/

section cases
variable (hc : CertOK p c R) (hV : V.OK)
variable {vm : VM} {r : Nat} {a : Act} {as' : List Act} {rest : List Frame} {ip : Nat}
  {env : Env} {ctrs : Ctrs} {k : Kont}

include hc hV

theorem step_assign (T : TopCtx V c R vm r a as' rest) (ha : Anch p.code vm.ip ip)
    {x : Name} {v : Value} {pos : Pos} {ss : Stmts}
    (hfo : FrameOK vm.data a (V.ri r) env ctrs)
    (hat : FrameAt (V.env r) (V.G r) (Holds vm.data a)
      ⟨r, env, ctrs, .cons (.assign x v pos) ss, k, .run⟩ ip 0) :
    StepRes V c R ⟨⟨r, env, ctrs, .cons (.assign x v pos) ss, k, .run⟩ :: rest, .running⟩ vm
      (Sem.step src ⟨⟨r, env, ctrs, .cons (.assign x v pos) ss, k, .run⟩ :: rest, .running⟩) := by
  show StepRes V c R _ vm ⟨⟨r, env, ctrs, ss, k, .eval v x []⟩ :: rest, .running⟩
  simp only [FrameAt, SAt, SAt1] at hat
  obtain ⟨pcE, ⟨pc1, ⟨rx, hrx, hcv⟩, hss⟩, hk⟩ := hat
  refine StepRes.run vm rfl (Or.inr ⟨rfl, ?_⟩) ?_
  · simp only [cmeasure, fmeasure, fsize, ssize1, csize]
    omega
  · refine T.finish T.good rfl (SameBelow.refl _ _) ha rfl hfo ?_ (fun ⟨_, _, h⟩ => nomatch h)
    simp only [FrameAt]
    exact ⟨[], rx, pc1, pc1, pcE, hcv, ⟨rfl, hrx, rfl⟩, hss, hk⟩

theorem step_mark (T : TopCtx V c R vm r a as' rest) (ha : Anch p.code vm.ip ip)
    {m : Name} {pos : Pos} {ss : Stmts}
    (hfo : FrameOK vm.data a (V.ri r) env ctrs)
    (hat : FrameAt (V.env r) (V.G r) (Holds vm.data a)
      ⟨r, env, ctrs, .cons (.mark m pos) ss, k, .run⟩ ip 0) :
    StepRes V c R ⟨⟨r, env, ctrs, .cons (.mark m pos) ss, k, .run⟩ :: rest, .running⟩ vm
      (Sem.step src ⟨⟨r, env, ctrs, .cons (.mark m pos) ss, k, .run⟩ :: rest, .running⟩) := by
  show StepRes V c R _ vm ⟨⟨r, env, ctrs, ss, k, .run⟩ :: rest, .running⟩
  simp only [FrameAt, SAt, SAt1] at hat
  obtain ⟨pcE, ⟨pc1, rfl, hss⟩, hk⟩ := hat
  refine StepRes.run vm rfl (Or.inr ⟨rfl, ?_⟩) ?_
  · simp only [cmeasure, fmeasure, fsize, ssize1]
    omega
  · refine T.finish T.good rfl (SameBelow.refl _ _) ha rfl hfo ?_ (fun ⟨_, _, h⟩ => nomatch h)
    simp only [FrameAt]
    exact ⟨pcE, hss, hk⟩

omit hc hV in
theorem named_not_temp {e : VEnv} {live ts : List Int} {r' : Int} (hn : e.me.isNamed r' = true)
    (hts : ∀ t ∈ ts, tempOK e live t = true) : r' ∉ ts := by
  intro hm
  have := (tempOK_iff.1 (hts r' hm)).1
  rw [hn] at this
  cases this

omit hc hV in
theorem live_not_temp {e : VEnv} {live ts : List Int} {r' : Int} (hl : r' ∈ live)
    (hts : ∀ t ∈ ts, tempOK e live t = true) : r' ∉ ts := by
  intro hm
  have := (tempOK_iff.1 (hts r' hm)).2
  rw [List.contains_iff_mem.2 hl] at this
  cases this

theorem step_eval_simple (T : TopCtx V c R vm r a as' rest) (ha : Anch p.code vm.ip ip)
    {v : Value} {x : Name} {cs : List ECtx} {focus : Stmts} {n : Nat} (hv : SimpleVal env v n)
    (hfo : FrameOK vm.data a (V.ri r) env ctrs)
    (hat : FrameAt (V.env r) (V.G r) (Holds vm.data a)
      ⟨r, env, ctrs, focus, k, .eval v x cs⟩ ip 0) :
    StepRes V c R ⟨⟨r, env, ctrs, focus, k, .eval v x cs⟩ :: rest, .running⟩ vm
      ⟨⟨r, env, ctrs, focus, k, .ret n x cs⟩ :: rest, .running⟩ := by
  simp only [FrameAt] at hat
  obtain ⟨live, tgt, pc', pcS, pcE, hcv, hctx, hss, hk⟩ := hat
  obtain ⟨vm', ts, s1, g1, ip1, p1, hh, hts⟩ :=
    eval_simple hc (e := V.env r) rfl T.good T.stk ha hfo hcv hv
  refine StepRes.run vm' rfl (Or.inl s1) ?_
  have hctx' : CtxAt (V.env r) (Holds vm'.data a) cs x live tgt pc' pcS := by
    refine hctx.pres (fun t ht n' hn' => p1.other t n' ?_ hn')
    intro hm
    rcases List.mem_cons.1 hm with rfl | hm
    · exact hctx.not_live ht
    · exact live_not_temp ht hts hm
  refine T.finish g1 p1.stack p1.below (by rw [ip1]; exact Anch.self _ _) rfl ?_ ?_
    (fun ⟨_, _, h⟩ => nomatch h)
  · cases cs with
    | nil =>
      simp only [CtxAt] at hctx
      obtain ⟨_, hrx, _⟩ := hctx
      show FrameOK vm'.data a (V.ri r) (env.set x n) ctrs
      refine hfo.write_named (hV.nodup r T.rle) hrx hh (fun r' w hn hne hw => p1.other r' w ?_ hw)
      intro hm
      rcases List.mem_cons.1 hm with rfl | hm
      · exact hne rfl
      · exact named_not_temp (e := V.env r) hn hts hm
    | cons c1 cs' =>
      simp only [CtxAt] at hctx
      obtain ⟨live', acc, temps, pc1, tgt', pc'', _, htmp, _⟩ := hctx
      show FrameOK vm'.data a (V.ri r) env ctrs
      refine hfo.pres (fun r' w hn hw => p1.other r' w ?_ hw)
      intro hm
      rcases List.mem_cons.1 hm with rfl | hm
      · have := (tempOK_iff.1 htmp).1
        rw [show (V.env r).me.isNamed r' = (V.ri r).isNamed r' from rfl, hn] at this
        cases this
      · exact named_not_temp (e := V.env r) hn hts hm
  · simp only [FrameAt]
    exact ⟨live, tgt, pcS, pcE, hh, hctx', hss, hk⟩

theorem step_eval_call_cons (T : TopCtx V c R vm r a as' rest) (ha : Anch p.code vm.ip ip)
    {f : Name} {a0 : Value} {as0 : Values} {x : Name} {cs : List ECtx} {focus : Stmts}
    (hfo : FrameOK vm.data a (V.ri r) env ctrs)
    (hat : FrameAt (V.env r) (V.G r) (Holds vm.data a)
      ⟨r, env, ctrs, focus, k, .eval (.call f (.cons a0 as0)) x cs⟩ ip 0) :
    StepRes V c R ⟨⟨r, env, ctrs, focus, k, .eval (.call f (.cons a0 as0)) x cs⟩ :: rest, .running⟩ vm
      ⟨⟨r, env, ctrs, focus, k, .eval a0 x (⟨f, [], as0⟩ :: cs)⟩ :: rest, .running⟩ := by
  simp only [FrameAt] at hat
  obtain ⟨live, tgt, pc', pcS, pcE, hcv, hctx, hss, hk⟩ := hat
  obtain ⟨temps, pc1, hargs, htail⟩ := checkValue_call hcv
  obtain ⟨t, pca, hcv0, htmp, hargs'⟩ := checkArgs_cons hargs
  refine StepRes.run vm rfl (Or.inr ⟨rfl, ?_⟩) ?_
  · simp only [cmeasure, fmeasure, vsize, vssize, csize]
    omega
  · refine T.finish T.good rfl (SameBelow.refl _ _) ha rfl hfo ?_ (fun ⟨_, _, h⟩ => nomatch h)
    simp only [FrameAt]
    refine ⟨live ++ [], t, pca, pcS, pcE, hcv0, ?_, hss, hk⟩
    simp only [CtxAt]
    exact ⟨live, [], temps, pc1, tgt, pc', rfl, htmp, HoldAll.nil _, hargs', htail, hctx⟩

theorem step_ret_nil (T : TopCtx V c R vm r a as' rest) (ha : Anch p.code vm.ip ip)
    {n : Nat} {x : Name} {focus : Stmts}
    (hfo : FrameOK vm.data a (V.ri r) (env.set x n) ctrs)
    (hat : FrameAt (V.env r) (V.G r) (Holds vm.data a)
      ⟨r, env, ctrs, focus, k, .ret n x []⟩ ip 0) :
    StepRes V c R ⟨⟨r, env, ctrs, focus, k, .ret n x []⟩ :: rest, .running⟩ vm
      ⟨⟨r, env.set x n, ctrs, focus, k, .run⟩ :: rest, .running⟩ := by
  simp only [FrameAt, CtxAt] at hat
  obtain ⟨live, tgt, pcS, pcE, hh, ⟨_, hrx, rfl⟩, hss, hk⟩ := hat
  refine StepRes.run vm rfl (Or.inr ⟨rfl, ?_⟩) ?_
  · simp only [cmeasure, fmeasure, csize]
    omega
  · refine T.finish T.good rfl (SameBelow.refl _ _) ha rfl hfo ?_ (fun ⟨_, _, h⟩ => nomatch h)
    simp only [FrameAt]
    exact ⟨pcE, hss, hk⟩

theorem step_ret_cons_more (T : TopCtx V c R vm r a as' rest) (ha : Anch p.code vm.ip ip)
    {n : Nat} {x : Name} {f : Name} {done : List Nat} {a0 : Value} {as0 : Values}
    {cs' : List ECtx} {focus : Stmts}
    (hfo : FrameOK vm.data a (V.ri r) env ctrs)
    (hat : FrameAt (V.env r) (V.G r) (Holds vm.data a)
      ⟨r, env, ctrs, focus, k, .ret n x (⟨f, done, .cons a0 as0⟩ :: cs')⟩ ip 0) :
    StepRes V c R
      ⟨⟨r, env, ctrs, focus, k, .ret n x (⟨f, done, .cons a0 as0⟩ :: cs')⟩ :: rest, .running⟩ vm
      ⟨⟨r, env, ctrs, focus, k, .eval a0 x (⟨f, done ++ [n], as0⟩ :: cs')⟩ :: rest, .running⟩ := by
  simp only [FrameAt, CtxAt] at hat
  obtain ⟨live, tgt, pcS, pcE, hh, ⟨live', acc, temps, pc1, tgt', pc', rfl, htmp, hacc, hargs, htail,
    hctx⟩, hss, hk⟩ := hat
  obtain ⟨t, pca, hcv0, htmp0, hargs'⟩ := checkArgs_cons hargs
  refine StepRes.run vm rfl (Or.inr ⟨rfl, ?_⟩) ?_
  · simp only [cmeasure, fmeasure, vsize, vssize, csize]
    omega
  · refine T.finish T.good rfl (SameBelow.refl _ _) ha rfl hfo ?_ (fun ⟨_, _, h⟩ => nomatch h)
    simp only [FrameAt]
    refine ⟨live' ++ (acc ++ [tgt]), t, pca, pcS, pcE, hcv0, ?_, hss, hk⟩
    simp only [CtxAt]
    exact ⟨live', acc ++ [tgt], temps, pc1, tgt', pc', rfl, htmp0, hacc.snoc hh, hargs', htail, hctx⟩

theorem push_call (T : TopCtx V c R vm r a as' rest) {pc1 : Nat} (ha : Anch p.code vm.ip pc1)
    {f : Name} {live temps : List Int} {tgt : Int} {pc' : Nat}
    (hct : CallTail (V.env r) f live temps pc1 tgt pc') {vals : List Nat}
    (hh : HoldAll (Holds vm.data a) temps vals) {x : Name} {cs : List ECtx} {focus : Stmts}
    {pcS pcE : Nat} (hfo : FrameOK vm.data a (V.ri r) env ctrs)
    (hctx : CtxAt (V.env r) (Holds vm.data a) cs x live tgt pc' pcS)
    (hss : SAt (V.env r) (V.G r) focus pcS pcE) (hk : KAt (V.env r) (V.G r) k pcE (V.G r).pc)
    (cfg0 : Config) :
    StepRes V c R cfg0 vm (doCall src ⟨r, env, ctrs, focus, k, .wait x cs⟩ rest f vals) := by
  obtain ⟨j, pd, hlook, hjr, hpd, hlen, vm', callee, s1, g1, ip1, st1, hra, hrt, hdbg, hsb, hfoc⟩ :=
    do_call hc hV T.rle T.good T.stk ha hct hh
  have hjn : j < src.progs.length := Nat.lt_of_lt_of_le hjr T.rle
  have hin := T.good.top_in T.stk
  have hdc : doCall src ⟨r, env, ctrs, focus, k, .wait x cs⟩ rest f vals =
      ⟨⟨j, bindParams pd.params vals [], [], pd.body, .done, .run⟩ ::
        ⟨r, env, ctrs, focus, k, .wait x cs⟩ :: rest, .running⟩ := by
    unfold doCall
    simp only [hlook]
    rw [if_pos hlen]
  rw [hdc]
  refine StepRes.run vm' rfl (Or.inl s1) ⟨g1, rfl, ⟨V.start j, by rw [ip1]; exact Anch.self _ _, ?_⟩, ?_⟩
  · rw [st1]
    show StackRel V vm'.data (_ :: _ :: rest) (callee :: a :: as') (V.start j) 0
    rw [stackRel_cons]
    refine ⟨⟨Nat.le_of_lt hjn, hdbg, hfoc, ?_⟩, ?_⟩
    · simp only [FrameAt]
      have := checkStmts_sat (V.env j) (V.G j) (bodyOf src j) _ _ (hV.chk j (Nat.le_of_lt hjn))
        (Sub.refl _)
      unfold bodyOf at this
      rw [hpd] at this
      exact ⟨(V.G j).pc, this, by simp only [KAt]⟩
    · show RestRel V vm'.data j callee (_ :: rest) (a :: as')
      unfold RestRel
      refine ⟨hjn, ⟨x, cs, rfl⟩, pc', hra, ?_⟩
      rw [stackRel_cons, hrt]
      refine ⟨⟨T.rle, T.dbg, hfo.below (by omega) hsb, ?_⟩,
        T.restrel.below T.tiles (hsb.mono (by omega))⟩
      simp only [FrameAt]
      exact ⟨live, pcS, pcE, hctx.mono (fun _ _ h => h.below (by omega) hsb), hss, hk⟩
  · intro fr rest' h
    cases h
    exact fun ⟨_, _, h⟩ => nomatch h

theorem step_eval_call_nil (T : TopCtx V c R vm r a as' rest) (ha : Anch p.code vm.ip ip)
    {f : Name} {x : Name} {cs : List ECtx} {focus : Stmts}
    (hfo : FrameOK vm.data a (V.ri r) env ctrs)
    (hat : FrameAt (V.env r) (V.G r) (Holds vm.data a)
      ⟨r, env, ctrs, focus, k, .eval (.call f .nil) x cs⟩ ip 0) (cfg0 : Config) :
    StepRes V c R cfg0 vm (doCall src ⟨r, env, ctrs, focus, k, .wait x cs⟩ rest f []) := by
  simp only [FrameAt] at hat
  obtain ⟨live, tgt, pc', pcS, pcE, hcv, hctx, hss, hk⟩ := hat
  obtain ⟨temps, pc1, hargs, htail⟩ := checkValue_call hcv
  rw [checkArgs_nil] at hargs
  cases hargs
  exact push_call hc hV T ha htail (HoldAll.nil _) hfo hctx hss hk cfg0

theorem step_ret_cons_call (T : TopCtx V c R vm r a as' rest) (ha : Anch p.code vm.ip ip)
    {n : Nat} {x : Name} {f : Name} {done : List Nat} {cs' : List ECtx} {focus : Stmts}
    (hfo : FrameOK vm.data a (V.ri r) env ctrs)
    (hat : FrameAt (V.env r) (V.G r) (Holds vm.data a)
      ⟨r, env, ctrs, focus, k, .ret n x (⟨f, done, .nil⟩ :: cs')⟩ ip 0) (cfg0 : Config) :
    StepRes V c R cfg0 vm
      (doCall src ⟨r, env, ctrs, focus, k, .wait x cs'⟩ rest f (done ++ [n])) := by
  simp only [FrameAt, CtxAt] at hat
  obtain ⟨live, tgt, pcS, pcE, hh, ⟨live', acc, temps, pc1, tgt', pc', rfl, htmp, hacc, hargs, htail,
    hctx⟩, hss, hk⟩ := hat
  rw [checkArgs_nil] at hargs
  cases hargs
  exact push_call hc hV T ha htail (hacc.snoc hh) hfo hctx hss hk cfg0

theorem step_loop (T : TopCtx V c R vm r a as' rest) (ha : Anch p.code vm.ip ip)
    {id : Nat} {x : Name} {body : Stmts} {pos : Pos} {ss : Stmts}
    (hfo : FrameOK vm.data a (V.ri r) env ctrs)
    (hat : FrameAt (V.env r) (V.G r) (Holds vm.data a)
      ⟨r, env, ctrs, .cons (.loop id x body pos) ss, k, .run⟩ ip 0) (cfg0 : Config) :
    StepRes V c R cfg0 vm
      (if env.get x ≠ 0 then
        ⟨⟨r, env, ctrs.set id (env.get x), body, .loop id body ss k, .run⟩ :: rest, .running⟩
       else ⟨⟨r, env, ctrs.set id (env.get x), ss, k, .run⟩ :: rest, .running⟩) := by
  simp only [FrameAt, SAt, SAt1] at hat
  obtain ⟨pcE, ⟨pc1, ⟨ctr, rx, offE, offL, pcB, hctr, hrx, h1, h2, hbody, h3, h4, hA1, hA2, rfl⟩,
    hss⟩, hk⟩ := hat
  have he : (V.env r).code = p.code := rfl
  have hx := hfo.reg hrx
  obtain ⟨_, _, vm1, s1, g1, ip1, p1, hh1⟩ :=
    r_add hc T.good T.stk ha (at_code he h1) hx (clamp_zero hx.2.2.2) hx.2.2.2
  have st1 := p1.stack.trans T.stk
  have a1 : Anch p.code vm1.ip ((V.env r).next ip) := by
    rw [ip1, next_code he]; exact Anch.self _ _
  obtain ⟨vm2, s2, g2, ip2, st2, d2⟩ := r_jmpc hc g1 st1 a1 (at_code he h2) hh1
  have hfo2 : FrameOK vm2.data a (V.ri r) env (ctrs.set id (env.get x)) := by
    rw [d2]
    exact hfo.write_ctr (hV.nodup r T.rle) hctr hh1
      (fun r' w _ hne hw => p1.other r' w (by simp [hne]) hw)
  have hsb : SameBelow a.dataStart vm.data vm2.data := by rw [d2]; exact p1.below
  by_cases hn : env.get x ≠ 0
  · rw [if_pos hn]
    rw [if_neg hn] at ip2
    refine StepRes.run vm2 rfl (Or.inl (s1.trans s2)) ?_
    refine T.finish g2 (st2.trans p1.stack) hsb (ip' := (V.env r).next ((V.env r).next ip)) ?_ rfl hfo2
      ?_ (fun ⟨_, _, h⟩ => nomatch h)
    · rw [ip2, next_code he ((V.env r).next ip)]; exact Anch.self _ _
    · simp only [FrameAt, KAt]
      exact ⟨pcB, hbody, ctr, offE, offL, (V.env r).next ip, pcE, hctr, h2, hbody, h3, h4, hA1, hA2,
        hss, hk⟩
  · rw [if_neg hn]
    have hn0 : env.get x = 0 := by omega
    rw [if_pos hn0] at ip2
    refine StepRes.run vm2 rfl (Or.inl (s1.trans s2)) ?_
    refine T.finish g2 (st2.trans p1.stack) hsb
      (ip' := skipc (V.env r).code ((V.env r).next pcB) + 1) ?_ rfl hfo2 ?_
      (fun ⟨_, _, h⟩ => nomatch h)
    · rw [ip2]; exact hA2
    · simp only [FrameAt]
      exact ⟨pcE, hss, hk⟩

theorem step_while (T : TopCtx V c R vm r a as' rest) (ha : Anch p.code vm.ip ip)
    {x : Name} {body : Stmts} {pos : Pos} {ss : Stmts}
    (hfo : FrameOK vm.data a (V.ri r) env ctrs)
    (hat : FrameAt (V.env r) (V.G r) (Holds vm.data a)
      ⟨r, env, ctrs, .cons (.while_ x body pos) ss, k, .run⟩ ip 0) (cfg0 : Config) :
    StepRes V c R cfg0 vm
      (if env.get x ≠ 0 then
        ⟨⟨r, env, ctrs, body, .while_ x body ss k, .run⟩ :: rest, .running⟩
       else ⟨⟨r, env, ctrs, ss, k, .run⟩ :: rest, .running⟩) := by
  simp only [FrameAt, SAt, SAt1] at hat
  obtain ⟨pcE, ⟨pc1, ⟨rx, tmp, offE, offL, pcB, hrx, htmp, h1, h2, hbody, h3, hA1, hA2, rfl⟩,
    hss⟩, hk⟩ := hat
  have he : (V.env r).code = p.code := rfl
  have hx := hfo.reg hrx
  obtain ⟨_, _, vm1, s1, g1, ip1, p1, hh1⟩ :=
    r_add hc T.good T.stk ha (at_code he h1) hx (clamp_zero hx.2.2.2) hx.2.2.2
  have st1 := p1.stack.trans T.stk
  have a1 : Anch p.code vm1.ip ((V.env r).next ip) := by
    rw [ip1, next_code he]; exact Anch.self _ _
  obtain ⟨vm2, s2, g2, ip2, st2, d2⟩ := r_jmpc hc g1 st1 a1 (at_code he h2) hh1
  have hfo2 : FrameOK vm2.data a (V.ri r) env ctrs := by
    rw [d2]
    refine hfo.pres (fun r' w hn hw => p1.other r' w ?_ hw)
    intro hm
    rw [List.mem_singleton] at hm
    subst hm
    rw [show (V.env r).me.isNamed r' = (V.ri r).isNamed r' from rfl, hn] at htmp
    cases htmp
  have hsb : SameBelow a.dataStart vm.data vm2.data := by rw [d2]; exact p1.below
  by_cases hn : env.get x ≠ 0
  · rw [if_pos hn]
    rw [if_neg hn] at ip2
    refine StepRes.run vm2 rfl (Or.inl (s1.trans s2)) ?_
    refine T.finish g2 (st2.trans p1.stack) hsb (ip' := (V.env r).next ((V.env r).next ip)) ?_ rfl hfo2
      ?_ (fun ⟨_, _, h⟩ => nomatch h)
    · rw [ip2, next_code he ((V.env r).next ip)]; exact Anch.self _ _
    · simp only [FrameAt, KAt]
      exact ⟨pcB, hbody, rx, tmp, offE, offL, ip, pcE, hrx, htmp, h1, h2, hbody, h3, hA1, hA2,
        hss, hk⟩
  · rw [if_neg hn]
    have hn0 : env.get x = 0 := by omega
    rw [if_pos hn0] at ip2
    refine StepRes.run vm2 rfl (Or.inl (s1.trans s2)) ?_
    refine T.finish g2 (st2.trans p1.stack) hsb
      (ip' := skipc (V.env r).code pcB + 1) ?_ rfl hfo2 ?_
      (fun ⟨_, _, h⟩ => nomatch h)
    · rw [ip2]; exact hA2
    · simp only [FrameAt]
      exact ⟨pcE, hss, hk⟩

theorem step_end_loop (T : TopCtx V c R vm r a as' rest) (ha : Anch p.code vm.ip ip)
    {id : Nat} {body ss : Stmts} {k' : Kont}
    (hfo : FrameOK vm.data a (V.ri r) env ctrs)
    (hat : FrameAt (V.env r) (V.G r) (Holds vm.data a)
      ⟨r, env, ctrs, .nil, .loop id body ss k', .run⟩ ip 0) (cfg0 : Config) :
    StepRes V c R cfg0 vm
      (if ctrs.get id - 1 ≠ 0 then
        ⟨⟨r, env, ctrs.set id (ctrs.get id - 1), body, .loop id body ss k', .run⟩ :: rest, .running⟩
       else ⟨⟨r, env, ctrs.set id (ctrs.get id - 1), ss, k', .run⟩ :: rest, .running⟩) := by
  simp only [FrameAt, SAt, KAt] at hat
  obtain ⟨pcE, rfl, ctr, offE, offL, pJ, pcR, hctr, hJ, hbody, h3, h4, hA1, hA2, hss, hk⟩ := hat
  have he : (V.env r).code = p.code := rfl
  have hc0 := hfo.2 id ctr hctr
  obtain ⟨_, _, vm1, s1, g1, ip1, p1, hh1⟩ :=
    r_add hc T.good T.stk ha (at_code he h3) hc0 (clamp_pred hc0.2.2.2)
      (Nat.le_trans (Nat.sub_le _ _) hc0.2.2.2)
  have st1 := p1.stack.trans T.stk
  have a1 : Anch p.code vm1.ip ((V.env r).next pcE) := by
    rw [ip1, next_code he]; exact Anch.self _ _
  obtain ⟨vm2, s2, g2, ip2, st2, d2⟩ := r_jmp hc g1 a1 (at_code he h4)
  have a2 : Anch p.code vm2.ip pJ := by rw [ip2]; exact hA1
  have hh2 : Holds vm2.data a ctr (ctrs.get id - 1) := by rw [d2]; exact hh1
  obtain ⟨vm3, s3, g3, ip3, st3, d3⟩ := r_jmpc hc g2 (st2.trans st1) a2 (at_code he hJ) hh2
  have hfo3 : FrameOK vm3.data a (V.ri r) env (ctrs.set id (ctrs.get id - 1)) := by
    rw [d3, d2]
    exact hfo.write_ctr (hV.nodup r T.rle) hctr hh1
      (fun r' w _ hne hw => p1.other r' w (by simp [hne]) hw)
  have hsb : SameBelow a.dataStart vm.data vm3.data := by rw [d3, d2]; exact p1.below
  have hst3 : vm3.stack = vm.stack := (st3.trans st2).trans p1.stack
  by_cases hn : ctrs.get id - 1 ≠ 0
  · rw [if_pos hn]
    rw [if_neg hn] at ip3
    refine StepRes.run vm3 rfl (Or.inl ((s1.trans s2).trans s3)) ?_
    refine T.finish g3 hst3 hsb (ip' := (V.env r).next pJ) ?_ rfl hfo3
      ?_ (fun ⟨_, _, h⟩ => nomatch h)
    · rw [ip3, next_code he pJ]; exact Anch.self _ _
    · simp only [FrameAt, KAt]
      exact ⟨pcE, hbody, ctr, offE, offL, pJ, pcR, hctr, hJ, hbody, h3, h4, hA1, hA2, hss, hk⟩
  · rw [if_neg hn]
    have hn0 : ctrs.get id - 1 = 0 := by omega
    rw [if_pos hn0] at ip3
    refine StepRes.run vm3 rfl (Or.inl ((s1.trans s2).trans s3)) ?_
    refine T.finish g3 hst3 hsb
      (ip' := skipc (V.env r).code ((V.env r).next pcE) + 1) ?_ rfl hfo3 ?_
      (fun ⟨_, _, h⟩ => nomatch h)
    · rw [ip3]; exact hA2
    · simp only [FrameAt]
      exact ⟨pcR, hss, hk⟩

theorem step_end_while (T : TopCtx V c R vm r a as' rest) (ha : Anch p.code vm.ip ip)
    {x : Name} {body ss : Stmts} {k' : Kont}
    (hfo : FrameOK vm.data a (V.ri r) env ctrs)
    (hat : FrameAt (V.env r) (V.G r) (Holds vm.data a)
      ⟨r, env, ctrs, .nil, .while_ x body ss k', .run⟩ ip 0) (cfg0 : Config) :
    StepRes V c R cfg0 vm
      (if env.get x ≠ 0 then
        ⟨⟨r, env, ctrs, body, .while_ x body ss k', .run⟩ :: rest, .running⟩
       else ⟨⟨r, env, ctrs, ss, k', .run⟩ :: rest, .running⟩) := by
  simp only [FrameAt, SAt, KAt] at hat
  obtain ⟨pcE, rfl, rx, tmp, offE, offL, pL, pcR, hrx, htmp, h1, h2, hbody, h3, hA1, hA2, hss, hk⟩ :=
    hat
  have he : (V.env r).code = p.code := rfl
  obtain ⟨vm0, s0, g0, ip0, st0, d0⟩ := r_jmp hc T.good ha (at_code he h3)
  have a0 : Anch p.code vm0.ip pL := by rw [ip0]; exact hA1
  have hx : Holds vm0.data a rx (env.get x) := by rw [d0]; exact hfo.reg hrx
  obtain ⟨_, _, vm1, s1, g1, ip1, p1, hh1⟩ :=
    r_add hc g0 (st0.trans T.stk) a0 (at_code he h1) hx (clamp_zero hx.2.2.2) hx.2.2.2
  have st1 := (p1.stack.trans st0).trans T.stk
  have a1 : Anch p.code vm1.ip ((V.env r).next pL) := by
    rw [ip1, next_code he]; exact Anch.self _ _
  obtain ⟨vm2, s2, g2, ip2, st2, d2⟩ := r_jmpc hc g1 st1 a1 (at_code he h2) hh1
  have hfo2 : FrameOK vm2.data a (V.ri r) env ctrs := by
    rw [d2]
    refine hfo.pres (fun r' w hn hw => p1.other r' w ?_ (by rw [d0]; exact hw))
    intro hm
    rw [List.mem_singleton] at hm
    subst hm
    rw [show (V.env r).me.isNamed r' = (V.ri r).isNamed r' from rfl, hn] at htmp
    cases htmp
  have hsb : SameBelow a.dataStart vm.data vm2.data := by
    rw [d2]; have := p1.below; rw [d0] at this; exact this
  have hst2 : vm2.stack = vm.stack := (st2.trans p1.stack).trans st0
  by_cases hn : env.get x ≠ 0
  · rw [if_pos hn]
    rw [if_neg hn] at ip2
    refine StepRes.run vm2 rfl (Or.inl ((s0.trans s1).trans s2)) ?_
    refine T.finish g2 hst2 hsb (ip' := (V.env r).next ((V.env r).next pL)) ?_ rfl hfo2
      ?_ (fun ⟨_, _, h⟩ => nomatch h)
    · rw [ip2, next_code he ((V.env r).next pL)]; exact Anch.self _ _
    · simp only [FrameAt, KAt]
      exact ⟨pcE, hbody, rx, tmp, offE, offL, pL, pcR, hrx, htmp, h1, h2, hbody, h3, hA1, hA2,
        hss, hk⟩
  · rw [if_neg hn]
    have hn0 : env.get x = 0 := by omega
    rw [if_pos hn0] at ip2
    refine StepRes.run vm2 rfl (Or.inl ((s0.trans s1).trans s2)) ?_
    refine T.finish g2 hst2 hsb
      (ip' := skipc (V.env r).code pcE + 1) ?_ rfl hfo2 ?_
      (fun ⟨_, _, h⟩ => nomatch h)
    · rw [ip2]; exact hA2
    · simp only [FrameAt]
      exact ⟨pcR, hss, hk⟩

theorem step_goto (T : TopCtx V c R vm r a as' rest) (ha : Anch p.code vm.ip ip)
    {m : Name} {pos : Pos} {ss : Stmts}
    (hfo : FrameOK vm.data a (V.ri r) env ctrs)
    (hat : FrameAt (V.env r) (V.G r) (Holds vm.data a)
      ⟨r, env, ctrs, .cons (.goto m pos) ss, k, .run⟩ ip 0) (cfg0 : Config) :
    StepRes V c R cfg0 vm
      (match findLabel m (bodyOf src r) .done with
       | some (f, k2) => ⟨⟨r, env, ctrs, f, k2, .run⟩ :: rest, .running⟩
       | none => ⟨⟨r, env, ctrs, .cons (.goto m pos) ss, k, .run⟩ :: rest, .stuck⟩) := by
  simp only [FrameAt, SAt, SAt1] at hat
  obtain ⟨pcE, ⟨pc1, ⟨off, h1, hg, rfl⟩, hss⟩, hk⟩ := hat
  have he : (V.env r).code = p.code := rfl
  obtain ⟨ss', K', pm, pcE', hfl, hA, hs', hk'⟩ :=
    goto_resolve (hV.chk r T.rle) (hV.res r T.rle) hg
  rw [hfl]
  obtain ⟨vm1, s1, g1, ip1, st1, d1⟩ := r_jmp hc T.good ha (at_code he h1)
  refine StepRes.run vm1 rfl (Or.inl s1) ?_
  refine T.finish g1 st1 (by rw [d1]; exact SameBelow.refl _ _) (ip' := pm) (by rw [ip1]; exact hA)
    rfl (by rw [d1]; exact hfo) ?_ (fun ⟨_, _, h⟩ => nomatch h)
  simp only [FrameAt]
  exact ⟨pcE', hs', hk'⟩

theorem step_ifGoto (T : TopCtx V c R vm r a as' rest) (ha : Anch p.code vm.ip ip)
    {x : Name} {cst : Nat} {m : Name} {pos : Pos} {ss : Stmts}
    (hfo : FrameOK vm.data a (V.ri r) env ctrs)
    (hat : FrameAt (V.env r) (V.G r) (Holds vm.data a)
      ⟨r, env, ctrs, .cons (.ifGoto x cst m pos) ss, k, .run⟩ ip 0) (cfg0 : Config) :
    StepRes V c R cfg0 vm
      (if env.get x = cst then
        (match findLabel m (bodyOf src r) .done with
         | some (f, k2) => ⟨⟨r, env, ctrs, f, k2, .run⟩ :: rest, .running⟩
         | none => ⟨⟨r, env, ctrs, .cons (.ifGoto x cst m pos) ss, k, .run⟩ :: rest, .stuck⟩)
       else ⟨⟨r, env, ctrs, ss, k, .run⟩ :: rest, .running⟩) := by
  simp only [FrameAt, SAt, SAt1] at hat
  obtain ⟨pcE, ⟨pc1, ⟨rx, t1, t2, t0, off, hrx, h1, hn1, h2, hn2, hne, hlt, h3, hn0, h4, hg, rfl⟩,
    hss⟩, hk⟩ := hat
  have he : (V.env r).code = p.code := rfl
  have hx := hfo.reg hrx
  obtain ⟨_, _, vm1, s1, g1, ip1, p1, hh1⟩ :=
    r_add hc T.good T.stk ha (at_code he h1) hx (clamp_zero hx.2.2.2) hx.2.2.2
  have st1 := p1.stack.trans T.stk
  have a1 : Anch p.code vm1.ip ((V.env r).next ip) := by
    rw [ip1, next_code he]; exact Anch.self _ _
  obtain ⟨_, _, vm2, s2, g2, ip2, p2, hh2⟩ := r_const hc g1 st1 a1 (at_code he h2)
  have hh2 := hh2 cst rfl (Nat.le_of_lt hlt)
  have st2 := p2.stack.trans st1
  have hh1' : Holds vm2.data a t1 (env.get x) :=
    p2.other _ _ (by simp; exact fun h => hne h.symm) hh1
  have a2 : Anch p.code vm2.ip ((V.env r).next ((V.env r).next ip)) := by
    rw [ip2, next_code he ((V.env r).next ip)]; exact Anch.self _ _
  obtain ⟨_, _, vm3, s3, g3, ip3, p3, hh3⟩ := r_test hc g2 st2 a2 (at_code he h3) hh1' hh2
  have st3 := p3.stack.trans st2
  have a3 : Anch p.code vm3.ip ((V.env r).next ((V.env r).next ((V.env r).next ip))) := by
    rw [ip3, next_code he ((V.env r).next ((V.env r).next ip))]; exact Anch.self _ _
  obtain ⟨vm4, s4, g4, ip4, st4, d4⟩ := r_jmpc hc g3 st3 a3 (at_code he h4) hh3
  have pall := (p1.trans p2).trans p3
  have hfo4 : FrameOK vm4.data a (V.ri r) env ctrs := by
    rw [d4]
    refine hfo.pres (fun r' w hn hw => pall.other r' w ?_ hw)
    intro hm
    have hnn : (V.env r).me.isNamed r' = true := hn
    simp only [List.mem_append, List.mem_singleton] at hm
    rcases hm with (rfl | rfl) | rfl
    · rw [hnn] at hn1; cases hn1
    · rw [hnn] at hn2; cases hn2
    · rw [hnn] at hn0; cases hn0
  have hsb : SameBelow a.dataStart vm.data vm4.data := by rw [d4]; exact pall.below
  have hst4 : vm4.stack = vm.stack := st4.trans pall.stack
  have sall : SP vm vm4 := ((s1.trans s2).trans s3).trans s4
  by_cases hn : env.get x = cst
  · rw [if_pos hn]
    rw [if_pos hn, if_pos rfl] at ip4
    obtain ⟨ss', K', pm, pcE', hfl, hA, hs', hk'⟩ :=
      goto_resolve (hV.chk r T.rle) (hV.res r T.rle) hg
    rw [hfl]
    refine StepRes.run vm4 rfl (Or.inl sall) ?_
    refine T.finish g4 hst4 hsb (ip' := pm) (by rw [ip4]; exact hA) rfl hfo4 ?_
      (fun ⟨_, _, h⟩ => nomatch h)
    simp only [FrameAt]
    exact ⟨pcE', hs', hk'⟩
  · rw [if_neg hn]
    rw [if_neg hn, if_neg (by omega)] at ip4
    refine StepRes.run vm4 rfl (Or.inl sall) ?_
    refine T.finish g4 hst4 hsb
      (ip' := (V.env r).next ((V.env r).next ((V.env r).next ((V.env r).next ip)))) ?_ rfl hfo4 ?_
      (fun ⟨_, _, h⟩ => nomatch h)
    · rw [ip4, next_code he ((V.env r).next ((V.env r).next ((V.env r).next ip)))]
      exact Anch.self _ _
    · simp only [FrameAt]
      exact ⟨pcE, hss, hk⟩

/-- the VM has reached a `HALT` (through sites) in a matched state -/
theorem halt_here (T : TopCtx V c R vm r a as' rest) (ha : Anch p.code vm.ip ip)
    (hh : p.code[skipc p.code ip]? = some .halt) {fr : Frame} (hr : fr.routine = r)
    (he : effEnv fr = fr.env) (hfo : FrameOK vm.data a (V.ri r) (effEnv fr) fr.ctrs)
    (hat : FrameAt (V.env r) (V.G r) (Holds vm.data a) fr ip 0) (cfg0 : Config) :
    StepRes V c R cfg0 vm ⟨fr :: rest, .halted⟩ := by
  obtain ⟨vm1, s1, g1, ip1, st1, d1⟩ := to_anchor hc T.good ha
  refine StepRes.halt vm1 rfl s1 ⟨?_, ?_⟩
  · rw [isDone_of_fetch (g1.fetch ip1 hh)]
    rfl
  · rw [d1, st1, T.stk]
    subst hr
    have hrel : StackRel V vm.data (fr :: rest) (a :: as') ip 0 :=
      stackRel_cons.2 ⟨⟨T.rle, T.dbg, hfo, hat⟩, T.restrel⟩
    exact hrel.agrees hV (fun fr' rest' h => by cases h; exact he)

theorem step_stop (T : TopCtx V c R vm r a as' rest) (ha : Anch p.code vm.ip ip)
    {pos : Pos} {ss : Stmts}
    (hfo : FrameOK vm.data a (V.ri r) env ctrs)
    (hat : FrameAt (V.env r) (V.G r) (Holds vm.data a)
      ⟨r, env, ctrs, .cons (.stop pos) ss, k, .run⟩ ip 0) (cfg0 : Config) :
    StepRes V c R cfg0 vm ⟨⟨r, env, ctrs, .cons (.stop pos) ss, k, .run⟩ :: rest, .halted⟩ := by
  have hat' := hat
  simp only [FrameAt, SAt, SAt1] at hat'
  obtain ⟨pcE, ⟨pc1, ⟨h1, _⟩, _⟩, _⟩ := hat'
  exact halt_here hc hV T ha (at_code (e := V.env r) rfl h1)
    (fr := ⟨r, env, ctrs, .cons (.stop pos) ss, k, .run⟩) rfl rfl hfo hat cfg0

theorem step_end_root (T : TopCtx V c R vm r a as' []) (ha : Anch p.code vm.ip ip)
    (hfo : FrameOK vm.data a (V.ri r) env ctrs)
    (hat : FrameAt (V.env r) (V.G r) (Holds vm.data a)
      ⟨r, env, ctrs, .nil, .done, .run⟩ ip 0) (cfg0 : Config) :
    StepRes V c R cfg0 vm ⟨[⟨r, env, ctrs, .nil, .done, .run⟩], .halted⟩ := by
  have hat' := hat
  simp only [FrameAt, SAt, KAt] at hat'
  obtain ⟨pcE, rfl, hpe⟩ := hat'
  have hr : r = src.progs.length := T.restrel.2
  refine halt_here hc hV T ha ?_ (fr := ⟨r, env, ctrs, .nil, .done, .run⟩) rfl rfl hfo hat cfg0
  rw [hpe, hr]
  exact hV.halt

omit hc hV in
theorem Holds.ret_same {d : List Int} {b : Act} {rt : Int} {n N : Nat} (h0 : 0 ≤ rt)
    (h1 : rt < b.segSize) (hN : b.dataStart + b.segSize.toNat ≤ N) (hl : N ≤ d.length)
    (hn : n ≤ WORD_MAX) : Holds ((d.set (b.dataStart + rt.toNat) (n : Int)).take N) b rt n := by
  refine ⟨h0, h1, ?_, hn⟩
  rw [List.getElem?_take_of_lt (by omega), List.getElem?_set_self (by omega)]

omit hc hV in
theorem Holds.ret_other {d : List Int} {b : Act} {rt r' : Int} {w N : Nat} (v : Int)
    (h : Holds d b r' w) (hne : r' ≠ rt) (h0 : 0 ≤ rt)
    (hN : b.dataStart + b.segSize.toNat ≤ N) :
    Holds ((d.set (b.dataStart + rt.toNat) v).take N) b r' w := by
  obtain ⟨g0, g1, g2, g3⟩ := h
  refine ⟨g0, g1, ?_, g3⟩
  rw [List.getElem?_take_of_lt (by omega), List.getElem?_set_ne (by omega)]
  exact g2

theorem step_end_ret (T : TopCtx V c R vm r a as'
      (⟨r2, env2, ctrs2, focus2, k2, .wait x cs⟩ :: rest')) (ha : Anch p.code vm.ip ip)
    (hfo : FrameOK vm.data a (V.ri r) env ctrs)
    (hat : FrameAt (V.env r) (V.G r) (Holds vm.data a)
      ⟨r, env, ctrs, .nil, .done, .run⟩ ip 0) (cfg0 : Config) :
    StepRes V c R cfg0 vm
      ⟨⟨r2, env2, ctrs2, focus2, k2,
          .ret (env.get (match src.progs[r]? with | some pd => pd.out | none => [])) x cs⟩ :: rest',
        .running⟩ := by
  simp only [FrameAt, SAt, KAt] at hat
  obtain ⟨pcE, rfl, hpe⟩ := hat
  have he : (V.env r).code = p.code := rfl
  obtain ⟨hrn, _, ip2, hra, hrel2⟩ := T.restrel
  obtain ⟨b, as'', rfl, ⟨hr2, hdbg2, hfo2, hat2⟩, hrest2⟩ := stackRel_inv hrel2
  obtain ⟨pd, ro, hpd, _, hret, hro⟩ := hV.rout r hrn
  simp only [hpd]
  rw [hpe] at ha
  obtain ⟨vm1, s1, g1, ip1, st1, d1⟩ := to_anchor hc T.good ha
  obtain ⟨_, _, hrt0, hrt1, v, hv, vm2, s2, g2, ipr, st2, d2⟩ :=
    x_ret hc g1 (st1.trans T.stk) ip1 (at_code he hret)
  have hout := hfo.reg hro
  rw [d1, hout.2.2.1] at hv
  cases hv
  rw [d1] at d2
  have htl := T.good.tiles
  rw [T.stk] at htl
  obtain ⟨_, hsum, _, hsum2, htl2⟩ := htl
  simp only [FrameAt] at hat2
  obtain ⟨live, pcS, pcE2, hctx, hss2, hk2⟩ := hat2
  have hsame : Holds vm2.data b a.retTarget (env.get pd.out) := by
    rw [d2]; exact Holds.ret_same hrt0 hrt1 (by omega) (by omega) hout.2.2.2
  have hother : ∀ r' w, r' ≠ a.retTarget → Holds vm.data b r' w → Holds vm2.data b r' w := by
    intro r' w hne hw
    rw [d2]; exact Holds.ret_other _ hw hne hrt0 (by omega)
  have hsb : SameBelow b.dataStart vm.data vm2.data := by
    rw [d2]
    exact (SameBelow.set _ _ (by omega)).trans (SameBelow.take _ (by omega))
  refine StepRes.run vm2 rfl (Or.inl (s1.trans_sp ⟨0, s2⟩))
    ⟨g2, rfl, ⟨ip2, by rw [ipr, hra]; exact Anch.self _ _, ?_⟩, ?_⟩
  · rw [st2]
    show StackRel V vm2.data (_ :: rest') (b :: as'') ip2 0
    rw [stackRel_cons]
    refine ⟨⟨hr2, hdbg2, ?_, ?_⟩, hrest2.below htl2 hsb⟩
    · cases cs with
      | nil =>
        simp only [CtxAt] at hctx
        obtain ⟨_, hrx, _⟩ := hctx
        show FrameOK vm2.data b (V.ri r2) (env2.set x (env.get pd.out)) ctrs2
        exact FrameOK.write_named hfo2 (hV.nodup r2 hr2) hrx hsame
          (fun r' w _ hne hw => hother r' w hne hw)
      | cons c1 cs' =>
        simp only [CtxAt] at hctx
        obtain ⟨live', acc, temps, pc1, tgt', pc'', _, htmp, _⟩ := hctx
        show FrameOK vm2.data b (V.ri r2) env2 ctrs2
        refine FrameOK.pres hfo2 (fun r' w hn hw => hother r' w ?_ hw)
        intro hm
        subst hm
        have := (tempOK_iff.1 htmp).1
        rw [show (V.env r2).me.isNamed a.retTarget = (V.ri r2).isNamed a.retTarget from rfl, hn] at this
        cases this
    · simp only [FrameAt]
      refine ⟨live, a.retTarget, pcS, pcE2, hsame, ?_, hss2, hk2⟩
      refine hctx.pres (fun t ht n' hn' => hother t n' ?_ hn')
      intro hm
      subst hm
      exact hctx.not_live ht
  · intro fr rest'' h
    cases h
    exact fun ⟨_, _, h⟩ => nomatch h

/-- one step of the reference machine from a matched state -/
theorem sim_step {cfg : Config} (hm : Match V c R cfg vm) :
    StepRes V c R cfg vm (Sem.step src cfg) := by
  obtain ⟨fr, rest, a, as', ip, rfl, T, ha, hfo, hat, hnw⟩ := hm.inv
  obtain ⟨r, env, ctrs, focus, k, ctrl⟩ := fr
  cases ctrl with
  | run =>
    cases focus with
    | cons s ss =>
      cases s with
      | assign x v pos => exact step_assign hc hV T ha hfo hat
      | mark m pos => exact step_mark hc hV T ha hfo hat
      | loop id x body pos => exact step_loop hc hV T ha hfo hat _
      | while_ x body pos => exact step_while hc hV T ha hfo hat _
      | goto m pos => exact step_goto hc hV T ha hfo hat _
      | ifGoto x cst m pos => exact step_ifGoto hc hV T ha hfo hat _
      | stop pos => exact step_stop hc hV T ha hfo hat _
    | nil =>
      cases k with
      | loop id body ss k' => exact step_end_loop hc hV T ha hfo hat _
      | while_ x body ss k' => exact step_end_while hc hV T ha hfo hat _
      | done =>
        cases rest with
        | nil => exact step_end_root hc hV T ha hfo hat _
        | cons caller rest' =>
          obtain ⟨_, ⟨x, cs, hw⟩, _⟩ := T.restrel
          obtain ⟨r2, env2, ctrs2, focus2, k2, ctrl2⟩ := caller
          simp only at hw
          subst hw
          exact step_end_ret hc hV T ha hfo hat _
  | eval v x cs =>
    cases v with
    | var y => exact step_eval_simple hc hV T ha (SimpleVal.var y) hfo hat
    | num n => exact step_eval_simple hc hV T ha (SimpleVal.num n) hfo hat
    | inc y k' => exact step_eval_simple hc hV T ha (SimpleVal.inc y k') hfo hat
    | dec y k' => exact step_eval_simple hc hV T ha (SimpleVal.dec y k') hfo hat
    | call f args =>
      cases args with
      | nil => exact step_eval_call_nil hc hV T ha hfo hat _
      | cons a0 as0 => exact step_eval_call_cons hc hV T ha hfo hat
  | ret n x cs =>
    cases cs with
    | nil => exact step_ret_nil hc hV T ha hfo hat
    | cons c1 cs' =>
      obtain ⟨f, done, todo⟩ := c1
      cases todo with
      | nil => exact step_ret_cons_call hc hV T ha hfo hat _
      | cons a0 as0 => exact step_ret_cons_more hc hV T ha hfo hat
  | wait x cs => exact absurd ⟨x, cs, rfl⟩ hnw

end cases

end

end Sim
end Theo
