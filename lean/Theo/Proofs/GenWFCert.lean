/-
  C03 for the generator, checker side: locally well-formed code (`LocalWF`, GenWFLocal.lean)
  passes the certificate checker with the certificate `certOf`, and the callee id that the
  inference computes for a PREPARE (`calleeOf`) is the PREPARE's `idx` operand.
-/
import Theo.Proofs.GenWFLocal

namespace Theo
namespace GenWF

/-! ### reading `certOf` -/

theorem certOf_length (code : List Instr) (fr rd : Nat → Nat) :
    (certOf code fr rd).length = code.length := by
  unfold certOf
  rw [List.length_map, List.length_range]

theorem certOf_get (code : List Instr) (fr rd : Nat → Nat) {x : Nat} (hx : x < code.length) :
    (certOf code fr rd)[x]? =
      some (if x = 0 then none else some ⟨fr x, rd x, pendOf code x⟩) := by
  unfold certOf
  rw [List.getElem?_map, List.getElem?_range hx]
  rfl

theorem info_zero (code : List Instr) (fr rd : Nat → Nat) :
    (certOf code fr rd).info 0 = none := by
  unfold Cert.info
  rw [if_neg (by omega)]
  show ((certOf code fr rd)[0]?).join = none
  by_cases h : 0 < code.length
  · rw [certOf_get code fr rd h, if_pos rfl]; rfl
  · rw [List.getElem?_eq_none (by rw [certOf_length]; omega)]; rfl

theorem info_certOf (code : List Instr) (fr rd : Nat → Nat) {x : Nat} {z : Int}
    (hz : z = (x : Int)) (h1 : 1 ≤ x) (hx : x < code.length) :
    (certOf code fr rd).info z = some ⟨fr x, rd x, pendOf code x⟩ := by
  subst hz
  unfold Cert.info
  rw [if_neg (by omega), Int.toNat_natCast, certOf_get code fr rd hx, if_neg (by omega)]
  rfl

/-! ### `pendOf` -/

theorem pendOf_notAE {code : List Instr} {x : Nat} {i : Instr} (h : code[x]? = some i)
    (hn : notAE i = true) : pendOf code x = none := by
  unfold pendOf
  rw [h]
  cases i <;> first | rfl | cases hn

theorem pendOf_plain {code : List Instr} {x : Nat} (h : Plain code x) : pendOf code x = none := by
  cases hc : code[x]? with
  | none => unfold pendOf; rw [hc]
  | some i => exact pendOf_notAE hc (h i hc)

theorem pendOf_inside {code : List Instr} {x : Nat} (h : Inside code x) :
    pendOf code x = (prepBefore code x).map (fun y => (y.1.toNat, y.2.toNat)) := by
  obtain ⟨i, hi, hn⟩ := h
  unfold pendOf
  rw [hi]
  cases i <;> first | rfl | cases hn

theorem prepBefore_succ_prepare {code : List Instr} {pc : Nat} {c i t : Int}
    (h : code[pc]? = some (.prepare c i t)) : prepBefore code (pc + 1) = some (c, i) := by
  rw [prepBefore, h]

theorem prepBefore_succ_arg {code : List Instr} {pc : Nat} {t s : Int}
    (h : code[pc]? = some (.arg t s)) : prepBefore code (pc + 1) = prepBefore code pc := by
  rw [prepBefore, h]

/-! ### putting `checkCert` together -/

theorem cert_decomp {c : Cert} {R : PcInfo} (h0 : c[0]? = some none) (h1 : c[1]? = some (some R)) :
    ∃ tail, c = none :: some R :: tail := by
  match c, h0, h1 with
  | [], h0, _ => cases h0
  | [_], _, h1 => cases h1
  | a :: b :: t, h0, h1 =>
    simp only [List.getElem?_cons_zero, List.getElem?_cons_succ, Option.some.injEq] at h0 h1
    subst h0 h1
    exact ⟨t, rfl⟩

theorem checkCert_intro {p : Program} {c : Cert} {R : PcInfo} {fr mi t : Int} {rest : List Instr}
    (hlen : c.length = p.code.length) (hcode : p.code = Instr.prepare fr mi t :: rest)
    (h0 : c[0]? = some none) (h1 : c[1]? = some (some R))
    (hfr : 0 ≤ fr) (hmap : mapOK p mi fr.toNat = true) (hRf : R.frame = fr.toNat)
    (hRp : R.pend = none) (hRr : R.rid = retsBefore p.code p.code.length)
    (hlast : p.code.getLast? = some Instr.halt)
    (hall : ∀ (pc : Nat) (ins : Instr) (I : PcInfo), p.code[pc]? = some ins →
      c[pc]? = some (some I) → pc ≠ 0 ∧ checkPc p c R.rid pc ins I = true)
    (hsites : sitesOKb p = true) : checkCert p c = true := by
  obtain ⟨tail, rfl⟩ := cert_decomp h0 h1
  unfold checkCert
  rw [Bool.and_eq_true, Bool.and_eq_true]
  refine ⟨⟨by rw [hlen]; exact beq_self_eq_true _, ?_⟩, hsites⟩
  split
  · rename_i fr' mi' t' crest R' ctail hcode' hc
    rw [hcode] at hcode'
    injection hcode' with e1 e2
    injection e1 with e3 e4 e5
    injection hc with _ e6
    injection e6 with e7 e8
    injection e7 with e9
    subst e3 e4 e5 e8 e9
    simp only [Bool.and_eq_true, decide_eq_true_eq, beq_iff_eq]
    refine ⟨⟨⟨⟨⟨⟨hfr, hmap⟩, hRf⟩, by rw [hRp]; rfl⟩, hRr⟩, hlast⟩, ?_⟩
    rw [List.all_eq_true]
    intro x hx
    obtain ⟨i, hi⟩ := List.getElem?_of_mem hx
    rw [List.getElem?_zip_eq_some, List.getElem?_zipIdx] at hi
    obtain ⟨ha, hb⟩ := hi
    cases hins : p.code[i]? with
    | none => rw [hins] at ha; cases ha
    | some ins =>
      rw [hins] at ha
      simp only [Option.map_some, Nat.zero_add, Option.some.injEq] at ha
      obtain ⟨⟨x1, x2⟩, xI⟩ := x
      cases ha
      cases xI with
      | none => rfl
      | some I =>
        obtain ⟨hne, hck⟩ := hall i ins I hins hb
        show (i != 0 && checkPc p (none :: some R :: tail) R.rid i ins I) = true
        rw [Bool.and_eq_true]
        exact ⟨by simpa using hne, hck⟩
  · rename_i hno
    exact absurd rfl (hno fr mi t rest R tail hcode)

/-! ### the local check, one instruction kind at a time -/

section
variable {p : Program} {fr rd : Nat → Nat}

theorem info_next {pc : Nat} (h1 : 1 ≤ pc) (hn : Next p.code fr rd pc) :
    (certOf p.code fr rd).info ((pc : Int) + 1) = some ⟨fr pc, rd pc, pendOf p.code (pc + 1)⟩ := by
  obtain ⟨hl, hf, hr⟩ := hn
  rw [info_certOf p.code fr rd (x := pc + 1) (by omega) (by omega) hl, hf, hr]

theorem info_next_plain {pc : Nat} (h1 : 1 ≤ pc) (hn : Next p.code fr rd pc)
    (hp : Plain p.code (pc + 1)) :
    (certOf p.code fr rd).info ((pc : Int) + 1) = some ⟨fr pc, rd pc, none⟩ := by
  rw [info_next h1 hn, pendOf_plain hp]

theorem info_jump {pc : Nat} {off : Int} (hj : JumpOK p.code fr rd pc off) :
    (certOf p.code fr rd).info ((pc : Int) + off) = some ⟨fr pc, rd pc, none⟩ := by
  obtain ⟨tgt, he, h1, hl, hf, hr, hp⟩ := hj
  rw [info_certOf p.code fr rd he h1 hl, hf, hr, pendOf_plain hp]

theorem checkPc_of_localWF {R : Nat} (h : LocalWF p fr rd R) (pc : Nat) (ins : Instr)
    (h1 : 1 ≤ pc) (hins : p.code[pc]? = some ins) :
    checkPc p (certOf p.code fr rd) (rd 1) pc ins ⟨fr pc, rd pc, pendOf p.code pc⟩ = true := by
  have hw := h.pcs pc ins h1 hins
  cases ins with
  | potBreak =>
    obtain ⟨hn, hp⟩ := hw
    rw [pendOf_notAE hins rfl]
    simp only [checkPc, info_next_plain h1 hn hp, Option.isNone_none, beq_self_eq_true, Bool.and_self]
  | brk => exact hw.elim
  | halt => rfl
  | add t s k =>
    obtain ⟨ht, hs, hn, hp⟩ := hw
    rw [pendOf_notAE hins rfl]
    simp only [checkPc, info_next_plain h1 hn hp, ht, hs, Option.isNone_none, beq_self_eq_true,
      Bool.and_self]
  | test t a b =>
    obtain ⟨ht, ha, hb, hn, hp⟩ := hw
    rw [pendOf_notAE hins rfl]
    simp only [checkPc, info_next_plain h1 hn hp, ht, ha, hb, Option.isNone_none, beq_self_eq_true,
      Bool.and_self]
  | const t k =>
    obtain ⟨ht, hn, hp⟩ := hw
    rw [pendOf_notAE hins rfl]
    simp only [checkPc, info_next_plain h1 hn hp, ht, Option.isNone_none, beq_self_eq_true,
      Bool.and_self]
  | jmp off =>
    rw [pendOf_notAE hins rfl]
    simp only [checkPc, info_jump hw, Option.isNone_none, beq_self_eq_true, Bool.and_self]
  | jmpc off s =>
    obtain ⟨hs, hj, hn, hp⟩ := hw
    rw [pendOf_notAE hins rfl]
    simp only [checkPc, info_jump hj, info_next_plain h1 hn hp, hs, Option.isNone_none,
      beq_self_eq_true, Bool.and_self]
  | prepare cnt idx tgt =>
    obtain ⟨hc, _, ht, hm, hlt, hn, hi⟩ := hw
    rw [pendOf_notAE hins rfl]
    simp only [checkPc, info_next h1 hn, pendOf_inside hi, prepBefore_succ_prepare hins, hc, ht, hm,
      hlt, Option.map_some, Option.isNone_none, beq_self_eq_true, decide_true, Bool.and_self]
  | arg t s =>
    obtain ⟨cnt, idx, hpb, ht, hs, hn, hi⟩ := hw
    have hpd : pendOf p.code pc = some (cnt.toNat, idx.toNat) := by
      rw [pendOf_inside ⟨_, hins, rfl⟩, hpb]; rfl
    have hpd' : pendOf p.code (pc + 1) = some (cnt.toNat, idx.toNat) := by
      rw [pendOf_inside hi, prepBefore_succ_arg hins, hpb]; rfl
    rw [hpd]
    simp only [checkPc, info_next h1 hn, hpd', ht, hs, beq_self_eq_true, Bool.and_self]
  | exec en =>
    obtain ⟨cnt, idx, hpb, hlt, ⟨e, hen, he1, hel, hef, her, hep, _⟩, hn, hp⟩ := hw
    have hpd : pendOf p.code pc = some (cnt.toNat, idx.toNat) := by
      rw [pendOf_inside ⟨_, hins, rfl⟩, hpb]; rfl
    rw [hpd]
    simp only [checkPc, info_next_plain h1 hn hp, info_certOf p.code fr rd hen he1 hel, hef, her,
      pendOf_plain hep, hlt, beq_self_eq_true, decide_true, Bool.and_self]
  | ret s =>
    obtain ⟨hs, hlt⟩ := hw
    rw [pendOf_notAE hins rfl]
    simp only [checkPc, hs, h.root.1, hlt, Option.isNone_none, decide_true, Bool.and_self]

end

/-- locally well-formed code passes the certificate checker with the certificate `certOf` -/
theorem checkCert_of_localWF {p : Program} {fr rd : Nat → Nat} {R : Nat}
    (h : LocalWF p fr rd R) : checkCert p (certOf p.code fr rd) = true := by
  obtain ⟨c0, m0, t0, rest, hcode, hc0, hm0, hf1⟩ := h.head
  have hlen2 : 2 ≤ p.code.length := by
    have hl := h.last
    rw [hcode] at hl ⊢
    cases rest with
    | nil => cases hl
    | cons a r => simp only [List.length_cons]; omega
  refine checkCert_intro (R := ⟨fr 1, rd 1, pendOf p.code 1⟩) (certOf_length _ _ _) hcode ?_ ?_
    hc0 hm0 hf1 (pendOf_plain h.plain1) (by rw [h.root.1]; exact h.root.2) h.last ?_ h.sites
  · rw [certOf_get p.code fr rd (x := 0) (by omega), if_pos rfl]
  · rw [certOf_get p.code fr rd (x := 1) (by omega), if_neg (by omega)]
  · intro pc ins I hins hI
    have hl : pc < p.code.length := (List.getElem?_eq_some_iff.1 hins).1
    rw [certOf_get p.code fr rd hl] at hI
    by_cases hz : pc = 0
    · rw [if_pos hz] at hI; cases hI
    · rw [if_neg hz] at hI
      injection hI with hI
      injection hI with hI
      subst hI
      exact ⟨hz, checkPc_of_localWF h pc ins (by omega) hins⟩

/-! ### the callee computed by the inference -/

/-- from a position inside an ARG run that started at a `PREPARE cnt idx _`, skipping the ARGs
    reaches an `EXEC` whose operand is the entry of routine `idx` -/
theorem exec_after_args {p : Program} {fr rd : Nat → Nat} {R : Nat} (h : LocalWF p fr rd R)
    (f : Instr → Bool) (hfa : ∀ t s, f (.arg t s) = true) (hfe : ∀ e, f (.exec e) = false)
    (cnt idx : Int) :
    ∀ (n q : Nat), p.code.length - q = n → 1 ≤ q → Inside p.code q →
      prepBefore p.code q = some (cnt, idx) →
      ∃ en rest, (p.code.drop q).dropWhile f = Instr.exec en :: rest ∧
        retsBefore p.code en = idx.toNat := by
  intro n
  induction n with
  | zero =>
    intro q hn _ hi _
    obtain ⟨i, hi, _⟩ := hi
    have := (List.getElem?_eq_some_iff.1 hi).1
    omega
  | succ n ih =>
    intro q hn h1 hi hpb
    obtain ⟨i, hi, hne⟩ := hi
    have hl : q < p.code.length := (List.getElem?_eq_some_iff.1 hi).1
    have hd : p.code.drop q = i :: p.code.drop (q + 1) := by
      rw [List.drop_eq_getElem_cons hl]
      rw [List.getElem?_eq_getElem hl] at hi
      injection hi with hi
      rw [hi]
    have hw := h.pcs q i h1 hi
    cases i with
    | arg t s =>
      obtain ⟨_, _, _, _, _, hn', hi'⟩ := hw
      obtain ⟨en, rest, he, hr⟩ := ih (q + 1) (by omega) (by omega) hi'
        (by rw [prepBefore_succ_arg hi]; exact hpb)
      refine ⟨en, rest, ?_, hr⟩
      rw [hd, List.dropWhile_cons, if_pos (hfa t s)]
      exact he
    | exec en =>
      obtain ⟨cnt', idx', hpb', _, ⟨e, _, _, _, _, _, _, hr⟩, _, _⟩ := hw
      rw [hpb] at hpb'
      injection hpb' with hpb'
      injection hpb' with _ e2
      subst e2
      refine ⟨en, p.code.drop (q + 1), ?_, hr⟩
      rw [hd, List.dropWhile_cons, if_neg (by rw [hfe en]; exact Bool.false_ne_true)]
    | _ => cases hne

/-- the ARG test used by `calleeOf` -/
def isArg : Instr → Bool
  | .arg _ _ => true
  | _ => false

theorem calleeOf_eq (code : List Instr) (pc : Nat) :
    calleeOf code pc =
      (match (code.drop (pc + 1)).dropWhile isArg with
       | .exec e :: _ => retsBefore code e
       | _ => 0) := rfl

/-- in locally well-formed code the routine id that the inference computes for a PREPARE
    (`calleeOf`: `retsBefore` of the operand of the EXEC ending the ARG run) is its `idx` operand -/
theorem calleeOf_of_localWF {p : Program} {fr rd : Nat → Nat} {R : Nat}
    (h : LocalWF p fr rd R) (pc : Nat) (cnt idx tgt : Int) (h1 : 1 ≤ pc)
    (hp : p.code[pc]? = some (Instr.prepare cnt idx tgt)) : calleeOf p.code pc = idx.toNat := by
  obtain ⟨_, _, _, _, _, _, hi⟩ := h.pcs pc _ h1 hp
  obtain ⟨en, rest, he, hr⟩ := exec_after_args h isArg (fun _ _ => rfl) (fun _ => rfl)
    cnt idx _ (pc + 1) rfl (by omega) hi (prepBefore_succ_prepare hp)
  rw [calleeOf_eq, he]
  exact hr

/-- the form needed by the inference-completeness theorem (`wfCheck_of_cert`, proved elsewhere) -/
theorem hcal_of_localWF {p : Program} {fr rd : Nat → Nat} {R : Nat} (h : LocalWF p fr rd R) :
    ∀ (pc : Nat) (cnt idx tgt : Int) (I N : PcInfo) (cf j : Nat),
      p.code[pc]? = some (Instr.prepare cnt idx tgt) →
      (certOf p.code fr rd).info (pc : Int) = some I →
      (certOf p.code fr rd).info ((pc : Int) + 1) = some N → N.pend = some (cf, j) →
      j = calleeOf p.code pc := by
  intro pc cnt idx tgt I N cf j hp hI hN hpend
  have h1 : 1 ≤ pc := by
    cases pc with
    | zero =>
      have := info_zero p.code fr rd
      rw [show ((0 : Nat) : Int) = 0 from rfl] at hI
      rw [this] at hI
      cases hI
    | succ k => omega
  obtain ⟨_, _, _, _, _, hn, hi⟩ := h.pcs pc _ h1 hp
  rw [info_next h1 hn] at hN
  injection hN with hN
  subst hN
  rw [calleeOf_of_localWF h pc cnt idx tgt h1 hp]
  change pendOf p.code (pc + 1) = some (cf, j) at hpend
  rw [pendOf_inside hi, prepBefore_succ_prepare hp] at hpend
  injection hpend with hpend
  injection hpend with _ e2
  exact e2.symm

end GenWF
end Theo
