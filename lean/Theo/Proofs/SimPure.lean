/-
  C01, part 8: the reference execution of a validated source never gets stuck — the position
  relations alone (no VM) are preserved by `Sem.step`.
-/
import Theo.Proofs.SimExec

set_option linter.unusedSimpArgs false
set_option linter.unusedSectionVars false

namespace Theo
namespace Sim
open Sem

def HT : Int → Nat → Prop := fun _ _ => True

section
variable {src : Source} {p : Program}

def PRest (_V : Valid src p) (PS : List Frame → Prop) (r : Nat) (frs : List Frame) : Prop :=
  match frs with
  | [] => r = src.progs.length
  | fr2 :: _ => r < src.progs.length ∧ isWait fr2 ∧ PS frs

/-- the activations of the reference machine all stand at some position of their routine's code -/
def PStack (V : Valid src p) : List Frame → Prop
  | [] => False
  | fr :: frs => fr.routine ≤ src.progs.length ∧
      (∃ ip rt, FrameAt (V.env fr.routine) (V.G fr.routine) HT fr ip rt) ∧
      match frs with
      | [] => fr.routine = src.progs.length
      | fr2 :: _ => fr.routine < src.progs.length ∧ isWait fr2 ∧ PStack V frs

structure PInv (V : Valid src p) (cfg : Config) : Prop where
  run : cfg.status = .running
  stack : PStack V cfg.stack
  top : ∀ fr rest, cfg.stack = fr :: rest → ¬ isWait fr

def PRes (V : Valid src p) (cfg' : Config) : Prop :=
  cfg'.status ≠ .stuck ∧ (cfg'.status = .running → PInv V cfg')

theorem pstack_cons {V : Valid src p} {fr : Frame} {frs : List Frame} :
    PStack V (fr :: frs) ↔ fr.routine ≤ src.progs.length ∧
      (∃ ip rt, FrameAt (V.env fr.routine) (V.G fr.routine) HT fr ip rt) ∧
      PRest V (PStack V) fr.routine frs := by
  cases frs with
  | nil => simp only [PStack, PRest]
  | cons _ _ => simp only [PStack, PRest]

variable {V : Valid src p} (hV : V.OK)
include hV

theorem pfinish {r : Nat} {rest : List Frame} (hr : r ≤ src.progs.length)
    (hrest : PRest V (PStack V) r rest) {fr' : Frame} (hr' : fr'.routine = r) {ip' : Nat} {rt' : Int}
    (hat : FrameAt (V.env r) (V.G r) HT fr' ip' rt') (hnw : ¬ isWait fr') :
    PRes V ⟨fr' :: rest, .running⟩ := by
  refine ⟨by simp, fun _ => ⟨rfl, ?_, ?_⟩⟩
  · show PStack V (fr' :: rest)
    rw [pstack_cons]
    subst hr'
    exact ⟨hr, ⟨ip', rt', hat⟩, hrest⟩
  · intro fr rest' h
    cases h
    exact hnw

theorem ppush {r : Nat} {rest : List Frame} (hr : r ≤ src.progs.length)
    (hrest : PRest V (PStack V) r rest) {env : Env} {ctrs : Ctrs} {k : Kont}
    {f : Name} {live temps : List Int} {tgt : Int} {pc1 pc' : Nat}
    (hct : CallTail (V.env r) f live temps pc1 tgt pc') {vals : List Nat}
    (hlen : temps.length = vals.length) {x : Name} {cs : List ECtx} {focus : Stmts}
    {pcS pcE : Nat} (hctx : CtxAt (V.env r) HT cs x live tgt pc' pcS)
    (hss : SAt (V.env r) (V.G r) focus pcS pcE) (hk : KAt (V.env r) (V.G r) k pcE (V.G r).pc) :
    PRes V (doCall src ⟨r, env, ctrs, focus, k, .wait x cs⟩ rest f vals) := by
  obtain ⟨j, pd, ri, cnt, pc2, h1, h2, h3, _, _, _, _, rfl⟩ := hct
  have h1' : lookupProg src f r = some (j, pd) := h1
  obtain ⟨hjr, hpd⟩ := lookupProg_spec h1'
  have hjn : j < src.progs.length := Nat.lt_of_lt_of_le hjr hr
  have hdc : doCall src ⟨r, env, ctrs, focus, k, .wait x cs⟩ rest f vals =
      ⟨⟨j, bindParams pd.params vals [], [], pd.body, .done, .run⟩ ::
        ⟨r, env, ctrs, focus, k, .wait x cs⟩ :: rest, .running⟩ := by
    unfold doCall
    simp only [h1']
    rw [if_pos (by rw [h3, hlen])]
  rw [hdc]
  refine pfinish hV (Nat.le_of_lt hjn) ?_ rfl (ip' := V.start j) (rt' := 0) ?_
    (fun ⟨_, _, h⟩ => nomatch h)
  · unfold PRest
    refine ⟨hjn, ⟨x, cs, rfl⟩, ?_⟩
    rw [pstack_cons]
    refine ⟨hr, ⟨(V.env r).next pc2, tgt, ?_⟩, hrest⟩
    simp only [FrameAt]
    exact ⟨live, pcS, pcE, hctx, hss, hk⟩
  · simp only [FrameAt]
    have := checkStmts_sat (V.env j) (V.G j) (bodyOf src j) _ _ (hV.chk j (Nat.le_of_lt hjn))
      (Sub.refl _)
    unfold bodyOf at this
    rw [hpd] at this
    exact ⟨(V.G j).pc, this, by simp only [KAt]⟩

theorem pure_step {cfg : Config} (hm : PInv V cfg) : PRes V (Sem.step src cfg) := by
  obtain ⟨hrun, hstack, htop⟩ := hm
  obtain ⟨stack, status⟩ := cfg
  simp only at hrun hstack htop
  subst hrun
  cases stack with
  | nil => simp only [PStack] at hstack
  | cons fr rest =>
  rw [pstack_cons] at hstack
  obtain ⟨hr, ⟨ip, rt, hat⟩, hrest⟩ := hstack
  have hnw := htop fr rest rfl
  obtain ⟨r, env, ctrs, focus, k, ctrl⟩ := fr
  have hr : r ≤ src.progs.length := hr
  have hrest : PRest V (PStack V) r rest := hrest
  have hat : FrameAt (V.env r) (V.G r) HT ⟨r, env, ctrs, focus, k, ctrl⟩ ip rt := hat
  cases ctrl with
  | run =>
    cases focus with
    | cons s ss =>
      cases s with
      | assign x v pos =>
        show PRes V ⟨⟨r, env, ctrs, ss, k, .eval v x []⟩ :: rest, .running⟩
        simp only [FrameAt, SAt, SAt1] at hat
        obtain ⟨pcE, ⟨pc1, ⟨rx, hrx, hcv⟩, hss⟩, hk⟩ := hat
        refine pfinish hV hr hrest rfl (ip' := ip) (rt' := 0) ?_ (fun ⟨_, _, h⟩ => nomatch h)
        simp only [FrameAt]
        exact ⟨[], rx, pc1, pc1, pcE, hcv, ⟨rfl, hrx, rfl⟩, hss, hk⟩
      | mark m pos =>
        show PRes V ⟨⟨r, env, ctrs, ss, k, .run⟩ :: rest, .running⟩
        simp only [FrameAt, SAt, SAt1] at hat
        obtain ⟨pcE, ⟨pc1, rfl, hss⟩, hk⟩ := hat
        refine pfinish hV hr hrest rfl (ip' := pc1) (rt' := 0) ?_ (fun ⟨_, _, h⟩ => nomatch h)
        simp only [FrameAt]
        exact ⟨pcE, hss, hk⟩
      | loop id x body pos =>
        show PRes V (if env.get x ≠ 0 then
            ⟨⟨r, env, ctrs.set id (env.get x), body, .loop id body ss k, .run⟩ :: rest, .running⟩
          else ⟨⟨r, env, ctrs.set id (env.get x), ss, k, .run⟩ :: rest, .running⟩)
        simp only [FrameAt, SAt, SAt1] at hat
        obtain ⟨pcE, ⟨pc1, ⟨ctr, rx, offE, offL, pcB, hctr, hrx, h1, h2, hbody, h3, h4, hA1, hA2,
          rfl⟩, hss⟩, hk⟩ := hat
        split
        · refine pfinish hV hr hrest rfl (ip' := (V.env r).next ((V.env r).next ip)) (rt' := 0) ?_
            (fun ⟨_, _, h⟩ => nomatch h)
          simp only [FrameAt, KAt]
          exact ⟨pcB, hbody, ctr, offE, offL, (V.env r).next ip, pcE, hctr, h2, hbody, h3, h4, hA1,
            hA2, hss, hk⟩
        · refine pfinish hV hr hrest rfl (ip' := skipc (V.env r).code ((V.env r).next pcB) + 1)
            (rt' := 0) ?_ (fun ⟨_, _, h⟩ => nomatch h)
          simp only [FrameAt]
          exact ⟨pcE, hss, hk⟩
      | while_ x body pos =>
        show PRes V (if env.get x ≠ 0 then
            ⟨⟨r, env, ctrs, body, .while_ x body ss k, .run⟩ :: rest, .running⟩
          else ⟨⟨r, env, ctrs, ss, k, .run⟩ :: rest, .running⟩)
        simp only [FrameAt, SAt, SAt1] at hat
        obtain ⟨pcE, ⟨pc1, ⟨rx, tmp, offE, offL, pcB, hrx, htmp, h1, h2, hbody, h3, hA1, hA2, rfl⟩,
          hss⟩, hk⟩ := hat
        split
        · refine pfinish hV hr hrest rfl (ip' := (V.env r).next ((V.env r).next ip)) (rt' := 0) ?_
            (fun ⟨_, _, h⟩ => nomatch h)
          simp only [FrameAt, KAt]
          exact ⟨pcB, hbody, rx, tmp, offE, offL, ip, pcE, hrx, htmp, h1, h2, hbody, h3, hA1, hA2,
            hss, hk⟩
        · refine pfinish hV hr hrest rfl (ip' := skipc (V.env r).code pcB + 1)
            (rt' := 0) ?_ (fun ⟨_, _, h⟩ => nomatch h)
          simp only [FrameAt]
          exact ⟨pcE, hss, hk⟩
      | goto m pos =>
        show PRes V (match findLabel m (bodyOf src r) .done with
          | some (f, k2) => ⟨⟨r, env, ctrs, f, k2, .run⟩ :: rest, .running⟩
          | none => ⟨⟨r, env, ctrs, .cons (.goto m pos) ss, k, .run⟩ :: rest, .stuck⟩)
        simp only [FrameAt, SAt, SAt1] at hat
        obtain ⟨pcE, ⟨pc1, ⟨off, h1, hg, rfl⟩, hss⟩, hk⟩ := hat
        obtain ⟨ss', K', pm, pcE', hfl, hA, hs', hk'⟩ := goto_resolve (hV.chk r hr) (hV.res r hr) hg
        rw [hfl]
        refine pfinish hV hr hrest rfl (ip' := pm) (rt' := 0) ?_ (fun ⟨_, _, h⟩ => nomatch h)
        simp only [FrameAt]
        exact ⟨pcE', hs', hk'⟩
      | ifGoto x cst m pos =>
        show PRes V (if env.get x = cst then
            (match findLabel m (bodyOf src r) .done with
             | some (f, k2) => ⟨⟨r, env, ctrs, f, k2, .run⟩ :: rest, .running⟩
             | none => ⟨⟨r, env, ctrs, .cons (.ifGoto x cst m pos) ss, k, .run⟩ :: rest, .stuck⟩)
          else ⟨⟨r, env, ctrs, ss, k, .run⟩ :: rest, .running⟩)
        simp only [FrameAt, SAt, SAt1] at hat
        obtain ⟨pcE, ⟨pc1, ⟨rx, t1, t2, t0, off, hrx, h1, hn1, h2, hn2, hne, hlt, h3, hn0, h4, hg,
          rfl⟩, hss⟩, hk⟩ := hat
        split
        · obtain ⟨ss', K', pm, pcE', hfl, hA, hs', hk'⟩ :=
            goto_resolve (hV.chk r hr) (hV.res r hr) hg
          rw [hfl]
          refine pfinish hV hr hrest rfl (ip' := pm) (rt' := 0) ?_ (fun ⟨_, _, h⟩ => nomatch h)
          simp only [FrameAt]
          exact ⟨pcE', hs', hk'⟩
        · refine pfinish hV hr hrest rfl (rt' := 0)
            (ip' := (V.env r).next ((V.env r).next ((V.env r).next ((V.env r).next ip)))) ?_
            (fun ⟨_, _, h⟩ => nomatch h)
          simp only [FrameAt]
          exact ⟨pcE, hss, hk⟩
      | stop pos =>
        show PRes V ⟨⟨r, env, ctrs, .cons (.stop pos) ss, k, .run⟩ :: rest, .halted⟩
        exact ⟨by simp, fun h => nomatch h⟩
    | nil =>
      cases k with
      | loop id body ss k' =>
        show PRes V (if ctrs.get id - 1 ≠ 0 then
            ⟨⟨r, env, ctrs.set id (ctrs.get id - 1), body, .loop id body ss k', .run⟩ :: rest,
              .running⟩
          else ⟨⟨r, env, ctrs.set id (ctrs.get id - 1), ss, k', .run⟩ :: rest, .running⟩)
        simp only [FrameAt, SAt, KAt] at hat
        obtain ⟨pcE, rfl, ctr, offE, offL, pJ, pcR, hctr, hJ, hbody, h3, h4, hA1, hA2, hss, hk⟩ := hat
        split
        · refine pfinish hV hr hrest rfl (ip' := (V.env r).next pJ) (rt' := 0) ?_
            (fun ⟨_, _, h⟩ => nomatch h)
          simp only [FrameAt, KAt]
          exact ⟨pcE, hbody, ctr, offE, offL, pJ, pcR, hctr, hJ, hbody, h3, h4, hA1, hA2, hss, hk⟩
        · refine pfinish hV hr hrest rfl (ip' := skipc (V.env r).code ((V.env r).next pcE) + 1)
            (rt' := 0) ?_ (fun ⟨_, _, h⟩ => nomatch h)
          simp only [FrameAt]
          exact ⟨pcR, hss, hk⟩
      | while_ x body ss k' =>
        show PRes V (if env.get x ≠ 0 then
            ⟨⟨r, env, ctrs, body, .while_ x body ss k', .run⟩ :: rest, .running⟩
          else ⟨⟨r, env, ctrs, ss, k', .run⟩ :: rest, .running⟩)
        simp only [FrameAt, SAt, KAt] at hat
        obtain ⟨pcE, rfl, rx, tmp, offE, offL, pL, pcR, hrx, htmp, h1, h2, hbody, h3, hA1, hA2, hss,
          hk⟩ := hat
        split
        · refine pfinish hV hr hrest rfl (ip' := (V.env r).next ((V.env r).next pL)) (rt' := 0) ?_
            (fun ⟨_, _, h⟩ => nomatch h)
          simp only [FrameAt, KAt]
          exact ⟨pcE, hbody, rx, tmp, offE, offL, pL, pcR, hrx, htmp, h1, h2, hbody, h3, hA1, hA2,
            hss, hk⟩
        · refine pfinish hV hr hrest rfl (ip' := skipc (V.env r).code pcE + 1)
            (rt' := 0) ?_ (fun ⟨_, _, h⟩ => nomatch h)
          simp only [FrameAt]
          exact ⟨pcR, hss, hk⟩
      | done =>
        cases rest with
        | nil =>
          show PRes V ⟨[⟨r, env, ctrs, .nil, .done, .run⟩], .halted⟩
          exact ⟨by simp, fun h => nomatch h⟩
        | cons caller rest' =>
          obtain ⟨hrn, ⟨x, cs, hw⟩, hps⟩ := hrest
          obtain ⟨r2, env2, ctrs2, focus2, k2, ctrl2⟩ := caller
          simp only at hw
          subst hw
          show PRes V ⟨⟨r2, env2, ctrs2, focus2, k2,
            .ret (env.get (match src.progs[r]? with | some pd => pd.out | none => [])) x cs⟩ :: rest',
            .running⟩
          rw [pstack_cons] at hps
          obtain ⟨hr2, ⟨ip2, rt2, hat2⟩, hrest2⟩ := hps
          simp only [FrameAt] at hat2
          obtain ⟨live, pcS, pcE2, hctx, hss2, hk2⟩ := hat2
          refine pfinish hV hr2 hrest2 rfl (ip' := ip2) (rt' := 0) ?_ (fun ⟨_, _, h⟩ => nomatch h)
          simp only [FrameAt]
          exact ⟨live, rt2, pcS, pcE2, trivial, hctx, hss2, hk2⟩
  | eval v x cs =>
    have simple : ∀ n, (∃ tgt pc' live, checkValue (V.env r) v live ip = some (tgt, pc') ∧
        ∃ pcS pcE, CtxAt (V.env r) HT cs x live tgt pc' pcS ∧ SAt (V.env r) (V.G r) focus pcS pcE ∧
          KAt (V.env r) (V.G r) k pcE (V.G r).pc) →
        PRes V ⟨⟨r, env, ctrs, focus, k, .ret n x cs⟩ :: rest, .running⟩ := by
      intro n ⟨tgt, pc', live, _, pcS, pcE, hctx, hss, hk⟩
      refine pfinish hV hr hrest rfl (ip' := pc') (rt' := 0) ?_ (fun ⟨_, _, h⟩ => nomatch h)
      simp only [FrameAt]
      exact ⟨live, tgt, pcS, pcE, trivial, hctx, hss, hk⟩
    have hat0 := hat
    simp only [FrameAt] at hat
    obtain ⟨live, tgt, pc', pcS, pcE, hcv, hctx, hss, hk⟩ := hat
    cases v with
    | var y => exact simple _ ⟨tgt, pc', live, hcv, pcS, pcE, hctx, hss, hk⟩
    | num n => exact simple _ ⟨tgt, pc', live, hcv, pcS, pcE, hctx, hss, hk⟩
    | inc y k' => exact simple _ ⟨tgt, pc', live, hcv, pcS, pcE, hctx, hss, hk⟩
    | dec y k' => exact simple _ ⟨tgt, pc', live, hcv, pcS, pcE, hctx, hss, hk⟩
    | call f args =>
      obtain ⟨temps, pc1, hargs, htail⟩ := checkValue_call hcv
      cases args with
      | nil =>
        show PRes V (doCall src ⟨r, env, ctrs, focus, k, .wait x cs⟩ rest f [])
        rw [checkArgs_nil] at hargs
        cases hargs
        exact ppush hV hr hrest htail rfl hctx hss hk
      | cons a0 as0 =>
        show PRes V ⟨⟨r, env, ctrs, focus, k, .eval a0 x (⟨f, [], as0⟩ :: cs)⟩ :: rest, .running⟩
        obtain ⟨t, pca, hcv0, htmp, hargs'⟩ := checkArgs_cons hargs
        refine pfinish hV hr hrest rfl (ip' := ip) (rt' := 0) ?_ (fun ⟨_, _, h⟩ => nomatch h)
        simp only [FrameAt]
        refine ⟨live ++ [], t, pca, pcS, pcE, hcv0, ?_, hss, hk⟩
        simp only [CtxAt]
        exact ⟨live, [], temps, pc1, tgt, pc', rfl, htmp, HoldAll.nil _, hargs', htail, hctx⟩
  | ret n x cs =>
    cases cs with
    | nil =>
      show PRes V ⟨⟨r, env.set x n, ctrs, focus, k, .run⟩ :: rest, .running⟩
      simp only [FrameAt, CtxAt] at hat
      obtain ⟨live, tgt, pcS, pcE, _, ⟨_, hrx, rfl⟩, hss, hk⟩ := hat
      refine pfinish hV hr hrest rfl (ip' := ip) (rt' := 0) ?_ (fun ⟨_, _, h⟩ => nomatch h)
      simp only [FrameAt]
      exact ⟨pcE, hss, hk⟩
    | cons c1 cs' =>
      obtain ⟨f, done, todo⟩ := c1
      simp only [FrameAt, CtxAt] at hat
      obtain ⟨live, tgt, pcS, pcE, hh, ⟨live', acc, temps, pc1, tgt', pc', rfl, htmp, hacc, hargs,
        htail, hctx⟩, hss, hk⟩ := hat
      cases todo with
      | nil =>
        show PRes V (doCall src ⟨r, env, ctrs, focus, k, .wait x cs'⟩ rest f (done ++ [n]))
        rw [checkArgs_nil] at hargs
        cases hargs
        exact ppush hV hr hrest htail (by simp [hacc.1]) hctx hss hk
      | cons a0 as0 =>
        show PRes V ⟨⟨r, env, ctrs, focus, k, .eval a0 x (⟨f, done ++ [n], as0⟩ :: cs')⟩ :: rest,
          .running⟩
        obtain ⟨t, pca, hcv0, htmp0, hargs'⟩ := checkArgs_cons hargs
        refine pfinish hV hr hrest rfl (ip' := ip) (rt' := 0) ?_ (fun ⟨_, _, h⟩ => nomatch h)
        simp only [FrameAt]
        refine ⟨live' ++ (acc ++ [tgt]), t, pca, pcS, pcE, hcv0, ?_, hss, hk⟩
        simp only [CtxAt]
        exact ⟨live', acc ++ [tgt], temps, pc1, tgt', pc', rfl, htmp0, hacc.snoc hh, hargs', htail,
          hctx⟩
  | wait x cs => exact absurd ⟨x, cs, rfl⟩ hnw

end

end Sim
end Theo
