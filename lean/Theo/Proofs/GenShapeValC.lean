/-
  C01 for the generator model, part 4: the code of a value / an argument list passes
  `checkValue` / `checkArgs` (`value_corr`).
-/
import Theo.Proofs.GenShapeVal

set_option linter.unusedSimpArgs false
set_option linter.unusedVariables false

namespace Theo
namespace GenShape
open GS Sem Static

/-! ### the context of one routine: final code, final labels, final register file -/

structure RC where
  C : List Instr
  L : List Int
  R : List VReg
  src : Source
  rt : Nat
  infos : List RInfo
  entry : Nat

def RC.e (X : RC) : VEnv := ⟨X.C, X.src, ⟨X.entry, X.rt, smap X.R⟩, X.rt, X.infos⟩

structure RC.OK (X : RC) : Prop where
  tn : TempNamed X.R
  ntn : NTNodup X.R
  ctr : ∃ n, CtrInv X.R n

/-- what a call can see: the generator's table agrees with `lookupProg` -/
def FuncInv (X : RC) (gs : GS) : Prop :=
  ∀ f j pd, lookupProg X.src f X.rt = some (j, pd) →
    ∃ p ri, gs.lookupFunc f = some p ∧ p.argnum = pd.params.length ∧ X.infos[j]? = some ri ∧
      p.mi = (ri.mi : Int) ∧ p.ind = (ri.entry : Int)

theorem FuncInv.congr {X : RC} {gs gs' : GS} (h : FuncInv X gs) (hf : gs'.funcAddrs = gs.funcAddrs) : FuncInv X gs' := by
  intro f j pd hl
  obtain ⟨p, ri, h1, h2⟩ := h f j pd hl
  exact ⟨p, ri, by unfold lookupFunc at *; rw [hf]; exact h1, h2⟩

/-- how a generator state inside the routine relates to the final program -/
structure VLinks (X : RC) (gs : GS) : Prop where
  regs : RegsExt gs.top.regs X.R
  agree : Agree X.L gs.code X.C
  func : FuncInv X gs

theorem VLinks.back {X : RC} {gs gs' : GS} (h : VLinks X gs') (q : GQ gs gs') : VLinks X gs :=
  ⟨q.regs.trans h.regs, h.agree.of_prefix q.code, h.func.congr q.funcAddrs.symm⟩

/-- the validator's position `pc` and the generator's position differ by sites only -/
structure At (X : RC) (pc : Nat) (gs : GS) : Prop where
  eq : skipc X.C pc = skipc X.C gs.code.length
  pos : 0 < gs.code.length

theorem patch_ne_pb (L : List Int) (p : Nat) {i : Instr} (h : i ≠ Instr.potBreak) : patch L p i ≠ Instr.potBreak := by
  cases i <;> simp [patch] at * 

/-- sites emitted in between do not move the anchor -/
theorem At.sites {X : RC} {pc : Nat} {gs gs0 : GS} (h : At X pc gs) {k : Nat}
    (hc : gs0.code = gs.code ++ List.replicate k Instr.potBreak) {code : List Instr}
    (hp : gs0.code <+: code) (ha : Agree X.L code X.C) : At X pc gs0 := by
  refine ⟨?_, by rw [hc]; simp; have := h.pos; omega⟩
  rw [h.eq]
  have hl : gs0.code.length = gs.code.length + k := by rw [hc]; simp
  rw [hl]
  apply skipc_range
  intro p h1 h2
  have hg : gs0.code[p]? = some Instr.potBreak := by
    rw [hc, List.getElem?_append_right h1, List.getElem?_replicate, if_pos (by omega)]
  have := ha p _ (by have := h.pos; omega) (prefix_getElem? hp hg)
  rw [this]; rfl

/-- the instruction emitted at the generator's position is what the validator sees -/
theorem At.instr {X : RC} {pc : Nat} {gs : GS} (h : At X pc gs) {i : Instr} {t code : List Instr}
    (hp : gs.code ++ i :: t <+: code) (ha : Agree X.L code X.C) (hi : i ≠ Instr.potBreak) :
    X.e.at pc = some (patch X.L gs.code.length i) ∧ X.e.next pc = gs.code.length + 1 := by
  have hc : X.C[gs.code.length]? = some (patch X.L gs.code.length i) :=
    ha _ _ h.pos (prefix_getElem? hp (getElem?_append_len _ _ _))
  have hs : skipc X.C gs.code.length = gs.code.length := skipc_eq_self hc (patch_ne_pb _ _ hi)
  unfold VEnv.at VEnv.next
  show X.C[skipc X.C pc]? = _ ∧ skipc X.C pc + 1 = _
  rw [h.eq, hs]
  exact ⟨hc, rfl⟩

theorem At.exact {X : RC} {gs : GS} (h0 : 0 < gs.code.length) : At X gs.code.length gs := ⟨rfl, h0⟩

/-! ### literals -/

theorem lit_ok {tok : Bytes} (h : genRangeBad (decVal tok) = false) :
    toInt32 (strtolNat tok) = ((decVal tok : Nat) : Int) ∧ decVal tok < WORD_MAX := by
  have hlt : decVal tok < 2147483647 := (Static.rangeOK_iff _).1 h
  refine ⟨?_, hlt⟩
  unfold strtolNat LONG_MAX toInt32
  have : min (decVal tok) 9223372036854775807 = decVal tok := by omega
  rw [this]
  have h2 : decVal tok % 4294967296 = decVal tok := Nat.mod_eq_of_lt (by omega)
  simp only [h2]
  rw [if_pos (by omega)]

theorem genStrToInt_snd (gs : GS) (tok : Bytes) : (genStrToInt gs tok).2 = toInt32 (strtolNat tok) := rfl

theorem negInt32_nat (k : Nat) : negInt32 (k : Int) = -(k : Int) := by
  unfold negInt32 INT_MIN
  rw [if_neg (by omega)]

/-! ### the leaves -/

theorem dispatchValue_name (f : Nat) (gs : GS) (tok file : Bytes) (line : Int) (l r : Node) (tgt : Int) :
    dispatchValue (f+1) gs (.mk NodeT.NAME tok file line l r) tgt =
      ((gs.advanceLine line file).fetchVar tok).1.emit (.add tgt ((gs.advanceLine line file).fetchVar tok).2 0) := by
  rw [dispatchValue_succ, if_pos rfl]

theorem dispatchValue_number (f : Nat) (gs : GS) (tok file : Bytes) (line : Int) (l r : Node) (tgt : Int) :
    dispatchValue (f+1) gs (.mk NodeT.NUMBER tok file line l r) tgt =
      (genStrToInt (gs.advanceLine line file) tok).1.emit (.const tgt (toInt32 (strtolNat tok))) := by
  rw [dispatchValue_succ, if_neg (by decide), if_pos rfl]; rfl

/-- a register known by name in a state of the routine is the validator's register of that name -/
theorem regOf_of_links {X : RC} (ok : X.OK) {regs : List VReg} (he : RegsExt regs X.R) {i : Nat} {r : VReg}
    (hr : regs[i]? = some r) {x : Bytes} (hx : r.name = x) (hP : PV x) :
    X.e.me.regOf x = some (i : Int) := by
  obtain ⟨r', e1, e2, e3⟩ := he i r hr
  have hnt : r'.isTemp = false := by
    cases ht : r'.isTemp with
    | false => rfl
    | true =>
      exfalso
      have := ok.tn r' (List.mem_iff_getElem?.2 ⟨i, e1⟩) ht
      exact PV_ne_temp x hP (by rw [← hx, ← e2]; exact this)
  exact regOf_smap ok.ntn e1 hnt (e2.trans hx) (PV_noPrefix x hP) _ _

theorem notNamed_of_links {X : RC} {regs : List VReg} (he : RegsExt regs X.R) {i : Nat} {r : VReg}
    (hr : regs[i]? = some r) (ht : r.isTemp = true) : X.e.me.isNamed (i : Int) = false := by
  obtain ⟨r', e1, e2, e3⟩ := he i r hr
  exact isNamed_smap_temp e1 (e3.trans ht) _ _

/-- a NAME node as a value: `ADD tgt, reg(tok), 0` -/
theorem name_corr {X : RC} (ok : X.OK) (f : Nat) (gs : GS) (tok file : Bytes) (line : Int) (l r : Node) (tgt : Int)
    (hP : PV tok) (lk : VLinks X (dispatchValue (f+1) gs (.mk NodeT.NAME tok file line l r) tgt))
    {pc : Nat} (hat : At X pc gs) :
    ∃ ry : Int, X.e.me.regOf tok = some ry ∧ X.e.at pc = some (.add tgt ry 0) ∧
      At X (X.e.next pc) (dispatchValue (f+1) gs (.mk NodeT.NAME tok file line l r) tgt) := by
  rw [dispatchValue_name] at lk ⊢
  obtain ⟨k0, hk0⟩ := advanceLine_code gs line file
  have fv := fetchVar_spec PV (gs.advanceLine line file) tok hP
  obtain ⟨i, rg, e1, e2, e3⟩ := fv.reg
  generalize gs.advanceLine line file = g0 at *
  generalize hg1 : (g0.fetchVar tok) = fvr at *
  obtain ⟨g1, idx⟩ := fvr
  simp only at *
  have hcode : (g1.emit (.add tgt idx 0)).code = g0.code ++ [.add tgt idx 0] := by rw [emit_code, fv.code]
  have hat0 : At X pc g0 :=
    hat.sites hk0 (by rw [hcode]; exact prefix_append_self _ _) lk.agree
  obtain ⟨a1, a2⟩ := hat0.instr (i := .add tgt idx 0) (t := []) (by rw [hcode]; exact List.prefix_refl _) lk.agree (by intro h; cases h)
  have hreg := regOf_of_links ok (show RegsExt g1.top.regs X.R from lk.regs) e2 e3 hP
  refine ⟨(i : Int), hreg, ?_, ?_⟩
  · rw [a1, e1]; rfl
  · rw [a2]
    have : g0.code.length + 1 = (g1.emit (.add tgt idx 0)).code.length := by rw [hcode]; simp
    rw [this]
    exact At.exact (by rw [hcode]; simp)

/-- a NUMBER node as a value: `CONST tgt, c` -/
theorem number_corr {X : RC} (f : Nat) (gs : GS) (tok file : Bytes) (line : Int) (l r : Node) (tgt : Int)
    (lk : VLinks X (dispatchValue (f+1) gs (.mk NodeT.NUMBER tok file line l r) tgt))
    {pc : Nat} (hat : At X pc gs) :
    X.e.at pc = some (.const tgt (toInt32 (strtolNat tok))) ∧
      At X (X.e.next pc) (dispatchValue (f+1) gs (.mk NodeT.NUMBER tok file line l r) tgt) := by
  rw [dispatchValue_number] at lk ⊢
  obtain ⟨k0, hk0⟩ := advanceLine_code gs line file
  have hc1 := genStrToInt_code (gs.advanceLine line file) tok
  generalize gs.advanceLine line file = g0 at *
  generalize (genStrToInt g0 tok).1 = g1 at *
  have hcode : (g1.emit (.const tgt (toInt32 (strtolNat tok)))).code = g0.code ++ [.const tgt (toInt32 (strtolNat tok))] := by
    rw [emit_code, hc1]
  have hat0 : At X pc g0 := hat.sites hk0 (by rw [hcode]; exact prefix_append_self _ _) lk.agree
  obtain ⟨a1, a2⟩ := hat0.instr (i := .const tgt (toInt32 (strtolNat tok))) (t := [])
    (by rw [hcode]; exact List.prefix_refl _) lk.agree (by intro h; cases h)
  refine ⟨by rw [a1]; rfl, ?_⟩
  rw [a2]
  have : g0.code.length + 1 = (g1.emit (.const tgt (toInt32 (strtolNat tok)))).code.length := by rw [hcode]; simp
  rw [this]
  exact At.exact (by rw [hcode]; simp)

/-! ### introduction rules of the validator -/

theorem checkValue_var_ok {e : VEnv} {y : Name} {live : List Int} {pc : Nat} {tgt ry : Int}
    (h1 : e.at pc = some (.add tgt ry 0)) (h2 : e.me.regOf y = some ry) (h3 : live.contains tgt = false) :
    checkValue e (.var y) live pc = some (tgt, e.next pc) := by
  have h3' : tgt ∉ live := by simpa using h3
  simp only [checkValue, h1, h2]
  simp [h3']

theorem checkValue_num_ok {e : VEnv} {n : Nat} {live : List Int} {pc : Nat} {tgt : Int}
    (h1 : e.at pc = some (.const tgt (n : Int))) (h2 : n < WORD_MAX) (h3 : live.contains tgt = false) :
    checkValue e (.num n) live pc = some (tgt, e.next pc) := by
  have h3' : tgt ∉ live := by simpa using h3
  simp only [checkValue, h1]
  simp [h2, h3']

theorem checkIncDec_ok {e : VEnv} {y : Name} {k : Nat} {isInc : Bool} {live : List Int} {pc : Nat}
    {t1 t2 ry c2 tgt : Int}
    (h1 : e.at pc = some (.add t1 ry 0)) (h2 : e.me.regOf y = some ry) (h3 : tempOK e live t1 = true)
    (h4 : e.at (e.next pc) = some (.const t2 c2)) (h5 : tempOK e live t2 = true) (h6 : t2 ≠ t1)
    (h7 : e.at (e.next (e.next pc)) = some (.add tgt t1 (if isInc then (k : Int) else -(k : Int))))
    (h8 : k < WORD_MAX) (h9 : live.contains tgt = false) :
    checkIncDec e y k isInc live pc = some (tgt, e.next (e.next (e.next pc))) := by
  have h9' : tgt ∉ live := by simpa using h9
  unfold checkIncDec
  simp only [h1, h2, h4, h7]
  simp [h3, h5, h6, h8, h9']

theorem checkValue_call_ok {e : VEnv} {f : Name} {args : Values} {live : List Int} {pc : Nat}
    {j : Nat} {pd : ProgDef} {ri : RInfo} {temps : List Int} {pc1 pc2 : Nat} {cnt tgt : Int}
    (h1 : lookupProg e.src f e.routine = some (j, pd)) (h2 : e.infos[j]? = some ri)
    (h3 : checkArgs e args live [] pc = some (temps, pc1)) (h4 : pd.params.length = temps.length)
    (h5 : e.at pc1 = some (.prepare cnt (ri.mi : Int) tgt)) (h6 : live.contains tgt = false)
    (h7 : checkArgInstrs e temps 0 (e.next pc1) = some pc2) (h8 : e.at pc2 = some (.exec (ri.entry : Int))) :
    checkValue e (.call f args) live pc = some (tgt, e.next pc2) := by
  have h6' : tgt ∉ live := by simpa using h6
  simp only [checkValue, h1, h2, h3]
  simp [h4, h5, h6', h7, h8]

theorem checkArgs_cons_ok {e : VEnv} {a : Value} {as : Values} {live acc : List Int} {pc pc1 : Nat} {t : Int}
    (h1 : checkValue e a (live ++ acc) pc = some (t, pc1)) (h2 : tempOK e (live ++ acc) t = true) :
    checkArgs e (.cons a as) live acc pc = checkArgs e as live (acc ++ [t]) pc1 := by
  simp only [checkArgs, h1]
  simp [h2]

/-! ### argument lists of the source -/

theorem appendV_nil : ∀ a : Values, Values.appendV a .nil = a
  | .nil => rfl
  | .cons v vs => by simp [Values.appendV, appendV_nil vs]

theorem appendV_assoc : ∀ a b c : Values, Values.appendV (Values.appendV a b) c = Values.appendV a (Values.appendV b c)
  | .nil, b, c => rfl
  | .cons v vs, b, c => by simp [Values.appendV, appendV_assoc vs b c]

theorem valuesOf_count0 (n : Node) (h : argCount n = 0) : valuesOf n = .nil := by
  have := valuesOf_length n
  rw [h] at this
  cases hv : valuesOf n with
  | nil => rfl
  | cons v vs => rw [hv] at this; simp [Values.length] at this

/-- the argument list of a built-in shape -/
theorem builtin_values (l r : Node) (hb : builtinP l r (argCount r)) (hs : valShape true r = true) :
    valuesOf r = .cons (.var r.left.tok) (.cons (.num (decVal r.right.left.tok)) .nil) ∧
    valNames r = varOK r.left.tok := by
  obtain ⟨_, hc, h1, h2⟩ := hb
  cases r with
  | nil => simp [Node.left, Node.ty, NodeT.NAME] at h1
  | mk t1 tok1 f1 ln1 l1 r1 =>
    simp only [Node.left, Node.right] at h1 h2 ⊢
    have ht1 : t1 = NodeT.SPLIT := by
      refine Classical.byContradiction fun hne => ?_
      rw [argCount, if_neg hne] at hc; cases hc
    subst ht1
    rw [valShape_mk, if_pos ⟨rfl, rfl⟩, Bool.and_eq_true] at hs
    rw [argCount, if_pos rfl] at hc
    cases l1 with
    | nil => simp [Node.ty, NodeT.NAME] at h1
    | mk ta toka fa' lna la ra =>
      have hta : ta = NodeT.NAME := h1
      subst hta
      have hca : argCount (.mk NodeT.NAME toka fa' lna la ra) = 1 := by rw [argCount, if_neg (by decide)]
      rw [hca] at hc
      cases r1 with
      | nil => simp [Node.ty, NodeT.NUMBER] at h2
      | mk t2 tok2 f2 ln2 l2 r2 =>
        simp only at h2 ⊢
        cases l2 with
        | nil => simp [Node.ty, NodeT.NUMBER] at h2
        | mk tb tokb fb lnb lb rb =>
          have htb : tb = NodeT.NUMBER := h2
          subst htb
          have ht2 : t2 = NodeT.SPLIT := by
            refine Classical.byContradiction fun hne => ?_
            have hs2 := hs.2
            rw [valShape_mk, if_neg (fun h => hne h.2)] at hs2
            simp [Node.ty, NodeT.NUMBER, NodeT.NAME] at hs2
          subst ht2
          have hcb : argCount (.mk NodeT.NUMBER tokb fb lnb lb rb) = 1 := by rw [argCount, if_neg (by decide)]
          have hc2 : argCount r2 = 0 := by
            rw [argCount, if_pos rfl, hcb] at hc; omega
          refine ⟨?_, ?_⟩
          · rw [valuesOf_mk, if_pos rfl, valuesOf_mk, if_neg (by decide), valuesOf_mk, if_pos rfl,
              valuesOf_mk, if_neg (by decide), valuesOf_count0 r2 hc2, valueOf_mk, if_pos rfl,
              valueOf_mk, if_neg (by decide), if_pos rfl]
            rfl
          · have hr2 : ∀ n : Node, argCount n = 0 → valNames n = true := by
              intro n
              induction n with
              | nil => intro _; rfl
              | mk t tok f ln l r ihl ihr =>
                intro h
                rw [argCount] at h
                by_cases ht : t = NodeT.SPLIT
                · rw [if_pos ht] at h
                  rw [valNames_mk, if_pos ht, ihl (by omega), ihr (by omega)]; rfl
                · rw [if_neg ht] at h; cases h
            rw [valNames_mk, if_pos rfl, valNames_mk, if_neg (by decide), if_pos rfl,
              valNames_mk, if_pos rfl, valNames_mk, if_neg (by decide), if_neg (by decide), if_neg (by decide),
              hr2 r2 hc2]
            simp [Node.tok]

/-! ### the ARG instructions -/

theorem argFold_code : ∀ (l : List (Int × Nat)) (g : GS),
    (l.foldl (fun g a => (g.emit (.arg a.2 a.1)).releaseTemporary a.1) g).code =
      g.code ++ l.map (fun a => Instr.arg a.2 a.1) := by
  intro l
  induction l with
  | nil => intro g; simp
  | cons a as ih =>
    intro g
    simp only [List.foldl_cons]
    rw [ih]
    show (g.code ++ [Instr.arg a.2 a.1]) ++ _ = _
    simp

theorem checkArgInstrs_ok {X : RC} : ∀ (temps : List Int) (i0 p0 : Nat),
    (∀ j t, temps[j]? = some t → X.C[p0 + j]? = some (.arg ((i0 + j : Nat) : Int) t)) →
    checkArgInstrs X.e temps i0 p0 = some (p0 + temps.length) := by
  intro temps
  induction temps with
  | nil => intro i0 p0 _; simp [checkArgInstrs]
  | cons t ts ih =>
    intro i0 p0 h
    have h0 := h 0 t rfl
    simp only [Nat.add_zero] at h0
    have hs : skipc X.C p0 = p0 := skipc_eq_self h0 (by intro h; cases h)
    have hat : X.e.at p0 = some (.arg (i0 : Int) t) := by
      unfold VEnv.at
      show X.C[skipc X.C p0]? = _
      rw [hs]; exact h0
    have hnx : X.e.next p0 = p0 + 1 := by
      unfold VEnv.next
      show skipc X.C p0 + 1 = _
      rw [hs]
    simp only [checkArgInstrs, hat, hnx]
    simp only [and_self, if_true]
    rw [ih (i0 + 1) (p0 + 1)]
    · simp; omega
    · intro j t' hj
      have := h (j + 1) t' (by simpa using hj)
      rw [show p0 + 1 + j = p0 + (j + 1) by omega, show i0 + 1 + j = i0 + (j + 1) by omega]
      exact this

end GenShape
end Theo
