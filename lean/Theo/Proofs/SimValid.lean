/-
  C01, part 4: everything `shapeCheck` establishes about a program, routine by routine.
-/
import Theo.Proofs.SimRegs

set_option linter.unusedSimpArgs false

namespace Theo
namespace Sim
open Sem

/-- the jumps over the routine bodies, from the instruction after the root `PREPARE` to `main` -/
inductive Skips (code : List Instr) : Nat → Nat → Prop where
  | refl (pc : Nat) : Skips code pc pc
  | jump {pc : Nat} {off : Int} {after pcF : Nat} : code[skipc code pc]? = some (.jmp off) →
      ((skipc code pc : Nat) : Int) + off = (after : Int) → Skips code after pcF → Skips code pc pcF

/-- what the validator checked for routine `i` (with the routines `infos` defined before it) -/
def RoutOK (src : Source) (p : Program) (infos : List RInfo) (i : Nat) (pd : ProgDef) (ri : RInfo)
    (G : Walk) : Prop :=
  ri.mi = i ∧ (∃ sm, p.stackMaps[i]? = some sm ∧ ri.regs = sm.map) ∧ namesNodup ri = true ∧
  paramsOK ri pd.params = true ∧
  checkStmts ⟨p.code, src, ri, i, infos⟩ pd.body ⟨ri.entry, [], []⟩ = some G ∧
  resolveOK p.code G = true ∧
  ∃ ro, VEnv.at ⟨p.code, src, ri, i, infos⟩ G.pc = some (.ret ro) ∧ ri.regOf pd.out = some ro

theorem checkProgs_spec (p : Program) (src : Source) : ∀ (rest : List ProgDef) (i : Nat)
    (infos : List RInfo) (pc : Nat) (infosF : List RInfo) (pcF : Nat),
    checkProgs p src rest i infos pc = some (infosF, pcF) →
    ∃ more : List (RInfo × Walk), infosF = infos ++ more.map (·.1) ∧ more.length = rest.length ∧
      (∀ k pd, rest[k]? = some pd → ∃ rg, more[k]? = some rg ∧
        RoutOK src p (infos ++ (more.take k).map (·.1)) (i + k) pd rg.1 rg.2) ∧
      Skips p.code pc pcF := by
  intro rest
  induction rest with
  | nil =>
    intro i infos pc infosF pcF h
    simp only [checkProgs] at h
    cases h
    exact ⟨[], by simp, rfl, fun k pd hk => by simp at hk, Skips.refl _⟩
  | cons pd rest ih =>
    intro i infos pc infosF pcF h
    simp only [checkProgs] at h
    split at h
    · rename_i off sm h1 h2
      split at h
      · cases h
      · rename_i hc1
        split at h
        · rename_i w h3
          split at h
          · rename_i r ro h4 h5
            split at h
            · rename_i hc2
              obtain ⟨rfl, hres, hoff⟩ := hc2
              obtain ⟨more, g1, g2, g3, g4⟩ := ih _ _ _ _ _ h
              simp only [Bool.not_eq_true, Bool.not_eq_false', Bool.and_eq_true] at hc1
              refine ⟨(⟨skipc p.code pc + 1, i, sm.map⟩, w) :: more, ?_, by simp [g2], ?_,
                Skips.jump h1 hoff g4⟩
              · rw [g1]; simp
              · intro k pd' hk
                cases k with
                | zero =>
                  simp only [List.getElem?_cons_zero, Option.some.injEq] at hk
                  subst hk
                  refine ⟨_, rfl, ?_⟩
                  simp only [List.take_zero, List.map_nil, List.append_nil, Nat.add_zero]
                  exact ⟨rfl, ⟨sm, h2, rfl⟩, hc1.1, hc1.2, h3, hres, r, h4, h5⟩
                | succ k =>
                  simp only [List.getElem?_cons_succ] at hk ⊢
                  obtain ⟨rg, q1, q2⟩ := g3 k pd' hk
                  refine ⟨rg, q1, ?_⟩
                  simp only [List.take_succ_cons, List.map_cons]
                  rw [show i + (k + 1) = i + 1 + k by omega]
                  simpa using q2
            · cases h
          · cases h
        · cases h
    · cases h

/-- the validated layout of a program: per routine `r` (the root is `r = progs.length`) its
    register information, the final walk of its body and where the body starts -/
structure Valid (src : Source) (p : Program) where
  infos : List RInfo
  ri : Nat → RInfo
  G : Nat → Walk
  start : Nat → Nat

def Valid.env {src : Source} {p : Program} (V : Valid src p) (r : Nat) : VEnv :=
  ⟨p.code, src, V.ri r, r, V.infos.take r⟩

structure Valid.OK {src : Source} {p : Program} (V : Valid src p) : Prop where
  len : V.infos.length = src.progs.length
  info : ∀ j, j < src.progs.length → V.infos[j]? = some (V.ri j)
  mi : ∀ r, r ≤ src.progs.length → (V.ri r).mi = r
  entry : ∀ r, r < src.progs.length → (V.ri r).entry = V.start r
  regs : ∀ r, r ≤ src.progs.length → ∃ sm, p.stackMaps[r]? = some sm ∧ (V.ri r).regs = sm.map
  nodup : ∀ r, r ≤ src.progs.length → namesNodup (V.ri r) = true
  chk : ∀ r, r ≤ src.progs.length →
    checkStmts (V.env r) (bodyOf src r) ⟨V.start r, [], []⟩ = some (V.G r)
  res : ∀ r, r ≤ src.progs.length → resolveOK p.code (V.G r) = true
  rout : ∀ r, r < src.progs.length → ∃ pd ro, src.progs[r]? = some pd ∧
    paramsOK (V.ri r) pd.params = true ∧ (V.env r).at (V.G r).pc = some (.ret ro) ∧
    (V.ri r).regOf pd.out = some ro
  halt : p.code[skipc p.code (V.G src.progs.length).pc]? = some .halt
  last : skipc p.code (V.G src.progs.length).pc + 1 = p.code.length
  head : ∃ cnt tgt, p.code[0]? = some (.prepare cnt (src.progs.length : Int) tgt)
  skips : Skips p.code 1 (V.start src.progs.length)

/-- `valid_of_shapeCheck` together with the traversal it was read off from -/
theorem valid_of_shapeCheck_strong {src : Source} {p : Program} (h : shapeCheck src p = true) :
    ∃ V : Valid src p, V.OK ∧
      checkProgs p src src.progs 0 [] 1 = some (V.infos, V.start src.progs.length) ∧
      (V.ri src.progs.length).entry = 0 := by
  unfold shapeCheck at h
  split at h
  · rename_i cnt mi tgt crest hcode
    split at h
    · rename_i infosF pcM hprogs
      split at h
      · rename_i sm hsm
        simp only [Bool.and_eq_true, decide_eq_true_eq] at h
        obtain ⟨⟨hmi, hnd⟩, h⟩ := h
        split at h
        · rename_i wR hchk
          simp only [Bool.and_eq_true, beq_iff_eq] at h
          obtain ⟨⟨hres, hlast⟩, hhalt⟩ := h
          obtain ⟨more, g1, g2, g3, g4⟩ := checkProgs_spec p src _ _ _ _ _ _ hprogs
          simp only [List.nil_append, Nat.zero_add] at g1 g3
          let riR : RInfo := ⟨0, src.progs.length, sm.map⟩
          let V : Valid src p :=
            { infos := infosF
              ri := fun r => match more[r]? with | some rg => rg.1 | none => riR
              G := fun r => match more[r]? with | some rg => rg.2 | none => wR
              start := fun r => match more[r]? with | some rg => rg.1.entry | none => pcM }
          have hnone : more[src.progs.length]? = none := List.getElem?_eq_none (by omega)
          have hsome : ∀ r, r < src.progs.length → ∃ rg pd, more[r]? = some rg ∧
              src.progs[r]? = some pd ∧ RoutOK src p (infosF.take r) r pd rg.1 rg.2 := by
            intro r hr
            have hpd : src.progs[r]? = some src.progs[r] := List.getElem?_eq_getElem hr
            obtain ⟨rg, q1, q2⟩ := g3 r _ hpd
            refine ⟨rg, _, q1, hpd, ?_⟩
            rw [g1, ← List.map_take]
            exact q2
          have hlen : infosF.length = src.progs.length := by rw [g1, List.length_map, g2]
          refine ⟨V, ?_, ?_, ?_⟩
          rotate_left
          · show checkProgs p src src.progs 0 [] 1 = some (infosF, match more[src.progs.length]? with
                | some rg => rg.1.entry | none => pcM)
            rw [hnone]; exact hprogs
          · show (match more[src.progs.length]? with | some rg => rg.1 | none => riR).entry = 0
            rw [hnone]
          refine
            { len := hlen
              info := ?_, mi := ?_, entry := ?_, regs := ?_, nodup := ?_, chk := ?_, res := ?_,
              rout := ?_, halt := ?_, last := ?_, head := ?_, skips := ?_ }
          · intro j hj
            obtain ⟨rg, pd, q1, _, _⟩ := hsome j hj
            show infosF[j]? = some (match more[j]? with | some rg => rg.1 | none => riR)
            rw [q1, g1, List.getElem?_map, q1]
            rfl
          · intro r hr
            show (match more[r]? with | some rg => rg.1 | none => riR).mi = r
            rcases Nat.lt_or_ge r src.progs.length with hlt | hge
            · obtain ⟨rg, pd, q1, _, q3⟩ := hsome r hlt
              rw [q1]; exact q3.1
            · have : r = src.progs.length := by omega
              subst this
              rw [hnone]
          · intro r hr
            obtain ⟨rg, pd, q1, _, _⟩ := hsome r hr
            show (match more[r]? with | some rg => rg.1 | none => riR).entry =
              (match more[r]? with | some rg => rg.1.entry | none => pcM)
            rw [q1]
          · intro r hr
            show ∃ sm', p.stackMaps[r]? = some sm' ∧
              (match more[r]? with | some rg => rg.1 | none => riR).regs = sm'.map
            rcases Nat.lt_or_ge r src.progs.length with hlt | hge
            · obtain ⟨rg, pd, q1, _, q3⟩ := hsome r hlt
              rw [q1]; exact q3.2.1
            · have : r = src.progs.length := by omega
              subst this
              rw [hnone]; exact ⟨sm, hsm, rfl⟩
          · intro r hr
            show namesNodup (match more[r]? with | some rg => rg.1 | none => riR) = true
            rcases Nat.lt_or_ge r src.progs.length with hlt | hge
            · obtain ⟨rg, pd, q1, _, q3⟩ := hsome r hlt
              rw [q1]; exact q3.2.2.1
            · have : r = src.progs.length := by omega
              subst this
              rw [hnone]; exact hnd
          · intro r hr
            show checkStmts ⟨p.code, src, (match more[r]? with | some rg => rg.1 | none => riR), r,
                infosF.take r⟩ (bodyOf src r)
              ⟨(match more[r]? with | some rg => rg.1.entry | none => pcM), [], []⟩ =
              some (match more[r]? with | some rg => rg.2 | none => wR)
            rcases Nat.lt_or_ge r src.progs.length with hlt | hge
            · obtain ⟨rg, pd, q1, q2, q3⟩ := hsome r hlt
              rw [q1]
              unfold bodyOf
              rw [q2]
              exact q3.2.2.2.2.1
            · have : r = src.progs.length := by omega
              subst this
              rw [hnone]
              unfold bodyOf
              rw [List.getElem?_eq_none (Nat.le_refl _), List.take_of_length_le (by omega)]
              exact hchk
          · intro r hr
            show resolveOK p.code (match more[r]? with | some rg => rg.2 | none => wR) = true
            rcases Nat.lt_or_ge r src.progs.length with hlt | hge
            · obtain ⟨rg, pd, q1, _, q3⟩ := hsome r hlt
              rw [q1]; exact q3.2.2.2.2.2.1
            · have : r = src.progs.length := by omega
              subst this
              rw [hnone]; exact hres
          · intro r hr
            obtain ⟨rg, pd, q1, q2, q3⟩ := hsome r hr
            obtain ⟨ro, q4, q5⟩ := q3.2.2.2.2.2.2
            refine ⟨pd, ro, q2, ?_, ?_, ?_⟩
            · show paramsOK (match more[r]? with | some rg => rg.1 | none => riR) pd.params = true
              rw [q1]; exact q3.2.2.2.1
            · show VEnv.at ⟨p.code, src, (match more[r]? with | some rg => rg.1 | none => riR), r,
                infosF.take r⟩ (match more[r]? with | some rg => rg.2 | none => wR).pc = _
              rw [q1]; exact q4
            · show (match more[r]? with | some rg => rg.1 | none => riR).regOf pd.out = some ro
              rw [q1]; exact q5
          · show p.code[skipc p.code (match more[src.progs.length]? with
                | some rg => rg.2 | none => wR).pc]? = some .halt
            rw [hnone]; exact hhalt
          · show skipc p.code (match more[src.progs.length]? with
                | some rg => rg.2 | none => wR).pc + 1 = p.code.length
            rw [hnone]; exact hlast
          · rw [hcode, hmi]; exact ⟨cnt, tgt, rfl⟩
          · show Skips p.code 1 (match more[src.progs.length]? with
                | some rg => rg.1.entry | none => pcM)
            rw [hnone]; exact g4
        · cases h
      · cases h
    · cases h
  · cases h

theorem valid_of_shapeCheck {src : Source} {p : Program} (h : shapeCheck src p = true) :
    ∃ V : Valid src p, V.OK := by
  obtain ⟨V, hV, _⟩ := valid_of_shapeCheck_strong h
  exact ⟨V, hV⟩
