/-
  C04 (sugar) — `detect`, `replacement`, priority bins and the pass loop of the model on the two
  built-in definitions: one pass of `apply_macros` is one `sugarStep`, the loop is `desugarLA`.
-/
import Theo.Proofs.SugarDetect

namespace Theo.Sugar

/-! ### `detect`, `replacement`, `bins` for a sugar definition -/

section defs
variable {m : MacroDef} {op name : Bytes} {line : Int}

theorem check_sugar (hm : IsSugarDef m op name line) (a b c : Token) :
    checkConstraint m [[a], [b], [c]] = (b.text == op) := by
  have hop := hm.op
  cases hr : m.rule[1]? with
  | none => rw [hr] at hop; cases hop
  | some req =>
    rw [hr] at hop
    have : req.text = op := Option.some.inj hop
    simp only [checkConstraint, hm.cc, List.all_cons, List.all_nil, hr, Bool.and_true]
    simp [this]

theorem detectFrom_hit (hm : IsSugarDef m op name line) (a b c e : Token) (rest : List Token) (i : Nat)
    (h : hitOp op (a :: b :: c :: e :: rest) = true) :
    detectFrom (mkDetector m) (a :: b :: c :: e :: rest) i = some ⟨i, 3, [[a], [b], [c]]⟩ := by
  simp only [hitOp, Bool.and_eq_true, decide_eq_true_eq] at h
  obtain ⟨⟨⟨⟨h1, h2⟩, h3⟩, h4⟩, h5⟩ := h
  rw [detectFrom, detectAt_eq _ hm.tables]
  simp only
  rw [if_pos ⟨h1, h2, h3, h4⟩]
  have : (mkDetector m).md = m := rfl
  simp only [this, check_sugar hm, h5, beq_self_eq_true, if_true]
  rfl

theorem detectFrom_miss (hm : IsSugarDef m op name line) (t : Token) (ts : List Token) (i : Nat)
    (h : hitOp op (t :: ts) = false) :
    detectFrom (mkDetector m) (t :: ts) i = detectFrom (mkDetector m) ts (i + 1) := by
  rw [detectFrom, detectAt_eq _ hm.tables]
  rcases ts with _ | ⟨b, _ | ⟨c, _ | ⟨e, rest⟩⟩⟩
  · rfl
  · rfl
  · rfl
  · simp only
    by_cases hk : t.kind = Tok.ID ∧ b.kind = Tok.NV_ID ∧ c.kind = Tok.INT ∧ e.kind ≤ Tok.WITH
    · rw [if_pos hk]
      have : (mkDetector m).md = m := rfl
      simp only [this, check_sugar hm]
      have hb : ¬ b.text = op := by
        intro hb
        have : hitOp op (t :: b :: c :: e :: rest) = true :=
          hitOp_iff.2 ⟨t, b, c, e, rest, rfl, hk.1, hk.2.1, hk.2.2.1, hk.2.2.2, hb⟩
        rw [h] at this; cases this
      simp [hb]
    · rw [if_neg hk]

theorem detectFrom_loc (d : Detector) : ∀ (ts : List Token) (i : Nat) (r : Response),
    detectFrom d ts i = some r → i ≤ r.location := by
  intro ts
  induction ts with
  | nil => intro i r h; simp [detectFrom] at h
  | cons t ts ih =>
    intro i r h
    rw [detectFrom] at h
    split at h
    · split at h
      · cases h; exact Nat.le_refl _
      · exact Nat.le_trans (Nat.le_succ _) (ih _ _ h)
    · exact Nat.le_trans (Nat.le_succ _) (ih _ _ h)

theorem replacement_sugar (hm : IsSugarDef m op name line) (i : Nat) (a b c : Token) (p : Nat) :
    replacement m ⟨i, 3, [[a], [b], [c]]⟩ p = call name line a c := by
  unfold replacement
  rw [hm.body, hm.tt]
  rfl

end defs

theorem bins_pair (d1 d2 : Detector) (h : d1.md.priority = d2.md.priority) :
    bins [d1, d2] = [[d1, d2]] := by
  simp [bins, h, List.eraseDups_cons, insertionSort, sortedInsert]


/-! ### one pass of `apply_macros` is one `sugarStep` -/

section sim
variable {m1 m2 : MacroDef}

/-- the detections of the two definitions from position `i` on -/
def cands (m1 m2 : MacroDef) (ts : List Token) (i : Nat) : List (Detector × Response) :=
  [mkDetector m1, mkDetector m2].filterMap (fun d => (detectFrom d ts i).map (fun r => (d, r)))

theorem cands_eq (ts : List Token) (i : Nat) :
    cands m1 m2 ts i =
      (match detectFrom (mkDetector m1) ts i with | some r => [(mkDetector m1, r)] | none => []) ++
      (match detectFrom (mkDetector m2) ts i with | some r => [(mkDetector m2, r)] | none => []) := by
  unfold cands
  cases h1 : detectFrom (mkDetector m1) ts i <;> cases h2 : detectFrom (mkDetector m2) ts i <;>
    simp [h1, h2]

theorem splice_eq (pre : List Token) (i : Nat) (hpre : pre.length = i) (a b c : Token) (rest repl : List Token) :
    (pre ++ a :: b :: c :: rest).take i ++ repl ++ (pre ++ a :: b :: c :: rest).drop (i + 3) =
      pre ++ (repl ++ rest) := by
  subst hpre
  rw [List.take_left', List.drop_append]
  · simp
  · rfl

theorem step_sim (h1 : IsSugarDef m1 plus incName 1) (h2 : IsSugarDef m2 minus decName 2) (p : Nat) :
    ∀ (ts : List Token) (i : Nat),
      (sugarStep ts = none →
        detectFrom (mkDetector m1) ts i = none ∧ detectFrom (mkDetector m2) ts i = none) ∧
      (∀ ts', sugarStep ts = some ts' → ∃ d r, pickBest (cands m1 m2 ts i) = some (d, r) ∧
        ∀ pre : List Token, pre.length = i →
          (pre ++ ts).take r.location ++ replacement d.md r p ++ (pre ++ ts).drop (r.location + r.length) =
            pre ++ ts') := by
  intro ts
  induction ts with
  | nil =>
    intro i
    refine ⟨fun _ => ⟨rfl, rfl⟩, fun ts' h => ?_⟩
    simp [sugarStep] at h
  | cons t tl ih =>
    intro i
    cases hp : hitOp plus (t :: tl) with
    | true =>
      have hm := hitOp_excl hp
      obtain ⟨a, b, c, e, rest, heq, _⟩ := hitOp_iff.1 hp
      rw [heq] at hp hm ⊢
      have hs := sugarStep_plus hp
      have hd1 := detectFrom_hit h1 a b c e rest i hp
      have hd2 := detectFrom_miss h2 a (b :: c :: e :: rest) i hm
      refine ⟨fun h => (by rw [hs] at h; cases h), fun ts' h => ?_⟩
      rw [hs] at h
      cases h
      refine ⟨mkDetector m1, ⟨i, 3, [[a], [b], [c]]⟩, ?_, ?_⟩
      · rw [cands_eq, hd1, hd2]
        cases hr : detectFrom (mkDetector m2) (b :: c :: e :: rest) (i + 1) with
        | none => rfl
        | some r2 =>
          have := detectFrom_loc _ _ _ _ hr
          have hb : Response.better r2 ⟨i, 3, [[a], [b], [c]]⟩ = false := by
            simp only [Response.better, Bool.or_eq_false_iff, Bool.and_eq_false_iff, decide_eq_false_iff_not,
              beq_eq_false_iff_ne]
            exact ⟨by omega, Or.inl (by simp only [ne_eq]; omega)⟩
          simp [pickBest, hb]
      · intro pre hpre
        have : (mkDetector m1).md = m1 := rfl
        rw [this, replacement_sugar h1]
        exact splice_eq pre i hpre a b c (e :: rest) _
    | false =>
      cases hm : hitOp minus (t :: tl) with
      | true =>
        obtain ⟨a, b, c, e, rest, heq, _⟩ := hitOp_iff.1 hm
        rw [heq] at hp hm ⊢
        have hs := sugarStep_minus hm
        have hd2 := detectFrom_hit h2 a b c e rest i hm
        have hd1 := detectFrom_miss h1 a (b :: c :: e :: rest) i hp
        refine ⟨fun h => (by rw [hs] at h; cases h), fun ts' h => ?_⟩
        rw [hs] at h
        cases h
        refine ⟨mkDetector m2, ⟨i, 3, [[a], [b], [c]]⟩, ?_, ?_⟩
        · rw [cands_eq, hd1, hd2]
          cases hr : detectFrom (mkDetector m1) (b :: c :: e :: rest) (i + 1) with
          | none => rfl
          | some r1 =>
            have := detectFrom_loc _ _ _ _ hr
            have hb : Response.better ⟨i, 3, [[a], [b], [c]]⟩ r1 = true := by
              simp only [Response.better, Bool.or_eq_true, decide_eq_true_eq]
              exact Or.inl (by omega)
            simp [pickBest, hb]
        · intro pre hpre
          have : (mkDetector m2).md = m2 := rfl
          rw [this, replacement_sugar h2]
          exact splice_eq pre i hpre a b c (e :: rest) _
      | false =>
        have hs := sugarStep_miss hp hm
        have hd1 := detectFrom_miss h1 t tl i hp
        have hd2 := detectFrom_miss h2 t tl i hm
        have ih' := ih (i + 1)
        constructor
        · intro h
          rw [hs] at h
          have hn : sugarStep tl = none := by
            cases hx : sugarStep tl with
            | none => rfl
            | some x => rw [hx] at h; cases h
          rw [hd1, hd2]
          exact ih'.1 hn
        · intro ts' h
          rw [hs] at h
          cases hx : sugarStep tl with
          | none => rw [hx] at h; cases h
          | some tl' =>
            rw [hx] at h
            cases h
            obtain ⟨d, r, hpb, hsp⟩ := ih'.2 tl' hx
            refine ⟨d, r, ?_, fun pre hpre => ?_⟩
            · rw [cands_eq, hd1, hd2, ← cands_eq]; exact hpb
            · have := hsp (pre ++ [t]) (by simp [hpre])
              simpa using this

end sim


section loop
variable {m1 m2 : MacroDef}

theorem applyStep_sugar (h1 : IsSugarDef m1 plus incName 1) (h2 : IsSugarDef m2 minus decName 2)
    (inp : List Token) (p : Nat) :
    (sugarStep inp = none → applyStep [[mkDetector m1, mkDetector m2]] inp p = none) ∧
    (∀ inp', sugarStep inp = some inp' →
      ∃ d r, applyStep [[mkDetector m1, mkDetector m2]] inp p = some (d, r, inp')) := by
  have hc : [mkDetector m1, mkDetector m2].filterMap (fun d => (detect d inp).map (fun r => (d, r))) =
      cands m1 m2 inp 0 := rfl
  obtain ⟨hn, hs⟩ := step_sim h1 h2 p inp 0
  constructor
  · intro h
    obtain ⟨e1, e2⟩ := hn h
    rw [applyStep, hc, cands_eq, e1, e2]
    rfl
  · intro inp' h
    obtain ⟨d, r, hpb, hsp⟩ := hs inp' h
    refine ⟨d, r, ?_⟩
    rw [applyStep, hc, hpb]
    have := hsp [] rfl
    simp only [List.nil_append] at this
    simp only [this]

theorem passLoop_sugar (h1 : IsSugarDef m1 plus incName 1) (h2 : IsSugarDef m2 minus decName 2) :
    ∀ (left pass : Nat) (inp : List Token) (n : Nat),
      (sugarCountLA inp < left →
        passLoop [[mkDetector m1, mkDetector m2]] left pass inp n = (desugarLA inp, n + sugarCountLA inp, false)) ∧
      (left ≤ sugarCountLA inp →
        passLoop [[mkDetector m1, mkDetector m2]] left pass inp n = (sugarIter left inp, n + left, true)) := by
  intro left
  induction left with
  | zero =>
    intro pass inp n
    exact ⟨fun h => absurd h (Nat.not_lt_zero _), fun _ => rfl⟩
  | succ left ih =>
    intro pass inp n
    rw [passLoop_succ]
    obtain ⟨hn, hs⟩ := applyStep_sugar h1 h2 inp pass
    cases hx : sugarStep inp with
    | none =>
      rw [hn hx]
      obtain ⟨e1, e2⟩ := sugarStep_none hx
      constructor
      · intro _; rw [e1, e2]; rfl
      · intro h; omega
    | some inp' =>
      obtain ⟨d, r, hst⟩ := hs inp' hx
      rw [hst]
      obtain ⟨e1, e2⟩ := sugarStep_some hx
      obtain ⟨ih1, ih2⟩ := ih (pass + 1) inp' (n + 1)
      constructor
      · intro h
        simp only
        rw [ih1 (by omega), e1, e2]
        congr 2
        omega
      · intro h
        simp only
        rw [ih2 (by omega), sugarIter, hx]
        congr 2
        omega

theorem sugar_usable {m : MacroDef} {op name : Bytes} {line : Int} (h : IsSugarDef m op name line) :
    (mkDetector m).usable = true := by
  rw [Detector.usable, h.tables]; rfl

/-- `apply_macros` on the pair of sugar definitions -/
theorem applyMacros_pair (h1 : IsSugarDef m1 plus incName 1) (h2 : IsSugarDef m2 minus decName 2)
    (inp : List Token) (passes : Nat) :
    (sugarCountLA inp < passes →
      applyMacros inp [m1, m2] passes = ⟨desugarLA inp, [], sugarCountLA inp⟩) ∧
    (1 ≤ passes → passes ≤ sugarCountLA inp →
      applyMacros inp [m1, m2] passes = ⟨sugarIter passes inp, [maxPassesErr], passes⟩) := by
  have hb : bins (([m1, m2].map mkDetector).filter (·.usable)) = [[mkDetector m1, mkDetector m2]] := by
    simp only [List.map_cons, List.map_nil, List.filter_cons, sugar_usable h1, sugar_usable h2, if_true,
      List.filter_nil]
    exact bins_pair _ _ (by show m1.priority = m2.priority; rw [h1.prio, h2.prio])
  have he : (([m1, m2].map mkDetector).filterMap (fun d =>
      if d.usable then none
      else
        let t := d.md.rule.head?.getD default
        some (⟨PErrT.MACRO_COMPILE_NON_LR, t.file, t.line, []⟩ : PErr))) = [] := by
    simp [sugar_usable h1, sugar_usable h2]
  cases passes with
  | zero =>
    exact ⟨fun h => absurd h (Nat.not_lt_zero _), fun h => absurd h (by omega)⟩
  | succ k =>
    obtain ⟨p1, p2⟩ := passLoop_sugar h1 h2 (k + 1) 0 inp 0
    constructor
    · intro h
      simp only [applyMacros, hb, he, p1 h]
      simp
    · intro _ h
      simp only [applyMacros, hb, he, p2 h]
      simp [maxPassesErr]

end loop

end Theo.Sugar
