/-
  C01 for the generator model, part 8: introduction rules of `checkStmt`, the links of a generator
  state to the final program (`SLinks`, backward along every step), the result of walking a
  statement tree (`SRes`).
-/
import Theo.Proofs.GenShapeStmtInv

set_option linter.unusedSimpArgs false
set_option linter.unusedVariables false

namespace Theo
namespace GenShape
open GS Sem Static

/-! ### introduction rules of the validator -/

theorem checkStmts_append (e : VEnv) : ∀ (a b : Stmts) (w : Walk),
    checkStmts e (a.append b) w = (checkStmts e a w).bind (checkStmts e b)
  | .nil, b, w => by simp [Stmts.append, checkStmts]
  | .cons s ss, b, w => by
    simp only [Stmts.append, checkStmts]
    cases h : checkStmt e s w with
    | none => rfl
    | some w1 => simp only [checkStmts_append e ss b w1]

theorem checkStmts_single (e : VEnv) (s : Stmt) (w : Walk) : checkStmts e (.cons s .nil) w = checkStmt e s w := by
  simp only [checkStmts]
  cases checkStmt e s w <;> rfl

theorem checkStmt_assign_ok {e : VEnv} {x : Name} {v : Value} {pos : Pos} {w : Walk} {rx : Int} {pc1 : Nat}
    (h1 : checkValue e v [] w.pc = some (rx, pc1)) (h2 : e.me.regOf x = some rx) :
    checkStmt e (.assign x v pos) w = some { w with pc := pc1 } := by
  simp only [checkStmt, h1, h2]
  simp

theorem checkStmt_loop_ok {e : VEnv} {id : Nat} {x : Name} {body : Stmts} {pos : Pos} {w w1 : Walk}
    {ctr rx offE offL : Int}
    (h1 : e.me.ctrOf id = some ctr) (h2 : e.me.regOf x = some rx) (h3 : e.at w.pc = some (.add ctr rx 0))
    (h4 : e.at (e.next w.pc) = some (.jmpc offE ctr))
    (h5 : checkStmts e body { w with pc := e.next (e.next w.pc) } = some w1)
    (h6 : e.at w1.pc = some (.add ctr ctr (-1)))
    (h7 : e.at (e.next w1.pc) = some (.jmp offL))
    (h8 : sameAnchor e.code ((skipc e.code (e.next w1.pc) : Int) + offL) (skipc e.code (e.next w.pc)) = true)
    (h9 : sameAnchor e.code ((skipc e.code (e.next w.pc) : Int) + offE) (skipc e.code (e.next w1.pc) + 1) = true) :
    checkStmt e (.loop id x body pos) w = some { w1 with pc := skipc e.code (e.next w1.pc) + 1 } := by
  simp only [checkStmt, h1, h2, h3, h4, h5, h6, h7]
  simp [h8, h9]

theorem checkStmt_while_ok {e : VEnv} {x : Name} {body : Stmts} {pos : Pos} {w w1 : Walk}
    {tmp rx offE offL : Int}
    (h2 : e.me.regOf x = some rx) (h3 : e.at w.pc = some (.add tmp rx 0)) (hn : e.me.isNamed tmp = false)
    (h4 : e.at (e.next w.pc) = some (.jmpc offE tmp))
    (h5 : checkStmts e body { w with pc := e.next (e.next w.pc) } = some w1)
    (h7 : e.at w1.pc = some (.jmp offL))
    (h8 : sameAnchor e.code ((skipc e.code w1.pc : Int) + offL) w.pc = true)
    (h9 : sameAnchor e.code ((skipc e.code (e.next w.pc) : Int) + offE) (skipc e.code w1.pc + 1) = true) :
    checkStmt e (.while_ x body pos) w = some { w1 with pc := skipc e.code w1.pc + 1 } := by
  simp only [checkStmt, h2, h3, h4, h5, h7]
  simp [hn, h8, h9]

theorem checkStmt_goto_ok {e : VEnv} {m : Name} {pos : Pos} {w : Walk} {off : Int}
    (h : e.at w.pc = some (.jmp off)) :
    checkStmt e (.goto m pos) w = some { w with pc := e.next w.pc, gotos := w.gotos ++ [(skipc e.code w.pc, off, m)] } := by
  simp only [checkStmt, h]

theorem checkStmt_if_ok {e : VEnv} {x : Name} {cst : Nat} {m : Name} {pos : Pos} {w : Walk}
    {rx t1 t2 t0 off : Int}
    (h1 : e.me.regOf x = some rx) (h2 : e.at w.pc = some (.add t1 rx 0)) (n1 : e.me.isNamed t1 = false)
    (h3 : e.at (e.next w.pc) = some (.const t2 (cst : Int))) (n2 : e.me.isNamed t2 = false) (hne : t2 ≠ t1)
    (hc : cst < WORD_MAX)
    (h4 : e.at (e.next (e.next w.pc)) = some (.test t0 t1 t2)) (n0 : e.me.isNamed t0 = false)
    (h5 : e.at (e.next (e.next (e.next w.pc))) = some (.jmpc off t0)) :
    checkStmt e (.ifGoto x cst m pos) w =
      some { w with pc := e.next (e.next (e.next (e.next w.pc))),
                    gotos := w.gotos ++ [(skipc e.code (e.next (e.next (e.next w.pc))), off, m)] } := by
  simp only [checkStmt, h1, h2, h3, h4, h5]
  simp [n1, n2, n0, hne, hc]

theorem checkStmt_stop_ok {e : VEnv} {pos : Pos} {w : Walk} (h : e.at w.pc = some .halt) :
    checkStmt e (.stop pos) w = some { w with pc := e.next w.pc } := by
  simp only [checkStmt, h]

/-! ### links of a statement-level state to the final program -/

/-- labels that are set and belong to no mark of the current function hold their final value -/
def Fin (L : List Int) (gs : GS) : Prop :=
  ∀ (l : Nat) (v : Int), gs.labels[l]? = some v → v ≠ -1 → (∀ e ∈ gs.top.marks, e.2 ≠ l) → (L[l]?).getD (-1) = v

structure SLinks (X : RC) (gs : GS) : Prop extends VLinks X gs where
  fin : Fin X.L gs

theorem SLinks.back_vq {X : RC} {P : Bytes → Prop} {gs gs' : GS} (h : SLinks X gs') (v : VQ P gs gs') : SLinks X gs :=
  ⟨h.toVLinks.back v.toGQ, fun l x hl hx hm => h.fin l x (by rw [v.labels]; exact hl) hx (by rw [v.marks]; exact hm)⟩

/-- backward along a step that keeps the labels which are set, and adds marks with new labels only -/
theorem SLinks.back {X : RC} {gs gs' : GS} (h : SLinks X gs') (q : GQ gs gs')
    (hnew : ∀ e ∈ gs'.top.marks, e ∈ gs.top.marks ∨ gs.labels.length ≤ e.2)
    (hkeep : ∀ (l : Nat) (v : Int), gs.labels[l]? = some v → v ≠ -1 → (∀ e ∈ gs'.top.marks, e.2 ≠ l) →
      gs'.labels[l]? = some v) : SLinks X gs := by
  refine ⟨h.toVLinks.back q, ?_⟩
  intro l v hl hv hm
  have hlt : l < gs.labels.length := (List.getElem?_eq_some_iff.1 hl).1
  have hm' : ∀ e ∈ gs'.top.marks, e.2 ≠ l := by
    intro e he
    rcases hnew e he with h1 | h1
    · exact hm e h1
    · omega
  exact h.fin l v (hkeep l v hl hv hm') hv hm'

theorem SLinks.back_sq {X : RC} {gs gs' : GS} {n : Node} (h : SLinks X gs') (s : SQ gs gs' n) (st : Step gs gs') :
    SLinks X gs := by
  refine h.back s.gq st.new ?_
  intro l v hl _ hm
  rw [s.frame l (List.getElem?_eq_some_iff.1 hl).1 (fun m _ hin => hm _ hin rfl)]
  exact hl

/-- the code starts with an instruction that is not a site (the root `PREPARE`) -/
def Head (gs : GS) : Prop := ∃ i, gs.code[0]? = some i ∧ i ≠ Instr.potBreak

theorem Head.mono {gs gs' : GS} (h : Head gs) (hp : gs.code <+: gs'.code) : Head gs' := by
  obtain ⟨i, h1, h2⟩ := h
  exact ⟨i, prefix_getElem? hp h1, h2⟩

/-! ### the result of walking a statement tree -/

structure SRes (X : RC) (gs' : GS) (n : Node) (w w' : Walk) : Prop where
  at_ : At X w'.pc gs'
  marks : ∃ nm, w'.marks = w.marks ++ nm ∧ nm.map (·.1) = defsOf n ∧
    ∀ m pc, (nm.filter (fun e => e.1 = m)).getLast? = some (m, pc) →
      ∃ (lab : Nat) (v : Int), (m, lab) ∈ gs'.top.marks ∧ gs'.labels[lab]? = some v ∧ 0 ≤ v ∧
        skipc X.C v.toNat = skipc X.C pc
  gotos : ∃ ng, w'.gotos = w.gotos ++ ng ∧ ng.map (·.2.2) = refsOf n ∧
    ∀ g ∈ ng, ∃ lab : Nat, (g.2.2, lab) ∈ gs'.top.marks ∧ (X.L[lab]?).getD (-1) = (g.1 : Int) + g.2.1

/-- the validator accepts the statements `ss` from every position anchored at `gs`, ending anchored at `gs'` -/
def SCorr (X : RC) (gs gs' : GS) (n : Node) (ss : Stmts) : Prop :=
  ∀ w : Walk, At X w.pc gs → ∃ w', checkStmts X.e ss w = some w' ∧ SRes X gs' n w w'

theorem SRes.empty {X : RC} {gs' : GS} {n : Node} {w w' : Walk} (hat : At X w'.pc gs') (hm : w'.marks = w.marks)
    (hg : w'.gotos = w.gotos) (hd : defsOf n = []) (hr : refsOf n = []) : SRes X gs' n w w' :=
  ⟨hat, ⟨[], by simp [hm], by simp [hd], fun m pc h => by simp at h⟩,
   ⟨[], by simp [hg], by simp [hr], fun g h => by cases h⟩⟩

end GenShape
end Theo
