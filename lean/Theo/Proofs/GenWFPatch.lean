/-
  C03 for the generator, part 4: what `backpatch` does to the code when every jump is on the
  backpatch list and every label is set: position `pc` holds `patch labels pc` of what it held.
-/
import Theo.Proofs.StaticTop
import Theo.Proofs.GenWFCount

namespace Theo
namespace GenWF
open GS Static

def patch (L : List Int) (pc : Nat) : Instr → Instr
  | .jmp lab => .jmp ((L[lab.toNat]?).getD (-1) - (pc : Int))
  | .jmpc lab s => .jmpc ((L[lab.toNat]?).getD (-1) - (pc : Int)) s
  | i => i

theorem patch_sameKind (L : List Int) (pc : Nat) (i : Instr) : SameKind i (patch L pc i) := by
  cases i <;> first
    | exact Or.inl rfl
    | exact Or.inr (Or.inl ⟨_, _, rfl, rfl⟩)
    | exact Or.inr (Or.inr ⟨_, _, _, rfl, rfl⟩)

theorem patch_of_notJump (L : List Int) (pc : Nat) {i : Instr} (h : isJump i = false) : patch L pc i = i := by
  cases i <;> first | rfl | cases h

theorem backpatchOne_spec (g : GS) (loc lab : Nat) (hj : IsJump g.code[loc]? lab) (hs : isSet g lab) :
    (backpatchOne g loc).labels = g.labels ∧ (backpatchOne g loc).stackMaps = g.stackMaps ∧
    ∀ pc, (backpatchOne g loc).code[pc]? =
      if pc = loc then (g.code[pc]?).map (patch g.labels pc) else g.code[pc]? := by
  have hs' : ¬ (g.labels[(lab : Int).toNat]?).getD (-1) = -1 := by rw [Int.toNat_natCast]; exact hs
  unfold backpatchOne
  rcases hj with hj | ⟨s, hj⟩
  · rw [hj]
    dsimp only
    rw [if_neg hs']
    refine ⟨rfl, rfl, ?_⟩
    intro pc
    by_cases hp : pc = loc
    · subst hp
      rw [if_pos rfl, hj]
      have hl := (List.getElem?_eq_some_iff.1 hj).1
      simp only [List.getElem?_set_self hl, Option.map_some, patch]
    · rw [if_neg hp, List.getElem?_set_ne (Ne.symm hp)]
  · rw [hj]
    dsimp only
    rw [if_neg hs']
    refine ⟨rfl, rfl, ?_⟩
    intro pc
    by_cases hp : pc = loc
    · subst hp
      rw [if_pos rfl, hj]
      have hl := (List.getElem?_eq_some_iff.1 hj).1
      simp only [List.getElem?_set_self hl, Option.map_some, patch]
    · rw [if_neg hp, List.getElem?_set_ne (Ne.symm hp)]

theorem backpatch_fold_spec : ∀ (todo : List Nat) (g : GS), todo.Nodup →
    (∀ loc ∈ todo, ∃ lab, IsJump g.code[loc]? lab ∧ isSet g lab) →
    (todo.foldl backpatchOne g).labels = g.labels ∧ (todo.foldl backpatchOne g).stackMaps = g.stackMaps ∧
    ∀ pc, (todo.foldl backpatchOne g).code[pc]? =
      if pc ∈ todo then (g.code[pc]?).map (patch g.labels pc) else g.code[pc]?
  | [], g, _, _ => ⟨rfl, rfl, fun pc => by simp⟩
  | loc :: rest, g, hn, h => by
    rw [List.nodup_cons] at hn
    obtain ⟨lab, hj, hs⟩ := h loc List.mem_cons_self
    obtain ⟨e1, e2, e3⟩ := backpatchOne_spec g loc lab hj hs
    have hrest : ∀ loc' ∈ rest, ∃ lab, IsJump (backpatchOne g loc).code[loc']? lab ∧ isSet (backpatchOne g loc) lab := by
      intro loc' hloc'
      obtain ⟨lab', hj', hs'⟩ := h loc' (List.mem_cons_of_mem _ hloc')
      have hne : loc' ≠ loc := fun he => hn.1 (he ▸ hloc')
      refine ⟨lab', ?_, (isSet_congr e1 lab').2 hs'⟩
      rw [e3 loc', if_neg hne]
      exact hj'
    obtain ⟨f1, f2, f3⟩ := backpatch_fold_spec rest (backpatchOne g loc) hn.2 hrest
    rw [List.foldl_cons]
    refine ⟨f1.trans e1, f2.trans e2, ?_⟩
    intro pc
    rw [f3 pc, e1, e3 pc]
    by_cases hp : pc = loc
    · subst hp
      rw [if_neg hn.1, if_pos rfl, if_pos List.mem_cons_self]
    · rw [if_neg hp]
      by_cases hr : pc ∈ rest
      · rw [if_pos hr, if_pos (List.mem_cons_of_mem _ hr)]
      · rw [if_neg hr, if_neg (by simp [hp, hr])]

/-- the code after backpatching -/
theorem backpatch_spec (e : GS) (ht : TodoOK e) (hall : ∀ l, l < e.labels.length → isSet e l)
    (hjt : ∀ pc i, e.code[pc]? = some i → isJump i = true → pc ∈ e.todo) :
    (backpatch e).labels = e.labels ∧ (backpatch e).stackMaps = e.stackMaps ∧
    ∀ pc, (backpatch e).code[pc]? = (e.code[pc]?).map (patch e.labels pc) := by
  unfold backpatch
  obtain ⟨f1, f2, f3⟩ := backpatch_fold_spec e.todo { e with todo := [] } ht.nodup (by
    intro loc hloc
    obtain ⟨lab, h1, h2⟩ := ht.jumps loc hloc
    exact ⟨lab, h2, hall lab h1⟩)
  refine ⟨f1, f2, ?_⟩
  intro pc
  rw [f3 pc]
  show (if pc ∈ e.todo then (e.code[pc]?).map (patch e.labels pc) else e.code[pc]?) = _
  split
  · rfl
  · rename_i hn
    cases hc : e.code[pc]? with
    | none => rfl
    | some i =>
      have hj : isJump i = false := by
        cases hji : isJump i with
        | false => rfl
        | true => exact absurd (hjt pc i hc hji) hn
      simp only [Option.map_some, patch_of_notJump _ _ hj]

theorem backpatch_sameCode (e : GS) (ht : TodoOK e) (hall : ∀ l, l < e.labels.length → isSet e l)
    (hjt : ∀ pc i, e.code[pc]? = some i → isJump i = true → pc ∈ e.todo) :
    SameCode e.code (backpatch e).code := by
  obtain ⟨_, _, h⟩ := backpatch_spec e ht hall hjt
  intro pc
  rw [h pc]
  cases hc : e.code[pc]? with
  | none => exact Or.inl ⟨rfl, rfl⟩
  | some i => exact Or.inr ⟨i, _, rfl, rfl, patch_sameKind _ _ _⟩

end GenWF
end Theo
