/-
  C01 for the generator model, part 17: `prog_corr` — one PROGRAM definition passes one round of
  `checkProgs`.
-/
import Theo.Proofs.GenShapeRoutine

set_option linter.unusedSimpArgs false
set_option linter.unusedVariables false

namespace Theo
namespace GenShape
open GS Sem Static

theorem top_of_symbols {g : GS} {x : FGS} {t : List FGS} (h : g.symbols = x :: t) : g.top = x := by
  unfold GS.top; rw [h]; rfl

theorem lookupFunc_cons_filter (fa : List (Bytes × ProgRec)) (nm : Bytes) (p : ProgRec) (f : Bytes) (g g' : GS)
    (h' : g'.funcAddrs = (nm, p) :: fa.filter (fun e => e.1 ≠ nm)) (h : g.funcAddrs = fa) :
    g'.lookupFunc f = if f = nm then some p else g.lookupFunc f := by
  unfold lookupFunc
  rw [h', h]
  by_cases hf : f = nm
  · rw [if_pos hf, List.find?_cons_of_pos (by simp [hf])]; rfl
  · rw [if_neg hf, List.find?_cons_of_neg (by simpa using fun h => hf h.symm), find?_filter_ne' _ hf]

/-- the validator's record of the routine just defined -/
def progRi (f' : Nat) (gs gs00 : GS) (k0 : Nat) (l2 r2 : Node) (k : Nat) : RInfo :=
  ⟨gs.code.length + (k0 - 1) + 1, k,
   smap ((dispatchVoid f' (dispatchArgs f' (progPre gs00 l2.left.tok).1 l2.right.left) r2).fetchVar
     (outNameOf l2.right.right)).1.top.regs⟩

theorem prog_corr (P : Program) (src : Source) (L : List Int) (f' : Nat) (gs gs00 : GS) (k0 : Nat)
    (l2 r2 : Node) (k : Nat) (infos : List RInfo) (ps rest : List ProgDef)
    (hc : gs00.code = gs.code ++ List.replicate k0 Instr.potBreak)
    (hsy : gs00.symbols = gs.symbols) (hsm : gs00.stackMaps = gs.stackMaps) (hfa : gs00.funcAddrs = gs.funcAddrs)
    (hlb : gs00.labels = gs.labels) (hlo : gs00.loops = gs.loops)
    (ti : TopInv src gs k infos)
    (hfa' : nodeSize l2.right.left ≤ f') (hfr : nodeSize r2 ≤ f')
    (hs : stmtShape r2 = true) (hn : stmtNames r2 = true) (hlab : labelsOK r2 = true) (hpn : progNames l2 = true)
    (hpd : src.progs[k]? = some ⟨l2.left.tok, namesOf l2.right.left, outNameOf l2.right.right, (stmtsOf r2 gs.loops ps).1⟩)
    (hst : Static.routineOK src k = true) (hnd : (namesOf l2.right.left).Nodup)
    (hag : Agree L (progRes f' gs00 l2 r2).code P.code)
    (hfin : ∀ (l : Nat) (v : Int), (progRes f' gs00 l2 r2).labels[l]? = some v → v ≠ -1 → (L[l]?).getD (-1) = v)
    (hM : (progRes f' gs00 l2 r2).stackMaps <+: P.stackMaps)
    (pc : Nat) (hpc : skipc P.code pc = skipc P.code gs.code.length) :
    checkProgs P src (⟨l2.left.tok, namesOf l2.right.left, outNameOf l2.right.right, (stmtsOf r2 gs.loops ps).1⟩ :: rest)
        k infos pc = checkProgs P src rest (k + 1) (infos ++ [progRi f' gs gs00 k0 l2 r2 k]) (progRes f' gs00 l2 r2).code.length ∧
      TopInv src (progRes f' gs00 l2 r2) (k + 1) (infos ++ [progRi f' gs gs00 k0 l2 r2 k]) ∧ TQ gs (progRes f' gs00 l2 r2) ∧
      gs.labels.length ≤ (progRes f' gs00 l2 r2).labels.length ∧
      (progRes f' gs00 l2 r2).loops = gs.loops + loopCount r2 := by
  unfold progRes progRi at *
  have hPV : ∀ x ∈ namesOf l2.right.left, PV x := by
    unfold progNames at hpn
    rw [Bool.and_eq_true, List.all_eq_true] at hpn
    exact hpn.1
  have hPVout : PV (outNameOf l2.right.right) := by
    unfold progNames at hpn
    rw [Bool.and_eq_true] at hpn
    exact hpn.2
  have pp := progPre_full gs00 l2.left.tok gs.code k0 hc ti.last
  obtain ⟨rtc, _⟩ := removeTop_spec gs00 gs.code k0 hc ti.last
  generalize hp1 : (progPre gs00 l2.left.tok).1 = p1 at *
  generalize hafter : (progPre gs00 l2.left.tok).2 = after at *
  have hp1top : p1.top = ⟨l2.left.tok, [], 0, []⟩ := top_of_symbols pp.symbols
  have as := args_spec f' p1 l2.right.left hfa' hnd (by intro x _ h; unfold regNames at h; rw [hp1top] at h; cases h)
  generalize dispatchArgs f' p1 l2.right.left = g at *
  -- the state at the start of the body
  have haft : after = gs.labels.length := by rw [pp.afterEq, hlb]
  have hgregs : g.top.regs = (namesOf l2.right.left).map (fun x => (⟨true, false, x⟩ : VReg)) := by
    rw [as.regs, hp1top]; rfl
  have hgmarks : g.top.marks = [] := by rw [as.marks, hp1top]
  have hgcode : g.code = (gs.code ++ List.replicate (k0 - 1) Instr.potBreak) ++ [.jmp (after : Int)] := by
    rw [as.code, pp.code, rtc]
  have hglabels : g.labels = gs.labels ++ [-1] := by rw [as.labels, pp.labels, hlb]
  have hgfa : g.funcAddrs = gs.funcAddrs := by rw [as.funcAddrs, pp.funcAddrs, hfa]
  have hgsm : g.stackMaps = gs.stackMaps := by rw [as.stackMaps, pp.stackMaps, hsm]
  have hgloops : g.loops = gs.loops := by rw [as.loops, pp.loops, hlo]
  have hgouter : g.symbols.drop 1 = gs.symbols := by
    rw [as.outer, pp.symbols]
    show gs00.symbols = _
    exact hsy
  have hgname : g.top.name = l2.left.tok := by rw [as.name, hp1top]
  have hgargnum : g.top.argnum = (namesOf l2.right.left).length := by rw [as.argnum, hp1top]; simp
  have hglen : g.code.length = gs.code.length + (k0 - 1) + 1 := by rw [hgcode]; simp <;> omega
  have hgpos : 0 < g.code.length := by omega
  have hgpre : gs.code <+: g.code := by rw [hgcode, List.append_assoc]; exact prefix_append_self _ _
  -- register invariants at the start of the body
  have tn_g : TempNamed g.top.regs := by
    intro r hr ht
    rw [hgregs] at hr
    obtain ⟨x, _, rfl⟩ := List.mem_map.1 hr
    cases ht
  have ntn_g : NTNodup g.top.regs := by
    unfold NTNodup
    rw [hgregs]
    have : (List.map (fun x => (⟨true, false, x⟩ : VReg)) (namesOf l2.right.left)).filter (fun r => !r.isTemp) =
        List.map (fun x => (⟨true, false, x⟩ : VReg)) (namesOf l2.right.left) := by
      rw [List.filter_eq_self]; intro r hr; obtain ⟨x, _, rfl⟩ := List.mem_map.1 hr; rfl
    rw [this, List.map_map]
    have : ((fun (r : VReg) => r.name) ∘ fun x => (⟨true, false, x⟩ : VReg)) = id := rfl
    rw [this, List.map_id]; exact hnd
  have ctr_g : CtrInv g.top.regs g.loops := by
    refine (CtrInv.nil g.loops).ext (fun i r h => by simp at h) ?_
    intro i r hr _ _
    rw [hgregs] at hr
    have hmem : r ∈ (namesOf l2.right.left).map (fun x => (⟨true, false, x⟩ : VReg)) := List.mem_iff_getElem?.2 ⟨i, hr⟩
    obtain ⟨x, hx, rfl⟩ := List.mem_map.1 hmem
    exact PV_noPrefix x (hPV x hx)
  -- the body
  have sq := sq_void f' g r2 hfr hs hn
  have st := step_void f' g r2
  have bfr := body_frame f' g r2 hfr hs hn hgmarks
  have fv := fetchVar_spec PV (dispatchVoid f' g r2) (outNameOf l2.right.right) hPVout
  have pq := progPost_full (dispatchVoid f' g r2) (outNameOf l2.right.right) g.nextPos after
  have hbody : bodyOf src k = (stmtsOf r2 gs.loops ps).1 := by rw [bodyOf_at hpd]
  have hst' : stmtsOK src k (stmtsOf r2 g.loops ps).1 (stmtsOf r2 g.loops ps).1 = true := by
    unfold Static.routineOK at hst
    rw [hbody] at hst
    rw [hgloops]; exact hst
  have hbc := body_corr (X := ⟨P.code, L, ((dispatchVoid f' g r2).fetchVar (outNameOf l2.right.right)).1.top.regs, src, k, infos,
      gs.code.length + (k0 - 1) + 1⟩)
    ⟨fv.vq.tn (sq.gq.tn tn_g), fv.vq.ntn (sq.gq.ntn ntn_g), ⟨_, fv.vq.ctr PV_noPrefix (sq.ctr ctr_g)⟩⟩
    f' g r2 hfr hs hn hlab ps hst' hgmarks (ti.head.mono hgpre) fv.vq.regs
  generalize hbb : dispatchVoid f' g r2 = bb at *
  generalize hres : progPost bb (outNameOf l2.right.right) g.nextPos after = res at *
  have ok : RC.OK ⟨P.code, L, (bb.fetchVar (outNameOf l2.right.right)).1.top.regs, src, k, infos, gs.code.length + (k0 - 1) + 1⟩ :=
    ⟨fv.vq.tn (sq.gq.tn tn_g), fv.vq.ntn (sq.gq.ntn ntn_g), ⟨_, fv.vq.ctr PV_noPrefix (sq.ctr ctr_g)⟩⟩
  generalize hX : (⟨P.code, L, (bb.fetchVar (outNameOf l2.right.right)).1.top.regs, src, k, infos, gs.code.length + (k0 - 1) + 1⟩ : RC) = X at *
  have hXC : X.C = P.code := by rw [← hX]
  have hXL : X.L = L := by rw [← hX]
  have hXR : X.R = (bb.fetchVar (outNameOf l2.right.right)).1.top.regs := by rw [← hX]
  have hbpre : bb.code <+: res.code := by rw [pq.code]; exact prefix_append_self _ _
  have hafl : after < bb.labels.length := by have := st.lablen; rw [hglabels] at this; simp at this; omega
  have hbafter : bb.labels[after]? = some (-1) := by
    rw [bfr after (by rw [hglabels]; simp; omega), hglabels, haft, getElem?_snoc_len]
  have hfin_bb : ∀ (l : Nat) (v : Int), bb.labels[l]? = some v → v ≠ -1 → (X.L[l]?).getD (-1) = v := by
    intro l v h1 h2
    rw [hXL]
    refine hfin l v ?_ h2
    rw [pq.labels]
    by_cases hl : l = after
    · subst hl; rw [hbafter] at h1; exact absurd (Option.some.inj h1).symm h2
    · rw [List.getElem?_set_ne (fun h => hl h.symm)]; exact h1
  have hfn : FuncInv X g := by
    intro f j pd hl
    rw [← hX] at hl
    obtain ⟨p, ri, a1, a2⟩ := ti.func f j pd hl
    refine ⟨p, ri, ?_, by rw [← hX]; exact a2⟩
    unfold lookupFunc at a1 ⊢
    rw [hgfa]; exact a1
  have hatg : At X (gs.code.length + (k0 - 1) + 1) g := by rw [← hglen]; exact At.exact hgpos
  obtain ⟨w, cw, atw, rok⟩ := hbc (by rw [hXL, hXC]; exact hag.of_prefix hbpre) hfn hfin_bb _ hatg
  -- the jump over the body
  have hat : At X pc gs := ⟨by rw [hXC]; exact hpc, by obtain ⟨i, h1, _⟩ := ti.head; exact (List.getElem?_eq_some_iff.1 h1).1⟩
  have hgres : g.code <+: res.code := sq.gq.code.trans hbpre
  have hat1 : At X pc gs00.removeTopPotBreak :=
    hat.sites rtc (by rw [← rtc] at hgcode; rw [hgcode] at hgres; exact (prefix_append_self _ _).trans hgres)
      (by rw [hXL, hXC]; exact hag)
  have hpre1 : gs00.removeTopPotBreak.code ++ .jmp (after : Int) :: [] <+: res.code := by
    rw [rtc, ← hgcode]; exact hgres
  obtain ⟨j1, j2⟩ := hat1.instr hpre1 (by rw [hXL, hXC]; exact hag) (by intro h; cases h)
  have j3 := hat1.skip_eq hpre1 (by rw [hXL, hXC]; exact hag) (by intro h; cases h)
  rw [patch_jmp, rtc] at j1
  rw [rtc] at j3
  simp only [List.length_append, List.length_replicate] at j1 j3
  rw [hXC] at j3
  -- the stack map
  have hsmap : P.stackMaps[k]? = some ⟨l2.left.tok, smap (bb.fetchVar (outNameOf l2.right.right)).1.top.regs⟩ := by
    refine prefix_getElem? hM ?_
    rw [pq.stackMaps, sq.gq.stackMaps, hgsm, st.name, hgname, ← ti.nprogs, getElem?_snoc_len]
  -- parameters
  have hparams : paramsOK ⟨gs.code.length + (k0 - 1) + 1, k, smap (bb.fetchVar (outNameOf l2.right.right)).1.top.regs⟩ (namesOf l2.right.left) = true := by
    unfold paramsOK
    rw [Bool.and_eq_true]
    refine ⟨?_, by simpa using hnd⟩
    rw [List.all_eq_true]
    intro p hp
    have hp' := List.mem_zipIdx_iff_getElem?.1 hp
    have hreg : g.top.regs[p.2]? = some ⟨true, false, p.1⟩ := by rw [hgregs, List.getElem?_map, hp']; rfl
    have := regOf_of_links ok (by rw [hXR]; exact sq.gq.regs.trans fv.vq.regs) hreg rfl (hPV p.1 (List.mem_of_getElem? hp'))
    rw [← hX] at this
    simp only [beq_iff_eq]
    exact this
  -- RET
  have hpre2 : bb.code ++ .ret (bb.fetchVar (outNameOf l2.right.right)).2 :: [] <+: res.code := by rw [pq.code]; exact List.prefix_refl _
  obtain ⟨r1, r2'⟩ := atw.instr hpre2 (by rw [hXL, hXC]; exact hag) (by intro h; cases h)
  have r3 := atw.skip_eq hpre2 (by rw [hXL, hXC]; exact hag) (by intro h; cases h)
  rw [hXC] at r3
  obtain ⟨io, ro, o1, o2, o3⟩ := fv.reg
  have hout := regOf_of_links ok (regs := (bb.fetchVar (outNameOf l2.right.right)).1.top.regs)
    (by rw [hXR]; exact RegsExt.refl _) o2 o3 hPVout
  have hLafter : (L[after]?).getD (-1) = ((bb.code.length + 1 : Nat) : Int) := by
    refine hfin after _ ?_ (by omega)
    rw [pq.labels, List.getElem?_set_self hafl]
  have hskip : skipc P.code pc + 1 = gs.code.length + (k0 - 1) + 1 := by rw [j3]
  refine ⟨?_, ?_, ?_, ?_, ?_⟩
  · have hcp := checkProgs_cons_ok P src
      ⟨l2.left.tok, namesOf l2.right.left, outNameOf l2.right.right, (stmtsOf r2 gs.loops ps).1⟩ rest k infos pc
      ((L[after]?).getD (-1) - ((gs.code.length + (k0 - 1) : Nat) : Int)) ⟨l2.left.tok, smap (bb.fetchVar (outNameOf l2.right.right)).1.top.regs⟩ w (bb.fetchVar (outNameOf l2.right.right)).2
    rw [hskip] at hcp
    have hlen : res.code.length = skipc P.code w.pc + 1 := by rw [r3, pq.code]; simp
    rw [hlen]
    refine hcp ?_ hsmap (namesNodup_smap (bb.fetchVar (outNameOf l2.right.right)).1.top.regs (hXR ▸ ok.ntn) _ _) hparams ?_ ?_ ?_ ?_ ?_
    · have := j1
      unfold VEnv.at at this
      rw [← hX] at this
      simp only [RC.e] at this
      rw [this]
    · rw [← hX] at cw
      rw [← hgloops]
      exact cw
    · rw [← hX] at r1
      exact r1
    · rw [← hX] at hout
      rw [o1]
      exact hout
    · rw [← hXC]; exact rok
    · rw [j3, r3, hLafter]; omega
  · -- the state between definitions, re-established
    have hsyms : res.symbols = gs.symbols := by rw [pq.symbols, st.outer, hgouter]
    have htop : res.top = gs.top := top_congr hsyms
    refine ⟨by rw [pq.stackMaps, sq.gq.stackMaps, hgsm]; simp [ti.nprogs], by simp [ti.ninfos],
      by rw [htop]; exact ti.marks, by rw [htop]; exact ti.regs, by rw [pq.code]; exact LastNS.snoc _ (by intro h; cases h),
      ti.head.mono (hgpre.trans hgres), ?_⟩
    intro f j pd hl
    rw [lookupProg_succ src k _ hpd f] at hl
    have hlf := lookupFunc_cons_filter bb.funcAddrs bb.top.name _ f bb res pq.funcAddrs rfl
    simp only at hl
    by_cases hf : l2.left.tok = f
    · rw [if_pos hf] at hl
      cases hl
      rw [hlf, st.name, hgname, if_pos hf.symm]
      refine ⟨_, ⟨gs.code.length + (k0 - 1) + 1, k, smap (bb.fetchVar (outNameOf l2.right.right)).1.top.regs⟩, rfl, ?_, ?_, ?_, ?_⟩
      · simp only; rw [st.argnum, hgargnum]
      · rw [List.getElem?_append_right (by rw [ti.ninfos]; exact Nat.le_refl _), ti.ninfos]; simp
      · simp only; rw [sq.gq.stackMaps, hgsm, ti.nprogs]
      · simp only; unfold nextPos; rw [hglen]
    · rw [if_neg hf] at hl
      obtain ⟨p, ri, a1, a2, a3, a4⟩ := ti.func f j pd hl
      rw [hlf, st.name, hgname, if_neg (fun h => hf h.symm)]
      refine ⟨p, ri, ?_, a2, ?_, a4⟩
      · unfold lookupFunc at a1 ⊢
        rw [sq.gq.funcAddrs, hgfa]; exact a1
      · rw [List.getElem?_append_left ((List.getElem?_eq_some_iff.1 a3).1)]; exact a3
  · refine ⟨hgpre.trans hgres, by rw [pq.stackMaps, sq.gq.stackMaps, hgsm]; exact prefix_append_self _ _, ?_⟩
    intro l hl
    rw [pq.labels, List.getElem?_set_ne (by omega), bfr l (by rw [hglabels]; simp; omega), hglabels,
      List.getElem?_append_left hl]
  · rw [pq.labels]
    have := st.lablen
    rw [hglabels] at this
    simp at this ⊢
    omega
  · rw [pq.loops, sq.loops, hgloops]

end GenShape
end Theo
