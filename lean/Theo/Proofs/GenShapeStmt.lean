/-
  C01 for the generator model, part 6: statements — the pieces of `dispatchVoid` as equations on
  code / labels / registers, and what the dispatch of a statement tree preserves (`SQ`):
  code and registers only grow, the hidden counters stay distinct, the loop numbering is the one
  of `stmtsOf`, and labels that exist are only changed by a MARK of their name (`frame`).
-/
import Theo.Proofs.GenShapeValD

set_option linter.unusedSimpArgs false
set_option linter.unusedVariables false

namespace Theo
namespace GenShape
open GS Sem Static

/-! ### side conditions on statement trees (see Props/C01GenShape.lean) -/

/-- statement tree: the variables are user variables, and the nodes the compilation scheme
    reads a value from are present -/
def stmtNames : Node → Bool
  | .nil => true
  | .mk t _ _ _ l r =>
    if t = NodeT.SPLIT then stmtNames l && stmtNames r
    else if t = NodeT.ASSIGN then varOK l.tok && !isNil r && valNames r
    else if t = NodeT.LOOP ∨ t = NodeT.WHILE then !isNil l && varOK l.tok && stmtNames r
    else if t = NodeT.IF then !isNil l.left && !isNil l.right && varOK l.left.tok
    else true

theorem stmtNames_mk (t : Nat) (tok file : Bytes) (line : Int) (l r : Node) :
    stmtNames (.mk t tok file line l r) =
      if t = NodeT.SPLIT then stmtNames l && stmtNames r
      else if t = NodeT.ASSIGN then varOK l.tok && !isNil r && valNames r
      else if t = NodeT.LOOP ∨ t = NodeT.WHILE then !isNil l && varOK l.tok && stmtNames r
      else if t = NodeT.IF then !isNil l.left && !isNil l.right && varOK l.left.tok
      else true := by rw [stmtNames]

/-- LOOP statements in a tree -/
def loopCount : Node → Nat
  | .nil => 0
  | .mk t _ _ _ l r =>
    if t = NodeT.SPLIT then loopCount l + loopCount r
    else if t = NodeT.PROGRAM then loopCount r
    else if t = NodeT.LOOP then loopCount r + 1
    else if t = NodeT.WHILE then loopCount r
    else 0

theorem stmtsOf_loops : ∀ (n : Node) (k : Nat) (ps : List ProgDef), (stmtsOf n k ps).2.1 = k + loopCount n
  | .nil, k, ps => by rw [stmtsOf_nil]; rfl
  | .mk t tok file line l r, k, ps => by
    rw [stmtsOf_mk, loopCount]
    split
    · simp only []
      rw [stmtsOf_loops r, stmtsOf_loops l]; omega
    split
    · simp only []; exact stmtsOf_loops r k ps
    split
    · rename_i h1 h2 h3
      have : t ≠ NodeT.LOOP := by rw [h3]; decide
      have h4 : t ≠ NodeT.WHILE := by rw [h3]; decide
      rw [if_neg this, if_neg h4]; rfl
    split
    · simp only []; rw [stmtsOf_loops r]; omega
    split
    · simp only []; exact stmtsOf_loops r k ps
    split
    · rfl
    split
    · rfl
    split
    · rfl
    split
    · rfl
    · rfl

/-! ### labels -/

theorem createLabel_get (gs : GS) {l : Nat} (h : l < gs.labels.length) : gs.createLabel.1.labels[l]? = gs.labels[l]? := by
  rw [createLabel_labels, List.getElem?_append_left h]

theorem setLabel_get_ne (gs : GS) (x : Nat) (p : Int) {l : Nat} (h : l ≠ x) : (gs.setLabel x p).labels[l]? = gs.labels[l]? := by
  rw [setLabel_labels, List.getElem?_set_ne (Ne.symm h)]

theorem setLabel_get_eq (gs : GS) (x : Nat) (p : Int) (h : x < gs.labels.length) : (gs.setLabel x p).labels[x]? = some p := by
  rw [setLabel_labels, List.getElem?_set_self h]

theorem markLabel_get (gs : GS) (m : Bytes) {l : Nat} (h : l < gs.labels.length) : (gs.markLabel m).1.labels[l]? = gs.labels[l]? := by
  unfold markLabel
  split
  · rfl
  · exact createLabel_get gs h

/-! ### the pieces, as equations -/

theorem loopPre_eq (gs0 : GS) :
    loopPre gs0 = ({ gs0 with loops := gs0.loops + 1 } : GS).fetchVar (ctrName gs0.fsName gs0.fsLine (gs0.loops + 1)) := rfl

structure LoopPreSpec (gs0 g : GS) (c : Int) : Prop where
  gq : GQ gs0 g
  code : g.code = gs0.code
  labels : g.labels = gs0.labels
  marks : g.top.marks = gs0.top.marks
  loops : g.loops = gs0.loops + 1
  ctr : CtrInv gs0.top.regs gs0.loops → CtrInv g.top.regs g.loops
  reg : ∃ (i : Nat) (r : VReg), c = (i : Int) ∧ g.top.regs[i]? = some r ∧ r.name = ctrName gs0.fsName gs0.fsLine (gs0.loops + 1)

theorem CtrInv.push {regs : List VReg} {n : Nat} (h : CtrInv regs n) (u : Bool) (fs : Bytes) (ln : Int) :
    CtrInv (regs ++ [⟨u, false, ctrName fs ln (n + 1)⟩]) (n + 1) := by
  have hnew : ∀ (i : Nat) (r : VReg), (regs ++ [(⟨u, false, ctrName fs ln (n + 1)⟩ : VReg)])[i]? = some r →
      (regs[i]? = some r) ∨ (i = regs.length ∧ r = ⟨u, false, ctrName fs ln (n + 1)⟩) := by
    intro i r hr
    by_cases hi : i < regs.length
    · rw [List.getElem?_append_left hi] at hr; exact Or.inl hr
    · have := (List.getElem?_eq_some_iff.1 hr).1
      simp at this
      have hi' : i = regs.length := by omega
      subst hi'
      rw [getElem?_snoc_len] at hr
      exact Or.inr ⟨rfl, (Option.some.inj hr).symm⟩
  have hold : ∀ (i : Nat) (r : VReg), regs[i]? = some r → r.isTemp = false → ¬ hasId r.name (n + 1) := by
    intro i r hr ht hid
    obtain ⟨id, hle, hid'⟩ := h.bound i r hr ht hid.1
    have := hasId_inj hid hid'
    omega
  refine ⟨?_, ?_⟩
  · intro i r hr ht hp
    rcases hnew i r hr with h1 | ⟨_, h1⟩
    · obtain ⟨id, hle, hid⟩ := h.bound i r h1 ht hp
      exact ⟨id, by omega, hid⟩
    · subst h1
      exact ⟨n + 1, Nat.le_refl _, ctrName_hasId _ _ _⟩
  · intro i j r r' id h1 h2 t1 t2 i1 i2
    rcases hnew i r h1 with a | ⟨a, a'⟩ <;> rcases hnew j r' h2 with b | ⟨b, b'⟩
    · exact h.uniq i j r r' id a b t1 t2 i1 i2
    · exfalso
      subst b'
      have : id = n + 1 := hasId_inj i2 (ctrName_hasId _ _ _)
      subst this
      exact hold i r a t1 i1
    · exfalso
      subst a'
      have : id = n + 1 := hasId_inj i1 (ctrName_hasId _ _ _)
      subst this
      exact hold j r' b t2 i2
    · rw [a, b]

theorem loopPre_spec (gs0 : GS) : LoopPreSpec gs0 (loopPre gs0).1 (loopPre gs0).2 := by
  rw [loopPre_eq]
  have fv := fetchVar_spec (fun _ => True) ({ gs0 with loops := gs0.loops + 1 } : GS)
    (ctrName gs0.fsName gs0.fsLine (gs0.loops + 1)) trivial
  have q := quiet_loopPre gs0
  rw [loopPre_eq] at q
  refine ⟨?_, fv.code, q.labels, q.marks, fv.vq.loops, ?_, fv.reg⟩
  · exact (GQ.of_syms (gs := gs0) (gs' := { gs0 with loops := gs0.loops + 1 }) (List.prefix_refl _) rfl rfl rfl).trans fv.vq.toGQ
  · intro hc
    rw [fv.vq.loops]
    show CtrInv _ (gs0.loops + 1)
    unfold fetchVar
    dsimp only
    split
    · exact hc.mono (Nat.le_succ _)
    · exact hc.push _ _ _

theorem loopMid_code (v : GS) (c : Int) :
    (loopMid v c).1.code = v.code ++ [.jmpc (((loopMid v c).2.2 : Nat) : Int) c] := rfl
theorem loopMid_startL (v : GS) (c : Int) : (loopMid v c).2.1 = v.labels.length := rfl
theorem loopMid_endL (v : GS) (c : Int) : (loopMid v c).2.2 = v.labels.length + 1 := by
  unfold loopMid; simp
theorem loopMid_labels (v : GS) (c : Int) :
    (loopMid v c).1.labels = (v.labels ++ [-1] ++ [-1]).set v.labels.length (v.code.length : Int) := rfl
theorem loopMid_symbols (v : GS) (c : Int) : (loopMid v c).1.symbols = v.symbols := rfl
theorem loopMid_loops (v : GS) (c : Int) : (loopMid v c).1.loops = v.loops := rfl
theorem loopMid_gq (v : GS) (c : Int) : GQ v (loopMid v c).1 :=
  GQ.of_syms (by rw [loopMid_code]; exact prefix_append_self _ _) rfl rfl rfl

theorem loopMid_get (v : GS) (c : Int) {l : Nat} (h : l < v.labels.length) : (loopMid v c).1.labels[l]? = v.labels[l]? := by
  rw [loopMid_labels, List.getElem?_set_ne (by omega), List.getElem?_append_left (by simp; omega),
    List.getElem?_append_left h]

theorem loopPost_code (b : GS) (c : Int) (s e : Nat) :
    (loopPost b c s e).code = b.code ++ [.add c c (-1), .jmp (s : Int)] := by
  unfold loopPost; simp [emitBackpatched, emit]
theorem loopPost_labels (b : GS) (c : Int) (s e : Nat) :
    (loopPost b c s e).labels = b.labels.set e ((b.code.length + 2 : Nat) : Int) := by
  unfold loopPost; simp [emitBackpatched, emit, nextPos]
theorem loopPost_symbols (b : GS) (c : Int) (s e : Nat) : (loopPost b c s e).symbols = b.symbols := rfl
theorem loopPost_loops (b : GS) (c : Int) (s e : Nat) : (loopPost b c s e).loops = b.loops := rfl
theorem loopPost_gq (b : GS) (c : Int) (s e : Nat) : GQ b (loopPost b c s e) :=
  GQ.of_syms (by rw [loopPost_code]; exact prefix_append_self _ _) rfl rfl rfl

structure WhilePreSpec (gs0 g : GS) (s e : Nat) (c : Int) : Prop where
  gq : GQ gs0 g
  code : g.code = gs0.code
  startL : s = gs0.labels.length
  endL : e = gs0.labels.length + 1
  labels : g.labels = (gs0.labels ++ [-1] ++ [-1]).set gs0.labels.length (gs0.code.length : Int)
  marks : g.top.marks = gs0.top.marks
  loops : g.loops = gs0.loops
  ctr : CtrInv gs0.top.regs gs0.loops → CtrInv g.top.regs g.loops
  reg : ∃ (i : Nat) (r : VReg), c = (i : Int) ∧ g.top.regs[i]? = some r ∧ r.isTemp = true

theorem whilePre_spec' (gs0 : GS) :
    WhilePreSpec gs0 (whilePre gs0).1 (whilePre gs0).2.1 (whilePre gs0).2.2.1 (whilePre gs0).2.2.2 := by
  have ft := fetchTemporary_spec PV gs0.createLabel.1.createLabel.1
  have hft : (whilePre gs0).1 = gs0.createLabel.1.createLabel.1.fetchTemporary.1.setLabel gs0.createLabel.2
      gs0.createLabel.1.createLabel.1.fetchTemporary.1.nextPos := rfl
  have hc : (whilePre gs0).2.2.2 = gs0.createLabel.1.createLabel.1.fetchTemporary.2 := rfl
  have g1 : GQ gs0 gs0.createLabel.1.createLabel.1 := (gq_createLabel _).trans (gq_createLabel _)
  have hq := quiet_fetchTemporary gs0.createLabel.1.createLabel.1
  refine ⟨?_, ?_, rfl, by unfold whilePre; simp, ?_, ?_, ?_, ?_, ?_⟩
  · rw [hft]; exact (g1.trans ft.vq.toGQ).trans (gq_setLabel _ _ _)
  · rw [hft]; show gs0.createLabel.1.createLabel.1.fetchTemporary.1.code = _; rw [ft.code]; rfl
  · rw [hft, setLabel_labels, hq.labels]
    show (gs0.labels ++ [-1] ++ [-1]).set gs0.labels.length _ = _
    unfold nextPos
    rw [ft.code]; rfl
  · rw [hft]; show gs0.createLabel.1.createLabel.1.fetchTemporary.1.top.marks = _; rw [hq.marks]; rfl
  · rw [hft]; show gs0.createLabel.1.createLabel.1.fetchTemporary.1.loops = _; rw [ft.vq.loops]; rfl
  · intro h
    rw [hft]
    exact ft.vq.ctr PV_noPrefix h
  · obtain ⟨i, r, e1, e2, e3, _⟩ := ft.reg
    exact ⟨i, r, by rw [hc]; exact e1, by rw [hft]; exact e2, e3⟩

theorem whilePost_code (b : GS) (s e : Nat) (c : Int) : (whilePost b s e c).code = b.code ++ [.jmp (s : Int)] := rfl
theorem whilePost_labels (b : GS) (s e : Nat) (c : Int) :
    (whilePost b s e c).labels = b.labels.set e ((b.code.length + 1 : Nat) : Int) := by
  unfold whilePost; simp [emitBackpatched, emit, nextPos, releaseTemporary, setTop]
theorem whilePost_loops (b : GS) (s e : Nat) (c : Int) : (whilePost b s e c).loops = b.loops := rfl
theorem whilePost_vq (b : GS) (s e : Nat) (c : Int) :
    GQ b (whilePost b s e c) ∧ (CtrInv b.top.regs b.loops → CtrInv (whilePost b s e c).top.regs (whilePost b s e c).loops) := by
  unfold whilePost
  dsimp only
  have v := vq_releaseTemporary PV ((b.emitBackpatched (.jmp s)).setLabel e (b.emitBackpatched (.jmp s)).nextPos) c
  exact ⟨((gq_emitBackpatched _ _).trans (gq_setLabel _ _ _)).trans v.toGQ, fun h => v.ctr PV_noPrefix h⟩

/-- the three temporaries of an IF: distinct temporaries -/
structure IfPreSpec (gs0 g : GS) (cond op1 op2 : Int) : Prop where
  vq : VQ PV gs0 g
  code : g.code = gs0.code
  regs : ∃ (i1 i2 i3 : Nat) (r1 r2 r3 : VReg), cond = (i1 : Int) ∧ op1 = (i2 : Int) ∧ op2 = (i3 : Int) ∧
    g.top.regs[i1]? = some r1 ∧ g.top.regs[i2]? = some r2 ∧ g.top.regs[i3]? = some r3 ∧
    r1.isTemp = true ∧ r2.isTemp = true ∧ r3.isTemp = true ∧ op2 ≠ op1

theorem ifPre_spec (gs0 : GS) : IfPreSpec gs0 (ifPre gs0).1 (ifPre gs0).2.1 (ifPre gs0).2.2.1 (ifPre gs0).2.2.2 := by
  unfold ifPre
  dsimp only
  have f1 := fetchTemporary_spec PV gs0
  have f2 := fetchTemporary_spec PV gs0.fetchTemporary.1
  have f3 := fetchTemporary_spec PV gs0.fetchTemporary.1.fetchTemporary.1
  obtain ⟨i1, r1, a1, a2, a3, a4⟩ := f1.reg
  obtain ⟨i2, r2, b1, b2, b3, b4⟩ := f2.reg
  obtain ⟨i3, r3, c1, c2, c3, c4⟩ := f3.reg
  refine ⟨(f1.vq.trans f2.vq).trans f3.vq, by rw [f3.code, f2.code, f1.code],
    i1, i2, i3, r1, r2, r3, a1, b1, c1, f3.keep _ _ (f2.keep _ _ a2 a4) a4, f3.keep _ _ b2 b4, c2, a3, b3, c3, ?_⟩
  intro h
  obtain ⟨j, ej, hfree⟩ := f3.free
  have : j = i2 := by omega
  subst this
  have := hfree r2 b2
  rw [b4] at this; cases this

theorem ifPost_code (g : GS) (cond op1 op2 : Int) (m : Bytes) :
    (ifPost g cond op1 op2 m).code =
      g.code ++ [.test cond op1 op2, .jmpc ((((g.emit (.test cond op1 op2)).markLabel m).2 : Nat) : Int) cond] := by
  unfold ifPost
  dsimp only
  show (((g.emit (.test cond op1 op2)).markLabel m).1.emitBackpatched _).code = _
  rw [emitBackpatched_code, markLabel_code]; simp

theorem ifPost_gq (g : GS) (cond op1 op2 : Int) (m : Bytes) :
    GQ g (ifPost g cond op1 op2 m) ∧ (ifPost g cond op1 op2 m).loops = g.loops ∧
    (CtrInv g.top.regs g.loops → CtrInv (ifPost g cond op1 op2 m).top.regs (ifPost g cond op1 op2 m).loops) := by
  unfold ifPost
  dsimp only
  generalize hg1 : ((g.emit (.test cond op1 op2)).markLabel m).1.emitBackpatched
    (.jmpc ((g.emit (.test cond op1 op2)).markLabel m).2 cond) = g1
  have hq : GQ g g1 := by
    rw [← hg1]
    exact ((vq_emit PV g _).toGQ.trans (gq_markLabel _ _)).trans (gq_emitBackpatched _ _)
  have hl : g1.loops = g.loops := by rw [← hg1]; exact markLabel_loops _ _
  have hr : g1.top.regs = g.top.regs := by rw [← hg1]; exact markLabel_regs _ _
  have v := ((vq_releaseTemporary PV g1 cond).trans (vq_releaseTemporary PV _ op1)).trans (vq_releaseTemporary PV _ op2)
  refine ⟨hq.trans v.toGQ, by rw [v.loops, hl], ?_⟩
  intro h
  exact v.ctr PV_noPrefix (by rw [hr, hl]; exact h)

theorem ifPost_get (g : GS) (cond op1 op2 : Int) (m : Bytes) {l : Nat} (h : l < g.labels.length) :
    (ifPost g cond op1 op2 m).labels[l]? = g.labels[l]? := by
  unfold ifPost
  dsimp only
  exact markLabel_get (g.emit (.test cond op1 op2)) m h

end GenShape
end Theo
