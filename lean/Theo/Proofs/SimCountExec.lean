/-
  C01 budget, part 3: the executions of SimVM.lean / SimExec.lean with the number of VM
  instructions exposed.  `SC S k vm vm'`: `vm'` is reached from `vm` by `k` real instructions,
  each of them preceded by at most `S` breakpoint sites (`POTENTIAL_BREAK` is an instruction of
  the VM: it is fetched, it advances `ip`); `SA S vm vm'`: by at most `S` sites alone.
  `S` is any bound of the runs of consecutive sites in the code (`SiteBound`).

  The statements are those of `to_anchor`, `r_add` … `do_call` with `SS` / `SP` replaced by the
  counted relations; the proofs are the same compositions of the one-instruction lemmas `x_*`.
-/
import Theo.Proofs.SimCount

set_option linter.unusedSimpArgs false
set_option linter.unusedSectionVars false

namespace Theo
namespace Sim
open Sem WF

/-! ### counted runs -/

/-- at most `S` instructions (used for runs of sites) -/
def SA (S : Nat) (a b : VM) : Prop := ∃ j, j ≤ S ∧ Steps a j b

/-- `k` real instructions, each after at most `S` sites: between `k` and `(S + 1) * k` instructions -/
def SC (S k : Nat) (a b : VM) : Prop := ∃ j, k ≤ j ∧ j ≤ (S + 1) * k ∧ Steps a j b

theorem SA.refl (S : Nat) (a : VM) : SA S a a := ⟨0, Nat.zero_le _, Steps.refl a⟩

theorem SC.refl (S : Nat) (a : VM) : SC S 0 a a := ⟨0, Nat.le_refl _, Nat.zero_le _, Steps.refl a⟩

theorem SC.trans {S k l : Nat} {a b c : VM} (h1 : SC S k a b) (h2 : SC S l b c) : SC S (k + l) a c := by
  obtain ⟨i, i1, i2, hi⟩ := h1
  obtain ⟨j, j1, j2, hj⟩ := h2
  refine ⟨i + j, by omega, ?_, hi.trans hj⟩
  rw [Nat.mul_add]
  omega

theorem SC.cast {S k l : Nat} {a b : VM} (h : SC S k a b) (e : k = l) : SC S l a b := e ▸ h

/-- a run of sites, then one instruction -/
theorem SA.one {S : Nat} {a b c : VM} (h1 : SA S a b) (h2 : Steps b 1 c) : SC S 1 a c := by
  obtain ⟨j, hj, hs⟩ := h1
  exact ⟨j + 1, by omega, by omega, hs.trans h2⟩

theorem SC.zero_eq {S : Nat} {a b : VM} (h : SC S 0 a b) : b = a := by
  obtain ⟨j, _, hj, hs⟩ := h
  have : j = 0 := by omega
  subst this
  cases hs
  rfl

theorem SC.ss {S k : Nat} {a b : VM} (h : SC S k a b) : SS a b := by
  obtain ⟨j, _, _, hs⟩ := h
  exact ⟨j, hs⟩

theorem SA.ss {S : Nat} {a b : VM} (h : SA S a b) : SS a b := by
  obtain ⟨j, _, hs⟩ := h
  exact ⟨j, hs⟩

/-! ### runs of sites -/

/-- no position is followed by more than `S` consecutive breakpoint sites -/
def SiteBound (code : List Instr) (S : Nat) : Prop := ∀ pc, skipc code pc ≤ pc + S

theorem skipPB_ge (code : List Instr) : ∀ f pc, pc ≤ skipPB code f pc := by
  intro f
  induction f with
  | zero => intro pc; exact Nat.le_refl _
  | succ f ih =>
    intro pc
    unfold skipPB
    split
    · exact Nat.le_trans (Nat.le_succ pc) (ih (pc + 1))
    · exact Nat.le_refl _

section
variable {p : Program} {c : Cert} {R : PcInfo}

theorem skipPB_steps_c (hc : CertOK p c R) : ∀ (f pc : Nat) (vm : VM), Good p c R.rid vm →
    vm.ip = (pc : Int) →
    ∃ vm', Steps vm (skipPB p.code f pc - pc) vm' ∧ Good p c R.rid vm' ∧
      vm'.ip = ((skipPB p.code f pc : Nat) : Int) ∧ vm'.stack = vm.stack ∧ vm'.data = vm.data := by
  intro f
  induction f with
  | zero =>
    intro pc vm hg hip
    refine ⟨vm, ?_, hg, hip, rfl, rfl⟩
    show Steps vm (pc - pc) vm
    rw [Nat.sub_self]
    exact Steps.refl _
  | succ f ih =>
    intro pc vm hg hip
    by_cases h : p.code[pc]? = some Instr.potBreak
    · obtain ⟨vm1, h1, hg1, hip1, hs1, hd1⟩ := x_pb hc hg hip h
      obtain ⟨vm2, h2, hg2, hip2, hs2, hd2⟩ := ih (pc + 1) vm1 hg1 (by rw [hip1]; rfl)
      have he : skipPB p.code (f + 1) pc = skipPB p.code f (pc + 1) := by
        simp only [skipPB, h]
      have hge := skipPB_ge p.code f (pc + 1)
      refine ⟨vm2, ?_, hg2, by rw [hip2, he], by rw [hs2, hs1], by rw [hd2, hd1]⟩
      rw [he, show skipPB p.code f (pc + 1) - pc = 1 + (skipPB p.code f (pc + 1) - (pc + 1)) by omega]
      exact h1.trans h2
    · have he : skipPB p.code (f + 1) pc = pc := by
        unfold skipPB
        split
        · rename_i h'; exact absurd h' h
        · rfl
      refine ⟨vm, ?_, hg, by rw [he]; exact hip, rfl, rfl⟩
      rw [he, Nat.sub_self]
      exact Steps.refl _

variable {S : Nat} (hS : SiteBound p.code S)
include hS

theorem to_anchor_c (hc : CertOK p c R) {vm : VM} (hg : Good p c R.rid vm) {pc : Nat}
    (ha : Anch p.code vm.ip pc) :
    ∃ vm', SA S vm vm' ∧ Good p c R.rid vm' ∧ vm'.ip = ((skipc p.code pc : Nat) : Int) ∧
      vm'.stack = vm.stack ∧ vm'.data = vm.data := by
  obtain ⟨h0, h1⟩ := ha
  obtain ⟨vm', hs, h⟩ := skipPB_steps_c hc p.code.length vm.ip.toNat vm hg (by omega)
  refine ⟨vm', ⟨_, ?_, hs⟩, ?_⟩
  · have := hS vm.ip.toNat
    unfold skipc at this
    omega
  · rw [← h1]
    exact h

/-! ### one instruction after its sites -/

theorem r_add_c (hc : CertOK p c R) {vm : VM} (hg : Good p c R.rid vm) {a : Act} {rest : List Act}
    (hst : vm.stack = a :: rest) {pc : Nat} (ha : Anch p.code vm.ip pc) {t s k : Int}
    (hins : p.code[skipc p.code pc]? = some (.add t s k)) {n m : Nat} (hs : Holds vm.data a s n)
    (hm : addClamp (n : Int) k = (m : Int)) (hle : m ≤ WORD_MAX) :
    0 ≤ t ∧ t < a.segSize ∧
    ∃ vm', SC S 1 vm vm' ∧ Good p c R.rid vm' ∧ vm'.ip = ((skipc p.code pc + 1 : Nat) : Int) ∧
      Pres vm vm' a [t] ∧ Holds vm'.data a t m := by
  obtain ⟨vm1, s1, g1, ip1, st1, d1⟩ := to_anchor_c hS hc hg ha
  obtain ⟨h0, h1, _, _, v, hv, vm2, s2, g2, ip2, st2, d2⟩ :=
    x_add hc g1 (st1.trans hst) ip1 hins
  rw [d1, hs.2.2.1] at hv
  cases hv
  rw [hm, d1] at d2
  refine ⟨h0, h1, vm2, s1.one s2, g2, by rw [ip2]; omega,
    Pres.of_set (st2.trans st1) d2 h0, ?_⟩
  rw [d2]
  exact Holds.set_same h0 h1 (by rw [hg.top_in hst]; omega) hle

theorem r_const_c (hc : CertOK p c R) {vm : VM} (hg : Good p c R.rid vm) {a : Act} {rest : List Act}
    (hst : vm.stack = a :: rest) {pc : Nat} (ha : Anch p.code vm.ip pc) {t k : Int}
    (hins : p.code[skipc p.code pc]? = some (.const t k)) :
    0 ≤ t ∧ t < a.segSize ∧
    ∃ vm', SC S 1 vm vm' ∧ Good p c R.rid vm' ∧ vm'.ip = ((skipc p.code pc + 1 : Nat) : Int) ∧
      Pres vm vm' a [t] ∧ ∀ m : Nat, k = (m : Int) → m ≤ WORD_MAX → Holds vm'.data a t m := by
  obtain ⟨vm1, s1, g1, ip1, st1, d1⟩ := to_anchor_c hS hc hg ha
  obtain ⟨h0, h1, vm2, s2, g2, ip2, st2, d2⟩ := x_const hc g1 (st1.trans hst) ip1 hins
  rw [d1] at d2
  refine ⟨h0, h1, vm2, s1.one s2, g2, by rw [ip2]; omega,
    Pres.of_set (st2.trans st1) d2 h0, ?_⟩
  intro m hk hle
  rw [d2, hk]
  exact Holds.set_same h0 h1 (by rw [hg.top_in hst]; omega) hle

theorem r_test_c (hc : CertOK p c R) {vm : VM} (hg : Good p c R.rid vm) {a : Act} {rest : List Act}
    (hst : vm.stack = a :: rest) {pc : Nat} (ha : Anch p.code vm.ip pc) {t x y : Int}
    (hins : p.code[skipc p.code pc]? = some (.test t x y)) {n1 n2 : Nat}
    (hx : Holds vm.data a x n1) (hy : Holds vm.data a y n2) :
    0 ≤ t ∧ t < a.segSize ∧
    ∃ vm', SC S 1 vm vm' ∧ Good p c R.rid vm' ∧ vm'.ip = ((skipc p.code pc + 1 : Nat) : Int) ∧
      Pres vm vm' a [t] ∧ Holds vm'.data a t (if n1 = n2 then 0 else 1) := by
  obtain ⟨vm1, s1, g1, ip1, st1, d1⟩ := to_anchor_c hS hc hg ha
  obtain ⟨h0, h1, _, _, _, _, v1, v2, hv1, hv2, vm2, s2, g2, ip2, st2, d2⟩ :=
    x_test hc g1 (st1.trans hst) ip1 hins
  rw [d1, hx.2.2.1] at hv1
  rw [d1, hy.2.2.1] at hv2
  cases hv1
  cases hv2
  rw [d1] at d2
  have hval : (if (n1 : Int) = (n2 : Int) then (0 : Int) else 1) =
      (((if n1 = n2 then 0 else 1 : Nat)) : Int) := by
    by_cases h : n1 = n2
    · simp [h]
    · have : ¬ (n1 : Int) = (n2 : Int) := by omega
      simp [h, this]
  rw [hval] at d2
  refine ⟨h0, h1, vm2, s1.one s2, g2, by rw [ip2]; omega,
    Pres.of_set (st2.trans st1) d2 h0, ?_⟩
  rw [d2]
  refine Holds.set_same h0 h1 (by rw [hg.top_in hst]; omega) ?_
  unfold WORD_MAX
  split <;> omega

theorem r_jmp_c (hc : CertOK p c R) {vm : VM} (hg : Good p c R.rid vm) {pc : Nat}
    (ha : Anch p.code vm.ip pc) {off : Int} (hins : p.code[skipc p.code pc]? = some (.jmp off)) :
    ∃ vm', SC S 1 vm vm' ∧ Good p c R.rid vm' ∧ vm'.ip = ((skipc p.code pc : Nat) : Int) + off ∧
      vm'.stack = vm.stack ∧ vm'.data = vm.data := by
  obtain ⟨vm1, s1, g1, ip1, st1, d1⟩ := to_anchor_c hS hc hg ha
  obtain ⟨vm2, s2, g2, ip2, st2, d2⟩ := x_jmp hc g1 ip1 hins
  exact ⟨vm2, s1.one s2, g2, ip2, st2.trans st1, d2.trans d1⟩

theorem r_jmpc_c (hc : CertOK p c R) {vm : VM} (hg : Good p c R.rid vm) {a : Act} {rest : List Act}
    (hst : vm.stack = a :: rest) {pc : Nat} (ha : Anch p.code vm.ip pc) {off s : Int}
    (hins : p.code[skipc p.code pc]? = some (.jmpc off s)) {n : Nat} (hs : Holds vm.data a s n) :
    ∃ vm', SC S 1 vm vm' ∧ Good p c R.rid vm' ∧
      vm'.ip = (if n = 0 then ((skipc p.code pc : Nat) : Int) + off
                else ((skipc p.code pc + 1 : Nat) : Int)) ∧
      vm'.stack = vm.stack ∧ vm'.data = vm.data := by
  obtain ⟨vm1, s1, g1, ip1, st1, d1⟩ := to_anchor_c hS hc hg ha
  obtain ⟨_, _, v, hv, vm2, s2, g2, ip2, st2, d2⟩ := x_jmpc hc g1 (st1.trans hst) ip1 hins
  rw [d1, hs.2.2.1] at hv
  cases hv
  refine ⟨vm2, s1.one s2, g2, ?_, st2.trans st1, d2.trans d1⟩
  rw [ip2]
  by_cases h : n = 0
  · simp [h]
  · have : ¬ (n : Int) = 0 := by omega
    simp [h, this]

/-! ### values computed without a call -/

/-- the number of instructions of a value computed without a call -/
def scost : Value → Nat
  | .var _ => 1
  | .num _ => 1
  | .inc _ _ => 3
  | .dec _ _ => 3
  | .call _ _ => 0

theorem eval_simple_c (hc : CertOK p c R) {e : VEnv} (he : e.code = p.code) {vm : VM}
    (hg : Good p c R.rid vm) {a : Act} {rest : List Act} (hst : vm.stack = a :: rest) {pc : Nat}
    (ha : Anch p.code vm.ip pc) {env : Env} {ctrs : Ctrs} (hfo : FrameOK vm.data a e.me env ctrs)
    {v : Value} {live : List Int} {tgt : Int} {pc' : Nat}
    (hcv : checkValue e v live pc = some (tgt, pc')) {n : Nat} (hv : SimpleVal env v n) :
    ∃ vm' ts, SC S (scost v) vm vm' ∧ Good p c R.rid vm' ∧ vm'.ip = (pc' : Int) ∧
      Pres vm vm' a (tgt :: ts) ∧ Holds vm'.data a tgt n ∧ ∀ t ∈ ts, tempOK e live t = true := by
  cases hv with
  | var y =>
    obtain ⟨ry, h1, h2, _, rfl⟩ := checkValue_var hcv
    have hy := hfo.reg h1
    obtain ⟨_, _, vm', s1, g1, ip1, p1, hh⟩ :=
      r_add_c hS hc hg hst ha (at_code he h2) hy (clamp_zero hy.2.2.2) hy.2.2.2
    exact ⟨vm', [], s1, g1, by rw [ip1, next_code he], p1, hh, fun _ h => nomatch h⟩
  | num n =>
    obtain ⟨h2, hn, _, rfl⟩ := checkValue_num hcv
    obtain ⟨_, _, vm', s1, g1, ip1, p1, hh⟩ := r_const_c hS hc hg hst ha (at_code he h2)
    exact ⟨vm', [], s1, g1, by rw [ip1, next_code he], p1, hh n rfl (Nat.le_of_lt hn),
      fun _ h => nomatch h⟩
  | inc y k =>
    simp only [checkValue] at hcv
    obtain ⟨ry, t1, t2, c2, h1, h2, ht1, h3, ht2, hne, h4, hk, _, rfl⟩ := checkIncDec_inv hcv
    have hy := hfo.reg h1
    obtain ⟨t10, _, vm1, s1, g1, ip1, p1, hh1⟩ :=
      r_add_c hS hc hg hst ha (at_code he h2) hy (clamp_zero hy.2.2.2) hy.2.2.2
    have st1 := p1.stack.trans hst
    have a1 : Anch p.code vm1.ip (e.next pc) := by rw [ip1, next_code he]; exact Anch.self _ _
    obtain ⟨t20, _, vm2, s2, g2, ip2, p2, _⟩ := r_const_c hS hc g1 st1 a1 (at_code he h3)
    have st2 := p2.stack.trans st1
    have a2 : Anch p.code vm2.ip (e.next (e.next pc)) := by
      rw [ip2, next_code he (e.next pc)]; exact Anch.self _ _
    have hh2 : Holds vm2.data a t1 (env.get y) :=
      p2.other _ _ (by simp; exact fun h => hne h.symm) hh1
    obtain ⟨_, _, vm3, s3, g3, ip3, p3, hh3⟩ :=
      r_add_c hS hc g2 st2 a2 (at_code he h4) hh2 (m := addSat (env.get y) k)
        (by simp only [if_true]; exact clamp_inc) (addSat_le _ _)
    refine ⟨vm3, [t1, t2], (s1.trans s2).trans s3, g3,
      by rw [ip3, next_code he (e.next (e.next pc))], ?_, hh3, ?_⟩
    · exact ((p1.trans p2).trans p3).weaken (by simp)
    · intro t ht
      simp only [List.mem_cons, List.not_mem_nil, or_false] at ht
      rcases ht with rfl | rfl
      · exact ht1
      · exact ht2
  | dec y k =>
    simp only [checkValue] at hcv
    obtain ⟨ry, t1, t2, c2, h1, h2, ht1, h3, ht2, hne, h4, hk, _, rfl⟩ := checkIncDec_inv hcv
    have hy := hfo.reg h1
    obtain ⟨t10, _, vm1, s1, g1, ip1, p1, hh1⟩ :=
      r_add_c hS hc hg hst ha (at_code he h2) hy (clamp_zero hy.2.2.2) hy.2.2.2
    have st1 := p1.stack.trans hst
    have a1 : Anch p.code vm1.ip (e.next pc) := by rw [ip1, next_code he]; exact Anch.self _ _
    obtain ⟨t20, _, vm2, s2, g2, ip2, p2, _⟩ := r_const_c hS hc g1 st1 a1 (at_code he h3)
    have st2 := p2.stack.trans st1
    have a2 : Anch p.code vm2.ip (e.next (e.next pc)) := by
      rw [ip2, next_code he (e.next pc)]; exact Anch.self _ _
    have hh2 : Holds vm2.data a t1 (env.get y) :=
      p2.other _ _ (by simp; exact fun h => hne h.symm) hh1
    obtain ⟨_, _, vm3, s3, g3, ip3, p3, hh3⟩ :=
      r_add_c hS hc g2 st2 a2 (at_code he h4) hh2 (m := env.get y - k)
        (by simp only [Bool.false_eq_true, if_false]; exact clamp_dec hy.2.2.2)
        (Nat.le_trans (Nat.sub_le _ _) hy.2.2.2)
    refine ⟨vm3, [t1, t2], (s1.trans s2).trans s3, g3,
      by rw [ip3, next_code he (e.next (e.next pc))], ?_, hh3, ?_⟩
    · exact ((p1.trans p2).trans p3).weaken (by simp)
    · intro t ht
      simp only [List.mem_cons, List.not_mem_nil, or_false] at ht
      rcases ht with rfl | rfl
      · exact ht1
      · exact ht2

/-! ### the call sequence -/

theorem arg_loop_c (hc : CertOK p c R) {e : VEnv} (he : e.code = p.code) {callee a : Act}
    {rest : List Act} {pc2 : Nat} : ∀ (temps : List Int) (vals : List Nat) (i pc : Nat) (vm : VM)
    (done : List Nat), Good p c R.rid vm → vm.stack = callee :: a :: rest → Anch p.code vm.ip pc →
    checkArgInstrs e temps i pc = some pc2 → HoldAll (Holds vm.data a) temps vals →
    done.length = i → FrameInit vm.data callee done →
    ∃ vm', SC S temps.length vm vm' ∧ Good p c R.rid vm' ∧ Anch p.code vm'.ip pc2 ∧
      vm'.stack = vm.stack ∧
      SameBelow callee.dataStart vm.data vm'.data ∧ FrameInit vm'.data callee (done ++ vals) := by
  intro temps
  induction temps with
  | nil =>
    intro vals i pc vm done hg hst ha hchk hh hlen hfi
    have hv : vals = [] := by
      have := hh.1
      cases vals with
      | nil => rfl
      | cons _ _ => simp at this
    subst hv
    simp only [checkArgInstrs, Option.some.injEq] at hchk
    subst hchk
    exact ⟨vm, SC.refl _ _, hg, ha, rfl, SameBelow.refl _ _, by simpa using hfi⟩
  | cons t ts ih =>
    intro vals i pc vm done hg hst ha hchk hh hlen hfi
    cases vals with
    | nil => have := hh.1; simp at this
    | cons v vs =>
      obtain ⟨hv, hh'⟩ := hh.cons_inv
      obtain ⟨h1, h2⟩ := checkArgInstrs_cons hchk
      obtain ⟨vm1, s1, g1, ip1, st1, d1⟩ := to_anchor_c hS hc hg ha
      obtain ⟨i0, i1, _, _, w, hw, vm2, s2, g2, ip2, st2, d2⟩ :=
        x_arg hc g1 (st1.trans hst) ip1 (at_code he h1)
      rw [d1, hv.2.2.1] at hw
      cases hw
      rw [d1] at d2
      have htl := hg.tiles
      rw [hst] at htl
      obtain ⟨_, hsum, _, hsum2, _⟩ := htl
      have hsb : SameBelow callee.dataStart vm.data vm2.data := by
        rw [d2]; exact SameBelow.set _ _ (by omega)
      have hidx : ((i : Nat) : Int).toNat = i := by omega
      have hfi2 : FrameInit vm2.data callee (done ++ [v]) := by
        intro r hr
        rw [d2, hidx]
        by_cases hri : r = i
        · subst hri
          rw [List.getElem?_set_self (by omega), List.getElem?_append_right (by omega), hlen]
          simp
        · rw [List.getElem?_set_ne (by omega), hfi r hr]
          by_cases hlt : r < i
          · rw [List.getElem?_append_left (by omega)]
          · rw [List.getElem?_eq_none (by omega), List.getElem?_eq_none (by simp; omega)]
      have hh2 : HoldAll (Holds vm2.data a) ts vs :=
        hh'.mono (fun t _ n hn => hn.below (by omega) hsb)
      have a2 : Anch p.code vm2.ip (e.next pc) := by
        rw [ip2, next_code he]; exact Anch.self _ _
      obtain ⟨vm3, s3, g3, a3, st3, sb3, fi3⟩ :=
        ih vs (i + 1) (e.next pc) vm2 (done ++ [v]) g2 ((st2.trans st1).trans hst) a2 h2 hh2
          (by simp [hlen]) hfi2
      refine ⟨vm3, ((s1.one s2).trans s3).cast (by simp [Nat.add_comm]), g3, a3,
        (st3.trans st2).trans st1, hsb.trans sb3, ?_⟩
      rw [List.append_assoc] at fi3
      exact fi3

/-- `PREPARE; ARG*; EXEC`: 2 + the number of arguments instructions -/
theorem do_call_c {src : Source} {V : Valid src p} (hc : CertOK p c R) (hV : V.OK) {r : Nat}
    (hr : r ≤ src.progs.length) {vm : VM} (hg : Good p c R.rid vm) {a : Act} {rest : List Act}
    (hst : vm.stack = a :: rest) {pc1 : Nat} (ha : Anch p.code vm.ip pc1) {f : Name}
    {live temps : List Int} {tgt : Int} {pc' : Nat}
    (hct : CallTail (V.env r) f live temps pc1 tgt pc') {vals : List Nat}
    (hh : HoldAll (Holds vm.data a) temps vals) :
    ∃ j pd, lookupProg src f r = some (j, pd) ∧ j < r ∧ src.progs[j]? = some pd ∧
      pd.params.length = vals.length ∧
      ∃ vm' callee, SC S (vals.length + 2) vm vm' ∧ Good p c R.rid vm' ∧
        vm'.ip = ((V.start j : Nat) : Int) ∧
        vm'.stack = callee :: a :: rest ∧ callee.retAddr = (pc' : Int) ∧ callee.retTarget = tgt ∧
        callee.dbg = (j : Int) ∧ SameBelow vm.data.length vm.data vm'.data ∧
        FrameOK vm'.data callee (V.ri j) (bindParams pd.params vals []) [] := by
  have he : (V.env r).code = p.code := rfl
  obtain ⟨j, pd, ri, cnt, pc2, h1, h2, h3, h4, _, h6, h7, rfl⟩ := hct
  have h1' : lookupProg src f r = some (j, pd) := h1
  obtain ⟨hjr, hpd⟩ := lookupProg_spec h1'
  obtain ⟨_, hri⟩ := env_infos hV h2
  have hri := hri hr
  subst hri
  have hjn : j < src.progs.length := by omega
  refine ⟨j, pd, h1', hjr, hpd, by rw [h3, hh.1], ?_⟩
  -- PREPARE
  obtain ⟨vm1, s1, g1, ip1, st1, d1⟩ := to_anchor_c hS hc hg ha
  obtain ⟨hcnt, ht0, ht1, vm2, s2, g2, ip2, st2, d2⟩ :=
    x_prepare hc g1 (st1.trans hst) ip1 (at_code he h4)
  rw [d1] at d2 st2
  rw [st1, hst] at st2
  have hin := hg.top_in hst
  have hsb2 : SameBelow vm.data.length vm.data vm2.data := by
    rw [d2]; exact SameBelow.append _ _ (Nat.le_refl _)
  have hfi2 : FrameInit vm2.data ⟨vm.data.length, cnt, tgt, -1, ((V.ri j).mi : Int)⟩ [] := by
    intro r' hr'
    have hr'' : (r' : Int) < cnt := hr'
    rw [d2, List.getElem?_append_right (by simp)]
    simp only [Nat.add_sub_cancel_left, List.getElem?_nil, Option.getD_none]
    rw [List.getElem?_replicate, if_pos (by omega)]
    rfl
  have hh2 : HoldAll (Holds vm2.data a) temps vals :=
    hh.mono (fun t _ n hn => hn.below (by omega) hsb2)
  have a2 : Anch p.code vm2.ip ((V.env r).next pc1) := by
    rw [ip2, next_code he]; exact Anch.self _ _
  -- ARG*
  obtain ⟨vm3, s3, g3, a3, st3, sb3, fi3⟩ :=
    arg_loop_c hS hc he temps vals 0 _ vm2 [] g2 st2 a2 h6 hh2 rfl hfi2
  rw [st2] at st3
  -- EXEC
  obtain ⟨vm4, s4, g4, ip4, st4, d4⟩ := to_anchor_c hS hc g3 a3
  obtain ⟨vm5, s5, g5, ip5, st5, d5⟩ := x_exec hc g4 (st4.trans st3) ip4 (at_code he h7)
  rw [d4] at d5
  have hsb5 : SameBelow vm.data.length vm.data vm5.data := by
    rw [d5]; exact hsb2.trans sb3
  refine ⟨vm5, _, (((s1.one s2).trans s3).trans (s4.one s5)).cast (by rw [hh.1]; omega), g5,
    by rw [ip5, hV.entry j hjn], st5, ?_, rfl, ?_, hsb5, ?_⟩
  · show ((skipc p.code pc2 : Nat) : Int) + 1 = _
    rw [next_code he]; omega
  · show ((V.ri j).mi : Int) = j
    rw [hV.mi j (by omega)]
  · obtain ⟨pd', ro, q1, q2, _, _⟩ := hV.rout j hjn
    rw [hpd] at q1
    cases q1
    have ham := winv_actMap g5.winv _ (by rw [st5]; exact List.mem_cons_self)
    obtain ⟨hm, _⟩ := ham
    unfold mapOK at hm
    rw [Bool.and_eq_true, decide_eq_true_eq] at hm
    obtain ⟨sm, hsm, hregs⟩ := hV.regs j (by omega)
    have hdbg : ((V.ri j).mi : Int).toNat = j := by rw [hV.mi j (by omega)]; omega
    simp only [hdbg, hsm] at hm
    refine callee_frameOK (hV.nodup j (by omega)) q2 (by rw [h3, hh.1]) hh.le ?_ ?_
    · rw [d5]; exact fi3
    · intro r' nm hmem
      rw [hregs] at hmem
      have := List.all_eq_true.1 hm.2 _ hmem
      rw [regOK_iff] at this
      refine ⟨this.1, ?_⟩
      show r' < cnt
      omega

end

end Sim
end Theo
