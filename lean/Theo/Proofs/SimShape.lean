/-
  C01, part 2: what the validator establishes — inversion of `checkValue` / `checkArgs`, the
  position relations for statements and continuations, the jump-resolution lemma.
-/
import Theo.Proofs.SimVM

set_option linter.unusedSimpArgs false

namespace Theo
namespace Sim
open Sem

/-! ### sites -/

theorem skipPB_not_pb (code : List Instr) : ∀ f pc, code.length ≤ pc + f →
    code[skipPB code f pc]? ≠ some Instr.potBreak := by
  intro f
  induction f with
  | zero =>
    intro pc h
    simp only [skipPB]
    rw [List.getElem?_eq_none (by omega)]
    simp
  | succ f ih =>
    intro pc h
    unfold skipPB
    split
    · exact ih (pc + 1) (by omega)
    · rename_i h'
      intro hc
      exact h' hc

theorem skipc_not_pb (code : List Instr) (pc : Nat) : code[skipc code pc]? ≠ some Instr.potBreak :=
  skipPB_not_pb code code.length pc (by omega)

theorem skipc_of_not_pb {code : List Instr} {pc : Nat} (h : code[pc]? ≠ some Instr.potBreak) :
    skipc code pc = pc := by
  unfold skipc
  cases code.length with
  | zero => rfl
  | succ f =>
    unfold skipPB
    split
    · rename_i h'; exact absurd h' h
    · rfl

theorem skipc_idem (code : List Instr) (pc : Nat) : skipc code (skipc code pc) = skipc code pc :=
  skipc_of_not_pb (skipc_not_pb code pc)

theorem Anch.skip {code : List Instr} {ip : Int} {pc : Nat} (h : Anch code ip (skipc code pc)) :
    Anch code ip pc := ⟨h.1, by rw [h.2, skipc_idem]⟩

/-! ### inversion of the value checks -/

theorem checkValue_var {e : VEnv} {y : Name} {live : List Int} {pc : Nat} {tgt : Int} {pc' : Nat}
    (h : checkValue e (.var y) live pc = some (tgt, pc')) :
    ∃ ry, e.me.regOf y = some ry ∧ e.at pc = some (.add tgt ry 0) ∧ live.contains tgt = false ∧
      pc' = e.next pc := by
  simp only [checkValue] at h
  split at h
  · rename_i t s ry h1 h2
    split at h
    · rename_i hc
      cases h
      obtain ⟨rfl, hl⟩ := hc
      exact ⟨_, h2, h1, by simpa using hl, rfl⟩
    · cases h
  · cases h

theorem checkValue_num {e : VEnv} {n : Nat} {live : List Int} {pc : Nat} {tgt : Int} {pc' : Nat}
    (h : checkValue e (.num n) live pc = some (tgt, pc')) :
    e.at pc = some (.const tgt (n : Int)) ∧ n < WORD_MAX ∧ live.contains tgt = false ∧
      pc' = e.next pc := by
  simp only [checkValue] at h
  split at h
  · rename_i t c h1
    split at h
    · rename_i hc
      cases h
      obtain ⟨rfl, hn, hl⟩ := hc
      exact ⟨h1, hn, by simpa using hl, rfl⟩
    · cases h
  · cases h

theorem checkIncDec_inv {e : VEnv} {y : Name} {k : Nat} {isInc : Bool} {live : List Int} {pc : Nat}
    {tgt : Int} {pc' : Nat} (h : checkIncDec e y k isInc live pc = some (tgt, pc')) :
    ∃ ry t1 t2 c2, e.me.regOf y = some ry ∧ e.at pc = some (.add t1 ry 0) ∧
      tempOK e live t1 = true ∧ e.at (e.next pc) = some (.const t2 c2) ∧
      tempOK e live t2 = true ∧ t2 ≠ t1 ∧
      e.at (e.next (e.next pc)) = some (.add tgt t1 (if isInc then (k : Int) else -(k : Int))) ∧
      k < WORD_MAX ∧ live.contains tgt = false ∧ pc' = e.next (e.next (e.next pc)) := by
  unfold checkIncDec at h
  split at h
  · rename_i t1 s ry h1 h2
    split at h
    · cases h
    · rename_i hc1
      split at h
      · rename_i t2 c2 h3
        split at h
        · cases h
        · rename_i hc2
          split at h
          · rename_i tg s2 cc h4
            rw [Option.ite_none_right_eq_some] at h
            obtain ⟨⟨rfl, rfl, hk, hl⟩, h⟩ := h
            cases h
            simp only [not_or, Bool.not_eq_true, Bool.not_eq_eq_eq_not, Bool.not_not,
              Bool.not_true, Decidable.not_not] at hc1 hc2
            refine ⟨ry, _, t2, c2, h2, ?_, ?_, h3, ?_, hc2.2, h4, hk, by simpa using hl, rfl⟩
            · rw [h1, hc1.1]
            · simpa using hc1.2
            · simpa using hc2.1
          · cases h
      · cases h
  · cases h

/-- the call sequence after the arguments: `PREPARE; ARG*; EXEC` of a routine defined earlier -/
def CallTail (e : VEnv) (f : Name) (live : List Int) (temps : List Int) (pc1 : Nat) (tgt : Int)
    (pc' : Nat) : Prop :=
  ∃ j pd ri cnt pc2, lookupProg e.src f e.routine = some (j, pd) ∧ e.infos[j]? = some ri ∧
    pd.params.length = temps.length ∧ e.at pc1 = some (.prepare cnt (ri.mi : Int) tgt) ∧
    live.contains tgt = false ∧ checkArgInstrs e temps 0 (e.next pc1) = some pc2 ∧
    e.at pc2 = some (.exec (ri.entry : Int)) ∧ pc' = e.next pc2

theorem checkValue_call {e : VEnv} {f : Name} {args : Values} {live : List Int} {pc : Nat}
    {tgt : Int} {pc' : Nat} (h : checkValue e (.call f args) live pc = some (tgt, pc')) :
    ∃ temps pc1, checkArgs e args live [] pc = some (temps, pc1) ∧
      CallTail e f live temps pc1 tgt pc' := by
  simp only [checkValue] at h
  split at h
  · cases h
  · rename_i j pd hl
    split at h
    · rename_i ri temps pc1 h1 h2
      split at h
      · cases h
      · rename_i hlen
        split at h
        · rename_i cnt mi tg h3
          split at h
          · cases h
          · rename_i hc
            split at h
            · rename_i pc2 h4
              split at h
              · rename_i en h5
                split at h
                · rename_i hen
                  cases h
                  simp only [not_or, Decidable.not_not, Bool.not_eq_true] at hc
                  refine ⟨temps, pc1, h2, j, pd, ri, cnt, pc2, hl, h1, by simpa using hlen, ?_, hc.2,
                    h4, ?_, rfl⟩
                  · rw [h3, hc.1]
                  · rw [h5, hen]
                · cases h
              · cases h
            · cases h
        · cases h
    · cases h

theorem checkArgs_nil {e : VEnv} {live acc : List Int} {pc : Nat} :
    checkArgs e .nil live acc pc = some (acc, pc) := by
  simp only [checkArgs]

theorem checkArgs_cons {e : VEnv} {a : Value} {as : Values} {live acc : List Int} {pc : Nat}
    {temps : List Int} {pc1 : Nat}
    (h : checkArgs e (.cons a as) live acc pc = some (temps, pc1)) :
    ∃ t pca, checkValue e a (live ++ acc) pc = some (t, pca) ∧ tempOK e (live ++ acc) t = true ∧
      checkArgs e as live (acc ++ [t]) pca = some (temps, pc1) := by
  simp only [checkArgs] at h
  split at h
  · rename_i t pca h1
    split at h
    · rename_i h2
      exact ⟨t, pca, h1, h2, h⟩
    · cases h
  · cases h

theorem checkArgInstrs_cons {e : VEnv} {t : Int} {ts : List Int} {i pc pc2 : Nat}
    (h : checkArgInstrs e (t :: ts) i pc = some pc2) :
    e.at pc = some (.arg (i : Int) t) ∧ checkArgInstrs e ts (i + 1) (e.next pc) = some pc2 := by
  simp only [checkArgInstrs] at h
  split at h
  · rename_i ti s h1
    split at h
    · rename_i hc
      obtain ⟨rfl, rfl⟩ := hc
      exact ⟨h1, h⟩
    · cases h
  · cases h

/-! ### inversion of the statement checks -/

theorem checkStmt_assign_inv {e : VEnv} {x : Name} {v : Value} {pos : Pos} {w w' : Walk}
    (h : checkStmt e (.assign x v pos) w = some w') :
    ∃ rx pc1, checkValue e v [] w.pc = some (rx, pc1) ∧ e.me.regOf x = some rx ∧
      w' = { w with pc := pc1 } := by
  simp only [checkStmt] at h
  split at h
  · rename_i tgt pc1 rx h1 h2
    split at h
    · rename_i hc
      cases h
      subst hc
      exact ⟨_, pc1, h1, h2, rfl⟩
    · cases h
  · cases h

theorem checkStmt_mark_inv {e : VEnv} {m : Name} {pos : Pos} {w w' : Walk}
    (h : checkStmt e (.mark m pos) w = some w') : w' = { w with marks := w.marks ++ [(m, w.pc)] } := by
  simp only [checkStmt] at h
  cases h
  rfl

theorem checkStmt_loop_inv {e : VEnv} {id : Nat} {x : Name} {body : Stmts} {pos : Pos} {w w' : Walk}
    (h : checkStmt e (.loop id x body pos) w = some w') :
    ∃ ctr rx offE offL w1, e.me.ctrOf id = some ctr ∧ e.me.regOf x = some rx ∧
      e.at w.pc = some (.add ctr rx 0) ∧ e.at (e.next w.pc) = some (.jmpc offE ctr) ∧
      checkStmts e body { w with pc := e.next (e.next w.pc) } = some w1 ∧
      e.at w1.pc = some (.add ctr ctr (-1)) ∧ e.at (e.next w1.pc) = some (.jmp offL) ∧
      Anch e.code (((skipc e.code (e.next w1.pc) : Nat) : Int) + offL) (e.next w.pc) ∧
      Anch e.code (((skipc e.code (e.next w.pc) : Nat) : Int) + offE)
        (skipc e.code (e.next w1.pc) + 1) ∧
      w' = { w1 with pc := skipc e.code (e.next w1.pc) + 1 } := by
  simp only [checkStmt] at h
  split at h
  · rename_i ctr rx t s h1 h2 h3
    split at h
    · cases h
    · rename_i hc1
      split at h
      · rename_i offE cc h4
        split at h
        · cases h
        · rename_i hc2
          split at h
          · rename_i w1 h5
            split at h
            · rename_i t3 s3 h6
              split at h
              · cases h
              · rename_i hc3
                split at h
                · rename_i offL h7
                  split at h
                  · rename_i hc4
                    cases h
                    simp only [not_or, Decidable.not_not] at hc1 hc2 hc3
                    rw [Bool.and_eq_true, sameAnchor_iff, sameAnchor_iff] at hc4
                    obtain ⟨rfl, rfl⟩ := hc1
                    subst hc2
                    obtain ⟨rfl, rfl⟩ := hc3
                    exact ⟨_, _, offE, offL, w1, h1, h2, h3, h4, h5, h6, h7, hc4.1.skip, hc4.2, rfl⟩
                  · cases h
                · cases h
            · cases h
          · cases h
      · cases h
  · cases h

theorem checkStmt_while_inv {e : VEnv} {x : Name} {body : Stmts} {pos : Pos} {w w' : Walk}
    (h : checkStmt e (.while_ x body pos) w = some w') :
    ∃ rx tmp offE offL w1, e.me.regOf x = some rx ∧ e.me.isNamed tmp = false ∧
      e.at w.pc = some (.add tmp rx 0) ∧ e.at (e.next w.pc) = some (.jmpc offE tmp) ∧
      checkStmts e body { w with pc := e.next (e.next w.pc) } = some w1 ∧
      e.at w1.pc = some (.jmp offL) ∧
      Anch e.code (((skipc e.code w1.pc : Nat) : Int) + offL) w.pc ∧
      Anch e.code (((skipc e.code (e.next w.pc) : Nat) : Int) + offE) (skipc e.code w1.pc + 1) ∧
      w' = { w1 with pc := skipc e.code w1.pc + 1 } := by
  simp only [checkStmt] at h
  split at h
  · rename_i rx tmp s h1 h2
    split at h
    · cases h
    · rename_i hc1
      split at h
      · rename_i offE cc h3
        split at h
        · cases h
        · rename_i hc2
          split at h
          · rename_i w1 h4
            split at h
            · rename_i offL h5
              split at h
              · rename_i hc3
                cases h
                simp only [not_or, Decidable.not_not, Bool.not_eq_true] at hc1 hc2
                rw [Bool.and_eq_true, sameAnchor_iff, sameAnchor_iff] at hc3
                obtain ⟨rfl, hn⟩ := hc1
                subst hc2
                exact ⟨_, _, offE, offL, w1, h1, hn, h2, h3, h4, h5, hc3.1, hc3.2, rfl⟩
              · cases h
            · cases h
          · cases h
      · cases h
  · cases h

theorem checkStmt_goto_inv {e : VEnv} {m : Name} {pos : Pos} {w w' : Walk}
    (h : checkStmt e (.goto m pos) w = some w') :
    ∃ off, e.at w.pc = some (.jmp off) ∧
      w' = { w with pc := e.next w.pc, gotos := w.gotos ++ [(skipc e.code w.pc, off, m)] } := by
  simp only [checkStmt] at h
  split at h
  · rename_i off h1
    cases h
    exact ⟨off, h1, rfl⟩
  · cases h

theorem checkStmt_ifGoto_inv {e : VEnv} {x : Name} {cst : Nat} {m : Name} {pos : Pos} {w w' : Walk}
    (h : checkStmt e (.ifGoto x cst m pos) w = some w') :
    ∃ rx t1 t2 t0 off, e.me.regOf x = some rx ∧
      e.at w.pc = some (.add t1 rx 0) ∧ e.me.isNamed t1 = false ∧
      e.at (e.next w.pc) = some (.const t2 (cst : Int)) ∧ e.me.isNamed t2 = false ∧ t2 ≠ t1 ∧
      cst < WORD_MAX ∧
      e.at (e.next (e.next w.pc)) = some (.test t0 t1 t2) ∧ e.me.isNamed t0 = false ∧
      e.at (e.next (e.next (e.next w.pc))) = some (.jmpc off t0) ∧
      w' = { w with pc := e.next (e.next (e.next (e.next w.pc))),
                    gotos := w.gotos ++ [(skipc e.code (e.next (e.next (e.next w.pc))), off, m)] } := by
  simp only [checkStmt] at h
  split at h
  · rename_i rx t1 s h1 h2
    split at h
    · cases h
    · rename_i hc1
      split at h
      · rename_i t2 cc h3
        split at h
        · cases h
        · rename_i hc2
          split at h
          · rename_i t0 a b h4
            split at h
            · cases h
            · rename_i hc3
              split at h
              · rename_i off c0 h5
                split at h
                · cases h
                · rename_i hc4
                  cases h
                  simp only [not_or, Decidable.not_not, Bool.not_eq_true, Bool.not_not,
                    decide_eq_true_eq, Bool.not_eq_eq_eq_not, Bool.not_true, decide_eq_false_iff_not,
                    Nat.not_lt] at hc1 hc2 hc3 hc4
                  obtain ⟨rfl, hn1⟩ := hc1
                  obtain ⟨rfl, hn2, hne, hlt⟩ := hc2
                  obtain ⟨rfl, rfl, hn0⟩ := hc3
                  subst hc4
                  exact ⟨_, _, _, _, off, h1, h2, hn1, h3, hn2, hne, by simpa using hlt, h4, hn0, h5, rfl⟩
              · cases h
          · cases h
      · cases h
  · cases h

theorem checkStmt_stop_inv {e : VEnv} {pos : Pos} {w w' : Walk}
    (h : checkStmt e (.stop pos) w = some w') :
    e.at w.pc = some .halt ∧ w' = { w with pc := e.next w.pc } := by
  simp only [checkStmt] at h
  split at h
  · rename_i h1
    cases h
    exact ⟨h1, rfl⟩
  · cases h

theorem checkStmts_cons_inv {e : VEnv} {s : Stmt} {ss : Stmts} {w w' : Walk}
    (h : checkStmts e (.cons s ss) w = some w') :
    ∃ w1, checkStmt e s w = some w1 ∧ checkStmts e ss w1 = some w' := by
  simp only [checkStmts] at h
  split at h
  · rename_i w1 h1
    exact ⟨w1, h1, h⟩
  · cases h

theorem checkStmts_nil_inv {e : VEnv} {w w' : Walk} (h : checkStmts e .nil w = some w') : w' = w := by
  simp only [checkStmts] at h
  cases h
  rfl

/-! ### position relations -/

/-- the marks and jumps recorded so far are among those of the routine's final walk -/
structure Sub (w G : Walk) : Prop where
  marks : ∀ x ∈ w.marks, x ∈ G.marks
  gotos : ∀ x ∈ w.gotos, x ∈ G.gotos

theorem Sub.refl (w : Walk) : Sub w w := ⟨fun _ h => h, fun _ h => h⟩
theorem Sub.of_eq {a b G : Walk} (hm : a.marks = b.marks) (hg : a.gotos = b.gotos) (h : Sub b G) :
    Sub a G := ⟨fun x hx => h.marks x (hm ▸ hx), fun x hx => h.gotos x (hg ▸ hx)⟩
theorem Sub.trans {a b c : Walk} (h1 : Sub a b) (h2 : Sub b c) : Sub a c :=
  ⟨fun x h => h2.marks x (h1.marks x h), fun x h => h2.gotos x (h1.gotos x h)⟩

mutual
/-- the code of statement `s` occupies `pc … pc'`; its jumps are recorded in `G` -/
def SAt1 (e : VEnv) (G : Walk) : Stmt → Nat → Nat → Prop
  | .assign x v _, pc, pc' => ∃ rx, e.me.regOf x = some rx ∧ checkValue e v [] pc = some (rx, pc')
  | .mark _ _, pc, pc' => pc' = pc
  | .loop id x body _, pc, pc' => ∃ ctr rx offE offL pcB,
      e.me.ctrOf id = some ctr ∧ e.me.regOf x = some rx ∧
      e.at pc = some (.add ctr rx 0) ∧ e.at (e.next pc) = some (.jmpc offE ctr) ∧
      SAt e G body (e.next (e.next pc)) pcB ∧
      e.at pcB = some (.add ctr ctr (-1)) ∧ e.at (e.next pcB) = some (.jmp offL) ∧
      Anch e.code (((skipc e.code (e.next pcB) : Nat) : Int) + offL) (e.next pc) ∧
      Anch e.code (((skipc e.code (e.next pc) : Nat) : Int) + offE) (skipc e.code (e.next pcB) + 1) ∧
      pc' = skipc e.code (e.next pcB) + 1
  | .while_ x body _, pc, pc' => ∃ rx tmp offE offL pcB,
      e.me.regOf x = some rx ∧ e.me.isNamed tmp = false ∧
      e.at pc = some (.add tmp rx 0) ∧ e.at (e.next pc) = some (.jmpc offE tmp) ∧
      SAt e G body (e.next (e.next pc)) pcB ∧
      e.at pcB = some (.jmp offL) ∧
      Anch e.code (((skipc e.code pcB : Nat) : Int) + offL) pc ∧
      Anch e.code (((skipc e.code (e.next pc) : Nat) : Int) + offE) (skipc e.code pcB + 1) ∧
      pc' = skipc e.code pcB + 1
  | .goto m _, pc, pc' => ∃ off, e.at pc = some (.jmp off) ∧
      (skipc e.code pc, off, m) ∈ G.gotos ∧ pc' = e.next pc
  | .ifGoto x cst m _, pc, pc' => ∃ rx t1 t2 t0 off, e.me.regOf x = some rx ∧
      e.at pc = some (.add t1 rx 0) ∧ e.me.isNamed t1 = false ∧
      e.at (e.next pc) = some (.const t2 (cst : Int)) ∧ e.me.isNamed t2 = false ∧ t2 ≠ t1 ∧
      cst < WORD_MAX ∧
      e.at (e.next (e.next pc)) = some (.test t0 t1 t2) ∧ e.me.isNamed t0 = false ∧
      e.at (e.next (e.next (e.next pc))) = some (.jmpc off t0) ∧
      (skipc e.code (e.next (e.next (e.next pc))), off, m) ∈ G.gotos ∧
      pc' = e.next (e.next (e.next (e.next pc)))
  | .stop _, pc, pc' => e.at pc = some .halt ∧ pc' = e.next pc
def SAt (e : VEnv) (G : Walk) : Stmts → Nat → Nat → Prop
  | .nil, pc, pc' => pc' = pc
  | .cons s ss, pc, pc' => ∃ pc1, SAt1 e G s pc pc1 ∧ SAt e G ss pc1 pc'
end

/-- the code that runs when the focus is exhausted under continuation `k`, up to the end
    `pcEnd` of the routine -/
def KAt (e : VEnv) (G : Walk) : Kont → Nat → Nat → Prop
  | .done, pc, pcEnd => pc = pcEnd
  | .loop id body rest k, pc, pcEnd => ∃ ctr offE offL pJ pcR,
      e.me.ctrOf id = some ctr ∧ e.at pJ = some (.jmpc offE ctr) ∧
      SAt e G body (e.next pJ) pc ∧
      e.at pc = some (.add ctr ctr (-1)) ∧ e.at (e.next pc) = some (.jmp offL) ∧
      Anch e.code (((skipc e.code (e.next pc) : Nat) : Int) + offL) pJ ∧
      Anch e.code (((skipc e.code pJ : Nat) : Int) + offE) (skipc e.code (e.next pc) + 1) ∧
      SAt e G rest (skipc e.code (e.next pc) + 1) pcR ∧ KAt e G k pcR pcEnd
  | .while_ x body rest k, pc, pcEnd => ∃ rx tmp offE offL pL pcR,
      e.me.regOf x = some rx ∧ e.me.isNamed tmp = false ∧
      e.at pL = some (.add tmp rx 0) ∧ e.at (e.next pL) = some (.jmpc offE tmp) ∧
      SAt e G body (e.next (e.next pL)) pc ∧
      e.at pc = some (.jmp offL) ∧
      Anch e.code (((skipc e.code pc : Nat) : Int) + offL) pL ∧
      Anch e.code (((skipc e.code (e.next pL) : Nat) : Int) + offE) (skipc e.code pc + 1) ∧
      SAt e G rest (skipc e.code pc + 1) pcR ∧ KAt e G k pcR pcEnd

/-! ### the walk only grows -/

mutual
theorem checkStmt_mono (e : VEnv) : ∀ (s : Stmt) (w w' : Walk), checkStmt e s w = some w' → Sub w w'
  | .assign x v pos, w, w', h => by
    obtain ⟨rx, pc1, _, _, rfl⟩ := checkStmt_assign_inv h
    exact ⟨fun _ h => h, fun _ h => h⟩
  | .mark m pos, w, w', h => by
    rw [checkStmt_mark_inv h]
    exact ⟨fun _ h => List.mem_append_left _ h, fun _ h => h⟩
  | .loop id x body pos, w, w', h => by
    obtain ⟨ctr, rx, offE, offL, w1, _, _, _, _, hb, _, _, _, _, rfl⟩ := checkStmt_loop_inv h
    have := checkStmts_mono e body _ _ hb
    exact ⟨this.marks, this.gotos⟩
  | .while_ x body pos, w, w', h => by
    obtain ⟨rx, tmp, offE, offL, w1, _, _, _, _, hb, _, _, _, rfl⟩ := checkStmt_while_inv h
    have := checkStmts_mono e body _ _ hb
    exact ⟨this.marks, this.gotos⟩
  | .goto m pos, w, w', h => by
    obtain ⟨off, _, rfl⟩ := checkStmt_goto_inv h
    exact ⟨fun _ h => h, fun _ h => List.mem_append_left _ h⟩
  | .ifGoto x cst m pos, w, w', h => by
    obtain ⟨rx, t1, t2, t0, off, _, _, _, _, _, _, _, _, _, _, rfl⟩ := checkStmt_ifGoto_inv h
    exact ⟨fun _ h => h, fun _ h => List.mem_append_left _ h⟩
  | .stop pos, w, w', h => by
    obtain ⟨_, rfl⟩ := checkStmt_stop_inv h
    exact ⟨fun _ h => h, fun _ h => h⟩
theorem checkStmts_mono (e : VEnv) : ∀ (ss : Stmts) (w w' : Walk), checkStmts e ss w = some w' → Sub w w'
  | .nil, w, w', h => by rw [checkStmts_nil_inv h]; exact Sub.refl _
  | .cons s ss, w, w', h => by
    obtain ⟨w1, h1, h2⟩ := checkStmts_cons_inv h
    exact (checkStmt_mono e s _ _ h1).trans (checkStmts_mono e ss _ _ h2)
end

/-! ### from the walk to the position relation -/

mutual
theorem checkStmt_sat (e : VEnv) (G : Walk) : ∀ (s : Stmt) (w w' : Walk),
    checkStmt e s w = some w' → Sub w' G → SAt1 e G s w.pc w'.pc
  | .assign x v pos, w, w', h, _ => by
    obtain ⟨rx, pc1, h1, h2, rfl⟩ := checkStmt_assign_inv h
    simp only [SAt1]
    exact ⟨rx, h2, h1⟩
  | .mark m pos, w, w', h, _ => by
    rw [checkStmt_mark_inv h]
    simp only [SAt1]
  | .loop id x body pos, w, w', h, hs => by
    obtain ⟨ctr, rx, offE, offL, w1, h1, h2, h3, h4, hb, h5, h6, h7, h8, rfl⟩ := checkStmt_loop_inv h
    simp only [SAt1]
    exact ⟨ctr, rx, offE, offL, w1.pc, h1, h2, h3, h4,
      checkStmts_sat e G body _ _ hb ⟨hs.marks, hs.gotos⟩, h5, h6, h7, h8, rfl⟩
  | .while_ x body pos, w, w', h, hs => by
    obtain ⟨rx, tmp, offE, offL, w1, h1, h2, h3, h4, hb, h5, h6, h7, rfl⟩ := checkStmt_while_inv h
    simp only [SAt1]
    exact ⟨rx, tmp, offE, offL, w1.pc, h1, h2, h3, h4,
      checkStmts_sat e G body _ _ hb ⟨hs.marks, hs.gotos⟩, h5, h6, h7, rfl⟩
  | .goto m pos, w, w', h, hs => by
    obtain ⟨off, h1, rfl⟩ := checkStmt_goto_inv h
    simp only [SAt1]
    exact ⟨off, h1, hs.gotos _ (List.mem_append_right _ (List.mem_singleton.2 rfl)), trivial⟩
  | .ifGoto x cst m pos, w, w', h, hs => by
    obtain ⟨rx, t1, t2, t0, off, g1, g2, g3, g4, g5, g6, g7, g8, g9, g10, rfl⟩ :=
      checkStmt_ifGoto_inv h
    simp only [SAt1]
    exact ⟨rx, t1, t2, t0, off, g1, g2, g3, g4, g5, g6, g7, g8, g9, g10,
      hs.gotos _ (List.mem_append_right _ (List.mem_singleton.2 rfl)), trivial⟩
  | .stop pos, w, w', h, _ => by
    obtain ⟨h1, rfl⟩ := checkStmt_stop_inv h
    simp only [SAt1]
    exact ⟨h1, trivial⟩
theorem checkStmts_sat (e : VEnv) (G : Walk) : ∀ (ss : Stmts) (w w' : Walk),
    checkStmts e ss w = some w' → Sub w' G → SAt e G ss w.pc w'.pc
  | .nil, w, w', h, _ => by rw [checkStmts_nil_inv h]; simp only [SAt]
  | .cons s ss, w, w', h, hs => by
    obtain ⟨w1, h1, h2⟩ := checkStmts_cons_inv h
    simp only [SAt]
    exact ⟨w1.pc, checkStmt_sat e G s _ _ h1 ((checkStmts_mono e ss _ _ h2).trans hs),
      checkStmts_sat e G ss _ _ h2 hs⟩
end

/-! ### jump resolution -/

mutual
theorem findLabelStmt_spec (e : VEnv) (G : Walk) (m : Name) : ∀ (s : Stmt) (rest : Stmts) (K : Kont)
    (w w1 w' : Walk) (pcEnd : Nat),
    checkStmt e s w = some w1 → checkStmts e rest w1 = some w' → Sub w' G → KAt e G K w'.pc pcEnd →
    (∀ ss' K', findLabelStmt m s rest K = some (ss', K') →
      ∃ pm pcE, (m, pm) ∈ w1.marks ∧ SAt e G ss' pm pcE ∧ KAt e G K' pcE pcEnd) ∧
    (findLabelStmt m s rest K = none → ∀ pm, (m, pm) ∈ w1.marks → (m, pm) ∈ w.marks)
  | .assign x v pos, rest, K, w, w1, w', pcEnd, h1, _, _, _ => by
    obtain ⟨rx, pc1, _, _, rfl⟩ := checkStmt_assign_inv h1
    simp only [findLabelStmt]
    exact ⟨fun _ _ h => (nomatch h), fun _ _ h => h⟩
  | .mark m' pos, rest, K, w, w1, w', pcEnd, h1, h2, hs, hk => by
    have hw1 := checkStmt_mark_inv h1
    subst hw1
    simp only [findLabelStmt]
    by_cases hm : m' = m
    · subst hm
      rw [if_pos rfl]
      refine ⟨fun ss' K' h => ?_, fun h => (nomatch h)⟩
      cases h
      refine ⟨w.pc, w'.pc, List.mem_append_right _ (List.mem_singleton.2 rfl), ?_, hk⟩
      have hr := checkStmts_sat e G rest _ _ h2 hs
      simp only [SAt, SAt1]
      exact ⟨w.pc, rfl, hr⟩
    · rw [if_neg hm]
      refine ⟨fun _ _ h => (nomatch h), fun _ pm h => ?_⟩
      rcases List.mem_append.1 h with h | h
      · exact h
      · rw [List.mem_singleton] at h
        cases h
        exact absurd rfl hm
  | .loop id x body pos, rest, K, w, w1, w', pcEnd, h1, h2, hs, hk => by
    obtain ⟨ctr, rx, offE, offL, wb, g1, g2, g3, g4, hb, g5, g6, g7, g8, rfl⟩ := checkStmt_loop_inv h1
    have hsub0 := (checkStmts_mono e rest _ _ h2).trans hs
    have hsub1 : Sub wb G := ⟨hsub0.marks, hsub0.gotos⟩
    have hk' : KAt e G (.loop id body rest K) wb.pc pcEnd := by
      simp only [KAt]
      exact ⟨ctr, offE, offL, e.next w.pc, w'.pc, g1, g4, checkStmts_sat e G body _ _ hb hsub1, g5, g6,
        g7, g8, checkStmts_sat e G rest _ _ h2 hs, hk⟩
    have ih := findLabel_spec e G m body (.loop id body rest K) _ wb pcEnd hb hsub1 hk'
    simp only [findLabelStmt]
    exact ih
  | .while_ x body pos, rest, K, w, w1, w', pcEnd, h1, h2, hs, hk => by
    obtain ⟨rx, tmp, offE, offL, wb, g1, g2, g3, g4, hb, g5, g6, g7, rfl⟩ := checkStmt_while_inv h1
    have hsub0 := (checkStmts_mono e rest _ _ h2).trans hs
    have hsub1 : Sub wb G := ⟨hsub0.marks, hsub0.gotos⟩
    have hk' : KAt e G (.while_ x body rest K) wb.pc pcEnd := by
      simp only [KAt]
      exact ⟨rx, tmp, offE, offL, w.pc, w'.pc, g1, g2, g3, g4, checkStmts_sat e G body _ _ hb hsub1, g5,
        g6, g7, checkStmts_sat e G rest _ _ h2 hs, hk⟩
    have ih := findLabel_spec e G m body (.while_ x body rest K) _ wb pcEnd hb hsub1 hk'
    simp only [findLabelStmt]
    exact ih
  | .goto m' pos, rest, K, w, w1, w', pcEnd, h1, _, _, _ => by
    obtain ⟨off, _, rfl⟩ := checkStmt_goto_inv h1
    simp only [findLabelStmt]
    exact ⟨fun _ _ h => (nomatch h), fun _ _ h => h⟩
  | .ifGoto x cst m' pos, rest, K, w, w1, w', pcEnd, h1, _, _, _ => by
    obtain ⟨rx, t1, t2, t0, off, _, _, _, _, _, _, _, _, _, _, rfl⟩ := checkStmt_ifGoto_inv h1
    simp only [findLabelStmt]
    exact ⟨fun _ _ h => (nomatch h), fun _ _ h => h⟩
  | .stop pos, rest, K, w, w1, w', pcEnd, h1, _, _, _ => by
    obtain ⟨_, rfl⟩ := checkStmt_stop_inv h1
    simp only [findLabelStmt]
    exact ⟨fun _ _ h => (nomatch h), fun _ _ h => h⟩
theorem findLabel_spec (e : VEnv) (G : Walk) (m : Name) : ∀ (ss : Stmts) (K : Kont) (w w' : Walk)
    (pcEnd : Nat),
    checkStmts e ss w = some w' → Sub w' G → KAt e G K w'.pc pcEnd →
    (∀ ss' K', findLabel m ss K = some (ss', K') →
      ∃ pm pcE, (m, pm) ∈ w'.marks ∧ SAt e G ss' pm pcE ∧ KAt e G K' pcE pcEnd) ∧
    (findLabel m ss K = none → ∀ pm, (m, pm) ∈ w'.marks → (m, pm) ∈ w.marks)
  | .nil, K, w, w', pcEnd, h, _, _ => by
    rw [checkStmts_nil_inv h]
    simp only [findLabel]
    exact ⟨fun _ _ h => (nomatch h), fun _ _ h => h⟩
  | .cons s rest, K, w, w', pcEnd, h, hs, hk => by
    obtain ⟨w1, h1, h2⟩ := checkStmts_cons_inv h
    have ih1 := findLabelStmt_spec e G m s rest K w w1 w' pcEnd h1 h2 hs hk
    have ih2 := findLabel_spec e G m rest K w1 w' pcEnd h2 hs hk
    have hm := checkStmts_mono e rest _ _ h2
    simp only [findLabel]
    cases hf : findLabelStmt m s rest K with
    | some r =>
      simp only []
      refine ⟨fun ss' K' h => ?_, fun h => (nomatch h)⟩
      cases h
      obtain ⟨pm, pcE, g1, g2, g3⟩ := ih1.1 _ _ hf
      exact ⟨pm, pcE, hm.marks _ g1, g2, g3⟩
    | none =>
      simp only []
      exact ⟨ih2.1, fun h pm hp => ih1.2 hf pm (ih2.2 h pm hp)⟩
end

/-- every recorded jump has a target in the source, and lands where that target's code starts -/
theorem goto_resolve {e : VEnv} {G : Walk} {body : Stmts} {start : Nat}
    (hchk : checkStmts e body ⟨start, [], []⟩ = some G) (hres : resolveOK e.code G = true)
    {pos : Nat} {off : Int} {m : Name} (hg : (pos, off, m) ∈ G.gotos) :
    ∃ ss' K' pm pcE, findLabel m body .done = some (ss', K') ∧ Anch e.code ((pos : Int) + off) pm ∧
      SAt e G ss' pm pcE ∧ KAt e G K' pcE G.pc := by
  have hr := List.all_eq_true.1 hres _ hg
  simp only at hr
  split at hr
  · rename_i mk hfil
    rw [sameAnchor_iff] at hr
    have hmk : ∀ pm, (m, pm) ∈ G.marks → (m, pm) = mk := by
      intro pm hp
      have : (m, pm) ∈ G.marks.filter (fun mm => mm.1 = m) := by
        rw [List.mem_filter]; exact ⟨hp, by simp⟩
      rw [hfil, List.mem_singleton] at this
      exact this
    have hk : KAt e G .done G.pc G.pc := by simp only [KAt]
    have sp := findLabel_spec e G m body .done _ G G.pc hchk (Sub.refl G) hk
    cases hf : findLabel m body .done with
    | none =>
      have hmem : mk ∈ G.marks.filter (fun mm => mm.1 = m) := by rw [hfil]; exact List.mem_singleton.2 rfl
      rw [List.mem_filter] at hmem
      have h1 : mk.1 = m := by simpa using hmem.2
      have := sp.2 hf mk.2 (by rw [← h1]; exact hmem.1)
      cases this
    | some r =>
      obtain ⟨ss', K'⟩ := r
      obtain ⟨pm, pcE, g1, g2, g3⟩ := sp.1 _ _ hf
      have := hmk pm g1
      subst this
      exact ⟨ss', K', pm, pcE, rfl, hr, g2, g3⟩
  · cases hr
