/-
  C03 for the generator, helpers: counting RET instructions before a position (`countRet`, equal
  to `retsBefore` of the checker), slices of the code, and `prepBefore` under position-wise
  kind-preserving changes of the code (backpatching).
-/
import Theo.Proofs.GenWFGroups

namespace Theo
namespace GenWF

/-! ### slices -/

def slice (code : List Instr) (a b : Nat) : List Instr := (code.drop a).take (b - a)

theorem slice_getElem? (code : List Instr) (a b i : Nat) :
    (slice code a b)[i]? = if i < b - a then code[a + i]? else none := by
  unfold slice
  rw [List.getElem?_take, List.getElem?_drop]

theorem slice_length (code : List Instr) (a b : Nat) (h : b ≤ code.length) : (slice code a b).length = b - a := by
  unfold slice
  simp
  omega

theorem slice_congr {c c' : List Instr} {a b : Nat} (h : ∀ pc, a ≤ pc → pc < b → c'[pc]? = c[pc]?) :
    slice c' a b = slice c a b := by
  apply List.ext_getElem?
  intro i
  rw [slice_getElem?, slice_getElem?]
  split
  · exact h _ (by omega) (by omega)
  · rfl

theorem slice_decomp (code : List Instr) (a b : Nat) (hab : a ≤ b) :
    code = code.take a ++ slice code a b ++ code.drop b := by
  unfold slice
  have h1 : code.drop b = (code.drop a).drop (b - a) := by
    rw [List.drop_drop]; congr 1; omega
  rw [h1, List.append_assoc, List.take_append_drop, List.take_append_drop]

theorem slice_append_left (c s : List Instr) : slice (c ++ s) c.length (c.length + s.length) = s := by
  unfold slice
  simp

/-! ### counting RETs -/

def countRet (code : List Instr) (n : Nat) : Nat := ((code.take n).filter isRet).length

theorem countRet_succ (c : List Instr) (n : Nat) :
    countRet c (n + 1) = countRet c n + (if (c[n]?).map isRet = some true then 1 else 0) := by
  unfold countRet
  rw [List.take_add_one, List.filter_append, List.length_append]
  congr 1
  cases h : c[n]? with
  | none => simp
  | some i =>
    cases hi : isRet i <;> simp [hi]

theorem countRet_congr {c c' : List Instr} : ∀ {n : Nat},
    (∀ i, i < n → (c'[i]?).map isRet = (c[i]?).map isRet) → countRet c' n = countRet c n := by
  intro n
  induction n with
  | zero => intro _; simp [countRet]
  | succ n ih =>
    intro h
    rw [countRet_succ, countRet_succ, ih (fun i hi => h i (by omega)), h n (by omega)]

theorem countRet_append_le (c s : List Instr) (n : Nat) (h : n ≤ c.length) : countRet (c ++ s) n = countRet c n := by
  unfold countRet
  rw [List.take_append_of_le_length h]

theorem countRet_full_append (c s : List Instr) :
    countRet (c ++ s) (c ++ s).length = countRet c c.length + (s.filter isRet).length := by
  unfold countRet
  rw [List.take_of_length_le (Nat.le_refl _), List.take_of_length_le (Nat.le_refl _), List.filter_append,
    List.length_append]

theorem countRet_full (c : List Instr) (n : Nat) (h : c.length ≤ n) : countRet c n = countRet c c.length := by
  unfold countRet
  rw [List.take_of_length_le h, List.take_of_length_le (Nat.le_refl _)]

theorem filter_isRet_eq_nil {s : List Instr} (h : ∀ i ∈ s, isRet i = false) : s.filter isRet = [] := by
  rw [List.filter_eq_nil_iff]
  intro a ha
  rw [h a ha]
  simp

theorem retsBefore_aux (e : Nat) (q : Instr × Nat → Bool)
    (hq : ∀ x, q x = (isRet x.1 && decide ((x.2 : Int) < (e : Int)))) (l : List Instr) : ∀ (k : Nat),
    ((l.zipIdx k).filter q).length = ((l.take (e - k)).filter isRet).length := by
  induction l with
  | nil => intro k; simp
  | cons i l ih =>
    intro k
    rw [List.zipIdx_cons, List.filter_cons, hq]
    by_cases hk : k < e
    · have he : e - k = (e - (k + 1)) + 1 := by omega
      rw [he, List.take_succ_cons, List.filter_cons]
      have hd : decide ((k : Int) < (e : Int)) = true := by simp; omega
      simp only [hd, Bool.and_true]
      split
      · simp only [List.length_cons]; rw [ih]
      · rw [ih]
    · have he : e - k = 0 := by omega
      rw [he, List.take_zero]
      have hd : decide ((k : Int) < (e : Int)) = false := by simp; omega
      simp only [hd, Bool.and_false, Bool.false_eq_true, if_false]
      rw [ih]
      have : e - (k + 1) = 0 := by omega
      rw [this]; simp

theorem retsBefore_eq (code : List Instr) (n : Nat) : retsBefore code (n : Int) = countRet code n := by
  unfold retsBefore countRet
  refine retsBefore_aux n _ ?_ code 0
  intro x
  rcases x with ⟨i, k⟩
  cases i <;> rfl

/-! ### `prepBefore`, `Plain`, `Inside` under position-wise changes that keep PREPARE / ARG -/

/-- `i'` is `i` up to the offset of a jump -/
def SameKind (i i' : Instr) : Prop :=
  i' = i ∨ (∃ a b, i = .jmp a ∧ i' = .jmp b) ∨ (∃ a b s, i = .jmpc a s ∧ i' = .jmpc b s)

theorem SameKind.notAE {i i' : Instr} (h : SameKind i i') : notAE i' = notAE i := by
  rcases h with rfl | ⟨a, b, rfl, rfl⟩ | ⟨a, b, s, rfl, rfl⟩ <;> rfl

theorem SameKind.isRet {i i' : Instr} (h : SameKind i i') : isRet i' = isRet i := by
  rcases h with rfl | ⟨a, b, rfl, rfl⟩ | ⟨a, b, s, rfl, rfl⟩ <;> rfl

/-- `c'` is `c` up to jump offsets -/
@[reducible] def SameCode (c c' : List Instr) : Prop :=
  ∀ pc : Nat, (c[pc]? = none ∧ c'[pc]? = none) ∨ ∃ i i', c[pc]? = some i ∧ c'[pc]? = some i' ∧ SameKind i i'

theorem SameCode.prepBefore {c c' : List Instr} (h : SameCode c c') : ∀ pc, prepBefore c' pc = prepBefore c pc := by
  intro pc
  induction pc with
  | zero => rfl
  | succ pc ih =>
    rw [prepBefore_succ, prepBefore_succ]
    rcases h pc with ⟨h1, h2⟩ | ⟨i, i', h1, h2, hk⟩
    · rw [h1, h2]
    · rw [h1, h2]
      rcases hk with rfl | ⟨a, b, rfl, rfl⟩ | ⟨a, b, s, rfl, rfl⟩
      · cases i' <;> simp only [] <;> exact ih
      · rfl
      · rfl

theorem SameCode.plain {c c' : List Instr} (h : SameCode c c') {x : Nat} (hp : Plain c x) : Plain c' x := by
  intro i' hi'
  rcases h x with ⟨_, h2⟩ | ⟨i, j, h1, h2, hk⟩
  · rw [h2] at hi'; cases hi'
  · rw [h2] at hi'
    have := Option.some.inj hi'
    subst this
    rw [hk.notAE]; exact hp i h1

theorem SameCode.inside {c c' : List Instr} (h : SameCode c c') {x : Nat} (hp : Inside c x) : Inside c' x := by
  obtain ⟨i, hi, hn⟩ := hp
  rcases h x with ⟨h1, _⟩ | ⟨i0, j, h1, h2, hk⟩
  · rw [h1] at hi; cases hi
  · rw [h1] at hi
    have := Option.some.inj hi
    subst this
    exact ⟨j, h2, by rw [hk.notAE]; exact hn⟩

theorem SameCode.length {c c' : List Instr} (h : SameCode c c') : c'.length = c.length := by
  apply Nat.le_antisymm
  · apply Nat.le_of_not_lt
    intro hlt
    rcases h c.length with ⟨_, h2⟩ | ⟨i, _, h1, _, _⟩
    · have := List.getElem?_eq_none_iff.1 h2; omega
    · have := (List.getElem?_eq_some_iff.1 h1).1; omega
  · apply Nat.le_of_not_lt
    intro hlt
    rcases h c'.length with ⟨h1, _⟩ | ⟨_, i', _, h2, _⟩
    · have := List.getElem?_eq_none_iff.1 h1; omega
    · have := (List.getElem?_eq_some_iff.1 h2).1; omega

theorem SameCode.countRet {c c' : List Instr} (h : SameCode c c') (n : Nat) : countRet c' n = countRet c n := by
  apply countRet_congr
  intro i _
  rcases h i with ⟨h1, h2⟩ | ⟨a, b, h1, h2, hk⟩
  · rw [h1, h2]
  · rw [h1, h2]; simp [hk.isRet]

end GenWF
end Theo
