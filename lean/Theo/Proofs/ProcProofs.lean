/-
  Process-level model for C18: a process is a collection of VM instances and nothing else.
-/
import Theo.Model.Gen
import Theo.Model.VM

namespace Theo

/-- deterministic debugger calls (execute with explicit fuel) -/
inductive DCall where
  | single | exec (fuel : Nat)
  | bp (b : BreakPoint) (v : Bool)
  | clear
  | stepping (b : Bool)
  | reset

/-- one call on one instance: new state and the returned value (or the fault) -/
def applyD (p : Program) (vm : VM) : DCall → Except Fault (VM × Int)
  | .single => (step vm).map (fun r => (r.1, if r.2 then 1 else 0))
  | .exec fuel => (execFuel fuel vm).map (fun r => match r with | some v => (v, 1) | none => (vm, -1))
  | .bp b v => (vm.setBreakPoint p b v).map (fun r => (r.1, if r.2 then 1 else 0))
  | .clear => (vm.clearBreakpoints p).map (fun v => (v, 0))
  | .stepping b => .ok (vm.setStepping b, 0)
  | .reset => (vm.reset p).map (fun v => (v, 0))

/-- the whole state of a process: its VM instances, each with the program it was constructed from -/
abbrev Proc := List (Nat × Program × VM)

def Proc.lookup (s : Proc) (i : Nat) : Option (Program × VM) := (s.find? (fun e => e.1 = i)).map (·.2)

def Proc.set (s : Proc) (i : Nat) (v : Program × VM) : Proc := (i, v) :: s.filter (fun e => e.1 ≠ i)

inductive POp where
  | compile (files : Files) (main : Bytes)
  | new (i : Nat) (p : Program)
  | call (i : Nat) (c : DCall)

def POp.instance? : POp → Option Nat
  | .compile _ _ => none
  | .new i _ => some i
  | .call i _ => some i

inductive PResp where
  | compiled (r : CodegenResult)
  | created
  | called (r : Int)
  | faulted (f : Fault)
  | noSuchInstance

def procStep (s : Proc) : POp → Proc × PResp
  | .compile files main => (s, .compiled (compile files main))
  | .new i p => (s.set i (p, VM.mk' p), .created)
  | .call i c =>
    match s.lookup i with
    | none => (s, .noSuchInstance)
    | some (p, vm) =>
      match applyD p vm c with
      | .ok (vm', r) => (s.set i (p, vm'), .called r)
      | .error f => (s, .faulted f)

def procRun (s : Proc) : List POp → Proc × List PResp
  | [] => (s, [])
  | op :: ops =>
    let (s1, r) := procStep s op
    let (s2, rs) := procRun s1 ops
    (s2, r :: rs)

/-! ### lemmas for C18 -/

theorem Proc.find_filter_ne (s : Proc) (i j : Nat) (hne : j ≠ i) :
    (s.filter (fun e => e.1 ≠ i)).find? (fun e => e.1 = j) = s.find? (fun e => e.1 = j) := by
  rw [List.find?_filter]
  congr 1
  funext e
  by_cases hj : e.1 = j
  · simp [hj, hne]
  · simp [hj]

theorem Proc.lookup_set_ne (s : Proc) (i j : Nat) (v : Program × VM) (hne : j ≠ i) :
    (s.set i v).lookup j = s.lookup j := by
  have hij : ¬ i = j := fun h => hne h.symm
  simp only [Proc.lookup, Proc.set, List.find?_cons, hij, decide_false]
  rw [Proc.find_filter_ne s i j hne]

theorem Proc.lookup_set_self (s : Proc) (i : Nat) (v : Program × VM) :
    (s.set i v).lookup i = some v := by
  simp [Proc.lookup, Proc.set]

theorem procStep_lookup_ne (s : Proc) (op : POp) (i j : Nat) (h : op.instance? = some i) (hne : j ≠ i) :
    (procStep s op).1.lookup j = s.lookup j := by
  cases op with
  | compile files main => simp [POp.instance?] at h
  | new k p =>
    simp [POp.instance?] at h; subst h
    exact Proc.lookup_set_ne s k j _ hne
  | call k c =>
    simp [POp.instance?] at h; subst h
    simp only [procStep]
    split
    · rfl
    · split
      · exact Proc.lookup_set_ne s k j _ hne
      · rfl

/-- an operation that is not on instance `i` does not change instance `i` -/
theorem procStep_lookup_other (s : Proc) (op : POp) (i : Nat) (h : op.instance? ≠ some i) :
    (procStep s op).1.lookup i = s.lookup i := by
  cases op with
  | compile files main => rfl
  | new k p =>
    have : i ≠ k := fun e => h (by simp [POp.instance?, e])
    exact procStep_lookup_ne s _ k i rfl this
  | call k c =>
    have : i ≠ k := fun e => h (by simp [POp.instance?, e])
    exact procStep_lookup_ne s _ k i rfl this

/-- the response of an operation on `i` and the new state of `i` depend only on the state of `i` -/
theorem procStep_local (s s' : Proc) (op : POp) (i : Nat) (h : op.instance? = some i)
    (hs : s.lookup i = s'.lookup i) :
    (procStep s op).1.lookup i = (procStep s' op).1.lookup i ∧ (procStep s op).2 = (procStep s' op).2 := by
  cases op with
  | compile files main => simp [POp.instance?] at h
  | new k p =>
    simp [POp.instance?] at h; subst h
    simp [procStep, Proc.lookup_set_self]
  | call k c =>
    simp [POp.instance?] at h; subst h
    simp only [procStep, ← hs]
    cases hl : s.lookup k with
    | none => simp [hl] at hs ⊢; exact hs
    | some pv =>
      obtain ⟨p, vm⟩ := pv
      simp only
      cases ha : applyD p vm c with
      | error f => simp [hl] at hs ⊢; exact hs
      | ok r =>
        obtain ⟨vm', r⟩ := r
        simp [Proc.lookup_set_self]

theorem procRun_noninterference (ops : List POp) (i : Nat) (s s' : Proc) (hs : s.lookup i = s'.lookup i) :
    (procRun s ops).1.lookup i = (procRun s' (ops.filter (fun o => o.instance? = some i))).1.lookup i ∧
    ((ops.zip (procRun s ops).2).filter (fun x => x.1.instance? = some i)).map (·.2) =
      (procRun s' (ops.filter (fun o => o.instance? = some i))).2 := by
  induction ops generalizing s s' with
  | nil => simp [procRun, hs]
  | cons op ops ih =>
    by_cases h : op.instance? = some i
    · obtain ⟨h1, h2⟩ := procStep_local s s' op i h hs
      obtain ⟨ih1, ih2⟩ := ih _ _ h1
      simp only [List.filter_cons, h, decide_true, if_true, procRun, List.zip_cons_cons, List.map_cons]
      exact ⟨ih1, by rw [h2, ih2]⟩
    · have h1 : (procStep s op).1.lookup i = s'.lookup i := by
        rw [procStep_lookup_other s op i h, hs]
      obtain ⟨ih1, ih2⟩ := ih _ _ h1
      simp only [List.filter_cons, h, decide_false, procRun, List.zip_cons_cons]
      exact ⟨ih1, ih2⟩

end Theo
