/-
  "No conflict ⇒ LR(1) in Knuth's sense", part 3: the argument.
  Given S' ⇒*rm αAw ⇒ αβw and S' ⇒*rm γBx ⇒ γρx = αβy with agreeing lookaheads, the state of
  the viable prefix αβ contains `[A → β ., la(w)]`; comparing where γρ ends with where αβ ends,
  the same state (or the state of γρ) contains a second decision for the same column: a shift
  of the next terminal or another complete item.  Conflict-free tables hold every action
  (`RowComplete`), so the two decisions are the same reduction: A = B, the same rule, hence
  α = γ and x = y.
-/
import Theo.Proofs.LRIffItems

namespace Theo
namespace LRIff
open LRSound LRComplete FirstProofs LRConverse

/-! ## lookaheads and columns -/

theorem acts_of_compat_cons (pm : Bool) (eof : Nat) (w : List Nat) (c : Nat) (y' : List Nat)
    (h : LACompat pm eof w (c :: y')) (A k d : Nat) :
    ActsOn pm eof ⟨A, k, d, .t (laOf eof w)⟩ c := by
  simp only [ActsOn, Sym.index]
  cases pm with
  | true =>
    simp only [LACompat, if_true] at h
    rcases h with h | h | h
    · subst h; exact Or.inr ⟨rfl, rfl⟩
    · cases h
    · cases w with
      | nil => exact Or.inr ⟨rfl, rfl⟩
      | cons a w' =>
        simp only [List.head?_cons, Option.some.injEq] at h
        exact Or.inl (by simp [laOf, h])
  | false =>
    simp only [LACompat, Bool.false_eq_true, if_false, head_append_eof, Option.some.injEq] at h
    exact Or.inl (by simpa [laOf] using h)

theorem acts_self (pm : Bool) (eof : Nat) (w : List Nat) (A k d : Nat) :
    ActsOn pm eof ⟨A, k, d, .t (laOf eof w)⟩ (laOf eof w) := Or.inl rfl

/-- agreeing lookaheads: a column both complete items act on, namely one of the two lookaheads -/
theorem common_col (pm : Bool) (eof : Nat) (w x : List Nat) (h : LACompat pm eof w x)
    (A k d B k' d' : Nat) :
    ∃ c, (c = laOf eof w ∨ c = laOf eof x) ∧ ActsOn pm eof ⟨A, k, d, .t (laOf eof w)⟩ c ∧
      ActsOn pm eof ⟨B, k', d', .t (laOf eof x)⟩ c := by
  cases pm with
  | false =>
    simp only [LACompat, Bool.false_eq_true, if_false, head_append_eof, Option.some.injEq] at h
    exact ⟨laOf eof w, Or.inl rfl, Or.inl rfl, Or.inl (by simp [Sym.index, h])⟩
  | true =>
    simp only [LACompat, if_true] at h
    cases w with
    | nil => exact ⟨laOf eof x, Or.inr rfl, Or.inr ⟨rfl, rfl⟩, Or.inl rfl⟩
    | cons a w' =>
      cases x with
      | nil => exact ⟨laOf eof (a :: w'), Or.inl rfl, Or.inl rfl, Or.inr ⟨rfl, rfl⟩⟩
      | cons b x' =>
        rcases h with h | h | h
        · cases h
        · cases h
        · simp only [List.head?_cons, Option.some.injEq] at h
          subst h
          exact ⟨a, Or.inl rfl, Or.inl rfl, Or.inl rfl⟩

section Run
variable {g : Grammar} {start eof : Nat} {pm : Bool} {S : List LRState} {T : Tables}

/-- conflict-free tables: the cell of a column a complete item acts on holds the item's action -/
theorem cell_complete {st : LRState} {row : List Action} {grow : List Int} {it : Item} {c : Nat}
    (hok : StOK g start eof st.items)
    (hrc : RowComplete (g.augment start eof) pm eof ((g.augment start eof).maxTerminal + 1) st row grow)
    (hit : it ∈ st.items) (hd : it.dot = ((g.augment start eof).rhs it).length)
    (hc : c < (g.augment start eof).maxTerminal + 1) (ha : ActsOn pm eof it c) :
    cell row c = actOf (g.augment start eof) it := by
  by_cases hl : it.left = (g.augment start eof).numNT - 2
  · obtain ⟨l1, l2, hsplit⟩ := List.append_of_mem hit
    have hl2 : ∀ y ∈ l2, y.left = (g.augment start eof).numNT - 2 := by
      intro y hy
      have hsorted := hok.sorted
      rw [hsplit] at hsorted
      simp only [LeftSorted, List.pairwise_append, List.pairwise_cons] at hsorted
      have h1 : it.left ≤ y.left := hsorted.2.1.1 y hy
      have h2 := (hok.good y (by rw [hsplit]; simp [hy])).left_ok
      rw [augment_numNT] at hl ⊢
      omega
    rw [hrc.accept l1 it l2 hsplit hd hl hl2 c hc ha]
    simp [actOf, hl]
  · rw [hrc.reduce it hit hd hl c hc ha]
    simp [actOf, hl]

theorem follow_lt (C : Ctx g start eof pm S T) {q : Nat} {st : LRState} (hq : RS S q)
    (hst : S[q]? = some st) {it : Item} (hit : it ∈ st.items) {a : Nat} (hf : it.follow = .t a) :
    a < (g.augment start eof).maxTerminal + 1 := by
  obtain ⟨_, _, b, hb, hbt⟩ := (C.ok hq hst).inU it hit
  rw [hf] at hb
  cases hb
  have := le_maxTerminal _ a hbt
  omega

/-- conflict-free tables: no state has a shift of `c` and a complete item acting on `c` -/
theorem no_sr (C : Ctx g start eof pm S T) {q : Nat} {st : LRState} (hq : RS S q)
    (hst : S[q]? = some st) {it1 it2 : Item} (h1 : it1 ∈ st.items) (h2 : it2 ∈ st.items) {c : Nat}
    (ha : (g.augment start eof).afterDot it1 = .t c)
    (hd : it2.dot = ((g.augment start eof).rhs it2).length) (hacts : ActsOn pm eof it2 c) : False := by
  obtain ⟨row, grow, _, _, hrc, _, _⟩ := C.tab q st hst
  have hget := afterDot_some _ it1 (.t c) (by simp) ha
  have hcw := C.terminal_lt hq hst h1 (List.mem_of_getElem? hget)
  obtain ⟨j, hj⟩ := C.has_trans hst h1 (by simp) ha
  have hsh := hrc.shift c j hj hcw
  rw [cell_complete (C.ok hq hst) hrc h2 hd hcw hacts] at hsh
  unfold actOf at hsh
  split at hsh <;> simp [isShift] at hsh

/-- conflict-free tables: two complete items acting on one column are the same reduction -/
theorem rr_same (C : Ctx g start eof pm S T) {q : Nat} {st : LRState} (hq : RS S q)
    (hst : S[q]? = some st) {it1 it2 : Item} (h1 : it1 ∈ st.items) (h2 : it2 ∈ st.items) {c : Nat}
    (hd1 : it1.dot = ((g.augment start eof).rhs it1).length)
    (hd2 : it2.dot = ((g.augment start eof).rhs it2).length)
    (hc : c < (g.augment start eof).maxTerminal + 1)
    (ha1 : ActsOn pm eof it1 c) (ha2 : ActsOn pm eof it2 c) :
    it1.left = it2.left ∧ it1.alt = it2.alt := by
  obtain ⟨row, grow, _, _, hrc, _, _⟩ := C.tab q st hst
  have hok := C.ok hq hst
  have e1 := cell_complete hok hrc h1 hd1 hc ha1
  have e2 := cell_complete hok hrc h2 hd2 hc ha2
  rw [e1] at e2
  have hS : ∀ it ∈ st.items, it.left = (g.augment start eof).numNT - 2 → it.left = g.numNT ∧ it.alt = 0 := by
    intro it hit hl
    have hl' : it.left = g.numNT := by rw [hl, augment_numNT]; omega
    exact ⟨hl', (good_S g start eof C.hg (hok.good it hit) hl').1⟩
  unfold actOf at e2
  split at e2
  · rename_i hl1
    split at e2
    · rename_i hl2
      obtain ⟨a1, b1⟩ := hS it1 h1 hl1
      obtain ⟨a2, b2⟩ := hS it2 h2 hl2
      exact ⟨by rw [a1, a2], by rw [b1, b2]⟩
    · cases e2
  · split at e2
    · cases e2
    · simp only [Action.reduce.injEq] at e2
      exact ⟨e2.1, e2.2.1⟩

/-- the state of the viable prefix `αβ` holds the complete item of the handle -/
theorem handle_state (C : Ctx g start eof pm S T) {α : List Sym} {A : Nat} {w : List Nat}
    (sp : Spine (g.augment start eof) g.numNT α A w) {k : Nat} {β : List Sym}
    (hk : ((g.augment start eof).alts A)[k]? = some β) :
    Real S (pathItems g start eof (α ++ β)) ∧
      (⟨A, k, β.length, .t (laOf eof w)⟩ : Item) ∈ pathItems g start eof (α ++ β) := by
  obtain ⟨hr, hi⟩ := spine_items C sp
  have := walk C β [] [] _ A k (.t (laOf eof w)) (by rw [hk]; simp)
    (aug_no_eps g start eof C.hg A k β hk) hr (hi k β hk)
  rw [← pathItems_append] at this
  simpa using this

/-- a complete item acting on `c` excludes that the path continues with `c` -/
theorem no_continue (C : Ctx g start eof pm S T) {P : List Sym} (hr : Real S (pathItems g start eof P))
    {itR : Item} (hR : itR ∈ pathItems g start eof P)
    (hd : itR.dot = ((g.augment start eof).rhs itR).length) {c : Nat} (hacts : ActsOn pm eof itR c)
    {δ : List Sym} {it : Item} (hit : it ∈ pathItems g start eof (P ++ Sym.t c :: δ)) : False := by
  rw [pathItems_append] at hit
  obtain ⟨it0, h0, ha⟩ := path_through _ _ _ _ _ _ hit
  obtain ⟨q, st, hq, hst, hI⟩ := hr
  rw [← hI] at h0 hR
  exact no_sr C hq hst h0 hR ha hd hacts

theorem rhs_mk (A k d : Nat) (f : Sym) {μ : List Sym}
    (hk : ((g.augment start eof).alts A)[k]? = some μ) :
    (g.augment start eof).rhs ⟨A, k, d, f⟩ = μ := by
  simp [Grammar.rhs, hk]

/-- the handle of the second derivation ends at or after the end of `αβ` -/
theorem case_right (C : Ctx g start eof pm S T) {α β γ ρ : List Sym} {A kA B kB : Nat}
    {w x y : List Nat}
    (sp1 : Spine (g.augment start eof) g.numNT α A w)
    (hk1 : ((g.augment start eof).alts A)[kA]? = some β)
    (sp2 : Spine (g.augment start eof) g.numNT γ B x)
    (hk2 : ((g.augment start eof).alts B)[kB]? = some ρ)
    (τ : List Nat) (hQ : γ ++ ρ = (α ++ β) ++ tsyms τ) (hy : y = τ ++ x)
    (hcompat : LACompat pm eof w y) : α = γ ∧ A = B ∧ x = y := by
  obtain ⟨hrP, hitA⟩ := handle_state C sp1 hk1
  have hdA : (⟨A, kA, β.length, .t (laOf eof w)⟩ : Item).dot =
      ((g.augment start eof).rhs ⟨A, kA, β.length, .t (laOf eof w)⟩).length := by
    rw [rhs_mk A kA _ _ hk1]
  obtain ⟨hrγ, hiγ⟩ := spine_items C sp2
  -- the case where `αβ` ends inside (or at the end of) `ρ`
  have inside : ∀ ρ₁ : List Sym, α ++ β = γ ++ ρ₁ → ρ = ρ₁ ++ tsyms τ → α = γ ∧ A = B ∧ x = y := by
    intro ρ₁ hP hρ
    have hwB := walk C ρ₁ [] (tsyms τ) _ B kB (.t (laOf eof x)) (by rw [hk2, hρ]; simp)
      (fun s hs => aug_no_eps g start eof C.hg B kB ρ hk2 s (by rw [hρ]; simp [hs])) hrγ
      (hiγ kB ρ hk2)
    rw [← pathItems_append, ← hP] at hwB
    have hitB := hwB.2
    simp only [List.length_nil, Nat.zero_add] at hitB
    obtain ⟨q, st, hq, hst, hI⟩ := hrP
    rw [← hI] at hitA hitB
    cases τ with
    | nil =>
      simp only [tsyms_nil, List.append_nil] at hρ
      subst hρ
      have hdB : (⟨B, kB, ρ.length, .t (laOf eof x)⟩ : Item).dot =
          ((g.augment start eof).rhs ⟨B, kB, ρ.length, .t (laOf eof x)⟩).length := by
        rw [rhs_mk B kB _ _ hk2]
      simp only [List.nil_append] at hy
      rw [hy] at hcompat
      obtain ⟨c, hc, ha1, ha2⟩ := common_col pm eof w x hcompat A kA β.length B kB ρ.length
      have hcw : c < (g.augment start eof).maxTerminal + 1 := by
        rcases hc with rfl | rfl
        · exact follow_lt C hq hst hitA rfl
        · exact follow_lt C hq hst hitB rfl
      obtain ⟨e1, e2⟩ := rr_same C hq hst hitA hitB hdA hdB hcw ha1 ha2
      simp only at e1 e2
      subst e1 e2
      rw [hk1] at hk2
      cases hk2
      exact ⟨List.append_cancel_right hP, rfl, hy.symm⟩
    | cons c τ' =>
      exfalso
      have haB : (g.augment start eof).afterDot ⟨B, kB, ρ₁.length, .t (laOf eof x)⟩ = .t c := by
        apply afterDot_of_get
        rw [rhs_mk B kB _ _ hk2, hρ]
        exact getElem?_mid ρ₁ _ _
      have hacts : ActsOn pm eof ⟨A, kA, β.length, .t (laOf eof w)⟩ c := by
        apply acts_of_compat_cons pm eof w c (τ' ++ x)
        rw [hy] at hcompat
        exact hcompat
      exact no_sr C hq hst hitB hitA haB hdA hacts
  rcases List.append_eq_append_iff.mp hQ with ⟨ρ₁, hP, hρ⟩ | ⟨c', hγ, hτ⟩
  · exact inside ρ₁ hP hρ
  · obtain ⟨τ₁, τ₂, hτ12, hc', hρ'⟩ := List.map_eq_append_iff.mp hτ
    cases τ₁ with
    | nil =>
      simp only [List.map_nil] at hc'
      subst hc'
      simp only [List.nil_append] at hτ
      exact inside [] (by rw [hγ]; simp) (by rw [hτ]; simp)
    | cons c τ₁' =>
      exfalso
      have hacts : ActsOn pm eof ⟨A, kA, β.length, .t (laOf eof w)⟩ c := by
        apply acts_of_compat_cons pm eof w c (τ₁' ++ τ₂ ++ x)
        rw [hy, hτ12] at hcompat
        simpa [List.append_assoc] using hcompat
      have hit := hiγ kB ρ hk2
      rw [hγ, ← hc'] at hit
      exact no_continue C hrP hitA hdA hacts hit

/-- the handle of the second derivation ends strictly before the end of `αβ`: impossible -/
theorem case_left (C : Ctx g start eof pm S T) {α β γ ρ : List Sym} {A kA B kB : Nat}
    {w x : List Nat}
    (sp1 : Spine (g.augment start eof) g.numNT α A w)
    (hk1 : ((g.augment start eof).alts A)[kA]? = some β)
    (sp2 : Spine (g.augment start eof) g.numNT γ B x)
    (hk2 : ((g.augment start eof).alts B)[kB]? = some ρ)
    (c : Nat) (τ' x' : List Nat) (hP : α ++ β = (γ ++ ρ) ++ tsyms (c :: τ')) (hx : x = c :: x') :
    False := by
  obtain ⟨_, hitA⟩ := handle_state C sp1 hk1
  obtain ⟨hrQ, hitB⟩ := handle_state C sp2 hk2
  have hdB : (⟨B, kB, ρ.length, .t (laOf eof x)⟩ : Item).dot =
      ((g.augment start eof).rhs ⟨B, kB, ρ.length, .t (laOf eof x)⟩).length := by
    rw [rhs_mk B kB _ _ hk2]
  have hacts : ActsOn pm eof ⟨B, kB, ρ.length, .t (laOf eof x)⟩ c := by
    rw [hx]; exact Or.inl rfl
  rw [hP] at hitA
  exact no_continue C hrQ hitB hdB hacts hitA

end Run

/-- **No conflict ⇒ LR(1).**  If the canonical LR(1) construction reports no conflict and did not
    exhaust its state budget, the augmented grammar satisfies Knuth's LR(1) condition (with the
    lookahead reading of the chosen mode). -/
theorem no_conflict_lr1 (g : Grammar) (start eof : Nat) (pm : Bool) (sfuel : Nat)
    (hg : g.Closed) (hs : start < g.numNT)
    (hc : (genTables g start eof pm sfuel).1.conflicts = [])
    (hf : (genTables g start eof pm sfuel).2 < sfuel) :
    KnuthLR1 (g.augment start eof) g.numNT eof pm := by
  intro α β γ ρ A kA B kB w x y h1 hk1 h2 hk2 heq hcompat
  have C := ctx_of g start eof pm sfuel hg hs hc hf
  have sp1 := rd_spine (aug_no_eps g start eof hg) h1 α A w rfl
  have sp2 := rd_spine (aug_no_eps g start eof hg) h2 γ B x rfl
  rcases List.append_eq_append_iff.mp heq with ⟨a', hP, hxx⟩ | ⟨c', hQ, hyy⟩
  · -- αβ = γρ a'
    obtain ⟨τ, y', hxτ, ha', hy'⟩ := List.map_eq_append_iff.mp hxx
    have : y' = y := tsyms_inj _ _ hy'
    subst this
    cases τ with
    | nil =>
      simp only [List.map_nil] at ha'
      subst ha'
      simp only [List.nil_append] at hxτ
      exact case_right C sp1 hk1 sp2 hk2 [] (by rw [hP]; simp [tsyms]) (by simp [hxτ]) hcompat
    | cons c τ' =>
      exfalso
      exact case_left C sp1 hk1 sp2 hk2 c τ' (τ' ++ y') (by rw [hP, ← ha']; rfl) (by rw [hxτ]; rfl)
  · -- γρ = αβ c'
    obtain ⟨τ, x', hyτ, hc'', hx'⟩ := List.map_eq_append_iff.mp hyy
    have : x' = x := tsyms_inj _ _ hx'
    subst this
    exact case_right C sp1 hk1 sp2 hk2 τ (by rw [hQ, ← hc'']; rfl) hyτ hcompat

end LRIff
end Theo
