/-
  "No conflict ⇒ LR(1) in Knuth's sense", part 1: the structure of right sentential forms.
  A right sentential form `α A w` (A its last non-terminal) is described by a *spine*: a chain of
  rules `A₀ → ν₁ A₁ ν₂`, `A₁ → …` from `S'` down to `A`, where everything to the right of the
  chain has already been derived to terminals (by complete derivation trees).  Every right
  sentential form has a spine.
-/
import Theo.Proofs.LRConverseMain

namespace Theo
namespace LRIff
open LRSound LRComplete FirstProofs LRConverse

/-- `Spine G S' α A w`: the right sentential form `α A w` of `G` (start symbol `S'`), described by
    the chain of rules leading from `S'` to `A` -/
inductive Spine (G : Grammar) (S' : Nat) : List Sym → Nat → List Nat → Prop where
  | base : Spine G S' [] S' []
  | down {δ : List Sym} {A : Nat} {w : List Nat} {k : Nat} {ν₁ : List Sym} {B : Nat} {ν₂ : List Sym}
      {ts : List Tree} :
      Spine G S' δ A w → (G.alts A)[k]? = some (ν₁ ++ Sym.n B :: ν₂) →
      ts.map Tree.root = ν₂ → (∀ t ∈ ts, t.Valid G) →
      Spine G S' (δ ++ ν₁) B (yields ts ++ w)

/-! ## small facts -/

theorem roots_leaves (s : List Nat) : (s.map Tree.leaf).map Tree.root = tsyms s := by
  simp [tsyms, Tree.root, Function.comp_def]

theorem yields_leaves (s : List Nat) : yields (s.map Tree.leaf) = s := by
  induction s with
  | nil => rfl
  | cons a s ih =>
    simp only [yields, List.map_cons, List.flatten_cons, Tree.yield] at ih ⊢
    rw [ih]; rfl

theorem yields_append (a b : List Tree) : yields (a ++ b) = yields a ++ yields b := by
  simp [yields]

theorem yields_cons (t : Tree) (b : List Tree) : yields (t :: b) = t.yield ++ yields b := by
  simp [yields]

theorem valid_leaves (G : Grammar) (s : List Nat) : ∀ t ∈ s.map Tree.leaf, t.Valid G := by
  intro t ht
  obtain ⟨a, _, rfl⟩ := List.mem_map.mp ht
  trivial

/-- a string without ε is terminal, or splits at its last non-terminal -/
theorem nt_split : ∀ μ : List Sym, (∀ s ∈ μ, s ≠ .eps) →
    (∃ z, μ = tsyms z) ∨ ∃ (ν₁ : List Sym) (B : Nat) (z : List Nat), μ = ν₁ ++ Sym.n B :: tsyms z := by
  intro μ
  induction μ with
  | nil => intro _; exact Or.inl ⟨[], rfl⟩
  | cons s μ ih =>
    intro h
    rcases ih (fun s' hs' => h s' (by simp [hs'])) with ⟨z, hz⟩ | ⟨ν₁, B, z, hz⟩
    · cases s with
      | eps => exact absurd rfl (h .eps (by simp))
      | t a => exact Or.inl ⟨a :: z, by rw [hz]; rfl⟩
      | n B => exact Or.inr ⟨[], B, z, by rw [hz]; rfl⟩
    · exact Or.inr ⟨s :: ν₁, B, z, by rw [hz]; rfl⟩

theorem singleton_split {s : Sym} {α : List Sym} {A : Nat} {w : List Nat}
    (h : [s] = α ++ Sym.n A :: tsyms w) : α = [] ∧ s = .n A ∧ w = [] := by
  cases α with
  | nil =>
    simp only [List.nil_append, List.cons.injEq] at h
    refine ⟨rfl, h.1, ?_⟩
    cases w with
    | nil => rfl
    | cons x w => simp [tsyms] at h
  | cons s' α =>
    have := congrArg List.length h
    simp at this

section Spines
variable {G : Grammar} {S' : Nat}
  (hne : ∀ (A k : Nat) (μ : List Sym), (G.alts A)[k]? = some μ → ∀ s ∈ μ, s ≠ .eps)
include hne

/-- folding a completed subtree into the spine: the next non-terminal further left -/
theorem spine_fold {α : List Sym} {A : Nat} {w : List Nat} (h : Spine G S' α A w) :
    ∀ (t : Tree), t.Valid G → t.root = .n A → ∀ (α' : List Sym) (A' : Nat) (w' : List Nat),
      α ++ tsyms (t.yield ++ w) = α' ++ Sym.n A' :: tsyms w' → Spine G S' α' A' w' := by
  induction h with
  | base =>
    intro t _ _ α' A' w' he
    exfalso
    have : Sym.n A' ∈ tsyms (t.yield ++ []) := by
      simp only [List.nil_append] at he
      rw [he]; simp
    exact n_not_mem_tsyms _ _ this
  | @down δ A₀ w₀ k ν₁ B ν₂ ts h0 hk hroots hvalid ih =>
    intro t hv hr α' A' w' he
    have hν₁ : ∀ s ∈ ν₁, s ≠ .eps := fun s hs => hne A₀ k _ hk s (by simp [hs])
    rcases nt_split ν₁ hν₁ with ⟨s, hs⟩ | ⟨σ₁, B', s, hs⟩
    · -- `ν₁` is terminal: the whole rule is complete, fold it and go further up
      subst hs
      have hv0 : (Tree.node A₀ k (Forest.ofList (s.map Tree.leaf ++ t :: ts))).Valid G := by
        refine ⟨?_, valid_ofList G _ ?_⟩
        · rw [roots_ofList, List.map_append, roots_leaves, List.map_cons, hr, hroots]; exact hk
        · intro t' ht'
          rcases List.mem_append.mp ht' with ht' | ht'
          · exact valid_leaves G s t' ht'
          · simp only [List.mem_cons] at ht'
            rcases ht' with rfl | ht'
            · exact hv
            · exact hvalid t' ht'
      apply ih _ hv0 rfl α' A' w'
      rw [← he]
      simp only [Tree.yield, yield_ofList]
      have : ((s.map Tree.leaf ++ t :: ts).map Tree.yield).flatten = s ++ t.yield ++ yields ts := by
        have := yields_append (s.map Tree.leaf) (t :: ts)
        rw [yields_leaves, yields_cons] at this
        simpa [yields, List.append_assoc] using this
      rw [this]
      simp [tsyms_append, List.append_assoc]
    · -- `ν₁` has a non-terminal: it is the new end of the spine
      subst hs
      have he' : (δ ++ σ₁) ++ Sym.n B' :: tsyms (s ++ t.yield ++ yields ts ++ w₀) =
          α' ++ Sym.n A' :: tsyms w' := by
        rw [← he]; simp [tsyms_append, List.append_assoc]
      obtain ⟨e1, e2, e3⟩ := last_nt_unique _ _ _ _ _ _ he'
      subst e1 e2
      have hk' : (G.alts A₀)[k]? = some (σ₁ ++ Sym.n B' :: (tsyms s ++ Sym.n B :: ν₂)) := by
        rw [hk]; simp [List.append_assoc]
      have := Spine.down (ts := s.map Tree.leaf ++ t :: ts) h0 hk'
        (by rw [List.map_append, roots_leaves, List.map_cons, hr, hroots])
        (by
          intro t' ht'
          rcases List.mem_append.mp ht' with ht' | ht'
          · exact valid_leaves G s t' ht'
          · simp only [List.mem_cons] at ht'
            rcases ht' with rfl | ht'
            · exact hv
            · exact hvalid t' ht')
      rw [yields_append, yields_leaves, yields_cons] at this
      rw [← e3]
      simpa [List.append_assoc] using this

/-- one rightmost step keeps the form describable by a spine -/
theorem spine_step {α : List Sym} {A : Nat} {w : List Nat} (h : Spine G S' α A w)
    {k : Nat} {μ : List Sym} (hk : (G.alts A)[k]? = some μ) :
    ∀ (α' : List Sym) (A' : Nat) (w' : List Nat),
      α ++ μ ++ tsyms w = α' ++ Sym.n A' :: tsyms w' → Spine G S' α' A' w' := by
  intro α' A' w' he
  rcases nt_split μ (hne A k μ hk) with ⟨z, hz⟩ | ⟨ν₁, B, z, hz⟩
  · subst hz
    have hv : (Tree.node A k (Forest.ofList (z.map Tree.leaf))).Valid G :=
      ⟨by rw [roots_ofList, roots_leaves]; exact hk, valid_ofList G _ (valid_leaves G z)⟩
    apply spine_fold hne h _ hv rfl α' A' w'
    rw [← he]
    simp only [Tree.yield, yield_ofList]
    have := yields_leaves z
    simp only [yields] at this
    rw [this]
    simp [tsyms_append, List.append_assoc]
  · subst hz
    have he' : (α ++ ν₁) ++ Sym.n B :: tsyms (z ++ w) = α' ++ Sym.n A' :: tsyms w' := by
      rw [← he]; simp [tsyms_append, List.append_assoc]
    obtain ⟨e1, e2, e3⟩ := last_nt_unique _ _ _ _ _ _ he'
    subst e1 e2 e3
    have := Spine.down (ts := z.map Tree.leaf) h hk (roots_leaves z) (valid_leaves G z)
    rwa [yields_leaves] at this

/-- every right sentential form has a spine -/
theorem rd_spine {φ : List Sym} (h : RDerives G [.n S'] φ) :
    ∀ (α : List Sym) (A : Nat) (w : List Nat), φ = α ++ Sym.n A :: tsyms w → Spine G S' α A w := by
  induction h with
  | refl =>
    intro α A w he
    obtain ⟨rfl, hA, rfl⟩ := singleton_split he
    cases hA
    exact Spine.base
  | tail _ hstep ih =>
    intro α' A' w' he
    obtain ⟨α, A, k, μ, w, hk, hm, hb⟩ := rstep_inv hstep
    subst hm hb
    exact spine_step hne (ih α A w rfl) hk α' A' w' he

end Spines

/-! ## the augmented grammar: no ε, left-hand sides in range -/

section Aug
variable (g : Grammar) (start eof : Nat)

theorem augment_alts_other (m : Nat) (h1 : m ≠ g.numNT) (h2 : m ≠ g.numNT + 1) :
    (g.augment start eof).alts m = g.alts m := by
  simp only [Grammar.alts, Grammar.augment, Grammar.add]
  rw [find_ins_ne _ _ _ h2, find_ins_ne _ _ _ h1]

theorem aug_rule_cases (hg : g.Closed) {A k : Nat} {μ : List Sym}
    (h : ((g.augment start eof).alts A)[k]? = some μ) :
    (A = g.numNT ∧ μ = [.n start]) ∨ (A = g.numNT + 1 ∧ μ = [.t eof]) ∨
      (A < g.numNT ∧ (g.alts A)[k]? = some μ) := by
  by_cases h1 : A = g.numNT
  · subst h1
    rw [augment_alts_S g start eof hg] at h
    left
    refine ⟨rfl, ?_⟩
    cases k with
    | zero => simpa using h.symm
    | succ k => simp at h
  · by_cases h2 : A = g.numNT + 1
    · subst h2
      rw [augment_alts_E g start eof hg] at h
      right; left
      refine ⟨rfl, ?_⟩
      cases k with
      | zero => simpa using h.symm
      | succ k => simp at h
    · rw [augment_alts_other g start eof A h1 h2] at h
      right; right
      exact ⟨alts_lhs_lt hg (List.mem_of_getElem? h), h⟩

theorem aug_no_eps (hg : g.Closed) (A k : Nat) (μ : List Sym)
    (h : ((g.augment start eof).alts A)[k]? = some μ) : ∀ s ∈ μ, s ≠ .eps := by
  intro s hs
  rcases aug_rule_cases g start eof hg h with ⟨_, rfl⟩ | ⟨_, rfl⟩ | ⟨_, h'⟩
  · simp only [List.mem_singleton] at hs; subst hs; simp
  · simp only [List.mem_singleton] at hs; subst hs; simp
  · have := alts_symOK hg (List.mem_of_getElem? h') s hs
    intro he; subst he; exact this

theorem aug_lhs_lt (hg : g.Closed) {A k : Nat} {μ : List Sym}
    (h : ((g.augment start eof).alts A)[k]? = some μ) : A < (g.augment start eof).numNT := by
  rw [augment_numNT]
  rcases aug_rule_cases g start eof hg h with ⟨h', _⟩ | ⟨h', _⟩ | ⟨h', _⟩ <;> omega

end Aug

end LRIff
end Theo
