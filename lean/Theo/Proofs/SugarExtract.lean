/-
  C04 (sugar) — macro extraction in front of a source without definitions: general lemmas on
  the S/D/MD/A descent for a well-formed `DEFINE PRIO n rule AS body END DEFINE` and for a stretch
  without `DEFINE`, then the standard file: it contributes exactly `stdDefs`, no error, and the
  rest of the stream is passed on unchanged (`extract_std`).
-/
import Theo.Proofs.SugarApply

namespace Theo.Sugar

theorem getElem?_mid {α} (pre : List α) (x : α) (post : List α) : (pre ++ x :: post)[pre.length]? = some x := by
  simp

/-- the token under the cursor -/
theorem la_mid (es : ExSt) (pre : List Token) (x : Token) (post : List Token)
    (ht : es.toks = pre ++ x :: post) (hp : es.pos = pre.length) : es.la = x.kind := by
  simp [ExSt.la, ht, hp]

def BodyTok (t : Token) : Prop :=
  t.kind ≠ Tok.T_EOF ∧ t.kind ≠ Tok.END_DEFINE ∧ t.kind ≠ Tok.DEFINE ∧ t.kind ≠ Tok.AS

/-- `A` copies a well-formed body up to its `END DEFINE` into the definition under construction -/
theorem exA_run : ∀ (body : List Token) (f : Nat) (es : ExSt) (pre post : List Token) (ed : Token)
    (ms : List MacroDef) (m : MacroDef),
    es.toks = pre ++ (body ++ ed :: post) → es.pos = pre.length → (∀ t ∈ body, BodyTok t) →
    ed.kind = Tok.END_DEFINE → body.length < f → es.macros = ms ++ [m] →
    exA f es = { es with pos := pre.length + body.length + 1,
                         macros := ms ++ [{ m with body := m.body ++ body }] } := by
  intro body
  induction body with
  | nil =>
    intro f es pre post ed ms m ht hp _ hed hf hm
    obtain ⟨f, rfl⟩ : ∃ g, f = g + 1 := ⟨f - 1, by simp at hf; omega⟩
    have hla : es.la = Tok.END_DEFINE := by rw [la_mid es pre ed post (by simpa using ht) hp, hed]
    rw [exA]
    simp only [hla]
    rw [if_neg (by decide), if_pos trivial]
    cases es
    simp only [ExSt.advance] at *
    subst hp hm
    simp
  | cons t body ih =>
    intro f es pre post ed ms m ht hp hb hed hf hm
    obtain ⟨f, rfl⟩ : ∃ g, f = g + 1 := ⟨f - 1, by simp at hf; omega⟩
    have hbt := hb t (by simp)
    have ht' : es.toks = pre ++ t :: (body ++ ed :: post) := by simpa using ht
    have hla : es.la = t.kind := la_mid es pre t _ ht' hp
    rw [exA]
    simp only [hla]
    rw [if_neg hbt.1, if_neg hbt.2.1, if_neg (by rintro (h | h); exact hbt.2.2.1 h; exact hbt.2.2.2 h)]
    have hpush : es.pushBody.advance =
        { es with pos := es.pos + 1, macros := ms ++ [{ m with body := m.body ++ [t] }] } := by
      simp [ExSt.pushBody, ExSt.advance, ExSt.modifyLast, hm, ht', hp]
    rw [hpush]
    rw [ih f _ (pre ++ [t]) post ed ms { m with body := m.body ++ [t] }
      (by simp [ht']) (by simp [hp]) (fun x hx => hb x (by simp [hx])) hed (by simp at hf; omega) rfl]
    simp [Nat.add_assoc, Nat.add_comm 1]


def RuleTok (t : Token) : Prop := t.kind ≠ Tok.T_EOF ∧ t.kind ≠ Tok.AS ∧ t.kind ≠ Tok.DEFINE

/-- what `pushRule` does to the definition under construction -/
def addRule (m : MacroDef) (l : Token) : MacroDef :=
  let m1 := { m with rule := m.rule ++ [l] }
  if DetGen.textKinds.contains l.kind then { m1 with cc := m1.cc ++ [m1.rule.length - 1] }
  else if DetGen.slotKinds.contains l.kind then { m1 with tt := m1.tt ++ [m1.rule.length - 1] }
  else m1

/-- `D`/`MD` collect a well-formed pattern up to its `AS` and hand over to `A` -/
theorem exMD_run : ∀ (rule : List Token) (f : Nat) (first : Bool) (es : ExSt) (pre post : List Token)
    (as : Token) (ms : List MacroDef) (m : MacroDef),
    es.toks = pre ++ (rule ++ as :: post) → es.pos = pre.length → (∀ t ∈ rule, RuleTok t) →
    as.kind = Tok.AS → rule.length < f → es.macros = ms ++ [m] → (first = true → rule ≠ []) →
    exMD f first es =
      exA (f - rule.length - 1)
        { es with pos := pre.length + rule.length + 1, macros := ms ++ [rule.foldl addRule m] } := by
  intro rule
  induction rule with
  | nil =>
    intro f first es pre post as ms m ht hp _ has hf hm hfirst
    obtain ⟨f, rfl⟩ : ∃ g, f = g + 1 := ⟨f - 1, by simp at hf; omega⟩
    have hff : first = false := by
      cases first with
      | false => rfl
      | true => exact absurd rfl (hfirst rfl)
    subst hff
    have hla : es.la = Tok.AS := by rw [la_mid es pre as post (by simpa using ht) hp, has]
    rw [exMD]
    simp only [hla]
    rw [if_neg (by decide), if_pos trivial]
    cases es
    simp only [ExSt.advance] at *
    subst hp hm
    simp
  | cons t rule ih =>
    intro f first es pre post as ms m ht hp hb has hf hm _
    obtain ⟨f, rfl⟩ : ∃ g, f = g + 1 := ⟨f - 1, by simp at hf; omega⟩
    have hbt := hb t (by simp)
    have ht' : es.toks = pre ++ t :: (rule ++ as :: post) := by simpa using ht
    have hla : es.la = t.kind := la_mid es pre t _ ht' hp
    rw [exMD]
    simp only [hla]
    rw [if_neg hbt.1, if_neg hbt.2.1, if_neg hbt.2.2]
    have hpush : es.pushRule.advance =
        { es with pos := es.pos + 1, macros := ms ++ [addRule m t] } := by
      simp [ExSt.pushRule, ExSt.advance, ExSt.modifyLast, hm, ht', hp, addRule]
    rw [hpush]
    rw [ih f false _ (pre ++ [t]) post as ms (addRule m t)
      (by simp [ht']) (by simp [hp]) (fun x hx => hb x (by simp [hx])) has (by simp at hf; omega) rfl
      (fun h => by cases h)]
    simp only [List.length_append, List.length_cons, List.length_nil, List.foldl_cons]
    congr 2
    · omega
    · omega


/-- `S` on a well-formed definition `DEFINE PRIO n rule AS body END DEFINE` -/
theorem exS_define (f : Nat) (es : ExSt) (pre post rule body : List Token) (dT pT iT as ed : Token)
    (ht : es.toks = pre ++ dT :: pT :: iT :: (rule ++ as :: (body ++ ed :: post)))
    (hp : es.pos = pre.length)
    (hd : dT.kind = Tok.DEFINE) (hpr : pT.kind = Tok.PRIORITY) (hi : iT.kind = Tok.INT)
    (hrange : macroRangeBad (strtolNat iT.text) = false)
    (hrule : ∀ t ∈ rule, RuleTok t) (hne : rule ≠ []) (has : as.kind = Tok.AS)
    (hbody : ∀ t ∈ body, BodyTok t) (hed : ed.kind = Tok.END_DEFINE) :
    exS (f + 1) es =
      exS f { es with
        pos := pre.length + 3 + rule.length + 1 + body.length + 1,
        macros := es.macros ++
          [{ (rule.foldl addRule ⟨toInt32 (strtolNat iT.text), [], [], [], []⟩) with
              body := (rule.foldl addRule ⟨toInt32 (strtolNat iT.text), [], [], [], []⟩).body ++ body }] } := by
  have hla : es.la = Tok.DEFINE := by rw [la_mid es pre dT _ ht hp, hd]
  rw [exS]
  simp only [hla]
  rw [if_neg (by decide), if_pos trivial]
  -- the header `DEFINE PRIO n`
  have hes2 : (if es.advance.pushMacro.la = Tok.PRIORITY then
        let es1a := es.advance.pushMacro.advance
        let (es1b, ok) := es1a.matchK Tok.INT
        if ok then
          let text := ((es1b.toks[es1b.pos - 1]?).getD default).text
          let (es1c, v) := es1b.strToInt text
          es1c.modifyLast (fun m => { m with priority := v })
        else es1b
      else es.advance.pushMacro) =
      { es with pos := pre.length + 3,
                macros := es.macros ++ [⟨toInt32 (strtolNat iT.text), [], [], [], []⟩] } := by
    have h1 : es.advance.pushMacro.la = Tok.PRIORITY := by
      rw [la_mid _ (pre ++ [dT]) pT (iT :: (rule ++ as :: (body ++ ed :: post)))
        (by simp [ExSt.advance, ExSt.pushMacro, ht]) (by simp [ExSt.advance, ExSt.pushMacro, hp]), hpr]
    have h2 : es.advance.pushMacro.advance.la = Tok.INT := by
      rw [la_mid _ (pre ++ [dT, pT]) iT (rule ++ as :: (body ++ ed :: post))
        (by simp [ExSt.advance, ExSt.pushMacro, ht]) (by simp [ExSt.advance, ExSt.pushMacro, hp]), hi]
    rw [if_pos h1]
    simp only [ExSt.matchK, h2, ne_eq, not_true_eq_false, if_false]
    simp only [ExSt.advance, ExSt.pushMacro, ExSt.strToInt, ExSt.modifyLast, hp, ht, if_true]
    simp [hrange]
  rw [hes2]
  rw [exMD_run rule _ true _ (pre ++ [dT, pT, iT]) (body ++ ed :: post) as es.macros
    ⟨toInt32 (strtolNat iT.text), [], [], [], []⟩ (by simp [ht]) (by simp) hrule has
    (by simp only [ht, List.length_append, List.length_cons]; omega) rfl (fun _ => hne)]
  rw [exA_run body _ _ (pre ++ [dT, pT, iT] ++ rule ++ [as]) post ed es.macros _
    (by simp [ht]) (by simp; omega) hbody hed
    (by simp only [ht, List.length_append, List.length_cons]; omega) rfl]
  congr 2
  simp
  omega


/-- outside definitions `S` copies the stream up to and including the end marker -/
theorem exS_copy : ∀ (body : List Token) (f : Nat) (es : ExSt) (pre : List Token) (eof : Token),
    es.toks = pre ++ (body ++ [eof]) → es.pos = pre.length →
    (∀ t ∈ body, t.kind ≠ Tok.T_EOF ∧ t.kind ≠ Tok.DEFINE) → eof.kind = Tok.T_EOF → body.length < f →
    exS f es = { es with pos := pre.length + body.length + 1, out := es.out ++ body ++ [eof] } := by
  intro body
  induction body with
  | nil =>
    intro f es pre eof ht hp _ he hf
    obtain ⟨f, rfl⟩ : ∃ g, f = g + 1 := ⟨f - 1, by simp at hf; omega⟩
    have hla : es.la = Tok.T_EOF := by rw [la_mid es pre eof [] (by simpa using ht) hp, he]
    rw [exS]
    simp only [hla]
    rw [if_pos trivial]
    have hcur : es.cur = eof := by
      simp only [ExSt.cur, ht, hp]
      simp
    simp [ExSt.copy, ExSt.advance, hcur, hp]
  | cons t body ih =>
    intro f es pre eof ht hp hb he hf
    obtain ⟨f, rfl⟩ : ∃ g, f = g + 1 := ⟨f - 1, by simp at hf; omega⟩
    have hbt := hb t (by simp)
    have ht' : es.toks = pre ++ t :: (body ++ [eof]) := by simpa using ht
    have hla : es.la = t.kind := la_mid es pre t _ ht' hp
    rw [exS]
    simp only [hla]
    rw [if_neg hbt.1, if_neg hbt.2]
    have hcur : es.cur = t := by
      simp only [ExSt.cur, ht', hp]
      have : min pre.length ((pre ++ t :: (body ++ [eof])).length - 1) = pre.length := by
        simp
      rw [this]; simp
    rw [ih f _ (pre ++ [t]) eof (by simp [ExSt.copy, ExSt.advance, ht'])
      (by simp [ExSt.copy, ExSt.advance, hp]) (fun x hx => hb x (by simp [hx])) he (by simp at hf; omega)]
    simp [ExSt.copy, ExSt.advance, hcur]
    omega


/-! ### the standard file in front of a stream without definitions -/

/-- one line of the standard file: `DEFINE PRIO 1000000 <ID> op <INT> AS RUN name WITH $0, $1 END END DEFINE` -/
def defBlock (op name : Bytes) (line : Int) : List Token :=
  stdTok Tok.DEFINE [68, 69, 70, 73, 78, 69] line :: stdTok Tok.PRIORITY [80, 82, 73, 79] line ::
    stdTok Tok.INT [49, 48, 48, 48, 48, 48, 48] line ::
    ([stdTok Tok.ID_TEMP [60, 73, 68, 62] line, stdTok Tok.NV_ID op line, stdTok Tok.INT_TEMP [60, 73, 78, 84, 62] line] ++
      stdTok Tok.AS [65, 83] line ::
      (bodyOf name line ++ [stdTok Tok.END_DEFINE [69, 78, 68, 32, 68, 69, 70, 73, 78, 69] line]))

/-- closed fact, re-checked on the regenerated constant: the token stream of the standard file -/
theorem std_body_shape : stdBody = defBlock plus incName 1 ++ defBlock minus decName 2 := by
  decide +kernel

/-- the definition `exS_define` builds from a `defBlock`, before the `$n` check -/
def rawDef (op name : Bytes) (line : Int) : MacroDef :=
  let m := [stdTok Tok.ID_TEMP [60, 73, 68, 62] line, stdTok Tok.NV_ID op line,
      stdTok Tok.INT_TEMP [60, 73, 78, 84, 62] line].foldl addRule
    ⟨toInt32 (strtolNat [49, 48, 48, 48, 48, 48, 48]), [], [], [], []⟩
  { m with body := m.body ++ bodyOf name line }

theorem exS_defBlock (f : Nat) (es : ExSt) (pre post : List Token) (op name : Bytes) (line : Int)
    (ht : es.toks = pre ++ (defBlock op name line ++ post)) (hp : es.pos = pre.length) :
    exS (f + 1) es =
      exS f { es with pos := pre.length + (defBlock op name line).length,
                      macros := es.macros ++ [rawDef op name line] } := by
  rw [exS_define f es pre post
    [stdTok Tok.ID_TEMP [60, 73, 68, 62] line, stdTok Tok.NV_ID op line, stdTok Tok.INT_TEMP [60, 73, 78, 84, 62] line]
    (bodyOf name line) (stdTok Tok.DEFINE [68, 69, 70, 73, 78, 69] line) (stdTok Tok.PRIORITY [80, 82, 73, 79] line)
    (stdTok Tok.INT [49, 48, 48, 48, 48, 48, 48] line) (stdTok Tok.AS [65, 83] line)
    (stdTok Tok.END_DEFINE [69, 78, 68, 32, 68, 69, 70, 73, 78, 69] line)
    (by simpa [defBlock] using ht) hp rfl rfl rfl
    (by show macroRangeBad (strtolNat [49, 48, 48, 48, 48, 48, 48]) = false; decide)
    (by intro t ht; simp at ht; rcases ht with rfl | rfl | rfl <;> simp [RuleTok, stdTok, Tok.ID_TEMP, Tok.NV_ID, Tok.INT_TEMP, Tok.T_EOF, Tok.AS, Tok.DEFINE])
    (by simp) rfl
    (by intro t ht; simp [bodyOf] at ht; rcases ht with rfl | rfl | rfl | rfl | rfl | rfl | rfl <;>
      simp [BodyTok, stdTok, Tok.RUN, Tok.ID, Tok.WITH, Tok.INSERTION, Tok.ARGSEP, Tok.END, Tok.T_EOF, Tok.AS, Tok.DEFINE, Tok.END_DEFINE])
    rfl]
  congr 2

/-- the definition after the `$n` check -/
def finalDef (op name : Bytes) (line : Int) : MacroDef :=
  ⟨1000000, [stdTok Tok.ID_TEMP [60, 73, 68, 62] line, stdTok Tok.NV_ID op line,
      stdTok Tok.INT_TEMP [60, 73, 78, 84, 62] line], [1], [0, 2], bodyOf name line⟩

/-- closed fact, re-checked on the regenerated constant -/
theorem std_defs_eq : stdDefs = [finalDef plus incName 1, finalDef minus decName 2] := by
  decide +kernel

theorem checkInsertions_std (e : Token) :
    checkInsertions e [rawDef plus incName 1, rawDef minus decName 2] [] =
      ([finalDef plus incName 1, finalDef minus decName 2], []) := by
  rfl


/-- **extraction**: in front of a stream that contains no `DEFINE` and ends with its only end
    marker, the standard file contributes exactly `stdDefs` and no error, and the stream is passed
    on unchanged -/
theorem extract_std (body : List Token) (eof : Token)
    (hb : ∀ t ∈ body, t.kind ≠ Tok.T_EOF ∧ t.kind ≠ Tok.DEFINE) (he : eof.kind = Tok.T_EOF) :
    extractMacros (stdBody ++ (body ++ [eof])) = ⟨[], body ++ [eof], stdDefs⟩ := by
  rw [std_body_shape, std_defs_eq]
  unfold extractMacros
  have hlen : ((defBlock plus incName 1 ++ defBlock minus decName 2) ++ (body ++ [eof])).length + 2 =
      (body.length + 1) + 1 + 1 + ((defBlock plus incName 1).length + (defBlock minus decName 2).length) := by
    simp only [List.length_append, List.length_cons, List.length_nil]; omega
  simp only []
  rw [hlen]
  generalize hA : (defBlock plus incName 1).length + (defBlock minus decName 2).length = A
  rw [show body.length + 1 + 1 + 1 + A = (body.length + 1 + A) + 1 + 1 by omega]
  rw [exS_defBlock _ _ [] (defBlock minus decName 2 ++ (body ++ [eof])) plus incName 1
    (by simp) rfl]
  rw [exS_defBlock _ _ (defBlock plus incName 1) (body ++ [eof]) minus decName 2
    (by simp) (by simp)]
  rw [exS_copy body _ _ (defBlock plus incName 1 ++ defBlock minus decName 2) eof
    (by simp) (by simp) hb he (by omega)]
  simp only [List.nil_append, List.cons_append, checkInsertions_std]

end Theo.Sugar
