/-
  Converse of C12/C13, part 3: two different decisions justified for one viable prefix with a
  common lookahead contradict Knuth's LR(1) condition.
  * shift / reduce: an item with a terminal `c` after the dot and a complete item acting on `c`;
  * reduce / reduce (and accept / reduce): two different complete items acting on one column —
    either two different productions, or (prefix mode only) the *same* production with the
    lookaheads "end marker" and `c`; the latter is pushed up the derivation until it becomes a
    genuine clash or reaches `S'`.
-/
import Theo.Proofs.LRConverseValid

namespace Theo
namespace LRConverse
open LRSound LRComplete FirstProofs

theorem rd_cases {g : Grammar} {a b : List Sym} (h : RDerives g a b) :
    a = b ∨ ∃ m, RDerives g a m ∧ RStep g m b := by
  cases h with
  | refl => exact Or.inl rfl
  | tail h1 h2 => exact Or.inr ⟨_, h1, h2⟩

theorem rstep_inv {g : Grammar} {m b : List Sym} (h : RStep g m b) :
    ∃ (α : List Sym) (A k : Nat) (β : List Sym) (w : List Nat), (g.alts A)[k]? = some β ∧
      m = α ++ Sym.n A :: tsyms w ∧ b = α ++ β ++ tsyms w := by
  cases h with
  | mk α A k β w hk => exact ⟨α, A, k, β, w, hk, rfl, rfl⟩

theorem head_append_eof (eof : Nat) (w : List Nat) : (w ++ [eof]).head? = some (laOf eof w) := by
  cases w <;> rfl

section Sem
variable (g : Grammar) (start eof : Nat)

/-- the end marker never heads the right context of a right sentential form -/
theorem no_eof_head (hg : g.Closed) (hs : start < g.numNT) (heof : eof ∉ g.terminals)
    {δ : List Sym} {A : Nat} {w : List Nat}
    (h : RDerives (g.augment start eof) [.n g.numNT] (δ ++ Sym.n A :: tsyms w)) :
    ∀ e w', w = e :: w' → e ≠ eof := by
  intro e w' hw he
  subst hw he
  rcases rd_symOK g start e hg hs h with h0 | h0
  · have := congrArg List.length h0
    simp [tsyms] at this
    omega
  · exact heof (h0 (.t e) (by simp [tsyms]))

/-- `S'` does not occur in a right sentential form other than `S'` itself -/
theorem no_sprime (hg : g.Closed) (hs : start < g.numNT) {φ : List Sym}
    (h : RDerives (g.augment start eof) [.n g.numNT] φ) (hm : Sym.n g.numNT ∈ φ) :
    φ = [.n g.numNT] := by
  rcases rd_symOK g start eof hg hs h with h0 | h0
  · exact h0
  · have := h0 _ hm
    simp [SymOK] at this

theorem acts_fits (hg : g.Closed) (hs : start < g.numNT) (heof : eof ∉ g.terminals) (pm : Bool)
    {it : Item} {c : Nat} {δ : List Sym} {w : List Nat}
    (hder : RDerives (g.augment start eof) [.n g.numNT] (δ ++ Sym.n it.left :: tsyms w))
    (hfol : it.follow = .t (laOf eof w)) (hacts : ActsOn pm eof it c) :
    (pm = true ∧ (w = [] ∨ w.head? = some c)) ∨ (pm = false ∧ laOf eof w = c) := by
  simp only [ActsOn, hfol, Sym.index] at hacts
  cases pm with
  | false =>
    right
    rcases hacts with h | h
    · exact ⟨rfl, h⟩
    · exact absurd h.2 (by simp)
  | true =>
    left
    refine ⟨rfl, ?_⟩
    cases w with
    | nil => exact Or.inl rfl
    | cons e w' =>
      right
      rcases hacts with h | h
      · simpa [laOf] using h
      · exact absurd h.1 (no_eof_head g start eof hg hs heof hder e w' rfl)

theorem compat_of_fits (pm : Bool) {w y : List Nat} {c : Nat}
    (h1 : (pm = true ∧ (w = [] ∨ w.head? = some c)) ∨ (pm = false ∧ laOf eof w = c))
    (h2 : (pm = true ∧ (y = [] ∨ y.head? = some c)) ∨ (pm = false ∧ laOf eof y = c)) :
    LACompat pm eof w y := by
  cases pm with
  | true =>
    simp only [LACompat, if_true]
    rcases h1 with ⟨_, h1⟩ | ⟨h1, _⟩
    · rcases h2 with ⟨_, h2⟩ | ⟨h2, _⟩
      · rcases h1 with h1 | h1
        · exact Or.inl h1
        · rcases h2 with h2 | h2
          · exact Or.inr (Or.inl h2)
          · exact Or.inr (Or.inr (by rw [h1, h2]))
      · cases h2
    · cases h1
  | false =>
    simp only [LACompat, Bool.false_eq_true, if_false, head_append_eof]
    rcases h1 with ⟨h1, _⟩ | ⟨_, h1⟩
    · cases h1
    · rcases h2 with ⟨h2, _⟩ | ⟨_, h2⟩
      · cases h2
      · rw [h1, h2]

variable {g start eof}

/-- shift / reduce -/
theorem no_shift_reduce (pm : Bool) (hg : g.Closed) (hs : start < g.numNT) (heof : eof ∉ g.terminals)
    (hp : g.Productive) (hk : KnuthLR1 (g.augment start eof) g.numNT eof pm)
    {γ : List Sym} {it1 it2 : Item} (h1 : VItem g start eof γ it1) (h2 : VItem g start eof γ it2)
    {c : Nat} (ha : (g.augment start eof).afterDot it1 = .t c)
    (hd : it2.dot = ((g.augment start eof).rhs it2).length) (hacts : ActsOn pm eof it2 c) : False := by
  obtain ⟨δ₁, w₁, hder1, hγ1, _⟩ := h1.valid
  obtain ⟨δ₂, w₂, hder2, hγ2, hfol2⟩ := h2.valid
  rw [hd, List.take_length] at hγ2
  have hget := afterDot_some _ it1 (.t c) (by simp) ha
  have hsplit := rhs_split (g.augment start eof) it1 (.t c) hget
  generalize hα : ((g.augment start eof).rhs it1).take it1.dot = α at hsplit hγ1
  generalize hβ : ((g.augment start eof).rhs it1).drop (it1.dot + 1) = β' at hsplit
  have hrule1 := good_rhs_get g start eof h1.good
  have hrule2 := good_rhs_get g start eof h2.good
  -- β' derives a terminal string
  have hβok : ∀ s ∈ β', s ≠ .eps ∧ ∀ k, s = .n k → k < g.numNT := by
    intro s hsm
    exact good_rhs_ntOK g start eof hg hs h1.good s (by rw [hsplit]; simp [hsm])
  obtain ⟨ts, hroots, hvalid⟩ := trees_of_syms (g.augment start eof) g.numNT
    (productive_aug g start eof hg hp) β' hβok
  have hexp := trees_exposed (g.augment start eof) ts hvalid
  rw [hroots] at hexp
  generalize yields ts = z at hexp
  have hfit := acts_fits g start eof hg hs heof pm hder2 hfol2 hacts
  have hcompat : LACompat pm eof w₂ (c :: z ++ w₁) := by
    apply compat_of_fits eof pm hfit
    cases pm with
    | true => exact Or.inl ⟨rfl, Or.inr rfl⟩
    | false => exact Or.inr ⟨rfl, rfl⟩
  have hder1' : RDerives (g.augment start eof) [.n g.numNT]
      (δ₁ ++ (g.augment start eof).rhs it1 ++ tsyms w₁) :=
    RDerives.tail hder1 (RStep.mk δ₁ it1.left it1.alt _ w₁ hrule1)
  rcases hexp with hexp | ⟨θ', C, k, ρ, x, hkC, hdC, heC⟩
  · -- the symbols after `c` are terminals: the last step is the one of `it1`
    have := hk δ₂ _ δ₁ _ it2.left it2.alt it1.left it1.alt w₂ w₁ (c :: z ++ w₁)
      hder2 hrule2 hder1 hrule1 (by
        rw [hsplit, hexp, ← hγ2, hγ1]
        simp [tsyms_append, tsyms_cons, List.append_assoc]) hcompat
    have := congrArg List.length this.2.2
    simp at this
    omega
  · have hd' := hdC (δ₁ ++ α ++ [Sym.t c]) w₁
    have hder3 : RDerives (g.augment start eof) [.n g.numNT]
        ((δ₁ ++ α ++ [Sym.t c] ++ θ') ++ Sym.n C :: tsyms (x ++ w₁)) := by
      rw [hsplit] at hder1'
      exact rd_trans (by simpa [List.append_assoc] using hder1') hd'
    have := hk δ₂ _ (δ₁ ++ α ++ [Sym.t c] ++ θ') ρ it2.left it2.alt C k w₂ (x ++ w₁) (c :: z ++ w₁)
      hder2 hrule2 hder3 hkC (by
        have e1 : (δ₁ ++ α ++ [Sym.t c] ++ θ') ++ ρ ++ tsyms (x ++ w₁) =
            δ₁ ++ α ++ [Sym.t c] ++ (θ' ++ ρ ++ tsyms x) ++ tsyms w₁ := by
          simp [tsyms_append, List.append_assoc]
        rw [e1, heC, ← hγ2, hγ1]
        simp [tsyms_append, tsyms_cons, List.append_assoc]) hcompat
    have h3 := congrArg List.length this.2.2
    have h4 := congrArg List.length heC
    simp [tsyms_length] at h3 h4
    omega

/-- the same production, complete, once with the end marker and once with a real token as
    lookahead (prefix mode): impossible in an LR(1) grammar -/
theorem no_degenerate (hg : g.Closed) (hs : start < g.numNT)
    (hk : KnuthLR1 (g.augment start eof) g.numNT eof true) {φ : List Sym}
    (h : RDerives (g.augment start eof) [.n g.numNT] φ) :
    ∀ (δ : List Sym) (A c : Nat) (x : List Nat), φ = δ ++ [Sym.n A] →
      RDerives (g.augment start eof) [.n g.numNT] (δ ++ Sym.n A :: tsyms (c :: x)) → False := by
  induction h with
  | refl =>
    intro δ A c x hφ h2
    have hδ : δ = [] := by
      cases δ with
      | nil => rfl
      | cons s δ => have := congrArg List.length hφ; simp at this
    subst hδ
    simp only [List.nil_append, List.cons.injEq, Sym.n.injEq, and_true] at hφ
    subst hφ
    have := no_sprime g start eof hg hs h2 (by simp)
    have := congrArg List.length this
    simp [tsyms] at this
  | @tail b φ hprev hstep ih =>
    intro δ A c x hφ h2
    obtain ⟨α₁, B, k, μ, w₁, hkB, hb, hφ'⟩ := rstep_inv hstep
    subst hb
    have hw₁ : w₁ = [] := by
      rcases List.eq_nil_or_concat w₁ with h | ⟨w', a, h⟩
      · exact h
      · exfalso
        rw [hφ', h, List.concat_eq_append, tsyms_append, ← List.append_assoc] at hφ
        have := List.append_inj_right' hφ rfl
        simp [tsyms] at this
    subst hw₁
    simp only [tsyms_nil, List.append_nil] at hφ'
    rcases rd_cases h2 with h0 | ⟨m, hprev2, hstep2⟩
    · have := congrArg List.length h0
      simp [tsyms] at this
      omega
    · obtain ⟨γ₂, B₂, k₂, μ₂, x₂, hkB₂, hm, he⟩ := rstep_inv hstep2
      subst hm
      have := hk α₁ μ γ₂ μ₂ B k B₂ k₂ [] x₂ (c :: x) hprev hkB hprev2 hkB₂
        (by rw [← he, ← hφ', hφ]; simp [List.append_assoc]) (by simp [LACompat])
      obtain ⟨e1, e2, e3⟩ := this
      subst e1 e2 e3
      exact ih α₁ B c x (by simp [tsyms]) hprev2

/-- reduce / reduce, accept / reduce: two different complete items acting on one column -/
theorem no_reduce_reduce (pm : Bool) (hg : g.Closed) (hs : start < g.numNT) (heof : eof ∉ g.terminals)
    (hnd : g.NoDupAlts) (hk : KnuthLR1 (g.augment start eof) g.numNT eof pm)
    {γ : List Sym} {it1 it2 : Item} (h1 : VItem g start eof γ it1) (h2 : VItem g start eof γ it2)
    (hne : it1 ≠ it2)
    (hd1 : it1.dot = ((g.augment start eof).rhs it1).length)
    (hd2 : it2.dot = ((g.augment start eof).rhs it2).length)
    {c : Nat} (ha1 : ActsOn pm eof it1 c) (ha2 : ActsOn pm eof it2 c) : False := by
  obtain ⟨δ₁, w₁, hder1, hγ1, hfol1⟩ := h1.valid
  obtain ⟨δ₂, w₂, hder2, hγ2, hfol2⟩ := h2.valid
  rw [hd1, List.take_length] at hγ1
  rw [hd2, List.take_length] at hγ2
  have hrule1 := good_rhs_get g start eof h1.good
  have hrule2 := good_rhs_get g start eof h2.good
  have hfit1 := acts_fits g start eof hg hs heof pm hder1 hfol1 ha1
  have hfit2 := acts_fits g start eof hg hs heof pm hder2 hfol2 ha2
  have hcompat := compat_of_fits eof pm hfit1 hfit2
  obtain ⟨e1, e2, _⟩ := hk δ₁ _ δ₂ _ it1.left it1.alt it2.left it2.alt w₁ w₂ w₂
    hder1 hrule1 hder2 hrule2 (by rw [← hγ2, hγ1]) hcompat
  subst e1
  have hrhs : (g.augment start eof).rhs it1 = (g.augment start eof).rhs it2 :=
    List.append_cancel_left (hγ1.symm.trans hγ2)
  -- same production
  have halt : it1.alt = it2.alt := by
    have hnd' : ((g.augment start eof).alts it1.left).Nodup := by
      rcases h1.good.left_ok with hl | hl
      · rw [augment_alts_lt g start eof _ hl]; exact hnd _
      · rw [hl.1, augment_alts_S g start eof hg]; simp
    rw [← e2, ← hrhs, ← hrule1] at hrule2
    exact ((List.getElem?_inj h1.good.alt_lt hnd').mp hrule2.symm)
  have hdot : it1.dot = it2.dot := by rw [hd1, hd2, hrhs]
  have hfne : laOf eof w₁ ≠ laOf eof w₂ := by
    intro h
    apply hne
    obtain ⟨l1, a1, d1, f1⟩ := it1
    obtain ⟨l2, a2, d2, f2⟩ := it2
    simp only at e2 halt hdot hfol1 hfol2
    rw [e2, halt, hdot, hfol1, hfol2, h]
  cases pm with
  | false =>
    rcases hfit1 with ⟨h, _⟩ | ⟨_, hf1⟩
    · cases h
    · rcases hfit2 with ⟨h, _⟩ | ⟨_, hf2⟩
      · cases h
      · exact hfne (hf1.trans hf2.symm)
  | true =>
    rw [← e2] at hder2
    have key : ∀ (u v : List Nat), u = [] →
        RDerives (g.augment start eof) [.n g.numNT] (δ₁ ++ Sym.n it1.left :: tsyms u) →
        RDerives (g.augment start eof) [.n g.numNT] (δ₁ ++ Sym.n it1.left :: tsyms v) →
        laOf eof u ≠ laOf eof v → False := by
      intro u v hu hdu hdv hne'
      subst hu
      cases v with
      | nil => exact hne' rfl
      | cons c' x =>
        exact no_degenerate hg hs hk hdu δ₁ it1.left c' x (by simp [tsyms]) hdv
    rcases hfit1 with ⟨_, hf1⟩ | ⟨h, _⟩
    · rcases hfit2 with ⟨_, hf2⟩ | ⟨h, _⟩
      · rcases hf1 with hf1 | hf1
        · exact key w₁ w₂ hf1 hder1 hder2 hfne
        · rcases hf2 with hf2 | hf2
          · exact key w₂ w₁ hf2 hder2 hder1 (Ne.symm hfne)
          · apply hfne
            simp only [laOf, hf1, hf2]
      · cases h
    · cases h

end Sem

end LRConverse
end Theo
