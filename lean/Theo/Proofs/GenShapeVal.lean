/-
  C01 for the generator model, part 3: values and argument lists — what their dispatch does to
  the register file (`VK`: growth, temporaries in use are kept, the new temporaries of an
  argument list were free before).
-/
import Theo.Proofs.GenShapePrim

set_option linter.unusedSimpArgs false
set_option linter.unusedVariables false

namespace Theo
namespace GenShape
open GS Sem Static

/-! ### the side conditions on names (see Props/C01GenShape.lean) -/

/-- a user variable: not of the hidden-counter shape, and not the name of the temporaries -/
def varOK (x : Bytes) : Bool := !bLoopVar.isPrefixOf x && x != bTempName

def isNil : Node → Bool
  | .nil => true
  | _ => false

/-- value / argument tree: every variable is a user variable -/
def valNames : Node → Bool
  | .nil => true
  | .mk t tok _ _ l r =>
    if t = NodeT.SPLIT then valNames l && valNames r
    else if t = NodeT.NAME then varOK tok
    else if t = NodeT.CALL then valNames r
    else true

theorem valNames_mk (t : Nat) (tok file : Bytes) (line : Int) (l r : Node) :
    valNames (.mk t tok file line l r) =
      if t = NodeT.SPLIT then valNames l && valNames r
      else if t = NodeT.NAME then varOK tok
      else if t = NodeT.CALL then valNames r
      else true := by rw [valNames]

abbrev PV : Bytes → Prop := fun x => varOK x = true

theorem PV_noPrefix (x : Bytes) (h : PV x) : bLoopVar.isPrefixOf x = false := by
  unfold PV varOK at h
  simp at h
  exact h.1
theorem PV_ne_temp (x : Bytes) (h : PV x) : x ≠ bTempName := by
  unfold PV varOK at h
  simp at h
  exact h.2

/-! ### value steps that keep the temporaries in use -/

structure VK (gs gs' : GS) : Prop where
  vq : VQ PV gs gs'
  keep : KeepUse gs.top.regs gs'.top.regs

theorem VK.refl (gs : GS) : VK gs gs := ⟨VQ.refl _ _, KeepUse.refl _⟩
theorem VK.trans {a b c : GS} (h1 : VK a b) (h2 : VK b c) : VK a c := ⟨h1.vq.trans h2.vq, h1.keep.trans h2.keep⟩

theorem VK.of_syms {gs gs' : GS} (hv : VQ PV gs gs') (hs : gs'.symbols = gs.symbols) : VK gs gs' :=
  ⟨hv, by rw [top_congr hs]; exact KeepUse.refl _⟩

theorem vk_err (gs : GS) (k : Nat) : VK gs (gs.err k) := VK.of_syms (vq_err _ _ _) rfl
theorem vk_emit (gs : GS) (i : Instr) : VK gs (gs.emit i) := VK.of_syms (vq_emit _ _ _) rfl
theorem vk_advanceLine (gs : GS) (line : Int) (file : Bytes) : VK gs (gs.advanceLine line file) :=
  VK.of_syms (vq_advanceLine _ _ _ _) (advanceLine_symbols _ _ _)
theorem vk_genStrToInt (gs : GS) (tok : Bytes) : VK gs (genStrToInt gs tok).1 := by
  unfold genStrToInt
  dsimp only
  split
  · exact vk_err _ _
  · exact VK.refl _
theorem vk_fetchVar (gs : GS) (x : Bytes) (hx : PV x) : VK gs (gs.fetchVar x).1 :=
  ⟨(fetchVar_spec PV gs x hx).vq, (fetchVar_spec PV gs x hx).keep⟩
theorem vk_fetchTemporary (gs : GS) : VK gs gs.fetchTemporary.1 :=
  ⟨(fetchTemporary_spec PV gs).vq, (fetchTemporary_spec PV gs).keep⟩

/-- releasing registers that were free in `B` keeps what was in use in `B` -/
theorem keep_release {B : List VReg} (g : GS) (t : Int) (hk : KeepUse B g.top.regs) (hf : FreeAt B t) :
    KeepUse B (g.releaseTemporary t).top.regs := by
  intro i r hi hu
  show (g.top.regs.modify t.toNat _)[i]? = some r
  rw [List.getElem?_modify, hk i r hi hu]
  obtain ⟨j, ej, hfree⟩ := hf
  by_cases h : t.toNat = i
  · exfalso
    have : j = i := by omega
    subst this
    rw [hfree r hi] at hu; cases hu
  · simp [h]

theorem argFold_spec (B : List VReg) : ∀ (l : List (Int × Nat)) (g : GS),
    (∀ a ∈ l, FreeAt B a.1) → KeepUse B g.top.regs →
    VQ PV g (l.foldl (fun g a => (g.emit (.arg a.2 a.1)).releaseTemporary a.1) g) ∧
    KeepUse B (l.foldl (fun g a => (g.emit (.arg a.2 a.1)).releaseTemporary a.1) g).top.regs := by
  intro l
  induction l with
  | nil => intro g _ hk; exact ⟨VQ.refl _ _, hk⟩
  | cons a as ih =>
    intro g hf hk
    simp only [List.foldl_cons]
    have h1 : KeepUse B ((g.emit (.arg a.2 a.1)).releaseTemporary a.1).top.regs :=
      keep_release (g.emit (.arg a.2 a.1)) a.1 hk (hf a List.mem_cons_self)
    obtain ⟨v, k⟩ := ih ((g.emit (.arg a.2 a.1)).releaseTemporary a.1) (fun x hx => hf x (List.mem_cons_of_mem _ hx)) h1
    exact ⟨((vq_emit PV g _).trans (vq_releaseTemporary PV _ _)).trans v, k⟩

theorem mem_zipIdx_fst {α} {l : List α} {k : Nat} {a : α × Nat} (h : a ∈ l.zipIdx k) : a.1 ∈ l := by
  induction l generalizing k with
  | nil => simp at h
  | cons x xs ih =>
    rw [List.zipIdx_cons] at h
    rcases List.mem_cons.1 h with h | h
    · rw [h]; exact List.mem_cons_self
    · exact List.mem_cons_of_mem _ (ih h)

/-- the tail of a call: everything the arguments did not put in use stays as it was -/
theorem callTail_vk (B : List VReg) (gs : GS) (al : List Int) (l r : Node) (tgt : Int)
    (hf : ∀ t ∈ al, FreeAt B t) (hk : KeepUse B gs.top.regs) :
    VQ PV gs (callTail gs al l r tgt) ∧ KeepUse B (callTail gs al l r tgt).top.regs := by
  unfold callTail
  dsimp only
  split
  · split
    · exact ⟨vq_emit _ _ _, hk⟩
    · exact ⟨vq_emit _ _ _, hk⟩
  · split
    · exact ⟨vq_err _ _ _, hk⟩
    · split
      · exact ⟨vq_err _ _ _, hk⟩
      · rename_i p _ _
        obtain ⟨v, k⟩ := argFold_spec B al.zipIdx (gs.emit (.prepare p.stackSize p.mi tgt))
          (fun a ha => hf a.1 (mem_zipIdx_fst ha)) hk
        exact ⟨((vq_emit PV gs _).trans v).trans (vq_emit PV _ _), k⟩

theorem FreeAt.back {a b : List VReg} {t : Int} (h : FreeAt b t) (k : KeepUse a b) : FreeAt a t := by
  obtain ⟨i, e, hf⟩ := h
  refine ⟨i, e, ?_⟩
  intro r hr
  cases hu : r.inUse with
  | false => rfl
  | true =>
    have := hf r (k i r hr hu)
    rw [hu] at this; cases this

/-- result of an argument list: the new temporaries -/
structure ArgsRes (gs gs' : GS) (acc acc' : List Int) : Prop where
  vk : VK gs gs'
  new : ∃ nw, acc' = acc ++ nw ∧ LiveOK gs'.top.regs nw ∧ ∀ t ∈ nw, FreeAt gs.top.regs t

theorem vk_values : ∀ f : Nat,
    (∀ gs n tgt, valNames n = true → VK gs (dispatchValue f gs n tgt)) ∧
    (∀ gs n acc, valNames n = true →
      ArgsRes gs (dispatchCallArgs f gs n acc).1 acc (dispatchCallArgs f gs n acc).2) := by
  intro f
  induction f with
  | zero =>
    exact ⟨fun gs n tgt _ => by rw [dispatchValue_zero]; exact VK.refl _,
           fun gs n acc _ => by
            rw [dispatchCallArgs_zero]
            exact ⟨VK.refl _, [], by simp, LiveOK.nil _, fun _ h => by cases h⟩⟩
  | succ f ih =>
    refine ⟨?_, ?_⟩
    · intro gs n tgt hn
      cases n with
      | nil => rw [dispatchValue_nil]; exact VK.refl _
      | mk t tok file line l r =>
        rw [dispatchValue_succ]
        rw [valNames_mk] at hn
        have h0 := vk_advanceLine gs line file
        generalize gs.advanceLine line file = gs0 at h0
        refine h0.trans ?_
        by_cases h1 : t = NodeT.NAME
        · rw [if_pos h1]
          have hs : t ≠ NodeT.SPLIT := by rw [h1]; decide
          rw [if_neg hs, if_pos h1] at hn
          exact (vk_fetchVar gs0 tok hn).trans (vk_emit _ _)
        rw [if_neg h1]
        by_cases h2 : t = NodeT.NUMBER
        · rw [if_pos h2]
          exact (vk_genStrToInt _ _).trans (vk_emit _ _)
        rw [if_neg h2]
        by_cases h3 : t = NodeT.CALL
        · rw [if_pos h3]
          have hs : t ≠ NodeT.SPLIT := by rw [h3]; decide
          rw [if_neg hs, if_neg h1, if_pos h3] at hn
          obtain ⟨va, nw, e1, _, e3⟩ := ih.2 gs0 r [] hn
          have e1' : (dispatchCallArgs f gs0 r []).2 = nw := by simpa using e1
          obtain ⟨v, k⟩ := callTail_vk gs0.top.regs (dispatchCallArgs f gs0 r []).1 (dispatchCallArgs f gs0 r []).2 l r tgt
            (by rw [e1']; exact e3) va.keep
          exact ⟨va.vq.trans v, k⟩
        · rw [if_neg h3]
          exact vk_err _ _
    · intro gs n acc hn
      cases n with
      | nil =>
        rw [dispatchCallArgs_nil]
        exact ⟨VK.refl _, [], by simp, LiveOK.nil _, fun _ h => by cases h⟩
      | mk t tok file line l r =>
        rw [dispatchCallArgs_succ]
        by_cases h1 : t = NodeT.SPLIT
        · rw [if_pos h1]
          rw [valNames_mk, if_pos h1, Bool.and_eq_true] at hn
          obtain ⟨v1, n1, a1, b1, c1⟩ := ih.2 gs l acc hn.1
          obtain ⟨v2, n2, a2, b2, c2⟩ := ih.2 (dispatchCallArgs f gs l acc).1 r (dispatchCallArgs f gs l acc).2 hn.2
          refine ⟨v1.trans v2, n1 ++ n2, by rw [a2, a1, List.append_assoc], ?_, ?_⟩
          · exact (b1.keep v2.keep).append b2
          · intro t ht
            rcases List.mem_append.1 ht with ht | ht
            · exact c1 t ht
            · exact (c2 t ht).back v1.keep
        · rw [if_neg h1]
          dsimp only
          have ft := fetchTemporary_spec PV gs
          have hv := ih.1 gs.fetchTemporary.1 (.mk t tok file line l r) gs.fetchTemporary.2 hn
          refine ⟨(vk_fetchTemporary gs).trans hv, [gs.fetchTemporary.2], rfl, ?_, ?_⟩
          · intro x hx
            simp at hx
            subst hx
            obtain ⟨i, r', e1, e2, e3, e4⟩ := ft.reg
            exact ⟨i, r', e1, hv.keep i r' e2 e4, e3, e4⟩
          · intro x hx
            simp at hx
            subst hx
            exact ft.free

theorem vk_value (f : Nat) (gs : GS) (n : Node) (tgt : Int) (h : valNames n = true) :
    VK gs (dispatchValue f gs n tgt) := (vk_values f).1 gs n tgt h

theorem vk_args (f : Nat) (gs : GS) (n : Node) (acc : List Int) (h : valNames n = true) :
    ArgsRes gs (dispatchCallArgs f gs n acc).1 acc (dispatchCallArgs f gs n acc).2 := (vk_values f).2 gs n acc h

end GenShape
end Theo
