/-
  C07 for the generator model, part 8: one PROGRAM definition passes one round of `siteProgs`
  (`site_prog`): the header's line has no site (it is removed), the jump over the body stands
  exactly where the previous routine ended, the body's sites are the expected ones.
-/
import Theo.Proofs.GenSitesBody

set_option linter.unusedSimpArgs false
set_option linter.unusedVariables false

namespace Theo
namespace GenSites
open GS Sem Static GenShape Layout

/-! ### pieces without sites -/

theorem popFold_fsLine (marks : List (Bytes × Nat)) : ∀ (g : GS),
    (marks.foldl (fun g e => if (g.labels[e.2]?).getD (-1) = -1 then g.err GErrT.UNKNOWN_MARK else g) g).fsLine = g.fsLine := by
  induction marks with
  | nil => intro g; rfl
  | cons e es ih =>
    intro g
    simp only [List.foldl_cons]
    rw [ih]
    split <;> rfl

theorem nosite_popSymbols (gs : GS) (a : Int) : NoSite gs (gs.popSymbols a) := by
  refine NoSite.of_same (same_popSymbols _ _) ?_
  unfold popSymbols
  dsimp only
  exact popFold_fsLine _ _

theorem nosite_progPost (b : GS) (out : Bytes) (entry : Int) (after : Nat) : NoSite b (progPost b out entry after) := by
  unfold progPost
  dsimp only
  exact (((nosite_fetchVar b out).trans (nosite_emit _ (by intro h; cases h))).trans (nosite_popSymbols _ _)).trans
    (nosite_setLabel _ _ _)

theorem nosite_progPre (gs00 : GS) (nm : Bytes) : NoSite gs00.removeTopPotBreak (progPre gs00 nm).1 := by
  unfold progPre
  dsimp only
  exact ((nosite_createLabel _).trans (nosite_emitBackpatched _ (by intro h; cases h))).trans
    (NoSite.of_same (same_pushSymbols _ _) rfl)

theorem dispatchArgs_fsLine : ∀ (f : Nat) (gs : GS) (n : Node), (dispatchArgs f gs n).fsLine = gs.fsLine := by
  intro f
  induction f with
  | zero => intro gs n; rw [dispatchArgs_zero]
  | succ f ih =>
    intro gs n
    cases n with
    | nil => rw [dispatchArgs_nil]
    | mk t tok file line l r =>
      rw [dispatchArgs_succ]
      split
      · rw [ih, ih]
      · dsimp only
        rw [(nosite_fetchVar _ _).fsLine]
        split <;> rfl

theorem nosite_dispatchArgs (f : Nat) (gs : GS) (n : Node) : NoSite gs (dispatchArgs f gs n) :=
  NoSite.of_same (dispatchArgs_same f gs n) (dispatchArgs_fsLine f gs n)

theorem tinv_progPre {gs00 : GS} (h : TInv (fun _ => True) gs00.removeTopPotBreak) (nm : Bytes) :
    TInv (fun _ => True) (progPre gs00 nm).1 := by
  unfold progPre
  dsimp only
  exact (h.createLabel.emitBackpatched (by nofun) (by nofun)).pushSymbols _

/-! ### introduction rules of the validator -/

theorem regionSitesOK_ok (P : Program) (exp : List ESite) (lo hi : Nat)
    (h1 : sitePositions P.code lo hi = exp.map (·.1))
    (h2 : ∀ e ∈ exp, P.lineAt (e.1 : Int) = some ⟨e.2.1.1, e.2.1.2⟩) : regionSitesOK P exp lo hi = true := by
  unfold regionSitesOK
  rw [h1]
  simp only [beq_self_eq_true, Bool.true_and, List.all_eq_true]
  intro e he
  rw [h2 e he]
  simp [posOfBp]

theorem lineAt_of_mem (P : Program) (hLS : LiSorted P.lineInfo) {i : Int} {bp : BreakPoint} (h : (i, bp) ∈ P.lineInfo) :
    P.lineAt i = some bp := by
  unfold Program.lineAt
  exact (find_li_iff hLS i bp).2 h

theorem siteProgs_cons_ok (P : Program) (src : Source) (pd : ProgDef) (rest : List ProgDef) (k : Nat)
    (infos : List RInfo) (pc : Nat) (off : Int) (sm : StackMap) (exp : List ESite) (w : Walk) (kk : Nat) (prev : Prev)
    (h1 : P.code[pc]? = some (.jmp off)) (h2 : P.stackMaps[k]? = some sm)
    (h3 : sitesStmts ⟨P.code, src, ⟨pc + 1, k, sm.map⟩, k, infos⟩ pd.body ⟨pc + 1, [], []⟩ 0 none = some (exp, w, kk, prev))
    (h4 : regionSitesOK P exp (pc + 1) (skipc P.code w.pc + 1) = true) (h5 : jumpsExact exp w = true) :
    siteProgs P src (pd :: rest) k infos pc =
      siteProgs P src rest (k + 1) (infos ++ [⟨pc + 1, k, sm.map⟩]) (skipc P.code w.pc + 1) := by
  rw [siteProgs]
  simp only [h1, h2, h3]
  simp [h4, h5]

/-- the sites of a region of the final code are those of the generator's code there, named as expected -/
theorem region_ok (P : Program) (L : List Int) (code : List Instr) (lo : Nat) (t : List Instr) (exp : List ESite)
    (hag : Agree L code P.code) (h0 : 0 < lo) (hcode : code.length = lo + t.length)
    (ht : ∀ i, i < t.length → code[lo + i]? = t[i]?)
    (hpbs : pbPos t lo = exp.map (·.1))
    (hLS : LiSorted P.lineInfo) (hli : ∀ e ∈ exp, liOf e ∈ P.lineInfo) :
    regionSitesOK P exp lo code.length = true := by
  refine regionSitesOK_ok P exp lo _ ?_ ?_
  · rw [← hpbs]
    refine sitePositions_eq P.code t lo _ hcode ?_
    intro i hi
    rw [agree_pb_iff hag (by omega) (by omega), ht i hi]
  · intro e he
    exact lineAt_of_mem P hLS (hli e he)

/-! ### one definition -/

structure ProgOut (gs res : GS) (s2 : LSt) (exp : List ESite) : Prop where
  li : res.lineInfo = gs.lineInfo ++ exp.map liOf
  ctx : Ctx res s2

theorem site_prog (P : Program) (src : Source) (L : List Int) (f' : Nat) (gs gs00 : GS) (k0 : Nat)
    (l2 r2 : Node) (k : Nat) (infos : List RInfo) (ps rest : List ProgDef)
    (hc : gs00.code = gs.code ++ List.replicate k0 Instr.potBreak) (hk0 : k0 ≤ 1)
    (hsy : gs00.symbols = gs.symbols) (hsm : gs00.stackMaps = gs.stackMaps) (hfa : gs00.funcAddrs = gs.funcAddrs)
    (hlb : gs00.labels = gs.labels) (hlo : gs00.loops = gs.loops)
    (ti : TopInv src gs k infos)
    (hfa' : nodeSize l2.right.left ≤ f') (hfr : nodeSize r2 ≤ f')
    (hs : stmtShape r2 = true) (hn : stmtNames r2 = true) (hlab : labelsOK r2 = true) (hpn : progNames l2 = true)
    (hpd : src.progs[k]? = some ⟨l2.left.tok, namesOf l2.right.left, outNameOf l2.right.right, (stmtsOf r2 gs.loops ps).1⟩)
    (hst : Static.routineOK src k = true) (hnd : (namesOf l2.right.left).Nodup)
    (hag : Agree L (progRes f' gs00 l2 r2).code P.code)
    (hfin : ∀ (l : Nat) (v : Int), (progRes f' gs00 l2 r2).labels[l]? = some v → v ≠ -1 → (L[l]?).getD (-1) = v)
    (hM : (progRes f' gs00 l2 r2).stackMaps <+: P.stackMaps)
    (hrli : gs00.removeTopPotBreak.lineInfo = gs.lineInfo)
    (hrt : TInv (fun _ => True) gs00.removeTopPotBreak)
    (s1 s2 : LSt) (hrctx : Ctx gs00.removeTopPotBreak s1) (hfresh : s1.kind = LKind.fresh)
    (hlay : stmtLay r2 s1 = some s2)
    (hLI : (progRes f' gs00 l2 r2).lineInfo <+: P.lineInfo) (hLS : LiSorted P.lineInfo) :
    siteProgs P src (⟨l2.left.tok, namesOf l2.right.left, outNameOf l2.right.right, (stmtsOf r2 gs.loops ps).1⟩ :: rest)
        k infos gs.code.length =
      siteProgs P src rest (k + 1) (infos ++ [progRi f' gs gs00 k0 l2 r2 k]) (progRes f' gs00 l2 r2).code.length ∧
    ∃ exp, ProgOut gs (progRes f' gs00 l2 r2) s2 exp := by
  unfold progRes progRi at *
  have hk01 : k0 - 1 = 0 := by omega
  have hPV : ∀ x ∈ namesOf l2.right.left, PV x := by
    unfold progNames at hpn
    rw [Bool.and_eq_true, List.all_eq_true] at hpn
    exact hpn.1
  have hPVout : PV (outNameOf l2.right.right) := by
    unfold progNames at hpn
    rw [Bool.and_eq_true] at hpn
    exact hpn.2
  have pp := progPre_full gs00 l2.left.tok gs.code k0 hc ti.last
  obtain ⟨rtc, _⟩ := removeTop_spec gs00 gs.code k0 hc ti.last
  have np := nosite_progPre gs00 l2.left.tok
  have tp := tinv_progPre hrt l2.left.tok
  generalize hp1 : (progPre gs00 l2.left.tok).1 = p1 at *
  generalize hafter : (progPre gs00 l2.left.tok).2 = after at *
  have hp1top : p1.top = ⟨l2.left.tok, [], 0, []⟩ := top_of_symbols pp.symbols
  have as := args_spec f' p1 l2.right.left hfa' hnd (by intro x _ h; unfold regNames at h; rw [hp1top] at h; cases h)
  have na := nosite_dispatchArgs f' p1 l2.right.left
  have ta : TInv (fun _ => True) (dispatchArgs f' p1 l2.right.left) := tp.dispatchArgs f' _
  generalize dispatchArgs f' p1 l2.right.left = g at *
  -- the state at the start of the body
  have haft : after = gs.labels.length := by rw [pp.afterEq, hlb]
  have hgregs : g.top.regs = (namesOf l2.right.left).map (fun x => (⟨true, false, x⟩ : VReg)) := by
    rw [as.regs, hp1top]; rfl
  have hgmarks : g.top.marks = [] := by rw [as.marks, hp1top]
  have hgcode : g.code = (gs.code ++ List.replicate (k0 - 1) Instr.potBreak) ++ [.jmp (after : Int)] := by
    rw [as.code, pp.code, rtc]
  have hglabels : g.labels = gs.labels ++ [-1] := by rw [as.labels, pp.labels, hlb]
  have hgfa : g.funcAddrs = gs.funcAddrs := by rw [as.funcAddrs, pp.funcAddrs, hfa]
  have hgsm : g.stackMaps = gs.stackMaps := by rw [as.stackMaps, pp.stackMaps, hsm]
  have hgloops : g.loops = gs.loops := by rw [as.loops, pp.loops, hlo]
  have hgname : g.top.name = l2.left.tok := by rw [as.name, hp1top]
  have hglen : g.code.length = gs.code.length + (k0 - 1) + 1 := by rw [hgcode]; simp <;> omega
  have hgpos : 0 < g.code.length := by omega
  have hgpre : gs.code <+: g.code := by rw [hgcode, List.append_assoc]; exact prefix_append_self _ _
  have hgli : g.lineInfo = gs.lineInfo := by rw [na.lineInfo, np.lineInfo, hrli]
  have hgctx : Ctx g s1 := ⟨by rw [na.fsName, np.fsName]; exact hrctx.file, by rw [na.fsLine, np.fsLine]; exact hrctx.line⟩
  -- register invariants at the start of the body
  have tn_g : TempNamed g.top.regs := by
    intro r hr ht
    rw [hgregs] at hr
    obtain ⟨x, _, rfl⟩ := List.mem_map.1 hr
    cases ht
  have ntn_g : NTNodup g.top.regs := by
    unfold NTNodup
    rw [hgregs]
    have : (List.map (fun x => (⟨true, false, x⟩ : VReg)) (namesOf l2.right.left)).filter (fun r => !r.isTemp) =
        List.map (fun x => (⟨true, false, x⟩ : VReg)) (namesOf l2.right.left) := by
      rw [List.filter_eq_self]; intro r hr; obtain ⟨x, _, rfl⟩ := List.mem_map.1 hr; rfl
    rw [this, List.map_map]
    have : ((fun (r : VReg) => r.name) ∘ fun x => (⟨true, false, x⟩ : VReg)) = id := rfl
    rw [this, List.map_id]; exact hnd
  have ctr_g : CtrInv g.top.regs g.loops := by
    refine (CtrInv.nil g.loops).ext (fun i r h => by simp at h) ?_
    intro i r hr _ _
    rw [hgregs] at hr
    have hmem : r ∈ (namesOf l2.right.left).map (fun x => (⟨true, false, x⟩ : VReg)) := List.mem_iff_getElem?.2 ⟨i, hr⟩
    obtain ⟨x, hx, rfl⟩ := List.mem_map.1 hmem
    exact PV_noPrefix x (hPV x hx)
  -- the body
  have sq := sq_void f' g r2 hfr hs hn
  have st := step_void f' g r2
  have bfr := body_frame f' g r2 hfr hs hn hgmarks
  have fv := fetchVar_spec PV (dispatchVoid f' g r2) (outNameOf l2.right.right) hPVout
  have pq := progPost_full (dispatchVoid f' g r2) (outNameOf l2.right.right) g.nextPos after
  have nq := nosite_progPost (dispatchVoid f' g r2) (outNameOf l2.right.right) g.nextPos after
  have hbody : bodyOf src k = (stmtsOf r2 gs.loops ps).1 := by rw [bodyOf_at hpd]
  have hst' : stmtsOK src k (stmtsOf r2 g.loops ps).1 (stmtsOf r2 g.loops ps).1 = true := by
    unfold Static.routineOK at hst
    rw [hbody] at hst
    rw [hgloops]; exact hst
  have hsb := site_body (X := ⟨P.code, L, ((dispatchVoid f' g r2).fetchVar (outNameOf l2.right.right)).1.top.regs, src, k, infos,
      gs.code.length + (k0 - 1) + 1⟩)
    ⟨fv.vq.tn (sq.gq.tn tn_g), fv.vq.ntn (sq.gq.ntn ntn_g), ⟨_, fv.vq.ctr PV_noPrefix (sq.ctr ctr_g)⟩⟩
    f' g r2 hfr hs hn hlab ps hst' hgmarks (ti.head.mono hgpre) fv.vq.regs
  generalize hbb : dispatchVoid f' g r2 = bb at *
  generalize hres : progPost bb (outNameOf l2.right.right) g.nextPos after = res at *
  generalize hX : (⟨P.code, L, (bb.fetchVar (outNameOf l2.right.right)).1.top.regs, src, k, infos, gs.code.length + (k0 - 1) + 1⟩ : RC) = X at *
  have hXC : X.C = P.code := by rw [← hX]
  have hXL : X.L = L := by rw [← hX]
  have hbpre : bb.code <+: res.code := by rw [pq.code]; exact prefix_append_self _ _
  have hafl : after < bb.labels.length := by have := st.lablen; rw [hglabels] at this; simp at this; omega
  have hbafter : bb.labels[after]? = some (-1) := by
    rw [bfr after (by rw [hglabels]; simp; omega), hglabels, haft, getElem?_snoc_len]
  have hfin_bb : ∀ (l : Nat) (v : Int), bb.labels[l]? = some v → v ≠ -1 → (X.L[l]?).getD (-1) = v := by
    intro l v h1 h2
    rw [hXL]
    refine hfin l v ?_ h2
    rw [pq.labels]
    by_cases hl : l = after
    · subst hl; rw [hbafter] at h1; exact absurd (Option.some.inj h1).symm h2
    · rw [List.getElem?_set_ne (fun h => hl h.symm)]; exact h1
  have hfn : FuncInv X g := by
    intro f j pd hl
    rw [← hX] at hl
    obtain ⟨p, ri, a1, a2⟩ := ti.func f j pd hl
    refine ⟨p, ri, ?_, by rw [← hX]; exact a2⟩
    unfold lookupFunc at a1 ⊢
    rw [hgfa]; exact a1
  have hagX : Agree X.L res.code X.C := by rw [hXL, hXC]; exact hag
  obtain ⟨exp, w, kk, t, bo⟩ := hsb (by rw [hXL, hXC]; exact hag.of_prefix hbpre) hfn hfin_bb ta s1 s2 hlay hgctx hfresh
  have hresli : res.lineInfo = gs.lineInfo ++ exp.map liOf := by rw [nq.lineInfo, bo.li, hgli]
  refine ⟨?_, exp, hresli, ⟨by rw [nq.fsName]; exact bo.ctx.file, by rw [nq.fsLine]; exact bo.ctx.line⟩⟩
  -- the jump over the body
  have hgres : g.code <+: res.code := sq.gq.code.trans hbpre
  have hjmp : P.code[gs.code.length]? = some (.jmp ((L[after]?).getD (-1) - (gs.code.length : Int))) := by
    have := hag gs.code.length (.jmp (after : Int)) (head_pos ti.head)
      (prefix_getElem? hgres (by rw [hgcode, hk01]; simp))
    rw [this, patch_jmp]
  -- the stack map
  have hsmap : P.stackMaps[k]? = some ⟨l2.left.tok, smap (bb.fetchVar (outNameOf l2.right.right)).1.top.regs⟩ := by
    refine prefix_getElem? hM ?_
    rw [pq.stackMaps, sq.gq.stackMaps, hgsm, st.name, hgname, ← ti.nprogs, getElem?_snoc_len]
  -- RET
  have atw : At X w.pc bb := bo.ex.at (List.prefix_refl _) (hagX.of_prefix hbpre)
  have hpre2 : bb.code ++ .ret (bb.fetchVar (outNameOf l2.right.right)).2 :: [] <+: res.code := by rw [pq.code]; exact List.prefix_refl _
  have r3 := atw.skip_eq hpre2 hagX (by intro h; cases h)
  rw [hXC] at r3
  have hlen : res.code.length = skipc P.code w.pc + 1 := by rw [r3, pq.code]; simp
  have hg1 : g.code.length = gs.code.length + 1 := by rw [hglen, hk01]
  have hcp := siteProgs_cons_ok P src
    ⟨l2.left.tok, namesOf l2.right.left, outNameOf l2.right.right, (stmtsOf r2 gs.loops ps).1⟩ rest k infos gs.code.length
    ((L[after]?).getD (-1) - (gs.code.length : Int)) ⟨l2.left.tok, smap (bb.fetchVar (outNameOf l2.right.right)).1.top.regs⟩
    exp w kk (prevOf s2) hjmp hsmap
  rw [hlen]
  have hri : (⟨gs.code.length + (k0 - 1) + 1, k, smap (bb.fetchVar (outNameOf l2.right.right)).1.top.regs⟩ : RInfo) =
      ⟨gs.code.length + 1, k, smap (bb.fetchVar (outNameOf l2.right.right)).1.top.regs⟩ := by rw [hk01]
  rw [hri]
  refine hcp ?_ ?_ bo.jumps
  · have := bo.walk
    rw [← hX] at this
    simp only [RC.e] at this
    rw [hk01, hg1, hgloops] at this
    exact this
  · rw [← hlen]
    obtain ⟨tq, htq, _⟩ := nq.code
    refine region_ok P L res.code (gs.code.length + 1) (t ++ [.ret (bb.fetchVar (outNameOf l2.right.right)).2]) exp hag (by omega) ?_ ?_ ?_ hLS ?_
    · rw [pq.code, bo.code]; simp only [List.length_append, List.length_cons, List.length_nil, hg1]; omega
    · intro i hi
      rw [pq.code, bo.code, List.append_assoc, ← hg1, List.getElem?_append_right (Nat.le_add_right _ _), Nat.add_sub_cancel_left]
    · rw [pbPos_append, ← hg1, bo.pbs, pbPos_one (by intro h; cases h), List.append_nil]
    · intro e he
      refine hLI.subset ?_
      rw [hresli]
      exact List.mem_append_right _ (List.mem_map_of_mem (f := liOf) he)

end GenSites
end Theo
