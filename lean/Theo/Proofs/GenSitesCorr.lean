/-
  C07 for the generator model, part 5: `site_corr` — for a statement tree laid out one statement
  per line, the site walk of the validator succeeds on the generator's code, the expected sites
  are exactly the sites the generator emitted, the line table names their lines, and every label
  holds the position of its own site.
-/
import Theo.Proofs.GenSitesLoop

set_option linter.unusedSimpArgs false
set_option linter.unusedVariables false

namespace Theo
namespace GenSites
open GS Sem Static GenShape Layout

/-! ### the layout walk, unfolded -/

theorem stmtLay_nil (s : LSt) : stmtLay .nil s = some s := by rw [stmtLay]

theorem stmtLay_split {tok f : Bytes} {ln : Int} {l r : Node} {s s' : LSt}
    (h : stmtLay (.mk NodeT.SPLIT tok f ln l r) s = some s') :
    splitOK s f ln l = true ∧ ∃ s1, stmtLay l s = some s1 ∧ stmtLay r s1 = some s' := by
  rw [stmtLay, if_pos rfl] at h
  by_cases hs : splitOK s f ln l = true
  · rw [if_pos hs] at h
    refine ⟨hs, ?_⟩
    cases h1 : stmtLay l s with
    | none => rw [h1] at h; cases h
    | some s1 => rw [h1] at h; exact ⟨s1, rfl, h⟩
  · rw [if_neg hs] at h; cases h

/-- a statement or label node: not in the standard file, on a new line (clauses 1–3), and … -/
theorem stmtLay_stmt {t : Nat} {tok f : Bytes} {ln : Int} {l r : Node} {s s' : LSt} (h1 : t ≠ NodeT.SPLIT)
    (h : stmtLay (.mk t tok f ln l r) s = some s') :
    isStd f = false ∧
    (decide (f = s.file) && decide (ln = s.line) && !(decide (s.kind = LKind.mark) && t != NodeT.MARK)) = false ∧
    (if t = NodeT.ASSIGN then
        (if valLay f ln false r then some (⟨f, ln, .stmt⟩ : LSt) else none)
      else if t = NodeT.LOOP ∨ t = NodeT.WHILE then
        (if valLay f ln false l then
          (match stmtLay r ⟨f, ln, .stmt⟩ with
           | some s1 => some (⟨s1.file, s1.line, .fresh⟩ : LSt)
           | none => none)
         else none)
      else if t = NodeT.IF then
        (if valLay f ln false l.left && valLay f ln false l.right then some (⟨f, ln, .stmt⟩ : LSt) else none)
      else if t = NodeT.MARK then some (⟨f, ln, .mark⟩ : LSt)
      else some (⟨f, ln, .stmt⟩ : LSt)) = some s' := by
  rw [stmtLay, if_neg h1] at h
  by_cases hstd : isStd f = true
  · rw [if_pos hstd] at h; cases h
  · rw [if_neg hstd] at h
    simp only at h
    by_cases hc : (decide (f = s.file) && decide (ln = s.line) && !(decide (s.kind = LKind.mark) && t != NodeT.MARK)) = true
    · rw [if_pos hc] at h; cases h
    · rw [if_neg hc] at h
      exact ⟨by simpa using hstd, by simpa using hc, h⟩

theorem cond_nonmark {f : Bytes} {ln : Int} {s : LSt} {t : Nat} (ht : t ≠ NodeT.MARK)
    (h : (decide (f = s.file) && decide (ln = s.line) && !(decide (s.kind = LKind.mark) && t != NodeT.MARK)) = false) :
    (decide (f = s.file) && decide (ln = s.line) && !decide (s.kind = LKind.mark)) = false := by
  have : (t != NodeT.MARK) = true := by simpa using ht
  rw [this, Bool.and_true] at h
  exact h

theorem cond_mark {f : Bytes} {ln : Int} {s : LSt}
    (h : (decide (f = s.file) && decide (ln = s.line) && !(decide (s.kind = LKind.mark) && NodeT.MARK != NodeT.MARK)) = false) :
    (decide (f = s.file) && decide (ln = s.line)) = false := by
  simpa using h

/-- clause 6: the position of a sequencing node never matters -/
theorem split_absorb (f : Nat) (gs : GS) (s : LSt) (hctx : Ctx gs s) (file : Bytes) (line : Int) (l : Node)
    (hf : nodeSize l ≤ f) (h : splitOK s file line l = true) :
    dispatchVoid f (gs.advanceLine line file) l = dispatchVoid f gs l := by
  unfold splitOK at h
  rw [Bool.or_eq_true] at h
  rcases h with h | h
  · rw [advanceLine_onLine gs line file (by rw [hctx.file, hctx.line]; exact h)]
  · cases l with
    | nil => simp [nodeIsNil] at h
    | mk t' tok' f' ln' l' r' =>
      simp only [Node.file, Node.line, Bool.and_eq_true] at h
      obtain ⟨⟨_, h2⟩, h3⟩ := h
      have h2' := of_decide_eq_true h2
      have h3' := of_decide_eq_true h3
      subst h2'; subst h3'
      obtain ⟨f2, rfl⟩ : ∃ f2, f = f2 + 1 := ⟨f - 1, by simp only [nodeSize] at hf; omega⟩
      exact dispatchVoid_adv f2 gs t' tok' f' ln' l' r'

/-! ### loops, assembled -/

theorem loop_end_exact {X : RC} {res b : GS} {w' : Walk} (hat : At X w'.pc res) (h0 : 0 < w'.pc)
    (hreal : X.C[w'.pc - 1]? ≠ some Instr.potBreak)
    (hrc : ∃ t, (∀ i ∈ t, i ≠ Instr.potBreak) ∧ (∃ i, t.getLast? = some i) ∧ res.code = b.code ++ t)
    (hb : 0 < b.code.length) (ha : Agree X.L res.code X.C) : w'.pc = res.code.length := by
  obtain ⟨t, hclean, ⟨i, hi⟩, hcode⟩ := hrc
  have htl : 0 < t.length := by
    cases t with
    | nil => simp at hi
    | cons x xs => simp
  have hlen : res.code.length = b.code.length + t.length := by rw [hcode]; simp
  refine pc_exact hat.eq h0 hreal (by omega) ?_
  intro hc
  have hc2 := (agree_pb_iff ha (p := res.code.length - 1) (by omega) (by omega)).1 hc
  have hget := List.getElem?_append_right (l₁ := b.code) (l₂ := t) (i := res.code.length - 1) (by omega)
  rw [← hcode] at hget
  rw [hget] at hc2
  exact hclean _ (List.mem_of_getElem? hc2) rfl

theorem loop_out {X : RC} {gs gs0 m1 b res : GS} {back : Nat} {s s1 : LSt} {file : Bytes} {line : Int}
    {w wb' w' : Walk} {k kb : Nat} {mv : Bool} {r : Node} {n : Node} {st : Stmt} {body : Stmts}
    {lb : List ESite} {tb : List Instr}
    (hd : Hdr gs gs0 s file line w k mv) (hex : Ex gs w k) (facts : LoopFacts X gs0 m1 b res back)
    (ob : SiteOut X m1 b r body { w with pc := w.pc + (if mv then k + 1 else k) + 2 } 0 ⟨file, line, .stmt⟩ s1 lb wb' kb tb)
    (hwalk : sitesStmts X.e (.cons st .nil) w k (prevOf s) = some (hereL w k file line none mv ++ lb, w', 0, none))
    (hw' : w'.pc = res.code.length) (hdefs : defsOf n = defsOf r) :
    ∃ t, SiteOut X gs res n (.cons st .nil) w k s ⟨s1.file, s1.line, .fresh⟩ (hereL w k file line none mv ++ lb) w' 0 t := by
  obtain ⟨i1, i2, hi1, hi2, mcode⟩ := facts.mcode
  obtain ⟨tr, hclean, _, rcode⟩ := facts.rcode
  obtain ⟨p1, p2, p3⟩ := hd.pbs hex none
  have hm1len : m1.code.length = gs0.code.length + 2 := by rw [mcode]; simp
  have hrpos : 0 < res.code.length := by rw [rcode, ob.code, mcode]; simp; omega
  refine ⟨(if mv then [Instr.potBreak] else []) ++ [i1, i2] ++ tb ++ tr, hwalk, Ex.exact (by omega) hw', ?_, ?_, ?_, ?_, ?_,
    ⟨by rw [facts.rfsName]; exact ob.ctx.file, by rw [facts.rfsLine]; exact ob.ctx.line⟩⟩
  · rw [rcode, ob.code, mcode, hd.code]; simp only [List.append_assoc]
  · rw [pbPos_append, pbPos_append, pbPos_append, p1, pbPos_clean tr _ hclean, List.append_nil, List.map_append]
    have e1 : pbPos [i1, i2] (gs.code.length + (if mv then [Instr.potBreak] else []).length) = [] :=
      pbPos_clean _ _ (by intro i hi; simp at hi; rcases hi with rfl | rfl <;> assumption)
    rw [e1, List.append_nil]
    have e2 : gs.code.length + ((if mv then [Instr.potBreak] else []) ++ [i1, i2]).length = m1.code.length := by
      rw [hm1len, p3]; simp; omega
    rw [e2, ob.pbs]
  · rw [facts.rli, ob.li, facts.mli, p2, List.map_append, List.append_assoc]
  · rw [List.filterMap_append, ob.names, hdefs]
    unfold hereL; cases mv <;> simp
  · intro m p hp
    have hf : (hereL w k file line none mv ++ lb).filter (fun e => decide (e.2.2 = some m)) =
        lb.filter (fun e => decide (e.2.2 = some m)) := by
      unfold hereL; cases mv <;> simp [List.filter_cons]
    rw [hf] at hp
    obtain ⟨lab, k1, k2⟩ := ob.last m p hp
    exact ⟨lab, facts.rmarks ▸ k1, by rw [facts.rlabels m lab k1]; exact k2⟩

end GenSites
end Theo
