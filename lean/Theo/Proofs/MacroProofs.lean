/-
  Helper lemmas for C10 / C11 (and later C09, C12): the pass loop and temporary names.
-/
import Theo.Model.Gen
import Theo.Spec.Tokenisation

namespace Theo

/-! ### decimal digits -/

def isDigitByte (c : UInt8) : Prop := 48 ≤ c ∧ c ≤ 57

/-- the character a digit byte came from -/
def byteChar (b : UInt8) : Char := Char.ofNat b.toNat

theorem digit_bounds (c : Char) (h : c.isDigit = true) : 48 ≤ c.toNat ∧ c.toNat ≤ 57 := by
  simp only [Char.isDigit, Bool.and_eq_true, decide_eq_true_eq, ge_iff_le] at h
  obtain ⟨a1, a2⟩ := h
  rw [UInt32.le_iff_toNat_le] at a1 a2
  exact ⟨a1, a2⟩

theorem byteChar_of_isDigit (c : Char) (h : c.isDigit = true) :
    byteChar (c.toNat.toUInt8) = c := by
  have hb := digit_bounds c h
  have : c.toNat % 256 = c.toNat := Nat.mod_eq_of_lt (by omega)
  simp only [byteChar, Nat.toUInt8, UInt8.toNat_ofNat', this]
  exact Char.ofNat_toNat c

theorem isDigitByte_of_isDigit (c : Char) (h : c.isDigit = true) :
    isDigitByte (c.toNat.toUInt8) := by
  have hb := digit_bounds c h
  have : c.toNat % 256 = c.toNat := Nat.mod_eq_of_lt (by omega)
  constructor <;> rw [UInt8.le_iff_toNat_le] <;> simp only [Nat.toUInt8, UInt8.toNat_ofNat', this]
  · exact hb.1
  · exact hb.2

theorem natDigits_isDigit (n : Nat) : ∀ c ∈ natDigits n, isDigitByte c := by
  intro c hc
  simp only [natDigits, List.mem_map] at hc
  obtain ⟨ch, hch, rfl⟩ := hc
  exact isDigitByte_of_isDigit ch (Nat.isDigit_of_mem_toDigits (by decide) (by decide) hch)

theorem natDigits_map_byteChar (n : Nat) : (natDigits n).map byteChar = Nat.toDigits 10 n := by
  simp only [natDigits, List.map_map]
  conv => rhs; rw [← List.map_id (Nat.toDigits 10 n)]
  apply List.map_congr_left
  intro ch hch
  exact byteChar_of_isDigit ch (Nat.isDigit_of_mem_toDigits (by decide) (by decide) hch)

theorem natDigits_inj {n m : Nat} (h : natDigits n = natDigits m) : n = m := by
  have h1 : Nat.toDigits 10 n = Nat.toDigits 10 m := by
    rw [← natDigits_map_byteChar, ← natDigits_map_byteChar, h]
  have h2 := congrArg (fun l => Nat.ofDigitChars 10 l 0) h1
  simpa using h2

/-! ### temporary names -/

/-- the maximal run with property `P` at the head of a list is determined by the list -/
theorem run_unique {α} (P : α → Prop) : ∀ (d d' : List α) (x x' : α) (r r' : List α),
    (∀ c ∈ d, P c) → (∀ c ∈ d', P c) → ¬ P x → ¬ P x' →
    d ++ x :: r = d' ++ x' :: r' → d = d' := by
  intro d
  induction d with
  | nil =>
    intro d' x x' r r' _ hd' hx _ h
    cases d' with
    | nil => rfl
    | cons c d' =>
      simp only [List.nil_append, List.cons_append, List.cons.injEq] at h
      exact absurd (h.1 ▸ hd' c (by simp)) hx
  | cons a d ih =>
    intro d' x x' r r' hd hd' hx hx' h
    cases d' with
    | nil =>
      simp only [List.nil_append, List.cons_append, List.cons.injEq] at h
      exact absurd (h.1 ▸ hd a (by simp)) hx'
    | cons c d' =>
      simp only [List.cons_append, List.cons.injEq] at h
      rw [h.1, ih d' x x' r r' (fun c hc => hd c (by simp [hc])) (fun c hc => hd' c (by simp [hc])) hx hx' h.2]

theorem tempName_reverse (t f : Bytes) (l : Int) (p : Nat) :
    (tempName t f l p).reverse =
      41 :: ((natDigits p).reverse ++ 77 :: (40 :: 95 :: ((intDec l).reverse ++ 58 :: (f.reverse ++ 58 :: t.reverse)))) := by
  simp [tempName]

theorem tempName_pass_inj (t t' f f' : Bytes) (l l' : Int) (p p' : Nat)
    (h : tempName t f l p = tempName t' f' l' p') : p = p' := by
  have h1 := congrArg List.reverse h
  rw [tempName_reverse, tempName_reverse] at h1
  simp only [List.cons.injEq, true_and] at h1
  have h2 := run_unique isDigitByte _ _ _ _ _ _
    (fun c hc => natDigits_isDigit p c (List.mem_reverse.mp hc))
    (fun c hc => natDigits_isDigit p' c (List.mem_reverse.mp hc))
    (by unfold isDigitByte; decide) (by unfold isDigitByte; decide) h1
  exact natDigits_inj (List.reverse_inj.mp h2)

theorem tempName_eq_append (t f : Bytes) (l : Int) (p : Nat) :
    tempName t f l p = t ++ ([58] ++ f ++ [58] ++ intDec l ++ [95, 40, 77] ++ natDigits p ++ [41]) := by
  simp [tempName]

theorem tempName_text_inj (a b f : Bytes) (l : Int) (p : Nat) :
    tempName a f l p = tempName b f l p ↔ a = b := by
  rw [tempName_eq_append, tempName_eq_append]
  exact List.append_left_inj _

theorem colon_mem_tempName (t f : Bytes) (l : Int) (p : Nat) : (58 : UInt8) ∈ tempName t f l p := by
  simp [tempName]

/-! ### replacement -/

theorem mem_getD_getElem? {α} {l : List (List α)} {i : Nat} {t : α}
    (h : t ∈ (l[i]?).getD []) : ∃ ts ∈ l, t ∈ ts := by
  cases hi : l[i]? with
  | none => simp [hi] at h
  | some ts =>
    rw [hi] at h
    exact ⟨ts, List.mem_of_getElem? hi, h⟩

theorem replacement_no_temp (m : MacroDef) (r : Response) (pass : Nat)
    (hm : ∀ ts ∈ r.matched, ∀ t ∈ ts, t.kind ≠ Tok.TEMP_VAL) :
    ∀ tok ∈ replacement m r pass, tok.kind ≠ Tok.TEMP_VAL := by
  intro tok htok
  simp only [replacement, List.mem_flatMap] at htok
  obtain ⟨cand, _, hc⟩ := htok
  split at hc
  · split at hc
    · obtain ⟨ts, hts, ht⟩ := mem_getD_getElem? hc
      exact hm ts hts tok ht
    · simp at hc
  · split at hc
    · simp only [List.mem_singleton] at hc
      subst hc
      show Tok.ID ≠ Tok.TEMP_VAL
      decide
    · simp only [List.mem_singleton] at hc
      subst hc
      assumption

theorem replacement_temp_mem (m : MacroDef) (r : Response) (pass : Nat) (cand : Token)
    (hc : cand ∈ m.body) (hk : cand.kind = Tok.TEMP_VAL) :
    { cand with kind := Tok.ID,
                text := tempName cand.text (m.body.head?.getD default).file (m.body.head?.getD default).line pass }
      ∈ replacement m r pass := by
  simp only [replacement, List.mem_flatMap]
  refine ⟨cand, hc, ?_⟩
  have h1 : ¬ cand.kind = Tok.INSERTION := by rw [hk]; decide
  rw [if_neg h1, if_pos hk]
  exact List.mem_singleton.mpr rfl

/-! ### identifiers contain no colon -/

theorem star_cls_bytes {rs : List (UInt8 × UInt8)} {r : Rx} {s : Bytes} (h : r.Matches s)
    (hr : r = Rx.star (Rx.cls rs)) : ∀ c ∈ s, inRanges rs c = true := by
  induction h with
  | starNil => simp
  | starCons h1 _ _ ih2 =>
    cases hr
    cases h1 with
    | cls hc =>
      intro c hcm
      simp only [List.cons_append, List.nil_append, List.mem_cons] at hcm
      rcases hcm with rfl | hcm
      · exact hc
      · exact ih2 rfl c hcm
  | _ => cases hr

theorem ident_no_colon (s : Bytes)
    (h : (Rx.seq (Rx.cls [(97, 122), (65, 90), (95, 95)])
            (Rx.star (Rx.cls [(97, 122), (65, 90), (48, 57), (95, 95)]))).Matches s) :
    (58 : UInt8) ∉ s := by
  cases h with
  | seq h1 h2 =>
    cases h1 with
    | cls hc =>
      intro hmem
      simp only [List.cons_append, List.nil_append, List.mem_cons] at hmem
      rcases hmem with rfl | hmem
      · revert hc; decide
      · have := star_cls_bytes h2 rfl _ hmem
        revert this; decide

/-! ### the pass loop -/

theorem applyStep_isSome_indep (bs : List (List Detector)) (inp : List Token) (p q : Nat) :
    (applyStep bs inp p).isSome = (applyStep bs inp q).isSome := by
  induction bs with
  | nil => rfl
  | cons b rest ih =>
    simp only [applyStep]
    generalize pickBest (b.filterMap (fun d => (detect d inp).map (fun r => (d, r)))) = o
    cases o with
    | none => exact ih
    | some dr => rfl

theorem applyStep_none_indep (bs : List (List Detector)) (inp : List Token) (p q : Nat)
    (h : applyStep bs inp p = none) : applyStep bs inp q = none := by
  have := applyStep_isSome_indep bs inp p q
  rw [h] at this
  cases hq : applyStep bs inp q with
  | none => rfl
  | some x => rw [hq] at this; cases this

theorem passLoop_succ (bs : List (List Detector)) (left pass : Nat) (inp : List Token) (n : Nat) :
    passLoop bs (left + 1) pass inp n =
      (match applyStep bs inp pass with
       | some (_, _, inp') => passLoop bs left (pass + 1) inp' (n + 1)
       | none => (inp, n, false)) := by
  rfl

theorem passLoop_count (bs : List (List Detector)) (left pass : Nat) (inp : List Token) (n : Nat) :
    n ≤ (passLoop bs left pass inp n).2.1 ∧ (passLoop bs left pass inp n).2.1 ≤ n + left := by
  induction left generalizing pass inp n with
  | zero => simp [passLoop]
  | succ left ih =>
    rw [passLoop_succ]
    cases h : applyStep bs inp pass with
    | none => simp
    | some x =>
      obtain ⟨d, r, inp'⟩ := x
      have := ih (pass + 1) inp' (n + 1)
      simp only
      omega

theorem passLoop_fixpoint (bs : List (List Detector)) (left pass : Nat) (inp : List Token) (n : Nat)
    (hf : (passLoop bs left pass inp n).2.2 = false) (q : Nat) :
    applyStep bs (passLoop bs left pass inp n).1 q = none := by
  induction left generalizing pass inp n with
  | zero => simp [passLoop] at hf
  | succ left ih =>
    rw [passLoop_succ] at hf ⊢
    cases h : applyStep bs inp pass with
    | none => exact applyStep_none_indep bs inp pass q h
    | some x =>
      obtain ⟨d, r, inp'⟩ := x
      rw [h] at hf
      exact ih (pass + 1) inp' (n + 1) hf

/-! ### `applyMacros` -/

/-- the error added when the budget runs out -/
def maxPassesErr : PErr := ⟨PErrT.MACRO_APPLY_REACHED_MAX_PASSES, bDash, -1, []⟩

theorem applyMacros_zero (inp : List Token) (defs : List MacroDef) :
    (applyMacros inp defs 0).rewrites = 0 := rfl

theorem applyMacros_succ_toks (inp : List Token) (defs : List MacroDef) (k : Nat) :
    (applyMacros inp defs (k + 1)).toks =
      (passLoop (bins ((defs.map mkDetector).filter (·.usable))) (k + 1) 0 inp 0).1 := rfl

theorem applyMacros_succ_rewrites (inp : List Token) (defs : List MacroDef) (k : Nat) :
    (applyMacros inp defs (k + 1)).rewrites =
      (passLoop (bins ((defs.map mkDetector).filter (·.usable))) (k + 1) 0 inp 0).2.1 := rfl

theorem applyMacros_succ_errs_true (inp : List Token) (defs : List MacroDef) (k : Nat)
    (h : (passLoop (bins ((defs.map mkDetector).filter (·.usable))) (k + 1) 0 inp 0).2.2 = true) :
    maxPassesErr ∈ (applyMacros inp defs (k + 1)).errs := by
  simp only [applyMacros]
  generalize passLoop _ _ _ _ _ = r at h
  obtain ⟨a, b, c⟩ := r
  simp only at h
  simp [h, maxPassesErr]

theorem applyMacros_rewrites_le (inp : List Token) (defs : List MacroDef) (passes : Nat) :
    (applyMacros inp defs passes).rewrites ≤ passes := by
  cases passes with
  | zero => simp [applyMacros_zero]
  | succ k =>
    rw [applyMacros_succ_rewrites]
    have := (passLoop_count (bins ((defs.map mkDetector).filter (·.usable))) (k + 1) 0 inp 0).2
    omega

/-- either the budget ran out (and the error is present) or the result is a fixed point -/
theorem applyMacros_flag_or_fixpoint (inp : List Token) (defs : List MacroDef) (passes : Nat)
    (hp : 1 ≤ passes) :
    maxPassesErr ∈ (applyMacros inp defs passes).errs ∨
    ∀ q, applyStep (bins ((defs.map mkDetector).filter (·.usable))) (applyMacros inp defs passes).toks q = none := by
  obtain ⟨k, rfl⟩ : ∃ k, passes = k + 1 := ⟨passes - 1, by omega⟩
  cases hf : (passLoop (bins ((defs.map mkDetector).filter (·.usable))) (k + 1) 0 inp 0).2.2 with
  | true => exact Or.inl (applyMacros_succ_errs_true inp defs k hf)
  | false =>
    right
    intro q
    rw [applyMacros_succ_toks]
    exact passLoop_fixpoint _ _ _ _ _ hf q

/-! ### errors survive code generation -/

theorem GS.err_errors_length (g : GS) (k : Nat) : g.errors.length ≤ (g.err k).errors.length := by
  simp [GS.err]

theorem foldl_errors_mono {β} (f : GS → β → GS)
    (hf : ∀ g x, g.errors.length ≤ (f g x).errors.length) (l : List β) (g : GS) :
    g.errors.length ≤ (l.foldl f g).errors.length := by
  induction l generalizing g with
  | nil => simp
  | cons x xs ih => exact Nat.le_trans (hf g x) (ih (f g x))

theorem GS.popSymbols_errors_length (g : GS) (a : Int) :
    g.errors.length ≤ (g.popSymbols a).errors.length := by
  simp only [GS.popSymbols]
  apply foldl_errors_mono
  intro g x
  split
  · exact GS.err_errors_length g _
  · exact Nat.le_refl _

theorem backpatchOne_errors_length (g : GS) (loc : Nat) :
    g.errors.length ≤ (backpatchOne g loc).errors.length := by
  unfold backpatchOne
  split
  · simp only
    split
    · exact GS.err_errors_length g _
    · exact Nat.le_refl _
  · simp only
    split
    · exact GS.err_errors_length g _
    · exact Nat.le_refl _
  · exact GS.err_errors_length g _

theorem backpatch_errors_length (g : GS) : g.errors.length ≤ (backpatch g).errors.length := by
  unfold backpatch
  exact foldl_errors_mono backpatchOne backpatchOne_errors_length g.todo { g with todo := [] }

/-- what `gen` does after the dispatch -/
def genTail (gs : GS) : GS :=
  let gs := gs.popSymbols 0
  let gs :=
    match gs.lookupFunc bRoot, gs.code with
    | some p, .prepare _ _ t :: rest => { gs with code := .prepare p.stackSize p.mi t :: rest }
    | _, _ => gs
  let gs := gs.emit .halt
  backpatch gs

theorem genTail_errors_length (g : GS) : g.errors.length ≤ (genTail g).errors.length := by
  unfold genTail
  refine Nat.le_trans ?_ (backpatch_errors_length _)
  simp only [GS.emit]
  split
  · exact GS.popSymbols_errors_length g 0
  · exact GS.popSymbols_errors_length g 0

theorem gen_errors_eq (a : AST) :
    (gen a).errors =
      (genTail
        (if !a.ok then
          { ((({} : GS).emit (.prepare (-1) (-1) 0)).pushSymbols bRoot) with
            errors := ((({} : GS).emit (.prepare (-1) (-1) 0)).pushSymbols bRoot).errors ++
              a.errs.map (fun e => ⟨GErrT.PARSE_ERROR, e.file, e.line⟩) }
         else dispatchVoid (nodeSize a.root + 1) ((({} : GS).emit (.prepare (-1) (-1) 0)).pushSymbols bRoot) a.root)).errors :=
  rfl

theorem gen_errors_length (a : AST) (h : a.ok = false) : a.errs.length ≤ (gen a).errors.length := by
  rw [gen_errors_eq, h]
  refine Nat.le_trans ?_ (genTail_errors_length _)
  simp [GS.pushSymbols, GS.emit]

theorem gen_ok_eq (a : AST) : (gen a).ok = (gen a).errors.isEmpty := rfl

theorem gen_not_ok (a : AST) (h : a.ok = false) (hne : a.errs ≠ []) : (gen a).ok = false := by
  rw [gen_ok_eq]
  have h1 := gen_errors_length a h
  have h2 : 0 < a.errs.length := List.length_pos_iff.mpr hne
  cases he : (gen a).errors with
  | nil => rw [he, List.length_nil] at h1; omega
  | cons x xs => rfl

theorem parseFiles_ok_eq (files : Files) (main : Bytes) (passes : Nat) :
    (parseFiles files main passes).ast.ok = (parseFiles files main passes).ast.errs.isEmpty := by
  simp only [parseFiles]

theorem compile_ok_eq (files : Files) (main : Bytes) :
    (compile files main).ok = (gen (parseFiles files main).ast).ok := by
  simp only [compile]

theorem parse_error_not_passed_on (files : Files) (main : Bytes)
    (h : (parseFiles files main).ast.errs ≠ []) :
    (parseFiles files main).ast.ok = false ∧ (compile files main).ok = false := by
  have h1 : (parseFiles files main).ast.ok = false := by
    rw [parseFiles_ok_eq]
    cases he : (parseFiles files main).ast.errs with
    | nil => exact absurd he h
    | cons x xs => rfl
  exact ⟨h1, by rw [compile_ok_eq]; exact gen_not_ok _ h1 h⟩

/-- any parse-stage error (whatever its kind) makes the parse and the compilation incorrect -/
theorem any_error_not_passed_on (files : Files) (main : Bytes) (k : SynKind) :
    (∃ e ∈ (parseFiles files main).ast.errs, e.kind = k) →
    (parseFiles files main).ast.ok = false ∧ (compile files main).ok = false := by
  intro hex
  obtain ⟨e, he, _⟩ := hex
  exact parse_error_not_passed_on files main (List.ne_nil_of_mem he)

end Theo
