/-
  Converse of C12/C13 ("LR(1) in Knuth's sense ⇒ no conflict"), part 1:
  rightmost derivations — composition, contexts, derivation trees as rightmost derivations,
  the last step of the derivation of a terminal string, trees from sentential-form derivations,
  and the symbols that can occur in right sentential forms of an augmented grammar.
-/
import Theo.Spec.KnuthLR
import Theo.Proofs.LRComplete

namespace Theo
namespace LRConverse
open LRSound LRComplete FirstProofs

/-! ## terminal strings -/

theorem tsyms_nil : tsyms [] = [] := rfl
theorem tsyms_cons (a : Nat) (w : List Nat) : tsyms (a :: w) = Sym.t a :: tsyms w := rfl
theorem tsyms_append (a b : List Nat) : tsyms (a ++ b) = tsyms a ++ tsyms b := List.map_append
theorem tsyms_length (a : List Nat) : (tsyms a).length = a.length := List.length_map _

theorem tsyms_inj : ∀ (a b : List Nat), tsyms a = tsyms b → a = b := by
  intro a
  induction a with
  | nil => intro b h; cases b with
    | nil => rfl
    | cons y b => simp [tsyms] at h
  | cons x a ih =>
    intro b h
    cases b with
    | nil => simp [tsyms] at h
    | cons y b =>
      simp only [tsyms_cons, List.cons.injEq, Sym.t.injEq] at h
      rw [h.1, ih b h.2]

theorem n_not_mem_tsyms (A : Nat) (w : List Nat) : Sym.n A ∉ tsyms w := by
  intro h
  simp only [tsyms, List.mem_map] at h
  obtain ⟨a, _, h⟩ := h
  cases h

/-- splitting a sentential form at its last non-terminal is unique -/
theorem last_nt_unique : ∀ (α γ : List Sym) (A B : Nat) (w x : List Nat),
    α ++ Sym.n A :: tsyms w = γ ++ Sym.n B :: tsyms x → α = γ ∧ A = B ∧ w = x := by
  intro α
  induction α with
  | nil =>
    intro γ A B w x h
    cases γ with
    | nil =>
      simp only [List.nil_append, List.cons.injEq, Sym.n.injEq] at h
      exact ⟨rfl, h.1, tsyms_inj _ _ h.2⟩
    | cons s γ =>
      exfalso
      simp only [List.nil_append, List.cons_append, List.cons.injEq] at h
      have : Sym.n B ∈ tsyms w := by rw [h.2]; simp
      exact n_not_mem_tsyms _ _ this
  | cons s α ih =>
    intro γ A B w x h
    cases γ with
    | nil =>
      exfalso
      simp only [List.nil_append, List.cons_append, List.cons.injEq] at h
      have : Sym.n A ∈ tsyms x := by rw [← h.2]; simp
      exact n_not_mem_tsyms _ _ this
    | cons s' γ =>
      simp only [List.cons_append, List.cons.injEq] at h
      obtain ⟨h1, h2, h3⟩ := ih γ A B w x h.2
      exact ⟨by rw [h.1, h1], h2, h3⟩

/-! ## rightmost derivations -/

theorem rd_trans {g : Grammar} {a b c : List Sym} (h1 : RDerives g a b) (h2 : RDerives g b c) :
    RDerives g a c := by
  induction h2 with
  | refl => exact h1
  | tail _ hs ih => exact RDerives.tail ih hs

theorem rstep_ctx {g : Grammar} {a b : List Sym} (π : List Sym) (w : List Nat) (h : RStep g a b) :
    RStep g (π ++ a ++ tsyms w) (π ++ b ++ tsyms w) := by
  cases h with
  | mk α A k β w0 hk =>
    have := RStep.mk (g := g) (π ++ α) A k β (w0 ++ w) hk
    simpa [tsyms_append, List.append_assoc] using this

theorem rd_ctx {g : Grammar} {a b : List Sym} (π : List Sym) (w : List Nat) (h : RDerives g a b) :
    RDerives g (π ++ a ++ tsyms w) (π ++ b ++ tsyms w) := by
  induction h with
  | refl => exact RDerives.refl
  | tail _ hs ih => exact RDerives.tail ih (rstep_ctx π w hs)

theorem rd_step {g : Grammar} {A k : Nat} {β : List Sym} (α : List Sym) (w : List Nat)
    (hk : (g.alts A)[k]? = some β) :
    RDerives g (α ++ Sym.n A :: tsyms w) (α ++ β ++ tsyms w) :=
  RDerives.tail (RDerives.refl) (RStep.mk α A k β w hk)

/-- a derivation tree, read as a rightmost derivation in any right-terminal context -/
theorem tree_forest_rd (g : Grammar) : ∀ n : Nat,
    (∀ t : Tree, tsize t ≤ n → t.Valid g → ∀ (π : List Sym) (w : List Nat),
      RDerives g (π ++ t.root :: tsyms w) (π ++ tsyms t.yield ++ tsyms w)) ∧
    (∀ f : Forest, fsize f ≤ n → f.Valid g → ∀ (π : List Sym) (w : List Nat),
      RDerives g (π ++ f.roots ++ tsyms w) (π ++ tsyms f.yield ++ tsyms w)) := by
  intro n
  induction n with
  | zero =>
    constructor
    · intro t ht; cases t <;> simp [tsize] at ht
    · intro f hf _ π w
      cases f with
      | nil => simpa [Forest.roots, Forest.yield, tsyms] using RDerives.refl
      | cons t f => simp [fsize] at hf
  | succ n ih =>
    constructor
    · intro t ht hv π w
      cases t with
      | leaf a => simpa [Tree.root, Tree.yield, tsyms] using RDerives.refl
      | node l k cs =>
        simp only [tsize] at ht
        simp only [Tree.Valid] at hv
        have h1 := rd_step (g := g) π w hv.1
        have h2 := ih.2 cs (by omega) hv.2 π w
        simpa [Tree.root, Tree.yield] using rd_trans h1 h2
    · intro f hf hv π w
      cases f with
      | nil => simpa [Forest.roots, Forest.yield, tsyms] using RDerives.refl
      | cons t f =>
        simp only [fsize] at hf
        simp only [Forest.Valid] at hv
        have h1 := ih.2 f (by omega) hv.2 (π ++ [t.root]) w
        have h2 := ih.1 t (by omega) hv.1 π (f.yield ++ w)
        have h1' : RDerives g (π ++ (t.root :: f.roots) ++ tsyms w)
            (π ++ t.root :: tsyms (f.yield ++ w)) := by
          simpa [tsyms_append, List.append_assoc] using h1
        have := rd_trans h1' h2
        simpa [Forest.roots, Forest.yield, tsyms_append, List.append_assoc] using this

theorem tree_rd (g : Grammar) (t : Tree) (hv : t.Valid g) (π : List Sym) (w : List Nat) :
    RDerives g (π ++ t.root :: tsyms w) (π ++ tsyms t.yield ++ tsyms w) :=
  (tree_forest_rd g (tsize t)).1 t (Nat.le_refl _) hv π w

theorem forest_rd (g : Grammar) (f : Forest) (hv : f.Valid g) (π : List Sym) (w : List Nat) :
    RDerives g (π ++ f.roots ++ tsyms w) (π ++ tsyms f.yield ++ tsyms w) :=
  (tree_forest_rd g (fsize f)).2 f (Nat.le_refl _) hv π w

/-! ## the last step of the derivation of a terminal string -/

/-- `θ ⇒*rm z` (a terminal string) seen from its end: either `θ` is `z` already, or the derivation
    has a last step `θ' C x ⇒ θ' ρ x = z`, reached in every right-terminal context -/
def Exposed (g : Grammar) (θ : List Sym) (z : List Nat) : Prop :=
  θ = tsyms z ∨ ∃ (θ' : List Sym) (C k : Nat) (ρ : List Sym) (x : List Nat),
    (g.alts C)[k]? = some ρ ∧
    (∀ (π : List Sym) (w : List Nat),
      RDerives g (π ++ θ ++ tsyms w) (π ++ θ' ++ Sym.n C :: tsyms (x ++ w))) ∧
    θ' ++ ρ ++ tsyms x = tsyms z

theorem tree_forest_exposed (g : Grammar) : ∀ n : Nat,
    (∀ t : Tree, tsize t ≤ n → t.Valid g → Exposed g [t.root] t.yield) ∧
    (∀ f : Forest, fsize f ≤ n → f.Valid g → Exposed g f.roots f.yield) := by
  intro n
  induction n with
  | zero =>
    constructor
    · intro t ht; cases t <;> simp [tsize] at ht
    · intro f hf _
      cases f with
      | nil => exact Or.inl rfl
      | cons t f => simp [fsize] at hf
  | succ n ih =>
    constructor
    · intro t ht hv
      cases t with
      | leaf a => exact Or.inl rfl
      | node l k cs =>
        simp only [tsize] at ht
        simp only [Tree.Valid] at hv
        right
        rcases ih.2 cs (by omega) hv.2 with h | ⟨θ', C, k', ρ, x, hk, hd, he⟩
        · refine ⟨[], l, k, cs.roots, [], hv.1, ?_, ?_⟩
          · intro π w
            simpa [Tree.root] using RDerives.refl
          · simpa [Tree.yield, tsyms] using h
        · refine ⟨θ', C, k', ρ, x, hk, ?_, by simpa [Tree.yield] using he⟩
          intro π w
          have h1 := rd_step (g := g) π w hv.1
          have := rd_trans h1 (hd π w)
          simpa [Tree.root] using this
    · intro f hf hv
      cases f with
      | nil => exact Or.inl rfl
      | cons t f =>
        simp only [fsize] at hf
        simp only [Forest.Valid] at hv
        rcases ih.1 t (by omega) hv.1 with ht | ⟨θ', C, k', ρ, x, hk, hd, he⟩
        · -- the first tree is a leaf: the last step happens further right, if at all
          rcases ih.2 f (by omega) hv.2 with hf' | ⟨θ', C, k', ρ, x, hk, hd, he⟩
          · left
            simp only [Forest.roots, Forest.yield, tsyms_append]
            rw [← hf', ← ht]; rfl
          · right
            refine ⟨t.root :: θ', C, k', ρ, x, hk, ?_, ?_⟩
            · intro π w
              have := hd (π ++ [t.root]) w
              simpa [Forest.roots, List.append_assoc] using this
            · simp only [Forest.yield, tsyms_append]
              rw [← he, ← ht]; simp
        · -- the last step of the first tree is the last step of the forest
          right
          refine ⟨θ', C, k', ρ, x ++ f.yield, hk, ?_, ?_⟩
          · intro π w
            have h1 := forest_rd g f hv.2 (π ++ [t.root]) w
            have h2 := hd π (f.yield ++ w)
            have h1' : RDerives g (π ++ (t.root :: f.roots) ++ tsyms w)
                (π ++ [t.root] ++ tsyms (f.yield ++ w)) := by
              simpa [tsyms_append, List.append_assoc] using h1
            have := rd_trans h1' h2
            simpa [Forest.roots, List.append_assoc] using this
          · simp only [Forest.yield, tsyms_append]
            rw [← he]; simp

theorem forest_exposed (g : Grammar) (f : Forest) (hv : f.Valid g) : Exposed g f.roots f.yield :=
  (tree_forest_exposed g (fsize f)).2 f (Nat.le_refl _) hv

/-! ## lists of trees -/

def yields (ts : List Tree) : List Nat := (ts.map Tree.yield).flatten

theorem trees_rd (g : Grammar) (ts : List Tree) (hv : ∀ t ∈ ts, t.Valid g) (π : List Sym) (w : List Nat) :
    RDerives g (π ++ ts.map Tree.root ++ tsyms w) (π ++ tsyms (yields ts) ++ tsyms w) := by
  have := forest_rd g (Forest.ofList ts) (valid_ofList g ts hv) π w
  rwa [roots_ofList, yield_ofList] at this

theorem trees_exposed (g : Grammar) (ts : List Tree) (hv : ∀ t ∈ ts, t.Valid g) :
    Exposed g (ts.map Tree.root) (yields ts) := by
  have := forest_exposed g (Forest.ofList ts) (valid_ofList g ts hv)
  rwa [roots_ofList, yield_ofList] at this

/-- trees for any list of productive symbols -/
theorem trees_of_syms (G : Grammar) (N : Nat)
    (hp : ∀ k, k < N → ∃ t : Tree, t.Valid G ∧ t.root = .n k) :
    ∀ ψ : List Sym, (∀ s ∈ ψ, s ≠ .eps ∧ ∀ k, s = .n k → k < N) →
      ∃ ts : List Tree, ts.map Tree.root = ψ ∧ ∀ t ∈ ts, t.Valid G := by
  intro ψ
  induction ψ with
  | nil => intro _; exact ⟨[], rfl, by simp⟩
  | cons s ψ ih =>
    intro h
    obtain ⟨ts, h1, h2⟩ := ih (fun s' hs' => h s' (by simp [hs']))
    have hs := h s (by simp)
    cases s with
    | eps => exact absurd rfl hs.1
    | t a =>
      refine ⟨Tree.leaf a :: ts, by simp [Tree.root, h1], ?_⟩
      intro t ht
      simp only [List.mem_cons] at ht
      rcases ht with rfl | ht
      · trivial
      · exact h2 t ht
    | n k =>
      obtain ⟨t0, hv, hr⟩ := hp k (hs.2 k rfl)
      refine ⟨t0 :: ts, by simp [hr, h1], ?_⟩
      intro t ht
      simp only [List.mem_cons] at ht
      rcases ht with rfl | ht
      · exact hv
      · exact h2 t ht

/-- a sentential-form derivation, folded into trees over its start form -/
theorem sd_trees {G : Grammar} {φ ψ : List Sym} (h : SDerives G φ ψ) :
    ∀ ts : List Tree, ts.map Tree.root = ψ → (∀ t ∈ ts, t.Valid G) →
      ∃ ts' : List Tree, ts'.map Tree.root = φ ∧ (∀ t ∈ ts', t.Valid G) ∧ yields ts' = yields ts := by
  induction h with
  | refl α => intro ts h1 h2; exact ⟨ts, h1, h2, rfl⟩
  | @step pre post rhs β n k hk _ ih =>
    intro ts h1 h2
    obtain ⟨ts1, r1, v1, y1⟩ := ih ts h1 h2
    obtain ⟨tA, tpost, e1, r2, r3⟩ := List.map_eq_append_iff.mp r1
    obtain ⟨tpre, trhs, e2, r4, r5⟩ := List.map_eq_append_iff.mp r2
    subst e1 e2
    refine ⟨tpre ++ Tree.node n k (Forest.ofList trhs) :: tpost, ?_, ?_, ?_⟩
    · simp [r4, r3, Tree.root]
    · intro t ht
      simp only [List.mem_append, List.mem_cons] at ht
      rcases ht with ht | rfl | ht
      · exact v1 t (by simp [ht])
      · refine ⟨?_, valid_ofList G trhs (fun t' ht' => v1 t' (by simp [ht']))⟩
        rw [roots_ofList, r5]; exact hk
      · exact v1 t (by simp [ht])
    · rw [← y1]
      simp [yields, Tree.yield, yield_ofList]

/-! ## the symbols of sentential forms of the augmented grammar -/

/-- symbols of the user grammar: a terminal it uses, or one of its non-terminals -/
def SymOK (g : Grammar) : Sym → Prop
  | .eps => False
  | .t a => a ∈ g.terminals
  | .n k => k < g.numNT

/-- weaker: no ε, non-terminals of the user grammar -/
def NTOK (g : Grammar) (s : Sym) : Prop := s ≠ .eps ∧ ∀ k, s = .n k → k < g.numNT

theorem symOK_ntOK {g : Grammar} {s : Sym} (h : SymOK g s) : NTOK g s := by
  cases s with
  | eps => exact absurd h (by simp [SymOK])
  | t a => exact ⟨by simp, fun k hk => by cases hk⟩
  | n k => exact ⟨by simp, fun k' hk => by cases hk; exact h⟩

theorem alts_symOK {g : Grammar} (hg : g.Closed) {A : Nat} {rhs : List Sym} (h : rhs ∈ g.alts A) :
    ∀ s ∈ rhs, SymOK g s := by
  intro s hs
  obtain ⟨e, he, ha⟩ := mem_alts g A rhs h
  have h1 := (hg e he).2 rhs ha s hs
  cases s with
  | eps => exact absurd rfl h1.1
  | t a => exact alts_terminal h hs
  | n k => exact h1.2 k rfl

section Aug
variable (g : Grammar) (start eof : Nat)

theorem aug_alts_symOK (hg : g.Closed) {A : Nat} (hA : A < g.numNT) {k : Nat} {rhs : List Sym}
    (h : ((g.augment start eof).alts A)[k]? = some rhs) : ∀ s ∈ rhs, SymOK g s := by
  rw [augment_alts_lt g start eof A hA] at h
  exact alts_symOK hg (List.mem_of_getElem? h)

/-- a right sentential form of the augmented grammar is `S'` itself or consists of symbols of the
    user grammar (in particular it contains neither `S'` nor the end marker) -/
theorem rd_symOK (hg : g.Closed) (hs : start < g.numNT) {φ : List Sym}
    (h : RDerives (g.augment start eof) [.n g.numNT] φ) :
    φ = [.n g.numNT] ∨ ∀ s ∈ φ, SymOK g s := by
  induction h with
  | refl => exact Or.inl rfl
  | @tail b c _ hstep ih =>
    right
    cases hstep with
    | mk α A k β w hk =>
      rcases ih with h0 | h0
      · have hα : α = [] := by
          cases α with
          | nil => rfl
          | cons s α =>
            have := congrArg List.length h0
            simp at this
        subst hα
        simp only [List.nil_append, List.cons.injEq, Sym.n.injEq] at h0
        obtain ⟨hA, hw⟩ := h0
        have hw' : w = [] := by cases w with
          | nil => rfl
          | cons x w => simp [tsyms] at hw
        subst hA hw'
        rw [augment_alts_S g start eof hg] at hk
        have hβ : β = [.n start] := by
          cases k with
          | zero => simpa using hk.symm
          | succ k => simp at hk
        subst hβ
        intro s hs'
        simp only [List.nil_append, tsyms_nil, List.append_nil, List.mem_singleton] at hs'
        subst hs'
        exact hs
      · have hA : A < g.numNT := h0 (.n A) (by simp)
        intro s hs'
        simp only [List.mem_append] at hs'
        rcases hs' with (hs' | hs') | hs'
        · exact h0 s (by simp [hs'])
        · exact aug_alts_symOK g start eof hg hA hk s hs'
        · exact h0 s (by simp [hs'])

/-- sentential-form derivations of the augmented grammar stay inside the user grammar's symbols -/
theorem sd_ntOK (hg : g.Closed) {φ ψ : List Sym} (h : SDerives (g.augment start eof) φ ψ) :
    (∀ s ∈ φ, NTOK g s) → ∀ s ∈ ψ, NTOK g s := by
  induction h with
  | refl _ => exact fun h => h
  | @step pre post rhs β n k hk _ ih =>
    intro h
    apply ih
    have hn : n < g.numNT := (h (.n n) (by simp)).2 n rfl
    intro s hs'
    simp only [List.mem_append] at hs'
    rcases hs' with (hs' | hs') | hs'
    · exact h s (by simp [hs'])
    · exact symOK_ntOK (aug_alts_symOK g start eof hg hn hk s hs')
    · exact h s (by simp [hs'])

/-- trees of the user grammar are trees of the augmented grammar -/
theorem valid_aug (hg : g.Closed) : ∀ n : Nat,
    (∀ t : Tree, tsize t ≤ n → t.Valid g → t.Valid (g.augment start eof)) ∧
    (∀ f : Forest, fsize f ≤ n → f.Valid g → f.Valid (g.augment start eof)) := by
  intro n
  induction n with
  | zero =>
    constructor
    · intro t ht; cases t <;> simp [tsize] at ht
    · intro f hf _
      cases f with
      | nil => trivial
      | cons t f => simp [fsize] at hf
  | succ n ih =>
    constructor
    · intro t ht hv
      cases t with
      | leaf a => trivial
      | node l k cs =>
        simp only [tsize] at ht
        simp only [Tree.Valid] at hv ⊢
        have hl : l < g.numNT := alts_lhs_lt hg (List.mem_of_getElem? hv.1)
        rw [augment_alts_lt g start eof l hl]
        exact ⟨hv.1, ih.2 cs (by omega) hv.2⟩
    · intro f hf hv
      cases f with
      | nil => trivial
      | cons t f =>
        simp only [fsize] at hf
        simp only [Forest.Valid] at hv ⊢
        exact ⟨ih.1 t (by omega) hv.1, ih.2 f (by omega) hv.2⟩

theorem productive_aug (hg : g.Closed) (hp : g.Productive) :
    ∀ k, k < g.numNT → ∃ t : Tree, t.Valid (g.augment start eof) ∧ t.root = .n k := by
  intro k hk
  obtain ⟨w, t, hv, hr, _⟩ := hp k hk
  exact ⟨t, (valid_aug g start eof hg (tsize t)).1 t (Nat.le_refl _) hv, hr⟩

end Aug

end LRConverse
end Theo
