/-
  Growth of the token stream under macro rewriting, part 3: what holds for arbitrary (non-linear)
  bodies — a multiplicative bound per step, an exponential bound for the loop.
-/
import Theo.Proofs.GrowthProofsStep

namespace Theo

/-- a step of any macro: new length ≤ old length × max 1 (number of insertions) + body length -/
theorem step_growth_general (bs : List (List Detector)) (inp : List Token) (p : Nat) (m : MacroDef)
    (r : Response) (out : List Token) (h : applyStep bs inp p = some (mkDetector m, r, out)) :
    out.length ≤ inp.length * max 1 m.insertions + m.body.length := by
  obtain ⟨h1, h2, h3⟩ := step_length bs inp p m r out h
  have h4 := replacement_length_general m r p
  rw [h3] at h4
  cases hk : m.insertions with
  | zero =>
    rw [hk] at h4
    simp only [Nat.zero_mul, Nat.add_zero] at h4
    have h6 : max 1 0 = 1 := rfl
    rw [h6, Nat.mul_one]
    omega
  | succ k =>
    rw [hk, Nat.succ_mul] at h4
    have h5 : k * r.length ≤ k * inp.length := Nat.mul_le_mul_left _ h2
    have h6 : max 1 (k + 1) = k + 1 := by omega
    rw [h6, Nat.mul_comm inp.length (k + 1), Nat.succ_mul]
    omega

/-- the growth factor of a definition list: the maximal number of inserting `$n` tokens in a
    body, at least 2 -/
def growthFactor (defs : List MacroDef) : Nat := (defs.map (fun m => m.insertions)).foldr max 2

theorem two_le_growthFactor (defs : List MacroDef) : 2 ≤ growthFactor defs := by
  induction defs with
  | nil => exact Nat.le_refl _
  | cons x xs ih =>
    simp only [growthFactor, List.map_cons, List.foldr_cons] at ih ⊢
    omega

theorem insertions_le_growthFactor {defs : List MacroDef} {m : MacroDef} (h : m ∈ defs) :
    m.insertions ≤ growthFactor defs := by
  induction defs with
  | nil => cases h
  | cons x xs ih =>
    simp only [growthFactor, List.map_cons, List.foldr_cons]
    rcases List.mem_cons.mp h with rfl | h
    · exact Nat.le_max_left _ _
    · exact Nat.le_trans (ih h) (Nat.le_max_right _ _)

/-- if every step at most multiplies the length by `K ≥ 2` and adds `B`, then after `j` rewrites
    `length + B ≤ (initial length + B) × K ^ j` -/
theorem passLoop_growth_mul (bs : List (List Detector)) (K B : Nat) (hK : 2 ≤ K)
    (hstep : ∀ inp p d r out, applyStep bs inp p = some (d, r, out) →
      out.length ≤ inp.length * K + B) :
    ∀ (left pass : Nat) (inp : List Token) (n : Nat),
      ∃ j, (passLoop bs left pass inp n).2.1 = n + j ∧
        (passLoop bs left pass inp n).1.length + B ≤ (inp.length + B) * K ^ j := by
  intro left
  induction left with
  | zero => intro pass inp n; exact ⟨0, by simp [passLoop], by simp [passLoop]⟩
  | succ left ih =>
    intro pass inp n
    rw [passLoop_succ]
    cases h : applyStep bs inp pass with
    | none => exact ⟨0, by simp, by simp⟩
    | some x =>
      obtain ⟨d, r, inp'⟩ := x
      have h1 := hstep inp pass d r inp' h
      obtain ⟨j, hj1, hj2⟩ := ih (pass + 1) inp' (n + 1)
      refine ⟨j + 1, by simp only; omega, ?_⟩
      simp only
      have h2 : inp'.length + B ≤ (inp.length + B) * K := by
        have : B * 2 ≤ B * K := Nat.mul_le_mul_left _ hK
        rw [Nat.add_mul]
        omega
      calc (passLoop bs left (pass + 1) inp' (n + 1)).1.length + B
          ≤ (inp'.length + B) * K ^ j := hj2
        _ ≤ ((inp.length + B) * K) * K ^ j := Nat.mul_le_mul_right _ h2
        _ = (inp.length + B) * K ^ (j + 1) := by
            rw [Nat.mul_assoc, Nat.pow_succ, Nat.mul_comm K (K ^ j)]

/-- arbitrary bodies: exponential bound in the number of rewrites -/
theorem applyMacros_growth_general (inp : List Token) (defs : List MacroDef) (passes : Nat) :
    (applyMacros inp defs passes).toks.length + maxBody defs ≤
      (inp.length + maxBody defs) * growthFactor defs ^ (applyMacros inp defs passes).rewrites := by
  cases passes with
  | zero => simp [applyMacros]
  | succ k =>
    rw [applyMacros_succ_toks, applyMacros_succ_rewrites]
    have hstep : ∀ inp p d r out,
        applyStep (bins ((defs.map mkDetector).filter (·.usable))) inp p = some (d, r, out) →
        out.length ≤ inp.length * growthFactor defs + maxBody defs := by
      intro inp p d r out hs
      obtain ⟨m, hm, rfl, _⟩ := step_detector defs inp p d r out hs
      have h1 := step_growth_general _ inp p m r out hs
      have h2 : max 1 m.insertions ≤ growthFactor defs := by
        have := insertions_le_growthFactor hm
        have := two_le_growthFactor defs
        omega
      have h3 := Nat.mul_le_mul_left inp.length h2
      have h4 := body_le_maxBody hm
      omega
    obtain ⟨j, hj1, hj2⟩ := passLoop_growth_mul (bins ((defs.map mkDetector).filter (·.usable)))
      (growthFactor defs) (maxBody defs) (two_le_growthFactor defs) hstep (k + 1) 0 inp 0
    rw [hj1, Nat.zero_add]
    exact hj2

end Theo
