/-
  C07, part 6: from `siteCheck` to the site-aware validity of the whole program.
-/
import Theo.Proofs.SimEv5

set_option linter.unusedSimpArgs false
set_option linter.unusedSectionVars false

namespace Theo
namespace Sim
open Sem

theorem regionSitesOK_spec {p : Program} {exp : List ESite} {lo hi : Nat}
    (h : regionSitesOK p exp lo hi = true) :
    sitePositions p.code lo hi = exp.map (·.1) ∧
      ∀ x ∈ exp, (p.lineAt (x.1 : Int)).map posOfBp = some x.2.1 := by
  unfold regionSitesOK at h
  rw [Bool.and_eq_true, beq_iff_eq] at h
  refine ⟨h.1, fun x hx => ?_⟩
  have := List.all_eq_true.1 h.2 x hx
  simpa using this

/-- one routine body: exact positions and exact jump targets -/
theorem routine_T {p : Program} {e : VEnv} (he : e.code = p.code) {body : Stmts} {start : Nat}
    {G : Walk} {exp : List ESite} {kF : Nat} {pvF : Prev}
    (hchk : checkStmts e body ⟨start, [], []⟩ = some G) (hres : resolveOK p.code G = true)
    (hsites : sitesStmts e body ⟨start, [], []⟩ 0 none = some (exp, G, kF, pvF))
    (hreg : regionSitesOK p exp start (skipc p.code G.pc + 1) = true)
    (hje : jumpsExact exp G = true) :
    TAt p e G body start (skipc p.code G.pc) ∧ TRes p e G body (skipc p.code G.pc) := by
  obtain ⟨hsp, hline⟩ := regionSitesOK_spec hreg
  have hle := le_skipc p.code G.pc
  have hin : WalkIn p G (skipc p.code G.pc + 1) ⟨start, [], []⟩ 0 none exp G [] :=
    { sub := Sub.refl G
      inv := fun i hi' => absurd hi' (Nat.not_lt_zero i)
      pinv := fun q' hq' => by cases hq'
      sp := by simpa using hsp
      lb := fun y hy => nomatch hy
      hi := by omega
      line := hline }
  have out := consume_stmts he body hsites hin
  have hcur : cursor (⟨start, [], []⟩ : Walk) 0 none body = start := cursor_nonmark hsites rfl
  have htat := out.tat
  rw [hcur] at htat
  have hge := skipc_ge_of_run out.inv
  have hcl : Clean p.code (G.pc + kF) (skipc p.code G.pc + 1) := by
    intro x h1 h2 h3
    have : x ∈ sitePositions p.code (G.pc + kF) (skipc p.code G.pc + 1) :=
      mem_sitePositions.2 ⟨h1, h2, h3⟩
    rw [out.sp] at this
    cases this
  have hend : skipc p.code G.pc = G.pc + kF :=
    skipc_eq_of_run out.inv (hcl _ (Nat.le_refl _) (by omega))
  rw [hend]
  refine ⟨htat, ?_⟩
  intro pos off m hg
  have hj := List.all_eq_true.1 hje _ hg
  simp only at hj
  split at hj
  · rename_i x hfil
    rw [decide_eq_true_eq] at hj
    have hres' : resolveOK e.code G = true := by rw [he]; exact hres
    obtain ⟨ss', K', pm0, pcE0, hfl, _, _, _⟩ := goto_resolve hchk hres' hg
    obtain ⟨pm, q, pcE, hmem, h1, h2⟩ :=
      out.lab m .done (G.pc + kF) (by simp only [TKAt]) ss' K' hfl
    have : (pm, q, some m) ∈ exp.filter (fun x => x.2.2 == some m) := by
      rw [List.mem_filter]; exact ⟨hmem, by simp⟩
    rw [hfil, List.mem_singleton] at this
    subst this
    exact ⟨ss', K', pcE, hfl, pm, hj, h1, h2⟩
  · cases hj

/-! ### the two traversals of the routines agree -/

theorem site_joint (p : Program) (src : Source) : ∀ (rest : List ProgDef) (i : Nat)
    (infos : List RInfo) (pc : Nat) (infosF : List RInfo) (pcF : Nat) (infosS : List RInfo)
    (pcS : Nat), checkProgs p src rest i infos pc = some (infosF, pcF) →
    siteProgs p src rest i infos pc = some (infosS, pcS) →
    infosS = infosF ∧ pcS = pcF ∧ TSkips p.code pc pcF ∧
    ∀ k pd, rest[k]? = some pd → ∃ ri exp w kF pvF, infosF[infos.length + k]? = some ri ∧
      sitesStmts ⟨p.code, src, ri, i + k, infosF.take (infos.length + k)⟩ pd.body
        ⟨ri.entry, [], []⟩ 0 none = some (exp, w, kF, pvF) ∧
      regionSitesOK p exp ri.entry (skipc p.code w.pc + 1) = true ∧ jumpsExact exp w = true := by
  intro rest
  induction rest with
  | nil =>
    intro i infos pc infosF pcF infosS pcS h1 h2
    simp only [checkProgs, Option.some.injEq, Prod.mk.injEq] at h1
    simp only [siteProgs, Option.some.injEq, Prod.mk.injEq] at h2
    obtain ⟨rfl, rfl⟩ := h1
    obtain ⟨rfl, rfl⟩ := h2
    exact ⟨rfl, rfl, TSkips.refl _, fun k pd hk => by simp at hk⟩
  | cons pd rest ih =>
    intro i infos pc infosF pcF infosS pcS h1 h2
    simp only [siteProgs] at h2
    split at h2
    · rename_i offS smS hcS hsmS
      split at h2
      · rename_i exp wS kS pvS hsS
        split at h2
        · rename_i hokS
          rw [Bool.and_eq_true] at hokS
          have hsk : skipc p.code pc = pc := skipc_of_not_pb (by rw [hcS]; simp)
          simp only [checkProgs] at h1
          rw [hsk, hcS, hsmS] at h1
          simp only at h1
          split at h1
          · cases h1
          · split at h1
            · rename_i wC hcC
              have hwalk := sitesStmts_walk hsS
              rw [hwalk] at hcC
              cases hcC
              split at h1
              · rename_i r ro h4 h5
                split at h1
                · rename_i hc2
                  obtain ⟨rfl, hres, hoff⟩ := hc2
                  obtain ⟨more, g1, _, _, _⟩ := checkProgs_spec p src _ _ _ _ _ _ h1
                  obtain ⟨e1, e2, e3, e4⟩ := ih _ _ _ _ _ _ _ h1 h2
                  refine ⟨e1, e2, TSkips.jump hcS hoff e3, ?_⟩
                  intro k pd' hk
                  cases k with
                  | zero =>
                    simp only [List.getElem?_cons_zero, Option.some.injEq] at hk
                    subst hk
                    refine ⟨⟨pc + 1, i, smS.map⟩, exp, wS, kS, pvS, ?_, ?_, hokS.1, hokS.2⟩
                    · rw [g1]; simp
                    · have : infosF.take (infos.length + 0) = infos := by
                        rw [g1]; simp
                      rw [this]
                      exact hsS
                  | succ k =>
                    simp only [List.getElem?_cons_succ] at hk
                    obtain ⟨ri, exp', w', kF', pvF', q1, q2, q3, q4⟩ := e4 k pd' hk
                    simp only [List.length_append, List.length_cons, List.length_nil] at q1 q2
                    refine ⟨ri, exp', w', kF', pvF', ?_, ?_, q3, q4⟩
                    · rw [show infos.length + (k + 1) = infos.length + 0 + 1 + k by omega]; exact q1
                    · rw [show infos.length + (k + 1) = infos.length + 0 + 1 + k by omega,
                        show i + (k + 1) = i + 1 + k by omega]
                      exact q2
                · cases h1
              · cases h1
            · cases h1
        · cases h2
      · cases h2
    · cases h2

theorem bodyOf_lt {src : Source} {r : Nat} {pd : ProgDef} (h : src.progs[r]? = some pd) :
    bodyOf src r = pd.body := by
  unfold bodyOf; rw [h]

theorem bodyOf_root (src : Source) : bodyOf src src.progs.length = src.main := by
  unfold bodyOf; rw [List.getElem?_eq_none (Nat.le_refl _)]

/-- everything `siteCheck` establishes -/
theorem tvalid_of_siteCheck {src : Source} {p : Program} (h : siteCheck src p = true) :
    ∃ (V : Valid src p) (tend : Nat → Nat), V.OK ∧ TValid V tend := by
  unfold siteCheck at h
  rw [Bool.and_eq_true] at h
  obtain ⟨hshape, h⟩ := h
  obtain ⟨V, hV, hcp, hentry⟩ := valid_of_shapeCheck_strong hshape
  split at h
  · rename_i infosS pcS hsp
    obtain ⟨e1, e2, hskips, hper⟩ := site_joint p src _ _ _ _ _ _ _ _ hcp hsp
    subst e1 e2
    split at h
    · rename_i sm hsm
      simp only [] at h
      split at h
      · rename_i exp w kF pvF hmain
        simp only [Bool.and_eq_true] at h
        obtain ⟨⟨hreg, hje⟩, _⟩ := h
        refine ⟨V, fun r => skipc p.code (V.G r).pc, hV, ?_⟩
        -- the routines
        have hrout : ∀ r, r < src.progs.length →
            TAt p (V.env r) (V.G r) (bodyOf src r) (V.start r) (skipc p.code (V.G r).pc) ∧
            TRes p (V.env r) (V.G r) (bodyOf src r) (skipc p.code (V.G r).pc) := by
          intro r hr
          have hpd : src.progs[r]? = some src.progs[r] := List.getElem?_eq_getElem hr
          obtain ⟨ri, exp', w', kF', pvF', q1, q2, q3, q4⟩ := hper r _ hpd
          simp only [List.length_nil, Nat.zero_add] at q1 q2
          rw [hV.info r hr] at q1
          cases q1
          rw [hV.entry r hr] at q2 q3
          have q2' : sitesStmts (V.env r) (bodyOf src r) ⟨V.start r, [], []⟩ 0 none =
              some (exp', w', kF', pvF') := by rw [bodyOf_lt hpd]; exact q2
          have hw : w' = V.G r := by
            have := (sitesStmts_walk q2').symm.trans (hV.chk r (Nat.le_of_lt hr))
            cases this; rfl
          subst hw
          exact routine_T (e := V.env r) rfl (hV.chk r (Nat.le_of_lt hr)) (hV.res r (Nat.le_of_lt hr))
            q2' q3 q4
        -- the root
        have hroot : TAt p (V.env src.progs.length) (V.G src.progs.length) (bodyOf src src.progs.length)
              (V.start src.progs.length) (skipc p.code (V.G src.progs.length).pc) ∧
            TRes p (V.env src.progs.length) (V.G src.progs.length) (bodyOf src src.progs.length)
              (skipc p.code (V.G src.progs.length).pc) := by
          have henv : (⟨p.code, src, ⟨0, src.progs.length, sm.map⟩, src.progs.length, V.infos⟩ : VEnv) =
              V.env src.progs.length := by
            unfold Valid.env
            obtain ⟨sm', g1, g2⟩ := hV.regs _ (Nat.le_refl _)
            rw [hsm] at g1
            cases g1
            have g3 := hV.mi _ (Nat.le_refl _)
            rw [List.take_of_length_le (by rw [hV.len]; exact Nat.le_refl _)]
            congr 1
            cases hri : V.ri src.progs.length with
            | mk en mi regs =>
              rw [hri] at hentry g2 g3
              simp only at hentry g2 g3
              rw [hentry, g2, g3]
          rw [henv] at hmain
          have q2' : sitesStmts (V.env src.progs.length) (bodyOf src src.progs.length)
              ⟨V.start src.progs.length, [], []⟩ 0 none = some (exp, w, kF, pvF) := by
            rw [bodyOf_root]; exact hmain
          have hw : w = V.G src.progs.length := by
            have := (sitesStmts_walk q2').symm.trans (hV.chk _ (Nat.le_refl _))
            cases this; rfl
          subst hw
          rw [← hV.last] at hreg
          exact routine_T (e := V.env src.progs.length) rfl (hV.chk _ (Nat.le_refl _))
            (hV.res _ (Nat.le_refl _)) q2' hreg hje
        have hall : ∀ r, r ≤ src.progs.length →
            TAt p (V.env r) (V.G r) (bodyOf src r) (V.start r) (skipc p.code (V.G r).pc) ∧
            TRes p (V.env r) (V.G r) (bodyOf src r) (skipc p.code (V.G r).pc) := by
          intro r hr
          rcases Nat.lt_or_ge r src.progs.length with hlt | hge
          · exact hrout r hlt
          · have : r = src.progs.length := by omega
            subst this
            exact hroot
        refine ⟨fun r hr => (hall r hr).1, fun r hr => (hall r hr).2, ?_, hV.halt, hskips⟩
        intro r hr
        obtain ⟨pd, ro, g1, _, g3, g4⟩ := hV.rout r hr
        exact ⟨pd, ro, g1, at_code (e := V.env r) rfl g3, g4⟩
      · cases h
    · cases h
  · cases h

end Sim
end Theo
